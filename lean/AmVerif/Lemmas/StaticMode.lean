import AmVerif.Lemmas.Settle
import AmVerif.Model.History
/-!
# The static mode of the reloader (`enhance_hot_reloading`)

In static mode the cache follows the source "by itself": every batch of events is applied at once by
the reloader thread (`handle_events` → `update_if_static`), the switch itself (`use_static_ref`)
applies what was pending, and `hot_reload()` is a no-op (it only lets the reloader take the
registrations).

* `reloadAll_keeps_mode`, `runUpdate_static`, `runUpdate_toReload`, `reloadAll_inverse`,
  `runUpdate_inverse`, `drain_inverse`, `drain_graph_toReload` — bookkeeping of a pass / of a drain.
* `runUpdate_converges` — `reloadAll_converges` + `pinv_init` for `run_update`, with the bookkeeping.
* `takeEvents`, `enhanceState` — the state `handle_events` / `enhance` hand to `run_update`;
  `handleEvents_static`, `enhance_local`, `hotReload_static`, `hotReload_local` — the entry points
  as "drain, (take events), `run_update`, drain".
* `handleEvents_static_converges`, `enhance_converges` — one batch of events in static mode / the
  switch, from a `Pending` state (registrations of loads still in the channel).
* `prePass`, `HOp.runsPass`, `PassOK`, `StepOK`, `SInv`, `StaticHist`, `static_hist_settled` —
  histories of loads, `hot_reload`s, notifications and the switch under one environment.
-/
namespace AmVerif.Model
open AmVerif.Gen AmVerif.Lemmas.TopoGraph AmVerif.Lemmas.Topo

/-! ## Bookkeeping of a pass and of a drain -/

/-- a pass touches neither the set of changed entries nor the mode -/
theorem reloadAll_keeps_mode (env : Env) (fuel : Nat) :
    ∀ (keys : List Key) (s : St) (r : RSt),
      (reloadAll env fuel keys (s, r)).2.toReload = r.toReload ∧
      (reloadAll env fuel keys (s, r)).2.static_ = r.static_ := by
  intro keys
  induction keys with
  | nil => intro s r; exact ⟨rfl, rfl⟩
  | cons k ks ih =>
    intro s r
    simp only [reloadAll]
    split
    · exact ⟨rfl, rfl⟩
    · cases hg : r.graph.get (.asset k) with
      | none => exact ih s r
      | some node =>
        simp only []
        split
        · generalize reloadUntyped env fuel s k = y
          obtain ⟨s1, o⟩ := y
          cases o with
          | died => exact ⟨rfl, rfl⟩
          | done d =>
            cases d with
            | none => exact ih s1 r
            | some p =>
              obtain ⟨deps, b⟩ := p
              cases b with
              | false => exact ih s1 _
              | true => exact ih s1 _
        · exact ih s r

theorem reloadAll_inverse (env : Env) (fuel : Nat) :
    ∀ (keys : List Key) (s : St) (r : RSt), r.graph.Inverse → (reloadAll env fuel keys (s, r)).2.graph.Inverse := by
  intro keys
  induction keys with
  | nil => intro s r h; exact h
  | cons k ks ih =>
    intro s r h
    simp only [reloadAll]
    split
    · exact h
    · cases hg : r.graph.get (.asset k) with
      | none => exact ih s r h
      | some node =>
        simp only []
        split
        · generalize reloadUntyped env fuel s k = y
          obtain ⟨s1, o⟩ := y
          cases o with
          | died => exact h
          | done d =>
            cases d with
            | none => exact ih s1 r h
            | some p =>
              obtain ⟨deps, b⟩ := p
              cases b with
              | false => exact ih s1 _ (inverse_addDeps h _ _)
              | true => exact ih s1 _ (inverse_insertAsset h _ _)
        · exact ih s r h

theorem runUpdate_inverse (env : Env) (fuel : Nat) (s : St) (r : RSt) (h : r.graph.Inverse) :
    (runUpdate env fuel s r).2.graph.Inverse := by
  rcases runUpdate_form env fuel s r with ⟨_, e⟩ | ⟨keys, _, e⟩
  · rw [e]; exact h
  · rw [e]; exact reloadAll_inverse env fuel keys s _ h

/-- `run_update` never changes the mode -/
theorem runUpdate_static (env : Env) (fuel : Nat) (s : St) (r : RSt) :
    (runUpdate env fuel s r).2.static_ = r.static_ := by
  rcases runUpdate_form env fuel s r with ⟨_, e⟩ | ⟨keys, _, e⟩
  · rw [e]
  · rw [e]; exact (reloadAll_keeps_mode env fuel keys s _).2

/-- `run_update` that did not kill the thread has consumed the set of changed entries -/
theorem runUpdate_toReload (env : Env) (fuel : Nat) (s : St) (r : RSt)
    (h : (runUpdate env fuel s r).2.dead = false) : (runUpdate env fuel s r).2.toReload = [] := by
  rcases runUpdate_form env fuel s r with ⟨_, e⟩ | ⟨keys, _, e⟩
  · rw [e] at h; cases h
  · rw [e]; exact (reloadAll_keeps_mode env fuel keys s _).1

theorem drain_inverse (msgs : List Msg) (r : RSt) (h : r.graph.Inverse) : (drain msgs r).graph.Inverse := by
  unfold drain
  induction msgs generalizing r with
  | nil => exact h
  | cons m ms ih =>
    simp only [List.foldl]
    apply ih
    cases m with
    | addAsset key deps => exact inverse_insertAsset h _ _
    | clear => exact h

/-- a channel of registrations only (no `Clear`): the drain leaves the set of changed entries alone -/
theorem drain_toReload (msgs : List Msg) (r : RSt) (h : ∀ m, m ∈ msgs → ∃ k D, m = .addAsset k D) :
    (drain msgs r).toReload = r.toReload := by
  unfold drain
  induction msgs generalizing r with
  | nil => rfl
  | cons m ms ih =>
    simp only [List.foldl]
    obtain ⟨k, D, e⟩ := h m List.mem_cons_self
    subst e
    exact ih _ (fun m' hm' => h m' (List.mem_cons_of_mem _ hm'))

theorem processMsgs_inverse (s : St) (r : RSt) (h : r.graph.Inverse) : (processMsgs s r).2.graph.Inverse :=
  drain_inverse s.out r h

theorem processMsgs_toReload_nil (s : St) (r : RSt) (h : r.toReload = []) : (processMsgs s r).2.toReload = [] :=
  drain_toReload_nil s.out r h

theorem processMsgs_out (s : St) (r : RSt) : (processMsgs s r).1.out = [] := rfl

/-! ## `run_update` converges (the pass theorem with its bookkeeping) -/

/-- `reloadAll_converges` from `pinv_init`, for `run_update`: the statement of `C05_pass_converges_partial`
(with the half of the index exactness it uses) together with what the pass does to the reloader's
other fields. -/
theorem runUpdate_converges {env env' : Env} (hS : env.Steady) (hS' : env'.Steady) (hL : SameLoaders env env')
    {fuel : Nat} {s : St} {r : RSt} {changed : List Dep} {rank : Dep → Nat}
    (hset : Settled env fuel s r.graph) (hI : r.graph.Inverse)
    (hrank : ∀ a rs b, r.graph.rdepsOf a = some rs → b ∈ rs → rank b < rank a)
    (hlive : r.dead = false) (hfuel : r.graph.length + 1 ≤ fuel)
    (hfile : ∀ id ext, Dep.file id ext ∉ changed → env'.read 0 id ext = env.read 0 id ext)
    (hdir : ∀ id, Dep.dir id ∉ changed → env'.readDir 0 id = env.readDir 0 id)
    (hnotified : ∀ d, d ∈ changed → r.graph.get d ≠ none → d ∈ r.toReload)
    (hmiss : NoMissInPass env' fuel (updateSteps env' fuel s r))
    (hret : ReloadsReturn env' fuel (updateSteps env' fuel s r))
    (hrewire : NoRewireOntoPending env' fuel (updateSteps env' fuel s r)) :
    Settled env' fuel (runUpdate env' fuel s r).1 (runUpdate env' fuel s r).2.graph ∧
    (runUpdate env' fuel s r).2.dead = false ∧ (runUpdate env' fuel s r).1.out = s.out ∧
    (runUpdate env' fuel s r).2.toReload = [] ∧ (runUpdate env' fuel s r).2.static_ = r.static_ := by
  have h : Settled env' fuel (runUpdate env' fuel s r).1 (runUpdate env' fuel s r).2.graph ∧
      (runUpdate env' fuel s r).2.dead = false ∧ (runUpdate env' fuel s r).1.out = s.out := by
    obtain ⟨keys, hk⟩ := topo_terminates r.graph fuel hfuel r.toReload
    unfold updateSteps at hmiss hret hrewire
    rw [hk] at hmiss hret hrewire
    unfold runUpdate
    rw [hk]
    exact reloadAll_converges hS' keys s { r with toReload := [] }
      (pinv_init hS hS' hL hset hI hk hfile hdir hnotified) hlive (topo_nodup hk)
      (depsFirst_of_topo hI hrank hk) hmiss hret hrewire
  exact ⟨h.1, h.2.1, h.2.2, runUpdate_toReload env' fuel s r h.2.1, runUpdate_static env' fuel s r⟩

/-! ## The entry points as "drain, (take the events), `run_update`, drain" -/

/-- the state `handle_events` hands to `run_update` (in static mode): the messages of the channel
drained, the events the graph knows taken into the set of changed entries -/
def takeEvents (s : St) (r : RSt) (evs : List Dep) : St × RSt :=
  ((processMsgs s r).1,
   { (processMsgs s r).2 with
     toReload := keepEvents (processMsgs s r).2.graph evs (processMsgs s r).2.toReload })

/-- the state `enhance_hot_reloading` hands to `run_update`: the messages drained, the mode switched -/
def enhanceState (s : St) (r : RSt) : St × RSt :=
  ((processMsgs s r).1, { (processMsgs s r).2 with static_ := true })

theorem takeEvents_drained (s : St) (r : RSt) (evs : List Dep) (hout : s.out = []) :
    takeEvents s r evs = (s, { r with toReload := keepEvents r.graph evs r.toReload }) := by
  unfold takeEvents
  rw [processMsgs_nil s r hout]

theorem enhanceState_drained (s : St) (r : RSt) (hout : s.out = []) :
    enhanceState s r = (s, { r with static_ := true }) := by
  unfold enhanceState
  rw [processMsgs_nil s r hout]

/-- **`handle_events` in static mode**: drain, take the events, `run_update` at once, drain -/
theorem handleEvents_static (env : Env) (fuel : Nat) (s : St) (r : RSt) (evs : List Dep)
    (hd : r.dead = false) (hs : r.static_ = true) :
    handleEvents env fuel s r evs =
      processMsgs (runUpdate env fuel (takeEvents s r evs).1 (takeEvents s r evs).2).1
        (runUpdate env fuel (takeEvents s r evs).1 (takeEvents s r evs).2).2 := by
  have h1 : (drain s.out r).static_ = true := (drain_static s.out r).trans hs
  unfold handleEvents takeEvents keepEvents
  simp only [hd, Bool.false_eq_true, if_false, processMsgs_eq, h1, if_true]

/-- `handle_events` in local mode: drain, take the events -/
theorem handleEvents_local' (env : Env) (fuel : Nat) (s : St) (r : RSt) (evs : List Dep)
    (hd : r.dead = false) (hs : r.static_ = false) :
    handleEvents env fuel s r evs = takeEvents s r evs := by
  have h1 : (drain s.out r).static_ = false := (drain_static s.out r).trans hs
  unfold handleEvents takeEvents keepEvents
  simp only [hd, Bool.false_eq_true, if_false, processMsgs_eq, h1]

/-- **`enhance_hot_reloading` from the local mode**: drain, switch, `run_update`, drain -/
theorem enhance_local (env : Env) (fuel : Nat) (s : St) (r : RSt)
    (hd : r.dead = false) (hs : r.static_ = false) :
    enhance env fuel s r =
      processMsgs (runUpdate env fuel (enhanceState s r).1 (enhanceState s r).2).1
        (runUpdate env fuel (enhanceState s r).1 (enhanceState s r).2).2 := by
  have h1 : (drain s.out r).static_ = false := (drain_static s.out r).trans hs
  unfold enhance enhanceState
  simp only [hd, Bool.false_eq_true, if_false, processMsgs_eq, h1]

/-- `enhance_hot_reloading` in static mode already: only the messages are drained -/
theorem enhance_static (env : Env) (fuel : Nat) (s : St) (r : RSt)
    (hd : r.dead = false) (hs : r.static_ = true) : enhance env fuel s r = processMsgs s r := by
  have h1 : (drain s.out r).static_ = true := (drain_static s.out r).trans hs
  unfold enhance
  simp only [hd, Bool.false_eq_true, if_false, processMsgs_eq, h1, if_true]

/-- **`hot_reload()` in static mode is a no-op**: the reloader only takes the messages of the channel -/
theorem hotReload_static (env : Env) (fuel : Nat) (s : St) (r : RSt)
    (hd : r.dead = false) (hs : r.static_ = true) : hotReload env fuel s r = processMsgs s r := by
  have h1 : (drain s.out r).static_ = true := (drain_static s.out r).trans hs
  rw [hotReload_eq env fuel s r hd, h1, processMsgs_eq]
  rfl

/-- `hot_reload()` in local mode: drain, `run_update`, drain -/
theorem hotReload_local (env : Env) (fuel : Nat) (s : St) (r : RSt)
    (hd : r.dead = false) (hs : r.static_ = false) :
    hotReload env fuel s r =
      processMsgs (runUpdate env fuel (processMsgs s r).1 (processMsgs s r).2).1
        (runUpdate env fuel (processMsgs s r).1 (processMsgs s r).2).2 := by
  have h1 : (drain s.out r).static_ = false := (drain_static s.out r).trans hs
  rw [hotReload_eq env fuel s r hd, h1, processMsgs_eq]
  rfl

/-! ## One batch of events in static mode, and the switch -/

/-- drain-free tail of the three entry points: `run_update` from a drained, settled state, then the
(empty) drain of what the pass sent -/
theorem drainPass_converges {env env' : Env} (hS : env.Steady) (hS' : env'.Steady) (hL : SameLoaders env env')
    {fuel : Nat} {s : St} {r : RSt} {changed : List Dep} {rank : Dep → Nat}
    (hset : Settled env fuel s r.graph) (hI : r.graph.Inverse)
    (hrank : ∀ a rs b, r.graph.rdepsOf a = some rs → b ∈ rs → rank b < rank a)
    (hlive : r.dead = false) (hfuel : r.graph.length + 1 ≤ fuel)
    (hfile : ∀ id ext, Dep.file id ext ∉ changed → env'.read 0 id ext = env.read 0 id ext)
    (hdir : ∀ id, Dep.dir id ∉ changed → env'.readDir 0 id = env.readDir 0 id)
    (hnotified : ∀ d, d ∈ changed → r.graph.get d ≠ none → d ∈ r.toReload)
    (hmiss : NoMissInPass env' fuel (updateSteps env' fuel s r))
    (hret : ReloadsReturn env' fuel (updateSteps env' fuel s r))
    (hrewire : NoRewireOntoPending env' fuel (updateSteps env' fuel s r))
    (hout : s.out = []) :
    Settled env' fuel (processMsgs (runUpdate env' fuel s r).1 (runUpdate env' fuel s r).2).1
      (processMsgs (runUpdate env' fuel s r).1 (runUpdate env' fuel s r).2).2.graph ∧
    (processMsgs (runUpdate env' fuel s r).1 (runUpdate env' fuel s r).2).2.dead = false ∧
    (processMsgs (runUpdate env' fuel s r).1 (runUpdate env' fuel s r).2).1.out = [] ∧
    (processMsgs (runUpdate env' fuel s r).1 (runUpdate env' fuel s r).2).2.toReload = [] ∧
    (processMsgs (runUpdate env' fuel s r).1 (runUpdate env' fuel s r).2).2.static_ = r.static_ ∧
    (processMsgs (runUpdate env' fuel s r).1 (runUpdate env' fuel s r).2).2.graph.Inverse := by
  obtain ⟨h1, h2, h3, h4, h5⟩ := runUpdate_converges hS hS' hL hset hI hrank hlive hfuel hfile hdir hnotified
    hmiss hret hrewire
  rw [processMsgs_nil _ _ (h3.trans hout)]
  exact ⟨h1, h2, h3.trans hout, h4, h5, runUpdate_inverse env' fuel s r hI⟩

/-- **One batch of events in static mode** (general form: registrations of earlier loads may still be
in the channel — `Pending` —, they are taken first). -/
theorem handleEvents_static_converges {env env' : Env} (hS : env.Steady) (hS' : env'.Steady) (hL : SameLoaders env env')
    {fuel : Nat} {s : St} {r : RSt} {evs changed : List Dep} {rank : Dep → Nat}
    (hp : Pending env fuel s r.graph) (hI : r.graph.Inverse)
    (hrank : ∀ a rs b, (takeEvents s r evs).2.graph.rdepsOf a = some rs → b ∈ rs → rank b < rank a)
    (hlive : r.dead = false) (hstatic : r.static_ = true)
    (hfuel : (takeEvents s r evs).2.graph.length + 1 ≤ fuel)
    (hfile : ∀ id ext, Dep.file id ext ∉ changed → env'.read 0 id ext = env.read 0 id ext)
    (hdir : ∀ id, Dep.dir id ∉ changed → env'.readDir 0 id = env.readDir 0 id)
    (hnotified : ∀ d, d ∈ changed → (takeEvents s r evs).2.graph.get d ≠ none → d ∈ (takeEvents s r evs).2.toReload)
    (hmiss : NoMissInPass env' fuel (updateSteps env' fuel (takeEvents s r evs).1 (takeEvents s r evs).2))
    (hret : ReloadsReturn env' fuel (updateSteps env' fuel (takeEvents s r evs).1 (takeEvents s r evs).2))
    (hrewire : NoRewireOntoPending env' fuel (updateSteps env' fuel (takeEvents s r evs).1 (takeEvents s r evs).2)) :
    Settled env' fuel (handleEvents env' fuel s r evs).1 (handleEvents env' fuel s r evs).2.graph ∧
    (handleEvents env' fuel s r evs).2.dead = false ∧ (handleEvents env' fuel s r evs).1.out = [] ∧
    (handleEvents env' fuel s r evs).2.toReload = [] ∧ (handleEvents env' fuel s r evs).2.static_ = true ∧
    (handleEvents env' fuel s r evs).2.graph.Inverse := by
  rw [handleEvents_static env' fuel s r evs hlive hstatic]
  have hset1 : Settled env fuel (takeEvents s r evs).1 (takeEvents s r evs).2.graph := hp.drain hS
  have hI1 : (takeEvents s r evs).2.graph.Inverse := processMsgs_inverse s r hI
  have hl1 : (takeEvents s r evs).2.dead = false := (processMsgs_dead s r).trans hlive
  have hs1 : (takeEvents s r evs).2.static_ = true := (processMsgs_static s r).trans hstatic
  obtain ⟨c1, c2, c3, c4, c5, c6⟩ := drainPass_converges hS hS' hL hset1 hI1 hrank hl1 hfuel hfile hdir hnotified
    hmiss hret hrewire rfl
  exact ⟨c1, c2, c3, c4, c5.trans hs1, c6⟩

/-- **The switch to static mode** from the local mode (general form: `Pending`). -/
theorem enhance_converges {env env' : Env} (hS : env.Steady) (hS' : env'.Steady) (hL : SameLoaders env env')
    {fuel : Nat} {s : St} {r : RSt} {changed : List Dep} {rank : Dep → Nat}
    (hp : Pending env fuel s r.graph) (hI : r.graph.Inverse)
    (hrank : ∀ a rs b, (enhanceState s r).2.graph.rdepsOf a = some rs → b ∈ rs → rank b < rank a)
    (hlive : r.dead = false) (hlocal : r.static_ = false)
    (hfuel : (enhanceState s r).2.graph.length + 1 ≤ fuel)
    (hfile : ∀ id ext, Dep.file id ext ∉ changed → env'.read 0 id ext = env.read 0 id ext)
    (hdir : ∀ id, Dep.dir id ∉ changed → env'.readDir 0 id = env.readDir 0 id)
    (hnotified : ∀ d, d ∈ changed → (enhanceState s r).2.graph.get d ≠ none → d ∈ (enhanceState s r).2.toReload)
    (hmiss : NoMissInPass env' fuel (updateSteps env' fuel (enhanceState s r).1 (enhanceState s r).2))
    (hret : ReloadsReturn env' fuel (updateSteps env' fuel (enhanceState s r).1 (enhanceState s r).2))
    (hrewire : NoRewireOntoPending env' fuel (updateSteps env' fuel (enhanceState s r).1 (enhanceState s r).2)) :
    Settled env' fuel (enhance env' fuel s r).1 (enhance env' fuel s r).2.graph ∧
    (enhance env' fuel s r).2.dead = false ∧ (enhance env' fuel s r).1.out = [] ∧
    (enhance env' fuel s r).2.toReload = [] ∧ (enhance env' fuel s r).2.static_ = true ∧
    (enhance env' fuel s r).2.graph.Inverse := by
  rw [enhance_local env' fuel s r hlive hlocal]
  have hset1 : Settled env fuel (enhanceState s r).1 (enhanceState s r).2.graph := hp.drain hS
  have hI1 : (enhanceState s r).2.graph.Inverse := processMsgs_inverse s r hI
  have hl1 : (enhanceState s r).2.dead = false := (processMsgs_dead s r).trans hlive
  obtain ⟨c1, c2, c3, c4, c5, c6⟩ := drainPass_converges hS hS' hL hset1 hI1 hrank hl1 hfuel hfile hdir hnotified
    hmiss hret hrewire rfl
  exact ⟨c1, c2, c3, c4, c5, c6⟩

/-! ## Histories of loads, `hot_reload`s, notifications and the switch, under one environment -/

/-- a step of the reloader thread (not an API operation of the cache) -/
def HOp.isReloader : HOp → Bool
  | .api _ => false
  | _ => true

/-- the state the reloader step `op` hands to `run_update` when it runs one (`HOp.runsPass`) — and the
state it ends in when it does not (`hstep_noPass`) -/
def prePass : HOp → St × RSt → St × RSt
  | .notify evs, x => takeEvents x.1 x.2 evs
  | .enhance, x => enhanceState x.1 x.2
  | .hotReload, x => processMsgs x.1 x.2
  | .api _, x => x

/-- does the reloader step run `run_update`? `handle_events` in static mode, `hot_reload()` and the
switch in local mode -/
def HOp.runsPass : HOp → RSt → Bool
  | .notify _, r => r.static_
  | .hotReload, r => !r.static_
  | .enhance, r => !r.static_
  | .api _, _ => false

theorem RSt.static_eta (r : RSt) (h : r.static_ = true) : { r with static_ := true } = r := by
  cases r
  simp only [] at h
  subst h
  rfl

theorem prePass_facts (op : HOp) (hop : op.isReloader = true) (x : St × RSt) :
    (prePass op x).1 = (processMsgs x.1 x.2).1 ∧ (prePass op x).2.graph = (processMsgs x.1 x.2).2.graph ∧
    (prePass op x).2.dead = x.2.dead := by
  cases op with
  | api o => cases hop
  | notify evs => exact ⟨rfl, rfl, processMsgs_dead x.1 x.2⟩
  | hotReload => exact ⟨rfl, rfl, processMsgs_dead x.1 x.2⟩
  | enhance => exact ⟨rfl, rfl, processMsgs_dead x.1 x.2⟩

/-- a reloader step that runs no pass ends in `prePass` -/
theorem hstep_noPass (env : Env) (fuel : Nat) (op : HOp) (hop : op.isReloader = true) (x : St × RSt)
    (hd : x.2.dead = false) (hrp : op.runsPass x.2 = false) : hstep fuel (env, op) x = prePass op x := by
  obtain ⟨s, r⟩ := x
  cases op with
  | api o => cases hop
  | notify evs => exact handleEvents_local' env fuel s r evs hd hrp
  | hotReload =>
    have hs : r.static_ = true := by simpa [HOp.runsPass] using hrp
    exact hotReload_static env fuel s r hd hs
  | enhance =>
    have hs : r.static_ = true := by simpa [HOp.runsPass] using hrp
    show enhance env fuel s r = enhanceState s r
    rw [enhance_static env fuel s r hd hs]
    unfold enhanceState
    rw [RSt.static_eta _ ((processMsgs_static s r).trans hs)]

/-- a reloader step that runs a pass: `run_update` from `prePass`, then the drain -/
theorem hstep_pass (env : Env) (fuel : Nat) (op : HOp) (x : St × RSt)
    (hd : x.2.dead = false) (hrp : op.runsPass x.2 = true) :
    hstep fuel (env, op) x =
      processMsgs (runUpdate env fuel (prePass op x).1 (prePass op x).2).1
        (runUpdate env fuel (prePass op x).1 (prePass op x).2).2 := by
  obtain ⟨s, r⟩ := x
  cases op with
  | api o => cases hrp
  | notify evs => exact handleEvents_static env fuel s r evs hd hrp
  | hotReload =>
    have hs : r.static_ = false := by simpa [HOp.runsPass] using hrp
    exact hotReload_local env fuel s r hd hs
  | enhance =>
    have hs : r.static_ = false := by simpa [HOp.runsPass] using hrp
    exact enhance_local env fuel s r hd hs

/-- after a reloader step that runs no pass, a reloader in static mode still has nothing pending -/
theorem prePass_idle (op : HOp) (x : St × RSt) (hrp : op.runsPass x.2 = false)
    (hidle : x.2.static_ = true → x.2.toReload = []) :
    (prePass op x).2.static_ = true → (prePass op x).2.toReload = [] := by
  cases op with
  | api o => exact hidle
  | notify evs =>
    intro h
    have h1 : x.2.static_ = true := (processMsgs_static x.1 x.2).symm.trans h
    have h2 : x.2.static_ = false := hrp
    rw [h1] at h2; cases h2
  | hotReload =>
    intro _
    have hs : x.2.static_ = true := by simpa [HOp.runsPass] using hrp
    exact processMsgs_toReload_nil x.1 x.2 (hidle hs)
  | enhance =>
    intro _
    have hs : x.2.static_ = true := by simpa [HOp.runsPass] using hrp
    exact processMsgs_toReload_nil x.1 x.2 (hidle hs)

/-- the hypotheses on ONE pass of a history (the pass `run_update` performs from `y`): acyclic
look-ups, enough fuel for the sort, and the three named hypotheses of `C05_pass_converges_partial` -/
structure PassOK (env : Env) (fuel : Nat) (y : St × RSt) : Prop where
  acyclic : ∃ rank : Dep → Nat, ∀ a rs b, y.2.graph.rdepsOf a = some rs → b ∈ rs → rank b < rank a
  enough : y.2.graph.length + 1 ≤ fuel
  noMiss : NoMissInPass env fuel (updateSteps env fuel y.1 y.2)
  returns : ReloadsReturn env fuel (updateSteps env fuel y.1 y.2)
  noRewire : NoRewireOntoPending env fuel (updateSteps env fuel y.1 y.2)

/-- the named hypotheses on an API operation that changes the cache, as in `LoadHist`: `LoadOK` for a
load, the two no-fill hypotheses for `get_or_insert`, `NoDependentOn` for `remove` / `take` -/
def ApiOK (env : Env) (fuel : Nat) : Op → St × RSt → Prop
  | .load key, x => LoadOK env fuel x.1 x.2 key
  | .getOrInsert key v, x =>
      NoProbedKeyFilled x.1 (step env fuel x.1 (.getOrInsert key v)).1 x.2.graph ∧
      NoPendingKeyFilled x.1 (step env fuel x.1 (.getOrInsert key v)).1
  | .remove key, x => NoDependentOn x.1 x.2.graph key
  | .take key, x => NoDependentOn x.1 x.2.graph key
  | _, _ => False

/-- **The per-step hypotheses of a history.** API operations: the operation leaves the cache as it is
(`get_cached`, `contains`, …) or satisfies `ApiOK`. Reloader steps: when the step runs `run_update`
(`HOp.runsPass`) and there is something to reload, that pass satisfies `PassOK`. -/
def StepOK (env : Env) (fuel : Nat) : HOp → St × RSt → Prop
  | .api o, x => (step env fuel x.1 o).1 = x.1 ∨ ApiOK env fuel o x
  | op, x => op.runsPass x.2 = true → (prePass op x).2.toReload ≠ [] → PassOK env fuel (prePass op x)

theorem StepOK.load {env : Env} {fuel : Nat} {x : St × RSt} {key : Key} (h : LoadOK env fuel x.1 x.2 key) :
    StepOK env fuel (.api (.load key)) x := Or.inr h

theorem StepOK.look {env : Env} {fuel : Nat} {x : St × RSt} {o : Op} (h : (step env fuel x.1 o).1 = x.1) :
    StepOK env fuel (.api o) x := Or.inl h

/-- invariant of the histories: between two reloader steps registrations may be in the channel
(`Pending`: in static mode the registrations of a load are only taken at the next reloader step); the
reloader is alive; the index is exact (the half the sort needs); in static mode nothing is pending -/
structure SInv (env : Env) (fuel : Nat) (x : St × RSt) : Prop where
  pending : Pending env fuel x.1 x.2.graph
  live : x.2.dead = false
  inv : x.2.graph.Inverse
  idle : x.2.static_ = true → x.2.toReload = []

theorem SInv.init (env : Env) (fuel : Nat) : SInv env fuel ({}, {}) :=
  ⟨Pending.of_settled rfl (fun _ _ _ h => by cases h), rfl, inverse_nil, fun _ => rfl⟩

theorem SInv.of_hinv {env : Env} {fuel : Nat} {x : St × RSt} (h : HInv env fuel x) (hI : x.2.graph.Inverse) :
    SInv env fuel x := ⟨h.pending, h.live, hI, fun _ => h.idle⟩

/-- **A reloader step** (`hot_reload()`, `handle_events`, the switch) under the unchanged environment:
afterwards the channel is drained and everything registered and cached is settled. -/
theorem SInv.step_reloader {env : Env} (hS : env.Steady) {fuel : Nat} {x : St × RSt} (h : SInv env fuel x)
    (op : HOp) (hop : op.isReloader = true)
    (hok : op.runsPass x.2 = true → (prePass op x).2.toReload ≠ [] → PassOK env fuel (prePass op x)) :
    Settled env fuel (hstep fuel (env, op) x).1 (hstep fuel (env, op) x).2.graph ∧
    (hstep fuel (env, op) x).1.out = [] ∧ SInv env fuel (hstep fuel (env, op) x) := by
  obtain ⟨p1, p2, p3⟩ := prePass_facts op hop x
  have hsetP : Settled env fuel (prePass op x).1 (prePass op x).2.graph := by
    rw [p1, p2]; exact h.pending.drain hS
  have hinvP : (prePass op x).2.graph.Inverse := by rw [p2]; exact processMsgs_inverse _ _ h.inv
  have hliveP : (prePass op x).2.dead = false := p3.trans h.live
  have houtP : (prePass op x).1.out = [] := by rw [p1]; rfl
  cases hrp : op.runsPass x.2 with
  | false =>
    rw [hstep_noPass env fuel op hop x h.live hrp]
    exact ⟨hsetP, houtP, ⟨Pending.of_settled houtP hsetP, hliveP, hinvP, prePass_idle op x hrp h.idle⟩⟩
  | true =>
    rw [hstep_pass env fuel op x h.live hrp]
    by_cases ht : (prePass op x).2.toReload = []
    · rw [runUpdate_idle env fuel _ _ ht, processMsgs_nil _ _ houtP]
      exact ⟨hsetP, houtP, ⟨Pending.of_settled houtP hsetP, hliveP, hinvP, fun _ => rfl⟩⟩
    · obtain ⟨⟨rank, hrank⟩, hf, m1, m2, m3⟩ := hok hrp ht
      obtain ⟨c1, c2, c3, c4, _, c6⟩ := drainPass_converges hS hS (SameLoaders.refl hS) hsetP hinvP hrank hliveP hf
        (changed := []) (fun _ _ _ => rfl) (fun _ _ => rfl) (fun d hd => by cases hd) m1 m2 m3 houtP
      exact ⟨c1, c3, ⟨Pending.of_settled c3 c1, c2, c6, fun _ => c4⟩⟩

/-- **An API step** keeps the invariant (the reloader's data is untouched; registrations pile up in the
channel) -/
theorem SInv.step_api {env : Env} (hS : env.Steady) {fuel : Nat} {x : St × RSt} (h : SInv env fuel x)
    (o : Op) (hok : StepOK env fuel (.api o) x) : SInv env fuel (hstep fuel (env, .api o) x) := by
  obtain ⟨s, r⟩ := x
  have hp : Pending env fuel (step env fuel s o).1 r.graph := by
    rcases hok with e | hok
    · rw [show (step env fuel s o).1 = s from e]; exact h.pending
    · cases o with
      | load key => exact load_pending hS key h.pending hok
      | getOrInsert key v =>
        obtain ⟨f1, f2, f3⟩ := step_getOrInsert_facts env fuel s key v
        exact h.pending.extend_static hS f1 f2 f3 hok.1 hok.2
      | remove key =>
        obtain ⟨f1, f2, f3⟩ := step_remove_facts env fuel s key
        exact h.pending.remove hS f1 f2 f3 hok
      | take key =>
        obtain ⟨f1, f2, f3⟩ := step_take_facts env fuel s key
        exact h.pending.remove hS f1 f2 f3 hok
      | loadOwned key => exact hok.elim
      | getCached key => exact hok.elim
      | contains key => exact hok.elim
      | clear => exact hok.elim
  exact ⟨hp, h.live, h.inv, h.idle⟩

/-- **The histories of the static-mode statement**: loads (and the other API operations `LoadHist`
admits), `hot_reload()`, notifications and the switch, all under the ONE environment `env`, every step
satisfying `StepOK` in the state it starts from. -/
inductive StaticHist (env : Env) (fuel : Nat) : List (Env × HOp) → St × RSt → Prop
  | nil (x : St × RSt) : StaticHist env fuel [] x
  | cons (op : HOp) (rest : List (Env × HOp)) (x : St × RSt) :
      StepOK env fuel op x → StaticHist env fuel rest (hstep fuel (env, op) x) →
      StaticHist env fuel ((env, op) :: rest) x

theorem SInv.step {env : Env} (hS : env.Steady) {fuel : Nat} {x : St × RSt} (h : SInv env fuel x)
    (op : HOp) (hok : StepOK env fuel op x) :
    SInv env fuel (hstep fuel (env, op) x) ∧
    (op.isReloader = true →
      Settled env fuel (hstep fuel (env, op) x).1 (hstep fuel (env, op) x).2.graph ∧
      (hstep fuel (env, op) x).1.out = []) := by
  cases op with
  | api o => exact ⟨h.step_api hS o hok, fun e => by cases e⟩
  | notify evs =>
    obtain ⟨a, b, c⟩ := h.step_reloader hS (.notify evs) rfl hok
    exact ⟨c, fun _ => ⟨a, b⟩⟩
  | hotReload =>
    obtain ⟨a, b, c⟩ := h.step_reloader hS .hotReload rfl hok
    exact ⟨c, fun _ => ⟨a, b⟩⟩
  | enhance =>
    obtain ⟨a, b, c⟩ := h.step_reloader hS .enhance rfl hok
    exact ⟨c, fun _ => ⟨a, b⟩⟩

/-- **Histories in which the reloader may be switched to static mode**: the invariant holds at the end,
and after EVERY reloader step of the history — every `hot_reload()`, every batch of events (in static
mode: applied at once; in local mode: only taken), every `enhance_hot_reloading` — the channel is
drained, everything registered and cached is settled, the reloader is alive, and in static mode nothing
is pending. -/
theorem static_hist_settled {env : Env} (hS : env.Steady) {fuel : Nat} {h : List (Env × HOp)} {x : St × RSt}
    (hh : StaticHist env fuel h x) (hx : SInv env fuel x) :
    SInv env fuel (runH fuel h x) ∧
    ∀ h1 op h2, h = h1 ++ (env, op) :: h2 → op.isReloader = true →
      Settled env fuel (runH fuel (h1 ++ [(env, op)]) x).1 (runH fuel (h1 ++ [(env, op)]) x).2.graph ∧
      (runH fuel (h1 ++ [(env, op)]) x).1.out = [] ∧ SInv env fuel (runH fuel (h1 ++ [(env, op)]) x) := by
  induction hh with
  | nil x => exact ⟨hx, fun h1 op h2 e => by cases h1 <;> cases e⟩
  | cons op0 rest x hok _ ih =>
    obtain ⟨j1, j2⟩ := hx.step hS op0 hok
    obtain ⟨i1, i2⟩ := ih j1
    refine ⟨i1, fun h1 op h2 e hop => ?_⟩
    cases h1 with
    | nil =>
      simp only [List.nil_append, List.cons.injEq, Prod.mk.injEq] at e
      obtain ⟨⟨_, eo⟩, _⟩ := e
      subst eo
      obtain ⟨a, b⟩ := j2 hop
      exact ⟨a, b, j1⟩
    | cons a h1' =>
      simp only [List.cons_append, List.cons.injEq] at e
      obtain ⟨ea, er⟩ := e
      subst ea
      exact i2 h1' op h2 er hop

/-- the invariant holds after every prefix of the history -/
theorem static_hist_prefix {env : Env} (hS : env.Steady) {fuel : Nat} {h : List (Env × HOp)} {x : St × RSt}
    (hh : StaticHist env fuel h x) (hx : SInv env fuel x) :
    ∀ h1 h2, h = h1 ++ h2 → SInv env fuel (runH fuel h1 x) := by
  induction hh with
  | nil x =>
    intro h1 h2 e
    cases h1 with
    | nil => exact hx
    | cons a h1' => cases e
  | cons op0 rest x hok _ ih =>
    intro h1 h2 e
    cases h1 with
    | nil => exact hx
    | cons a h1' =>
      simp only [List.cons_append, List.cons.injEq] at e
      obtain ⟨ea, er⟩ := e
      subst ea
      exact ih (hx.step hS op0 hok).1 h1' h2 er

/-- after `enhance_hot_reloading` a live reloader is in static mode -/
theorem enhance_static_after (env : Env) (fuel : Nat) (s : St) (r : RSt) (hd : r.dead = false) :
    (enhance env fuel s r).2.static_ = true := by
  cases hs : r.static_ with
  | true => rw [enhance_static env fuel s r hd hs]; exact (processMsgs_static s r).trans hs
  | false =>
    rw [enhance_local env fuel s r hd hs, processMsgs_static, runUpdate_static]
    rfl

/-- a reloader step that has nothing to reload needs no hypothesis -/
theorem StepOK.of_idle {env : Env} {fuel : Nat} {op : HOp} {x : St × RSt} (hop : op.isReloader = true)
    (h : (prePass op x).2.toReload = []) : StepOK env fuel op x := by
  cases op with
  | api o => cases hop
  | notify evs => exact fun _ hne => absurd h hne
  | hotReload => exact fun _ hne => absurd h hne
  | enhance => exact fun _ hne => absurd h hne

/-- a reloader step whose pass satisfies `PassOK` -/
theorem StepOK.of_pass {env : Env} {fuel : Nat} {op : HOp} {x : St × RSt} (hop : op.isReloader = true)
    (h : PassOK env fuel (prePass op x)) : StepOK env fuel op x := by
  cases op with
  | api o => cases hop
  | notify evs => exact fun _ _ => h
  | hotReload => exact fun _ _ => h
  | enhance => exact fun _ _ => h

/-- `PassOK` from the executable checks -/
theorem PassOK.of_checks {env : Env} {fuel : Nat} {y : St × RSt} (rank : Dep → Nat)
    (hrank : ∀ x ∈ y.2.graph, ∀ b ∈ x.2.rdeps, rank b < rank x.1)
    (hfuel : y.2.graph.length + 1 ≤ fuel)
    (h1 : stepsHitB env fuel (updateSteps env fuel y.1 y.2) = true)
    (h2 : stepsReturnB env fuel (updateSteps env fuel y.1 y.2) = true)
    (h3 : noRewireB env fuel (updateSteps env fuel y.1 y.2) = true) : PassOK env fuel y :=
  ⟨⟨rank, rank_of_entries hrank⟩, hfuel, noMiss_of_check h1, reloadsReturn_of_check h2, noRewire_of_check h3⟩

/-- every history of `LoadHist` is one of `StaticHist` (its `hot_reload()`s have nothing to reload) -/
theorem StaticHist.of_loadHist {env : Env} (hS : env.Steady) {fuel : Nat} {h : List (Env × HOp)} {x : St × RSt}
    (hh : LoadHist env fuel h x) (hx : HInv env fuel x) : StaticHist env fuel h x := by
  induction hh with
  | nil x => exact .nil x
  | load key rest s r hok _ ih => exact .cons _ _ _ (Or.inr hok) (ih (hx.step_load hS hok))
  | hotReload rest x _ ih =>
    exact .cons _ _ _ (StepOK.of_idle rfl (processMsgs_toReload_nil _ _ hx.idle)) (ih (hx.step_hotReload hS).2.2)
  | insert key v rest s r h1 h2 _ ih => exact .cons _ _ _ (Or.inr ⟨h1, h2⟩) (ih (hx.step_insert hS h1 h2))
  | remove key rest s r hd _ ih => exact .cons _ _ _ (Or.inr hd) (ih (hx.step_remove hS hd))
  | take key rest s r hd _ ih => exact .cons _ _ _ (Or.inr hd) (ih (hx.step_take hS hd))
  | look op rest x hop _ ih =>
    have hstep' : hstep fuel (env, .api op) x = x := by
      obtain ⟨s, r⟩ := x
      show ((step env fuel s op).1, r) = (s, r)
      rw [show (step env fuel s op).1 = s from hop]
    exact .cons _ _ _ (Or.inl hop) (by rw [hstep']; exact ih hx)

end AmVerif.Model
