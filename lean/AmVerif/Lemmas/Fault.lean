import AmVerif.Lemmas.World
import AmVerif.Model.Reload
/-!
# Lemmas for C09 (faults while loading are contained)

* `withFrame_lookup`, `loadAndRecord_lookup` — the frame machinery and the registration step never
  touch the map: the map after `load_and_record` is the map the loader body left.
* `Sim` / `eval_sim` — an evaluation consults nothing of the state but the map, the address counter
  and the recording stack; under an environment whose answers do not depend on the running read /
  checkpoint index (`Env.Steady`: no fault plan left), two states that differ only in counters and
  logs (what a failed attempt leaves behind) evaluate every program to the same outcome.
-/
namespace AmVerif.Model
open AmVerif.Gen

/-! ### The map after the frame machinery is the map the body left -/

/-- the state the loader body of `withFrame push frame` starts from -/
def frameStart (push : Bool) (frame : Option (List Dep)) (s : St) : St :=
  if push then { s with recs := frame :: s.recs } else s

theorem withFrame_lookup (push frame) (body : St → St × Outcome) (s : St) (k : Key) :
    (withFrame push frame body s).1.lookup k = (body (frameStart push frame s)).1.lookup k := by
  unfold withFrame frameStart
  cases push <;> simp [St.lookup]

theorem withFrame_outcome (push frame) (body : St → St × Outcome) (s : St) :
    (withFrame push frame body s).2.1 = (body (frameStart push frame s)).2 := by
  unfold withFrame frameStart
  cases push <;> simp

theorem St.recordAll_lookup (s : St) (on ds) (k : Key) : (s.recordAll on ds).lookup k = s.lookup k := by
  unfold St.lookup; rw [St.recordAll_map]

theorem loadAndRecord_lookup (env : Env) (body : St → St × Outcome) (key : Key) (s : St) (k : Key) :
    (loadAndRecord env body key s).1.lookup k =
      (body (frameStart (recordsAsset (env.types key.ty).hot env.hasReloader) (some []) s)).1.lookup k := by
  rw [← withFrame_lookup]
  unfold loadAndRecord
  generalize withFrame _ (some []) body s = r
  obtain ⟨s1, o, d⟩ := r
  cases o with
  | ok v => simp only []; split <;> rfl
  | err e => simp only []; exact St.recordAll_lookup _ _ _ _
  | panicked => rfl
  | diverged => rfl

/-- `load_and_record` is `ok` exactly when the loader body is. -/
theorem loadAndRecord_ok_iff (env : Env) (body : St → St × Outcome) (key : Key) (s : St) (v : Val) :
    (loadAndRecord env body key s).2 = .ok v ↔
      (body (frameStart (recordsAsset (env.types key.ty).hot env.hasReloader) (some []) s)).2 = .ok v := by
  rw [← withFrame_outcome]
  unfold loadAndRecord
  generalize withFrame _ (some []) body s = r
  obtain ⟨s1, o, d⟩ := r
  cases o <;> simp

/-! ### What an evaluation consults -/

/-- `s` and `t` differ at most in counters and logs (`ios`, `loads`, `out`, `dropped`). -/
structure Sim (s t : St) : Prop where
  map : s.map = t.map
  next : s.next = t.next
  recs : s.recs = t.recs

theorem Sim.refl (s : St) : Sim s s := ⟨rfl, rfl, rfl⟩

theorem Sim.lookup {s t : St} (h : Sim s t) (k : Key) : s.lookup k = t.lookup k := by
  unfold St.lookup; rw [h.map]

theorem Sim.record {s t : St} (h : Sim s t) (on : Bool) (d : Dep) : Sim (s.record on d) (t.record on d) := by
  obtain ⟨hm, hn, hr⟩ := h
  unfold St.record
  cases on with
  | false => exact ⟨hm, hn, hr⟩
  | true =>
    simp only [if_true]
    rw [← hr]
    split
    · exact ⟨hm, hn, rfl⟩
    · exact ⟨hm, hn, hr⟩

theorem Sim.recordAll {s t : St} (h : Sim s t) (on : Bool) (ds : List Dep) : Sim (s.recordAll on ds) (t.recordAll on ds) := by
  unfold St.recordAll
  induction ds generalizing s t with
  | nil => exact h
  | cons d ds ih => simp only [List.foldl]; exact ih (h.record on d)

theorem Sim.send {s t : St} (h : Sim s t) (m : Msg) : Sim (s.send m) (t.send m) := ⟨h.map, h.next, h.recs⟩

theorem Sim.insertKeepFirst {s t : St} (h : Sim s t) (k : Key) (c : Cell) :
    Sim (s.insertKeepFirst k c).1 (t.insertKeepFirst k c).1 ∧ (s.insertKeepFirst k c).2 = (t.insertKeepFirst k c).2 := by
  unfold St.insertKeepFirst
  rw [h.lookup k]
  cases t.lookup k with
  | some c' => exact ⟨⟨h.map, h.next, h.recs⟩, rfl⟩
  | none => exact ⟨⟨by simp [h.map], h.next, h.recs⟩, rfl⟩

/-- `body` consults nothing but map, address counter and recording stack -/
def Resp (body : St → St × Outcome) : Prop :=
  ∀ s t, Sim s t → Sim (body s).1 (body t).1 ∧ (body s).2 = (body t).2

theorem withFrame_sim (push : Bool) (frame) (body : St → St × Outcome) (hb : Resp body) {s t : St} (h : Sim s t) :
    Sim (withFrame push frame body s).1 (withFrame push frame body t).1 ∧
    (withFrame push frame body s).2 = (withFrame push frame body t).2 := by
  unfold withFrame
  cases push with
  | true =>
    have hh := hb { s with recs := frame :: s.recs } { t with recs := frame :: t.recs } ⟨h.map, h.next, by simp [h.recs]⟩
    simp only [if_true]
    exact ⟨⟨hh.1.map, hh.1.next, h.recs⟩, by rw [hh.2, hh.1.recs]⟩
  | false =>
    have hh := hb s t h
    simp only [Bool.false_eq_true, if_false]
    exact ⟨hh.1, by rw [hh.2]⟩

theorem onFreshThread_sim (body : St → St × Outcome) (hb : Resp body) {s t : St} (h : Sim s t) :
    Sim (onFreshThread body s).1 (onFreshThread body t).1 ∧ (onFreshThread body s).2 = (onFreshThread body t).2 := by
  unfold onFreshThread
  have hh := hb { s with recs := [] } { t with recs := [] } ⟨h.map, h.next, rfl⟩
  exact ⟨⟨hh.1.map, hh.1.next, h.recs⟩, hh.2⟩

theorem cont_sim (o : Outcome) (k : Except LErr Val → St → St × Outcome) (wrap) (hk : ∀ r, Resp (k r)) {s t : St} (h : Sim s t) :
    Sim (cont o s k wrap).1 (cont o t k wrap).1 ∧ (cont o s k wrap).2 = (cont o t k wrap).2 := by
  unfold cont
  cases o with
  | ok v => exact hk _ s t h
  | err e => exact hk _ s t h
  | panicked => exact ⟨h, rfl⟩
  | diverged => exact ⟨h, rfl⟩

theorem loadAndRecord_sim (env : Env) (body : St → St × Outcome) (hb : Resp body) (key : Key) {s t : St} (h : Sim s t) :
    Sim (loadAndRecord env body key s).1 (loadAndRecord env body key t).1 ∧
    (loadAndRecord env body key s).2 = (loadAndRecord env body key t).2 := by
  unfold loadAndRecord
  have hf := withFrame_sim (recordsAsset (env.types key.ty).hot env.hasReloader) (some []) body hb h
  generalize withFrame _ (some []) body s = r1 at hf ⊢
  generalize withFrame _ (some []) body t = r2 at hf ⊢
  obtain ⟨s1, o1, d1⟩ := r1
  obtain ⟨s2, o2, d2⟩ := r2
  obtain ⟨hs, ho⟩ := hf
  simp only [Prod.mk.injEq] at ho
  obtain ⟨ho, hd⟩ := ho
  subst ho hd
  cases o1 with
  | ok v => simp only []; split <;> first | exact ⟨hs.send _, by first | rfl | trivial⟩ | exact ⟨hs, by first | rfl | trivial⟩
  | err e => exact ⟨hs.recordAll _ _, rfl⟩
  | panicked => exact ⟨hs, rfl⟩
  | diverged => exact ⟨hs, rfl⟩

/-- The environment's answers do not depend on the running read / checkpoint index: there is no
fault plan (left), e.g. after `fault.clear`. -/
def Env.Steady (env : Env) : Prop :=
  (∀ i j id ext, env.read i id ext = env.read j id ext) ∧
  (∀ i j id, env.readDir i id = env.readDir j id) ∧
  (∀ i j, env.loaderFault i = env.loaderFault j)

/-- Under a steady environment an evaluation depends on the state only through map, address counter
and recording stack. -/
theorem eval_sim (env : Env) (hst : env.Steady) : ∀ f p s t, Sim s t →
    Sim (eval env f s p).1 (eval env f t p).1 ∧ (eval env f s p).2 = (eval env f t p).2 := by
  intro f
  induction f with
  | zero => intro p s t h; simp only [eval]; exact ⟨h, by first | rfl | trivial⟩
  | succ f ih =>
    intro p s t h
    cases p with
    | ret v => simp only [eval]; exact ⟨h, by first | rfl | trivial⟩
    | fail e => simp only [eval]; exact ⟨h, by first | rfl | trivial⟩
    | panic => simp only [eval]; exact ⟨h, by first | rfl | trivial⟩
    | read id ext k =>
      simp only [eval]
      have hr := h.record (recordsRead env.hasReloader) (.file id ext)
      rw [hst.1 (s.record (recordsRead env.hasReloader) (.file id ext)).ios (t.record (recordsRead env.hasReloader) (.file id ext)).ios id ext]
      exact ih _ _ _ ⟨hr.map, hr.next, hr.recs⟩
    | readDir id k =>
      simp only [eval]
      have hr := h.record (recordsRead env.hasReloader) (.dir id)
      rw [hst.2.1 (s.record (recordsRead env.hasReloader) (.dir id)).ios (t.record (recordsRead env.hasReloader) (.dir id)).ios id]
      exact ih _ _ _ ⟨hr.map, hr.next, hr.recs⟩
    | getCached key k =>
      simp only [eval]
      have hr := h.record (recordsAsset (env.types key.ty).hot env.hasReloader) (.asset key)
      rw [hr.lookup key]
      exact ih _ _ _ hr
    | getOrInsert key v k =>
      simp only [eval]
      have hr := h.record (recordsAsset (env.types key.ty).hot env.hasReloader) (.asset key)
      rw [hr.lookup key]
      cases hl : (t.record (recordsAsset (env.types key.ty).hot env.hasReloader) (.asset key)).lookup key with
      | some c => simp only []; exact ih _ _ _ ⟨hr.map, hr.next, hr.recs⟩
      | none =>
        simp only []
        rw [hr.next]
        have hi := hr.insertKeepFirst key
          { val := v, dyn := insertedEntryDynamic (env.types key.ty).hot env.hasReloader, rid := ReloadId_NEVER,
            flag := false, addr := (t.record (recordsAsset (env.types key.ty).hot env.hasReloader) (.asset key)).next }
        exact ih _ _ _ ⟨hi.1.map, by simp, hi.1.recs⟩
    | tick k =>
      simp only [eval]
      rw [hst.2.2 s.loads t.loads]
      exact ih _ _ _ ⟨h.map, h.next, h.recs⟩
    | tryCatch body k =>
      simp only [eval]
      have hb := ih body s t h
      generalize eval env f s body = r1 at hb ⊢
      generalize eval env f t body = r2 at hb ⊢
      obtain ⟨s1, o1⟩ := r1
      obtain ⟨s2, o2⟩ := r2
      obtain ⟨hs, ho⟩ := hb
      simp only at ho
      subst ho
      cases o1 with
      | ok v => exact ih _ _ _ hs
      | err e => exact ih _ _ _ hs
      | panicked => exact ih _ _ _ hs
      | diverged => exact ⟨hs, rfl⟩
    | noRecord body k =>
      simp only [eval]
      have hf := withFrame_sim true none (fun s => eval env f s body) (fun s t h => ih body s t h) h
      generalize withFrame true none (fun s => eval env f s body) s = r1 at hf ⊢
      generalize withFrame true none (fun s => eval env f s body) t = r2 at hf ⊢
      obtain ⟨s1, o1, d1⟩ := r1
      obtain ⟨s2, o2, d2⟩ := r2
      obtain ⟨hs, ho⟩ := hf
      simp only [Prod.mk.injEq] at ho
      obtain ⟨ho, hd⟩ := ho
      subst ho hd
      exact cont_sim o1 _ _ (fun r s t h => ih (k r) s t h) hs
    | onThread body k =>
      simp only [eval]
      have hf := onFreshThread_sim (fun s => eval env f s body) (fun s t h => ih body s t h) h
      generalize onFreshThread (fun s => eval env f s body) s = r1 at hf ⊢
      generalize onFreshThread (fun s => eval env f s body) t = r2 at hf ⊢
      obtain ⟨s1, o1⟩ := r1
      obtain ⟨s2, o2⟩ := r2
      obtain ⟨hs, ho⟩ := hf
      simp only at ho
      subst ho
      exact cont_sim o1 _ _ (fun r s t h => ih (k r) s t h) hs
    | loadOwned key k =>
      simp only [eval]
      have hr := h.record (recordsAsset (env.types key.ty).hot env.hasReloader) (.asset key)
      have hf := loadAndRecord_sim env (fun s => eval env f s ((env.types key.ty).prog key.id)) (fun s t h => ih _ s t h) key hr
      generalize loadAndRecord env _ key (s.record _ _) = r1 at hf ⊢
      generalize loadAndRecord env _ key (t.record _ _) = r2 at hf ⊢
      obtain ⟨s1, o1⟩ := r1
      obtain ⟨s2, o2⟩ := r2
      obtain ⟨hs, ho⟩ := hf
      simp only at ho
      subst ho
      cases o1 with
      | ok v => exact ih _ _ _ ⟨hs.map, hs.next, hs.recs⟩
      | err e => exact cont_sim _ _ _ (fun r s t h => ih (k r) s t h) hs
      | panicked => exact cont_sim _ _ _ (fun r s t h => ih (k r) s t h) hs
      | diverged => exact cont_sim _ _ _ (fun r s t h => ih (k r) s t h) hs
    | load key k =>
      simp only [eval]
      have hr := h.record (recordsAsset (env.types key.ty).hot env.hasReloader) (.asset key)
      rw [hr.lookup key]
      cases hl : (t.record (recordsAsset (env.types key.ty).hot env.hasReloader) (.asset key)).lookup key with
      | some c => simp only []; exact ih _ _ _ hr
      | none =>
        simp only []
        have hf := loadAndRecord_sim env (fun s => eval env f s ((env.types key.ty).prog key.id)) (fun s t h => ih _ s t h) key hr
        generalize loadAndRecord env _ key (s.record _ _) = r1 at hf ⊢
        generalize loadAndRecord env _ key (t.record _ _) = r2 at hf ⊢
        obtain ⟨s1, o1⟩ := r1
        obtain ⟨s2, o2⟩ := r2
        obtain ⟨hs, ho⟩ := hf
        simp only at ho
        subst ho
        cases o1 with
        | ok v =>
          simp only []
          have hi := hs.insertKeepFirst key (newCell env key.ty v s1.next)
          rw [← hs.next, ← hs.lookup key]
          rw [← hi.2]
          exact ih _ _ _ ⟨hi.1.map, by simp, hi.1.recs⟩
        | err e => exact cont_sim _ _ _ (fun r s t h => ih (k r) s t h) hs
        | panicked => exact cont_sim _ _ _ (fun r s t h => ih (k r) s t h) hs
        | diverged => exact cont_sim _ _ _ (fun r s t h => ih (k r) s t h) hs

end AmVerif.Model
