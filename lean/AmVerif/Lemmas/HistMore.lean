import AmVerif.Lemmas.StaticMode
/-!
# Histories with `clear` and `load_owned`

`Lemmas/Settle.lean` / `Lemmas/StaticMode.lean` carry the invariant `Pending`: every registration in the
channel is `MsgGood` (its key IS cached, …). That is false after `clear` (the registrations still in the
channel name entries that are gone) and after `load_owned` (it registers a key it does not cache).

* `lastReg k msgs` — the dependency set of the LAST `AddAsset k _` of the channel;
  `MsgGoodIf` — "if the key is cached with a dynamic cell, the registration is `MsgGood`";
  `LastGood` — the last registration of every key is `MsgGoodIf`; `PendingC` — `Pending` with `LastGood`.
* `settledBut_drainC`, `PendingC.drain` — **last message wins**: draining a channel whose last
  registrations are good-if-cached (stale ones before them, `Clear`s anywhere) gives `Settled`.
* `PendingC.extend` — a step that extends the cache and appends registrations; `PendingC.remove`,
  `PendingC.empty` — steps that shrink it (`remove` / `take`, `clear`).
* `LoadOKC`, `NoLivePendingKeyFilled`, `NoDependentOnC` — the named hypotheses of `LoadOK` /
  `NoDependentOn`, asked only of the registrations whose key is cached (each implied by the original).
* `HistP` — histories all of whose steps satisfy a predicate; `SInvC`, `StepOKC`, `histC_settled`.
* `Reg` — every cached dynamic entry is registered or has a registration in the channel (part of `PendingC`);
  `Reg.drain`, `runUpdate_allReg` — through a reloader step.
* `CleanLoadOwned`, `LoadOwnedOK`, `OwnedAgrees.of_known`, `loadOwned_pendingC`, `StepOKO`, `histO_settled` —
  `load_owned` from the API.
-/
namespace AmVerif.Model
open AmVerif.Gen AmVerif.Lemmas.TopoGraph AmVerif.Lemmas.Topo

/-! ## The last registration of a key in the channel -/

/-- the dependency set carried by the last `AddAsset k _` of the channel (`Clear`s are skipped: the
reloader's graph keeps its nodes on `Clear`) -/
def lastReg (k : Key) : List Msg → Option (List Dep)
  | [] => none
  | .addAsset k' D :: ms =>
    match lastReg k ms with
    | some D' => some D'
    | none => if k' = k then some D else none
  | .clear :: ms => lastReg k ms

theorem lastReg_mem {k : Key} : ∀ {ms : List Msg} {D : List Dep}, lastReg k ms = some D → Msg.addAsset k D ∈ ms := by
  intro ms
  induction ms with
  | nil => intro D h; cases h
  | cons m ms ih =>
    intro D h
    cases m with
    | clear => exact List.mem_cons_of_mem _ (ih h)
    | addAsset k' D0 =>
      simp only [lastReg] at h
      cases h' : lastReg k ms with
      | some D' =>
        rw [h'] at h
        simp only [Option.some.injEq] at h
        subst h
        exact List.mem_cons_of_mem _ (ih h')
      | none =>
        rw [h'] at h
        simp only [] at h
        by_cases hk : k' = k
        · simp only [hk, if_true, Option.some.injEq] at h
          subst h; subst hk
          exact List.mem_cons_self
        · simp only [hk, if_false] at h
          cases h

theorem lastReg_none {k : Key} : ∀ {ms : List Msg}, lastReg k ms = none → ∀ D, Msg.addAsset k D ∉ ms := by
  intro ms
  induction ms with
  | nil => intro _ D h; cases h
  | cons m ms ih =>
    intro h D hm
    cases m with
    | clear =>
      rcases List.mem_cons.mp hm with e | e
      · cases e
      · exact ih h D e
    | addAsset k' D0 =>
      simp only [lastReg] at h
      cases h' : lastReg k ms with
      | some D' => rw [h'] at h; cases h
      | none =>
        rw [h'] at h
        simp only [] at h
        rcases List.mem_cons.mp hm with e | e
        · obtain ⟨ek, _⟩ := Msg.addAsset.inj e
          subst ek
          simp only [if_true] at h
          cases h
        · exact ih h' D e

theorem lastReg_append (k : Key) (a b : List Msg) :
    lastReg k (a ++ b) = match lastReg k b with | some D => some D | none => lastReg k a := by
  induction a with
  | nil => simp only [List.nil_append, lastReg]; cases lastReg k b <;> rfl
  | cons m a ih =>
    cases m with
    | clear => exact ih
    | addAsset k' D0 =>
      simp only [List.cons_append, lastReg, ih]
      cases lastReg k b with
      | some D => rfl
      | none => rfl

/-! ## Registrations that are good IF their key is cached -/

/-- The registration `AddAsset k D` is **good if `k` is cached** (with a dynamic cell) in `t`. A
registration for an entry that is gone (`clear`, `remove`) or that was never cached (`load_owned`)
satisfies it vacuously: the node it creates is skipped by `reload` and `Settled` does not speak of it. -/
def MsgGoodIf (env : Env) (fuel : Nat) (t : St) (k : Key) (D : List Dep) : Prop :=
  ∀ c, t.lookup k = some c → c.dyn = true → MsgGood env fuel t k D

/-- the LAST registration of every key in `msgs` is good if its key is cached (the earlier ones — stale —
are unconstrained: `insertAsset` replaces the node's dependencies, the last message wins) -/
def LastGood (env : Env) (fuel : Nat) (t : St) (msgs : List Msg) : Prop :=
  ∀ k D, lastReg k msgs = some D → MsgGoodIf env fuel t k D

theorem LastGood.nil (env : Env) (fuel : Nat) (t : St) : LastGood env fuel t [] := fun _ _ h => by cases h

theorem LastGood.tail {env : Env} {fuel : Nat} {t : St} {m : Msg} {ms : List Msg}
    (h : LastGood env fuel t (m :: ms)) : LastGood env fuel t ms := by
  intro k D hk
  cases m with
  | clear => exact h k D hk
  | addAsset k' D0 => exact h k D (by simp only [lastReg, hk])

/-- **Last message wins.** Draining a channel in which the last registration of every key is good if the
key is cached: everything registered and cached is settled. Stale registrations before the last one
and `Clear` messages anywhere are harmless. -/
theorem settledBut_drainC {env : Env} {fuel : Nat} {t : St} :
    ∀ (msgs : List Msg) (r : RSt), LastGood env fuel t msgs →
    SettledBut env fuel t r.graph msgs → Settled env fuel t (drain msgs r).graph := by
  intro msgs
  induction msgs with
  | nil =>
    intro r _ h k node c hg ht hc hd
    rcases h k node c hg ht hc hd with h1 | ⟨_, h1⟩
    · exact h1
    · cases h1
  | cons m ms ih =>
    intro r hm h
    cases m with
    | clear =>
      refine ih { r with toReload := [] } hm.tail ?_
      intro k node c hg ht hc hd
      rcases h k node c hg ht hc hd with h1 | ⟨D, h1⟩
      · exact Or.inl h1
      · rcases List.mem_cons.mp h1 with e | e
        · cases e
        · exact Or.inr ⟨D, e⟩
    | addAsset k D =>
      refine ih { r with graph := r.graph.insertAsset (.asset k) D } hm.tail ?_
      intro x node' c hg' ht' hc' hd'
      by_cases hxk : x = k
      · subst hxk
        cases hl : lastReg x ms with
        | some D' => exact Or.inr ⟨D', lastReg_mem hl⟩
        | none =>
          obtain ⟨n', hn', _, hnd'⟩ := insertAsset_get_self r.graph (.asset x) D
          have hg2 : (r.graph.insertAsset (.asset x) D).get (.asset x) = some node' := hg'
          rw [hn'] at hg2
          have en : n' = node' := by simpa using hg2
          subst en
          have hlast : lastReg x (.addAsset x D :: ms) = some D := by simp only [lastReg, hl, if_true]
          obtain ⟨c0, hc0, m1, m2, m3⟩ := hm x D hlast c hc' hd'
          rw [hc0] at hc'
          have ec : c0 = c := by simpa using hc'
          subst ec
          exact Or.inl ⟨m1, Or.inl ⟨m2, fun d => by rw [m3, hnd']⟩⟩
      · have hne : Dep.asset x ≠ Dep.asset k := fun e => hxk (Dep.asset.inj e)
        rcases insertAsset_get_ne hne hg' with ⟨n, hn, hnt, hnd'⟩ | ⟨_, hf, _⟩
        · rcases h x n c hn (hnt.trans ht') hc' hd' with h1 | ⟨D', h1⟩
          · exact Or.inl (h1.of_deps_eq hnd')
          · rcases List.mem_cons.mp h1 with e | e
            · exact absurd (Msg.addAsset.inj e).1 hxk
            · exact Or.inr ⟨D', e⟩
        · rw [hf] at ht'; cases ht'

/-- **Every cached dynamic asset is known to the reloader**: it is registered (typed node) or a
registration for it is in the channel. (True in every reachable state — a dynamic entry is only created
by a load that misses, which registers it —; carried by the invariant because `load_owned` of a CACHED
key registers it again: the entry must then be one the invariant speaks of,
`C05_load_owned_needs_registered`.) -/
def Reg (s : St) (g : Graph) : Prop :=
  ∀ k c, s.lookup k = some c → c.dyn = true →
    (∃ node, g.get (.asset k) = some node ∧ node.typed = true) ∨ ∃ D, Msg.addAsset k D ∈ s.out

/-- `Reg` through a step that keeps the channel's messages and registers every new dynamic entry -/
theorem Reg.mono {s t : St} {g : Graph} (h : Reg s g) (hout : ∀ m, m ∈ s.out → m ∈ t.out)
    (hnew : ∀ k c, t.lookup k = some c → c.dyn = true → s.lookup k = some c ∨ ∃ D, Msg.addAsset k D ∈ t.out) :
    Reg t g := by
  intro k c hc hd
  rcases hnew k c hc hd with h1 | h1
  · rcases h k c h1 hd with h2 | ⟨D, h2⟩
    · exact Or.inl h2
    · exact Or.inr ⟨D, hout _ h2⟩
  · exact Or.inr h1

/-- `Pending` with `LastGood` in place of "every registration is `MsgGood`", and `Reg`: the state of a
cache with its reloader between two drains, in histories with `clear` and `load_owned` -/
structure PendingC (env : Env) (fuel : Nat) (s : St) (g : Graph) : Prop where
  good : LastGood env fuel s s.out
  but : SettledBut env fuel s g s.out
  reg : Reg s g

theorem Pending.toC {env : Env} {fuel : Nat} {s : St} {g : Graph} (h : Pending env fuel s g) (hreg : Reg s g) :
    PendingC env fuel s g := by
  refine ⟨fun k D hk _ _ _ => ?_, h.but, hreg⟩
  obtain ⟨k', D', e, hg⟩ := h.good _ (lastReg_mem hk)
  obtain ⟨e1, e2⟩ := Msg.addAsset.inj e
  subst e1; subst e2
  exact hg

theorem PendingC.of_settled {env : Env} {fuel : Nat} {s : St} {g : Graph} (hout : s.out = [])
    (h : Settled env fuel s g) (hreg : Reg s g) : PendingC env fuel s g :=
  (Pending.of_settled hout h).toC hreg

/-- draining the channel: `Settled` -/
theorem PendingC.drain {env : Env} (hS : env.Steady) {fuel : Nat} {s : St} {r : RSt} (h : PendingC env fuel s r.graph) :
    Settled env fuel (processMsgs s r).1 (processMsgs s r).2.graph := by
  rw [processMsgs_eq]
  exact settled_congr hS (s := s) (fun _ => rfl) (settledBut_drainC s.out r h.good h.but)

/-- a cache that holds nothing satisfies the invariant whatever the graph and the channel are (`clear`) -/
theorem PendingC.empty {env : Env} {fuel : Nat} {t : St} {g : Graph} (h : ∀ k, t.lookup k = none) :
    PendingC env fuel t g :=
  ⟨fun k _ _ c hc _ => (by rw [h k] at hc; cases hc), fun k _ c _ _ hc _ => (by rw [h k] at hc; cases hc),
   fun k c hc _ => (by rw [h k] at hc; cases hc)⟩

/-! ## Steps that extend the cache -/

/-- the step fills no key that a pending registration OF A CACHED (dynamic) ASSET lists while it is
absent. (`NoPendingKeyFilled` asks it of every registration in the channel — too much after a `clear`:
`load b; clear; load b` fills `e`, which the stale registration of `b` lists.) -/
def NoLivePendingKeyFilled (s t : St) : Prop :=
  ∀ k D c, Msg.addAsset k D ∈ s.out → s.lookup k = some c → c.dyn = true →
    ∀ y, Dep.asset y ∈ D → s.lookup y = none → t.lookup y = none

theorem NoPendingKeyFilled.live {s t : St} (h : NoPendingKeyFilled s t) : NoLivePendingKeyFilled s t :=
  fun k D _ hm _ _ => h k D hm

/-- **A step that extends the cache and appends registrations keeps `PendingC`**: the new registrations
are `LastGood` in the new cache, every new dynamic entry has one, and the step fills no key that a
registered asset or a live pending registration probed in vain. -/
theorem PendingC.extend {env : Env} (hS : env.Steady) {fuel : Nat} {s t : St} {g : Graph} {new : List Msg}
    (hp : PendingC env fuel s g) (hle : s.Le t) (hout : t.out = s.out ++ new)
    (hgood : LastGood env fuel t new)
    (hnew : ∀ k c, t.lookup k = some c → c.dyn = true → s.lookup k = some c ∨ ∃ D, Msg.addAsset k D ∈ new)
    (hfill : NoProbedKeyFilled s t g) (hfillM : NoLivePendingKeyFilled s t) : PendingC env fuel t g := by
  refine ⟨?_, ?_, hp.reg.mono (fun m hm => by rw [hout]; exact List.mem_append_left _ hm) (fun k c hc hd => ?_)⟩
  · intro k D h
    rw [hout, lastReg_append] at h
    cases hn : lastReg k new with
    | some D' =>
      rw [hn] at h
      simp only [Option.some.injEq] at h
      subst h
      exact hgood k D' hn
    | none =>
      rw [hn] at h
      simp only [] at h
      intro c hc hd
      rcases hnew k c hc hd with h1 | ⟨D', h1⟩
      · exact (hp.good k D h c h1 hd).keep hS hle (hfillM k D c (lastReg_mem h) h1 hd)
      · exact absurd h1 (lastReg_none hn D')
  · intro k node c hg ht hc hd
    rw [hout]
    rcases hnew k c hc hd with h | ⟨D, h⟩
    · rcases hp.but k node c hg ht h hd with h1 | ⟨D, h1⟩
      · have hag : ∀ d ∈ reloadDeps env fuel s k, AgreeOn env env s t d := by
          intro d hdd
          refine agreeOn_same_env (fun y e => ?_)
          subst e
          cases hy : s.lookup y with
          | some cy => exact hle y cy hy
          | none => exact hfill k node c hg ht h hd y (h1.deps_sub _ hdd) hy
        exact Or.inl (h1.transfer hS hS (SameLoaders.refl hS) hag (c' := c) (node' := node) rfl rfl).1
      · exact Or.inr ⟨D, List.mem_append_left _ h1⟩
    · exact Or.inr ⟨D, List.mem_append_right _ h⟩
  · rcases hnew k c hc hd with h | ⟨D, h⟩
    · exact Or.inl h
    · exact Or.inr ⟨D, by rw [hout]; exact List.mem_append_right _ h⟩

/-- **A clean top-level evaluation keeps `PendingC`.** -/
theorem evalTop_pendingC {env : Env} (hS : env.Steady) {fuel : Nat} {s : St} {g : Graph} (p : Prog)
    (hp : PendingC env fuel s g)
    (hclean : cleanRun env (evalTop env fuel s p).1 fuel { s with recs := [] } p = true)
    (hfill : NoProbedKeyFilled s (evalTop env fuel s p).1 g)
    (hfillM : NoLivePendingKeyFilled s (evalTop env fuel s p).1) :
    PendingC env fuel (evalTop env fuel s p).1 g := by
  generalize hfin : (eval env fuel { s with recs := [] } p).1 = fin
  have hlk : ∀ k, (evalTop env fuel s p).1.lookup k = fin.lookup k := fun k => by rw [← hfin]; rfl
  have houtE : (evalTop env fuel s p).1.out = fin.out := by rw [← hfin]; rfl
  have hle0 : St.Le { s with recs := [] } fin := by rw [← hfin]; exact eval_mono env fuel _ p
  have hle : s.Le fin := (St.Le.of_map_eq (s := s) (t := { s with recs := [] }) rfl).trans hle0
  have hleE : s.Le (evalTop env fuel s p).1 := fun k c h => (hlk k).trans (hle k c h)
  have hfin0 : ∀ k, (evalTop env fuel s p).1.lookup k = none → fin.lookup k = none := fun k h => by rw [← hlk k]; exact h
  have hco := clean_out hS fuel hfin0 fuel p { s with recs := [] } (Nat.le_refl _) hclean
    (by rw [hfin]; exact St.Le.refl fin)
  rw [hfin] at hco
  obtain ⟨new, h1, h2, h3⟩ := hco
  have hgoodE : ∀ k D, MsgGood env fuel fin k D → MsgGood env fuel (evalTop env fuel s p).1 k D :=
    fun k D h => h.keep hS (fun k c hc => (hlk k).trans hc) (fun y _ hy => (hlk y).trans hy)
  refine hp.extend hS hleE (houtE.trans h1) ?_ ?_ hfill hfillM
  · intro k D hk _ _ _
    obtain ⟨k', D', e, hg⟩ := h2 _ (lastReg_mem hk)
    obtain ⟨e1, e2⟩ := Msg.addAsset.inj e
    subst e1; subst e2
    exact hgoodE _ _ hg
  · intro k c hc _
    rw [hlk k] at hc
    exact h3 k c hc

/-- the named hypotheses on one load of a history with `clear` / `load_owned`: `LoadOK`, with the
no-fill hypothesis on the channel asked only of the registrations whose key is cached -/
structure LoadOKC (env : Env) (fuel : Nat) (s : St) (r : RSt) (key : Key) : Prop where
  clean : CleanLoad env fuel s key
  noFill : NoProbedKeyFilled s (step env fuel s (.load key)).1 r.graph
  noFillLive : NoLivePendingKeyFilled s (step env fuel s (.load key)).1

theorem LoadOK.toC {env : Env} {fuel : Nat} {s : St} {r : RSt} {key : Key} (h : LoadOK env fuel s r key) :
    LoadOKC env fuel s r key := ⟨h.clean, h.noFill, h.noFillPending.live⟩

theorem load_pendingC {env : Env} (hS : env.Steady) {fuel : Nat} {s : St} {r : RSt} (key : Key)
    (hp : PendingC env fuel s r.graph) (hok : LoadOKC env fuel s r key) :
    PendingC env fuel (step env fuel s (.load key)).1 r.graph := by
  obtain ⟨h1, h2, h3⟩ := hok
  unfold CleanLoad at h1
  rw [step_load_fst] at h1 h2 h3 ⊢
  exact evalTop_pendingC hS _ hp h1 h2 h3

/-- `get_or_insert` keeps `PendingC` -/
theorem getOrInsert_pendingC {env : Env} (hS : env.Steady) {fuel : Nat} {s : St} {g : Graph} (key : Key) (v : Val)
    (hp : PendingC env fuel s g)
    (hfill : NoProbedKeyFilled s (step env fuel s (.getOrInsert key v)).1 g)
    (hfillM : NoLivePendingKeyFilled s (step env fuel s (.getOrInsert key v)).1) :
    PendingC env fuel (step env fuel s (.getOrInsert key v)).1 g := by
  obtain ⟨f1, f2, f3⟩ := step_getOrInsert_facts env fuel s key v
  refine hp.extend hS f1 (new := []) (f2.trans (List.append_nil _).symm) (LastGood.nil _ _ _) ?_ hfill hfillM
  intro k c hc hd
  rcases f3 k c hc with h | h
  · exact Or.inl h
  · rw [h] at hd; cases hd

/-! ## Steps that shrink the cache -/

/-- `NoDependentOn`, the part on the channel asked only of the registrations of OTHER keys that are
cached (a pending registration of `key` itself becomes stale — harmless) -/
def NoDependentOnC (s : St) (g : Graph) (key : Key) : Prop :=
  (∀ k node c, g.get (.asset k) = some node → node.typed = true → s.lookup k = some c → c.dyn = true → k ≠ key →
    Dep.asset key ∉ node.deps) ∧
  (∀ k D c, Msg.addAsset k D ∈ s.out → s.lookup k = some c → c.dyn = true → k ≠ key → Dep.asset key ∉ D)

theorem NoDependentOn.toC {s : St} {g : Graph} {key : Key} (h : NoDependentOn s g key) : NoDependentOnC s g key :=
  ⟨h.1, fun k D _ hm _ _ _ => (h.2 k D hm).2⟩

/-- with the channel drained the two hypotheses coincide -/
theorem NoDependentOnC.drained {s : St} {g : Graph} {key : Key} (hout : s.out = []) (h : NoDependentOnC s g key) :
    NoDependentOn s g key :=
  ⟨h.1, fun k D hm => by rw [hout] at hm; cases hm⟩

/-- `PendingC` is kept when the entry of `key` leaves the cache, provided nothing cached depends on it -/
theorem PendingC.remove {env : Env} (hS : env.Steady) {fuel : Nat} {s t : St} {g : Graph} {key : Key}
    (hp : PendingC env fuel s g) (hout : t.out = s.out)
    (hother : ∀ k, k ≠ key → t.lookup k = s.lookup k) (hkey : t.lookup key = none)
    (hdep : NoDependentOnC s g key) : PendingC env fuel t g := by
  refine ⟨?_, ?_, hp.reg.mono (fun m hm => by rw [hout]; exact hm) (fun k c hc _ => Or.inl ?_)⟩
  · intro k D h c hc hd
    rw [hout] at h
    have hk : k ≠ key := fun e => by rw [e, hkey] at hc; cases hc
    have hc' : s.lookup k = some c := (hother k hk).symm.trans hc
    obtain ⟨c0, hc0, m1, m2, m3⟩ := hp.good k D h c hc' hd
    have hD := hdep.2 k D c (lastReg_mem h) hc' hd hk
    obtain ⟨r1, r2, r3⟩ := reloadEval_readset hS hS (SameLoaders.refl hS) fuel s t k m1
      (fun d hd => agreeOn_same_env (fun y e => by
        subst e
        exact hother y (fun e2 => hD (by rw [← e2, ← m3]; exact hd))))
    exact ⟨c0, (hother k hk).trans hc0, r1, by rw [r2, m2], by rw [r3, m3]⟩
  · intro k node c hg ht hc hd
    rw [hout]
    have hk : k ≠ key := fun e => by rw [e, hkey] at hc; cases hc
    rw [hother k hk] at hc
    rcases hp.but k node c hg ht hc hd with h1 | h1
    · have hag : ∀ d ∈ reloadDeps env fuel s k, AgreeOn env env s t d := by
        intro d hdd
        refine agreeOn_same_env (fun y e => ?_)
        subst e
        exact hother y (fun e2 => hdep.1 k node c hg ht hc hd hk (by rw [← e2]; exact h1.deps_sub _ hdd))
      exact Or.inl (h1.transfer hS hS (SameLoaders.refl hS) hag (c' := c) (node' := node) rfl rfl).1
    · exact Or.inr h1
  · have hk : k ≠ key := fun e => by rw [e, hkey] at hc; cases hc
    exact (hother k hk).symm.trans hc

/-- `clear`: nothing is cached afterwards -/
theorem step_clear_lookup (env : Env) (fuel : Nat) (s : St) (k : Key) :
    (step env fuel s .clear).1.lookup k = none := rfl

/-- `clear`: the channel gets a `Clear` when the cache has a reloader -/
theorem step_clear_out (env : Env) (fuel : Nat) (s : St) :
    (step env fuel s .clear).1.out = if env.hasReloader then s.out ++ [.clear] else s.out := by
  simp only [step, St.release_out]
  split <;> rfl

/-! ## Histories all of whose steps satisfy a predicate -/

/-- the histories under ONE environment `env` every step of which satisfies `P` in the state it starts from -/
inductive HistP (P : HOp → St × RSt → Prop) (env : Env) (fuel : Nat) : List (Env × HOp) → St × RSt → Prop
  | nil (x : St × RSt) : HistP P env fuel [] x
  | cons (op : HOp) (rest : List (Env × HOp)) (x : St × RSt) :
      P op x → HistP P env fuel rest (hstep fuel (env, op) x) → HistP P env fuel ((env, op) :: rest) x

theorem HistP.mono {P Q : HOp → St × RSt → Prop} {env : Env} {fuel : Nat} (hPQ : ∀ op x, P op x → Q op x)
    {h : List (Env × HOp)} {x : St × RSt} (hh : HistP P env fuel h x) : HistP Q env fuel h x := by
  induction hh with
  | nil x => exact .nil x
  | cons op rest x hok _ ih => exact .cons op rest x (hPQ op x hok) ih

/-- an invariant that every admitted step keeps holds after every prefix, where the next step is admitted -/
theorem HistP.at {P : HOp → St × RSt → Prop} {I : St × RSt → Prop} {env : Env} {fuel : Nat}
    (hI : ∀ x op, I x → P op x → I (hstep fuel (env, op) x))
    {h : List (Env × HOp)} {x : St × RSt} (hh : HistP P env fuel h x) (hx : I x) :
    I (runH fuel h x) ∧
    ∀ h1 op h2, h = h1 ++ (env, op) :: h2 → I (runH fuel h1 x) ∧ P op (runH fuel h1 x) := by
  induction hh with
  | nil x => exact ⟨hx, fun h1 op h2 e => by cases h1 <;> cases e⟩
  | cons op0 rest x hok _ ih =>
    obtain ⟨i1, i2⟩ := ih (hI x op0 hx hok)
    refine ⟨i1, fun h1 op h2 e => ?_⟩
    cases h1 with
    | nil =>
      simp only [List.nil_append, List.cons.injEq, Prod.mk.injEq] at e
      obtain ⟨⟨_, eo⟩, _⟩ := e
      subst eo
      exact ⟨hx, hok⟩
    | cons a h1' =>
      simp only [List.cons_append, List.cons.injEq] at e
      obtain ⟨ea, er⟩ := e
      subst ea
      exact i2 h1' op h2 er

/-- every `StaticHist` is a `HistP StepOK` -/
theorem StaticHist.toP {env : Env} {fuel : Nat} {h : List (Env × HOp)} {x : St × RSt}
    (hh : StaticHist env fuel h x) : HistP (StepOK env fuel) env fuel h x := by
  induction hh with
  | nil x => exact .nil x
  | cons op rest x hok _ ih => exact .cons op rest x hok ih

/-! ## Histories with `clear` -/

/-- `ApiOK` with `clear` admitted (no hypothesis) and the weakened hypotheses on the channel -/
def ApiOKC (env : Env) (fuel : Nat) : Op → St × RSt → Prop
  | .load key, x => LoadOKC env fuel x.1 x.2 key
  | .getOrInsert key v, x =>
      NoProbedKeyFilled x.1 (step env fuel x.1 (.getOrInsert key v)).1 x.2.graph ∧
      NoLivePendingKeyFilled x.1 (step env fuel x.1 (.getOrInsert key v)).1
  | .remove key, x => NoDependentOnC x.1 x.2.graph key
  | .take key, x => NoDependentOnC x.1 x.2.graph key
  | .clear, _ => True
  | _, _ => False

theorem ApiOK.toC {env : Env} {fuel : Nat} {o : Op} {x : St × RSt} (h : ApiOK env fuel o x) : ApiOKC env fuel o x := by
  cases o with
  | load key => exact LoadOK.toC h
  | getOrInsert key v => exact ⟨h.1, h.2.live⟩
  | remove key => exact NoDependentOn.toC h
  | take key => exact NoDependentOn.toC h
  | loadOwned key => exact h.elim
  | getCached key => exact h.elim
  | contains key => exact h.elim
  | clear => trivial

/-- **The per-step hypotheses of a history with `clear`**: `StepOK` with `ApiOKC` for the API operations
(so: every API operation of `StepOK`, under weaker hypotheses, and `clear` without any) -/
def StepOKC (env : Env) (fuel : Nat) : HOp → St × RSt → Prop
  | .api o, x => (step env fuel x.1 o).1 = x.1 ∨ ApiOKC env fuel o x
  | op, x => op.runsPass x.2 = true → (prePass op x).2.toReload ≠ [] → PassOK env fuel (prePass op x)

theorem StepOK.toC {env : Env} {fuel : Nat} {op : HOp} {x : St × RSt} (h : StepOK env fuel op x) :
    StepOKC env fuel op x := by
  cases op with
  | api o => exact h.imp id ApiOK.toC
  | notify evs => exact h
  | hotReload => exact h
  | enhance => exact h

theorem StepOKC.clear {env : Env} {fuel : Nat} {x : St × RSt} : StepOKC env fuel (.api .clear) x := Or.inr trivial

theorem StepOKC.load {env : Env} {fuel : Nat} {x : St × RSt} {key : Key} (h : LoadOKC env fuel x.1 x.2 key) :
    StepOKC env fuel (.api (.load key)) x := Or.inr h

/-- `SInv` with `PendingC`: the invariant of the histories with `clear` / `load_owned` -/
structure SInvC (env : Env) (fuel : Nat) (x : St × RSt) : Prop where
  pending : PendingC env fuel x.1 x.2.graph
  live : x.2.dead = false
  inv : x.2.graph.Inverse
  idle : x.2.static_ = true → x.2.toReload = []

theorem SInv.toC {env : Env} {fuel : Nat} {x : St × RSt} (h : SInv env fuel x) (hreg : Reg x.1 x.2.graph) :
    SInvC env fuel x :=
  ⟨h.pending.toC hreg, h.live, h.inv, h.idle⟩

theorem SInvC.init (env : Env) (fuel : Nat) : SInvC env fuel ({}, {}) :=
  (SInv.init env fuel).toC (fun _ _ h => by cases h)

/-! ### `Reg` through a reloader step: the drain turns registrations into typed nodes, a pass keeps them -/

theorem insertAsset_typed_fw {g : Graph} {a x : Dep} {D : List Dep} {n : GNode}
    (hn : g.get x = some n) (ht : n.typed = true) :
    ∃ n', (g.insertAsset a D).get x = some n' ∧ n'.typed = true := by
  by_cases hx : x = a
  · subst hx
    obtain ⟨n', h1, h2, _⟩ := insertAsset_get_self g x D
    exact ⟨n', h1, h2⟩
  · obtain ⟨n1, h1, ht1, _⟩ := addR_fold_get_of_some (a := a) (deps := D) hn
    cases h0 : (D.foldl (addR a) g).get a with
    | none => rw [get_insertAsset_none h0 x, if_neg hx]; exact ⟨n1, h1, ht1.trans ht⟩
    | some old =>
      rw [get_insertAsset_some h0 x, h1]
      exact ⟨_, rfl, by rw [insT_typed_ne n1 hx, ht1, ht]⟩

theorem addDeps_typed_fw {g : Graph} {a x : Dep} {D : List Dep} {n : GNode}
    (hn : g.get x = some n) (ht : n.typed = true) :
    ∃ n', (g.addDeps a D).get x = some n' ∧ n'.typed = true := by
  by_cases hx : x = a
  · subst hx
    obtain ⟨n', h1, h2, _⟩ := addDeps_get_self (deps := D) hn
    exact ⟨n', h1, h2.trans ht⟩
  · obtain ⟨n1, h1, ht1, _⟩ := addR_fold_get_of_some (a := a) (deps := D) hn
    cases h0 : (D.foldl (addR a) g).get a with
    | none => rw [get_addDeps_none h0 x]; exact ⟨n1, h1, ht1.trans ht⟩
    | some old => rw [get_addDeps_some h0 x, if_neg hx]; exact ⟨n1, h1, ht1.trans ht⟩

theorem drain_typed_fw : ∀ (msgs : List Msg) (r : RSt) {x : Dep} {n : GNode}, r.graph.get x = some n → n.typed = true →
    ∃ n', (drain msgs r).graph.get x = some n' ∧ n'.typed = true := by
  intro msgs
  induction msgs with
  | nil => intro r x n h1 h2; exact ⟨n, h1, h2⟩
  | cons m ms ih =>
    intro r x n h1 h2
    cases m with
    | clear => exact ih { r with toReload := [] } h1 h2
    | addAsset k D =>
      obtain ⟨n', e1, e2⟩ := insertAsset_typed_fw (a := .asset k) (D := D) h1 h2
      exact ih { r with graph := r.graph.insertAsset (.asset k) D } e1 e2

theorem drain_typed_mem : ∀ (msgs : List Msg) (r : RSt) {k : Key} {D : List Dep}, Msg.addAsset k D ∈ msgs →
    ∃ n', (drain msgs r).graph.get (.asset k) = some n' ∧ n'.typed = true := by
  intro msgs
  induction msgs with
  | nil => intro r k D h; cases h
  | cons m ms ih =>
    intro r k D h
    rcases List.mem_cons.mp h with e | e
    · subst e
      obtain ⟨n', e1, e2, _⟩ := insertAsset_get_self r.graph (.asset k) D
      exact drain_typed_fw ms { r with graph := r.graph.insertAsset (.asset k) D } e1 e2
    · cases m with
      | clear => exact ih { r with toReload := [] } e
      | addAsset k' D' => exact ih { r with graph := r.graph.insertAsset (.asset k') D' } e

/-- `Reg` with the channel drained: every cached dynamic asset is registered -/
def AllReg (s : St) (g : Graph) : Prop :=
  ∀ k c, s.lookup k = some c → c.dyn = true → ∃ node, g.get (.asset k) = some node ∧ node.typed = true

theorem AllReg.reg {s : St} {g : Graph} (h : AllReg s g) : Reg s g := fun k c hc hd => Or.inl (h k c hc hd)

theorem Reg.drain {s : St} {r : RSt} (h : Reg s r.graph) :
    AllReg (processMsgs s r).1 (processMsgs s r).2.graph := by
  rw [processMsgs_eq]
  intro k c hc hd
  have hc' : s.lookup k = some c := hc
  rcases h k c hc' hd with ⟨node, h1, h2⟩ | ⟨D, h1⟩
  · exact drain_typed_fw s.out r h1 h2
  · exact drain_typed_mem s.out r h1

/-- one key of a pass whose re-evaluation is a tracked hit-only run that returns keeps `AllReg` -/
theorem reloadAll_one_allReg {env : Env} {fuel : Nat} {k : Key} {rest : List Key} {s : St} {r : RSt}
    (h : AllReg s r.graph) (hdead : r.dead = false)
    (hmiss : ∀ node c, PassStep.Performs ⟨k, rest, s, r⟩ node c → reloadHit env fuel s k = true)
    (hends : ∀ node c, PassStep.Performs ⟨k, rest, s, r⟩ node c →
      (∃ v, reloadOut env fuel s k = .ok v) ∨ (∃ e, reloadOut env fuel s k = .err e)) :
    AllReg (reloadAll env fuel [k] (s, r)).1 (reloadAll env fuel [k] (s, r)).2.graph ∧
    (reloadAll env fuel [k] (s, r)).2.dead = false := by
  by_cases hp : ∃ node c, r.graph.get (.asset k) = some node ∧ node.typed = true ∧ s.lookup k = some c ∧ c.dyn = true
  · obtain ⟨node, c, hg, ht, hc, hdyn⟩ := hp
    have hper : PassStep.Performs ⟨k, rest, s, r⟩ node c := ⟨hg, ht, hc, hdyn⟩
    have hh := hmiss node c hper
    rcases hends node c hper with ⟨v, ho⟩ | ⟨e, ho⟩
    · obtain ⟨e1, _, e3, _⟩ := reloadAll_one_ok hdead hg ht hc hdyn hh ho
      rw [e1]
      refine ⟨fun k' c' hc' hd' => ?_, hdead⟩
      by_cases hk : k' = k
      · subst hk
        obtain ⟨n', h1, h2, _⟩ := insertAsset_get_self r.graph (.asset k') (reloadDeps env fuel s k')
        exact ⟨n', h1, h2⟩
      · rw [e3 k' hk] at hc'
        obtain ⟨n, h1, h2⟩ := h k' c' hc' hd'
        exact insertAsset_typed_fw h1 h2
    · obtain ⟨e1, e2, _⟩ := reloadAll_one_err hdead hg ht hc hdyn hh ho
      rw [e1]
      refine ⟨fun k' c' hc' hd' => ?_, hdead⟩
      rw [e2 k'] at hc'
      obtain ⟨n, h1, h2⟩ := h k' c' hc' hd'
      exact addDeps_typed_fw h1 h2
  · have hsame : reloadAll env fuel [k] (s, r) = (s, r) := by
      by_cases hreg : ∃ node, r.graph.get (.asset k) = some node ∧ node.typed = true
      · obtain ⟨node, hg, ht⟩ := hreg
        refine reloadAll_one_skipped (fun c hc => ?_)
        cases hdc : c.dyn with
        | false => rfl
        | true => exact (hp ⟨node, c, hg, ht, hc, hdc⟩).elim
      · refine reloadAll_one_unregistered (fun node hg => ?_)
        cases htt : node.typed with
        | false => rfl
        | true => exact (hreg ⟨node, hg, htt⟩).elim
    rw [hsame]
    exact ⟨h, hdead⟩

theorem reloadAll_allReg {env : Env} {fuel : Nat} :
    ∀ (post : List Key) (s : St) (r : RSt), AllReg s r.graph → r.dead = false →
    NoMissInPass env fuel (passSteps env fuel post (s, r)) →
    ReloadsReturn env fuel (passSteps env fuel post (s, r)) →
    AllReg (reloadAll env fuel post (s, r)).1 (reloadAll env fuel post (s, r)).2.graph := by
  intro post
  induction post with
  | nil => intro s r h _ _ _; exact h
  | cons k rest ih =>
    intro s r h hdead h1 h2
    have hhead : (⟨k, rest, s, r⟩ : PassStep) ∈ passSteps env fuel (k :: rest) (s, r) := List.mem_cons_self
    have htail : ∀ st, st ∈ passSteps env fuel rest (reloadAll env fuel [k] (s, r)) →
        st ∈ passSteps env fuel (k :: rest) (s, r) := fun st h => List.mem_cons_of_mem _ h
    obtain ⟨i1, i2⟩ := reloadAll_one_allReg (rest := rest) h hdead (h1 _ hhead) (h2 _ hhead)
    rw [reloadAll_cons_eq]
    exact ih (reloadAll env fuel [k] (s, r)).1 (reloadAll env fuel [k] (s, r)).2 i1 i2
      (fun st h => h1 st (htail st h)) (fun st h => h2 st (htail st h))

/-- `run_update` whose re-evaluations are tracked hit-only runs that return keeps `AllReg` -/
theorem runUpdate_allReg {env : Env} {fuel : Nat} {s : St} {r : RSt} (h : AllReg s r.graph) (hlive : r.dead = false)
    (hmiss : NoMissInPass env fuel (updateSteps env fuel s r))
    (hret : ReloadsReturn env fuel (updateSteps env fuel s r)) :
    AllReg (runUpdate env fuel s r).1 (runUpdate env fuel s r).2.graph := by
  unfold updateSteps at hmiss hret
  unfold runUpdate
  cases hk : topo r.graph fuel r.toReload with
  | none => exact h
  | some keys =>
    rw [hk] at hmiss hret
    exact reloadAll_allReg keys s { r with toReload := [] } h hlive hmiss hret

/-- **A reloader step** from `SInvC`: the drain is `PendingC.drain` (last message wins; a `Clear` in the
channel empties the set of changed entries), the rest is `SInv.step_reloader`. -/
theorem SInvC.step_reloader {env : Env} (hS : env.Steady) {fuel : Nat} {x : St × RSt} (h : SInvC env fuel x)
    (op : HOp) (hop : op.isReloader = true)
    (hok : op.runsPass x.2 = true → (prePass op x).2.toReload ≠ [] → PassOK env fuel (prePass op x)) :
    Settled env fuel (hstep fuel (env, op) x).1 (hstep fuel (env, op) x).2.graph ∧
    (hstep fuel (env, op) x).1.out = [] ∧ SInvC env fuel (hstep fuel (env, op) x) := by
  obtain ⟨p1, p2, p3⟩ := prePass_facts op hop x
  have hsetP : Settled env fuel (prePass op x).1 (prePass op x).2.graph := by
    rw [p1, p2]; exact h.pending.drain hS
  have hinvP : (prePass op x).2.graph.Inverse := by rw [p2]; exact processMsgs_inverse _ _ h.inv
  have hliveP : (prePass op x).2.dead = false := p3.trans h.live
  have houtP : (prePass op x).1.out = [] := by rw [p1]; rfl
  have hregP : AllReg (prePass op x).1 (prePass op x).2.graph := by rw [p1, p2]; exact h.pending.reg.drain
  cases hrp : op.runsPass x.2 with
  | false =>
    rw [hstep_noPass env fuel op hop x h.live hrp]
    exact ⟨hsetP, houtP, ⟨PendingC.of_settled houtP hsetP hregP.reg, hliveP, hinvP, prePass_idle op x hrp h.idle⟩⟩
  | true =>
    rw [hstep_pass env fuel op x h.live hrp]
    by_cases ht : (prePass op x).2.toReload = []
    · rw [runUpdate_idle env fuel _ _ ht, processMsgs_nil _ _ houtP]
      exact ⟨hsetP, houtP, ⟨PendingC.of_settled houtP hsetP hregP.reg, hliveP, hinvP, fun _ => rfl⟩⟩
    · obtain ⟨⟨rank, hrank⟩, hf, m1, m2, m3⟩ := hok hrp ht
      obtain ⟨c1, c2, c3, c4, _⟩ := runUpdate_converges hS hS (SameLoaders.refl hS) hsetP hinvP hrank hliveP hf
        (changed := []) (fun _ _ _ => rfl) (fun _ _ => rfl) (fun d hd => by cases hd) m1 m2 m3
      have hreg' := runUpdate_allReg hregP hliveP m1 m2
      rw [processMsgs_nil _ _ (c3.trans houtP)]
      exact ⟨c1, c3.trans houtP, ⟨PendingC.of_settled (c3.trans houtP) c1 hreg'.reg, c2,
        runUpdate_inverse env fuel _ _ hinvP, fun _ => c4⟩⟩

/-- an API operation that satisfies `ApiOKC` keeps `PendingC` -/
theorem apiC_pending {env : Env} (hS : env.Steady) {fuel : Nat} {s : St} {r : RSt}
    (hp : PendingC env fuel s r.graph) (o : Op) (hok : ApiOKC env fuel o (s, r)) :
    PendingC env fuel (step env fuel s o).1 r.graph := by
  cases o with
  | load key => exact load_pendingC hS key hp hok
  | getOrInsert key v => exact getOrInsert_pendingC hS key v hp hok.1 hok.2
  | remove key =>
    obtain ⟨f1, f2, f3⟩ := step_remove_facts env fuel s key
    exact hp.remove hS f1 f2 f3 hok
  | take key =>
    obtain ⟨f1, f2, f3⟩ := step_take_facts env fuel s key
    exact hp.remove hS f1 f2 f3 hok
  | clear => exact PendingC.empty (step_clear_lookup env fuel s)
  | loadOwned key => exact hok.elim
  | getCached key => exact hok.elim
  | contains key => exact hok.elim

theorem SInvC.step_api {env : Env} (hS : env.Steady) {fuel : Nat} {x : St × RSt} (h : SInvC env fuel x)
    (o : Op) (hok : StepOKC env fuel (.api o) x) : SInvC env fuel (hstep fuel (env, .api o) x) := by
  obtain ⟨s, r⟩ := x
  have hp : PendingC env fuel (step env fuel s o).1 r.graph := by
    rcases hok with e | hok
    · rw [show (step env fuel s o).1 = s from e]; exact h.pending
    · exact apiC_pending hS h.pending o hok
  exact ⟨hp, h.live, h.inv, h.idle⟩

theorem SInvC.step {env : Env} (hS : env.Steady) {fuel : Nat} {x : St × RSt} (h : SInvC env fuel x)
    (op : HOp) (hok : StepOKC env fuel op x) : SInvC env fuel (hstep fuel (env, op) x) := by
  cases op with
  | api o => exact h.step_api hS o hok
  | notify evs => exact (h.step_reloader hS (.notify evs) rfl hok).2.2
  | hotReload => exact (h.step_reloader hS .hotReload rfl hok).2.2
  | enhance => exact (h.step_reloader hS .enhance rfl hok).2.2

/-- what `StepOKC` says of a reloader step -/
theorem StepOKC.pass {env : Env} {fuel : Nat} {op : HOp} {x : St × RSt} (hop : op.isReloader = true)
    (h : StepOKC env fuel op x) :
    op.runsPass x.2 = true → (prePass op x).2.toReload ≠ [] → PassOK env fuel (prePass op x) := by
  cases op with
  | api o => cases hop
  | notify evs => exact h
  | hotReload => exact h
  | enhance => exact h

/-- **Histories whose steps satisfy `P`**, for every `P` whose steps keep `SInvC` and whose reloader steps
satisfy `PassOK` when they run a pass: the invariant holds at the end, and after EVERY reloader step of
the history the channel is drained and everything registered and cached is settled. -/
theorem histP_settled {P : HOp → St × RSt → Prop} {env : Env} (hS : env.Steady) {fuel : Nat}
    (hI : ∀ x op, SInvC env fuel x → P op x → SInvC env fuel (hstep fuel (env, op) x))
    (hpass : ∀ x op, op.isReloader = true → P op x →
      op.runsPass x.2 = true → (prePass op x).2.toReload ≠ [] → PassOK env fuel (prePass op x))
    {h : List (Env × HOp)} {x : St × RSt} (hh : HistP P env fuel h x) (hx : SInvC env fuel x) :
    SInvC env fuel (runH fuel h x) ∧
    ∀ h1 op h2, h = h1 ++ (env, op) :: h2 → op.isReloader = true →
      Settled env fuel (runH fuel (h1 ++ [(env, op)]) x).1 (runH fuel (h1 ++ [(env, op)]) x).2.graph ∧
      (runH fuel (h1 ++ [(env, op)]) x).1.out = [] ∧ SInvC env fuel (runH fuel (h1 ++ [(env, op)]) x) ∧
      SInvC env fuel (runH fuel h1 x) := by
  obtain ⟨i1, i2⟩ := HistP.at (I := SInvC env fuel) hI hh hx
  refine ⟨i1, fun h1 op h2 e hop => ?_⟩
  obtain ⟨j1, j2⟩ := i2 h1 op h2 e
  rw [runH_append]
  obtain ⟨a, b, c⟩ := j1.step_reloader hS op hop (hpass _ op hop j2)
  exact ⟨a, b, c, j1⟩

/-- **Histories with `clear`**: the invariant holds at the end, and after EVERY reloader step of the
history the channel is drained and everything registered and cached is settled. -/
theorem histC_settled {env : Env} (hS : env.Steady) {fuel : Nat} {h : List (Env × HOp)} {x : St × RSt}
    (hh : HistP (StepOKC env fuel) env fuel h x) (hx : SInvC env fuel x) :
    SInvC env fuel (runH fuel h x) ∧
    ∀ h1 op h2, h = h1 ++ (env, op) :: h2 → op.isReloader = true →
      Settled env fuel (runH fuel (h1 ++ [(env, op)]) x).1 (runH fuel (h1 ++ [(env, op)]) x).2.graph ∧
      (runH fuel (h1 ++ [(env, op)]) x).1.out = [] ∧ SInvC env fuel (runH fuel (h1 ++ [(env, op)]) x) ∧
      SInvC env fuel (runH fuel h1 x) :=
  histP_settled hS (fun _ op hx hok => hx.step hS op hok) (fun _ _ hop hok => hok.pass hop) hh hx

/-! ## `load_owned` from the API

`load_owned(key)` evaluates the loader of `key` under its own frame and, on success, registers `key`
with what the frame recorded — like a load — but caches nothing for `key`: the value is handed to the
caller. The registration is for a key that is (in general) NOT cached: vacuously `MsgGoodIf`; the node it
creates is typed and skipped by `reload` (`reload_untyped` finds no entry). The assets the owned load
cached ON THE WAY (nested `load`s) are registered by good messages, exactly as for a load.
When `key` IS cached (`load a; load_owned a`) the registration must agree with the entry (`OwnedAgrees`):
it does, because the invariant knows every cached dynamic entry (`Reg`, `OwnedAgrees.of_known`).
Nested `load_owned` (inside a loader) stays excluded: `hitRun` rejects it, so an asset whose loader takes
that path is never `Settled` — by definition, not by a gap of the proof. -/

theorem St.record_nil (s : St) (on : Bool) (d : Dep) (h : s.recs = []) : s.record on d = s := by
  unfold St.record
  split
  · rw [h]
  · rfl

theorem eval_ret_fst (env : Env) (f : Nat) (s : St) (v : Val) : (eval env f s (.ret v)).1 = s := by
  cases f <;> rfl

theorem eval_fail_fst (env : Env) (f : Nat) (s : St) (e : LErr) : (eval env f s (.fail e)).1 = s := by
  cases f <;> rfl

/-- the evaluation of the loader body that a top-level `load_owned(key)` performs: the loader of `key`
from the cache `s` under a fresh record, with the fuel left after the call itself -/
def ownedBody (env : Env) (fuel : Nat) (s : St) (key : Key) : St × Outcome :=
  eval env (fuel - 1) s.fresh ((env.types key.ty).prog key.id)

/-- **What a top-level `load_owned` does** (hot type, cache with reloader): the cache afterwards is the
cache the body ended in — nothing is inserted for `key` —, and the channel is the body's followed, when
the body returned a value, by the registration of `key` with what the body recorded. -/
theorem step_loadOwned_facts (env : Env) (f : Nat) (s : St) (key : Key)
    (hb : recordsAsset (env.types key.ty).hot env.hasReloader = true) :
    (∀ k, (step env (f + 1) s (.loadOwned key)).1.lookup k = (ownedBody env (f + 1) s key).1.lookup k) ∧
    (step env (f + 1) s (.loadOwned key)).1.out = (ownedBody env (f + 1) s key).1.out ++
      (match (ownedBody env (f + 1) s key).2 with
       | .ok _ => [.addAsset key (ownedBody env (f + 1) s key).1.top]
       | _ => []) := by
  have hfr : (St.enter { s with recs := [] }) = s.fresh := rfl
  have hrec : St.record { s with recs := [] } (recordsAsset (env.types key.ty).hot env.hasReloader) (.asset key) =
      { s with recs := [] } := St.record_nil _ _ _ rfl
  show (∀ k, (evalTop env (f + 1) s (.loadOwned key Prog.ret')).1.lookup k = _) ∧
    (evalTop env (f + 1) s (.loadOwned key Prog.ret')).1.out = _
  unfold evalTop ownedBody
  simp only [eval, hrec, Nat.add_sub_cancel]
  rw [loadAndRecord_hot env _ key _ hb, hfr]
  generalize eval env f s.fresh ((env.types key.ty).prog key.id) = y
  obtain ⟨sb, o⟩ := y
  cases o with
  | ok v =>
    simp only []
    have e : Prog.ret' (.ok v) = .ret v := rfl
    rw [e, eval_ret_fst]
    exact ⟨fun _ => rfl, rfl⟩
  | err e =>
    simp only [cont]
    have e' : Prog.ret' (.error (id (LErr.wrapped key.id e))) = .fail (LErr.wrapped key.id e) := rfl
    rw [e', eval_fail_fst]
    refine ⟨fun k => ?_, ?_⟩
    · exact St.lookup_congr (leaveErr_map _ sb) k
    · show (St.leaveErr _ sb).out = sb.out ++ []
      rw [leaveErr_out, List.append_nil]
  | panicked => exact ⟨fun _ => rfl, (List.append_nil _).symm⟩
  | diverged => exact ⟨fun _ => rfl, (List.append_nil _).symm⟩

/-- the evaluation a top-level `load_owned(key)` performs is a clean loading run: the type of `key` is
hot-reloaded, and the body of its loader runs clean (`cleanRun`, relative to the cache the call ends in:
plain constructors and recorded look-ups on the path it takes, nested `load`s included; no absorbed
failure; no `get_cached` probe of a key that is cached before the call returns) -/
structure CleanLoadOwned (env : Env) (fuel : Nat) (s : St) (key : Key) : Prop where
  hot : recordsAsset (env.types key.ty).hot env.hasReloader = true
  body : cleanRun env (step env fuel s (.loadOwned key)).1 (fuel - 1) s.fresh ((env.types key.ty).prog key.id) = true

/-- a `load_owned` of a key that is cached (with a dynamic cell) returns the cached value -/
def OwnedAgrees (env : Env) (fuel : Nat) (s : St) (key : Key) : Prop :=
  ∀ c v, s.lookup key = some c → c.dyn = true → (ownedBody env fuel s key).2 = .ok v → v = c.val

/-- a tracked hit-only run is one with less fuel too -/
theorem hitRun_down (env : Env) : ∀ (f F : Nat) (p : Prog) (s : St), f ≤ F →
    hitRun env F s p = true → hitRun env f s p = true := by
  intro f
  induction f with
  | zero => intro F p s _ _; rfl
  | succ f ih =>
    intro F p s hle hh
    obtain ⟨F', rfl⟩ : ∃ F', F = F' + 1 := ⟨F - 1, by omega⟩
    have hle' : f ≤ F' := by omega
    cases p with
    | ret v => rfl
    | fail e => rfl
    | panic => rfl
    | read id ext k =>
      simp only [hitRun, Bool.and_eq_true] at hh ⊢
      exact ⟨hh.1, ih F' _ _ hle' hh.2⟩
    | readDir id k =>
      simp only [hitRun, Bool.and_eq_true] at hh ⊢
      exact ⟨hh.1, ih F' _ _ hle' hh.2⟩
    | getCached key k =>
      simp only [hitRun, Bool.and_eq_true] at hh ⊢
      exact ⟨hh.1, ih F' _ _ hle' hh.2⟩
    | tick k =>
      simp only [hitRun] at hh ⊢
      exact ih F' _ _ hle' hh
    | load key k =>
      simp only [hitRun, Bool.and_eq_true] at hh ⊢
      refine ⟨hh.1, ?_⟩
      have h2 := hh.2
      cases hl : (s.record (recordsAsset (env.types key.ty).hot env.hasReloader) (.asset key)).lookup key with
      | none => rw [hl] at h2; cases h2
      | some c =>
        rw [hl] at h2
        simp only [] at h2 ⊢
        exact ih F' _ _ hle' h2
    | noRecord body k => simp only [hitRun] at hh; cases hh
    | onThread body k => simp only [hitRun] at hh; cases hh
    | tryCatch body k => simp only [hitRun] at hh; cases hh
    | loadOwned key k => simp only [hitRun] at hh; cases hh
    | getOrInsert key v k => simp only [hitRun] at hh; cases hh

theorem lastReg_of_mem {k : Key} {ms : List Msg} {D : List Dep} (h : Msg.addAsset k D ∈ ms) :
    ∃ D', lastReg k ms = some D' := by
  cases hl : lastReg k ms with
  | some D' => exact ⟨D', rfl⟩
  | none => exact absurd h (lastReg_none hl D)

/-- when re-evaluating the loader of `key` in `s` is a tracked hit-only run, the body of a top-level
`load_owned(key)` that returns (it has one unit of fuel less) returns what that re-evaluation returns -/
theorem ownedBody_of_hit {env : Env} {fuel : Nat} {s : St} {key : Key} {v : Val}
    (hh : reloadHit env fuel s key = true) (hv : (ownedBody env fuel s key).2 = .ok v) :
    reloadOut env fuel s key = .ok v := by
  unfold ownedBody at hv
  have h1 : hitRun env (fuel - 1) s.fresh ((env.types key.ty).prog key.id) = true :=
    hitRun_down env (fuel - 1) fuel _ _ (Nat.sub_le _ _) hh
  obtain ⟨_, g2⟩ := hitRun_fuel env (fuel - 1) fuel _ s.fresh (Nat.sub_le _ _) h1 (by rw [hv]; exact fun h => by cases h)
  unfold reloadOut
  rw [reloadEval_eq]
  simp only []
  rw [g2, hv]

/-- **`OwnedAgrees` holds for every key the invariant knows**: if `key`, when cached with a dynamic cell,
is registered (typed node) or has a registration in the channel, then — `PendingC` — re-evaluating its
loader is a tracked hit-only run that returns the cached value (or fails), and so does the owned load. -/
theorem OwnedAgrees.of_known {env : Env} {fuel : Nat} {s : St} {g : Graph} {key : Key}
    (hp : PendingC env fuel s g)
    (hk : ∀ c, s.lookup key = some c → c.dyn = true →
      (∃ node, g.get (.asset key) = some node ∧ node.typed = true) ∨ ∃ D, Msg.addAsset key D ∈ s.out) :
    OwnedAgrees env fuel s key := by
  intro c v hc hd hv
  have hpend : ∀ D, Msg.addAsset key D ∈ s.out → v = c.val := by
    intro D hm
    obtain ⟨D', hl⟩ := lastReg_of_mem hm
    obtain ⟨c0, hc0, m1, m2, _⟩ := hp.good key D' hl c hc hd
    rw [hc] at hc0
    have ec : c = c0 := by simpa using hc0
    subst ec
    have := ownedBody_of_hit m1 hv
    rw [m2] at this
    exact (Outcome.ok.inj this).symm
  rcases hk c hc hd with ⟨node, hg, ht⟩ | ⟨D, hm⟩
  · rcases hp.but key node c hg ht hc hd with h1 | ⟨D, hm⟩
    · have := ownedBody_of_hit h1.hit hv
      rcases h1.res with ⟨r1, _⟩ | ⟨e, r1, _⟩
      · rw [r1] at this; exact (Outcome.ok.inj this).symm
      · rw [r1] at this; cases this
    · exact hpend D hm
  · exact hpend D hm

/-- the named hypotheses on one `load_owned` of a history -/
structure LoadOwnedOK (env : Env) (fuel : Nat) (s : St) (r : RSt) (key : Key) : Prop where
  clean : CleanLoadOwned env fuel s key
  noFill : NoProbedKeyFilled s (step env fuel s (.loadOwned key)).1 r.graph
  noFillLive : NoLivePendingKeyFilled s (step env fuel s (.loadOwned key)).1

/-- **A top-level `load_owned` keeps `PendingC`.** -/
theorem loadOwned_pendingC {env : Env} (hS : env.Steady) {fuel : Nat} {s : St} {r : RSt} (key : Key)
    (hp : PendingC env fuel s r.graph) (hok : LoadOwnedOK env fuel s r key) :
    PendingC env fuel (step env fuel s (.loadOwned key)).1 r.graph := by
  have hag : OwnedAgrees env fuel s key := OwnedAgrees.of_known hp (fun c hc hd => hp.reg key c hc hd)
  obtain ⟨⟨hb, hcl⟩, hfill, hfillM⟩ := hok
  cases fuel with
  | zero =>
    exact hp.extend hS (new := []) (fun k c h => h) (List.append_nil _).symm (LastGood.nil _ _ _)
      (fun k c h _ => Or.inl h) hfill hfillM
  | succ f =>
    obtain ⟨hlk, hout⟩ := step_loadOwned_facts env f s key hb
    unfold OwnedAgrees at hag
    unfold ownedBody at hlk hout hag
    simp only [Nat.add_sub_cancel] at hlk hout hag hcl
    generalize ht : (step env (f + 1) s (.loadOwned key)).1 = t at hlk hout hcl hfill hfillM ⊢
    have hleB : (eval env f s.fresh ((env.types key.ty).prog key.id)).1.Le t := fun k c h => (hlk k).trans h
    obtain ⟨newb, b1, b2, b3⟩ := clean_out hS (f + 1) (fin0 := t) (fin := t) (fun _ h => h) f _ s.fresh
      (Nat.le_succ f) hcl hleB
    have hb3 : ∀ k c, t.lookup k = some c → s.lookup k = some c ∨ ∃ D, Msg.addAsset k D ∈ newb := by
      intro k c h
      rw [hlk k] at h
      exact b3 k c h
    have hgoodb : ∀ k D, lastReg k newb = some D → MsgGood env (f + 1) t k D := by
      intro k D hk
      obtain ⟨k', D', e, hg⟩ := b2 _ (lastReg_mem hk)
      obtain ⟨e1, e2⟩ := Msg.addAsset.inj e
      subst e1; subst e2
      exact hg
    have hle : s.Le t :=
      ((St.Le.of_map_eq (s := s) (t := s.fresh) rfl).trans (eval_mono env f s.fresh _)).trans hleB
    cases hbody : eval env f s.fresh ((env.types key.ty).prog key.id) with
    | mk sb o =>
      rw [hbody] at hout b1 hag hleB
      have b1' : sb.out = s.out ++ newb := b1
      cases o with
      | ok v =>
        simp only [] at hout
        refine hp.extend hS (new := newb ++ [.addAsset key sb.top]) hle
          (by rw [hout, b1', List.append_assoc]) ?_ ?_ hfill hfillM
        · intro k D hk
          rw [lastReg_append] at hk
          by_cases hkk : key = k
          · subst hkk
            have hl : lastReg key [Msg.addAsset key sb.top] = some sb.top := by simp only [lastReg, if_true]
            rw [hl] at hk
            simp only [Option.some.injEq] at hk
            subst hk
            intro c hc hd
            obtain ⟨p1, p2, p3⟩ := clean_body_replay hS (fin0 := t) (fin := t) (fun _ h => h) (Nat.le_succ f)
              (s0 := s.fresh) (rs := []) rfl hcl hbody hleB
            have hv : v = c.val := by
              rcases hb3 key c hc with h | ⟨D, h⟩
              · exact hag c v h hd rfl
              · obtain ⟨k', D', e, c', hc', _, m2, _⟩ := b2 _ h
                obtain ⟨ek, _⟩ := Msg.addAsset.inj e
                subst ek
                rw [hc] at hc'
                have ec : c = c' := by simpa using hc'
                subst ec
                rw [p2] at m2
                exact Outcome.ok.inj m2
            exact ⟨c, hc, p1, by rw [p2, hv], p3⟩
          · have hl : lastReg k [Msg.addAsset key sb.top] = none := by simp only [lastReg, hkk, if_false]
            rw [hl] at hk
            intro _ _ _
            exact hgoodb k D hk
        · intro k c hc _
          rcases hb3 k c hc with h | ⟨D, h⟩
          · exact Or.inl h
          · exact Or.inr ⟨D, List.mem_append_left _ h⟩
      | err e =>
        simp only [] at hout
        refine hp.extend hS (new := newb) hle (by rw [hout, b1', List.append_nil]) ?_ ?_ hfill hfillM
        · intro k D hk _ _ _
          exact hgoodb k D hk
        · intro k c hc _; exact hb3 k c hc
      | panicked =>
        simp only [] at hout
        refine hp.extend hS (new := newb) hle (by rw [hout, b1', List.append_nil]) ?_ ?_ hfill hfillM
        · intro k D hk _ _ _
          exact hgoodb k D hk
        · intro k c hc _; exact hb3 k c hc
      | diverged =>
        simp only [] at hout
        refine hp.extend hS (new := newb) hle (by rw [hout, b1', List.append_nil]) ?_ ?_ hfill hfillM
        · intro k D hk _ _ _
          exact hgoodb k D hk
        · intro k c hc _; exact hb3 k c hc

/-- **The per-step hypotheses of a history with `clear` and `load_owned`**: `StepOKC`, and `LoadOwnedOK`
for a `load_owned` from the API -/
def StepOKO (env : Env) (fuel : Nat) : HOp → St × RSt → Prop
  | .api (.loadOwned key), x => (step env fuel x.1 (.loadOwned key)).1 = x.1 ∨ LoadOwnedOK env fuel x.1 x.2 key
  | op, x => StepOKC env fuel op x

theorem StepOKC.toO {env : Env} {fuel : Nat} {op : HOp} {x : St × RSt} (h : StepOKC env fuel op x) :
    StepOKO env fuel op x := by
  cases op with
  | api o =>
    cases o with
    | loadOwned key => exact h.imp id (fun h' => h'.elim)
    | load key => exact h
    | getCached key => exact h
    | getOrInsert key v => exact h
    | contains key => exact h
    | remove key => exact h
    | take key => exact h
    | clear => exact h
  | notify evs => exact h
  | hotReload => exact h
  | enhance => exact h

theorem StepOKO.loadOwned {env : Env} {fuel : Nat} {x : St × RSt} {key : Key} (h : LoadOwnedOK env fuel x.1 x.2 key) :
    StepOKO env fuel (.api (.loadOwned key)) x := Or.inr h

theorem SInvC.stepO {env : Env} (hS : env.Steady) {fuel : Nat} {x : St × RSt} (h : SInvC env fuel x)
    (op : HOp) (hok : StepOKO env fuel op x) : SInvC env fuel (hstep fuel (env, op) x) := by
  cases op with
  | api o =>
    cases o with
    | loadOwned key =>
      obtain ⟨s, r⟩ := x
      have hp : PendingC env fuel (Model.step env fuel s (.loadOwned key)).1 r.graph := by
        rcases hok with e | hok
        · rw [show (Model.step env fuel s (.loadOwned key)).1 = s from e]; exact h.pending
        · exact loadOwned_pendingC hS key h.pending hok
      exact ⟨hp, h.live, h.inv, h.idle⟩
    | load key => exact h.step hS _ hok
    | getCached key => exact h.step hS _ hok
    | getOrInsert key v => exact h.step hS _ hok
    | contains key => exact h.step hS _ hok
    | remove key => exact h.step hS _ hok
    | take key => exact h.step hS _ hok
    | clear => exact h.step hS _ hok
  | notify evs => exact h.step hS _ hok
  | hotReload => exact h.step hS _ hok
  | enhance => exact h.step hS _ hok

theorem StepOKO.pass {env : Env} {fuel : Nat} {op : HOp} {x : St × RSt} (hop : op.isReloader = true)
    (h : StepOKO env fuel op x) :
    op.runsPass x.2 = true → (prePass op x).2.toReload ≠ [] → PassOK env fuel (prePass op x) := by
  cases op with
  | api o => cases hop
  | notify evs => exact h
  | hotReload => exact h
  | enhance => exact h

/-- **Histories with `clear` and `load_owned`** -/
theorem histO_settled {env : Env} (hS : env.Steady) {fuel : Nat} {h : List (Env × HOp)} {x : St × RSt}
    (hh : HistP (StepOKO env fuel) env fuel h x) (hx : SInvC env fuel x) :
    SInvC env fuel (runH fuel h x) ∧
    ∀ h1 op h2, h = h1 ++ (env, op) :: h2 → op.isReloader = true →
      Settled env fuel (runH fuel (h1 ++ [(env, op)]) x).1 (runH fuel (h1 ++ [(env, op)]) x).2.graph ∧
      (runH fuel (h1 ++ [(env, op)]) x).1.out = [] ∧ SInvC env fuel (runH fuel (h1 ++ [(env, op)]) x) ∧
      SInvC env fuel (runH fuel h1 x) :=
  histP_settled hS (fun _ op hx hok => hx.stepO hS op hok) (fun _ _ hop hok => hok.pass hop) hh hx

/-! ## Executable checks of the weakened hypotheses (for concrete instances) -/

/-- `NoLivePendingKeyFilled`, as a check over the channel -/
def noLivePendingKeyFilledB (s t : St) : Bool :=
  s.out.all fun m =>
    match m with
    | .addAsset k D =>
      (match s.lookup k with
       | some c => !c.dyn || depsStayB s t D
       | none => true)
    | .clear => true

theorem noLivePendingKeyFilled_of_check {s t : St} (h : noLivePendingKeyFilledB s t = true) :
    NoLivePendingKeyFilled s t := by
  intro k D c hm hc hd
  unfold noLivePendingKeyFilledB at h
  rw [List.all_eq_true] at h
  have h1 := h _ hm
  simp only [hc, hd, Bool.not_true, Bool.false_or] at h1
  exact depsStay_of_check h1

theorem depsStay_check_of {s t : St} {D : List Dep}
    (h : ∀ y, Dep.asset y ∈ D → s.lookup y = none → t.lookup y = none) : depsStayB s t D = true := by
  unfold depsStayB
  rw [List.all_eq_true]
  intro d hd
  cases d with
  | file id ext => rfl
  | dir id => rfl
  | asset y =>
    simp only []
    cases hy : s.lookup y with
    | some c => rfl
    | none => simp only [Option.isSome_none, Bool.false_or, Option.isNone_iff_eq_none]; exact h y hd hy

/-- the checks are exact: a violated check refutes the hypothesis -/
theorem noPendingKeyFilled_check_of {s t : St} (h : NoPendingKeyFilled s t) : noPendingKeyFilledB s t = true := by
  unfold noPendingKeyFilledB
  rw [List.all_eq_true]
  intro m hm
  cases m with
  | clear => rfl
  | addAsset k D => exact depsStay_check_of (h k D hm)

theorem noLivePendingKeyFilled_check_of {s t : St} (h : NoLivePendingKeyFilled s t) :
    noLivePendingKeyFilledB s t = true := by
  unfold noLivePendingKeyFilledB
  rw [List.all_eq_true]
  intro m hm
  cases m with
  | clear => rfl
  | addAsset k D =>
    simp only []
    cases hc : s.lookup k with
    | none => rfl
    | some c =>
      simp only []
      cases hd : c.dyn with
      | false => rfl
      | true => simp only [Bool.not_true, Bool.false_or]; exact depsStay_check_of (h k D c hm hc hd)

/-- `LoadOKC`, as a check -/
def loadOKCB (env : Env) (fuel : Nat) (s : St) (r : RSt) (key : Key) : Bool :=
  cleanRun env (step env fuel s (.load key)).1 fuel { s with recs := [] } (.load key Prog.ret') &&
  noProbedKeyFilledB s (step env fuel s (.load key)).1 r.graph &&
  noLivePendingKeyFilledB s (step env fuel s (.load key)).1

theorem loadOKC_of_check {env : Env} {fuel : Nat} {s : St} {r : RSt} {key : Key}
    (h : loadOKCB env fuel s r key = true) : LoadOKC env fuel s r key := by
  unfold loadOKCB at h
  simp only [Bool.and_eq_true] at h
  exact ⟨h.1.1, noProbedKeyFilled_of_check h.1.2, noLivePendingKeyFilled_of_check h.2⟩

/-- `NoDependentOnC`, as a check -/
def noDependentOnCB (s : St) (g : Graph) (key : Key) : Bool :=
  (g.all fun x =>
    match x.1 with
    | .asset k =>
      (match s.lookup k with
       | some c => !(x.2.typed && c.dyn) || decide (k = key) || !decide (Dep.asset key ∈ x.2.deps)
       | none => true)
    | _ => true) &&
  (s.out.all fun m =>
    match m with
    | .addAsset k D =>
      (match s.lookup k with
       | some c => !c.dyn || decide (k = key) || !decide (Dep.asset key ∈ D)
       | none => true)
    | .clear => true)

theorem noDependentOnC_of_check {s : St} {g : Graph} {key : Key} (h : noDependentOnCB s g key = true) :
    NoDependentOnC s g key := by
  unfold noDependentOnCB at h
  simp only [Bool.and_eq_true, List.all_eq_true] at h
  obtain ⟨h1, h2⟩ := h
  constructor
  · intro k node c hg ht hc hd hk hmem
    have := h1 (.asset k, node) (get_some_mem hg)
    simp only [hc, ht, hd, Bool.and_self, Bool.not_true, Bool.false_or, hk, decide_false, hmem, decide_true] at this
    cases this
  · intro k D c hm hc hd hk hmem
    have := h2 _ hm
    simp only [hc, hd, Bool.not_true, Bool.false_or, hk, decide_false, hmem, decide_true] at this
    cases this

/-- `OwnedAgrees`, as a check -/
def ownedAgreesB (env : Env) (fuel : Nat) (s : St) (key : Key) : Bool :=
  match s.lookup key with
  | some c =>
    !c.dyn ||
      (match (ownedBody env fuel s key).2 with
       | .ok v => decide (v = c.val)
       | _ => true)
  | none => true

theorem ownedAgrees_of_check {env : Env} {fuel : Nat} {s : St} {key : Key} (h : ownedAgreesB env fuel s key = true) :
    OwnedAgrees env fuel s key := by
  intro c v hc hd hv
  unfold ownedAgreesB at h
  rw [hc, hv] at h
  simpa [hd] using h

theorem ownedAgrees_check_of {env : Env} {fuel : Nat} {s : St} {key : Key} (h : OwnedAgrees env fuel s key) :
    ownedAgreesB env fuel s key = true := by
  unfold ownedAgreesB
  cases hc : s.lookup key with
  | none => rfl
  | some c =>
    simp only []
    cases hd : c.dyn with
    | false => rfl
    | true =>
      simp only [Bool.not_true, Bool.false_or]
      cases hv : (ownedBody env fuel s key).2 with
      | ok v => simp only [decide_eq_true_eq]; exact h c v hc hd hv
      | err e => rfl
      | panicked => rfl
      | diverged => rfl

/-- `LoadOwnedOK`, as a check -/
def loadOwnedOKB (env : Env) (fuel : Nat) (s : St) (r : RSt) (key : Key) : Bool :=
  recordsAsset (env.types key.ty).hot env.hasReloader &&
  cleanRun env (step env fuel s (.loadOwned key)).1 (fuel - 1) s.fresh ((env.types key.ty).prog key.id) &&
  noProbedKeyFilledB s (step env fuel s (.loadOwned key)).1 r.graph &&
  noLivePendingKeyFilledB s (step env fuel s (.loadOwned key)).1

theorem loadOwnedOK_of_check {env : Env} {fuel : Nat} {s : St} {r : RSt} {key : Key}
    (h : loadOwnedOKB env fuel s r key = true) : LoadOwnedOK env fuel s r key := by
  unfold loadOwnedOKB at h
  simp only [Bool.and_eq_true] at h
  exact ⟨⟨h.1.1.1, h.1.1.2⟩, noProbedKeyFilled_of_check h.1.2, noLivePendingKeyFilled_of_check h.2⟩

end AmVerif.Model
