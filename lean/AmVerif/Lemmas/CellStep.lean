import AmVerif.Lemmas.Cell
/-! # Every step of every thread preserves `Inv` -/
namespace AmVerif.Model.Cell
open AmVerif.Gen.Cell

theorem runner_not_quietPost {sh : Sh} {th : Th} {a : Act} (ha : th.act = some a)
    (hr : runnerOK sh a) (hq : quietPost th) : False := by
  have := hq a ha
  unfold runnerOK at hr
  unfold preAt postAt at this
  rcases hr with ⟨p, q, _⟩ | ⟨p, q, _⟩ | ⟨p, q, _⟩ | ⟨p, q, _⟩ | ⟨p, q, _⟩ | ⟨p, q, _⟩ | ⟨p, q, _⟩ <;>
    rw [p] at this <;> simp at this <;> omega

/-- a thread that is neither inside the closure nor holding the escaped seed moves, without touching
the shared state, to another such state -/
theorem inv_same_sh_noslot {sh : Sh} {ths : Nat → Th} {t : Nat} {th' : Th}
    (h : Inv ⟨sh, ths⟩) (hq0 : quietPost (ths t)) (hs0 : ∀ b, (ths t).act = some b → b.slot = none)
    (hq : quietPost th') (hslot : ∀ b, th'.act = some b → b.slot = none)
    (hqq : sh.once ≠ .done → quiet th')
    (hr : ∀ r, r ∈ th'.results → resOK sh r) : Inv ⟨sh, upd ths t th'⟩ := by
  refine ⟨h.nubC, ?_, res_upd h.resC hr⟩
  rcases h.phaseC with ⟨h1, h2, h3, h4, hq'⟩ | ⟨r, a, h1, h2, h3, hq'⟩ | ⟨h1, h2, h3, hq', hacct⟩
  · exact phase_empty_upd h1 h2 h3 h4 (fun u _ => hq' u) (hqq (by rw [h1]; simp))
  · have hne : r ≠ t := by
      intro e; subst e; exact runner_not_quietPost h2 h3 hq0
    exact phase_run_other hne h1 h2 h3 (hqq (by rw [h1]; simp)) hq'
  · refine phase_done_upd h1 h2 h3 (fun u _ => hq' u) hq ?_
    rcases hacct with ⟨hn, hl⟩ | ⟨hh, a, ha1, ha2, ha3, hl⟩
    · exact acct_none (fun u _ a ha => hn u a ha) hslot hl
    · have hne : hh ≠ t := by
        intro e; subst e; exact ha2 (hs0 a ha1)
      exact acct_other hne ha1 ha2 ha3 hslot hl

/-- a thread that is not in a call moves to a quiet state without touching the shared state -/
theorem inv_same_sh_quiet {sh : Sh} {ths : Nat → Th} {t : Nat} {th' : Th}
    (h : Inv ⟨sh, ths⟩) (hact : (ths t).act = none) (hq : quiet th')
    (hr : ∀ r, r ∈ th'.results → resOK sh r) : Inv ⟨sh, upd ths t th'⟩ :=
  inv_same_sh_noslot h (fun a ha => by rw [hact] at ha; cases ha) (fun a ha => by rw [hact] at ha; cases ha)
    (quiet_quietPost hq) (fun b hb => (hq b hb).2.2.2) (fun _ => hq) hr

theorem preAt_fresh (p : Path) (o : Outcome) : preAt { path := p, pc := 0, out := o } := by
  cases p <;> simp [preAt]

theorem inv_idle {sh sh' : Sh} {ths : Nat → Th} {t : Nat} {th' : Th}
    (h : Inv ⟨sh, ths⟩) (hact : (ths t).act = none)
    (hst : stepTh sh t (ths t) = some (sh', th')) : Inv ⟨sh', upd ths t th'⟩ := by
  unfold stepTh at hst
  rw [hact] at hst
  simp only at hst
  have hres := h.resC t
  cases hc : (ths t).calls with
  | nil => rw [hc] at hst; cases hst
  | cons c rest =>
    rw [hc] at hst
    cases c with
    | init o =>
      simp only [Option.some.injEq, Prod.mk.injEq] at hst
      obtain ⟨rfl, rfl⟩ := hst
      refine inv_same_sh_quiet h hact ?_ (fun r hr => hres r hr)
      intro a ha
      simp only [Option.some.injEq] at ha
      subst ha
      exact ⟨preAt_fresh _ _, rfl, rfl, rfl⟩
    | get =>
      simp only at hst
      have hg : ∃ r, getStep sh = some (sh, r) ∧ resOK sh r := by
        unfold getStep
        simp only [getBlocks, Bool.false_eq_true, false_and, ↓reduceIte]
        rcases h.phaseC with ⟨h1, _⟩ | ⟨r, a, h1, _⟩ | ⟨h1, ⟨v, h2⟩, _⟩
        · exact ⟨.none, by simp [h1, getArm], trivial⟩
        · exact ⟨.none, by simp [h1, getArm], trivial⟩
        · exact ⟨.ref v, by simp [h1, h2, getArm, Data.read], h1, h2⟩
      obtain ⟨r, hg1, hg2⟩ := hg
      rw [hg1] at hst
      simp only [Option.some.injEq, Prod.mk.injEq] at hst
      obtain ⟨rfl, rfl⟩ := hst
      refine inv_same_sh_quiet h hact ?_ ?_
      · intro a ha; cases ha
      · intro r' hr'
        simp only [List.mem_cons] at hr'
        rcases hr' with rfl | hr'
        · exact hg2
        · exact hres r' hr'


theorem exitIdx_dflt : exitIdx (progOf .dflt) = 9 := by decide
theorem exitIdx_noDrop : exitIdx (progOf .noDrop) = 6 := by decide

/-- the effect of `onceEnter` (shared by both programs) -/
theorem inv_onceEnter {sh sh' : Sh} {ths : Nat → Th} {t : Nat} {th' : Th} {a : Act}
    (h : Inv ⟨sh, ths⟩) (hact : (ths t).act = some a) (hpre : preAt a) (hregs : regsNone a)
    (hrun : (∃ c, sh.data = .seed c) → sh.inits = 0 → ledger0 sh →
      runnerOK { sh with once := .running t } { a with pc := a.pc + 1 })
    (hpost : postAt { a with pc := exitIdx (progOf a.path) })
    (hst : interp sh t (ths t) a .onceEnter = some (sh', th')) : Inv ⟨sh', upd ths t th'⟩ := by
  have hq0 : quietPost (ths t) := fun b hb => by
    rw [hact] at hb; cases hb; exact Or.inl ⟨hpre, hregs⟩
  have hs0 : ∀ b, (ths t).act = some b → b.slot = none := fun b hb => by
    rw [hact] at hb; cases hb; exact hregs.2.2
  unfold interp at hst
  rcases h.phaseC with ⟨h1, h2, h3, h4, hq'⟩ | ⟨r, ar, h1, h2, h3, hq'⟩ | ⟨h1, h2, h3, hq', hacct⟩
  · rw [h1] at hst
    simp only [Option.some.injEq, Prod.mk.injEq] at hst
    obtain ⟨rfl, rfl⟩ := hst
    refine ⟨h.nubC, ?_, res_upd (fun u r hr => resOK_mono (h.resC u r hr) rfl (fun hd => ?_)) (fun r hr => resOK_mono (h.resC t r hr) rfl (fun hd => ?_))⟩
    · exact phase_run_self (a' := { a with pc := a.pc + 1 }) rfl rfl (hrun h2 h3 h4) (fun u _ => hq' u)
    · rw [h1] at hd; cases hd
    · rw [h1] at hd; cases hd
  · rw [h1] at hst; cases hst
  · rw [h1] at hst
    simp only [Option.some.injEq, Prod.mk.injEq] at hst
    obtain ⟨rfl, rfl⟩ := hst
    refine inv_same_sh_noslot h hq0 hs0 ?_ ?_ (fun hne => absurd h1 hne) (fun r hr => h.resC t r hr)
    · intro b hb
      simp only [goto, Option.some.injEq] at hb
      subst hb
      exact Or.inr ⟨hpost, hregs.1, hregs.2.1, fun hc => absurd hregs.2.2 hc⟩
    · intro b hb
      simp only [goto, Option.some.injEq] at hb
      subst hb
      exact hregs.2.2

/-- steps of a thread that has not reached the once yet -/
theorem inv_pre {sh sh' : Sh} {ths : Nat → Th} {t : Nat} {th' : Th} {a : Act}
    (h : Inv ⟨sh, ths⟩) (hact : (ths t).act = some a) (hpre : preAt a) (hregs : regsNone a)
    (hst : stepTh sh t (ths t) = some (sh', th')) : Inv ⟨sh', upd ths t th'⟩ := by
  have hq0 : quietPost (ths t) := fun b hb => by
    rw [hact] at hb; cases hb; exact Or.inl ⟨hpre, hregs⟩
  have hs0 : ∀ b, (ths t).act = some b → b.slot = none := fun b hb => by
    rw [hact] at hb; cases hb; exact hregs.2.2
  obtain ⟨hv, htmp, hslot⟩ := hregs
  rcases hpre with ⟨hp, hpc | hpc⟩ | ⟨hp, hpc⟩
  · -- dflt 0: slotNone
    simp only [stepTh, hact, hp, hpc, progOf, initDefault, List.getElem?_cons_zero, interp,
      Option.some.injEq, Prod.mk.injEq] at hst
    obtain ⟨rfl, rfl⟩ := hst
    refine inv_same_sh_noslot h hq0 hs0 (quiet_quietPost ?_) ?_ (fun _ => ?_) (fun r hr => h.resC t r hr)
    · intro b hb; simp only [goto, Option.some.injEq] at hb; subst hb
      simp [preAt, regsNone, hv, htmp]
    · intro b hb; simp only [goto, Option.some.injEq] at hb; subst hb; rfl
    · intro b hb; simp only [goto, Option.some.injEq] at hb; subst hb
      simp [preAt, regsNone, hv, htmp]
  · -- dflt 1: onceEnter
    have : stepTh sh t (ths t) = interp sh t (ths t) a .onceEnter := by
      simp [stepTh, hact, hp, hpc, progOf, initDefault]
    rw [this] at hst
    refine inv_onceEnter h hact (Or.inl ⟨hp, Or.inr hpc⟩) ⟨hv, htmp, hslot⟩ ?_ ?_ hst
    · intro h2 h3 h4
      exact Or.inl ⟨hp, Or.inl (by simp [hpc]), ⟨hv, htmp, hslot⟩, h2, h3, h4⟩
    · rw [hp, exitIdx_dflt]; simp [postAt]
  · -- noDrop 0: onceEnter
    have : stepTh sh t (ths t) = interp sh t (ths t) a .onceEnter := by
      simp [stepTh, hact, hp, hpc, progOf, initNoDrop]
    rw [this] at hst
    refine inv_onceEnter h hact (Or.inr ⟨hp, hpc⟩) ⟨hv, htmp, hslot⟩ ?_ ?_ hst
    · intro h2 h3 h4
      exact Or.inr (Or.inr (Or.inr (Or.inr (Or.inl ⟨hp, Or.inl (by simp [hpc]), ⟨hv, htmp, hslot⟩, h2, h3, h4⟩))))
    · rw [hp, exitIdx_noDrop]; simp [postAt]


/-- once initialised: a thread past the once moves on keeping its `uninit_value` as it is -/
theorem inv_done_keep_slot {sh : Sh} {ths : Nat → Th} {t : Nat} {th' : Th} {a a' : Act}
    (h : Inv ⟨sh, ths⟩) (hdone : sh.once = .done) (hact : (ths t).act = some a)
    (hact' : th'.act = some a') (hslot : a'.slot = a.slot) (hq : quietPost th')
    (hr : ∀ r, r ∈ th'.results → resOK sh r) : Inv ⟨sh, upd ths t th'⟩ := by
  refine ⟨h.nubC, ?_, res_upd h.resC hr⟩
  rcases h.phaseC with ⟨h1, _⟩ | ⟨r, ar, h1, _⟩ | ⟨h1, h2, h3, hq', hacct⟩
  · rw [h1] at hdone; cases hdone
  · rw [h1] at hdone; cases hdone
  · refine phase_done_upd h1 h2 h3 (fun u _ => hq' u) hq ?_
    have hs' : ∀ b, th'.act = some b → b.slot = a.slot := fun b hb => by
      rw [hact'] at hb; cases hb; exact hslot
    rcases hacct with ⟨hn, hl⟩ | ⟨hh, ah, ha1, ha2, ha3, hl⟩
    · exact acct_none (fun u _ b hb => hn u b hb) (fun b hb => by rw [hs' b hb]; exact hn t a hact) hl
    · by_cases hne : hh = t
      · subst hne
        rw [hact] at ha1; cases ha1
        exact acct_self hact' (by rw [hslot]; exact ha2) ha3 hl
      · exact acct_other hne ha1 ha2 ha3 (fun b hb => by rw [hs' b hb]; exact ha3 t (fun e => hne e.symm) a hact) hl

/-- once initialised: the thread holding the escaped seed drops it -/
theorem inv_drop_escaped {sh : Sh} {ths : Nat → Th} {t : Nat} {th' : Th} {a : Act} {c : Nat}
    (h : Inv ⟨sh, ths⟩) (hdone : sh.once = .done) (hact : (ths t).act = some a) (hslot : a.slot = some c)
    (hq : quietPost th') (hs' : ∀ b, th'.act = some b → b.slot = none)
    (hr : ∀ r, r ∈ th'.results → r ∈ (ths t).results ∨ (r = .panicDrop ∧ sh.kind = .bomb)) :
    Inv ⟨{ sh with seedDrops := sh.seedDrops + 1 }, upd ths t th'⟩ := by
  have hm : ∀ r, resOK sh r → resOK { sh with seedDrops := sh.seedDrops + 1 } r := fun r hr =>
    resOK_mono hr rfl (fun hd => ⟨hd, rfl, Nat.le_succ _⟩)
  refine ⟨h.nubC, ?_, res_upd (fun u r hr' => hm r (h.resC u r hr')) (fun r hr' => ?_)⟩
  · rcases h.phaseC with ⟨h1, _⟩ | ⟨r, ar, h1, _⟩ | ⟨h1, h2, h3, hq', hacct⟩
    · rw [h1] at hdone; cases hdone
    · rw [h1] at hdone; cases hdone
    · refine phase_done_upd h1 h2 h3 (fun u _ => hq' u) hq ?_
      rcases hacct with ⟨hn, hl⟩ | ⟨hh, ah, ha1, ha2, ha3, hl⟩
      · have := hn t a hact; rw [hslot] at this; cases this
      · have hne : hh = t := by
          apply Decidable.byContradiction; intro hne
          have := ha3 t (fun e => hne e.symm) a hact; rw [hslot] at this; cases this
        subst hne
        refine acct_none ha3 hs' ?_
        obtain ⟨l1, l2⟩ := hl
        show sh.seedDrops + 1 + sh.seedLeaks = 1
        omega
  · rcases hr r hr' with hm' | ⟨rfl, hk⟩
    · exact hm r (h.resC t r hm')
    · exact ⟨hdone, hk, Nat.le_add_left _ _⟩

/-- steps of a thread past the once (the once is initialised) -/
theorem inv_post {sh sh' : Sh} {ths : Nat → Th} {t : Nat} {th' : Th} {a : Act}
    (h : Inv ⟨sh, ths⟩) (hdone : sh.once = .done) (hact : (ths t).act = some a) (hpost : postAt a)
    (hv : a.val = none) (htmp : a.tmp = none)
    (hsl : a.slot ≠ none → a.path = .dflt ∧ (a.pc = 8 ∨ a.pc = 9))
    (hst : stepTh sh t (ths t) = some (sh', th')) : Inv ⟨sh', upd ths t th'⟩ := by
  have hq0 : quietPost (ths t) := fun b hb => by
    rw [hact] at hb; cases hb; exact Or.inr ⟨hpost, hv, htmp, hsl⟩
  obtain ⟨v, hdata⟩ : ∃ v, sh.data = .value v := by
    rcases h.phaseC with ⟨h1, _⟩ | ⟨r, ar, h1, _⟩ | ⟨_, h2, _⟩
    · rw [h1] at hdone; cases hdone
    · rw [h1] at hdone; cases hdone
    · exact h2
  rcases hpost with ⟨hp, hpc | hpc | hpc⟩ | ⟨hp, hpc | hpc⟩
  · -- dflt 8: onceExit
    have htok : (progOf a.path)[a.pc]? = some .onceExit := by rw [hp, hpc]; rfl
    simp only [stepTh, hact, htok, interp, Option.some.injEq, Prod.mk.injEq] at hst
    obtain ⟨rfl, rfl⟩ := hst
    refine inv_done_keep_slot (a' := { a with pc := a.pc + 1 }) h hdone hact rfl rfl ?_ (fun r hr => h.resC t r hr)
    intro b hb; simp only [goto, Option.some.injEq] at hb; subst hb
    refine Or.inr ⟨by simp [postAt, hp, hpc], hv, htmp, fun _ => ⟨hp, Or.inr (by simp [hpc])⟩⟩
  · -- dflt 9: dropEscaped
    have htok : (progOf a.path)[a.pc]? = some .dropEscaped := by rw [hp, hpc]; rfl
    simp only [stepTh, hact, htok, interp] at hst
    cases hslot : a.slot with
    | none =>
      rw [hslot] at hst
      simp only [Option.some.injEq, Prod.mk.injEq] at hst
      obtain ⟨rfl, rfl⟩ := hst
      refine inv_same_sh_noslot h hq0 (fun b hb => by rw [hact] at hb; cases hb; exact hslot) ?_ ?_ (fun hne => absurd hdone hne) (fun r hr => h.resC t r hr)
      · intro b hb; simp only [goto, Option.some.injEq] at hb; subst hb
        exact Or.inr ⟨by simp [postAt, hp, hpc], hv, htmp, fun hc => absurd rfl hc⟩
      · intro b hb; simp only [goto, Option.some.injEq] at hb; subst hb; rfl
    | some c =>
      rw [hslot] at hst
      by_cases hk : sh.kind = .bomb
      · rw [if_pos hk] at hst
        simp only [Option.some.injEq, Prod.mk.injEq] at hst
        obtain ⟨rfl, rfl⟩ := hst
        refine inv_drop_escaped h hdone hact hslot ?_ ?_ ?_
        · intro b hb; simp [finish] at hb
        · intro b hb; simp [finish] at hb
        · intro r hr; simp only [finish, List.mem_cons] at hr
          rcases hr with rfl | hr
          · exact Or.inr ⟨rfl, hk⟩
          · exact Or.inl hr
      · rw [if_neg hk] at hst
        simp only [Option.some.injEq, Prod.mk.injEq] at hst
        obtain ⟨rfl, rfl⟩ := hst
        refine inv_drop_escaped h hdone hact hslot ?_ ?_ ?_
        · intro b hb; simp only [goto, Option.some.injEq] at hb; subst hb
          exact Or.inr ⟨by simp [postAt, hp, hpc], hv, htmp, fun hc => absurd rfl hc⟩
        · intro b hb; simp only [goto, Option.some.injEq] at hb; subst hb; rfl
        · intro r hr; exact Or.inl hr
  · -- dflt 10: ret
    have hslot : a.slot = none := by
      apply Decidable.byContradiction; intro hc
      have := (hsl hc).2; omega
    have htok : (progOf a.path)[a.pc]? = some .ret := by rw [hp, hpc]; rfl
    simp only [stepTh, hact, htok, interp, hdata, uncheckedArm, Data.read, Option.some.injEq, Prod.mk.injEq] at hst
    obtain ⟨rfl, rfl⟩ := hst
    refine inv_same_sh_noslot h hq0 (fun b hb => by rw [hact] at hb; cases hb; exact hslot) ?_ ?_ (fun hne => absurd hdone hne) ?_
    · intro b hb; simp [finish] at hb
    · intro b hb; simp [finish] at hb
    · intro r hr; simp only [finish, List.mem_cons] at hr
      rcases hr with rfl | hr
      · exact ⟨hdone, hdata⟩
      · exact h.resC t r hr
  · -- noDrop 5: onceExit
    have hslot : a.slot = none := by
      apply Decidable.byContradiction; intro hc
      have := (hsl hc).1; rw [hp] at this; cases this
    have htok : (progOf a.path)[a.pc]? = some .onceExit := by rw [hp, hpc]; rfl
    simp only [stepTh, hact, htok, interp, Option.some.injEq, Prod.mk.injEq] at hst
    obtain ⟨rfl, rfl⟩ := hst
    refine inv_same_sh_noslot h hq0 (fun b hb => by rw [hact] at hb; cases hb; exact hslot) ?_ ?_ (fun hne => absurd hdone hne) (fun r hr => h.resC t r hr)
    · intro b hb; simp only [goto, Option.some.injEq] at hb; subst hb
      exact Or.inr ⟨by simp [postAt, hp, hpc], hv, htmp, fun hc => absurd hslot hc⟩
    · intro b hb; simp only [goto, Option.some.injEq] at hb; subst hb; exact hslot
  · -- noDrop 6: ret
    have hslot : a.slot = none := by
      apply Decidable.byContradiction; intro hc
      have := (hsl hc).1; rw [hp] at this; cases this
    have htok : (progOf a.path)[a.pc]? = some .ret := by rw [hp, hpc]; rfl
    simp only [stepTh, hact, htok, interp, hdata, uncheckedArm, Data.read, Option.some.injEq, Prod.mk.injEq] at hst
    obtain ⟨rfl, rfl⟩ := hst
    refine inv_same_sh_noslot h hq0 (fun b hb => by rw [hact] at hb; cases hb; exact hslot) ?_ ?_ (fun hne => absurd hdone hne) ?_
    · intro b hb; simp [finish] at hb
    · intro b hb; simp [finish] at hb
    · intro r hr; simp only [finish, List.mem_cons] at hr
      rcases hr with rfl | hr
      · exact ⟨hdone, hdata⟩
      · exact h.resC t r hr


theorem running_phase {sh : Sh} {ths : Nat → Th} {t : Nat} (h : Inv ⟨sh, ths⟩)
    (hrun : sh.once = .running t) :
    ∃ a, (ths t).act = some a ∧ runnerOK sh a ∧ ∀ u, u ≠ t → quiet (ths u) := by
  rcases h.phaseC with ⟨h1, _⟩ | ⟨r, a, h1, h2, h3, hq⟩ | ⟨h1, _⟩
  · rw [h1] at hrun; cases hrun
  · rw [h1] at hrun; cases hrun; exact ⟨a, h2, h3, hq⟩
  · rw [h1] at hrun; cases hrun

/-- while the once is not initialised nobody holds a reference / saw the destructor panic, so
results survive any change of the shared state that keeps the seed kind -/
theorem res_not_done {sh sh' : Sh} {r : Res} (h : resOK sh r) (hnd : sh.once ≠ .done)
    (hk : sh'.kind = sh.kind) : resOK sh' r :=
  resOK_mono h hk (fun hd => absurd hd hnd)

theorem inv_runner_stay {sh sh' : Sh} {ths : Nat → Th} {t : Nat} {th' : Th} {a' : Act}
    (h : Inv ⟨sh, ths⟩) (hrun : sh.once = .running t) (hrun' : sh'.once = .running t)
    (hk : sh'.kind = sh.kind) (hub : sh'.ub = false) (hact' : th'.act = some a')
    (hok : runnerOK sh' a') (hres : th'.results = (ths t).results) : Inv ⟨sh', upd ths t th'⟩ := by
  obtain ⟨a, _, _, hq⟩ := running_phase h hrun
  have hnd : sh.once ≠ .done := by rw [hrun]; simp
  refine ⟨hub, phase_run_self hrun' hact' hok hq, res_upd (fun u r hr => res_not_done (h.resC u r hr) hnd hk) ?_⟩
  intro r hr; rw [hres] at hr; exact res_not_done (h.resC t r hr) hnd hk

theorem inv_runner_fail {sh sh' : Sh} {ths : Nat → Th} {t : Nat} {r : Res}
    (h : Inv ⟨sh, ths⟩) (hrun : sh.once = .running t) (h1 : sh'.once = .empty)
    (h2 : ∃ c, sh'.data = .seed c) (h3 : sh'.inits = 0) (h4 : ledger0 sh')
    (hk : sh'.kind = sh.kind) (hub : sh'.ub = false) (hr : resOK sh' r) :
    Inv ⟨sh', upd ths t (finish (ths t) r)⟩ := by
  obtain ⟨a, _, _, hq⟩ := running_phase h hrun
  have hnd : sh.once ≠ .done := by rw [hrun]; simp
  refine ⟨hub, phase_empty_upd h1 h2 h3 h4 hq ?_, res_upd (fun u r hr => res_not_done (h.resC u r hr) hnd hk) ?_⟩
  · intro b hb; simp [finish] at hb
  · intro r' hr'
    simp only [finish, List.mem_cons] at hr'
    rcases hr' with rfl | hr'
    · exact hr
    · exact res_not_done (h.resC t r' hr') hnd hk

/-- the user's initialiser runs: `Ok` moves on with the value in hand, `Err` / panic empty the once -/
theorem inv_callF {sh sh' : Sh} {ths : Nat → Th} {t : Nat} {th' : Th} {a : Act}
    (h : Inv ⟨sh, ths⟩) (hrun : sh.once = .running t)
    (hdata : ∃ c, sh.data = .seed c) (hin : sh.inits = 0) (hl : ledger0 sh)
    (hnext : ∀ sh2 : Sh, ∀ v, (∃ c, sh2.data = .seed c) → sh2.inits = 1 → ledger0 sh2 →
      runnerOK sh2 { a with val := some v, pc := a.pc + 1 })
    (hst : interp sh t (ths t) a .callF = some (sh', th')) : Inv ⟨sh', upd ths t th'⟩ := by
  obtain ⟨c, hc⟩ := hdata
  unfold interp at hst
  rw [hc] at hst
  simp only at hst
  cases hkind : a.out.kind with
  | ok =>
    rw [hkind] at hst
    simp only [Option.some.injEq, Prod.mk.injEq] at hst
    obtain ⟨rfl, rfl⟩ := hst
    refine inv_runner_stay (a' := { a with val := some (c + a.out.delta), pc := a.pc + 1 }) h hrun hrun rfl h.nubC rfl ?_ rfl
    exact hnext _ _ ⟨_, rfl⟩ (by simp [hin]) hl
  | err =>
    rw [hkind] at hst
    simp only [abort, hrun, ↓reduceIte, Option.some.injEq, Prod.mk.injEq] at hst
    obtain ⟨rfl, rfl⟩ := hst
    exact inv_runner_fail h hrun rfl ⟨_, rfl⟩ hin hl rfl h.nubC trivial
  | panic =>
    rw [hkind] at hst
    simp only [abort, hrun, ↓reduceIte, Option.some.injEq, Prod.mk.injEq] at hst
    obtain ⟨rfl, rfl⟩ := hst
    exact inv_runner_fail h hrun rfl ⟨_, rfl⟩ hin hl rfl h.nubC trivial


/-- `Ok(())` leaves the closure: the once becomes initialised -/
theorem inv_closureOk {sh sh' : Sh} {ths : Nat → Th} {t : Nat} {th' : Th} {a : Act}
    (h : Inv ⟨sh, ths⟩) (hrun : sh.once = .running t)
    (hv : a.val = none) (htmp : a.tmp = none) (hdata : ∃ v, sh.data = .value v) (hin : sh.inits = 1)
    (hpost : postAt { a with pc := a.pc + 1 })
    (hsl : a.slot ≠ none → a.path = .dflt ∧ (a.pc + 1 = 8 ∨ a.pc + 1 = 9))
    (hl : (a.slot ≠ none ∧ ledger0 sh) ∨ (a.slot = none ∧ sh.seedDrops + sh.seedLeaks = 1))
    (hst : interp sh t (ths t) a .closureOk = some (sh', th')) : Inv ⟨sh', upd ths t th'⟩ := by
  obtain ⟨_, _, _, hq⟩ := running_phase h hrun
  have hnd : sh.once ≠ .done := by rw [hrun]; simp
  unfold interp at hst
  rw [if_pos hrun] at hst
  simp only [Option.some.injEq, Prod.mk.injEq] at hst
  obtain ⟨rfl, rfl⟩ := hst
  have hothers : ∀ u, u ≠ t → ∀ b, (ths u).act = some b → b.slot = none :=
    fun u hu b hb => (hq u hu b hb).2.2.2
  refine ⟨h.nubC, ?_, res_upd (fun u r hr => res_not_done (h.resC u r hr) hnd rfl) (fun r hr => res_not_done (h.resC t r hr) hnd rfl)⟩
  refine phase_done_upd rfl hdata hin (fun u hu => quiet_quietPost (hq u hu)) ?_ ?_
  · intro b hb; simp only [goto, Option.some.injEq] at hb; subst hb
    exact Or.inr ⟨hpost, hv, htmp, hsl⟩
  · rcases hl with ⟨hs, hl⟩ | ⟨hs, hl⟩
    · exact acct_self (a' := { a with pc := a.pc + 1 }) rfl hs hothers hl
    · refine acct_none hothers ?_ hl
      intro b hb; simp only [goto, Option.some.injEq] at hb; subst hb; exact hs

/-- steps of the thread inside the closure -/
theorem inv_runner {sh sh' : Sh} {ths : Nat → Th} {t : Nat} {th' : Th} {a : Act}
    (h : Inv ⟨sh, ths⟩) (hrun : sh.once = .running t) (hact : (ths t).act = some a)
    (hok : runnerOK sh a) (hst : stepTh sh t (ths t) = some (sh', th')) :
    Inv ⟨sh', upd ths t th'⟩ := by
  have hstep : ∀ tok, (progOf a.path)[a.pc]? = some tok →
      interp sh t (ths t) a tok = some (sh', th') := fun tok htok => by
    simpa [stepTh, hact, htok] using hst
  rcases hok with ⟨hp, hpc, ⟨hv, htmp, hslot⟩, hd, hin, hl⟩ | ⟨hp, hpc, ⟨v, hv⟩, htmp, hslot, hd, hin, hl⟩ |
    ⟨hp, hpc, hv, ⟨c, htmp⟩, hslot, hd, hin, hl⟩ | ⟨hp, hpc, hv, htmp, ⟨c, hslot⟩, hd, hin, hl⟩ |
    ⟨hp, hpc, ⟨hv, htmp, hslot⟩, hd, hin, hl⟩ | ⟨hp, hpc, ⟨v, hv⟩, htmp, hslot, hd, hin, hl⟩ |
    ⟨hp, hpc, ⟨hv, htmp, hslot⟩, hd, hin, hl1, hl2⟩
  · rcases hpc with hpc | hpc
    · -- dflt 2: borrow
      have := hstep .borrow (by rw [hp, hpc]; rfl)
      simp only [interp, Option.some.injEq, Prod.mk.injEq] at this
      obtain ⟨rfl, rfl⟩ := this
      refine inv_runner_stay (a' := { a with pc := a.pc + 1 }) h hrun hrun rfl h.nubC rfl ?_ rfl
      exact Or.inl ⟨hp, Or.inr (by simp [hpc]), ⟨hv, htmp, hslot⟩, hd, hin, hl⟩
    · -- dflt 3: callF
      refine inv_callF h hrun hd hin hl ?_ (hstep .callF (by rw [hp, hpc]; rfl))
      intro sh2 v hd2 hin2 hl2
      exact Or.inr (Or.inl ⟨hp, Or.inl (by simp [hpc]), ⟨v, rfl⟩, htmp, hslot, hd2, hin2, hl2⟩)
  · rcases hpc with hpc | hpc
    · -- dflt 4: mkState
      have := hstep .mkState (by rw [hp, hpc]; rfl)
      simp only [interp, Option.some.injEq, Prod.mk.injEq] at this
      obtain ⟨rfl, rfl⟩ := this
      refine inv_runner_stay (a' := { a with pc := a.pc + 1 }) h hrun hrun rfl h.nubC rfl ?_ rfl
      exact Or.inr (Or.inl ⟨hp, Or.inr (by simp [hpc]), ⟨v, hv⟩, htmp, hslot, hd, hin, hl⟩)
    · -- dflt 5: replace
      obtain ⟨c, hc⟩ := hd
      have := hstep .replace (by rw [hp, hpc]; rfl)
      unfold interp at this
      rw [hc, hv] at this
      simp only [Option.some.injEq, Prod.mk.injEq] at this
      obtain ⟨rfl, rfl⟩ := this
      refine inv_runner_stay (a' := { a with val := none, tmp := some c, pc := a.pc + 1 }) h hrun hrun rfl h.nubC rfl ?_ rfl
      exact Or.inr (Or.inr (Or.inl ⟨hp, by simp [hpc], rfl, ⟨c, rfl⟩, hslot, ⟨v, rfl⟩, hin, hl⟩))
  · -- dflt 6: escape
    have := hstep .escape (by rw [hp, hpc]; rfl)
    unfold interp at this
    rw [htmp] at this
    simp only [Option.some.injEq, Prod.mk.injEq] at this
    obtain ⟨rfl, rfl⟩ := this
    refine inv_runner_stay (a' := { a with tmp := none, slot := some c, pc := a.pc + 1 }) h hrun hrun rfl h.nubC rfl ?_ rfl
    exact Or.inr (Or.inr (Or.inr (Or.inl ⟨hp, by simp [hpc], hv, rfl, ⟨c, rfl⟩, hd, hin, hl⟩)))
  · -- dflt 7: closureOk
    refine inv_closureOk h hrun hv htmp hd hin ?_ ?_ (Or.inl ⟨by rw [hslot]; simp, hl⟩)
      (hstep .closureOk (by rw [hp, hpc]; rfl))
    · exact Or.inl ⟨hp, Or.inl (by simp [hpc])⟩
    · intro _; exact ⟨hp, Or.inl (by simp [hpc])⟩
  · rcases hpc with hpc | hpc
    · -- noDrop 1: borrow
      have := hstep .borrow (by rw [hp, hpc]; rfl)
      simp only [interp, Option.some.injEq, Prod.mk.injEq] at this
      obtain ⟨rfl, rfl⟩ := this
      refine inv_runner_stay (a' := { a with pc := a.pc + 1 }) h hrun hrun rfl h.nubC rfl ?_ rfl
      exact Or.inr (Or.inr (Or.inr (Or.inr (Or.inl ⟨hp, Or.inr (by simp [hpc]), ⟨hv, htmp, hslot⟩, hd, hin, hl⟩))))
    · -- noDrop 2: callF
      refine inv_callF h hrun hd hin hl ?_ (hstep .callF (by rw [hp, hpc]; rfl))
      intro sh2 v hd2 hin2 hl2
      exact Or.inr (Or.inr (Or.inr (Or.inr (Or.inr (Or.inl ⟨hp, by simp [hpc], ⟨v, rfl⟩, htmp, hslot, hd2, hin2, hl2⟩)))))
  · -- noDrop 3: overwrite
    obtain ⟨c, hc⟩ := hd
    have := hstep .overwrite (by rw [hp, hpc]; rfl)
    unfold interp at this
    rw [hc, hv] at this
    simp only [Option.some.injEq, Prod.mk.injEq] at this
    obtain ⟨rfl, rfl⟩ := this
    refine inv_runner_stay (a' := { a with val := none, pc := a.pc + 1 }) h hrun hrun rfl h.nubC rfl ?_ rfl
    refine Or.inr (Or.inr (Or.inr (Or.inr (Or.inr (Or.inr ⟨hp, by simp [hpc], ⟨rfl, htmp, hslot⟩, ⟨v, rfl⟩, hin, hl.1, ?_⟩)))))
    show sh.seedLeaks + 1 = 1
    rw [hl.2]
  · -- noDrop 4: closureOk
    refine inv_closureOk h hrun hv htmp hd hin ?_ ?_ (Or.inr ⟨hslot, by rw [hl1, hl2]⟩)
      (hstep .closureOk (by rw [hp, hpc]; rfl))
    · exact Or.inr ⟨hp, Or.inl (by simp [hpc])⟩
    · intro hc; exact absurd hslot hc

/-- **One step of any thread preserves the invariant.** -/
theorem step_inv (s : Sys) (t : Nat) (h : Inv s) : Inv (s.step t) := by
  obtain ⟨sh, ths⟩ := s
  unfold Sys.step
  cases hst : stepTh sh t (ths t) with
  | none => exact h
  | some p =>
    obtain ⟨sh', th'⟩ := p
    show Inv ⟨sh', upd ths t th'⟩
    cases hact : (ths t).act with
    | none => exact inv_idle h hact hst
    | some a =>
      rcases h.phaseC with ⟨h1, _, _, _, hq⟩ | ⟨r, ar, h1, h2, h3, hq⟩ | ⟨h1, _, _, hq, _⟩
      · obtain ⟨hpre, hregs⟩ := hq t a hact
        exact inv_pre h hact hpre hregs hst
      · by_cases hrt : t = r
        · subst hrt
          rw [hact] at h2; cases h2
          exact inv_runner h h1 hact h3 hst
        · obtain ⟨hpre, hregs⟩ := hq t hrt a hact
          exact inv_pre h hact hpre hregs hst
      · rcases hq t a hact with ⟨hpre, hregs⟩ | ⟨hpost, hv, htmp, hsl⟩
        · exact inv_pre h hact hpre hregs hst
        · exact inv_post h h1 hact hpost hv htmp hsl hst

theorem run_inv (s : Sys) (σ : List Nat) (h : Inv s) : Inv (run s σ) := by
  induction σ generalizing s with
  | nil => exact h
  | cons t σ ih => exact ih _ (step_inv s t h)

end AmVerif.Model.Cell
