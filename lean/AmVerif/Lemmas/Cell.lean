import AmVerif.Model.Cell
/-!
# The global invariant of the `OnceInitCell` interleaving model and its preservation

`Inv` describes every reachable state by the phase of the once:
* empty   — the union holds the seed, nothing was dropped, nobody holds a register;
* running r — thread `r` is inside the closure at a program point that fixes where seed and value are;
* done    — the union holds the value for good; the seed is either still held in the `uninit_value`
            local of exactly one thread (about to be dropped) or accounted for in the ledger.
The proofs unfold the interpreter on the *generated* programs `Gen.Cell.initDefault/initNoDrop`.
-/
namespace AmVerif.Model.Cell
open AmVerif.Gen.Cell

def regsNone (a : Act) : Prop := a.val = none ∧ a.tmp = none ∧ a.slot = none

def preAt (a : Act) : Prop :=
  (a.path = .dflt ∧ (a.pc = 0 ∨ a.pc = 1)) ∨ (a.path = .noDrop ∧ a.pc = 0)

def postAt (a : Act) : Prop :=
  (a.path = .dflt ∧ (a.pc = 8 ∨ a.pc = 9 ∨ a.pc = 10)) ∨ (a.path = .noDrop ∧ (a.pc = 5 ∨ a.pc = 6))

/-- not in a call, or in a call that has not reached the once yet -/
def quiet (th : Th) : Prop := ∀ a, th.act = some a → preAt a ∧ regsNone a

/-- as `quiet`, or past the once (possibly still holding the escaped seed before `drop_cold`) -/
def quietPost (th : Th) : Prop :=
  ∀ a, th.act = some a →
    (preAt a ∧ regsNone a) ∨
    (postAt a ∧ a.val = none ∧ a.tmp = none ∧ (a.slot ≠ none → a.path = .dflt ∧ (a.pc = 8 ∨ a.pc = 9)))

def ledger0 (sh : Sh) : Prop := sh.seedDrops = 0 ∧ sh.seedLeaks = 0

/-- where the thread inside the closure stands, and what that says about union and registers -/
def runnerOK (sh : Sh) (a : Act) : Prop :=
  (a.path = .dflt ∧ (a.pc = 2 ∨ a.pc = 3) ∧ regsNone a ∧ (∃ c, sh.data = .seed c) ∧ sh.inits = 0 ∧ ledger0 sh) ∨
  (a.path = .dflt ∧ (a.pc = 4 ∨ a.pc = 5) ∧ (∃ v, a.val = some v) ∧ a.tmp = none ∧ a.slot = none ∧
      (∃ c, sh.data = .seed c) ∧ sh.inits = 1 ∧ ledger0 sh) ∨
  (a.path = .dflt ∧ a.pc = 6 ∧ a.val = none ∧ (∃ c, a.tmp = some c) ∧ a.slot = none ∧
      (∃ v, sh.data = .value v) ∧ sh.inits = 1 ∧ ledger0 sh) ∨
  (a.path = .dflt ∧ a.pc = 7 ∧ a.val = none ∧ a.tmp = none ∧ (∃ c, a.slot = some c) ∧
      (∃ v, sh.data = .value v) ∧ sh.inits = 1 ∧ ledger0 sh) ∨
  (a.path = .noDrop ∧ (a.pc = 1 ∨ a.pc = 2) ∧ regsNone a ∧ (∃ c, sh.data = .seed c) ∧ sh.inits = 0 ∧ ledger0 sh) ∨
  (a.path = .noDrop ∧ a.pc = 3 ∧ (∃ v, a.val = some v) ∧ a.tmp = none ∧ a.slot = none ∧
      (∃ c, sh.data = .seed c) ∧ sh.inits = 1 ∧ ledger0 sh) ∨
  (a.path = .noDrop ∧ a.pc = 4 ∧ regsNone a ∧ (∃ v, sh.data = .value v) ∧ sh.inits = 1 ∧
      sh.seedDrops = 0 ∧ sh.seedLeaks = 1)

/-- once initialised: the seed is in exactly one place — one thread's `uninit_value`, or the ledger -/
def acct (s : Sys) : Prop :=
  ((∀ u a, (s.ths u).act = some a → a.slot = none) ∧ s.sh.seedDrops + s.sh.seedLeaks = 1) ∨
  (∃ h a, (s.ths h).act = some a ∧ a.slot ≠ none ∧
    (∀ u, u ≠ h → ∀ b, (s.ths u).act = some b → b.slot = none) ∧ ledger0 s.sh)

def Phase (s : Sys) : Prop :=
  (s.sh.once = .empty ∧ (∃ c, s.sh.data = .seed c) ∧ s.sh.inits = 0 ∧ ledger0 s.sh ∧ ∀ u, quiet (s.ths u)) ∨
  (∃ r a, s.sh.once = .running r ∧ (s.ths r).act = some a ∧ runnerOK s.sh a ∧ ∀ u, u ≠ r → quiet (s.ths u)) ∨
  (s.sh.once = .done ∧ (∃ v, s.sh.data = .value v) ∧ s.sh.inits = 1 ∧ (∀ u, quietPost (s.ths u)) ∧ acct s)

/-- what a result a caller got says about the cell, from then on -/
def resOK (sh : Sh) : Res → Prop
  | .ref v => sh.once = .done ∧ sh.data = .value v
  | .panicDrop => sh.once = .done ∧ sh.kind = .bomb ∧ 1 ≤ sh.seedDrops
  | .ub => False
  | _ => True

structure Inv (s : Sys) : Prop where
  nub : s.sh.ub = false
  phase : Phase s
  res : ∀ u r, r ∈ (s.ths u).results → resOK s.sh r

theorem upd_same (f : Nat → Th) (t : Nat) (x : Th) : upd f t x t = x := by simp [upd]
theorem upd_other (f : Nat → Th) (t u : Nat) (x : Th) (h : u ≠ t) : upd f t x u = f u := by simp [upd, h]


/-! ## Re-establishing the phase after thread `t` moved to `th'` -/

theorem phase_empty_upd {sh' : Sh} {ths : Nat → Th} {t : Nat} {th' : Th}
    (h1 : sh'.once = .empty) (h2 : ∃ c, sh'.data = .seed c) (h3 : sh'.inits = 0) (h4 : ledger0 sh')
    (ho : ∀ u, u ≠ t → quiet (ths u)) (ht : quiet th') : Phase ⟨sh', upd ths t th'⟩ := by
  refine Or.inl ⟨h1, h2, h3, h4, fun u => ?_⟩
  by_cases hu : u = t
  · subst hu; simpa [upd] using ht
  · simpa [upd, hu] using ho u hu

theorem phase_run_self {sh' : Sh} {ths : Nat → Th} {t : Nat} {th' : Th} {a' : Act}
    (h1 : sh'.once = .running t) (h2 : th'.act = some a') (h3 : runnerOK sh' a')
    (ho : ∀ u, u ≠ t → quiet (ths u)) : Phase ⟨sh', upd ths t th'⟩ := by
  refine Or.inr (Or.inl ⟨t, a', h1, by simpa [upd] using h2, h3, fun u hu => ?_⟩)
  simpa [upd, hu] using ho u hu

theorem phase_run_other {sh' : Sh} {ths : Nat → Th} {t r : Nat} {th' : Th} {a : Act}
    (hne : r ≠ t) (h1 : sh'.once = .running r) (h2 : (ths r).act = some a) (h3 : runnerOK sh' a)
    (ht : quiet th') (ho : ∀ u, u ≠ r → quiet (ths u)) : Phase ⟨sh', upd ths t th'⟩ := by
  refine Or.inr (Or.inl ⟨r, a, h1, by simpa [upd, hne] using h2, h3, fun u hu => ?_⟩)
  by_cases hut : u = t
  · subst hut; simpa [upd] using ht
  · simpa [upd, hut] using ho u hu

theorem phase_done_upd {sh' : Sh} {ths : Nat → Th} {t : Nat} {th' : Th}
    (h1 : sh'.once = .done) (h2 : ∃ v, sh'.data = .value v) (h3 : sh'.inits = 1)
    (ho : ∀ u, u ≠ t → quietPost (ths u)) (ht : quietPost th')
    (ha : acct ⟨sh', upd ths t th'⟩) : Phase ⟨sh', upd ths t th'⟩ := by
  refine Or.inr (Or.inr ⟨h1, h2, h3, fun u => ?_, ha⟩)
  by_cases hu : u = t
  · subst hu; simpa [upd] using ht
  · simpa [upd, hu] using ho u hu

theorem acct_none {sh' : Sh} {ths : Nat → Th} {t : Nat} {th' : Th}
    (ho : ∀ u, u ≠ t → ∀ a, (ths u).act = some a → a.slot = none)
    (ht : ∀ a, th'.act = some a → a.slot = none) (hl : sh'.seedDrops + sh'.seedLeaks = 1) :
    acct ⟨sh', upd ths t th'⟩ := by
  refine Or.inl ⟨fun u a => ?_, hl⟩
  by_cases hu : u = t
  · subst hu; simpa [upd] using ht a
  · simpa [upd, hu] using ho u hu a

theorem acct_self {sh' : Sh} {ths : Nat → Th} {t : Nat} {th' : Th} {a' : Act}
    (h2 : th'.act = some a') (h3 : a'.slot ≠ none)
    (ho : ∀ u, u ≠ t → ∀ a, (ths u).act = some a → a.slot = none) (hl : ledger0 sh') :
    acct ⟨sh', upd ths t th'⟩ := by
  refine Or.inr ⟨t, a', by simpa [upd] using h2, h3, fun u hu b => ?_, hl⟩
  simpa [upd, hu] using ho u hu b

theorem acct_other {sh' : Sh} {ths : Nat → Th} {t h : Nat} {th' : Th} {a : Act}
    (hne : h ≠ t) (h2 : (ths h).act = some a) (h3 : a.slot ≠ none)
    (ho : ∀ u, u ≠ h → ∀ b, (ths u).act = some b → b.slot = none)
    (ht : ∀ b, th'.act = some b → b.slot = none) (hl : ledger0 sh') :
    acct ⟨sh', upd ths t th'⟩ := by
  refine Or.inr ⟨h, a, by simpa [upd, hne] using h2, h3, fun u hu b => ?_, hl⟩
  by_cases hut : u = t
  · subst hut; simpa [upd] using ht b
  · simpa [upd, hut] using ho u hu b

theorem res_upd {sh' : Sh} {ths : Nat → Th} {t : Nat} {th' : Th}
    (ho : ∀ u r, r ∈ (ths u).results → resOK sh' r) (ht : ∀ r, r ∈ th'.results → resOK sh' r) :
    ∀ u r, r ∈ ((⟨sh', upd ths t th'⟩ : Sys).ths u).results → resOK sh' r := by
  intro u r
  by_cases hu : u = t
  · subst hu; simpa [upd] using ht r
  · simpa [upd, hu] using ho u r

/-- results stay valid when a step keeps an initialised cell initialised with the same value -/
theorem resOK_mono {sh sh' : Sh} {r : Res} (h : resOK sh r) (hk : sh'.kind = sh.kind)
    (hd : sh.once = .done → sh'.once = .done ∧ sh'.data = sh.data ∧ sh.seedDrops ≤ sh'.seedDrops) :
    resOK sh' r := by
  cases r with
  | ref v => obtain ⟨h1, h2⟩ := h; obtain ⟨a, b, _⟩ := hd h1; exact ⟨a, by rw [b, h2]⟩
  | panicDrop =>
    obtain ⟨h1, h2, h3⟩ := h; obtain ⟨a, _, c⟩ := hd h1
    exact ⟨a, by rw [hk, h2], Nat.le_trans h3 c⟩
  | ub => exact h
  | none => trivial
  | err e => trivial
  | panicF => trivial

/-- `Inv.phase` with the projections of the concrete system reduced -/
theorem Inv.phaseC {sh : Sh} {ths : Nat → Th} (h : Inv ⟨sh, ths⟩) :
    (sh.once = .empty ∧ (∃ c, sh.data = .seed c) ∧ sh.inits = 0 ∧ ledger0 sh ∧ ∀ u, quiet (ths u)) ∨
    (∃ r a, sh.once = .running r ∧ (ths r).act = some a ∧ runnerOK sh a ∧ ∀ u, u ≠ r → quiet (ths u)) ∨
    (sh.once = .done ∧ (∃ v, sh.data = .value v) ∧ sh.inits = 1 ∧ (∀ u, quietPost (ths u)) ∧
      (((∀ u a, (ths u).act = some a → a.slot = none) ∧ sh.seedDrops + sh.seedLeaks = 1) ∨
       (∃ h a, (ths h).act = some a ∧ a.slot ≠ none ∧
         (∀ u, u ≠ h → ∀ b, (ths u).act = some b → b.slot = none) ∧ ledger0 sh))) := h.phase

theorem Inv.resC {sh : Sh} {ths : Nat → Th} (h : Inv ⟨sh, ths⟩) :
    ∀ u r, r ∈ (ths u).results → resOK sh r := h.res

theorem Inv.nubC {sh : Sh} {ths : Nat → Th} (h : Inv ⟨sh, ths⟩) : sh.ub = false := h.nub

theorem quiet_quietPost {th : Th} (h : quiet th) : quietPost th := fun a ha => Or.inl (h a ha)

end AmVerif.Model.Cell
