import AmVerif.Model.Reloader
/-!
# The reverse-dependency visit (helper lemmas for C08)

* `visit_terminates`: in the repaired statement order (`markFirst = true`) the visit returns on **every**
  finite graph, cyclic or not, with fuel bounded by the number of still-unvisited nodes + 1;
* `visit_diverges_self_loop`: in the defective order every fuel is exhausted on a self-loop;
* `visit_terminates_acyclic`: in the defective order it still returns when a rank decreases along
  reverse-dependency edges.
-/
namespace AmVerif.Lemmas.Visit
open AmVerif.Model.Reloader

def unv (nodes vis : List Nat) : Nat := nodes.countP (fun x => !decide (x ∈ vis))

theorem unv_mono (nodes : List Nat) {v v' : List Nat} (h : ∀ x ∈ v, x ∈ v') : unv nodes v' ≤ unv nodes v := by
  unfold unv
  apply List.countP_mono_left
  intro x _ hx
  simp at hx ⊢
  exact fun hv => hx (h x hv)

theorem unv_cons_lt (nodes : List Nat) {v : List Nat} {k : Nat} (hk : k ∈ nodes) (hv : k ∉ v) :
    unv nodes (k :: v) < unv nodes v := by
  unfold unv
  induction nodes with
  | nil => simp at hk
  | cons a as ih =>
    have hle : List.countP (fun x => !decide (x ∈ k :: v)) as ≤ List.countP (fun x => !decide (x ∈ v)) as :=
      unv_mono as (fun x hx => List.mem_cons_of_mem _ hx)
    by_cases hak : a = k
    · subst hak
      rw [List.countP_cons_of_neg (by simp), List.countP_cons_of_pos (by simpa using hv)]
      omega
    · have hk' : k ∈ as := by
        rcases List.mem_cons.mp hk with h | h
        · exact absurd h.symm hak
        · exact h
      have := ih hk'
      by_cases h1 : a ∈ v
      · rw [List.countP_cons_of_neg (by simp [h1]), List.countP_cons_of_neg (by simp [h1])]; exact this
      · rw [List.countP_cons_of_pos (by simp [h1, hak]), List.countP_cons_of_pos (by simp [h1])]; omega

variable (g : Nat → Option (List Nat))

theorem visit_mono : ∀ f st k st', visit g true f st k = some st' → ∀ x ∈ st.vis, x ∈ st'.vis := by
  intro f
  induction f with
  | zero => intro st k st' h; simp [visit] at h
  | succ f ih =>
    intro st k st' h x hx
    unfold visit at h
    by_cases hk : k ∈ st.vis
    · simp [hk] at h; subst h; exact hx
    · simp only [hk, if_false] at h
      cases hg : g k with
      | none => simp [hg] at h; subst h; exact hx
      | some rs =>
        simp only [hg, if_true] at h
        have fold : ∀ (rs : List Nat) (s0 s : VSt),
            rs.foldlM (fun s r => visit g true f s r) s0 = some s → ∀ y ∈ s0.vis, y ∈ s.vis := by
          intro rs
          induction rs with
          | nil => intro s0 s h y hy; simp [List.foldlM] at h; subst h; exact hy
          | cons r rs ihrs =>
            intro s0 s h y hy
            simp only [List.foldlM_cons, Option.bind_eq_bind] at h
            cases hv : visit g true f s0 r with
            | none => simp [hv] at h
            | some s1 => simp [hv] at h; exact ihrs s1 s h y (ih s0 r s1 hv y hy)
        cases hf : rs.foldlM (fun s r => visit g true f s r) ⟨k :: st.vis, st.out⟩ with
        | none => simp [hf] at h
        | some s => simp [hf] at h; subst h; exact fold _ _ s hf x (List.mem_cons_of_mem _ hx)

/-- Repaired order: the visit returns on EVERY finite graph (`nodes` lists the graph's nodes), with
fuel bounded by the number of still-unvisited nodes. -/
theorem visit_terminates (nodes : List Nat) (hfin : ∀ a rs, g a = some rs → a ∈ nodes) :
    ∀ f st k, unv nodes st.vis < f → ∃ st', visit g true f st k = some st' := by
  intro f
  induction f with
  | zero => intro st k h; omega
  | succ f ih =>
    intro st k hlt
    unfold visit
    by_cases hkv : k ∈ st.vis
    · exact ⟨st, by simp [hkv]⟩
    · simp only [hkv, if_false]
      cases hg : g k with
      | none => exact ⟨st, rfl⟩
      | some rs =>
        have hk : k ∈ nodes := hfin k rs hg
        have h0 : unv nodes (k :: st.vis) < f := by
          have := unv_cons_lt nodes hk hkv; omega
        have fold : ∀ (rs : List Nat) (s0 : VSt), unv nodes s0.vis < f →
            ∃ s, rs.foldlM (fun s r => visit g true f s r) s0 = some s := by
          intro rs
          induction rs with
          | nil => intro s0 _; exact ⟨s0, by simp [List.foldlM]⟩
          | cons r rs ihrs =>
            intro s0 hl
            have ⟨s1, h1⟩ := ih s0 r hl
            have hm := visit_mono g f s0 r s1 h1
            have ⟨s, hs⟩ := ihrs s1 (Nat.lt_of_le_of_lt (unv_mono nodes hm) hl)
            exact ⟨s, by simp [List.foldlM_cons, h1, hs]⟩
        have ⟨s, hs⟩ := fold rs ⟨k :: st.vis, st.out⟩ h0
        exact ⟨_, by simp only [if_true]; rw [hs]⟩

/-- ... hence the whole sort returns, with fuel `#nodes + 1`. -/
theorem sort_terminates (nodes : List Nat) (hfin : ∀ a rs, g a = some rs → a ∈ nodes) (changed : List Nat) :
    ∀ s0 : VSt, ∃ s, changed.foldlM (fun s k => visit g true (nodes.length + 1) s k) s0 = some s := by
  induction changed with
  | nil => intro s0; exact ⟨s0, by simp [List.foldlM]⟩
  | cons k ks ih =>
    intro s0
    have hle : unv nodes s0.vis < nodes.length + 1 := by
      have : unv nodes s0.vis ≤ nodes.length := by unfold unv; exact List.countP_le_length
      omega
    have ⟨s1, h1⟩ := visit_terminates g nodes hfin _ s0 k hle
    have ⟨s, hs⟩ := ih s1
    exact ⟨s, by simp [List.foldlM_cons, h1, hs]⟩

/-- Defective order: a node that is its own reverse dependency exhausts every fuel. -/
theorem visit_diverges_self_loop (k : Nat) (hg : ∃ rs, g k = some (k :: rs)) (st : VSt) (h : k ∉ st.vis) :
    ∀ fuel, visit g false fuel st k = none := by
  obtain ⟨rs, hg⟩ := hg
  intro fuel
  induction fuel with
  | zero => rfl
  | succ f ih => simp [visit, h, hg, List.foldlM, ih]

/-- Defective order, acyclic graph (a rank strictly decreases along reverse-dependency edges): returns. -/
theorem visit_terminates_acyclic (rank : Nat → Nat) (hr : ∀ a rs b, g a = some rs → b ∈ rs → rank b < rank a) :
    ∀ f st k, rank k < f → ∃ st', visit g false f st k = some st' := by
  intro f
  induction f with
  | zero => intro st k h; omega
  | succ f ih =>
    intro st k hlt
    unfold visit
    by_cases hkv : k ∈ st.vis
    · exact ⟨st, by simp [hkv]⟩
    · simp only [hkv, if_false]
      cases hg : g k with
      | none => exact ⟨st, rfl⟩
      | some rs =>
        have fold : ∀ (l : List Nat) (s0 : VSt), (∀ r ∈ l, rank r < f) →
            ∃ s, l.foldlM (fun s r => visit g false f s r) s0 = some s := by
          intro l
          induction l with
          | nil => intro s0 _; exact ⟨s0, by simp [List.foldlM]⟩
          | cons r l ihl =>
            intro s0 hl
            have ⟨s1, h1⟩ := ih s0 r (hl r (by simp))
            have ⟨s, hs⟩ := ihl s1 (fun r' hr' => hl r' (by simp [hr']))
            exact ⟨s, by simp [List.foldlM_cons, h1, hs]⟩
        have ⟨s, hs⟩ := fold rs st (fun r hrm => by have := hr k rs r hg hrm; omega)
        exact ⟨_, by simp only [Bool.false_eq_true, if_false]; rw [hs]⟩

end AmVerif.Lemmas.Visit
