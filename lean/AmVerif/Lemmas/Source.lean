import AmVerif.Model.Source
/-! Helper lemmas for C04 / C11: ids, file names, path parsing, the archive index in closed form. -/
namespace AmVerif.Lemmas.Source
open AmVerif.Model.Source AmVerif.Model.ArchiveSkel

/-! ## ids -/

theorem splitDot_ne_nil (s : List Char) : splitDot s ≠ [] := by
  induction s with
  | nil => simp [splitDot]
  | cons c cs ih =>
    simp only [splitDot]; split
    · simp
    · split <;> simp

def DotFree (w : List Char) : Prop := '.' ∉ w

theorem splitDot_dotfree (w : List Char) (h : DotFree w) : splitDot w = [w] := by
  induction w with
  | nil => rfl
  | cons c cs ih =>
    have hc : c ≠ '.' := fun e => h (by simp [e])
    have hcs : DotFree cs := fun m => h (List.mem_cons_of_mem _ m)
    simp [splitDot, hc, ih hcs]

theorem splitDot_append_dot (w : List Char) (rest : List Char) (h : DotFree w) :
    splitDot (w ++ '.' :: rest) = w :: splitDot rest := by
  induction w with
  | nil => simp [splitDot]
  | cons c cs ih =>
    have hc : c ≠ '.' := fun e => h (by simp [e])
    have hcs : DotFree cs := fun m => h (List.mem_cons_of_mem _ m)
    simp [splitDot, hc, ih hcs]

theorem split_join (ws : List (List Char)) (hne : ws ≠ []) (h : ∀ w ∈ ws, DotFree w) :
    splitDot (joinDot ws) = ws := by
  induction ws with
  | nil => exact absurd rfl hne
  | cons w ws ih =>
    cases ws with
    | nil => simpa [joinDot] using splitDot_dotfree w (h w (by simp))
    | cons w2 ws2 =>
      simp only [joinDot]
      rw [splitDot_append_dot w _ (h w (by simp))]
      rw [ih (by simp) (fun x hx => h x (List.mem_cons_of_mem _ hx))]

theorem joinDot_snoc (cs : List (List Char)) (s : List Char) (h : cs ≠ []) :
    joinDot (cs ++ [s]) = joinDot cs ++ '.' :: s := by
  induction cs with
  | nil => exact absurd rfl h
  | cons c cs ih =>
    cases cs with
    | nil => simp [joinDot]
    | cons c2 cs2 =>
      have := ih (by simp)
      simp only [List.cons_append, joinDot] at this ⊢
      rw [this]; simp

theorem joinDot_ne_nil (cs : List (List Char)) (h : cs ≠ []) (hv : ∀ c ∈ cs, c ≠ []) : joinDot cs ≠ [] := by
  cases cs with
  | nil => exact absurd rfl h
  | cons c cs =>
    cases cs with
    | nil => simpa [joinDot] using hv c (by simp)
    | cons c2 cs2 => simp [joinDot]

theorem validName_dotFree {n : Name} (h : ValidName n) : DotFree n := h.2

theorem classify_valid {n : Name} (h : ValidName n) : classify n = .normal := by
  have h1 : n ≠ ['.', '.'] := fun e => h.2 (by simp [e])
  have h2 : n ≠ ['.'] := fun e => h.2 (by simp [e])
  simp [classify, h1, h2]

/-! ## the component walk on valid names -/

theorem walk_valid (cs : List Name) (buf : List Char) (hv : ∀ c ∈ cs, ValidName c) :
    walk .push .pop .skip cs buf =
      some (if buf = [] then joinDot cs else if cs = [] then buf else buf ++ '.' :: joinDot cs) := by
  induction cs generalizing buf with
  | nil => by_cases hb : buf = [] <;> simp [walk, joinDot, hb]
  | cons c cs ih =>
    have hc := hv c (by simp)
    have hcs : ∀ x ∈ cs, ValidName x := fun x hx => hv x (List.mem_cons_of_mem _ hx)
    have hdot : ('.' ∈ c) = False := by simpa using hc.2
    simp only [walk, classify_valid hc, actOn, idPush, hdot, if_false]
    rw [ih _ hcs]
    have hcne : c ≠ [] := hc.1
    by_cases hb : buf = []
    · subst hb
      cases cs with
      | nil => simp [joinDot, hcne]
      | cons c2 cs2 => simp [joinDot, hcne]
    · have hb' : buf.isEmpty = false := by cases buf <;> simp_all
      cases cs with
      | nil => simp [joinDot, hb, hb']
      | cons c2 cs2 => simp [joinDot, hb, hb']

/-! ## file names -/

theorem splitExt_dotfree (n : Name) (h : ValidName n) : splitExt n = (n, none) := by
  have h1 : n ≠ ['.', '.'] := fun e => h.2 (by simp [e])
  simp [splitExt, h1, splitDot_dotfree n h.2]

theorem splitExt_stem_ext (stem ext : Name) (hs : ValidName stem) (he : ValidExt ext) :
    splitExt (stem ++ '.' :: ext) = (stem, some ext) := by
  have h1 : stem ++ '.' :: ext ≠ ['.', '.'] := by
    intro e
    cases stem with
    | nil => exact hs.1 rfl
    | cons a as =>
      have : a = '.' := by simpa using congrArg List.head? e
      exact hs.2 (by simp [this])
  have hstem : stem.isEmpty = false := by cases stem <;> simp_all [ValidName]
  simp [splitExt, h1, splitDot_append_dot stem ext hs.2, splitDot_dotfree ext he, joinDot, hstem]

theorem splitExt_fileName (f : FileN) (hs : ValidName f.stem) (he : ValidExt f.ext) :
    (splitExt (fileName f)).1 = f.stem ∧ extensionOf (fileName f) = f.ext := by
  unfold fileName extensionOf
  by_cases h : f.ext.isEmpty
  · have : f.ext = [] := by simpa using h
    simp [h, splitExt_dotfree f.stem hs, this]
  · simp [h, splitExt_stem_ext f.stem f.ext hs he]

theorem fileName_normal (f : FileN) (hs : ValidName f.stem) : classify (fileName f) = .normal := by
  unfold fileName
  have hne := hs.1
  have hd := hs.2
  cases hst : f.stem with
  | nil => exact absurd hst hne
  | cons a as =>
    have ha : a ≠ '.' := fun e => hd (by simp [hst, e])
    by_cases h : f.ext.isEmpty <;> simp [h, classify, ha]

/-! ## parsing the members of an archive of a valid tree -/

def ValidFile (f : FileN) : Prop := (∀ c ∈ f.dir, ValidName c) ∧ ValidName f.stem ∧ ValidExt f.ext
def ValidDir (q : List Name) : Prop := q ≠ [] ∧ ∀ c ∈ q, ValidName c

theorem idPush_join (cs : List Name) (s : Name) (hv : ∀ c ∈ cs, ValidName c) (hs : ValidName s) :
    idPush (joinDot cs) s = some (joinDot (cs ++ [s])) := by
  have hdot : ('.' ∈ s) = False := by simpa using hs.2
  simp only [idPush, hdot, if_false]
  cases cs with
  | nil => simp [joinDot]
  | cons c cs' =>
    have hne : joinDot (c :: cs') ≠ [] := joinDot_ne_nil _ (by simp) (fun x hx => (hv x hx).1)
    have : (joinDot (c :: cs')).isEmpty = false := by
      cases h : joinDot (c :: cs') with
      | nil => exact absurd h hne
      | cons _ _ => rfl
    rw [joinDot_snoc _ _ (by simp)]
    simp [this]

theorem parseCore_file (f : FileN) (b : Bytes) (hf : ValidFile f) :
    parseCore (filePath f) true b = some { parent := dirId f.dir, id := fileId f, file := some (f.ext, b) } := by
  obtain ⟨hd, hs, he⟩ := hf
  have hw := walk_valid f.dir [] hd
  have hse := splitExt_fileName f hs he
  simp only [parseCore, filePath, List.dropLast_concat, lastNameOf, List.getLast?_append, List.getLast?_singleton]
  simp [hw, hse.1, hse.2, idPush_join f.dir f.stem hd hs, dirId, fileId, fileName_normal f hs]

theorem parseCore_dir (q : List Name) (b : Bytes) (hq : ValidDir q) :
    parseCore q false b = some (dirReg q) := by
  obtain ⟨hne, hv⟩ := hq
  obtain ⟨ini, l, rfl⟩ : ∃ ini l, q = ini ++ [l] := ⟨q.dropLast, q.getLast hne, (List.dropLast_concat_getLast hne).symm⟩
  have hini : ∀ c ∈ ini, ValidName c := fun c hc => hv c (by simp [hc])
  have hl : ValidName l := hv l (by simp)
  have hw := walk_valid ini [] hini
  simp only [parseCore, List.dropLast_concat, lastNameOf, List.getLast?_append, List.getLast?_singleton]
  simp [hw, splitExt_dotfree l hl, idPush_join ini l hini hl, dirReg, dirId, classify_valid hl]

/-! ## `register` is `parseMember` followed by `applyReg` -/

theorem register_eq (m : Member) (i : AIdx) :
    register registerSkel registerDirSkel m i = match parseMember m with
      | none => i
      | some r => applyReg r i := by
  unfold register registerSkel parseMember parseCore
  simp only [runToks, tokStep, lastName]
  cases hab : m.abs
  · by_cases hemp : (normComps m.comps).isEmpty
    · simp [hemp]
    · simp only [hemp]
      cases hw : walk .push .pop .skip (normComps m.comps).dropLast [] with
      | none => simp [hw]
      | some pbuf =>
        cases hl : lastNameOf (normComps m.comps) with
        | none => simp [hw]
        | some l =>
          cases hp : idPush pbuf (splitExt l).1 with
          | none => simp [hw, hl, hp]
          | some ibuf =>
            cases hf : m.isFile
            · simp [hw, hl, hp, hf, applyReg, runToks, tokStep, regDir]
            · simp [hw, hl, hp, hf, applyReg, runToks, tokStep, lastName, regDir]
  · by_cases hemp : (normComps m.comps).isEmpty <;> simp [hemp, actOn]

theorem foldl_register (ms : List Member) (i : AIdx) :
    ms.foldl (fun i m => register registerSkel registerDirSkel m i) i =
      (ms.filterMap parseMember).foldl (fun i r => applyReg r i) i := by
  induction ms generalizing i with
  | nil => rfl
  | cons m ms ih =>
    rw [List.foldl_cons, register_eq, List.filterMap_cons]
    cases parseMember m with
    | none => exact ih _
    | some r => simpa using ih _

theorem indexR_eq_foldr (rs : List Reg) : indexR rs = rs.foldr applyReg idx0 := by
  induction rs with
  | nil => rfl
  | cons r rs ih => simp [indexR, ih]

theorem index_eq (ms : List Member) : index ms = (indexR (ms.filterMap parseMember).reverse).toIdx := by
  unfold index indexWith
  rw [foldl_register, List.foldl_eq_foldr_reverse, indexR_eq_foldr]
  rfl

/-! ## the index in closed form: files -/

/-- (key, content) of a file registration. -/
def Reg.kv (r : Reg) : Option ((Id × Name) × Bytes) := r.file.map fun eb => ((r.id, eb.1), eb.2)

def fileKVs (rs : List Reg) : List ((Id × Name) × Bytes) := rs.filterMap Reg.kv

/-- Most recent registration of a key wins. -/
theorem indexR_files (rs : List Reg) (k : Id × Name) :
    (indexR rs).files k = ((fileKVs rs).find? (fun kv => decide (kv.1 = k))).map (·.2) := by
  induction rs with
  | nil => rfl
  | cons r rs ih =>
    cases hf : r.file with
    | none => simp [indexR, applyReg, hf, fileKVs, Reg.kv, List.filterMap_cons] at ih ⊢; exact ih
    | some eb =>
      obtain ⟨e, b⟩ := eb
      by_cases hk : (r.id, e) = k
      · simp [indexR, applyReg, hf, fileKVs, Reg.kv, List.filterMap_cons, upd, hk]
      · have hk' : ¬ k = (r.id, e) := fun h => hk h.symm
        simp only [indexR, applyReg, hf, fileKVs, Reg.kv, List.filterMap_cons, upd, hk', if_false,
          Option.map_some, List.find?_cons, hk, decide_false] at ih ⊢
        exact ih

theorem filterMap_congr' {α β} (f g : α → Option β) (l : List α) (h : ∀ x ∈ l, f x = g x) :
    l.filterMap f = l.filterMap g := by
  induction l with
  | nil => rfl
  | cons x xs ih =>
    simp only [List.filterMap_cons, h x (by simp)]
    rw [ih (fun y hy => h y (List.mem_cons_of_mem _ hy))]

theorem find?_congr' {α} (p q : α → Bool) (l : List α) (h : ∀ x ∈ l, p x = q x) : l.find? p = l.find? q := by
  induction l with
  | nil => rfl
  | cons x xs ih =>
    simp only [List.find?_cons, h x (by simp)]
    rw [ih (fun y hy => h y (List.mem_cons_of_mem _ hy))]

theorem nodup_of_map {α β} (f : α → β) (l : List α) (h : (l.map f).Nodup) : l.Nodup := by
  induction l with
  | nil => simp
  | cons x xs ih =>
    simp only [List.map_cons, List.nodup_cons] at h ⊢
    exact ⟨fun hx => h.1 (List.mem_map_of_mem hx), ih h.2⟩

/-! ## association lists with distinct keys -/

theorem find_key_iff {κ β} [DecidableEq κ] (l : List (κ × β)) (hn : (l.map (·.1)).Nodup) (k : κ) (b : β) :
    (l.find? (fun kv => decide (kv.1 = k))).map (·.2) = some b ↔ (k, b) ∈ l := by
  induction l with
  | nil => simp
  | cons x xs ih =>
    obtain ⟨k', b'⟩ := x
    simp only [List.map_cons, List.nodup_cons] at hn
    by_cases hk : k' = k
    · subst hk
      simp only [List.find?_cons, decide_true, Option.map_some, Option.some.injEq, List.mem_cons, Prod.mk.injEq, true_and]
      constructor
      · intro h; exact Or.inl h.symm
      · rintro (h | h)
        · exact h.symm
        · exact absurd (List.mem_map_of_mem (f := (·.1)) h) hn.1
    · have : ¬ ((k, b) = (k', b')) := fun h => hk (by simpa using (congrArg Prod.fst h).symm)
      simp only [List.find?_cons, hk, decide_false, List.mem_cons, this, false_or]
      exact ih hn.2

end AmVerif.Lemmas.Source
