import AmVerif.Model.Map
/-!
# Refinement: sharded map ≃ flat map ≃ abstract map

For every hasher, every number of shards and every operation sequence, the sharded map and the
flat map return what the abstract map `Key → Option Cell` returns.
-/
namespace AmVerif.Model
open AmVerif.Gen

/-! ### One association list -/

theorem AL.get_append_other (m : AL) (k k' : Key) (c : Cell) (h : k' ≠ k) :
    AL.get (m ++ [(k, c)]) k' = AL.get m k' := by
  unfold AL.get
  rw [List.find?_append]
  cases hm : m.find? (·.1 = k') with
  | some x => simp
  | none => simp [Ne.symm h]

theorem AL.get_append_self (m : AL) (k : Key) (c : Cell) (h : AL.get m k = none) :
    AL.get (m ++ [(k, c)]) k = some c := by
  unfold AL.get at *
  rw [List.find?_append]
  cases hm : m.find? (·.1 = k) with
  | some x => simp [hm] at h
  | none => simp

theorem AL.get_filter_other (m : AL) (k k' : Key) (h : k' ≠ k) :
    AL.get (m.filter (·.1 ≠ k)) k' = AL.get m k' := by
  unfold AL.get
  induction m with
  | nil => rfl
  | cons x xs ih =>
    by_cases hx : x.1 = k
    · have hx' : ¬ x.1 = k' := fun e => h (e.symm.trans hx)
      rw [List.filter_cons_of_neg (by simp [hx]), List.find?_cons_of_neg (by simp [hx']), ih]
    · rw [List.filter_cons_of_pos (by simp [hx])]
      by_cases hx' : x.1 = k'
      · rw [List.find?_cons_of_pos (by simp [hx']), List.find?_cons_of_pos (by simp [hx'])]
      · rw [List.find?_cons_of_neg (by simp [hx']), List.find?_cons_of_neg (by simp [hx']), ih]

theorem AL.get_filter_self (m : AL) (k : Key) : AL.get (m.filter (·.1 ≠ k)) k = none := by
  unfold AL.get
  induction m with
  | nil => rfl
  | cons x xs ih =>
    by_cases hx : x.1 = k
    · rw [List.filter_cons_of_neg (by simp [hx]), ih]
    · rw [List.filter_cons_of_pos (by simp [hx]), List.find?_cons_of_neg (by simp [hx]), ih]

/-- abstraction of an association list -/
def AL.abs (m : AL) : FMap := fun k => m.get k

theorem AL.step_refines (m : AL) (op : MOp) :
    (m.step op).2 = (m.abs.step op).2 ∧ (m.step op).1.abs = (m.abs.step op).1 := by
  cases op with
  | get k => exact ⟨rfl, rfl⟩
  | contains k => exact ⟨rfl, rfl⟩
  | clear => exact ⟨rfl, rfl⟩
  | insert k c =>
    simp only [AL.step, FMap.step, AL.insert]
    show _ ∧ _
    cases h : m.get k with
    | some c' => simp [AL.abs, h]
    | none =>
      simp only [AL.abs, h]
      refine ⟨by first | rfl | trivial, ?_⟩
      funext k'
      by_cases hk : k' = k
      · subst hk; simp only [if_true]; exact AL.get_append_self m k' c h
      · simp only [hk, if_false]; exact AL.get_append_other m k k' c hk
  | remove k =>
    simp only [AL.step, FMap.step, AL.remove, AL.abs]
    refine ⟨by first | rfl | trivial, ?_⟩
    funext k'
    by_cases hk : k' = k
    · subst hk; simp only [if_true]; exact AL.get_filter_self m k'
    · simp only [hk, if_false]; exact AL.get_filter_other m k k' hk

/-- **Flat map refines the abstract map**, for every operation sequence. -/
theorem AL.refines (m : AL) (ops : List MOp) : m.run ops = m.abs.run ops := by
  induction ops generalizing m with
  | nil => rfl
  | cons op ops ih =>
    simp only [AL.run, FMap.run]
    rw [(AL.step_refines m op).1, ih, (AL.step_refines m op).2]

/-! ### Shards -/

/-- The `&self` and the `&mut self` operations pick the same shard (regenerated from `get_shard`
and `get_shard_mut`). -/
theorem shard_index_agree (hash len : Nat) : shardIndexMut hash len = shardIndex hash len := rfl

/-- abstraction of the sharded map: look the key up in *its* shard -/
def SMap.abs (hash : Key → Nat) (m : SMap) : FMap := fun k => (m.shard (shardIndex (hash k) m.len)).get k

theorem updAt_same (f : Nat → AL) (i : Nat) (v : AL) : updAt f i v i = v := by simp [updAt]
theorem updAt_other (f : Nat → AL) (i j : Nat) (v : AL) (h : j ≠ i) : updAt f i v j = f j := by simp [updAt, h]

theorem SMap.step_res (hash : Key → Nat) (m : SMap) (op : MOp) :
    (m.step hash op).2 = ((m.abs hash).step op).2 := by
  cases op with
  | get k => rfl
  | contains k => rfl
  | clear => rfl
  | insert k c =>
    simp only [SMap.step, FMap.step, SMap.abs, AL.insert]
    cases h : (m.shard (shardIndex (hash k) m.len)).get k <;> simp [h]
  | remove k => simp [SMap.step, FMap.step, SMap.abs, AL.remove, shard_index_agree]

theorem SMap.step_abs (hash : Key → Nat) (m : SMap) (op : MOp) :
    (m.step hash op).1.abs hash = ((m.abs hash).step op).1 := by
  funext k'
  cases op with
  | get k => rfl
  | contains k => rfl
  | clear => simp [SMap.step, SMap.abs, FMap.step, AL.get]
  | insert k c =>
    simp only [SMap.step, SMap.abs, FMap.step, AL.insert]
    cases h : (m.shard (shardIndex (hash k) m.len)).get k with
    | some c' =>
      simp only []
      by_cases hi : shardIndex (hash k') m.len = shardIndex (hash k) m.len
      · rw [hi, updAt_same]; simp [SMap.abs, hi]
      · rw [updAt_other _ _ _ _ hi]; rfl
    | none =>
      simp only []
      by_cases hk : k' = k
      · subst hk; simp only [if_true, updAt_same]; exact AL.get_append_self _ k' c h
      · simp only [hk, if_false]
        by_cases hi : shardIndex (hash k') m.len = shardIndex (hash k) m.len
        · rw [hi, updAt_same, AL.get_append_other _ k k' c hk]
        · rw [updAt_other _ _ _ _ hi]
  | remove k =>
    simp only [SMap.step, SMap.abs, FMap.step, AL.remove, shard_index_agree]
    by_cases hk : k' = k
    · subst hk; simp only [if_true, updAt_same]; exact AL.get_filter_self _ k'
    · simp only [hk, if_false]
      by_cases hi : shardIndex (hash k') m.len = shardIndex (hash k) m.len
      · rw [hi, updAt_same, AL.get_filter_other _ k k' hk]
      · rw [updAt_other _ _ _ _ hi]

theorem SMap.step_refines (hash : Key → Nat) (m : SMap) (op : MOp) :
    (m.step hash op).2 = ((m.abs hash).step op).2 ∧ (m.step hash op).1.abs hash = ((m.abs hash).step op).1 :=
  ⟨SMap.step_res hash m op, SMap.step_abs hash m op⟩

theorem SMap.step_len (hash : Key → Nat) (m : SMap) (op : MOp) : (m.step hash op).1.len = m.len := by
  cases op <;> rfl

/-- **Sharded map refines the abstract map**: for every hasher (seed), every shard count and
every operation sequence. -/
theorem SMap.refines (hash : Key → Nat) (m : SMap) (ops : List MOp) :
    m.run hash ops = (m.abs hash).run ops := by
  induction ops generalizing m with
  | nil => rfl
  | cons op ops ih =>
    simp only [SMap.run, FMap.run]
    rw [(SMap.step_refines hash m op).1, ih, (SMap.step_refines hash m op).2]

end AmVerif.Model
