import AmVerif.Lemmas.CellStep
/-! # Which step makes a call fail, and what the state looks like then -/
namespace AmVerif.Model.Cell
open AmVerif.Gen.Cell

theorem cons_ne_self {α} (x : α) (l : List α) : x :: l ≠ l := by
  intro h; have := congrArg List.length h; simp at this

/-- only the user's initialiser makes a call end in `Err` / its panic -/
theorem interp_fail {sh sh' : Sh} {t : Nat} {th th' : Th} {a : Act} {tok : Tok} {r : Res}
    (h : interp sh t th a tok = some (sh', th')) (hr : th'.results = r :: th.results)
    (hf : r = .panicF ∨ ∃ e, r = .err e) :
    tok = .callF ∧ ∃ c, sh.data = .seed c ∧ sh' = abort { sh with data := .seed (c + a.out.delta) } t ∧ th'.act = none := by
  cases tok <;> simp only [interp] at h
  all_goals (try (split at h))
  all_goals (try (split at h))
  all_goals (try (split at h))
  all_goals (try (simp only [Option.some.injEq, Prod.mk.injEq, reduceCtorEq] at h))
  all_goals (try (obtain ⟨rfl, rfl⟩ := h))
  all_goals (try (simp only [goto, finish] at hr))
  all_goals (try (exact absurd hr.symm (cons_ne_self _ _)))
  all_goals (try (simp only [List.cons.injEq, and_true] at hr; subst hr))
  all_goals (try (rcases hf with hf | ⟨e, hf⟩ <;> cases hf))
  all_goals exact ⟨rfl, _, by assumption, rfl, rfl⟩

theorem stepTh_fail {sh sh' : Sh} {t : Nat} {th th' : Th} {r : Res}
    (h : stepTh sh t th = some (sh', th')) (hr : th'.results = r :: th.results)
    (hf : r = .panicF ∨ ∃ e, r = .err e) :
    ∃ a c, th.act = some a ∧ (progOf a.path)[a.pc]? = some .callF ∧ sh.data = .seed c ∧
      sh' = abort { sh with data := .seed (c + a.out.delta) } t ∧ th'.act = none := by
  unfold stepTh at h
  split at h
  · rename_i a ha
    split at h
    · rename_i tok htok
      obtain ⟨rfl, c, h1, h2, h3⟩ := interp_fail h hr hf
      exact ⟨a, c, ha, htok, h1, h2, h3⟩
    · cases h
  · split at h
    · cases h
    · unfold getStep at h
      simp only [getBlocks, Bool.false_eq_true, false_and, ↓reduceIte] at h
      split at h
      · rename_i heq
        split at heq
        · simp only [Option.some.injEq, Prod.mk.injEq] at heq h
          obtain ⟨rfl, rfl⟩ := heq; obtain ⟨rfl, rfl⟩ := h
          simp only [List.cons.injEq, and_true] at hr; subst hr
          rcases hf with hf | ⟨e, hf⟩ <;> cases hf
        · split at heq
          · simp only [Option.some.injEq, Prod.mk.injEq] at heq h
            obtain ⟨rfl, rfl⟩ := heq; obtain ⟨rfl, rfl⟩ := h
            simp only [List.cons.injEq, and_true] at hr; subst hr
            rcases hf with hf | ⟨e, hf⟩ <;> cases hf
          · simp only [Option.some.injEq, Prod.mk.injEq] at heq h
            obtain ⟨rfl, rfl⟩ := heq; obtain ⟨rfl, rfl⟩ := h
            simp only [List.cons.injEq, and_true] at hr; subst hr
            rcases hf with hf | ⟨e, hf⟩ <;> cases hf
      · cases h
    · simp only [Option.some.injEq, Prod.mk.injEq] at h
      obtain ⟨rfl, rfl⟩ := h
      exact absurd hr.symm (cons_ne_self _ _)

/-- under the invariant the statement `f(&mut state.uninit)?` is only ever reached by the thread
inside the closure, with the seed in the union and nothing dropped -/
theorem callF_runner {sh : Sh} {ths : Nat → Th} {t : Nat} {a : Act} (h : Inv ⟨sh, ths⟩)
    (hact : (ths t).act = some a) (htok : (progOf a.path)[a.pc]? = some .callF) :
    sh.once = .running t ∧ sh.inits = 0 ∧ ledger0 sh := by
  have hnq : ¬ quietPost (ths t) := by
    intro hq
    rcases hq a hact with ⟨hpre, _⟩ | ⟨hpost, _⟩
    · rcases hpre with ⟨hp, hpc | hpc⟩ | ⟨hp, hpc⟩ <;> rw [hp, hpc] at htok <;> cases htok
    · rcases hpost with ⟨hp, hpc | hpc | hpc⟩ | ⟨hp, hpc | hpc⟩ <;> rw [hp, hpc] at htok <;> cases htok
  rcases h.phaseC with ⟨_, _, _, _, hq⟩ | ⟨r, ar, h1, h2, h3, hq⟩ | ⟨_, _, _, hq, _⟩
  · exact absurd (quiet_quietPost (hq t)) hnq
  · by_cases hrt : t = r
    · subst hrt
      rw [hact] at h2; cases h2
      refine ⟨h1, ?_⟩
      rcases h3 with ⟨_, _, _, _, hi, hl⟩ | ⟨hp, hpc | hpc, _⟩ | ⟨hp, hpc, _⟩ | ⟨hp, hpc, _⟩ |
        ⟨_, _, _, _, hi, hl⟩ | ⟨hp, hpc, _⟩ | ⟨hp, hpc, _⟩
      · exact ⟨hi, hl⟩
      · rw [hp, hpc] at htok; cases htok
      · rw [hp, hpc] at htok; cases htok
      · rw [hp, hpc] at htok; cases htok
      · rw [hp, hpc] at htok; cases htok
      · exact ⟨hi, hl⟩
      · rw [hp, hpc] at htok; cases htok
      · rw [hp, hpc] at htok; cases htok
    · exact absurd (quiet_quietPost (hq t hrt)) hnq
  · exact absurd (hq t) hnq


/-- from an empty once with the seed in the union, a thread whose next call is a succeeding
`get_or_try_init` initialises the cell when run alone (other threads may be anywhere) -/
theorem retry_succeeds (sh : Sh) (ths : Nat → Th) (t c d : Nat) (rest : List Call)
    (h1 : sh.once = .empty) (h2 : sh.data = .seed c) (ha : (ths t).act = none)
    (hc : (ths t).calls = .init ⟨.ok, d⟩ :: rest) :
    ∃ n, (run ⟨sh, ths⟩ (List.replicate n t)).sh.once = .done ∧
      (run ⟨sh, ths⟩ (List.replicate n t)).sh.data = .value (c + d) ∧
      ((run ⟨sh, ths⟩ (List.replicate n t)).ths t).results =
        (if sh.kind = .bomb then Res.panicDrop else .ref (c + d)) :: (ths t).results := by
  cases hk : sh.kind
  · refine ⟨8, ?_⟩
    simp [List.replicate, run, Sys.step, stepTh, ha, hc, hk, h1, h2, upd, dispatch, Kind.needsDrop, progOf,
      initNoDrop, interp, goto, finish, uncheckedArm, Data.read]
  · refine ⟨12, ?_⟩
    simp [List.replicate, run, Sys.step, stepTh, ha, hc, hk, h1, h2, upd, dispatch, Kind.needsDrop, progOf,
      initDefault, interp, goto, finish, uncheckedArm, Data.read]
  · refine ⟨11, ?_⟩
    simp [List.replicate, run, Sys.step, stepTh, ha, hc, hk, h1, h2, upd, dispatch, Kind.needsDrop, progOf,
      initDefault, interp, goto, finish]

end AmVerif.Model.Cell
