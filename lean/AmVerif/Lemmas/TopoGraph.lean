import AmVerif.Lemmas.Topo
/-!
# The reload order on the concrete dependency graph (`Graph`, `topo`) and graph maintenance

* `Graph.get_set`, `get_insertAsset_none/_some`, `get_addDeps_none/_some`: what the maintenance
  operations do to each node;
* `Graph.Inverse` (every forward edge has its backward edge) and `Graph.InverseRev` (every backward
  edge has its forward edge): hold for `[]`, preserved by `Graph.insertAsset` (both) and by
  `Graph.addDeps` (`Inverse` always; `InverseRev` if the asset has a node — counterexample otherwise);
* `topo_nodup`, `topo_only_reachable`, `topo_closed`, `topo_changed`, `topo_complete`,
  `topo_order_scc`, `topo_order`, `topo_order_idx`, `topo_order_deps`, `topo_terminates`, `topo_fuel_mono`: the
  theorems of `Lemmas/Topo.lean` lifted to `topo g fuel changed` (asset keys of the sorted list).
-/
namespace AmVerif.Model

/-- every forward edge (`d ∈ deps a`) has its backward edge (`a ∈ rdeps d`) -/
def Graph.Inverse (g : Graph) : Prop :=
  ∀ a d, (∃ n, g.get a = some n ∧ d ∈ n.deps) → (∃ m, g.get d = some m ∧ a ∈ m.rdeps)

/-- every backward edge (`a ∈ rdeps d`) has its forward edge (`d ∈ deps a`) -/
def Graph.InverseRev (g : Graph) : Prop :=
  ∀ d a, (∃ m, g.get d = some m ∧ a ∈ m.rdeps) → (∃ n, g.get a = some n ∧ d ∈ n.deps)

end AmVerif.Model

namespace AmVerif.Lemmas.TopoGraph
open AmVerif.Model AmVerif.Lemmas.Topo

/-! ## `Graph.get` / `Graph.set` -/

@[simp] theorem get_nil (d : Dep) : Graph.get [] d = none := rfl

theorem get_cons (x : Dep × GNode) (g : Graph) (d : Dep) :
    Graph.get (x :: g) d = if x.1 = d then some x.2 else Graph.get g d := by
  unfold Graph.get
  by_cases h : x.1 = d <;> simp [h]

theorem any_eq_isSome (g : Graph) (d : Dep) : g.any (·.1 = d) = (g.get d).isSome := by
  induction g with
  | nil => rfl
  | cons x g ih =>
    rw [get_cons, List.any_cons, ih]
    by_cases h : x.1 = d <;> simp [h]

theorem get_append_single (g : Graph) (d : Dep) (n : GNode) (d' : Dep) :
    Graph.get (g ++ [(d, n)]) d' = match g.get d' with | some m => some m | none => if d' = d then some n else none := by
  induction g with
  | nil => simp [get_cons, eq_comm]
  | cons x g ih =>
    rw [List.cons_append, get_cons, get_cons, ih]
    by_cases h : x.1 = d' <;> simp [h]

theorem get_map_upd (g : Graph) (d : Dep) (n : GNode) (d' : Dep) :
    Graph.get (g.map (fun x => if x.1 = d then (d, n) else x)) d' =
      if d' = d then (g.get d).map (fun _ => n) else g.get d' := by
  induction g with
  | nil => simp
  | cons x g ih =>
    rw [List.map_cons, get_cons, get_cons, ih]
    by_cases h : x.1 = d
    · by_cases h' : d' = d
      · subst h'; simp [h]
      · have : ¬ d = d' := fun e => h' e.symm
        have h2 : ¬ x.1 = d' := fun e => h' (e.symm.trans h)
        simp [h, h', this, get_cons]
    · by_cases h' : d' = d
      · subst h'; simp [h]
      · by_cases h2 : x.1 = d' <;> simp [h, h', h2, get_cons]

theorem get_set (g : Graph) (d : Dep) (n : GNode) (d' : Dep) :
    (g.set d n).get d' = if d' = d then some n else g.get d' := by
  unfold Graph.set
  rw [any_eq_isSome]
  cases hg : g.get d with
  | none =>
    simp only [Option.isSome_none, Bool.false_eq_true, if_false, get_append_single]
    by_cases h : d' = d
    · subst h; simp [hg]
    · simp [h]; cases g.get d' <;> rfl
  | some m =>
    simp only [Option.isSome_some, if_true, get_map_upd, hg]
    by_cases h : d' = d <;> simp [h]


def bump (a : Dep) (n : GNode) : GNode := { n with rdeps := addIfAbsent a n.rdeps }
def strip (a : Dep) (n : GNode) : GNode := { n with rdeps := n.rdeps.filter (· ≠ a) }
def addR (a : Dep) (g : Graph) (d : Dep) : Graph := g.set d (bump a ((g.get d).getD {}))
def rmR (a : Dep) (g : Graph) (d : Dep) : Graph :=
  match g.get d with
  | some n => g.set d (strip a n)
  | none => g

theorem mem_addIfAbsent (d y : Dep) (l : List Dep) : y ∈ addIfAbsent d l ↔ y = d ∨ y ∈ l := by
  unfold addIfAbsent
  by_cases h : d ∈ l
  · simp [h]; intro e; subst e; exact h
  · simp [h, or_comm]

theorem bump_bump (a : Dep) (n : GNode) : bump a (bump a n) = bump a n := by
  simp only [bump, addIfAbsent]
  by_cases h : a ∈ n.rdeps <;> simp [h]

theorem strip_strip (a : Dep) (n : GNode) : strip a (strip a n) = strip a n := by
  simp [strip]

theorem insertAsset_eq (g : Graph) (a : Dep) (deps : List Dep) : g.insertAsset a deps =
    match (deps.foldl (addR a) g).get a with
    | none => (deps.foldl (addR a) g).set a { typed := true, deps := deps, rdeps := [] }
    | some old => (old.deps.filter (fun d => d ∉ deps)).foldl (rmR a)
        ((deps.foldl (addR a) g).set a { old with deps := deps, typed := true }) := rfl

theorem addDeps_eq (g : Graph) (a : Dep) (deps : List Dep) : g.addDeps a deps =
    match (deps.foldl (addR a) g).get a with
    | some n => (deps.foldl (addR a) g).set a { n with deps := deps.foldl (fun l d => addIfAbsent d l) n.deps }
    | none => deps.foldl (addR a) g := rfl

theorem get_addR_fold (a : Dep) (deps : List Dep) : ∀ (g : Graph) (x : Dep),
    (deps.foldl (addR a) g).get x = if x ∈ deps then some (bump a ((g.get x).getD {})) else g.get x := by
  induction deps with
  | nil => intro g x; simp
  | cons d ds ih =>
    intro g x
    rw [List.foldl_cons, ih]
    simp only [addR, get_set, List.mem_cons]
    by_cases hxd : x = d
    · subst hxd; by_cases hx : x ∈ ds <;> simp [hx, bump_bump]
    · by_cases hx : x ∈ ds <;> simp [hx, hxd]

theorem get_rmR (a : Dep) (g : Graph) (d x : Dep) :
    (rmR a g d).get x = if x = d then (g.get x).map (strip a) else g.get x := by
  unfold rmR
  cases h : g.get d with
  | none => by_cases hx : x = d <;> simp [hx, h]
  | some n => simp only [get_set]; by_cases hx : x = d <;> simp [hx, h]

theorem get_rmR_fold (a : Dep) (ds : List Dep) : ∀ (g : Graph) (x : Dep),
    (ds.foldl (rmR a) g).get x = if x ∈ ds then (g.get x).map (strip a) else g.get x := by
  induction ds with
  | nil => intro g x; simp
  | cons d ds ih =>
    intro g x
    rw [List.foldl_cons, ih]
    simp only [get_rmR, List.mem_cons]
    by_cases hxd : x = d
    · subst hxd; by_cases hx : x ∈ ds <;> simp [hx, strip_strip, Function.comp_def]
    · by_cases hx : x ∈ ds <;> simp [hx, hxd]


@[simp] theorem bump_deps (a : Dep) (n : GNode) : (bump a n).deps = n.deps := rfl
@[simp] theorem strip_deps (a : Dep) (n : GNode) : (strip a n).deps = n.deps := rfl
@[simp] theorem mem_bump_rdeps (a y : Dep) (n : GNode) : y ∈ (bump a n).rdeps ↔ y = a ∨ y ∈ n.rdeps :=
  mem_addIfAbsent a y n.rdeps
@[simp] theorem mem_strip_rdeps (a y : Dep) (n : GNode) : y ∈ (strip a n).rdeps ↔ y ∈ n.rdeps ∧ y ≠ a := by
  simp [strip]

section G1
variable {g : Graph} {a : Dep} {deps : List Dep}

/-- forward edges of the graph after the `rdeps` insertions are forward edges of `g` -/
theorem g1_deps_old {x d : Dep} {n1 : GNode} (h : (deps.foldl (addR a) g).get x = some n1) (hd : d ∈ n1.deps) :
    ∃ n, g.get x = some n ∧ d ∈ n.deps := by
  rw [get_addR_fold] at h
  split at h
  · cases h
    cases hg : g.get x with
    | none => simp [hg] at hd
    | some n => exact ⟨n, rfl, by simpa [hg] using hd⟩
  · exact ⟨n1, h, hd⟩

theorem g1_deps_new {x : Dep} {n : GNode} (h : g.get x = some n) :
    ∃ n1, (deps.foldl (addR a) g).get x = some n1 ∧ n1.deps = n.deps := by
  rw [get_addR_fold]
  split
  · exact ⟨_, rfl, by simp [h]⟩
  · exact ⟨n, h, rfl⟩

theorem g1_rdeps_a {x : Dep} (h : x ∈ deps) :
    ∃ m1, (deps.foldl (addR a) g).get x = some m1 ∧ a ∈ m1.rdeps := by
  rw [get_addR_fold, if_pos h]
  exact ⟨_, rfl, by simp⟩

theorem g1_rdeps_new {x y : Dep} {m : GNode} (h : g.get x = some m) (hy : y ∈ m.rdeps) :
    ∃ m1, (deps.foldl (addR a) g).get x = some m1 ∧ y ∈ m1.rdeps := by
  rw [get_addR_fold]
  split
  · exact ⟨_, rfl, by simp [h, hy]⟩
  · exact ⟨m, h, hy⟩

theorem g1_rdeps_old {x y : Dep} {m1 : GNode} (h : (deps.foldl (addR a) g).get x = some m1) (hy : y ∈ m1.rdeps)
    (hya : y ≠ a ∨ x ∉ deps) : ∃ m, g.get x = some m ∧ y ∈ m.rdeps := by
  rw [get_addR_fold] at h
  split at h
  · rename_i hx
    cases h
    have hya : y ≠ a := by rcases hya with h | h; exact h; exact absurd hx h
    cases hg : g.get x with
    | none => simp [hg, hya] at hy
    | some n => exact ⟨n, rfl, by simpa [hg, hya] using hy⟩
  · exact ⟨m1, h, hy⟩
end G1



section Ins
variable {g : Graph} {a : Dep} {deps : List Dep}

theorem get_insertAsset_none (h : (deps.foldl (addR a) g).get a = none) (x : Dep) :
    (g.insertAsset a deps).get x =
      if x = a then some { typed := true, deps := deps, rdeps := [] } else (deps.foldl (addR a) g).get x := by
  rw [insertAsset_eq]; simp only [h]; rw [get_set]

/-- what `insertAsset` does to the node of `x` after the `rdeps` insertions (existing asset node) -/
def insT (a : Dep) (deps : List Dep) (old : GNode) (x : Dep) (m1 : GNode) : GNode :=
  let m2 := if x = a then { m1 with deps := deps, typed := true } else m1
  if x ∈ old.deps.filter (fun d => d ∉ deps) then strip a m2 else m2

theorem get_insertAsset_some {old : GNode} (h : (deps.foldl (addR a) g).get a = some old) (x : Dep) :
    (g.insertAsset a deps).get x = ((deps.foldl (addR a) g).get x).map (insT a deps old x) := by
  rw [insertAsset_eq]; simp only [h]; rw [get_rmR_fold, get_set]
  unfold insT
  by_cases hx : x = a
  · subst hx; simp only [h, if_true, Option.map_some]; split <;> rfl
  · simp only [hx, if_false]; split
    · rfl
    · cases (deps.foldl (addR a) g).get x <;> rfl

theorem insT_deps_ne {old : GNode} {x : Dep} (m1 : GNode) (hx : x ≠ a) : (insT a deps old x m1).deps = m1.deps := by
  unfold insT; simp only [hx, if_false]; split <;> rfl

theorem insT_deps_self {old : GNode} (m1 : GNode) : (insT a deps old a m1).deps = deps := by
  unfold insT; simp only [if_true]; split <;> rfl

theorem mem_insT_rdeps {old : GNode} {x y : Dep} (m1 : GNode) :
    y ∈ (insT a deps old x m1).rdeps ↔ y ∈ m1.rdeps ∧ (y ≠ a ∨ ¬ (x ∈ old.deps ∧ x ∉ deps)) := by
  have h2 : (if x = a then { m1 with deps := deps, typed := true } else m1).rdeps = m1.rdeps := by
    split <;> rfl
  have hmem : x ∈ old.deps.filter (fun d => d ∉ deps) ↔ (x ∈ old.deps ∧ x ∉ deps) := by simp
  unfold insT
  by_cases hr : x ∈ old.deps ∧ x ∉ deps
  · simp only [if_pos (hmem.mpr hr), mem_strip_rdeps, h2]
    simp [hr]
  · simp only [if_neg (fun h => hr (hmem.mp h)), h2]
    simp [hr]


theorem g1_get_a_none (h : (deps.foldl (addR a) g).get a = none) : a ∉ deps ∧ g.get a = none := by
  constructor
  · intro hm
    have ⟨m1, h1, _⟩ := g1_rdeps_a (g := g) (a := a) hm
    rw [h] at h1; cases h1
  · cases hg : g.get a with
    | none => rfl
    | some n =>
      have ⟨n1, h1, _⟩ := g1_deps_new (a := a) (deps := deps) hg
      rw [h] at h1; cases h1

theorem inverse_insertAsset (hI : g.Inverse) (a : Dep) (deps : List Dep) : (g.insertAsset a deps).Inverse := by
  intro a' d ⟨n', hn', hd⟩
  cases h : (deps.foldl (addR a) g).get a with
  | none =>
    have ⟨ha_deps, ha_g⟩ := g1_get_a_none h
    rw [get_insertAsset_none h] at hn' ⊢
    by_cases ha' : a' = a
    · subst ha'
      simp at hn'; subst hn'; simp at hd
      have hda : d ≠ a' := fun e => ha_deps (e ▸ hd)
      rw [if_neg hda]; exact g1_rdeps_a hd
    · rw [if_neg ha'] at hn'
      have ⟨n, hn, hdn⟩ := g1_deps_old hn' hd
      have ⟨m, hm, ham⟩ := hI a' d ⟨n, hn, hdn⟩
      have hda : d ≠ a := fun e => by rw [e, ha_g] at hm; cases hm
      rw [if_neg hda]; exact g1_rdeps_new hm ham
  | some old =>
    rw [get_insertAsset_some h] at hn' ⊢
    cases h1 : (deps.foldl (addR a) g).get a' with
    | none => simp [h1] at hn'
    | some n1 =>
      simp [h1] at hn'; subst hn'
      by_cases ha' : a' = a
      · subst ha'; rw [insT_deps_self] at hd
        have ⟨m1, hm1, ham1⟩ := g1_rdeps_a (g := g) (a := a') hd
        rw [hm1]; exact ⟨_, rfl, (mem_insT_rdeps m1).mpr ⟨ham1, Or.inr (fun hh => hh.2 hd)⟩⟩
      · rw [insT_deps_ne _ ha'] at hd
        have ⟨n, hn, hdn⟩ := g1_deps_old h1 hd
        have ⟨m, hm, ham⟩ := hI a' d ⟨n, hn, hdn⟩
        have ⟨m1, hm1, ham1⟩ := g1_rdeps_new (a := a) (deps := deps) hm ham
        rw [hm1]; exact ⟨_, rfl, (mem_insT_rdeps m1).mpr ⟨ham1, Or.inl ha'⟩⟩

theorem inverseRev_insertAsset (hR : g.InverseRev) (a : Dep) (deps : List Dep) :
    (g.insertAsset a deps).InverseRev := by
  intro d a' ⟨m', hm', ham'⟩
  cases h : (deps.foldl (addR a) g).get a with
  | none =>
    have ⟨_, ha_g⟩ := g1_get_a_none h
    rw [get_insertAsset_none h] at hm' ⊢
    by_cases hda : d = a
    · subst hda; simp at hm'; subst hm'; simp at ham'
    · rw [if_neg hda] at hm'
      by_cases ha' : a' = a
      · subst ha'
        rw [if_pos rfl]
        refine ⟨_, rfl, ?_⟩
        apply Decidable.byContradiction
        intro hd
        have ⟨m, hm, ham⟩ := g1_rdeps_old hm' ham' (Or.inr hd)
        have ⟨n, hn, _⟩ := hR d a' ⟨m, hm, ham⟩
        rw [ha_g] at hn; cases hn
      · rw [if_neg ha']
        have ⟨m, hm, ham⟩ := g1_rdeps_old hm' ham' (Or.inl ha')
        have ⟨n, hn, hdn⟩ := hR d a' ⟨m, hm, ham⟩
        have ⟨n1, hn1, hdeps⟩ := g1_deps_new (a := a) (deps := deps) hn
        exact ⟨n1, hn1, hdeps ▸ hdn⟩
  | some old =>
    rw [get_insertAsset_some h] at hm' ⊢
    cases h1 : (deps.foldl (addR a) g).get d with
    | none => simp [h1] at hm'
    | some m1 =>
      simp [h1] at hm'; subst hm'
      have ⟨ham1, hcond⟩ := (mem_insT_rdeps m1).mp ham'
      by_cases ha' : a' = a
      · subst ha'
        rw [h]
        refine ⟨_, rfl, ?_⟩
        rw [insT_deps_self]
        apply Decidable.byContradiction
        intro hd
        have ⟨m, hm, ham⟩ := g1_rdeps_old h1 ham1 (Or.inr hd)
        have ⟨n, hn, hdn⟩ := hR d a' ⟨m, hm, ham⟩
        have ⟨n1, hn1, hdeps⟩ := g1_deps_new (a := a') (deps := deps) hn
        rw [h] at hn1; cases hn1
        rcases hcond with hc | hc
        · exact hc rfl
        · exact hc ⟨hdeps ▸ hdn, hd⟩
      · have ⟨m, hm, ham⟩ := g1_rdeps_old h1 ham1 (Or.inl ha')
        have ⟨n, hn, hdn⟩ := hR d a' ⟨m, hm, ham⟩
        have ⟨n1, hn1, hdeps⟩ := g1_deps_new (a := a) (deps := deps) hn
        rw [hn1]
        exact ⟨_, rfl, by rw [insT_deps_ne _ ha', hdeps]; exact hdn⟩

theorem mem_foldl_addIfAbsent (d : Dep) (deps : List Dep) : ∀ l0 : List Dep,
    d ∈ deps.foldl (fun l d => addIfAbsent d l) l0 ↔ d ∈ l0 ∨ d ∈ deps := by
  induction deps with
  | nil => simp
  | cons x xs ih => intro l0; rw [List.foldl_cons, ih, mem_addIfAbsent]; simp; grind

theorem get_addDeps_none (h : (deps.foldl (addR a) g).get a = none) (x : Dep) :
    (g.addDeps a deps).get x = (deps.foldl (addR a) g).get x := by
  rw [addDeps_eq]; simp only [h]

theorem get_addDeps_some {n : GNode} (h : (deps.foldl (addR a) g).get a = some n) (x : Dep) :
    (g.addDeps a deps).get x =
      if x = a then some { n with deps := deps.foldl (fun l d => addIfAbsent d l) n.deps }
      else (deps.foldl (addR a) g).get x := by
  rw [addDeps_eq]; simp only [h]; rw [get_set]

theorem inverse_addDeps (hI : g.Inverse) (a : Dep) (deps : List Dep) : (g.addDeps a deps).Inverse := by
  intro a' d ⟨n', hn', hd⟩
  cases h : (deps.foldl (addR a) g).get a with
  | none =>
    rw [get_addDeps_none h] at hn' ⊢
    have ⟨n, hn, hdn⟩ := g1_deps_old hn' hd
    have ⟨m, hm, ham⟩ := hI a' d ⟨n, hn, hdn⟩
    exact g1_rdeps_new hm ham
  | some na =>
    rw [get_addDeps_some h] at hn' ⊢
    -- the node of `d` keeps the `rdeps` it has after the insertions
    have key : ∀ m1, (deps.foldl (addR a) g).get d = some m1 → a' ∈ m1.rdeps →
        ∃ m, (if d = a then some { na with deps := deps.foldl (fun l d => addIfAbsent d l) na.deps }
          else (deps.foldl (addR a) g).get d) = some m ∧ a' ∈ m.rdeps := by
      intro m1 hm1 ham1
      by_cases hda : d = a
      · subst hda; rw [h] at hm1; cases hm1; exact ⟨_, if_pos rfl, ham1⟩
      · rw [if_neg hda]; exact ⟨m1, hm1, ham1⟩
    by_cases ha' : a' = a
    · subst ha'
      simp at hn'; subst hn'
      rcases (mem_foldl_addIfAbsent d deps na.deps).mp hd with hd | hd
      · have ⟨n, hn, hdn⟩ := g1_deps_old h hd
        have ⟨m, hm, ham⟩ := hI a' d ⟨n, hn, hdn⟩
        have ⟨m1, hm1, ham1⟩ := g1_rdeps_new (a := a') (deps := deps) hm ham
        exact key m1 hm1 ham1
      · have ⟨m1, hm1, ham1⟩ := g1_rdeps_a (g := g) (a := a') hd
        exact key m1 hm1 ham1
    · rw [if_neg ha'] at hn'
      have ⟨n, hn, hdn⟩ := g1_deps_old hn' hd
      have ⟨m, hm, ham⟩ := hI a' d ⟨n, hn, hdn⟩
      have ⟨m1, hm1, ham1⟩ := g1_rdeps_new (a := a) (deps := deps) hm ham
      exact key m1 hm1 ham1

theorem inverseRev_addDeps (hR : g.InverseRev) (a : Dep) (deps : List Dep) (ha : g.get a ≠ none) :
    (g.addDeps a deps).InverseRev := by
  intro d a' ⟨m', hm', ham'⟩
  cases hga : g.get a with
  | none => exact absurd hga ha
  | some n0 =>
    have ⟨na, h, hna⟩ := g1_deps_new (a := a) (deps := deps) hga
    rw [get_addDeps_some h] at hm' ⊢
    have ⟨m1, hm1, ham1⟩ : ∃ m1, (deps.foldl (addR a) g).get d = some m1 ∧ a' ∈ m1.rdeps := by
      by_cases hda : d = a
      · subst hda; simp at hm'; subst hm'; exact ⟨na, h, ham'⟩
      · rw [if_neg hda] at hm'; exact ⟨m', hm', ham'⟩
    by_cases ha' : a' = a
    · subst ha'
      rw [if_pos rfl]
      refine ⟨_, rfl, ?_⟩
      apply (mem_foldl_addIfAbsent d deps na.deps).mpr
      by_cases hd : d ∈ deps
      · exact Or.inr hd
      · have ⟨m, hm, ham⟩ := g1_rdeps_old hm1 ham1 (Or.inr hd)
        have ⟨n, hn, hdn⟩ := hR d a' ⟨m, hm, ham⟩
        rw [hga] at hn; cases hn
        exact Or.inl (hna ▸ hdn)
    · rw [if_neg ha']
      have ⟨m, hm, ham⟩ := g1_rdeps_old hm1 ham1 (Or.inl ha')
      have ⟨n, hn, hdn⟩ := hR d a' ⟨m, hm, ham⟩
      have ⟨n1, hn1, hdeps⟩ := g1_deps_new (a := a) (deps := deps) hn
      exact ⟨n1, hn1, hdeps ▸ hdn⟩

end Ins

theorem inverse_nil : Graph.Inverse [] := by
  intro a d ⟨n, hn, _⟩; simp at hn

theorem inverseRev_nil : Graph.InverseRev [] := by
  intro a d ⟨n, hn, _⟩; simp at hn

/-! ### examples (non-vacuity) -/

def k0 : Key := ⟨0, ""⟩
def k1 : Key := ⟨1, ""⟩
def k2 : Key := ⟨2, ""⟩
def fA : Dep := .file "a" "txt"
def fB : Dep := .file "b" "txt"

/-- `k1` reads file `b`; `k0` reads file `a` and asset `k1`; `k2` reads the directory `d` and `k0` -/
def gEx : Graph :=
  ((Graph.insertAsset [] (.asset k1) [fB]).insertAsset (.asset k0) [fA, .asset k1]).insertAsset (.asset k2)
    [.dir "d", .asset k0]

example : (gEx.get fB).map (·.rdeps) = some [.asset k1] ∧ (gEx.get fB).map (·.typed) = some false := by decide
example : (gEx.get (.asset k0)).map (·.deps) = some [fA, .asset k1] ∧
    (gEx.get (.asset k0)).map (·.rdeps) = some [.asset k2] := by decide
example : (gEx.set fA {}).get fA = some {} ∧ (gEx.set fA {}).get fB = gEx.get fB :=
  ⟨by rw [get_set, if_pos rfl], by rw [get_set, if_neg (by decide)]⟩
/-! examples for the helper lemmas above -/

/-- the graph after the first insertion -/
def gA : Graph := Graph.insertAsset [] (.asset k1) [fB]

example : Graph.get ((fA, {}) :: gEx) fB = gEx.get fB := by rw [get_cons, if_neg (by decide)]
example : gEx.any (·.1 = fA) = true := by rw [any_eq_isSome]; decide
example : Graph.get (gEx ++ [(.dir "new", { typed := true })]) (.dir "new") = some { typed := true } := by
  rw [get_append_single]; rfl
example : (Graph.get (gA.map (fun x => if x.1 = fB then (fB, {}) else x)) fB).map (·.rdeps) = some [] := by
  rw [get_map_upd]; rfl
example : Dep.asset k0 ∈ addIfAbsent (.asset k0) [fA] := (mem_addIfAbsent _ _ _).mpr (Or.inl rfl)
example : bump fA (bump fA { rdeps := [fB] }) = bump fA { rdeps := [fB] } ∧ (bump fA { rdeps := [fB] }).rdeps = [fB, fA] :=
  ⟨bump_bump _ _, rfl⟩
example : strip fA (strip fA { rdeps := [fA, fB] }) = strip fA { rdeps := [fA, fB] } ∧
    (strip fA { rdeps := [fA, fB] }).rdeps = [fB] := ⟨strip_strip _ _, by decide⟩
example : gA.insertAsset (.asset k0) [fA, .asset k1] =
    ([fA, .asset k1].foldl (addR (.asset k0)) gA).set (.asset k0) { typed := true, deps := [fA, .asset k1], rdeps := [] } := by
  rw [insertAsset_eq]; rfl
example : (([fA, .asset k1].foldl (addR (.asset k0)) gA).get fA).map (·.rdeps) = some [.asset k0] := by
  rw [get_addR_fold]; decide
example : (([fB].foldl (rmR (.asset k1)) gA).get fB).map (·.rdeps) = some [] := by
  rw [get_rmR_fold]; decide
example : ((rmR (.asset k1) gA fB).get fB).map (·.rdeps) = some [] := by rw [get_rmR]; decide
example : ∃ n, gA.get (.asset k1) = some n ∧ fB ∈ n.deps :=
  g1_deps_old (a := .asset k0) (deps := [fA, .asset k1]) (x := .asset k1)
    (n1 := { typed := true, rdeps := [.asset k0], deps := [fB] }) rfl (by simp)
example : ∃ n1, ([fA, .asset k1].foldl (addR (.asset k0)) gA).get (.asset k1) = some n1 ∧ n1.deps = [fB] :=
  g1_deps_new (n := { typed := true, rdeps := [], deps := [fB] }) rfl
example : ∃ m1, ([fA, .asset k1].foldl (addR (.asset k0)) gA).get fA = some m1 ∧ Dep.asset k0 ∈ m1.rdeps :=
  g1_rdeps_a (by simp)
example : ∃ m1, ([fA, .asset k1].foldl (addR (.asset k0)) gA).get fB = some m1 ∧ Dep.asset k1 ∈ m1.rdeps :=
  g1_rdeps_new (m := { rdeps := [.asset k1] }) rfl (by simp)
example : ∃ m, gA.get fB = some m ∧ Dep.asset k1 ∈ m.rdeps :=
  g1_rdeps_old (a := .asset k0) (deps := [fA, .asset k1]) (m1 := { rdeps := [.asset k1] }) rfl (by simp)
    (Or.inl (by decide))
example : Dep.asset k0 ∉ [fA, .asset k1] ∧ gA.get (.asset k0) = none :=
  g1_get_a_none (by decide)
example : (gA.insertAsset (.asset k0) [fA, .asset k1]).get fB = ([fA, .asset k1].foldl (addR (.asset k0)) gA).get fB := by
  rw [get_insertAsset_none (by decide), if_neg (by decide)]
-- `k0` is re-inserted with `[fA]` only: its node keeps `typed`, `k1` loses the backward edge
example : ((gEx.insertAsset (.asset k0) [fA]).get (.asset k1)).map (·.rdeps) = some [] := by
  rw [get_insertAsset_some (old := { typed := true, rdeps := [.asset k2], deps := [fA, .asset k1] }) rfl]; decide
example : (insT (.asset k0) [fA] { deps := [fA, .asset k1] } (.asset k1) { rdeps := [.asset k0, fB] }).rdeps = [fB] := by
  decide
example : (insT (.asset k0) [fA] { deps := [fA, .asset k1] } (.asset k1) { deps := [fB] }).deps = [fB] :=
  insT_deps_ne _ (by decide)
example : (insT (.asset k0) [fA] { deps := [fA, .asset k1] } (.asset k0) { deps := [fB] }).deps = [fA] :=
  insT_deps_self _
example : fB ∈ (insT (.asset k0) [fA] { deps := [fA, .asset k1] } (.asset k1) { rdeps := [.asset k0, fB] }).rdeps :=
  (mem_insT_rdeps _).mpr ⟨by simp, Or.inl (by decide)⟩
example : fA ∈ [fA, fB].foldl (fun l d => addIfAbsent d l) [fB] := (mem_foldl_addIfAbsent _ _ _).mpr (Or.inr (by simp))
example : (Graph.addDeps [] (.asset k0) [fA]).get fA = ([fA].foldl (addR (.asset k0)) []).get fA :=
  get_addDeps_none (by decide) _
example : ((gEx.addDeps (.asset k1) [fA]).get (.asset k1)).map (·.deps) = some [fB, fA] := by
  rw [get_addDeps_some (n := { typed := true, rdeps := [.asset k0], deps := [fB] }) rfl, if_pos rfl]; rfl

example : gEx.Inverse ∧ gEx.InverseRev :=
  ⟨inverse_insertAsset (inverse_insertAsset (inverse_insertAsset inverse_nil _ _) _ _) _ _,
   inverseRev_insertAsset (inverseRev_insertAsset (inverseRev_insertAsset inverseRev_nil _ _) _ _) _ _⟩
-- re-inserting `k0` with fewer dependencies removes the backward edge from `k1`
example : ((gEx.insertAsset (.asset k0) [fA]).get (.asset k1)).map (·.rdeps) = some [] := by decide
example : (gEx.insertAsset (.asset k0) [fA]).Inverse ∧ (gEx.insertAsset (.asset k0) [fA]).InverseRev :=
  ⟨inverse_insertAsset (inverse_insertAsset (inverse_insertAsset (inverse_insertAsset inverse_nil _ _) _ _) _ _) _ _,
   inverseRev_insertAsset (inverseRev_insertAsset (inverseRev_insertAsset (inverseRev_insertAsset inverseRev_nil _ _) _ _) _ _) _ _⟩
-- `addDeps` keeps the old dependencies and adds the new ones
example : ((gEx.addDeps (.asset k1) [fA]).get (.asset k1)).map (·.deps) = some [fB, fA] ∧
    ((gEx.addDeps (.asset k1) [fA]).get fA).map (·.rdeps) = some [.asset k0, .asset k1] := by decide
example : (gEx.addDeps (.asset k1) [fA]).Inverse ∧ (gEx.addDeps (.asset k1) [fA]).InverseRev :=
  ⟨inverse_addDeps (inverse_insertAsset (inverse_insertAsset (inverse_insertAsset inverse_nil _ _) _ _) _ _) _ _,
   inverseRev_addDeps (inverseRev_insertAsset (inverseRev_insertAsset (inverseRev_insertAsset inverseRev_nil _ _) _ _) _ _) _ _
     (by decide)⟩
/-- **Counterexample**: `addDeps` for an asset WITHOUT a node creates backward edges without forward
edges, so `InverseRev` is preserved by `addDeps` only when the asset has a node (`reloadAll` calls it
only then). -/
theorem inverseRev_addDeps_needs_node : ¬ (Graph.addDeps [] (.asset k0) [fA]).InverseRev := by
  intro h
  have h1 : (Graph.addDeps [] (.asset k0) [fA]).get fA = some { rdeps := [.asset k0] } := rfl
  have h2 : (Graph.addDeps [] (.asset k0) [fA]).get (.asset k0) = none := by decide
  have ⟨n, hn, _⟩ := h fA (.asset k0) ⟨_, h1, by simp⟩
  rw [h2] at hn; cases hn


/-! ## `assetKeys` -/

theorem mem_assetKeys {k : Key} : ∀ {l : List Dep}, k ∈ assetKeys l ↔ Dep.asset k ∈ l := by
  intro l
  induction l with
  | nil => simp [assetKeys]
  | cons d ds ih => cases d <;> simp [assetKeys, ih]

theorem assetKeys_nodup : ∀ {l : List Dep}, l.Nodup → (assetKeys l).Nodup := by
  intro l
  induction l with
  | nil => intro _; simp [assetKeys]
  | cons d ds ih =>
    intro h
    have ⟨h1, h2⟩ := List.nodup_cons.mp h
    cases d with
    | asset k => simp only [assetKeys]; exact List.nodup_cons.mpr ⟨fun hk => h1 (mem_assetKeys.mp hk), ih h2⟩
    | file _ _ => simpa [assetKeys] using ih h2
    | dir _ => simpa [assetKeys] using ih h2

theorem assetKeys_split : ∀ {l : List Dep} {pre : List Key} {k : Key} {post : List Key},
    assetKeys l = pre ++ k :: post →
    ∃ pre' post', l = pre' ++ Dep.asset k :: post' ∧ assetKeys pre' = pre ∧ assetKeys post' = post := by
  intro l
  induction l with
  | nil => intro pre k post h; simp [assetKeys] at h
  | cons d ds ih =>
    intro pre k post h
    cases d with
    | asset k' =>
      simp only [assetKeys] at h
      cases pre with
      | nil =>
        simp at h
        obtain ⟨rfl, rfl⟩ := h
        exact ⟨[], ds, rfl, rfl, rfl⟩
      | cons p pre2 =>
        simp at h
        obtain ⟨rfl, h⟩ := h
        have ⟨pre', post', h1, h2, h3⟩ := ih h
        exact ⟨Dep.asset k' :: pre', post', by simp [h1], by simp [assetKeys, h2], h3⟩
    | file i e =>
      simp only [assetKeys] at h
      have ⟨pre', post', h1, h2, h3⟩ := ih h
      exact ⟨Dep.file i e :: pre', post', by simp [h1], by simp [assetKeys, h2], h3⟩
    | dir i =>
      simp only [assetKeys] at h
      have ⟨pre', post', h1, h2, h3⟩ := ih h
      exact ⟨Dep.dir i :: pre', post', by simp [h1], by simp [assetKeys, h2], h3⟩

theorem topo_eq {g : Graph} {fuel : Nat} {changed : List Dep} {keys : List Key}
    (h : topo g fuel changed = some keys) :
    ∃ st, sortFrom g.rdepsOf fuel changed = some st ∧ keys = assetKeys st.out := by
  unfold topo at h
  cases hs : sortFrom g.rdepsOf fuel changed with
  | none => simp [hs] at h
  | some st => simp [hs] at h; exact ⟨st, rfl, h.symm⟩

example : assetKeys [fA, .asset k1, .dir "d", .asset k0] = [k1, k0] := rfl
example : k1 ∈ assetKeys [fA, .asset k1] := mem_assetKeys.mpr (by simp)
example : (assetKeys [fA, .asset k1, .asset k0]).Nodup := assetKeys_nodup (by decide)
example : ∃ pre' post', [fA, .asset k1, fB, .asset k0] = pre' ++ Dep.asset k0 :: post' ∧ assetKeys pre' = [k1] ∧
    assetKeys post' = [] := assetKeys_split (l := [fA, .asset k1, fB, .asset k0]) (pre := [k1]) (post := []) rfl

/-! ## `Graph.rdepsOf` -/

theorem rdepsOf_eq_some {g : Graph} {a : Dep} {rs : List Dep} :
    g.rdepsOf a = some rs ↔ ∃ n, g.get a = some n ∧ n.rdeps = rs := by
  unfold Graph.rdepsOf; cases g.get a <;> simp

theorem rdepsOf_ne_none {g : Graph} {a : Dep} : g.rdepsOf a ≠ none ↔ g.get a ≠ none := by
  unfold Graph.rdepsOf; cases g.get a <;> simp

theorem get_some_mem {g : Graph} {a : Dep} {n : GNode} (h : g.get a = some n) : (a, n) ∈ g := by
  induction g with
  | nil => simp at h
  | cons x g ih =>
    rw [get_cons] at h
    by_cases hx : x.1 = a
    · simp [hx] at h; subst h; subst hx; simp
    · simp [hx] at h; exact List.mem_cons_of_mem _ (ih h)

/-- under `InverseRev` every reverse dependency is a node of the graph -/
theorem rdeps_in_graph {g : Graph} (hR : g.InverseRev) {a b : Dep} {rs : List Dep}
    (h : g.rdepsOf a = some rs) (hb : b ∈ rs) : g.get b ≠ none := by
  have ⟨m, hm, hrs⟩ := rdepsOf_eq_some.mp h
  have ⟨n, hn, _⟩ := hR a b ⟨m, hm, hrs ▸ hb⟩
  simp [hn]

/-- a rank check on the entries of the graph gives the rank hypothesis on `rdepsOf` -/
theorem rank_of_entries {g : Graph} {rank : Dep → Nat}
    (h : ∀ x ∈ g, ∀ b ∈ x.2.rdeps, rank b < rank x.1) :
    ∀ a rs b, g.rdepsOf a = some rs → b ∈ rs → rank b < rank a := by
  intro a rs b hrs hb
  have ⟨n, hn, hr⟩ := rdepsOf_eq_some.mp hrs
  exact h (a, n) (get_some_mem hn) b (hr ▸ hb)

theorem deps_rank_of_entries {g : Graph} {rank : Dep → Nat}
    (h : ∀ x ∈ g, ∀ d ∈ x.2.deps, rank d < rank x.1) :
    ∀ a n d, g.get a = some n → d ∈ n.deps → rank d < rank a :=
  fun a n d hn hd => h (a, n) (get_some_mem hn) d hd

/-- under `InverseRev`, a rank that decreases along the forward (`deps`) edges rules out cycles of
reverse dependencies -/
theorem acyclic_of_deps_rank {g : Graph} (hR : g.InverseRev) {rank : Dep → Nat}
    (hr : ∀ a n d, g.get a = some n → d ∈ n.deps → rank d < rank a) :
    ∀ a rs b, g.rdepsOf a = some rs → b ∈ rs → rank a < rank b := by
  intro a rs b hrs hb
  have ⟨m, hm, hrs'⟩ := rdepsOf_eq_some.mp hrs
  have ⟨n, hn, hd⟩ := hR a b ⟨m, hm, hrs' ▸ hb⟩
  exact hr b n a hn hd

example : gEx.rdepsOf fB = some [.asset k1] ∧ gEx.rdepsOf (.dir "x") = none := by decide
example : gEx.get (.asset k1) ≠ none := rdeps_in_graph (g := gEx)
  (inverseRev_insertAsset (inverseRev_insertAsset (inverseRev_insertAsset inverseRev_nil _ _) _ _) _ _)
  (a := fB) (rs := [.asset k1]) (by decide) (by simp)

example : ∃ n, gEx.get fB = some n ∧ n.rdeps = [.asset k1] := rdepsOf_eq_some.mp (by decide)
example : gEx.rdepsOf fB ≠ none := rdepsOf_ne_none.mpr (by decide)
example : (fB, { rdeps := [.asset k1] }) ∈ gEx := get_some_mem rfl

/-- files and directories first, then `k1`, `k0`, `k2` -/
def exRankD : Dep → Nat
  | .asset k => match k.ty with | 1 => 3 | 0 => 2 | _ => 1
  | _ => 9

theorem gEx_rank : ∀ a rs b, gEx.rdepsOf a = some rs → b ∈ rs → exRankD b < exRankD a :=
  rank_of_entries (by decide)

/-! ## `topo` -/

section TopoThms
variable {g : Graph} {fuel : Nat} {changed : List Dep} {keys : List Key}

/-- **topo_nodup.** No asset is reloaded twice in one pass. -/
theorem topo_nodup (h : topo g fuel changed = some keys) : keys.Nodup := by
  obtain ⟨st, hs, rfl⟩ := topo_eq h
  exact assetKeys_nodup (sortFrom_nodup hs)

/-- **topo_only_reachable.** Every reloaded asset is a node of the graph and reachable from a changed
entry along reverse-dependency edges. -/
theorem topo_only_reachable (h : topo g fuel changed = some keys) :
    ∀ k ∈ keys, g.get (.asset k) ≠ none ∧ ∃ c ∈ changed, Reach g.rdepsOf c (.asset k) := by
  obtain ⟨st, hs, rfl⟩ := topo_eq h
  intro k hk
  have ⟨h1, h2⟩ := sortFrom_sound hs _ (mem_assetKeys.mp hk)
  exact ⟨rdepsOf_ne_none.mp h1, h2⟩

/-- **topo_closed.** The reloaded set is closed under reverse dependencies (assets in the graph). -/
theorem topo_closed (h : topo g fuel changed = some keys) :
    ∀ k ∈ keys, ∀ rs, g.rdepsOf (.asset k) = some rs → ∀ k', Dep.asset k' ∈ rs →
      g.get (.asset k') ≠ none → k' ∈ keys := by
  obtain ⟨st, hs, rfl⟩ := topo_eq h
  intro k hk rs hrs k' hk' hg
  exact mem_assetKeys.mpr (sortFrom_closed hs _ (mem_assetKeys.mp hk) rs hrs _ hk' (rdepsOf_ne_none.mpr hg))

/-- **topo_complete.** Every asset of the graph reachable from a changed entry is reloaded. -/
theorem topo_complete (h : topo g fuel changed = some keys) :
    ∀ c ∈ changed, ∀ k, Reach g.rdepsOf c (.asset k) → g.get (.asset k) ≠ none → k ∈ keys := by
  obtain ⟨st, hs, rfl⟩ := topo_eq h
  intro c hc k hr hg
  exact mem_assetKeys.mpr (sortFrom_complete hs c hc _ hr (rdepsOf_ne_none.mpr hg))

/-- **topo_changed.** A changed asset of the graph is reloaded; so is every asset that depends on a
changed entry. -/
theorem topo_changed (h : topo g fuel changed = some keys) :
    (∀ k, Dep.asset k ∈ changed → g.get (.asset k) ≠ none → k ∈ keys) ∧
    (∀ c ∈ changed, ∀ rs, g.rdepsOf c = some rs → ∀ k, Dep.asset k ∈ rs → g.get (.asset k) ≠ none → k ∈ keys) :=
  ⟨fun k hk hg => topo_complete h _ hk k (Reach.refl _) hg,
   fun c hc _ hrs k hk hg => topo_complete h c hc k (Reach.edge hrs hk) hg⟩

/-- **topo_order_scc.** On every graph: an asset is reloaded before each asset that depends on it,
except for those on a dependency cycle with it. -/
theorem topo_order_scc (h : topo g fuel changed = some keys) :
    ∀ pre k post, keys = pre ++ k :: post → ∀ rs, g.rdepsOf (.asset k) = some rs → ∀ k', Dep.asset k' ∈ rs →
      g.get (.asset k') ≠ none → k' ∈ post ∨ Reach g.rdepsOf (.asset k') (.asset k) := by
  obtain ⟨st, hs, rfl⟩ := topo_eq h
  intro pre k post hk rs hrs k' hk' hg
  obtain ⟨pre', post', ho, _, rfl⟩ := assetKeys_split hk
  rcases sortFrom_order_scc hs pre' _ post' ho rs hrs _ hk' (rdepsOf_ne_none.mpr hg) with h1 | h1
  · exact Or.inl (mem_assetKeys.mpr h1)
  · exact Or.inr h1

/-- **topo_order.** With a rank that strictly decreases along reverse-dependency edges (acyclic
graph): in `keys = pre ++ k :: post` every asset that depends on `k` is in `post` — an asset is
reloaded before its dependents. -/
theorem topo_order {rank : Dep → Nat} (hr : ∀ a rs b, g.rdepsOf a = some rs → b ∈ rs → rank b < rank a)
    (h : topo g fuel changed = some keys) :
    ∀ pre k post, keys = pre ++ k :: post → ∀ rs, g.rdepsOf (.asset k) = some rs → ∀ k', Dep.asset k' ∈ rs →
      g.get (.asset k') ≠ none → k' ∈ post := by
  obtain ⟨st, hs, rfl⟩ := topo_eq h
  intro pre k post hk rs hrs k' hk' hg
  obtain ⟨pre', post', ho, _, rfl⟩ := assetKeys_split hk
  exact mem_assetKeys.mpr (sortFrom_order hr hs pre' _ post' ho rs hrs _ hk' (rdepsOf_ne_none.mpr hg))

/-- **topo_order_idx.** Index formulation of `topo_order`: a reloaded asset has a smaller index than
each asset of the graph that depends on it (which is reloaded too). -/
theorem topo_order_idx {rank : Dep → Nat} (hr : ∀ a rs b, g.rdepsOf a = some rs → b ∈ rs → rank b < rank a)
    (h : topo g fuel changed = some keys) :
    ∀ k ∈ keys, ∀ rs, g.rdepsOf (.asset k) = some rs → ∀ k', Dep.asset k' ∈ rs → g.get (.asset k') ≠ none →
      k' ∈ keys ∧ keys.idxOf k < keys.idxOf k' := by
  intro k hk rs hrs k' hk' hg
  obtain ⟨pre, post, hsplit⟩ := List.append_of_mem hk
  have hp := topo_order hr h pre k post hsplit rs hrs k' hk' hg
  exact ⟨by rw [hsplit]; simp [hp], idxOf_lt_of_split hsplit (topo_nodup h) hp⟩

/-- **topo_order_deps.** The same from the forward edges: if the graph satisfies `InverseRev` and a
rank strictly decreases from every node to its dependencies, then in `keys = pre ++ k :: post` every
reverse dependency of `k` is in `post` (it is a node of the graph by `InverseRev`). -/
theorem topo_order_deps (hR : g.InverseRev) {rank : Dep → Nat}
    (hr : ∀ a n d, g.get a = some n → d ∈ n.deps → rank d < rank a)
    (h : topo g fuel changed = some keys) :
    ∀ pre k post, keys = pre ++ k :: post → ∀ rs, g.rdepsOf (.asset k) = some rs → ∀ k', Dep.asset k' ∈ rs →
      k' ∈ post := by
  obtain ⟨st, hs, rfl⟩ := topo_eq h
  intro pre k post hk rs hrs k' hk'
  obtain ⟨pre', post', ho, _, rfl⟩ := assetKeys_split hk
  exact mem_assetKeys.mpr (sortFrom_order_up (acyclic_of_deps_rank hR hr) hs pre' _ post' ho rs hrs _ hk'
    (rdepsOf_ne_none.mpr (rdeps_in_graph hR hrs hk')))

/-- **topo_terminates.** The sort returns on every graph (cyclic or not) with fuel `#entries + 1`. -/
theorem topo_terminates (g : Graph) (fuel : Nat) (hfuel : g.length + 1 ≤ fuel) (changed : List Dep) :
    ∃ keys, topo g fuel changed = some keys := by
  have ⟨st, hs⟩ := sortFrom_terminates (rdeps := g.rdepsOf) (g.map (·.1))
    (fun a rs h => by
      have ⟨n, hn, _⟩ := rdepsOf_eq_some.mp h
      exact List.mem_map.mpr ⟨(a, n), get_some_mem hn, rfl⟩)
    fuel (by simpa using hfuel) changed
  exact ⟨assetKeys st.out, by simp [topo, hs]⟩

/-- **topo_fuel_mono.** -/
theorem topo_fuel_mono {fuel' : Nat} (h : topo g fuel changed = some keys) (hle : fuel ≤ fuel') :
    topo g fuel' changed = some keys := by
  obtain ⟨st, hs, rfl⟩ := topo_eq h
  simp [topo, sortFrom_fuel_mono hs hle]

end TopoThms

/-! ### examples (non-vacuity) -/

example : ∃ st, sortFrom gEx.rdepsOf 8 [fB] = some st ∧ [k1, k0, k2] = assetKeys st.out :=
  topo_eq (g := gEx) (by decide)
-- file `b` changed: `k1` reads it, `k0` reads `k1`, `k2` reads `k0`: reloaded in this order
example : topo gEx 8 [fB] = some [k1, k0, k2] := by decide
-- both files and the directory changed, in an unfavourable order: same order, nothing twice
example : topo gEx 8 [.dir "d", fA, fB, .dir "zz"] = some [k1, k0, k2] := by decide
example : [k1, k0, k2].Nodup := topo_nodup (g := gEx) (fuel := 8) (changed := [.dir "d", fA, fB, .dir "zz"]) (by decide)
example : gEx.get (.asset k0) ≠ none ∧ ∃ c ∈ [fB], Reach gEx.rdepsOf c (.asset k0) :=
  topo_only_reachable (g := gEx) (fuel := 8) (keys := [k1, k0, k2]) (by decide) k0 (by decide)
example : k2 ∈ [k1, k0, k2] :=
  topo_closed (g := gEx) (fuel := 8) (changed := [fB]) (by decide) k0 (by decide) [.asset k2] (by decide) k2
    (by simp) (by decide)
example : k0 ∈ [k1, k0, k2] :=
  topo_complete (g := gEx) (fuel := 8) (changed := [fB]) (by decide) fB (by simp) k0
    (Reach.trans (b := .asset k1) (Reach.edge (rs := [.asset k1]) (by decide) (by simp))
      (Reach.edge (rs := [.asset k0]) (by decide) (by simp))) (by decide)
example : k1 ∈ [k1, k0, k2] :=
  (topo_changed (g := gEx) (fuel := 8) (changed := [fB]) (by decide)).2 fB (by simp) [.asset k1] (by decide) k1
    (by simp) (by decide)
example : k2 ∈ [k2] :=
  topo_order gEx_rank (g := gEx) (fuel := 8) (changed := [fB]) (by decide) [k1] k0 [k2] rfl [.asset k2] (by decide)
    k2 (by simp) (by decide)
example : k2 ∈ [k2] ∨ Reach gEx.rdepsOf (.asset k2) (.asset k0) :=
  topo_order_scc (g := gEx) (fuel := 8) (changed := [fB]) (by decide) [k1] k0 [k2] rfl [.asset k2] (by decide)
    k2 (by simp) (by decide)

example : k2 ∈ [k1, k0, k2] ∧ [k1, k0, k2].idxOf k0 < [k1, k0, k2].idxOf k2 :=
  topo_order_idx gEx_rank (g := gEx) (fuel := 8) (changed := [fB]) (by decide) k0 (by decide) [.asset k2] (by decide)
    k2 (by simp) (by decide)

/-- the natural rank: an asset is above everything it reads -/
def exRankF : Dep → Nat
  | .asset k => match k.ty with | 1 => 1 | 0 => 2 | _ => 3
  | _ => 0

example : k2 ∈ [k2] :=
  topo_order_deps (g := gEx) (rank := exRankF)
    (inverseRev_insertAsset (inverseRev_insertAsset (inverseRev_insertAsset inverseRev_nil _ _) _ _) _ _)
    (deps_rank_of_entries (by decide))
    (fuel := 8) (changed := [fB]) (by decide) [k1] k0 [k2] rfl [.asset k2] (by decide) k2 (by simp)
example : ∀ a rs b, gEx.rdepsOf a = some rs → b ∈ rs → exRankF a < exRankF b :=
  acyclic_of_deps_rank
    (inverseRev_insertAsset (inverseRev_insertAsset (inverseRev_insertAsset inverseRev_nil _ _) _ _) _ _)
    (deps_rank_of_entries (by decide))
example : ∃ keys, topo gEx 7 [fB, fA] = some keys := topo_terminates gEx 7 (by decide) _
example : topo gEx 4 [fB] = topo gEx 40 [fB] ∧ topo gEx 3 [fB] = none := by decide
example : topo gEx 40 [fB] = some [k1, k0, k2] := topo_fuel_mono (fuel := 4) (by decide) (by decide)

/-- a cyclic graph (two assets reading each other, as the repaired code allows): the sort returns,
lists both once, and `topo_order_scc` (not `topo_order`) describes the order -/
def gCyc : Graph := (Graph.insertAsset [] (.asset k0) [fA, .asset k1]).insertAsset (.asset k1) [.asset k0]

example : topo gCyc 4 [fA] = some [k0, k1] := by decide
example : Reach gCyc.rdepsOf (.asset k0) (.asset k1) ∧ Reach gCyc.rdepsOf (.asset k1) (.asset k0) :=
  ⟨Reach.edge (rs := [.asset k1]) (by decide) (by simp), Reach.edge (rs := [.asset k0]) (by decide) (by simp)⟩

end AmVerif.Lemmas.TopoGraph
