import AmVerif.Lemmas.CellStep
/-! # Progress: the only blocking point is the once, and its holder can always move -/
namespace AmVerif.Model.Cell
open AmVerif.Gen.Cell

/-- the only statement that can block is the entry into the once, and only while a closure runs -/
theorem interp_none {sh : Sh} {t : Nat} {th : Th} {a : Act} {tok : Tok}
    (h : interp sh t th a tok = none) : tok = .onceEnter ∧ ∃ r, sh.once = .running r := by
  cases tok <;> simp only [interp] at h
  all_goals (try (split at h))
  all_goals (try (split at h))
  all_goals (try (split at h))
  all_goals (try (cases h))
  all_goals exact ⟨rfl, _, by assumption⟩

theorem pre_tok {a : Act} (h : preAt a) : ∃ tok, (progOf a.path)[a.pc]? = some tok := by
  rcases h with ⟨hp, hpc | hpc⟩ | ⟨hp, hpc⟩ <;> rw [hp, hpc] <;> exact ⟨_, rfl⟩

theorem post_tok {a : Act} (h : postAt a) : ∃ tok, (progOf a.path)[a.pc]? = some tok := by
  rcases h with ⟨hp, hpc | hpc | hpc⟩ | ⟨hp, hpc | hpc⟩ <;> rw [hp, hpc] <;> exact ⟨_, rfl⟩

theorem runner_tok {sh : Sh} {a : Act} (h : runnerOK sh a) :
    ∃ tok, (progOf a.path)[a.pc]? = some tok ∧ tok ≠ .onceEnter := by
  rcases h with ⟨hp, hpc | hpc, _⟩ | ⟨hp, hpc | hpc, _⟩ | ⟨hp, hpc, _⟩ | ⟨hp, hpc, _⟩ |
    ⟨hp, hpc | hpc, _⟩ | ⟨hp, hpc, _⟩ | ⟨hp, hpc, _⟩ <;> rw [hp, hpc] <;> exact ⟨_, rfl, by decide⟩

theorem stepTh_act_tok {sh : Sh} {t : Nat} {th : Th} {a : Act} {tok : Tok} (ha : th.act = some a)
    (htok : (progOf a.path)[a.pc]? = some tok) : stepTh sh t th = interp sh t th a tok := by
  simp [stepTh, ha, htok]

theorem no_deadlock {sh : Sh} {ths : Nat → Th} (h : Inv ⟨sh, ths⟩) (u : Nat)
    (hw : (ths u).act ≠ none ∨ (ths u).calls ≠ []) : ∃ t, stepTh sh t (ths t) ≠ none := by
  by_cases hrun : ∃ r, sh.once = .running r
  · obtain ⟨r, hr⟩ := hrun
    obtain ⟨a, ha, hok, _⟩ := running_phase h hr
    obtain ⟨tok, htok, hne⟩ := runner_tok hok
    refine ⟨r, fun hn => ?_⟩
    rw [stepTh_act_tok ha htok] at hn
    exact hne (interp_none hn).1
  · refine ⟨u, fun hn => ?_⟩
    cases hact : (ths u).act with
    | some a =>
      have : ∃ tok, (progOf a.path)[a.pc]? = some tok := by
        rcases h.phaseC with ⟨_, _, _, _, hq⟩ | ⟨r, _, h1, _⟩ | ⟨_, _, _, hq, _⟩
        · exact pre_tok (hq u a hact).1
        · exact absurd ⟨r, h1⟩ hrun
        · rcases hq u a hact with ⟨hp, _⟩ | ⟨hp, _⟩
          · exact pre_tok hp
          · exact post_tok hp
      obtain ⟨tok, htok⟩ := this
      rw [stepTh_act_tok hact htok] at hn
      exact hrun (interp_none hn).2
    | none =>
      rcases hw with hw | hw
      · exact hw hact
      · unfold stepTh at hn
        rw [hact] at hn
        cases hc : (ths u).calls with
        | nil => exact hw hc
        | cons c rest =>
          rw [hc] at hn
          cases c with
          | init o => simp at hn
          | get =>
            simp only [getStep, getBlocks, Bool.false_eq_true, false_and, ↓reduceIte] at hn
            split at hn
            · cases hn
            · rename_i heq
              split at heq
              · cases heq
              · split at heq <;> cases heq

end AmVerif.Model.Cell
