import AmVerif.Model.Watch
/-! Helper lemmas for C12 (core only). -/
namespace AmVerif.Model.Watch
open AmVerif.Gen

/-! ### splitLast -/

theorem splitLast_none {α} [DecidableEq α] (d : α) (l : List α) (h : d ∉ l) : splitLast d l = none := by
  induction l with
  | nil => rfl
  | cons c cs ih =>
    have hc : c ≠ d := fun e => h (by simp [e])
    have hcs : d ∉ cs := fun m => h (List.mem_cons_of_mem _ m)
    simp [splitLast, ih hcs, hc]

theorem splitLast_append {α} [DecidableEq α] (d : α) (b a : List α) (h : d ∉ a) :
    splitLast d (b ++ d :: a) = some (b, a) := by
  induction b with
  | nil => simp [splitLast, splitLast_none d a h]
  | cons c cs ih => simp [splitLast, ih]

/-! ### OS strings -/

theorem toStr?_ofStr (s : List Char) : toStr? (ofStr s) = some s := by
  induction s with
  | nil => rfl
  | cons c cs ih => simp [ofStr, toStr?] at ih ⊢; simp [ih]

theorem dot_mem_ofStr (s : List Char) : OsCh.ch '.' ∈ ofStr s ↔ '.' ∈ s := by
  simp [ofStr]

theorem ofStr_eq_nil (s : List Char) : ofStr s = [] ↔ s = [] := by simp [ofStr]

theorem splitName_plain (l : List Char) (h : '.' ∉ l) : splitName (ofStr l) = (ofStr l, none) := by
  have : OsCh.ch '.' ∉ ofStr l := fun m => h ((dot_mem_ofStr l).mp m)
  simp [splitName, splitLast_none _ _ this]

theorem splitName_ext (l ext : List Char) (hl : l ≠ []) (hx : '.' ∉ ext) :
    splitName (ofStr l ++ OsCh.ch '.' :: ofStr ext) = (ofStr l, some (ofStr ext)) := by
  have : OsCh.ch '.' ∉ ofStr ext := fun m => hx ((dot_mem_ofStr ext).mp m)
  have hne : ofStr l ≠ [] := fun e => hl ((ofStr_eq_nil l).mp e)
  simp [splitName, splitLast_append _ _ _ this, hne]

/-! ### paths -/

theorem parentOf_concat_normal (q : Path) (n : OsName) : parentOf (q ++ [.normal n]) = some q := by
  simp [parentOf]

theorem fileName_concat_normal (q : Path) (n : OsName) : fileName (q ++ [.normal n]) = some n := by
  simp [fileName]

theorem parentOf_eq_some {p q : Path} (h : parentOf p = some q) : ∃ c, p = q ++ [c] := by
  rcases List.eq_nil_or_concat p with rfl | ⟨q', c, rfl⟩
  · simp [parentOf] at h
  · refine ⟨c, ?_⟩
    cases c <;> simp_all [parentOf]

theorem stripPrefix_append (r x : Path) : stripPrefix r (r ++ x) = some x := by
  induction r with
  | nil => cases x <;> rfl
  | cons a r ih => simp [stripPrefix, ih]

theorem stripPrefix_eq_some {r p x : Path} (h : stripPrefix r p = some x) : p = r ++ x := by
  induction r generalizing p with
  | nil => cases p <;> simp_all [stripPrefix]
  | cons a r ih =>
    cases p with
    | nil => simp [stripPrefix] at h
    | cons b p =>
      simp only [stripPrefix] at h
      split at h
      · rename_i hab; subst hab; simp [ih h]
      · cases h

/-! ### IdBuilder -/

theorem pop_push (buf x b' : Buf) (hx : '.' ∉ x) (hne : x ≠ []) (h : push buf x = some b') :
    pop b' = some buf := by
  unfold push at h
  simp only [hx, if_false, Option.some.injEq] at h
  subst h
  by_cases hb : buf = []
  · subst hb; simp [pop, hne, splitLast_none _ _ hx]
  · simp [pop, hb, splitLast_append _ _ _ hx]

/-- The buffer after pushing the segments `segs` in order. -/
def pushAll (buf : Buf) (segs : List (List Char)) : Buf :=
  segs.foldl (fun b s => if b = [] then s else b ++ '.' :: s) buf

theorem joinDot_cons_cons (w s : List Char) (t : List (List Char)) :
    joinDot (w :: s :: t) = w ++ '.' :: joinDot (s :: t) := rfl

theorem joinDot_merge (buf s : List Char) (t : List (List Char)) :
    joinDot ((buf ++ '.' :: s) :: t) = joinDot (buf :: s :: t) := by
  cases t with
  | nil => simp [joinDot]
  | cons u v => simp [joinDot]

theorem pushAll_ne_nil (buf : Buf) (hb : buf ≠ []) (segs : List (List Char)) :
    pushAll buf segs = joinDot (buf :: segs) := by
  induction segs generalizing buf with
  | nil => simp [pushAll, joinDot]
  | cons s t ih =>
    have : buf ++ '.' :: s ≠ [] := by simp
    simp only [pushAll, List.foldl_cons, hb, if_false]
    have := ih (buf ++ '.' :: s) this
    simp only [pushAll] at this
    rw [this, joinDot_merge]

theorem pushAll_nil (segs : List (List Char)) (h : ∀ s ∈ segs, s ≠ []) : pushAll [] segs = joinDot segs := by
  cases segs with
  | nil => rfl
  | cons s t =>
    have hs : s ≠ [] := h s (by simp)
    have := pushAll_ne_nil s hs t
    simpa [pushAll] using this

theorem pushAll_concat (buf : Buf) (segs : List (List Char)) (l : List Char) :
    pushAll buf (segs ++ [l]) = (if pushAll buf segs = [] then l else pushAll buf segs ++ '.' :: l) := by
  unfold pushAll; rw [List.foldl_append]; rfl

/-! ### the component loop -/

/-- The component of a separator-free, UTF-8 name. -/
def N (s : List Char) : Comp := .normal (ofStr s)

theorem compStep_N (buf : Buf) (s : List Char) : compStep buf (N s) = push buf s := by
  simp [compStep, N, Comp.kind, compTable, toStr?_ofStr]

theorem compStep_cur (buf : Buf) : compStep buf .curDir = some buf := by
  simp [compStep, Comp.kind, compTable]

theorem compStep_parent (buf : Buf) : compStep buf .parentDir = pop buf := by
  simp [compStep, Comp.kind, compTable]

theorem runComps_append (buf : Buf) (xs ys : Path) :
    runComps buf (xs ++ ys) = (runComps buf xs).bind fun b => runComps b ys := by
  induction xs generalizing buf with
  | nil => simp [runComps]
  | cons c cs ih =>
    simp only [List.cons_append, runComps]
    cases compStep buf c with
    | none => simp
    | some b => simp [ih]

theorem runComps_segs (buf : Buf) (segs : List (List Char)) (h : ∀ s ∈ segs, '.' ∉ s) :
    runComps buf (segs.map N) = some (pushAll buf segs) := by
  induction segs generalizing buf with
  | nil => simp [runComps, pushAll]
  | cons s t ih =>
    have hs : '.' ∉ s := h s (by simp)
    have ht : ∀ x ∈ t, '.' ∉ x := fun x hx => h x (List.mem_cons_of_mem _ hx)
    simp only [List.map_cons, runComps, compStep_N, push, hs, if_false, Option.bind_some]
    rw [ih _ ht]; simp [pushAll]

theorem runComps_none_of_mem (buf : Buf) (rel : Path) (c : Comp) (hc : c ∈ rel)
    (hbad : ∀ b, compStep b c = none) : runComps buf rel = none := by
  induction rel generalizing buf with
  | nil => cases hc
  | cons d ds ih =>
    simp only [runComps]
    rcases List.mem_cons.mp hc with rfl | h
    · simp [hbad]
    · cases compStep buf d with
      | none => rfl
      | some b => simpa using ih b h

/-! ### `id_of_path` unfolded on `root ++ rel ++ [last]` -/

/-- The shape of `id_of_path` regenerated from the source is the repaired one: the root itself is
the directory with the empty id, the kind comes from the notification when it gives one, the
whole name of a directory and the stem of a file are the last id segment, `name.` is refused. -/
theorem idShape_eq : idShape = ⟨true, true, .whole, .stem, true⟩ := by decide

theorem kindOf_eq (hint : Option Bool) (d : Bool) : kindOf hint d = hint.getD d := by
  simp [kindOf, idShape_eq]

/-- The extension of a file name, the empty-but-present one (`name.`) refused. -/
def extOfName (n : OsName) : Option (List Char) :=
  match (splitName n).2 with
  | none => some []
  | some e => if e = [] then none else toStr? e

theorem fileExt_eq (n : OsName) : fileExt n = extOfName n := by
  unfold fileExt extOfName
  rw [idShape_eq]
  rfl

theorem idOfPath_root (r : Path) (hint : Option Bool) (d : Bool) : idOfPath r r hint d = some (.dir []) := by
  simp [idOfPath, idShape_eq]

theorem idOfPath_of_ne (r p : Path) (hint : Option Bool) (d : Bool) (h : p ≠ r) :
    idOfPath r p hint d =
      (parentOf p).bind fun par =>
      (stripPrefix r par).bind fun rel =>
      (runComps [] rel).bind fun buf =>
      (fileName p).bind fun name =>
      if hint.getD d then
        (toStr? name).bind fun s => (push buf s).map fun id => .dir id
      else
        (toStr? (splitName name).1).bind fun s =>
        (push buf s).bind fun id => (extOfName name).map fun ext => .file id ext := by
  unfold idOfPath
  simp only [h, and_false, if_false, kindOf_eq, fileExt_eq, idShape_eq, namePart]

theorem under_ne (r rel : Path) (c : Comp) : r ++ rel ++ [c] ≠ r := by
  intro e
  have := congrArg List.length e
  simp at this

theorem idOfPath_under (r rel : Path) (n : OsName) (hint : Option Bool) (d : Bool) :
    idOfPath r (r ++ rel ++ [.normal n]) hint d =
      (runComps [] rel).bind fun buf =>
      if hint.getD d then
        (toStr? n).bind fun s => (push buf s).map fun id => .dir id
      else
        (toStr? (splitName n).1).bind fun s =>
        (push buf s).bind fun id => (extOfName n).map fun ext => .file id ext := by
  rw [idOfPath_of_ne _ _ _ _ (under_ne r rel _), parentOf_concat_normal, fileName_concat_normal]
  simp only [Option.bind_some, stripPrefix_append]

/-! ### more on splitLast / OS strings -/

theorem splitLast_eq_some {α} [DecidableEq α] (d : α) (l b a : List α) (h : splitLast d l = some (b, a)) :
    l = b ++ d :: a ∧ d ∉ a := by
  induction l generalizing b with
  | nil => simp [splitLast] at h
  | cons c cs ih =>
    simp only [splitLast] at h
    cases hs : splitLast d cs with
    | some ba =>
      obtain ⟨b', a'⟩ := ba
      rw [hs] at h
      simp only [Option.some.injEq, Prod.mk.injEq] at h
      obtain ⟨h1, h2⟩ := h
      subst h1; subst h2
      obtain ⟨e, hn⟩ := ih b' hs
      exact ⟨by rw [e]; rfl, hn⟩
    | none =>
      rw [hs] at h
      by_cases hc : c = d
      · simp only [hc, if_true, Option.some.injEq, Prod.mk.injEq] at h
        obtain ⟨h1, h2⟩ := h
        subst h1; subst h2; subst hc
        refine ⟨rfl, ?_⟩
        intro hm
        have : splitLast c cs ≠ none := by
          clear hs ih
          induction cs with
          | nil => cases hm
          | cons x xs ihx =>
            simp only [splitLast]
            cases hx : splitLast c xs with
            | some _ => simp
            | none =>
              rcases List.mem_cons.mp hm with e | e
              · simp [e]
              · exact absurd hx (ihx e)
        exact this hs
      · simp [hc] at h

theorem toStr?_eq_some (n : OsName) (s : List Char) (h : toStr? n = some s) : n = ofStr s := by
  induction n generalizing s with
  | nil => simp [toStr?] at h; subst h; rfl
  | cons c cs ih =>
    cases c with
    | bad b => simp [toStr?] at h
    | ch c =>
      simp only [toStr?] at h
      cases hc : toStr? cs with
      | none => simp [hc] at h
      | some t =>
        rw [hc] at h
        simp at h
        subst h
        rw [ih t hc]; rfl

theorem toStr?_append (a b : OsName) : toStr? (a ++ b) = (toStr? a).bind fun x => (toStr? b).map fun y => x ++ y := by
  induction a with
  | nil => simp [toStr?]
  | cons c cs ih =>
    cases c with
    | bad _ => simp [toStr?]
    | ch c =>
      simp only [List.cons_append, toStr?, ih]
      cases toStr? cs <;> cases toStr? b <;> simp

/-- If pushing the segments succeeded, none of them has a dot. -/
theorem dotfree_of_runComps (buf b' : Buf) (segs : List (List Char)) (h : runComps buf (segs.map N) = some b') :
    ∀ s ∈ segs, '.' ∉ s := by
  intro s hs hdot
  have : runComps buf (segs.map N) = none := by
    apply runComps_none_of_mem buf _ (N s) (List.mem_map_of_mem hs)
    intro b; rw [compStep_N]; simp [push, hdot]
  rw [this] at h; cases h

/-! ### ids ↔ segments (from design-calibration/Ids.lean) -/

theorem splitDot_ne_nil (s : List Char) : splitDot s ≠ [] := by
  induction s with
  | nil => simp [splitDot]
  | cons c cs ih =>
    simp only [splitDot]; split
    · simp
    · split <;> simp

theorem splitDot_dotfree (w : List Char) (h : '.' ∉ w) : splitDot w = [w] := by
  induction w with
  | nil => rfl
  | cons c cs ih =>
    have hc : c ≠ '.' := fun e => h (by simp [e])
    have hcs : '.' ∉ cs := fun m => h (List.mem_cons_of_mem _ m)
    simp [splitDot, hc, ih hcs]

theorem splitDot_append_dot (w rest : List Char) (h : '.' ∉ w) :
    splitDot (w ++ '.' :: rest) = w :: splitDot rest := by
  induction w with
  | nil => simp [splitDot]
  | cons c cs ih =>
    have hc : c ≠ '.' := fun e => h (by simp [e])
    have hcs : '.' ∉ cs := fun m => h (List.mem_cons_of_mem _ m)
    simp [splitDot, hc, ih hcs]

theorem split_join (ws : List (List Char)) (hne : ws ≠ []) (h : ∀ w ∈ ws, '.' ∉ w) :
    splitDot (joinDot ws) = ws := by
  induction ws with
  | nil => exact absurd rfl hne
  | cons w ws ih =>
    cases ws with
    | nil => simpa [joinDot] using splitDot_dotfree w (h w (by simp))
    | cons w2 ws2 =>
      simp only [joinDot]
      rw [splitDot_append_dot w _ (h w (by simp))]
      rw [ih (by simp) (fun x hx => h x (List.mem_cons_of_mem _ hx))]

theorem mem_joinDot (c : Char) (segs : List (List Char)) (h : c ∈ joinDot segs) :
    c = '.' ∨ ∃ s ∈ segs, c ∈ s := by
  induction segs with
  | nil => simp [joinDot] at h
  | cons w ws ih =>
    cases ws with
    | nil => right; exact ⟨w, by simp, by simpa [joinDot] using h⟩
    | cons w2 ws2 =>
      simp only [joinDot, List.mem_append, List.mem_cons] at h
      rcases h with h | h | h
      · right; exact ⟨w, by simp, h⟩
      · left; exact h
      · rcases ih (by simpa [joinDot] using h) with e | ⟨s, hs, hc⟩
        · left; exact e
        · right; exact ⟨s, List.mem_cons_of_mem _ hs, hc⟩

theorem foldl_pushSeg (r : Path) (segs : List (List Char)) (h : ∀ s ∈ segs, s ≠ []) :
    segs.foldl pushSeg r = r ++ segs.map N := by
  induction segs generalizing r with
  | nil => simp
  | cons s t ih =>
    have hs : s ≠ [] := h s (by simp)
    simp only [List.foldl_cons, pushSeg, hs, if_false]
    rw [ih _ (fun x hx => h x (List.mem_cons_of_mem _ hx))]
    simp [N]

end AmVerif.Model.Watch
