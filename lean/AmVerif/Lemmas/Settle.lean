import AmVerif.Lemmas.Converge
/-!
# Loading establishes and preserves `Settled`

* `hitRun_fuel` — a tracked hit-only run that returns does not depend on the fuel.
* `eval_load_hit`, `eval_load_miss_*` — what `eval` does on a `.load` (hot type, cache with reloader).
* `cleanRun env fin f s p` — the evaluation `eval env f s p` is a **clean loading run** (relative to the
  cache `fin` it ends in): plain constructors and recorded look-ups on the path it takes (misses
  included, recursively), and neither of the two situations in which a load leaves an asset that is
  not settled: an absorbed failure, a `get_cached` probe of a key that is absent and gets cached
  before the load returns. (A lost keep-first insertion — a key loaded again while its own loader
  runs — needs no hypothesis: both registrations are then good, `clean_out`.)
* `clean_replay` — re-evaluating the body of a clean run in the final cache is a tracked hit-only
  run with the same value and the same record.
* `clean_out` / `clean_msgs` / `clean_registers` — every `AddAsset` message a clean run sends is
  `MsgGood`: the asset is cached in the final cache, holds what re-evaluating its loader there
  returns, and the message carries exactly what that re-evaluation reads; every key the run caches
  has such a message.
* `settledBut_insert`, `settledBut_drain`, `settled_keep` — `Settled` through the graph updates and
  for the assets cached before (`NoProbedKeyFilled`).
* `evalTop_settles`, `load_settles` — one API load from a drained channel; `Pending`,
  `evalTop_pending`, `load_pending` — loads without a drain in between; `HInv`, `LoadHist`,
  `loads_settle` — histories of loads and `hot_reload`s.
* executable checks of the named hypotheses (`noProbedKeyFilledB`, `noPendingKeyFilledB`, `loadOKB`).
-/
namespace AmVerif.Model
open AmVerif.Gen AmVerif.Lemmas.TopoGraph

/-! ## A tracked hit-only run that returns does not depend on the fuel -/

theorem hitRun_fuel (env : Env) : ∀ (f F : Nat) (p : Prog) (s : St), f ≤ F →
    hitRun env f s p = true → (eval env f s p).2 ≠ .diverged →
    hitRun env F s p = true ∧ eval env F s p = eval env f s p := by
  intro f
  induction f with
  | zero => intro F p s _ _ hd; exact absurd rfl hd
  | succ f ih =>
    intro F p s hle hh hd
    obtain ⟨F', rfl⟩ : ∃ F', F = F' + 1 := ⟨F - 1, by omega⟩
    have hle' : f ≤ F' := by omega
    cases p with
    | ret v => exact ⟨rfl, rfl⟩
    | fail e => exact ⟨rfl, rfl⟩
    | panic => exact ⟨rfl, rfl⟩
    | read id ext k =>
      simp only [hitRun, Bool.and_eq_true] at hh
      obtain ⟨hb, hh⟩ := hh
      rw [hb] at hh
      simp only [eval, hb] at hd
      simp only [hitRun, eval, hb, Bool.true_and]
      exact ih F' _ _ hle' hh hd
    | readDir id k =>
      simp only [hitRun, Bool.and_eq_true] at hh
      obtain ⟨hb, hh⟩ := hh
      rw [hb] at hh
      simp only [eval, hb] at hd
      simp only [hitRun, eval, hb, Bool.true_and]
      exact ih F' _ _ hle' hh hd
    | getCached key k =>
      simp only [hitRun, Bool.and_eq_true] at hh
      obtain ⟨hb, hh⟩ := hh
      rw [hb] at hh
      simp only [eval, hb] at hd
      simp only [hitRun, eval, hb, Bool.true_and]
      exact ih F' _ _ hle' hh hd
    | tick k =>
      simp only [hitRun] at hh
      simp only [eval] at hd
      obtain ⟨i1, i2⟩ := ih F' _ _ hle' hh hd
      simp only [hitRun, eval]
      exact ⟨i1, i2⟩
    | load key k =>
      simp only [hitRun, Bool.and_eq_true] at hh
      obtain ⟨hb, hh⟩ := hh
      rw [hb] at hh
      simp only [eval, hb] at hd
      simp only [hitRun, eval, hb, Bool.true_and]
      cases hl : (s.record true (.asset key)).lookup key with
      | none => rw [hl] at hh; cases hh
      | some c =>
        rw [hl] at hh hd
        simp only [] at hh hd ⊢
        exact ih F' _ _ hle' hh hd
    | noRecord body k => simp only [hitRun] at hh; cases hh
    | onThread body k => simp only [hitRun] at hh; cases hh
    | tryCatch body k => simp only [hitRun] at hh; cases hh
    | loadOwned key k => simp only [hitRun] at hh; cases hh
    | getOrInsert key v k => simp only [hitRun] at hh; cases hh

/-! ## What `eval` does on a `.load` of a hot type -/

/-- the state the loader body of a nested load starts from: a fresh record on top -/
def St.enter (s : St) : St := { s with recs := some [] :: s.recs }

/-- the loader body of `key` returned `v` in `sb`: the frame is popped (the stack is `recs` again),
`AddAsset key (what the frame recorded)` is sent, the entry is inserted (keep-first) -/
def St.leaveOk (env : Env) (key : Key) (v : Val) (recs : List (Option (List Dep))) (sb : St) : St :=
  St.own { ((St.send { sb with recs := recs } (.addAsset key sb.top)).insertKeepFirst key
              (newCell env key.ty v sb.next)).1 with next := sb.next + 1 }
    key.ty sb.next (sb.lookup key).isSome

/-- the entry that is under `key` after that insertion: the new one, or (keep-first) the one a
recursive load of `key` put there while the loader ran -/
def St.survivor (env : Env) (key : Key) (v : Val) (sb : St) : Cell :=
  (sb.lookup key).getD (newCell env key.ty v sb.next)

/-- the loader body failed in `sb`: the frame is popped and what it recorded is handed to the parent's frame -/
def St.leaveErr (recs : List (Option (List Dep))) (sb : St) : St :=
  St.recordAll { sb with recs := recs } true sb.top

@[simp] theorem St.enter_lookup (s : St) (k : Key) : s.enter.lookup k = s.lookup k := rfl
@[simp] theorem St.enter_out (s : St) : s.enter.out = s.out := rfl
@[simp] theorem St.enter_map (s : St) : s.enter.map = s.map := rfl

theorem eval_load_hit (env : Env) (f : Nat) (s : St) (key : Key) (k : Except LErr Val → Prog) (c : Cell)
    (hl : s.lookup key = some c) :
    eval env (f + 1) s (.load key k) =
      eval env f (s.record (recordsAsset (env.types key.ty).hot env.hasReloader) (.asset key)) (k (.ok c.val)) := by
  simp only [eval, St.record_lookup, hl]

theorem loadAndRecord_hot (env : Env) (body : St → St × Outcome) (key : Key) (s : St)
    (hb : recordsAsset (env.types key.ty).hot env.hasReloader = true) :
    loadAndRecord env body key s =
      match body s.enter with
      | (sb, .ok v) => (St.send { sb with recs := s.recs } (.addAsset key sb.top), .ok v)
      | (sb, .err e) => (St.leaveErr s.recs sb, .err (.wrapped key.id e))
      | (sb, o) => ({ sb with recs := s.recs }, o) := by
  have hcfg : failedLoadRecordsToParent = true := by decide
  unfold loadAndRecord withFrame St.enter St.leaveErr
  simp only [hb, if_true, hcfg, Bool.and_self]
  generalize body { s with recs := some [] :: s.recs } = r
  obtain ⟨sb, o⟩ := r
  cases o <;> rfl

theorem insertKeepFirst_fresh (s : St) (key : Key) (c : Cell) (h : s.lookup key = none) :
    (s.insertKeepFirst key c).2 = c ∧ (s.insertKeepFirst key c).1.lookup key = some c := by
  have h1 := St.insertKeepFirst_lookup s key c
  rw [h] at h1
  simp only [Option.getD_none] at h1
  exact ⟨h1.2, by rw [h1.1, h1.2]⟩

theorem survivor_eq (env : Env) (key : Key) (v : Val) (recs) (sb : St) :
    ((St.send { sb with recs := recs } (.addAsset key sb.top)).insertKeepFirst key (newCell env key.ty v sb.next)).2 =
      St.survivor env key v sb :=
  (St.insertKeepFirst_lookup (St.send { sb with recs := recs } (.addAsset key sb.top)) key (newCell env key.ty v sb.next)).2

theorem eval_load_miss (env : Env) (f : Nat) (s : St) (key : Key) (k : Except LErr Val → Prog)
    (hb : recordsAsset (env.types key.ty).hot env.hasReloader = true) (hl : s.lookup key = none) :
    eval env (f + 1) s (.load key k) =
      match eval env f (s.record true (.asset key)).enter ((env.types key.ty).prog key.id) with
      | (sb, .ok v) =>
        eval env f (St.leaveOk env key v (s.record true (.asset key)).recs sb) (k (.ok (St.survivor env key v sb).val))
      | (sb, .err e) => eval env f (St.leaveErr (s.record true (.asset key)).recs sb) (k (.error (.wrapped key.id e)))
      | (sb, o) => ({ sb with recs := (s.record true (.asset key)).recs }, o) := by
  simp only [eval, hb, St.record_lookup, hl]
  rw [loadAndRecord_hot env _ key _ hb]
  generalize eval env f (s.record true (.asset key)).enter ((env.types key.ty).prog key.id) = r
  obtain ⟨sb, o⟩ := r
  cases o with
  | ok v =>
    simp only []
    rw [← survivor_eq env key v (s.record true (.asset key)).recs sb]
    rfl
  | err e => rfl
  | panicked => rfl
  | diverged => rfl

theorem eval_load_miss_ok (env : Env) (f : Nat) (s : St) (key : Key) (k : Except LErr Val → Prog)
    (hb : recordsAsset (env.types key.ty).hot env.hasReloader = true) (hl : s.lookup key = none)
    {sb : St} {v : Val}
    (hbody : eval env f (s.record true (.asset key)).enter ((env.types key.ty).prog key.id) = (sb, .ok v)) :
    eval env (f + 1) s (.load key k) =
      eval env f (St.leaveOk env key v (s.record true (.asset key)).recs sb) (k (.ok (St.survivor env key v sb).val)) := by
  rw [eval_load_miss env f s key k hb hl, hbody]

/-- what is cached under `key` after a successful nested load -/
theorem leaveOk_lookup_self (env : Env) (key : Key) (v : Val) (recs) (sb : St) :
    (St.leaveOk env key v recs sb).lookup key = some (St.survivor env key v sb) := by
  unfold St.leaveOk
  rw [St.own_lookup, ← survivor_eq env key v recs sb]
  exact (St.insertKeepFirst_lookup (St.send { sb with recs := recs } (.addAsset key sb.top)) key
    (newCell env key.ty v sb.next)).1

theorem leaveOk_lookup_other (env : Env) (key : Key) (v : Val) (recs) (sb : St) (k : Key) (hk : k ≠ key) :
    (St.leaveOk env key v recs sb).lookup k = sb.lookup k := by
  unfold St.leaveOk
  rw [St.own_lookup]
  exact St.insertKeepFirst_other (St.send { sb with recs := recs } (.addAsset key sb.top)) key k _ hk

theorem leaveOk_le (env : Env) (key : Key) (v : Val) (recs) (sb : St) : sb.Le (St.leaveOk env key v recs sb) := by
  unfold St.leaveOk
  exact (St.Le.of_map_eq (s := sb) (t := St.send { sb with recs := recs } (.addAsset key sb.top)) rfl).trans
    ((St.insertKeepFirst_le _ key _).trans (St.Le.of_map_eq rfl))

theorem leaveOk_recs (env : Env) (key : Key) (v : Val) (recs) (sb : St) : (St.leaveOk env key v recs sb).recs = recs := by
  unfold St.leaveOk
  rw [St.own_recs]
  exact St.insertKeepFirst_recs _ _ _

theorem leaveErr_map (recs) (sb : St) : (St.leaveErr recs sb).map = sb.map := by
  unfold St.leaveErr; rw [St.recordAll_map]

theorem St.insertKeepFirst_out (s : St) (k : Key) (c : Cell) : (s.insertKeepFirst k c).1.out = s.out := by
  unfold St.insertKeepFirst; split <;> rfl

theorem leaveOk_out (env : Env) (key : Key) (v : Val) (recs) (sb : St) :
    (St.leaveOk env key v recs sb).out = sb.out ++ [.addAsset key sb.top] := by
  unfold St.leaveOk
  rw [St.own_out]
  exact St.insertKeepFirst_out _ _ _

theorem St.recordAll_out (s : St) (on : Bool) (ds : List Dep) : (s.recordAll on ds).out = s.out := by
  unfold St.recordAll
  induction ds generalizing s with
  | nil => rfl
  | cons d ds ih => simp only [List.foldl]; rw [ih]; exact St.record_out s on d

theorem leaveErr_out (recs) (sb : St) : (St.leaveErr recs sb).out = sb.out := by
  unfold St.leaveErr; rw [St.recordAll_out]

/-! ## Clean loading runs -/

/-- `eval env f s p` is a **clean loading run** relative to the cache `fin` the whole load ends in.
(Mirrors `eval` clause by clause, nested loader bodies included.) On the path the evaluation takes:
* plain constructors only, every look-up and read recorded (as for `hitRun`);
* **no absorbed failure**: when a nested load fails, the loader that asked for it does not go on to
  return a value;
* **no probe of a key that gets filled**: a `get_cached` that finds nothing is for a key that is
  still absent in `fin`. -/
def cleanRun (env : Env) (fin : St) : Nat → St → Prog → Bool
  | 0, _, _ => true
  | _+1, _, .ret _ => true
  | _+1, _, .fail _ => true
  | _+1, _, .panic => true
  | f+1, s, .read id ext k =>
      recordsRead env.hasReloader &&
      cleanRun env fin f { s.record true (.file id ext) with ios := (s.record true (.file id ext)).ios + 1 }
        (k (env.read (s.record true (.file id ext)).ios id ext))
  | f+1, s, .readDir id k =>
      recordsRead env.hasReloader &&
      cleanRun env fin f { s.record true (.dir id) with ios := (s.record true (.dir id)).ios + 1 }
        (k (env.readDir (s.record true (.dir id)).ios id))
  | f+1, s, .getCached key k =>
      recordsAsset (env.types key.ty).hot env.hasReloader &&
      ((s.lookup key).isSome || (fin.lookup key).isNone) &&
      cleanRun env fin f (s.record true (.asset key)) (k ((s.lookup key).map (·.val)))
  | f+1, s, .tick k => cleanRun env fin f { s with loads := s.loads + 1 } (k (env.loaderFault s.loads))
  | f+1, s, .load key k =>
      recordsAsset (env.types key.ty).hot env.hasReloader &&
      (match s.lookup key with
       | some c => cleanRun env fin f (s.record true (.asset key)) (k (.ok c.val))
       | none =>
         cleanRun env fin f (s.record true (.asset key)).enter ((env.types key.ty).prog key.id) &&
         (match eval env f (s.record true (.asset key)).enter ((env.types key.ty).prog key.id) with
          | (sb, .ok v) =>
            cleanRun env fin f (St.leaveOk env key v (s.record true (.asset key)).recs sb)
              (k (.ok (St.survivor env key v sb).val))
          | (sb, .err e) =>
            cleanRun env fin f (St.leaveErr (s.record true (.asset key)).recs sb) (k (.error (.wrapped key.id e))) &&
            (match (eval env f (St.leaveErr (s.record true (.asset key)).recs sb) (k (.error (.wrapped key.id e)))).2 with
             | .ok _ => false
             | _ => true)
          | _ => true))
  | _+1, _, .noRecord _ _ => false
  | _+1, _, .onThread _ _ => false
  | _+1, _, .tryCatch _ _ => false
  | _+1, _, .loadOwned _ _ => false
  | _+1, _, .getOrInsert _ _ _ => false

/-! ## Replaying the body of a clean run in the final cache -/

/-- **Replay.** A clean run that returns `v`, re-evaluated in (a state with the map of) the cache
the load ended in, is a tracked hit-only run with the same value and the same record: every asset it
loaded is cached there (keep-first), every key it probed in vain is still absent. -/
theorem clean_replay {env : Env} (hS : env.Steady) {fin0 fin : St} (hfin : ∀ k, fin0.lookup k = none → fin.lookup k = none) :
    ∀ (f : Nat) (p : Prog) (s : St) (ds : List Dep) (rs : List (Option (List Dep))) (v : Val),
    s.recs = some ds :: rs → cleanRun env fin0 f s p = true → (eval env f s p).2 = .ok v →
    (eval env f s p).1.Le fin →
    ∀ (t : St) (rt : List (Option (List Dep))), (∀ k, t.lookup k = fin.lookup k) → t.recs = some ds :: rt →
      hitRun env f t p = true ∧ (eval env f t p).2 = .ok v ∧ (eval env f t p).1.top = (eval env f s p).1.top := by
  intro f
  induction f with
  | zero => intro p s ds rs v _ _ ho; simp only [eval] at ho; cases ho
  | succ f ih =>
    intro p s ds rs v hs hc ho hle t rt ht htr
    have hsfin : s.Le fin := (eval_mono env (f + 1) s p).trans hle
    cases p with
    | ret v' =>
      simp only [eval] at ho ⊢
      exact ⟨rfl, ho, by rw [St.top_of_recs hs, St.top_of_recs htr]⟩
    | fail e => simp only [eval] at ho; cases ho
    | panic => simp only [eval] at ho; cases ho
    | read id ext k =>
      simp only [cleanRun, Bool.and_eq_true] at hc
      obtain ⟨hb, hc⟩ := hc
      simp only [eval, hb] at ho hle ⊢
      simp only [hitRun, hb, Bool.true_and]
      rw [hS.1 (t.record true (.file id ext)).ios (s.record true (.file id ext)).ios]
      exact ih _ _ _ _ v (show St.recs { s.record true (.file id ext) with
          ios := (s.record true (.file id ext)).ios + 1 } = _ from St.record_recs hs _) hc ho hle _ rt
        (fun k => (St.lookup_congr (St.record_map t true _) k).trans (ht k))
        (show St.recs { t.record true (.file id ext) with
          ios := (t.record true (.file id ext)).ios + 1 } = _ from St.record_recs htr _)
    | readDir id k =>
      simp only [cleanRun, Bool.and_eq_true] at hc
      obtain ⟨hb, hc⟩ := hc
      simp only [eval, hb] at ho hle ⊢
      simp only [hitRun, hb, Bool.true_and]
      rw [hS.2.1 (t.record true (.dir id)).ios (s.record true (.dir id)).ios]
      exact ih _ _ _ _ v (show St.recs { s.record true (.dir id) with
          ios := (s.record true (.dir id)).ios + 1 } = _ from St.record_recs hs _) hc ho hle _ rt
        (fun k => (St.lookup_congr (St.record_map t true _) k).trans (ht k))
        (show St.recs { t.record true (.dir id) with
          ios := (t.record true (.dir id)).ios + 1 } = _ from St.record_recs htr _)
    | getCached key k =>
      simp only [cleanRun, Bool.and_eq_true] at hc
      obtain ⟨⟨hb, hp⟩, hc⟩ := hc
      simp only [eval, hb, St.record_lookup] at ho hle ⊢
      simp only [hitRun, hb, Bool.true_and, St.record_lookup]
      have hlk : t.lookup key = s.lookup key := by
        rw [ht key]
        cases hl : s.lookup key with
        | some c => exact hsfin key c hl
        | none =>
          rw [hl] at hp
          simp only [Option.isSome_none, Bool.false_or, Option.isNone_iff_eq_none] at hp
          exact hfin key hp
      rw [hlk]
      exact ih _ _ _ _ v (St.record_recs hs _) hc ho hle _ rt
        (fun k => (St.record_lookup t true _ k).trans (ht k)) (St.record_recs htr _)
    | tick k =>
      simp only [cleanRun] at hc
      simp only [eval] at ho hle ⊢
      simp only [hitRun]
      rw [hS.2.2 t.loads s.loads]
      exact ih _ { s with loads := s.loads + 1 } ds rs v hs hc ho hle { t with loads := t.loads + 1 } rt ht htr
    | load key k =>
      simp only [cleanRun, Bool.and_eq_true] at hc
      obtain ⟨hb, hc⟩ := hc
      cases hl : s.lookup key with
      | some c =>
        rw [hl] at hc
        simp only [] at hc
        have htl : t.lookup key = some c := (ht key).trans (hsfin key c hl)
        rw [eval_load_hit env f s key k c hl, hb] at ho hle ⊢
        rw [eval_load_hit env f t key k c htl, hb]
        simp only [hitRun, hb, Bool.true_and, St.record_lookup, htl]
        exact ih _ _ _ _ v (St.record_recs hs _) hc ho hle _ rt
          (fun k => (St.record_lookup t true _ k).trans (ht k)) (St.record_recs htr _)
      | none =>
        rw [hl] at hc
        simp only [Bool.and_eq_true] at hc
        obtain ⟨_, hc⟩ := hc
        cases hbody : eval env f (s.record true (.asset key)).enter ((env.types key.ty).prog key.id) with
        | mk sb ob =>
          rw [hbody] at hc
          cases ob with
          | ok v' =>
            simp only [] at hc
            rw [eval_load_miss_ok env f s key k hb hl hbody] at ho hle ⊢
            have hcell := leaveOk_lookup_self env key v' (s.record true (.asset key)).recs sb
            have htl : t.lookup key = some (St.survivor env key v' sb) :=
              (ht key).trans (((eval_mono env f _ _).trans hle) key _ hcell)
            rw [eval_load_hit env f t key k _ htl, hb]
            simp only [hitRun, hb, Bool.true_and, St.record_lookup, htl]
            exact ih _ _ _ _ v ((leaveOk_recs env key v' _ sb).trans (St.record_recs hs _)) hc ho hle _ rt
              (fun k => (St.record_lookup t true _ k).trans (ht k)) (St.record_recs htr _)
          | err e =>
            simp only [Bool.and_eq_true] at hc
            rw [eval_load_miss env f s key k hb hl, hbody] at ho
            simp only [] at ho
            rw [ho] at hc
            exact absurd hc.2 (by simp)
          | panicked =>
            rw [eval_load_miss env f s key k hb hl, hbody] at ho
            cases ho
          | diverged =>
            rw [eval_load_miss env f s key k hb hl, hbody] at ho
            cases ho
    | noRecord body k => simp only [cleanRun] at hc; cases hc
    | onThread body k => simp only [cleanRun] at hc; cases hc
    | tryCatch body k => simp only [cleanRun] at hc; cases hc
    | loadOwned key k => simp only [cleanRun] at hc; cases hc
    | getOrInsert key v' k => simp only [cleanRun] at hc; cases hc

/-! ## The registrations of a clean run -/

/-- The registration `AddAsset k D` is **good** in the cache `fin`: `k` is cached there, re-evaluating
its loader there is a tracked hit-only run that returns the cached value and records exactly `D`. -/
def MsgGood (env : Env) (fuel : Nat) (fin : St) (k : Key) (D : List Dep) : Prop :=
  ∃ c, fin.lookup k = some c ∧ reloadHit env fuel fin k = true ∧ reloadOut env fuel fin k = .ok c.val ∧
    reloadDeps env fuel fin k = D

/-- re-evaluating, in the final cache and with the full fuel, a loader whose body ran clean and
returned `v` with record `sb.top`: a tracked hit-only run, the same value, the same record -/
theorem clean_body_replay {env : Env} (hS : env.Steady) {fuel : Nat} {fin0 fin : St}
    (hfin : ∀ k, fin0.lookup k = none → fin.lookup k = none) {f : Nat} (hf : f ≤ fuel)
    {s0 : St} {key : Key} {sb : St} {v : Val} {rs : List (Option (List Dep))}
    (hs0 : s0.recs = some [] :: rs)
    (hc : cleanRun env fin0 f s0 ((env.types key.ty).prog key.id) = true)
    (hbody : eval env f s0 ((env.types key.ty).prog key.id) = (sb, .ok v))
    (hle : sb.Le fin) :
    reloadHit env fuel fin key = true ∧ reloadOut env fuel fin key = .ok v ∧ reloadDeps env fuel fin key = sb.top := by
  have hrep := clean_replay hS hfin f _ s0 [] rs v hs0 hc (by rw [hbody]) (by rw [hbody]; exact hle)
    fin.fresh [] (fun _ => rfl) rfl
  rw [hbody] at hrep
  obtain ⟨r1, r2, r3⟩ := hrep
  obtain ⟨g1, g2⟩ := hitRun_fuel env f fuel _ fin.fresh hf r1 (by rw [r2]; exact fun h => by cases h)
  refine ⟨g1, ?_, ?_⟩
  · unfold reloadOut; rw [reloadEval_eq]; simp only []; rw [g2, r2]
  · unfold reloadDeps; rw [reloadEval_eq]; simp only []; rw [g2, r3]

/-- **What a clean run adds to the channel and to the cache.** The channel after the run is the
channel before followed by registrations that are all good in the final cache `fin` (the asset is
cached there, holds what re-evaluating its loader returns, the message carries exactly what that
re-evaluation reads), and every key the run cached has one of them. -/
theorem clean_out {env : Env} (hS : env.Steady) (fuel : Nat) {fin0 fin : St}
    (hfin : ∀ k, fin0.lookup k = none → fin.lookup k = none) :
    ∀ (f : Nat) (p : Prog) (s : St), f ≤ fuel → cleanRun env fin0 f s p = true → (eval env f s p).1.Le fin →
    ∃ new : List Msg, (eval env f s p).1.out = s.out ++ new ∧
      (∀ m, m ∈ new → ∃ k D, m = .addAsset k D ∧ MsgGood env fuel fin k D) ∧
      (∀ k c, (eval env f s p).1.lookup k = some c → s.lookup k = some c ∨ ∃ D, Msg.addAsset k D ∈ new) := by
  intro f
  induction f with
  | zero =>
    intro p s _ _ _
    exact ⟨[], (List.append_nil _).symm, fun _ h => (by cases h), fun _ _ h => Or.inl h⟩
  | succ f ih =>
    intro p s hf hc hle
    have hf' : f ≤ fuel := by omega
    have base : ∃ new : List Msg, s.out = s.out ++ new ∧
        (∀ m, m ∈ new → ∃ k D, m = .addAsset k D ∧ MsgGood env fuel fin k D) ∧
        (∀ k c, s.lookup k = some c → s.lookup k = some c ∨ ∃ D, Msg.addAsset k D ∈ new) :=
      ⟨[], (List.append_nil _).symm, fun _ h => (by cases h), fun _ _ h => Or.inl h⟩
    cases p with
    | ret v => exact base
    | fail e => exact base
    | panic => exact base
    | read id ext k =>
      simp only [cleanRun, Bool.and_eq_true] at hc
      obtain ⟨hb, hc⟩ := hc
      simp only [eval, hb] at hle ⊢
      obtain ⟨new, i1, i2, i3⟩ := ih _ _ hf' hc hle
      refine ⟨new, by rw [i1]; exact congrArg (· ++ new) (St.record_out s true (.file id ext)), i2, fun x c hx => ?_⟩
      rcases i3 x c hx with h | h
      · exact Or.inl ((St.lookup_congr (St.record_map s true (.file id ext)) x).symm.trans h)
      · exact Or.inr h
    | readDir id k =>
      simp only [cleanRun, Bool.and_eq_true] at hc
      obtain ⟨hb, hc⟩ := hc
      simp only [eval, hb] at hle ⊢
      obtain ⟨new, i1, i2, i3⟩ := ih _ _ hf' hc hle
      refine ⟨new, by rw [i1]; exact congrArg (· ++ new) (St.record_out s true (.dir id)), i2, fun x c hx => ?_⟩
      rcases i3 x c hx with h | h
      · exact Or.inl ((St.lookup_congr (St.record_map s true (.dir id)) x).symm.trans h)
      · exact Or.inr h
    | getCached key k =>
      simp only [cleanRun, Bool.and_eq_true] at hc
      obtain ⟨⟨hb, _⟩, hc⟩ := hc
      simp only [eval, hb, St.record_lookup] at hle ⊢
      obtain ⟨new, i1, i2, i3⟩ := ih _ _ hf' hc hle
      refine ⟨new, by rw [i1]; exact congrArg (· ++ new) (St.record_out s true (.asset key)), i2, fun x c hx => ?_⟩
      rcases i3 x c hx with h | h
      · exact Or.inl ((St.record_lookup s true _ x).symm.trans h)
      · exact Or.inr h
    | tick k =>
      simp only [cleanRun] at hc
      simp only [eval] at hle ⊢
      exact ih _ _ hf' hc hle
    | load key k =>
      simp only [cleanRun, Bool.and_eq_true] at hc
      obtain ⟨hb, hc⟩ := hc
      cases hl : s.lookup key with
      | some c =>
        rw [hl] at hc
        simp only [] at hc
        rw [eval_load_hit env f s key k c hl, hb] at hle ⊢
        obtain ⟨new, i1, i2, i3⟩ := ih _ _ hf' hc hle
        refine ⟨new, by rw [i1]; exact congrArg (· ++ new) (St.record_out s true (.asset key)), i2, fun x c hx => ?_⟩
        rcases i3 x c hx with h | h
        · exact Or.inl ((St.record_lookup s true _ x).symm.trans h)
        · exact Or.inr h
      | none =>
        rw [hl] at hc
        simp only [Bool.and_eq_true] at hc
        obtain ⟨hcb, hc⟩ := hc
        have hout0 : (s.record true (.asset key)).enter.out = s.out := St.record_out s true _
        have hlk0 : ∀ x, (s.record true (.asset key)).enter.lookup x = s.lookup x := fun x => St.record_lookup s true _ x
        cases hbody : eval env f (s.record true (.asset key)).enter ((env.types key.ty).prog key.id) with
        | mk sb ob =>
          rw [hbody] at hc
          have ihb := ih ((env.types key.ty).prog key.id) (s.record true (.asset key)).enter hf' hcb
          rw [hbody] at ihb
          simp only [hout0, hlk0] at ihb
          cases ob with
          | ok v' =>
            simp only [] at hc
            rw [eval_load_miss_ok env f s key k hb hl hbody] at hle ⊢
            have hle1 : (St.leaveOk env key v' (s.record true (.asset key)).recs sb).Le fin :=
              (eval_mono env f _ _).trans hle
            have hsb : sb.Le fin := (leaveOk_le env key v' _ sb).trans hle1
            obtain ⟨newb, b1, b2, b3⟩ := ihb hsb
            obtain ⟨newc, c1, c2, c3⟩ := ih _ _ hf' hc hle
            have hs0 : (s.record true (.asset key)).enter.recs = some [] :: (s.record true (.asset key)).recs := rfl
            obtain ⟨p1, p2, p3⟩ := clean_body_replay hS hfin hf' hs0 hcb hbody hsb
            have hfk : fin.lookup key = some (St.survivor env key v' sb) :=
              hle1 key _ (leaveOk_lookup_self env key v' _ sb)
            -- the surviving entry holds the value the body returned
            have hval : (St.survivor env key v' sb).val = v' := by
              cases hsk : sb.lookup key with
              | none => unfold St.survivor; rw [hsk]; rfl
              | some c0 =>
                have hs : St.survivor env key v' sb = c0 := by unfold St.survivor; rw [hsk]; rfl
                rcases b3 key c0 hsk with h | ⟨D0, h⟩
                · rw [hl] at h; cases h
                · obtain ⟨k', D', e, c', hc', _, m2, _⟩ := b2 _ h
                  obtain ⟨ek, _⟩ := Msg.addAsset.inj e
                  subst ek
                  rw [hfk, hs] at hc'
                  have ec : c0 = c' := by simpa using hc'
                  subst ec
                  rw [p2] at m2
                  rw [hs]
                  exact (Outcome.ok.inj m2).symm
            have hgood : MsgGood env fuel fin key sb.top := ⟨_, hfk, p1, by rw [p2, hval], p3⟩
            refine ⟨newb ++ [.addAsset key sb.top] ++ newc, ?_, ?_, ?_⟩
            · rw [c1, leaveOk_out, b1]; simp only [List.append_assoc]
            · intro m hm
              rcases List.mem_append.mp hm with hm | hm
              · rcases List.mem_append.mp hm with hm | hm
                · exact b2 m hm
                · exact ⟨key, sb.top, List.mem_singleton.mp hm, hgood⟩
              · exact c2 m hm
            · intro x c hx
              rcases c3 x c hx with h | ⟨D, h⟩
              · by_cases hxk : x = key
                · subst hxk
                  exact Or.inr ⟨sb.top, List.mem_append_left _ (List.mem_append_right _ (List.mem_singleton.mpr rfl))⟩
                · rw [leaveOk_lookup_other env key v' _ sb x hxk] at h
                  rcases b3 x c h with h2 | ⟨D, h2⟩
                  · exact Or.inl h2
                  · exact Or.inr ⟨D, List.mem_append_left _ (List.mem_append_left _ h2)⟩
              · exact Or.inr ⟨D, List.mem_append_right _ h⟩
          | err e =>
            simp only [Bool.and_eq_true] at hc
            rw [eval_load_miss env f s key k hb hl, hbody] at hle ⊢
            simp only [] at hle ⊢
            have hsb : sb.Le fin :=
              (St.Le.of_map_eq (leaveErr_map (s.record true (.asset key)).recs sb)).trans ((eval_mono env f _ _).trans hle)
            obtain ⟨newb, b1, b2, b3⟩ := ihb hsb
            obtain ⟨newc, c1, c2, c3⟩ := ih _ _ hf' hc.1 hle
            refine ⟨newb ++ newc, ?_, ?_, ?_⟩
            · rw [c1, leaveErr_out, b1]; simp only [List.append_assoc]
            · intro m hm
              rcases List.mem_append.mp hm with hm | hm
              · exact b2 m hm
              · exact c2 m hm
            · intro x c hx
              rcases c3 x c hx with h | ⟨D, h⟩
              · rw [St.lookup_congr (leaveErr_map (s.record true (.asset key)).recs sb) x] at h
                rcases b3 x c h with h2 | ⟨D, h2⟩
                · exact Or.inl h2
                · exact Or.inr ⟨D, List.mem_append_left _ h2⟩
              · exact Or.inr ⟨D, List.mem_append_right _ h⟩
          | panicked =>
            rw [eval_load_miss env f s key k hb hl, hbody] at hle ⊢
            exact ihb ((St.Le.of_map_eq rfl).trans hle)
          | diverged =>
            rw [eval_load_miss env f s key k hb hl, hbody] at hle ⊢
            exact ihb ((St.Le.of_map_eq rfl).trans hle)
    | noRecord body k => simp only [cleanRun] at hc; cases hc
    | onThread body k => simp only [cleanRun] at hc; cases hc
    | tryCatch body k => simp only [cleanRun] at hc; cases hc
    | loadOwned key k => simp only [cleanRun] at hc; cases hc
    | getOrInsert key v' k => simp only [cleanRun] at hc; cases hc

/-- **Every registration of a clean run is good**: each `AddAsset` message the run adds to the channel
names an asset that is cached in the final cache `fin`, holds there what re-evaluating its loader
returns, and carries exactly what that re-evaluation reads. -/
theorem clean_msgs {env : Env} (hS : env.Steady) (fuel : Nat) {fin0 fin : St}
    (hfin : ∀ k, fin0.lookup k = none → fin.lookup k = none) :
    ∀ (f : Nat) (p : Prog) (s : St), f ≤ fuel → cleanRun env fin0 f s p = true → (eval env f s p).1.Le fin →
    ∀ m, m ∈ (eval env f s p).1.out → m ∈ s.out ∨ ∃ k D, m = .addAsset k D ∧ MsgGood env fuel fin k D := by
  intro f p s hf hc hle m hm
  obtain ⟨new, h1, h2, _⟩ := clean_out hS fuel hfin f p s hf hc hle
  rw [h1] at hm
  rcases List.mem_append.mp hm with h | h
  · exact Or.inl h
  · exact Or.inr (h2 m h)

/-- A clean run keeps the messages of the channel, and sends an `AddAsset` for every key it caches. -/
theorem clean_registers {env : Env} (hS : env.Steady) (fuel : Nat) {fin0 fin : St}
    (hfin : ∀ k, fin0.lookup k = none → fin.lookup k = none) :
    ∀ (f : Nat) (p : Prog) (s : St), f ≤ fuel → cleanRun env fin0 f s p = true → (eval env f s p).1.Le fin →
    (∀ m, m ∈ s.out → m ∈ (eval env f s p).1.out) ∧
    (∀ k c, (eval env f s p).1.lookup k = some c → s.lookup k = some c ∨ ∃ D, Msg.addAsset k D ∈ (eval env f s p).1.out) := by
  intro f p s hf hc hle
  obtain ⟨new, h1, _, h3⟩ := clean_out hS fuel hfin f p s hf hc hle
  rw [h1]
  refine ⟨fun m hm => List.mem_append_left _ hm, fun k c hk => ?_⟩
  rcases h3 k c hk with h | ⟨D, h⟩
  · exact Or.inl h
  · exact Or.inr ⟨D, List.mem_append_right _ h⟩

/-! ## `Settled` through the registrations, and for the assets cached before -/

theorem SettledAt.of_deps_eq {env : Env} {fuel : Nat} {s : St} {n n' : GNode} {k : Key} {c : Cell}
    (h : SettledAt env fuel s n k c) (e : n.deps = n'.deps) : SettledAt env fuel s n' k c :=
  ⟨h.hit, by rw [← e]; exact h.res⟩

/-- `Settled` depends on the cache only through its map. -/
theorem settled_congr {env : Env} (hS : env.Steady) {fuel : Nat} {s t : St} {g : Graph}
    (h : ∀ k, t.lookup k = s.lookup k) (hs : Settled env fuel s g) : Settled env fuel t g := by
  intro k node c hg ht hc hd
  rw [h k] at hc
  exact ((hs k node c hg ht hc hd).transfer hS hS (SameLoaders.refl hS)
    (fun d _ => agreeOn_same_env (fun y _ => h y)) (c' := c) (node' := node) rfl rfl).1

/-- `Settled`, except for the keys that have a registration pending in `msgs` -/
def SettledBut (env : Env) (fuel : Nat) (t : St) (g : Graph) (msgs : List Msg) : Prop :=
  ∀ k node c, g.get (.asset k) = some node → node.typed = true → t.lookup k = some c → c.dyn = true →
    SettledAt env fuel t node k c ∨ ∃ D, Msg.addAsset k D ∈ msgs

/-- what the reloader does with the messages of the channel (`processMsgs`) -/
def drain (msgs : List Msg) (r : RSt) : RSt :=
  msgs.foldl (fun r m =>
    match m with
    | .addAsset key deps => { r with graph := r.graph.insertAsset (.asset key) deps }
    | .clear => { r with toReload := [] }) r

theorem processMsgs_eq (s : St) (r : RSt) : processMsgs s r = ({ s with out := [] }, drain s.out r) := rfl

/-- registering a good message settles its key and leaves the others alone -/
theorem settledBut_insert {env : Env} {fuel : Nat} {t : St} {g : Graph} {k : Key} {D : List Dep} {ms : List Msg}
    (h : SettledBut env fuel t g (.addAsset k D :: ms)) (hk : MsgGood env fuel t k D) :
    SettledBut env fuel t (g.insertAsset (.asset k) D) ms := by
  intro x node' c hg' ht' hc' hd'
  by_cases hxk : x = k
  · subst hxk
    obtain ⟨n', hn', _, hnd'⟩ := insertAsset_get_self g (.asset x) D
    rw [hn'] at hg'
    have en : n' = node' := by simpa using hg'
    subst en
    obtain ⟨c0, hc0, m1, m2, m3⟩ := hk
    rw [hc0] at hc'
    have ec : c0 = c := by simpa using hc'
    subst ec
    exact Or.inl ⟨m1, Or.inl ⟨m2, fun d => by rw [m3, hnd']⟩⟩
  · have hne : Dep.asset x ≠ Dep.asset k := fun e => hxk (Dep.asset.inj e)
    rcases insertAsset_get_ne hne hg' with ⟨n, hn, hnt, hnd'⟩ | ⟨_, hf, _⟩
    · rcases h x n c hn (hnt.trans ht') hc' hd' with h1 | ⟨D', h1⟩
      · exact Or.inl (h1.of_deps_eq hnd')
      · rcases List.mem_cons.mp h1 with e | e
        · exact absurd (Msg.addAsset.inj e).1 hxk
        · exact Or.inr ⟨D', e⟩
    · rw [hf] at ht'; cases ht'

/-- draining a channel of good registrations: everything registered and cached is settled -/
theorem settledBut_drain {env : Env} {fuel : Nat} {t : St} :
    ∀ (msgs : List Msg) (r : RSt), (∀ m, m ∈ msgs → ∃ k D, m = .addAsset k D ∧ MsgGood env fuel t k D) →
    SettledBut env fuel t r.graph msgs → Settled env fuel t (drain msgs r).graph := by
  intro msgs
  induction msgs with
  | nil =>
    intro r _ h k node c hg ht hc hd
    rcases h k node c hg ht hc hd with h1 | ⟨_, h1⟩
    · exact h1
    · cases h1
  | cons m ms ih =>
    intro r hm h
    obtain ⟨k, D, e, hk⟩ := hm m List.mem_cons_self
    subst e
    exact ih { r with graph := r.graph.insertAsset (.asset k) D } (fun m' h' => hm m' (List.mem_cons_of_mem _ h'))
      (settledBut_insert h hk)

/-- the load fills no key that a registered, cached, dynamic asset depends on while it is absent
(an asset that probed such a key with `get_cached` would see another answer now) -/
def NoProbedKeyFilled (s t : St) (g : Graph) : Prop :=
  ∀ k node c, g.get (.asset k) = some node → node.typed = true → s.lookup k = some c → c.dyn = true →
    ∀ y, Dep.asset y ∈ node.deps → s.lookup y = none → t.lookup y = none

/-- the assets that were cached and settled before stay settled in every extension of the cache
that fills none of the keys they probed in vain -/
theorem settled_keep {env : Env} (hS : env.Steady) {fuel : Nat} {s t : St} {g : Graph}
    (hset : Settled env fuel s g) (hle : s.Le t) (hfill : NoProbedKeyFilled s t g)
    {k : Key} {node : GNode} {c : Cell} (hg : g.get (.asset k) = some node) (ht : node.typed = true)
    (hc : s.lookup k = some c) (hd : c.dyn = true) : SettledAt env fuel t node k c := by
  have h0 := hset k node c hg ht hc hd
  refine (h0.transfer hS hS (SameLoaders.refl hS) (fun d hdd => agreeOn_same_env (fun y e => ?_))
    (c' := c) (node' := node) rfl rfl).1
  subst e
  cases hy : s.lookup y with
  | some cy => exact hle y cy hy
  | none => exact hfill k node c hg ht hc hd y (h0.deps_sub _ hdd) hy

/-! ## One load -/

/-- **A top-level evaluation establishes and preserves `Settled`.** `s`: the cache, channel drained;
`r`: the reloader's data; everything registered and cached is settled. After a clean loading run of
`p` from the API (empty recording stack) and after the reloader has taken the registrations the run
sent, everything registered and cached is settled again — the assets cached before (untouched:
`eval_mono`; what they read did not change) and every asset the run cached on the way (each holds
what re-evaluating its loader returns, registered with exactly what that re-evaluation reads). -/
theorem evalTop_settles {env : Env} (hS : env.Steady) {fuel : Nat} {s : St} {r : RSt} (p : Prog)
    (hout : s.out = []) (hset : Settled env fuel s r.graph)
    (hclean : cleanRun env (evalTop env fuel s p).1 fuel { s with recs := [] } p = true)
    (hfill : NoProbedKeyFilled s (evalTop env fuel s p).1 r.graph) :
    Settled env fuel (processMsgs (evalTop env fuel s p).1 r).1 (processMsgs (evalTop env fuel s p).1 r).2.graph ∧
    (processMsgs (evalTop env fuel s p).1 r).1.out = [] := by
  refine ⟨?_, rfl⟩
  rw [processMsgs_eq]
  -- the raw final state of the evaluation
  generalize hfin : (eval env fuel { s with recs := [] } p).1 = fin
  have hlk : ∀ k, (evalTop env fuel s p).1.lookup k = fin.lookup k := fun k => by rw [← hfin]; rfl
  have houtE : (evalTop env fuel s p).1.out = fin.out := by rw [← hfin]; rfl
  have hle0 : St.Le { s with recs := [] } fin := by rw [← hfin]; exact eval_mono env fuel _ p
  have hle : s.Le fin := (St.Le.of_map_eq (s := s) (t := { s with recs := [] }) rfl).trans hle0
  have hfin0 : ∀ k, (evalTop env fuel s p).1.lookup k = none → fin.lookup k = none := fun k h => by rw [← hlk k]; exact h
  have hmsgs := clean_msgs hS fuel hfin0 fuel p { s with recs := [] } (Nat.le_refl _) hclean
    (by rw [hfin]; exact St.Le.refl fin)
  obtain ⟨_, hreg⟩ := clean_registers hS fuel hfin0 fuel p { s with recs := [] } (Nat.le_refl _) hclean
    (by rw [hfin]; exact St.Le.refl fin)
  rw [hfin] at hmsgs hreg
  refine settled_congr hS (s := fin) (fun k => hlk k) ?_
  rw [houtE]
  refine settledBut_drain fin.out r (fun m hm => ?_) ?_
  · rcases hmsgs m hm with h | h
    · rw [show St.out { s with recs := [] } = s.out from rfl, hout] at h; cases h
    · exact h
  · intro k node c hg ht hc hd
    rcases hreg k c hc with h | h
    · refine Or.inl (settled_keep hS hset hle ?_ hg ht h hd)
      intro k' node' c' hg' ht' hc' hd' y hy hn
      rw [← hlk y]; exact hfill k' node' c' hg' ht' hc' hd' y hy hn
    · exact Or.inr h

/-- the named hypothesis of `load_settles` on the load itself: the evaluation `load(key)` performs
from the API is a clean loading run (see `cleanRun`: no absorbed failure, no `get_cached` probe of a
key that is cached before the load returns) -/
def CleanLoad (env : Env) (fuel : Nat) (s : St) (key : Key) : Prop :=
  cleanRun env (step env fuel s (.load key)).1 fuel { s with recs := [] } (.load key Prog.ret') = true

/-- **One API load establishes and preserves `Settled`.** Whatever the load returns (a handle, an
error, a panic, exhausted fuel): after the load and after the reloader has taken the registrations
it sent, every registered, cached, dynamic asset — the ones cached before and all the ones the load
cached on the way — holds what re-evaluating its loader returns, and its node holds exactly what that
re-evaluation reads. No hypothesis on the fuel: a re-evaluation after the load only hits, so it
returns within the fuel the load had (`hitRun_fuel`). -/
theorem load_settles {env : Env} (hS : env.Steady) {fuel : Nat} {s : St} {r : RSt} (key : Key)
    (hout : s.out = []) (hset : Settled env fuel s r.graph)
    (hclean : CleanLoad env fuel s key)
    (hfill : NoProbedKeyFilled s (step env fuel s (.load key)).1 r.graph) :
    Settled env fuel (processMsgs (step env fuel s (.load key)).1 r).1 (processMsgs (step env fuel s (.load key)).1 r).2.graph ∧
    (processMsgs (step env fuel s (.load key)).1 r).1.out = [] := by
  unfold CleanLoad at hclean
  rw [step_load_fst] at hclean hfill ⊢
  exact evalTop_settles hS _ hout hset hclean hfill

/-! ## Loads without an intervening drain -/

/-- a good registration stays good in every extension of the cache that fills none of the keys the
asset probed in vain -/
theorem MsgGood.keep {env : Env} (hS : env.Steady) {fuel : Nat} {s t : St} {k : Key} {D : List Dep}
    (h : MsgGood env fuel s k D) (hle : s.Le t)
    (hfill : ∀ y, Dep.asset y ∈ D → s.lookup y = none → t.lookup y = none) : MsgGood env fuel t k D := by
  obtain ⟨c, hc, m1, m2, m3⟩ := h
  obtain ⟨r1, r2, r3⟩ := reloadEval_readset hS hS (SameLoaders.refl hS) fuel s t k m1
    (fun d hd => agreeOn_same_env (fun y e => by
      subst e
      cases hy : s.lookup y with
      | some cy => exact hle y cy hy
      | none => exact hfill y (by rw [← m3]; exact hd) hy))
  exact ⟨c, hle k c hc, r1, by rw [r2, m2], by rw [r3, m3]⟩

/-- the state of a cache with its reloader between two drains: every pending registration is good,
and everything registered and cached is settled unless a registration for it is pending -/
structure Pending (env : Env) (fuel : Nat) (s : St) (g : Graph) : Prop where
  good : ∀ m, m ∈ s.out → ∃ k D, m = .addAsset k D ∧ MsgGood env fuel s k D
  but : SettledBut env fuel s g s.out

theorem Pending.of_settled {env : Env} {fuel : Nat} {s : St} {g : Graph} (hout : s.out = [])
    (h : Settled env fuel s g) : Pending env fuel s g :=
  ⟨fun m hm => (by rw [hout] at hm; cases hm), fun k node c hg ht hc hd => Or.inl (h k node c hg ht hc hd)⟩

/-- draining the channel: `Settled` -/
theorem Pending.drain {env : Env} (hS : env.Steady) {fuel : Nat} {s : St} {r : RSt} (h : Pending env fuel s r.graph) :
    Settled env fuel (processMsgs s r).1 (processMsgs s r).2.graph := by
  rw [processMsgs_eq]
  exact settled_congr hS (s := s) (fun _ => rfl) (settledBut_drain s.out r h.good h.but)

/-- the load fills no key that a pending registration lists while it is absent -/
def NoPendingKeyFilled (s t : St) : Prop :=
  ∀ k D, Msg.addAsset k D ∈ s.out → ∀ y, Dep.asset y ∈ D → s.lookup y = none → t.lookup y = none

/-- **A clean top-level evaluation keeps `Pending`** (the channel need not be drained before). -/
theorem evalTop_pending {env : Env} (hS : env.Steady) {fuel : Nat} {s : St} {g : Graph} (p : Prog)
    (hp : Pending env fuel s g)
    (hclean : cleanRun env (evalTop env fuel s p).1 fuel { s with recs := [] } p = true)
    (hfill : NoProbedKeyFilled s (evalTop env fuel s p).1 g)
    (hfillM : NoPendingKeyFilled s (evalTop env fuel s p).1) :
    Pending env fuel (evalTop env fuel s p).1 g := by
  generalize hfin : (eval env fuel { s with recs := [] } p).1 = fin
  have hlk : ∀ k, (evalTop env fuel s p).1.lookup k = fin.lookup k := fun k => by rw [← hfin]; rfl
  have houtE : (evalTop env fuel s p).1.out = fin.out := by rw [← hfin]; rfl
  have hle0 : St.Le { s with recs := [] } fin := by rw [← hfin]; exact eval_mono env fuel _ p
  have hle : s.Le fin := (St.Le.of_map_eq (s := s) (t := { s with recs := [] }) rfl).trans hle0
  have hleE : s.Le (evalTop env fuel s p).1 := fun k c h => (hlk k).trans (hle k c h)
  have hfin0 : ∀ k, (evalTop env fuel s p).1.lookup k = none → fin.lookup k = none := fun k h => by rw [← hlk k]; exact h
  have hmsgs := clean_msgs hS fuel hfin0 fuel p { s with recs := [] } (Nat.le_refl _) hclean
    (by rw [hfin]; exact St.Le.refl fin)
  obtain ⟨hkeepm, hreg⟩ := clean_registers hS fuel hfin0 fuel p { s with recs := [] } (Nat.le_refl _) hclean
    (by rw [hfin]; exact St.Le.refl fin)
  rw [hfin] at hmsgs hreg hkeepm
  have hgoodE : ∀ k D, MsgGood env fuel fin k D → MsgGood env fuel (evalTop env fuel s p).1 k D :=
    fun k D h => h.keep hS (fun k c hc => (hlk k).trans hc) (fun y _ hy => (hlk y).trans hy)
  constructor
  · intro m hm
    rw [houtE] at hm
    rcases hmsgs m hm with h | ⟨k, D, e, h⟩
    · obtain ⟨k, D, e, hk⟩ := hp.good m h
      subst e
      exact ⟨k, D, rfl, hk.keep hS hleE (hfillM k D h)⟩
    · exact ⟨k, D, e, hgoodE k D h⟩
  · intro k node c hg ht hc hd
    rw [houtE]
    rw [hlk k] at hc
    rcases hreg k c hc with h | h
    · rcases hp.but k node c hg ht h hd with h1 | ⟨D, h1⟩
      · have hag : ∀ d ∈ reloadDeps env fuel s k, AgreeOn env env s (evalTop env fuel s p).1 d := by
          intro d hdd
          refine agreeOn_same_env (fun y e => ?_)
          subst e
          cases hy : s.lookup y with
          | some cy => exact hleE y cy hy
          | none => exact hfill k node c hg ht h hd y (h1.deps_sub _ hdd) hy
        exact Or.inl (h1.transfer hS hS (SameLoaders.refl hS) hag (c' := c) (node' := node) rfl rfl).1
      · exact Or.inr ⟨D, hkeepm _ h1⟩
    · exact Or.inr h

/-- the named hypotheses on one load of a history -/
structure LoadOK (env : Env) (fuel : Nat) (s : St) (r : RSt) (key : Key) : Prop where
  clean : CleanLoad env fuel s key
  noFill : NoProbedKeyFilled s (step env fuel s (.load key)).1 r.graph
  noFillPending : NoPendingKeyFilled s (step env fuel s (.load key)).1

theorem load_pending {env : Env} (hS : env.Steady) {fuel : Nat} {s : St} {r : RSt} (key : Key)
    (hp : Pending env fuel s r.graph) (hok : LoadOK env fuel s r key) :
    Pending env fuel (step env fuel s (.load key)).1 r.graph := by
  obtain ⟨h1, h2, h3⟩ := hok
  unfold CleanLoad at h1
  rw [step_load_fst] at h1 h2 h3 ⊢
  exact evalTop_pending hS _ hp h1 h2 h3


/-- `Pending` is kept by every step that only adds static entries to the cache and leaves the channel
alone, provided it fills no key that a registered asset or a pending registration probed in vain -/
theorem Pending.extend_static {env : Env} (hS : env.Steady) {fuel : Nat} {s t : St} {g : Graph}
    (hp : Pending env fuel s g) (hle : s.Le t) (hout : t.out = s.out)
    (hnew : ∀ k c, t.lookup k = some c → s.lookup k = some c ∨ c.dyn = false)
    (hfill : NoProbedKeyFilled s t g) (hfillM : NoPendingKeyFilled s t) : Pending env fuel t g := by
  constructor
  · intro m hm
    rw [hout] at hm
    obtain ⟨k, D, e, hk⟩ := hp.good m hm
    subst e
    exact ⟨k, D, rfl, hk.keep hS hle (hfillM k D hm)⟩
  · intro k node c hg ht hc hd
    rw [hout]
    rcases hnew k c hc with h | h
    · rcases hp.but k node c hg ht h hd with h1 | h1
      · have hag : ∀ d ∈ reloadDeps env fuel s k, AgreeOn env env s t d := by
          intro d hdd
          refine agreeOn_same_env (fun y e => ?_)
          subst e
          cases hy : s.lookup y with
          | some cy => exact hle y cy hy
          | none => exact hfill k node c hg ht h hd y (h1.deps_sub _ hdd) hy
        exact Or.inl (h1.transfer hS hS (SameLoaders.refl hS) hag (c' := c) (node' := node) rfl rfl).1
      · exact Or.inr h1
    · rw [h] at hd; cases hd

/-- `get_or_insert`: the channel is left alone, the cache grows by at most one static entry -/
theorem step_getOrInsert_facts (env : Env) (fuel : Nat) (s : St) (key : Key) (v : Val) :
    s.Le (step env fuel s (.getOrInsert key v)).1 ∧ (step env fuel s (.getOrInsert key v)).1.out = s.out ∧
    ∀ k c, (step env fuel s (.getOrInsert key v)).1.lookup k = some c → s.lookup k = some c ∨ c.dyn = false := by
  simp only [step]
  cases hl : s.lookup key with
  | some c0 => exact ⟨St.Le.of_map_eq rfl, rfl, fun k c h => Or.inl h⟩
  | none =>
    simp only []
    refine ⟨(St.insertKeepFirst_le s key _).trans (St.Le.of_map_eq rfl), ?_, ?_⟩
    · rw [St.own_out]; exact St.insertKeepFirst_out s key _
    · intro k c h
      have h' : (s.insertKeepFirst key (insertedCell env key v s.next)).1.lookup k = some c := h
      by_cases hk : k = key
      · subst hk
        rw [(insertKeepFirst_fresh s k (insertedCell env k v s.next) hl).2] at h'
        right
        rw [← Option.some.inj h']
        show insertedEntryDynamic (env.types k.ty).hot env.hasReloader = false
        unfold insertedEntryDynamic entryDynamic
        exact Bool.and_false _
      · left
        rw [St.insertKeepFirst_other s key k _ hk] at h'
        exact h'


/-- nothing registered and cached, and no registration still in the channel, depends on `key` (or is
for `key`): what `remove` / `take` of `key` needs to keep everything else settled -/
def NoDependentOn (s : St) (g : Graph) (key : Key) : Prop :=
  (∀ k node c, g.get (.asset k) = some node → node.typed = true → s.lookup k = some c → c.dyn = true → k ≠ key →
    Dep.asset key ∉ node.deps) ∧
  (∀ k D, Msg.addAsset k D ∈ s.out → k ≠ key ∧ Dep.asset key ∉ D)

/-- `Pending` is kept when the entry of `key` leaves the cache, provided nothing depends on it -/
theorem Pending.remove {env : Env} (hS : env.Steady) {fuel : Nat} {s t : St} {g : Graph} {key : Key}
    (hp : Pending env fuel s g) (hout : t.out = s.out)
    (hother : ∀ k, k ≠ key → t.lookup k = s.lookup k) (hkey : t.lookup key = none)
    (hdep : NoDependentOn s g key) : Pending env fuel t g := by
  constructor
  · intro m hm
    rw [hout] at hm
    obtain ⟨k, D, e, c, hc, m1, m2, m3⟩ := hp.good m hm
    subst e
    obtain ⟨hk, hD⟩ := hdep.2 k D hm
    obtain ⟨r1, r2, r3⟩ := reloadEval_readset hS hS (SameLoaders.refl hS) fuel s t k m1
      (fun d hd => agreeOn_same_env (fun y e => by
        subst e
        exact hother y (fun e2 => hD (by rw [← e2, ← m3]; exact hd))))
    exact ⟨k, D, rfl, c, (hother k hk).trans hc, r1, by rw [r2, m2], by rw [r3, m3]⟩
  · intro k node c hg ht hc hd
    rw [hout]
    have hk : k ≠ key := fun e => by rw [e, hkey] at hc; cases hc
    rw [hother k hk] at hc
    rcases hp.but k node c hg ht hc hd with h1 | h1
    · have hag : ∀ d ∈ reloadDeps env fuel s k, AgreeOn env env s t d := by
        intro d hdd
        refine agreeOn_same_env (fun y e => ?_)
        subst e
        exact hother y (fun e2 => hdep.1 k node c hg ht hc hd hk (by rw [← e2]; exact h1.deps_sub _ hdd))
      exact Or.inl (h1.transfer hS hS (SameLoaders.refl hS) hag (c' := c) (node' := node) rfl rfl).1
    · exact Or.inr h1

theorem step_remove_facts (env : Env) (fuel : Nat) (s : St) (key : Key) :
    (step env fuel s (.remove key)).1.out = s.out ∧
    (∀ k, k ≠ key → (step env fuel s (.remove key)).1.lookup k = s.lookup k) ∧
    (step env fuel s (.remove key)).1.lookup key = none := by
  refine ⟨rfl, fun k hk => ?_, ?_⟩
  · simp only [step, St.release_lookup]; rw [lookup_removed]; simp [hk]
  · simp only [step, St.release_lookup]; rw [lookup_removed]; simp

theorem step_take_facts (env : Env) (fuel : Nat) (s : St) (key : Key) :
    (step env fuel s (.take key)).1.out = s.out ∧
    (∀ k, k ≠ key → (step env fuel s (.take key)).1.lookup k = s.lookup k) ∧
    (step env fuel s (.take key)).1.lookup key = none := by
  refine ⟨rfl, fun k hk => ?_, ?_⟩
  · simp only [step, St.release_lookup]; rw [lookup_removed]; simp [hk]
  · simp only [step, St.release_lookup]; rw [lookup_removed]; simp

/-! ## Histories of loads and `hot_reload`s -/

theorem drain_dead (msgs : List Msg) (r : RSt) : (drain msgs r).dead = r.dead := by
  unfold drain
  induction msgs generalizing r with
  | nil => rfl
  | cons m ms ih => simp only [List.foldl]; rw [ih]; cases m <;> rfl

theorem drain_static (msgs : List Msg) (r : RSt) : (drain msgs r).static_ = r.static_ := by
  unfold drain
  induction msgs generalizing r with
  | nil => rfl
  | cons m ms ih => simp only [List.foldl]; rw [ih]; cases m <;> rfl

theorem drain_toReload_nil (msgs : List Msg) (r : RSt) (h : r.toReload = []) : (drain msgs r).toReload = [] := by
  unfold drain
  induction msgs generalizing r with
  | nil => exact h
  | cons m ms ih =>
    simp only [List.foldl]
    apply ih
    cases m with
    | addAsset k D => exact h
    | clear => rfl

theorem topo_nil (g : Graph) (fuel : Nat) : topo g fuel [] = some [] := rfl

theorem runUpdate_idle (env : Env) (fuel : Nat) (s : St) (r : RSt) (h : r.toReload = []) :
    runUpdate env fuel s r = (s, { r with toReload := [] }) := by
  unfold runUpdate
  rw [h, topo_nil]
  rfl

theorem hotReload_eq (env : Env) (fuel : Nat) (s : St) (r : RSt) (hd : r.dead = false) :
    hotReload env fuel s r =
      if (drain s.out r).static_ then ({ s with out := [] }, drain s.out r)
      else processMsgs (runUpdate env fuel { s with out := [] } (drain s.out r)).1
             (runUpdate env fuel { s with out := [] } (drain s.out r)).2 := by
  unfold hotReload
  simp only [hd, Bool.false_eq_true, if_false]
  rfl

/-- `hot_reload()` with no event pending: the reloader takes the registrations, nothing else happens -/
theorem hotReload_idle (env : Env) (fuel : Nat) (s : St) (r : RSt) (hd : r.dead = false) (ht : r.toReload = []) :
    (hotReload env fuel s r).1 = (processMsgs s r).1 ∧ (hotReload env fuel s r).2.graph = (processMsgs s r).2.graph ∧
    (hotReload env fuel s r).2.dead = false ∧ (hotReload env fuel s r).2.toReload = [] ∧
    (hotReload env fuel s r).2.static_ = r.static_ := by
  have h1 : (drain s.out r).dead = false := (drain_dead _ _).trans hd
  have h2 : (drain s.out r).toReload = [] := drain_toReload_nil _ _ ht
  have h3 := drain_static s.out r
  rw [hotReload_eq env fuel s r hd, processMsgs_eq]
  cases hst : (drain s.out r).static_ with
  | true =>
    simp only [if_true]
    exact ⟨rfl, rfl, h1, h2, by rw [← h3, hst]⟩
  | false =>
    simp only [Bool.false_eq_true, if_false]
    rw [runUpdate_idle env fuel _ _ h2, processMsgs_eq]
    exact ⟨rfl, rfl, h1, rfl, by rw [← h3]; rfl⟩

/-- invariant of the histories of loads and `hot_reload`s -/
structure HInv (env : Env) (fuel : Nat) (x : St × RSt) : Prop where
  pending : Pending env fuel x.1 x.2.graph
  live : x.2.dead = false
  idle : x.2.toReload = []
  local_ : x.2.static_ = false

theorem HInv.init (env : Env) (fuel : Nat) : HInv env fuel ({}, {}) :=
  ⟨Pending.of_settled rfl (fun _ _ _ h => by cases h), rfl, rfl, rfl⟩

/-- a `hot_reload` step: afterwards the channel is drained and everything is settled -/
theorem HInv.step_hotReload {env : Env} (hS : env.Steady) {fuel : Nat} {x : St × RSt} (h : HInv env fuel x) :
    Settled env fuel (hstep fuel (env, .hotReload) x).1 (hstep fuel (env, .hotReload) x).2.graph ∧
    (hstep fuel (env, .hotReload) x).1.out = [] ∧ HInv env fuel (hstep fuel (env, .hotReload) x) := by
  obtain ⟨s, r⟩ := x
  obtain ⟨e1, e2, e3, e4, e5⟩ := hotReload_idle env fuel s r h.live h.idle
  have hset : Settled env fuel (hotReload env fuel s r).1 (hotReload env fuel s r).2.graph := by
    rw [e1, e2]; exact h.pending.drain hS
  have hout : (hotReload env fuel s r).1.out = [] := by rw [e1]; rfl
  exact ⟨hset, hout, ⟨Pending.of_settled hout hset, e3, e4, e5.trans h.local_⟩⟩

theorem HInv.step_load {env : Env} (hS : env.Steady) {fuel : Nat} {s : St} {r : RSt} (h : HInv env fuel (s, r))
    {key : Key} (hok : LoadOK env fuel s r key) : HInv env fuel (hstep fuel (env, .api (.load key)) (s, r)) :=
  ⟨load_pending hS key h.pending hok, h.live, h.idle, h.local_⟩

theorem HInv.step_insert {env : Env} (hS : env.Steady) {fuel : Nat} {s : St} {r : RSt} (h : HInv env fuel (s, r))
    {key : Key} {v : Val}
    (hfill : NoProbedKeyFilled s (step env fuel s (.getOrInsert key v)).1 r.graph)
    (hfillM : NoPendingKeyFilled s (step env fuel s (.getOrInsert key v)).1) :
    HInv env fuel (hstep fuel (env, .api (.getOrInsert key v)) (s, r)) := by
  obtain ⟨f1, f2, f3⟩ := step_getOrInsert_facts env fuel s key v
  exact ⟨h.pending.extend_static hS f1 f2 f3 hfill hfillM, h.live, h.idle, h.local_⟩

theorem HInv.step_remove {env : Env} (hS : env.Steady) {fuel : Nat} {s : St} {r : RSt} (h : HInv env fuel (s, r))
    {key : Key} (hdep : NoDependentOn s r.graph key) :
    HInv env fuel (hstep fuel (env, .api (.remove key)) (s, r)) := by
  obtain ⟨f1, f2, f3⟩ := step_remove_facts env fuel s key
  exact ⟨h.pending.remove hS f1 f2 f3 hdep, h.live, h.idle, h.local_⟩

theorem HInv.step_take {env : Env} (hS : env.Steady) {fuel : Nat} {s : St} {r : RSt} (h : HInv env fuel (s, r))
    {key : Key} (hdep : NoDependentOn s r.graph key) :
    HInv env fuel (hstep fuel (env, .api (.take key)) (s, r)) := by
  obtain ⟨f1, f2, f3⟩ := step_take_facts env fuel s key
  exact ⟨h.pending.remove hS f1 f2 f3 hdep, h.live, h.idle, h.local_⟩

/-- The histories of statement 2: `load`s and `hot_reload`s under one environment, every load
satisfying the named hypotheses `LoadOK` in the state it starts from. -/
inductive LoadHist (env : Env) (fuel : Nat) : List (Env × HOp) → St × RSt → Prop
  | nil (x : St × RSt) : LoadHist env fuel [] x
  | load (key : Key) (rest : List (Env × HOp)) (s : St) (r : RSt) :
      LoadOK env fuel s r key → LoadHist env fuel rest (hstep fuel (env, .api (.load key)) (s, r)) →
      LoadHist env fuel ((env, .api (.load key)) :: rest) (s, r)
  | hotReload (rest : List (Env × HOp)) (x : St × RSt) :
      LoadHist env fuel rest (hstep fuel (env, .hotReload) x) → LoadHist env fuel ((env, .hotReload) :: rest) x
  /-- `get_or_insert`: a static entry; it must not fill a key that was probed in vain -/
  | insert (key : Key) (v : Val) (rest : List (Env × HOp)) (s : St) (r : RSt) :
      NoProbedKeyFilled s (step env fuel s (.getOrInsert key v)).1 r.graph →
      NoPendingKeyFilled s (step env fuel s (.getOrInsert key v)).1 →
      LoadHist env fuel rest (hstep fuel (env, .api (.getOrInsert key v)) (s, r)) →
      LoadHist env fuel ((env, .api (.getOrInsert key v)) :: rest) (s, r)
  /-- `remove` of a key nothing registered (or pending) depends on -/
  | remove (key : Key) (rest : List (Env × HOp)) (s : St) (r : RSt) :
      NoDependentOn s r.graph key → LoadHist env fuel rest (hstep fuel (env, .api (.remove key)) (s, r)) →
      LoadHist env fuel ((env, .api (.remove key)) :: rest) (s, r)
  /-- `take` of a key nothing registered (or pending) depends on -/
  | take (key : Key) (rest : List (Env × HOp)) (s : St) (r : RSt) :
      NoDependentOn s r.graph key → LoadHist env fuel rest (hstep fuel (env, .api (.take key)) (s, r)) →
      LoadHist env fuel ((env, .api (.take key)) :: rest) (s, r)
  /-- an API operation that leaves the cache as it is (`get_cached`, `contains`) -/
  | look (op : Op) (rest : List (Env × HOp)) (x : St × RSt) :
      (step env fuel x.1 op).1 = x.1 → LoadHist env fuel rest x → LoadHist env fuel ((env, .api op) :: rest) x

/-- **Histories of loads and `hot_reload`s**: the invariant holds at the end, and after every
`hot_reload` step of the history the channel is drained and everything registered and cached is settled. -/
theorem loads_settle {env : Env} (hS : env.Steady) {fuel : Nat} {h : List (Env × HOp)} {x : St × RSt}
    (hh : LoadHist env fuel h x) (hx : HInv env fuel x) :
    HInv env fuel (runH fuel h x) ∧
    ∀ h1 h2, h = h1 ++ (env, .hotReload) :: h2 →
      Settled env fuel (runH fuel (h1 ++ [(env, .hotReload)]) x).1 (runH fuel (h1 ++ [(env, .hotReload)]) x).2.graph ∧
      (runH fuel (h1 ++ [(env, .hotReload)]) x).1.out = [] := by
  induction hh with
  | nil x => exact ⟨hx, fun h1 h2 e => by cases h1 <;> cases e⟩
  | load key rest s r hok _ ih =>
    obtain ⟨i1, i2⟩ := ih (hx.step_load hS hok)
    refine ⟨i1, fun h1 h2 e => ?_⟩
    cases h1 with
    | nil => simp only [List.nil_append, List.cons.injEq, Prod.mk.injEq] at e; cases e.1.2
    | cons a h1' =>
      simp only [List.cons_append, List.cons.injEq] at e
      obtain ⟨ea, er⟩ := e
      subst ea
      exact i2 h1' h2 er
  | insert key v rest s r h1' h2' _ ih =>
    obtain ⟨i1, i2⟩ := ih (hx.step_insert hS h1' h2')
    refine ⟨i1, fun h1 h2 e => ?_⟩
    cases h1 with
    | nil => simp only [List.nil_append, List.cons.injEq, Prod.mk.injEq] at e; cases e.1.2
    | cons a h1' =>
      simp only [List.cons_append, List.cons.injEq] at e
      obtain ⟨ea, er⟩ := e
      subst ea
      exact i2 h1' h2 er
  | remove key rest s r hd _ ih =>
    obtain ⟨i1, i2⟩ := ih (hx.step_remove hS hd)
    refine ⟨i1, fun h1 h2 e => ?_⟩
    cases h1 with
    | nil => simp only [List.nil_append, List.cons.injEq, Prod.mk.injEq] at e; cases e.1.2
    | cons a h1' =>
      simp only [List.cons_append, List.cons.injEq] at e
      obtain ⟨ea, er⟩ := e
      subst ea
      exact i2 h1' h2 er
  | take key rest s r hd _ ih =>
    obtain ⟨i1, i2⟩ := ih (hx.step_take hS hd)
    refine ⟨i1, fun h1 h2 e => ?_⟩
    cases h1 with
    | nil => simp only [List.nil_append, List.cons.injEq, Prod.mk.injEq] at e; cases e.1.2
    | cons a h1' =>
      simp only [List.cons_append, List.cons.injEq] at e
      obtain ⟨ea, er⟩ := e
      subst ea
      exact i2 h1' h2 er
  | look op rest x hop _ ih =>
    have hstep' : hstep fuel (env, .api op) x = x := by
      obtain ⟨s, r⟩ := x
      show ((step env fuel s op).1, r) = (s, r)
      rw [show (step env fuel s op).1 = s from hop]
    obtain ⟨i1, i2⟩ := ih hx
    refine ⟨by rw [show runH fuel ((env, HOp.api op) :: rest) x = runH fuel rest (hstep fuel (env, .api op) x) from rfl,
      hstep']; exact i1, fun h1 h2 e => ?_⟩
    cases h1 with
    | nil => simp only [List.nil_append, List.cons.injEq, Prod.mk.injEq] at e; cases e.1.2
    | cons a h1' =>
      simp only [List.cons_append, List.cons.injEq] at e
      obtain ⟨ea, er⟩ := e
      subst ea
      have := i2 h1' h2 er
      rw [show runH fuel ((env, HOp.api op) :: h1' ++ [(env, HOp.hotReload)]) x =
        runH fuel (h1' ++ [(env, HOp.hotReload)]) (hstep fuel (env, .api op) x) from rfl, hstep']
      exact this
  | hotReload rest x _ ih =>
    obtain ⟨j1, j2, j3⟩ := hx.step_hotReload hS
    obtain ⟨i1, i2⟩ := ih j3
    refine ⟨i1, fun h1 h2 e => ?_⟩
    cases h1 with
    | nil => exact ⟨j1, j2⟩
    | cons a h1' =>
      simp only [List.cons_append, List.cons.injEq] at e
      obtain ⟨ea, er⟩ := e
      subst ea
      exact i2 h1' h2 er

/-! ## Small facts used by the property theorems -/

instance (env : Env) (fuel : Nat) (s : St) (key : Key) : Decidable (CleanLoad env fuel s key) := by
  unfold CleanLoad; infer_instance

theorem settled_nil (env : Env) (fuel : Nat) (s : St) : Settled env fuel s [] :=
  fun _ _ _ h => by cases h

theorem noProbedKeyFilled_nil (s t : St) : NoProbedKeyFilled s t [] :=
  fun _ _ _ h => by cases h

theorem noPendingKeyFilled_nil {s : St} (t : St) (h : s.out = []) : NoPendingKeyFilled s t :=
  fun _ _ hm => by rw [h] at hm; cases hm

/-- the events kept by `handle_events` -/
def keepEvents (g : Graph) (evs : List Dep) (l : List Dep) : List Dep :=
  evs.foldl (fun l e => if (g.get e).isSome then addIfAbsent e l else l) l

theorem mem_keepEvents_of_mem (g : Graph) (evs : List Dep) : ∀ (l : List Dep) (d : Dep), d ∈ l → d ∈ keepEvents g evs l := by
  unfold keepEvents
  induction evs with
  | nil => intro l d h; exact h
  | cons e es ih =>
    intro l d h
    simp only [List.foldl]
    apply ih
    split
    · exact (mem_addIfAbsent e d l).mpr (Or.inr h)
    · exact h

/-- every notified entry the graph knows is kept -/
theorem mem_keepEvents (g : Graph) (evs : List Dep) : ∀ (l : List Dep) (d : Dep), d ∈ evs → g.get d ≠ none →
    d ∈ keepEvents g evs l := by
  induction evs with
  | nil => intro l d h; cases h
  | cons e es ih =>
    intro l d h hg
    rcases List.mem_cons.mp h with e1 | e1
    · subst e1
      have hs : (g.get d).isSome = true := by
        cases hq : g.get d with
        | none => exact absurd hq hg
        | some n => rfl
      show d ∈ keepEvents g es (if (g.get d).isSome then addIfAbsent d l else l)
      rw [hs]
      exact mem_keepEvents_of_mem g es _ d ((mem_addIfAbsent d d l).mpr (Or.inl rfl))
    · exact ih _ d e1 hg

/-- `handle_events` in local mode, channel drained: the events the graph knows are kept, nothing else happens -/
theorem handleEvents_local (env : Env) (fuel : Nat) (s : St) (r : RSt) (evs : List Dep)
    (hd : r.dead = false) (hl : r.static_ = false) (hout : s.out = []) :
    handleEvents env fuel s r evs = (s, { r with toReload := keepEvents r.graph evs r.toReload }) := by
  unfold handleEvents
  simp only [hd, Bool.false_eq_true, if_false, processMsgs_nil s r hout, hl]
  rfl

theorem processMsgs_dead (s : St) (r : RSt) : (processMsgs s r).2.dead = r.dead := drain_dead s.out r
theorem processMsgs_static (s : St) (r : RSt) : (processMsgs s r).2.static_ = r.static_ := drain_static s.out r

/-! ## Executable checks of the named hypotheses (for concrete instances) -/

def depsStayB (s t : St) (D : List Dep) : Bool :=
  D.all fun d =>
    match d with
    | .asset y => (s.lookup y).isSome || (t.lookup y).isNone
    | _ => true

theorem depsStay_of_check {s t : St} {D : List Dep} (h : depsStayB s t D = true) :
    ∀ y, Dep.asset y ∈ D → s.lookup y = none → t.lookup y = none := by
  intro y hy hn
  unfold depsStayB at h
  rw [List.all_eq_true] at h
  have h1 := h _ hy
  simp only [hn, Option.isSome_none, Bool.false_or, Option.isNone_iff_eq_none] at h1
  exact h1

/-- `NoProbedKeyFilled`, as a check over the entries of the graph -/
def noProbedKeyFilledB (s t : St) (g : Graph) : Bool :=
  g.all fun x =>
    match x.1 with
    | .asset k =>
      (match s.lookup k with
       | some c => !(x.2.typed && c.dyn) || depsStayB s t x.2.deps
       | none => true)
    | _ => true

theorem noProbedKeyFilled_of_check {s t : St} {g : Graph} (h : noProbedKeyFilledB s t g = true) :
    NoProbedKeyFilled s t g := by
  intro k node c hg ht hc hd
  unfold noProbedKeyFilledB at h
  rw [List.all_eq_true] at h
  have h1 := h (.asset k, node) (get_some_mem hg)
  simp only [hc, ht, hd, Bool.and_self, Bool.not_true, Bool.false_or] at h1
  exact depsStay_of_check h1

/-- `NoPendingKeyFilled`, as a check over the channel -/
def noPendingKeyFilledB (s t : St) : Bool :=
  s.out.all fun m =>
    match m with
    | .addAsset _ D => depsStayB s t D
    | .clear => true

theorem noPendingKeyFilled_of_check {s t : St} (h : noPendingKeyFilledB s t = true) : NoPendingKeyFilled s t := by
  intro k D hm
  unfold noPendingKeyFilledB at h
  rw [List.all_eq_true] at h
  exact depsStay_of_check (h _ hm)

/-- `LoadOK`, as a check -/
def loadOKB (env : Env) (fuel : Nat) (s : St) (r : RSt) (key : Key) : Bool :=
  cleanRun env (step env fuel s (.load key)).1 fuel { s with recs := [] } (.load key Prog.ret') &&
  noProbedKeyFilledB s (step env fuel s (.load key)).1 r.graph &&
  noPendingKeyFilledB s (step env fuel s (.load key)).1

theorem loadOK_of_check {env : Env} {fuel : Nat} {s : St} {r : RSt} {key : Key}
    (h : loadOKB env fuel s r key = true) : LoadOK env fuel s r key := by
  unfold loadOKB at h
  simp only [Bool.and_eq_true] at h
  exact ⟨h.1.1, noProbedKeyFilled_of_check h.1.2, noPendingKeyFilled_of_check h.2⟩

/-- `NoDependentOn`, as a check -/
def noDependentOnB (s : St) (g : Graph) (key : Key) : Bool :=
  (g.all fun x =>
    match x.1 with
    | .asset k =>
      (match s.lookup k with
       | some c => !(x.2.typed && c.dyn) || decide (k = key) || !decide (Dep.asset key ∈ x.2.deps)
       | none => true)
    | _ => true) &&
  (s.out.all fun m =>
    match m with
    | .addAsset k D => !decide (k = key) && !decide (Dep.asset key ∈ D)
    | .clear => true)

theorem noDependentOn_of_check {s : St} {g : Graph} {key : Key} (h : noDependentOnB s g key = true) :
    NoDependentOn s g key := by
  unfold noDependentOnB at h
  simp only [Bool.and_eq_true, List.all_eq_true] at h
  obtain ⟨h1, h2⟩ := h
  constructor
  · intro k node c hg ht hc hd hk hmem
    have := h1 (.asset k, node) (get_some_mem hg)
    simp only [hc, ht, hd, Bool.and_self, Bool.not_true, Bool.false_or, hk, decide_false, hmem, decide_true] at this
    cases this
  · intro k D hm
    have := h2 _ hm
    simp only [Bool.and_eq_true, Bool.not_eq_true', decide_eq_false_iff_not] at this
    exact this

end AmVerif.Model
