import AmVerif.Lemmas.Converge
/-!
# Loading establishes and preserves `Settled`

* `hitRun_fuel` — a tracked hit-only run that returns does not depend on the fuel.
* `eval_load_hit`, `eval_load_miss_*` — what `eval` does on a `.load` (hot type, cache with reloader).
* `cleanRun env fin f s p` — the evaluation `eval env f s p` is a **clean loading run** (relative to the
  cache `fin` it ends in): plain constructors and recorded look-ups on the path it takes (misses
  included, recursively), and none of the three situations in which a load leaves an asset that is
  not settled: a lost insertion, an absorbed failure, a `get_cached` probe of a key that is absent
  and gets cached before the load returns.
* `clean_replay` — re-evaluating the body of a clean run in the final cache is a tracked hit-only
  run with the same value and the same record.
* `clean_msgs` — every `AddAsset` message a clean run sends is `MsgGood`: the asset is cached in the
  final cache, holds what re-evaluating its loader there returns, and the message carries exactly
  what that re-evaluation reads.
* `settled_insertAsset`, `settled_processMsgs`, `settled_keep` — `Settled` through the graph updates
  and for the assets cached before.
* `load_settles` — one API load; `loads_settle` — histories of loads and `hot_reload`s.
-/
namespace AmVerif.Model
open AmVerif.Gen AmVerif.Lemmas.TopoGraph

/-! ## A tracked hit-only run that returns does not depend on the fuel -/

theorem hitRun_fuel (env : Env) : ∀ (f F : Nat) (p : Prog) (s : St), f ≤ F →
    hitRun env f s p = true → (eval env f s p).2 ≠ .diverged →
    hitRun env F s p = true ∧ eval env F s p = eval env f s p := by
  intro f
  induction f with
  | zero => intro F p s _ _ hd; exact absurd rfl hd
  | succ f ih =>
    intro F p s hle hh hd
    obtain ⟨F', rfl⟩ : ∃ F', F = F' + 1 := ⟨F - 1, by omega⟩
    have hle' : f ≤ F' := by omega
    cases p with
    | ret v => exact ⟨rfl, rfl⟩
    | fail e => exact ⟨rfl, rfl⟩
    | panic => exact ⟨rfl, rfl⟩
    | read id ext k =>
      simp only [hitRun, Bool.and_eq_true] at hh
      obtain ⟨hb, hh⟩ := hh
      rw [hb] at hh
      simp only [eval, hb] at hd
      simp only [hitRun, eval, hb, Bool.true_and]
      exact ih F' _ _ hle' hh hd
    | readDir id k =>
      simp only [hitRun, Bool.and_eq_true] at hh
      obtain ⟨hb, hh⟩ := hh
      rw [hb] at hh
      simp only [eval, hb] at hd
      simp only [hitRun, eval, hb, Bool.true_and]
      exact ih F' _ _ hle' hh hd
    | getCached key k =>
      simp only [hitRun, Bool.and_eq_true] at hh
      obtain ⟨hb, hh⟩ := hh
      rw [hb] at hh
      simp only [eval, hb] at hd
      simp only [hitRun, eval, hb, Bool.true_and]
      exact ih F' _ _ hle' hh hd
    | tick k =>
      simp only [hitRun] at hh
      simp only [eval] at hd
      obtain ⟨i1, i2⟩ := ih F' _ _ hle' hh hd
      simp only [hitRun, eval]
      exact ⟨i1, i2⟩
    | load key k =>
      simp only [hitRun, Bool.and_eq_true] at hh
      obtain ⟨hb, hh⟩ := hh
      rw [hb] at hh
      simp only [eval, hb] at hd
      simp only [hitRun, eval, hb, Bool.true_and]
      cases hl : (s.record true (.asset key)).lookup key with
      | none => rw [hl] at hh; cases hh
      | some c =>
        rw [hl] at hh hd
        simp only [] at hh hd ⊢
        exact ih F' _ _ hle' hh hd
    | noRecord body k => simp only [hitRun] at hh; cases hh
    | onThread body k => simp only [hitRun] at hh; cases hh
    | tryCatch body k => simp only [hitRun] at hh; cases hh
    | loadOwned key k => simp only [hitRun] at hh; cases hh

/-! ## What `eval` does on a `.load` of a hot type -/

/-- the state the loader body of a nested load starts from: a fresh record on top -/
def St.enter (s : St) : St := { s with recs := some [] :: s.recs }

/-- the loader body of `key` returned `v` in `sb`: the frame is popped (the stack is `recs` again),
`AddAsset key (what the frame recorded)` is sent, the entry is inserted (keep-first) -/
def St.leaveOk (env : Env) (key : Key) (v : Val) (recs : List (Option (List Dep))) (sb : St) : St :=
  St.own { ((St.send { sb with recs := recs } (.addAsset key sb.top)).insertKeepFirst key
              (newCell env key.ty v sb.next)).1 with next := sb.next + 1 }
    key.ty sb.next (sb.lookup key).isSome

/-- the loader body failed in `sb`: the frame is popped and what it recorded is handed to the parent's frame -/
def St.leaveErr (recs : List (Option (List Dep))) (sb : St) : St :=
  St.recordAll { sb with recs := recs } true sb.top

@[simp] theorem St.enter_lookup (s : St) (k : Key) : s.enter.lookup k = s.lookup k := rfl
@[simp] theorem St.enter_out (s : St) : s.enter.out = s.out := rfl
@[simp] theorem St.enter_map (s : St) : s.enter.map = s.map := rfl

theorem eval_load_hit (env : Env) (f : Nat) (s : St) (key : Key) (k : Except LErr Val → Prog) (c : Cell)
    (hl : s.lookup key = some c) :
    eval env (f + 1) s (.load key k) =
      eval env f (s.record (recordsAsset (env.types key.ty).hot env.hasReloader) (.asset key)) (k (.ok c.val)) := by
  simp only [eval, St.record_lookup, hl]

theorem loadAndRecord_hot (env : Env) (body : St → St × Outcome) (key : Key) (s : St)
    (hb : recordsAsset (env.types key.ty).hot env.hasReloader = true) :
    loadAndRecord env body key s =
      match body s.enter with
      | (sb, .ok v) => (St.send { sb with recs := s.recs } (.addAsset key sb.top), .ok v)
      | (sb, .err e) => (St.leaveErr s.recs sb, .err (.wrapped key.id e))
      | (sb, o) => ({ sb with recs := s.recs }, o) := by
  have hcfg : failedLoadRecordsToParent = true := by decide
  unfold loadAndRecord withFrame St.enter St.leaveErr
  simp only [hb, if_true, hcfg, Bool.and_self]
  generalize body { s with recs := some [] :: s.recs } = r
  obtain ⟨sb, o⟩ := r
  cases o <;> rfl

theorem eval_load_miss (env : Env) (f : Nat) (s : St) (key : Key) (k : Except LErr Val → Prog)
    (hb : recordsAsset (env.types key.ty).hot env.hasReloader = true) (hl : s.lookup key = none) :
    eval env (f + 1) s (.load key k) =
      match eval env f (s.record true (.asset key)).enter ((env.types key.ty).prog key.id) with
      | (sb, .ok v) =>
        eval env f (St.leaveOk env key v (s.record true (.asset key)).recs sb)
          (k (.ok ((St.send { sb with recs := (s.record true (.asset key)).recs } (.addAsset key sb.top)).insertKeepFirst key
              (newCell env key.ty v sb.next)).2.val))
      | (sb, .err e) => eval env f (St.leaveErr (s.record true (.asset key)).recs sb) (k (.error (.wrapped key.id e)))
      | (sb, o) => ({ sb with recs := (s.record true (.asset key)).recs }, o) := by
  simp only [eval, hb, St.record_lookup, hl]
  rw [loadAndRecord_hot env _ key _ hb]
  generalize eval env f (s.record true (.asset key)).enter ((env.types key.ty).prog key.id) = r
  obtain ⟨sb, o⟩ := r
  cases o <;> rfl

theorem insertKeepFirst_fresh (s : St) (key : Key) (c : Cell) (h : s.lookup key = none) :
    (s.insertKeepFirst key c).2 = c ∧ (s.insertKeepFirst key c).1.lookup key = some c := by
  have h1 := St.insertKeepFirst_lookup s key c
  rw [h] at h1
  simp only [Option.getD_none] at h1
  exact ⟨h1.2, by rw [h1.1, h1.2]⟩

theorem eval_load_miss_ok (env : Env) (f : Nat) (s : St) (key : Key) (k : Except LErr Val → Prog)
    (hb : recordsAsset (env.types key.ty).hot env.hasReloader = true) (hl : s.lookup key = none)
    {sb : St} {v : Val}
    (hbody : eval env f (s.record true (.asset key)).enter ((env.types key.ty).prog key.id) = (sb, .ok v))
    (hnl : sb.lookup key = none) :
    eval env (f + 1) s (.load key k) =
      eval env f (St.leaveOk env key v (s.record true (.asset key)).recs sb) (k (.ok v)) := by
  rw [eval_load_miss env f s key k hb hl, hbody]
  simp only []
  rw [(insertKeepFirst_fresh (St.send { sb with recs := (s.record true (.asset key)).recs } (.addAsset key sb.top)) key
    (newCell env key.ty v sb.next) hnl).1]
  rfl

/-- what is cached under `key` after a successful nested load that did not lose the insertion -/
theorem leaveOk_lookup_self (env : Env) (key : Key) (v : Val) (recs) (sb : St) (hnl : sb.lookup key = none) :
    (St.leaveOk env key v recs sb).lookup key = some (newCell env key.ty v sb.next) := by
  unfold St.leaveOk
  rw [St.own_lookup]
  exact (insertKeepFirst_fresh (St.send { sb with recs := recs } (.addAsset key sb.top)) key
    (newCell env key.ty v sb.next) hnl).2

theorem leaveOk_le (env : Env) (key : Key) (v : Val) (recs) (sb : St) : sb.Le (St.leaveOk env key v recs sb) := by
  unfold St.leaveOk
  exact (St.Le.of_map_eq (s := sb) (t := St.send { sb with recs := recs } (.addAsset key sb.top)) rfl).trans
    ((St.insertKeepFirst_le _ key _).trans (St.Le.of_map_eq rfl))

theorem leaveOk_recs (env : Env) (key : Key) (v : Val) (recs) (sb : St) : (St.leaveOk env key v recs sb).recs = recs := by
  unfold St.leaveOk
  rw [St.own_recs]
  exact St.insertKeepFirst_recs _ _ _

theorem leaveErr_map (recs) (sb : St) : (St.leaveErr recs sb).map = sb.map := by
  unfold St.leaveErr; rw [St.recordAll_map]

/-! ## Clean loading runs -/

/-- `eval env f s p` is a **clean loading run** relative to the cache `fin` the whole load ends in.
(Mirrors `eval` clause by clause, nested loader bodies included.) On the path the evaluation takes:
* plain constructors only, every look-up and read recorded (as for `hitRun`);
* **no lost insertion**: when the loader body of a missed key returns, the key is still absent (the
  key was not loaded again, recursively, while its own loader ran);
* **no absorbed failure**: when a nested load fails, the loader that asked for it does not go on to
  return a value;
* **no probe of a key that gets filled**: a `get_cached` that finds nothing is for a key that is
  still absent in `fin`. -/
def cleanRun (env : Env) (fin : St) : Nat → St → Prog → Bool
  | 0, _, _ => true
  | _+1, _, .ret _ => true
  | _+1, _, .fail _ => true
  | _+1, _, .panic => true
  | f+1, s, .read id ext k =>
      recordsRead env.hasReloader &&
      cleanRun env fin f { s.record true (.file id ext) with ios := (s.record true (.file id ext)).ios + 1 }
        (k (env.read (s.record true (.file id ext)).ios id ext))
  | f+1, s, .readDir id k =>
      recordsRead env.hasReloader &&
      cleanRun env fin f { s.record true (.dir id) with ios := (s.record true (.dir id)).ios + 1 }
        (k (env.readDir (s.record true (.dir id)).ios id))
  | f+1, s, .getCached key k =>
      recordsAsset (env.types key.ty).hot env.hasReloader &&
      ((s.lookup key).isSome || (fin.lookup key).isNone) &&
      cleanRun env fin f (s.record true (.asset key)) (k ((s.lookup key).map (·.val)))
  | f+1, s, .tick k => cleanRun env fin f { s with loads := s.loads + 1 } (k (env.loaderFault s.loads))
  | f+1, s, .load key k =>
      recordsAsset (env.types key.ty).hot env.hasReloader &&
      (match s.lookup key with
       | some c => cleanRun env fin f (s.record true (.asset key)) (k (.ok c.val))
       | none =>
         cleanRun env fin f (s.record true (.asset key)).enter ((env.types key.ty).prog key.id) &&
         (match eval env f (s.record true (.asset key)).enter ((env.types key.ty).prog key.id) with
          | (sb, .ok v) =>
            (sb.lookup key).isNone &&
            cleanRun env fin f (St.leaveOk env key v (s.record true (.asset key)).recs sb) (k (.ok v))
          | (sb, .err e) =>
            cleanRun env fin f (St.leaveErr (s.record true (.asset key)).recs sb) (k (.error (.wrapped key.id e))) &&
            (match (eval env f (St.leaveErr (s.record true (.asset key)).recs sb) (k (.error (.wrapped key.id e)))).2 with
             | .ok _ => false
             | _ => true)
          | _ => true))
  | _+1, _, .noRecord _ _ => false
  | _+1, _, .onThread _ _ => false
  | _+1, _, .tryCatch _ _ => false
  | _+1, _, .loadOwned _ _ => false

/-! ## Replaying the body of a clean run in the final cache -/

/-- **Replay.** A clean run that returns `v`, re-evaluated in (a state with the map of) the cache
the load ended in, is a tracked hit-only run with the same value and the same record: every asset it
loaded is cached there (keep-first, no lost insertion), every key it probed in vain is still absent. -/
theorem clean_replay {env : Env} (hS : env.Steady) (fin : St) :
    ∀ (f : Nat) (p : Prog) (s : St) (ds : List Dep) (rs : List (Option (List Dep))) (v : Val),
    s.recs = some ds :: rs → cleanRun env fin f s p = true → (eval env f s p).2 = .ok v →
    (eval env f s p).1.Le fin →
    ∀ (t : St) (rt : List (Option (List Dep))), (∀ k, t.lookup k = fin.lookup k) → t.recs = some ds :: rt →
      hitRun env f t p = true ∧ (eval env f t p).2 = .ok v ∧ (eval env f t p).1.top = (eval env f s p).1.top := by
  intro f
  induction f with
  | zero => intro p s ds rs v _ _ ho; simp only [eval] at ho; cases ho
  | succ f ih =>
    intro p s ds rs v hs hc ho hle t rt ht htr
    have hsfin : s.Le fin := (eval_mono env (f + 1) s p).trans hle
    cases p with
    | ret v' =>
      simp only [eval] at ho ⊢
      exact ⟨rfl, ho, by rw [St.top_of_recs hs, St.top_of_recs htr]⟩
    | fail e => simp only [eval] at ho; cases ho
    | panic => simp only [eval] at ho; cases ho
    | read id ext k =>
      simp only [cleanRun, Bool.and_eq_true] at hc
      obtain ⟨hb, hc⟩ := hc
      simp only [eval, hb] at ho hle ⊢
      simp only [hitRun, hb, Bool.true_and]
      rw [hS.1 (t.record true (.file id ext)).ios (s.record true (.file id ext)).ios]
      exact ih _ _ _ _ v (show St.recs { s.record true (.file id ext) with
          ios := (s.record true (.file id ext)).ios + 1 } = _ from St.record_recs hs _) hc ho hle _ rt
        (fun k => (St.lookup_congr (St.record_map t true _) k).trans (ht k))
        (show St.recs { t.record true (.file id ext) with
          ios := (t.record true (.file id ext)).ios + 1 } = _ from St.record_recs htr _)
    | readDir id k =>
      simp only [cleanRun, Bool.and_eq_true] at hc
      obtain ⟨hb, hc⟩ := hc
      simp only [eval, hb] at ho hle ⊢
      simp only [hitRun, hb, Bool.true_and]
      rw [hS.2.1 (t.record true (.dir id)).ios (s.record true (.dir id)).ios]
      exact ih _ _ _ _ v (show St.recs { s.record true (.dir id) with
          ios := (s.record true (.dir id)).ios + 1 } = _ from St.record_recs hs _) hc ho hle _ rt
        (fun k => (St.lookup_congr (St.record_map t true _) k).trans (ht k))
        (show St.recs { t.record true (.dir id) with
          ios := (t.record true (.dir id)).ios + 1 } = _ from St.record_recs htr _)
    | getCached key k =>
      simp only [cleanRun, Bool.and_eq_true] at hc
      obtain ⟨⟨hb, hp⟩, hc⟩ := hc
      simp only [eval, hb, St.record_lookup] at ho hle ⊢
      simp only [hitRun, hb, Bool.true_and, St.record_lookup]
      have hlk : t.lookup key = s.lookup key := by
        rw [ht key]
        cases hl : s.lookup key with
        | some c => exact hsfin key c hl
        | none =>
          rw [hl] at hp
          simp only [Option.isSome_none, Bool.false_or, Option.isNone_iff_eq_none] at hp
          exact hp
      rw [hlk]
      exact ih _ _ _ _ v (St.record_recs hs _) hc ho hle _ rt
        (fun k => (St.record_lookup t true _ k).trans (ht k)) (St.record_recs htr _)
    | tick k =>
      simp only [cleanRun] at hc
      simp only [eval] at ho hle ⊢
      simp only [hitRun]
      rw [hS.2.2 t.loads s.loads]
      exact ih _ { s with loads := s.loads + 1 } ds rs v hs hc ho hle { t with loads := t.loads + 1 } rt ht htr
    | load key k =>
      simp only [cleanRun, Bool.and_eq_true] at hc
      obtain ⟨hb, hc⟩ := hc
      cases hl : s.lookup key with
      | some c =>
        rw [hl] at hc
        simp only [] at hc
        have htl : t.lookup key = some c := (ht key).trans (hsfin key c hl)
        rw [eval_load_hit env f s key k c hl, hb] at ho hle ⊢
        rw [eval_load_hit env f t key k c htl, hb]
        simp only [hitRun, hb, Bool.true_and, St.record_lookup, htl]
        exact ih _ _ _ _ v (St.record_recs hs _) hc ho hle _ rt
          (fun k => (St.record_lookup t true _ k).trans (ht k)) (St.record_recs htr _)
      | none =>
        rw [hl] at hc
        simp only [Bool.and_eq_true] at hc
        obtain ⟨_, hc⟩ := hc
        cases hbody : eval env f (s.record true (.asset key)).enter ((env.types key.ty).prog key.id) with
        | mk sb ob =>
          rw [hbody] at hc
          cases ob with
          | ok v' =>
            simp only [Bool.and_eq_true, Option.isNone_iff_eq_none] at hc
            obtain ⟨hnl, hc⟩ := hc
            rw [eval_load_miss_ok env f s key k hb hl hbody hnl] at ho hle ⊢
            have hcell := leaveOk_lookup_self env key v' (s.record true (.asset key)).recs sb hnl
            have htl : t.lookup key = some (newCell env key.ty v' sb.next) :=
              (ht key).trans (((eval_mono env f _ _).trans hle) key _ hcell)
            rw [eval_load_hit env f t key k _ htl, hb]
            simp only [hitRun, hb, Bool.true_and, St.record_lookup, htl]
            exact ih _ _ _ _ v ((leaveOk_recs env key v' _ sb).trans (St.record_recs hs _)) hc ho hle _ rt
              (fun k => (St.record_lookup t true _ k).trans (ht k)) (St.record_recs htr _)
          | err e =>
            simp only [Bool.and_eq_true] at hc
            rw [eval_load_miss env f s key k hb hl, hbody] at ho
            simp only [] at ho
            rw [ho] at hc
            exact absurd hc.2 (by simp)
          | panicked =>
            rw [eval_load_miss env f s key k hb hl, hbody] at ho
            cases ho
          | diverged =>
            rw [eval_load_miss env f s key k hb hl, hbody] at ho
            cases ho
    | noRecord body k => simp only [cleanRun] at hc; cases hc
    | onThread body k => simp only [cleanRun] at hc; cases hc
    | tryCatch body k => simp only [cleanRun] at hc; cases hc
    | loadOwned key k => simp only [cleanRun] at hc; cases hc

/-! ## The registrations of a clean run -/

/-- The registration `AddAsset k D` is **good** in the cache `fin`: `k` is cached there, re-evaluating
its loader there is a tracked hit-only run that returns the cached value and records exactly `D`. -/
def MsgGood (env : Env) (fuel : Nat) (fin : St) (k : Key) (D : List Dep) : Prop :=
  ∃ c, fin.lookup k = some c ∧ reloadHit env fuel fin k = true ∧ reloadOut env fuel fin k = .ok c.val ∧
    reloadDeps env fuel fin k = D

theorem St.insertKeepFirst_out (s : St) (k : Key) (c : Cell) : (s.insertKeepFirst k c).1.out = s.out := by
  unfold St.insertKeepFirst; split <;> rfl

theorem leaveOk_out (env : Env) (key : Key) (v : Val) (recs) (sb : St) :
    (St.leaveOk env key v recs sb).out = sb.out ++ [.addAsset key sb.top] := by
  unfold St.leaveOk
  rw [St.own_out]
  exact St.insertKeepFirst_out _ _ _

theorem St.recordAll_out (s : St) (on : Bool) (ds : List Dep) : (s.recordAll on ds).out = s.out := by
  unfold St.recordAll
  induction ds generalizing s with
  | nil => rfl
  | cons d ds ih => simp only [List.foldl]; rw [ih]; exact St.record_out s on d

theorem leaveErr_out (recs) (sb : St) : (St.leaveErr recs sb).out = sb.out := by
  unfold St.leaveErr; rw [St.recordAll_out]

/-- the registration a successful nested load sends is good in the final cache -/
theorem clean_msg_good {env : Env} (hS : env.Steady) {fuel : Nat} {fin : St} {f : Nat} (hf : f ≤ fuel)
    {s0 : St} {key : Key} {sb : St} {v : Val} {rs : List (Option (List Dep))}
    (hs0 : s0.recs = some [] :: rs)
    (hc : cleanRun env fin f s0 ((env.types key.ty).prog key.id) = true)
    (hbody : eval env f s0 ((env.types key.ty).prog key.id) = (sb, .ok v))
    (hle : sb.Le fin) {c : Cell} (hcell : fin.lookup key = some c) (hv : c.val = v) :
    MsgGood env fuel fin key sb.top := by
  have hrep := clean_replay hS fin f _ s0 [] rs v hs0 hc (by rw [hbody]) (by rw [hbody]; exact hle)
    fin.fresh [] (fun _ => rfl) rfl
  rw [hbody] at hrep
  obtain ⟨r1, r2, r3⟩ := hrep
  obtain ⟨g1, g2⟩ := hitRun_fuel env f fuel _ fin.fresh hf r1 (by rw [r2]; exact fun h => by cases h)
  refine ⟨c, hcell, g1, ?_, ?_⟩
  · unfold reloadOut; rw [reloadEval_eq]; simp only []; rw [g2, r2, hv]
  · unfold reloadDeps; rw [reloadEval_eq]; simp only []; rw [g2, r3]

/-- **Every registration of a clean run is good**: each `AddAsset` message the run adds to the channel
names an asset that is cached in the final cache `fin`, holds there what re-evaluating its loader
returns, and carries exactly what that re-evaluation reads. -/
theorem clean_msgs {env : Env} (hS : env.Steady) (fuel : Nat) (fin : St) :
    ∀ (f : Nat) (p : Prog) (s : St), f ≤ fuel → cleanRun env fin f s p = true → (eval env f s p).1.Le fin →
    ∀ m, m ∈ (eval env f s p).1.out → m ∈ s.out ∨ ∃ k D, m = .addAsset k D ∧ MsgGood env fuel fin k D := by
  intro f
  induction f with
  | zero => intro p s _ _ _ m hm; exact Or.inl hm
  | succ f ih =>
    intro p s hf hc hle m hm
    have hf' : f ≤ fuel := by omega
    cases p with
    | ret v => exact Or.inl hm
    | fail e => exact Or.inl hm
    | panic => exact Or.inl hm
    | read id ext k =>
      simp only [cleanRun, Bool.and_eq_true] at hc
      obtain ⟨hb, hc⟩ := hc
      simp only [eval, hb] at hle hm
      rcases ih _ _ hf' hc hle m hm with h | h
      · exact Or.inl (by rw [← St.record_out s true (.file id ext)]; exact h)
      · exact Or.inr h
    | readDir id k =>
      simp only [cleanRun, Bool.and_eq_true] at hc
      obtain ⟨hb, hc⟩ := hc
      simp only [eval, hb] at hle hm
      rcases ih _ _ hf' hc hle m hm with h | h
      · exact Or.inl (by rw [← St.record_out s true (.dir id)]; exact h)
      · exact Or.inr h
    | getCached key k =>
      simp only [cleanRun, Bool.and_eq_true] at hc
      obtain ⟨⟨hb, _⟩, hc⟩ := hc
      simp only [eval, hb, St.record_lookup] at hle hm
      rcases ih _ _ hf' hc hle m hm with h | h
      · exact Or.inl (by rw [← St.record_out s true (.asset key)]; exact h)
      · exact Or.inr h
    | tick k =>
      simp only [cleanRun] at hc
      simp only [eval] at hle hm
      exact ih _ _ hf' hc hle m hm
    | load key k =>
      simp only [cleanRun, Bool.and_eq_true] at hc
      obtain ⟨hb, hc⟩ := hc
      cases hl : s.lookup key with
      | some c =>
        rw [hl] at hc
        simp only [] at hc
        rw [eval_load_hit env f s key k c hl, hb] at hle hm
        rcases ih _ _ hf' hc hle m hm with h | h
        · exact Or.inl (by rw [← St.record_out s true (.asset key)]; exact h)
        · exact Or.inr h
      | none =>
        rw [hl] at hc
        simp only [Bool.and_eq_true] at hc
        obtain ⟨hcb, hc⟩ := hc
        have hout0 : (s.record true (.asset key)).enter.out = s.out := St.record_out s true _
        cases hbody : eval env f (s.record true (.asset key)).enter ((env.types key.ty).prog key.id) with
        | mk sb ob =>
          rw [hbody] at hc
          have ihb := ih ((env.types key.ty).prog key.id) (s.record true (.asset key)).enter hf' hcb
          rw [hbody, hout0] at ihb
          simp only [] at ihb
          cases ob with
          | ok v' =>
            simp only [Bool.and_eq_true, Option.isNone_iff_eq_none] at hc
            obtain ⟨hnl, hc⟩ := hc
            rw [eval_load_miss_ok env f s key k hb hl hbody hnl] at hle hm
            have hle1 : (St.leaveOk env key v' (s.record true (.asset key)).recs sb).Le fin :=
              (eval_mono env f _ _).trans hle
            have hsb : sb.Le fin := (leaveOk_le env key v' _ sb).trans hle1
            rcases ih _ _ hf' hc hle m hm with h | h
            · rw [leaveOk_out, List.mem_append, List.mem_singleton] at h
              rcases h with h | h
              · exact ihb hsb m h
              · refine Or.inr ⟨key, sb.top, h, ?_⟩
                have hs0 : (s.record true (.asset key)).enter.recs = some [] :: (s.record true (.asset key)).recs := rfl
                exact clean_msg_good hS hf' hs0 hcb hbody hsb
                  (hle1 key _ (leaveOk_lookup_self env key v' _ sb hnl)) rfl
            · exact Or.inr h
          | err e =>
            simp only [Bool.and_eq_true] at hc
            rw [eval_load_miss env f s key k hb hl, hbody] at hle hm
            simp only [] at hle hm
            have hsb : sb.Le fin :=
              (St.Le.of_map_eq (leaveErr_map (s.record true (.asset key)).recs sb)).trans ((eval_mono env f _ _).trans hle)
            rcases ih _ _ hf' hc.1 hle m hm with h | h
            · rw [leaveErr_out] at h; exact ihb hsb m h
            · exact Or.inr h
          | panicked =>
            rw [eval_load_miss env f s key k hb hl, hbody] at hle hm
            exact ihb ((St.Le.of_map_eq rfl).trans hle) m hm
          | diverged =>
            rw [eval_load_miss env f s key k hb hl, hbody] at hle hm
            exact ihb ((St.Le.of_map_eq rfl).trans hle) m hm
    | noRecord body k => simp only [cleanRun] at hc; cases hc
    | onThread body k => simp only [cleanRun] at hc; cases hc
    | tryCatch body k => simp only [cleanRun] at hc; cases hc
    | loadOwned key k => simp only [cleanRun] at hc; cases hc

end AmVerif.Model
