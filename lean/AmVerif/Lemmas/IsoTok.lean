import AmVerif.Lemmas.IsoLock
/-!
# C07 helper lemmas, part 2: tokens, answers and the event log of `Model/Iso.lean`

`TokInv`: a token lives in exactly one place (a caller's hand, the channel, the reloader's hand
before its answer is posted), answers are posted only after the update, and the ghost log is
well-ordered (`OkLog`). Preserved by every step when the extracted configuration is well-formed.
-/
namespace AmVerif.Lemmas.IsoTok
open AmVerif.Model.Iso AmVerif.Lemmas.IsoLock

def holdsTok : CS → Nat → Prop
  | .got t, u => t = u
  | .waiting t, u => t = u
  | .idle, _ => False

/-- Newest-first log: each write of pass `t` has, among the older events, a `sent c t` whose caller
has not returned, and no return for token `t` at all. -/
def OkLog : List Ev → Prop
  | [] => True
  | .wr t :: older => ((∃ c, .sent c t ∈ older ∧ .ret c t ∉ older) ∧ ∀ c, .ret c t ∉ older) ∧ OkLog older
  | .sent _ _ :: older => OkLog older
  | .ret _ _ :: older => OkLog older

structure TokInv (cfg : Cfg) (s : St) : Prop where
  arm : armOk s.rrest = true
  inwrite : s.wrest ≠ [] → ∃ rr, s.rrest = .update :: rr
  lt : ∀ c t, holdsTok (s.cl c) t → t < s.nextTok
  uniq : ∀ c c' t, holdsTok (s.cl c) t → holdsTok (s.cl c') t → c = c'
  q_wait : ∀ t ∈ s.queue, (∃ c, s.cl c = .waiting t) ∧ t ∉ s.answered
  q_nodup : s.queue.Nodup
  serving : .notify ∈ s.rrest → (∃ c, s.cl c = .waiting s.cur) ∧ s.cur ∉ s.answered ∧ s.cur ∉ s.queue
  got_fresh : ∀ c t, s.cl c = .got t → t ∉ s.queue ∧ (.notify ∈ s.rrest → s.cur ≠ t) ∧ t ∉ s.answered
  ans_lt : ∀ t ∈ s.answered, t < s.nextTok
  ret_lt : ∀ c t, .ret c t ∈ s.log → t < s.nextTok
  retd : ∀ c c' t, .ret c t ∈ s.log → ¬ holdsTok (s.cl c') t
  sent : ∀ c t, s.cl c = .waiting t → .sent c t ∈ s.log
  log : OkLog s.log

theorem init_inv (cfg : Cfg) (n : Nat) : TokInv cfg (init n) where
  arm := rfl
  inwrite := by intro h; exact absurd rfl h
  lt := by intro c t h; exact absurd h (by simp [init, holdsTok])
  uniq := by intro c c' t h; exact absurd h (by simp [init, holdsTok])
  q_wait := by intro t h; simp [init] at h
  q_nodup := List.nodup_nil
  serving := by intro h; simp [init] at h
  got_fresh := by intro c t h; simp [init] at h
  ans_lt := by intro t h; simp [init] at h
  ret_lt := by intro c t h; simp [init] at h
  retd := by intro c c' t h; simp [init] at h
  sent := by intro c t h; simp [init] at h
  log := trivial

theorem notify_mem_of_arm {rr : List RStep} (h : armOk (.update :: rr) = true) : RStep.notify ∈ rr := by
  simp only [armOk, Bool.and_eq_true] at h
  exact List.contains_iff_mem.mp h.1 |> fun x => x

/-- Steps that leave the token state alone and at most log a write while a `write` call is running. -/
theorem tok_frame {cfg : Cfg} {s s' : St} (h : TokInv cfg s)
    (e1 : s'.rrest = s.rrest) (e2 : s'.cl = s.cl) (e3 : s'.nextTok = s.nextTok) (e4 : s'.queue = s.queue)
    (e5 : s'.answered = s.answered) (e6 : s'.cur = s.cur) (hw : s'.wrest ≠ [] → s.wrest ≠ [])
    (hl : s'.log = s.log ∨ (s'.log = .wr s.cur :: s.log ∧ s.wrest ≠ [])) : TokInv cfg s' := by
  rcases hl with hl | ⟨hl, hne⟩
  · exact ⟨by rw [e1]; exact h.arm, by rw [e1]; exact fun x => h.inwrite (hw x), by rw [e2, e3]; exact h.lt, by rw [e2]; exact h.uniq,
      by rw [e4, e2, e5]; exact h.q_wait, by rw [e4]; exact h.q_nodup, by rw [e1, e2, e4, e5, e6]; exact h.serving,
      by rw [e1, e2, e4, e5, e6]; exact h.got_fresh, by rw [e5, e3]; exact h.ans_lt, by rw [hl, e3]; exact h.ret_lt,
      by rw [hl, e2]; exact h.retd, by rw [hl, e2]; exact h.sent, by rw [hl]; exact h.log⟩
  · have mem_ret : ∀ c t, Ev.ret c t ∈ s'.log → Ev.ret c t ∈ s.log := by
      intro c t hm; rw [hl] at hm
      rcases List.mem_cons.mp hm with x | x
      · cases x
      · exact x
    obtain ⟨rr, er⟩ := h.inwrite hne
    have hn : RStep.notify ∈ s.rrest := by
      rw [er]; exact List.mem_cons_of_mem _ (notify_mem_of_arm (by rw [← er]; exact h.arm))
    obtain ⟨⟨c0, hc0⟩, _, _⟩ := h.serving hn
    have nr : ∀ c, Ev.ret c s.cur ∉ s.log := by
      intro c hm
      exact h.retd c c0 s.cur hm (by rw [hc0]; rfl)
    exact ⟨by rw [e1]; exact h.arm, by rw [e1]; exact fun x => h.inwrite (hw x), by rw [e2, e3]; exact h.lt, by rw [e2]; exact h.uniq,
      by rw [e4, e2, e5]; exact h.q_wait, by rw [e4]; exact h.q_nodup, by rw [e1, e2, e4, e5, e6]; exact h.serving,
      by rw [e1, e2, e4, e5, e6]; exact h.got_fresh, by rw [e5, e3]; exact h.ans_lt,
      by rw [e3]; exact fun c t hm => h.ret_lt c t (mem_ret c t hm),
      by rw [e2]; exact fun c c' t hm => h.retd c c' t (mem_ret c t hm),
      by rw [hl, e2]; exact fun c t hm => List.mem_cons_of_mem _ (h.sent c t hm),
      by rw [hl]; exact ⟨⟨⟨c0, h.sent c0 s.cur hc0, nr c0⟩, nr⟩, h.log⟩⟩

theorem reader_eq (cfg : Cfg) (s : St) (r : Nat) (a : Act) : ∃ f, stepReader cfg s r a = { s with rd := f } := by
  cases a <;> simp only [stepReader] <;> (repeat' split) <;> first | exact ⟨_, rfl⟩ | exact ⟨s.rd, rfl⟩

theorem reader_step {cfg : Cfg} {s : St} (h : TokInv cfg s) (r : Nat) (a : Act) : TokInv cfg (stepReader cfg s r a) := by
  obtain ⟨f, e⟩ := reader_eq cfg s r a
  rw [e]
  exact tok_frame h rfl rfl rfl rfl rfl rfl (fun x => x) (Or.inl rfl)

theorem writer_step {cfg : Cfg} {s : St} (h : TokInv cfg s) (w : WStep) (rest : List WStep) (e : s.wrest = w :: rest) :
    TokInv cfg (stepW cfg s w rest) := by
  have hne : s.wrest ≠ [] := by rw [e]; exact List.cons_ne_nil _ _
  cases w with
  | acq k =>
    cases k <;> simp only [stepW] <;> split <;>
      first | exact h | exact tok_frame h rfl rfl rfl rfl rfl rfl (fun _ => hne) (Or.inl rfl)
  | copy =>
    simp only [stepW]
    split
    · exact tok_frame h rfl rfl rfl rfl rfl rfl (fun _ => hne) (Or.inr ⟨rfl, hne⟩)
    · exact tok_frame h rfl rfl rfl rfl rfl rfl (fun _ => hne) (Or.inl rfl)
  | inc => exact tok_frame h rfl rfl rfl rfl rfl rfl (fun _ => hne) (Or.inr ⟨rfl, hne⟩)
  | setFlag => exact tok_frame h rfl rfl rfl rfl rfl rfl (fun _ => hne) (Or.inl rfl)
  | rel => exact tok_frame h rfl rfl rfl rfl rfl rfl (fun _ => hne) (Or.inl rfl)

theorem rl_step {cfg : Cfg} (hc : cfg.WF = true) {s : St} (h : TokInv cfg s) (more : Bool) : TokInv cfg (stepRl cfg s more) := by
  obtain ⟨_, _, _, _, harm, _⟩ := wf_parts hc
  unfold stepRl
  split
  · rename_i w rest e; exact writer_step h w rest e
  · rename_i e
    have hvac : ∀ {P : Prop}, s.wrest ≠ [] → P := fun x => absurd e x
    split
    · rename_i er
      split
      · rename_i t q eq
        have hq := h.q_nodup; rw [eq] at hq
        have hq' := List.nodup_cons.mp hq
        have hw := h.q_wait t (by rw [eq]; exact List.mem_cons_self)
        refine ⟨harm, fun x => hvac x, h.lt, h.uniq, ?_, hq'.2, ?_, ?_, h.ans_lt, h.ret_lt, h.retd, h.sent, h.log⟩
        · intro t' ht'; exact h.q_wait t' (by rw [eq]; exact List.mem_cons_of_mem _ ht')
        · intro _; exact ⟨hw.1, hw.2, hq'.1⟩
        · intro c u hcu
          have g := h.got_fresh c u hcu
          have hnq : u ∉ t :: q := by rw [← eq]; exact g.1
          refine ⟨fun x => hnq (List.mem_cons_of_mem _ x), fun _ x => hnq (by rw [← x]; exact List.mem_cons_self), g.2.2⟩
      · exact h
    · rename_i rr er
      split
      · exact ⟨h.arm, fun _ => ⟨rr, er⟩, h.lt, h.uniq, h.q_wait, h.q_nodup, h.serving, h.got_fresh, h.ans_lt, h.ret_lt, h.retd, h.sent, h.log⟩
      · have ha := h.arm; rw [er] at ha
        simp only [armOk, Bool.and_eq_true] at ha
        have sub : RStep.notify ∈ rr → RStep.notify ∈ s.rrest := fun x => by rw [er]; exact List.mem_cons_of_mem _ x
        refine ⟨ha.2, fun x => hvac x, h.lt, h.uniq, h.q_wait, h.q_nodup, fun x => h.serving (sub x), ?_, h.ans_lt, h.ret_lt, h.retd, h.sent, h.log⟩
        intro c u hcu
        have g := h.got_fresh c u hcu
        exact ⟨g.1, fun x => g.2.1 (sub x), g.2.2⟩
    · rename_i rr er
      have ha := h.arm; rw [er] at ha
      simp only [armOk, List.isEmpty_iff] at ha
      subst ha
      have hn : RStep.notify ∈ s.rrest := by rw [er]; exact List.mem_cons_self
      obtain ⟨⟨c0, hc0⟩, hna, hnq⟩ := h.serving hn
      refine ⟨rfl, fun x => hvac x, h.lt, h.uniq, ?_, h.q_nodup, ?_, ?_, ?_, h.ret_lt, h.retd, h.sent, h.log⟩
      · intro t ht
        have g := h.q_wait t ht
        refine ⟨g.1, ?_⟩
        intro hm
        rcases List.mem_cons.mp hm with x | x
        · exact hnq (by rw [← x]; exact ht)
        · exact g.2 x
      · intro x; cases x
      · intro c u hcu
        have g := h.got_fresh c u hcu
        refine ⟨g.1, (fun x => by cases x), ?_⟩
        intro hm
        rcases List.mem_cons.mp hm with x | x
        · exact g.2.1 hn x.symm
        · exact g.2.2 x
      · intro t hm
        rcases List.mem_cons.mp hm with x | x
        · rw [x]; exact h.lt c0 s.cur (by rw [hc0]; rfl)
        · exact h.ans_lt t x

/-! ### Callers of `hot_reload` -/

theorem tok_step {cfg : Cfg} {s : St} (h : TokInv cfg s) (c : Nat) (ei : s.cl c = .idle) :
    TokInv cfg { s with cl := upd s.cl c (.got s.nextTok), nextTok := s.nextTok + 1 } := by
  have other : ∀ c', c' ≠ c → upd s.cl c (.got s.nextTok) c' = s.cl c' := fun c' x => upd_other _ _ _ _ x
  have same : upd s.cl c (.got s.nextTok) c = .got s.nextTok := upd_same _ _ _
  have wait_ne : ∀ c0 t, s.cl c0 = .waiting t → c0 ≠ c := by
    intro c0 t x y; rw [y, ei] at x; cases x
  refine ⟨h.arm, h.inwrite, ?_, ?_, ?_, h.q_nodup, ?_, ?_, ?_, ?_, ?_, ?_, h.log⟩
  · intro c' t ht
    show t < s.nextTok + 1
    by_cases x : c' = c
    · subst x; rw [show ({ s with cl := upd s.cl c' (.got s.nextTok), nextTok := s.nextTok + 1 } : St).cl c' = .got s.nextTok from same] at ht
      simp only [holdsTok] at ht; omega
    · rw [show ({ s with cl := upd s.cl c (.got s.nextTok), nextTok := s.nextTok + 1 } : St).cl c' = s.cl c' from other c' x] at ht
      exact Nat.lt_succ_of_lt (h.lt c' t ht)
  · intro c1 c2 t h1 h2
    by_cases x1 : c1 = c <;> by_cases x2 : c2 = c
    · rw [x1, x2]
    · subst x1
      rw [show ({ s with cl := upd s.cl c1 (.got s.nextTok), nextTok := s.nextTok + 1 } : St).cl c1 = .got s.nextTok from same] at h1
      rw [show ({ s with cl := upd s.cl c1 (.got s.nextTok), nextTok := s.nextTok + 1 } : St).cl c2 = s.cl c2 from other c2 x2] at h2
      simp only [holdsTok] at h1; subst h1
      exact absurd (h.lt c2 _ h2) (Nat.lt_irrefl _)
    · subst x2
      rw [show ({ s with cl := upd s.cl c2 (.got s.nextTok), nextTok := s.nextTok + 1 } : St).cl c2 = .got s.nextTok from same] at h2
      rw [show ({ s with cl := upd s.cl c2 (.got s.nextTok), nextTok := s.nextTok + 1 } : St).cl c1 = s.cl c1 from other c1 x1] at h1
      simp only [holdsTok] at h2; subst h2
      exact absurd (h.lt c1 _ h1) (Nat.lt_irrefl _)
    · rw [show ({ s with cl := upd s.cl c (.got s.nextTok), nextTok := s.nextTok + 1 } : St).cl c1 = s.cl c1 from other c1 x1] at h1
      rw [show ({ s with cl := upd s.cl c (.got s.nextTok), nextTok := s.nextTok + 1 } : St).cl c2 = s.cl c2 from other c2 x2] at h2
      exact h.uniq c1 c2 t h1 h2
  · intro t ht
    obtain ⟨⟨c0, hc0⟩, hna⟩ := h.q_wait t ht
    exact ⟨⟨c0, by show upd s.cl c (.got s.nextTok) c0 = _; rw [other c0 (wait_ne c0 t hc0)]; exact hc0⟩, hna⟩
  · intro hn
    obtain ⟨⟨c0, hc0⟩, hna, hnq⟩ := h.serving hn
    exact ⟨⟨c0, by show upd s.cl c (.got s.nextTok) c0 = _; rw [other c0 (wait_ne c0 _ hc0)]; exact hc0⟩, hna, hnq⟩
  · intro c' t ht
    by_cases x : c' = c
    · subst x
      rw [show ({ s with cl := upd s.cl c' (.got s.nextTok), nextTok := s.nextTok + 1 } : St).cl c' = .got s.nextTok from same] at ht
      cases ht
      refine ⟨?_, ?_, ?_⟩
      · intro hm
        obtain ⟨⟨c0, hc0⟩, _⟩ := h.q_wait _ hm
        exact absurd (h.lt c0 _ (by rw [hc0]; rfl)) (Nat.lt_irrefl _)
      · intro hn hcur
        obtain ⟨⟨c0, hc0⟩, _, _⟩ := h.serving hn
        have := h.lt c0 _ (by rw [hc0]; rfl)
        have hcur' : s.cur = s.nextTok := hcur
        omega
      · intro hm; exact absurd (h.ans_lt _ hm) (Nat.lt_irrefl _)
    · rw [show ({ s with cl := upd s.cl c (.got s.nextTok), nextTok := s.nextTok + 1 } : St).cl c' = s.cl c' from other c' x] at ht
      exact h.got_fresh c' t ht
  · intro t ht; exact Nat.lt_succ_of_lt (h.ans_lt t ht)
  · intro c' t ht; exact Nat.lt_succ_of_lt (h.ret_lt c' t ht)
  · intro c1 c2 t hm ht
    by_cases x : c2 = c
    · subst x
      rw [show ({ s with cl := upd s.cl c2 (.got s.nextTok), nextTok := s.nextTok + 1 } : St).cl c2 = .got s.nextTok from same] at ht
      simp only [holdsTok] at ht; subst ht
      exact absurd (h.ret_lt c1 _ hm) (Nat.lt_irrefl _)
    · rw [show ({ s with cl := upd s.cl c (.got s.nextTok), nextTok := s.nextTok + 1 } : St).cl c2 = s.cl c2 from other c2 x] at ht
      exact h.retd c1 c2 t hm ht
  · intro c' t ht
    by_cases x : c' = c
    · subst x
      rw [show ({ s with cl := upd s.cl c' (.got s.nextTok), nextTok := s.nextTok + 1 } : St).cl c' = .got s.nextTok from same] at ht
      cases ht
    · rw [show ({ s with cl := upd s.cl c (.got s.nextTok), nextTok := s.nextTok + 1 } : St).cl c' = s.cl c' from other c' x] at ht
      exact h.sent c' t ht

theorem send_step {cfg : Cfg} {s : St} (h : TokInv cfg s) (c t : Nat) (eg : s.cl c = .got t) :
    TokInv cfg { s with cl := upd s.cl c (.waiting t), queue := s.queue ++ [t], log := .sent c t :: s.log } := by
  have other : ∀ c', c' ≠ c → upd s.cl c (.waiting t) c' = s.cl c' := fun c' x => upd_other _ _ _ _ x
  have same : upd s.cl c (.waiting t) c = .waiting t := upd_same _ _ _
  have hold_iff : ∀ c' u, holdsTok (upd s.cl c (.waiting t) c') u ↔ holdsTok (s.cl c') u := by
    intro c' u
    by_cases x : c' = c
    · subst x; rw [same, eg]; simp [holdsTok]
    · rw [other c' x]
  have wait_ne : ∀ c0 u, s.cl c0 = .waiting u → c0 ≠ c := by
    intro c0 u x y; rw [y, eg] at x; cases x
  have g := h.got_fresh c t eg
  have mem_ret : ∀ c' u, Ev.ret c' u ∈ Ev.sent c t :: s.log → Ev.ret c' u ∈ s.log := by
    intro c' u hm
    rcases List.mem_cons.mp hm with x | x
    · cases x
    · exact x
  refine ⟨h.arm, h.inwrite, ?_, ?_, ?_, ?_, ?_, ?_, h.ans_lt, ?_, ?_, ?_, h.log⟩
  · intro c' u hu; exact h.lt c' u ((hold_iff c' u).mp hu)
  · intro c1 c2 u h1 h2; exact h.uniq c1 c2 u ((hold_iff c1 u).mp h1) ((hold_iff c2 u).mp h2)
  · intro u hu
    rcases List.mem_append.mp hu with x | x
    · obtain ⟨⟨c0, hc0⟩, hna⟩ := h.q_wait u x
      exact ⟨⟨c0, by show upd s.cl c (.waiting t) c0 = _; rw [other c0 (wait_ne c0 u hc0)]; exact hc0⟩, hna⟩
    · have : u = t := by simpa using x
      subst this
      exact ⟨⟨c, same⟩, g.2.2⟩
  · show (s.queue ++ [t]).Nodup
    rw [List.nodup_append]
    refine ⟨h.q_nodup, (by simp), ?_⟩
    intro a ha b hb
    have : b = t := by simpa using hb
    subst this
    intro x; subst x; exact g.1 ha
  · intro hn
    obtain ⟨⟨c0, hc0⟩, hna, hnq⟩ := h.serving hn
    refine ⟨⟨c0, by show upd s.cl c (.waiting t) c0 = _; rw [other c0 (wait_ne c0 _ hc0)]; exact hc0⟩, hna, ?_⟩
    intro hm
    rcases List.mem_append.mp hm with x | x
    · exact hnq x
    · have : s.cur = t := by simpa using x
      exact g.2.1 hn this
  · intro c' u hu
    have x : c' ≠ c := by
      intro x; subst x
      rw [show ({ s with cl := upd s.cl c' (.waiting t), queue := s.queue ++ [t], log := .sent c' t :: s.log } : St).cl c' = .waiting t from same] at hu
      cases hu
    rw [show ({ s with cl := upd s.cl c (.waiting t), queue := s.queue ++ [t], log := .sent c t :: s.log } : St).cl c' = s.cl c' from other c' x] at hu
    have g' := h.got_fresh c' u hu
    refine ⟨?_, g'.2.1, g'.2.2⟩
    intro hm
    rcases List.mem_append.mp hm with y | y
    · exact g'.1 y
    · have : u = t := by simpa using y
      subst this
      exact x (h.uniq c' c u (by rw [hu]; rfl) (by rw [eg]; rfl))
  · intro c' u hm; exact h.ret_lt c' u (mem_ret c' u hm)
  · intro c1 c2 u hm hu; exact h.retd c1 c2 u (mem_ret c1 u hm) ((hold_iff c2 u).mp hu)
  · intro c' u hu
    by_cases x : c' = c
    · subst x
      rw [show ({ s with cl := upd s.cl c' (.waiting t), queue := s.queue ++ [t], log := .sent c' t :: s.log } : St).cl c' = .waiting t from same] at hu
      cases hu
      exact List.mem_cons_self
    · rw [show ({ s with cl := upd s.cl c (.waiting t), queue := s.queue ++ [t], log := .sent c t :: s.log } : St).cl c' = s.cl c' from other c' x] at hu
      exact List.mem_cons_of_mem _ (h.sent c' u hu)

theorem ret_step {cfg : Cfg} {s : St} (h : TokInv cfg s) (c t : Nat) (ew : s.cl c = .waiting t) (ha : t ∈ s.answered) :
    TokInv cfg { s with cl := upd s.cl c .idle, log := .ret c t :: s.log } := by
  have other : ∀ c', c' ≠ c → upd s.cl c .idle c' = s.cl c' := fun c' x => upd_other _ _ _ _ x
  have same : upd s.cl c .idle c = .idle := upd_same _ _ _
  have hold_imp : ∀ c' u, holdsTok (upd s.cl c .idle c') u → c' ≠ c ∧ holdsTok (s.cl c') u := by
    intro c' u hu
    by_cases x : c' = c
    · subst x; rw [same] at hu; cases hu
    · rw [other c' x] at hu; exact ⟨x, hu⟩
  have keep : ∀ c0 u, s.cl c0 = .waiting u → u ∉ s.answered → upd s.cl c .idle c0 = .waiting u := by
    intro c0 u hc0 hna
    have : c0 ≠ c := by
      intro x; subst x; rw [ew] at hc0; cases hc0; exact hna ha
    rw [other c0 this]; exact hc0
  refine ⟨h.arm, h.inwrite, ?_, ?_, ?_, h.q_nodup, ?_, ?_, h.ans_lt, ?_, ?_, ?_, h.log⟩
  · intro c' u hu; exact h.lt c' u (hold_imp c' u hu).2
  · intro c1 c2 u h1 h2; exact h.uniq c1 c2 u (hold_imp c1 u h1).2 (hold_imp c2 u h2).2
  · intro u hu
    obtain ⟨⟨c0, hc0⟩, hna⟩ := h.q_wait u hu
    exact ⟨⟨c0, keep c0 u hc0 hna⟩, hna⟩
  · intro hn
    obtain ⟨⟨c0, hc0⟩, hna, hnq⟩ := h.serving hn
    exact ⟨⟨c0, keep c0 _ hc0 hna⟩, hna, hnq⟩
  · intro c' u hu
    have x : c' ≠ c := by
      intro x; subst x
      rw [show ({ s with cl := upd s.cl c' .idle, log := .ret c' t :: s.log } : St).cl c' = .idle from same] at hu
      cases hu
    rw [show ({ s with cl := upd s.cl c .idle, log := .ret c t :: s.log } : St).cl c' = s.cl c' from other c' x] at hu
    exact h.got_fresh c' u hu
  · intro c' u hm
    rcases List.mem_cons.mp hm with x | x
    · cases x; exact h.lt c t (by rw [ew]; rfl)
    · exact h.ret_lt c' u x
  · intro c1 c2 u hm hu
    obtain ⟨hne, hu'⟩ := hold_imp c2 u hu
    rcases List.mem_cons.mp hm with x | x
    · cases x
      exact hne (h.uniq c2 c t hu' (by rw [ew]; rfl))
    · exact h.retd c1 c2 u x hu'
  · intro c' u hu
    have x : c' ≠ c := by
      intro x; subst x
      rw [show ({ s with cl := upd s.cl c' .idle, log := .ret c' t :: s.log } : St).cl c' = .idle from same] at hu
      cases hu
    rw [show ({ s with cl := upd s.cl c .idle, log := .ret c t :: s.log } : St).cl c' = s.cl c' from other c' x] at hu
    exact List.mem_cons_of_mem _ (h.sent c' u hu)

theorem caller_step {cfg : Cfg} (hc : cfg.WF = true) {s : St} (h : TokInv cfg s) (c : Nat) (a : Act) :
    TokInv cfg (stepCaller cfg s c a) := by
  obtain ⟨_, _, _, _, _, hcw⟩ := wf_parts hc
  cases a with
  | tok c' =>
    simp only [stepCaller]
    split
    · rename_i e; exact tok_step h c e
    · exact h
  | send c' =>
    simp only [stepCaller]
    split
    · rename_i t e; exact send_step h c t e
    · exact h
  | ret c' =>
    simp only [stepCaller]
    split
    · rename_i t e
      split
      · rename_i hen
        rcases hen with x | x
        · exact ret_step h c t e x
        · rw [hcw] at x; cases x
      · exact h
    · exact h
  | rl m => exact h
  | acq r => exact h
  | readW r i => exact h
  | readId r => exact h
  | map r => exact h
  | rel r => exact h

theorem step_inv {cfg : Cfg} (hc : cfg.WF = true) {s : St} (h : TokInv cfg s) (a : Act) : TokInv cfg (step cfg s a) := by
  cases a with
  | rl m => exact rl_step hc h m
  | acq r => exact reader_step h r (Act.acq r)
  | readW r i => exact reader_step h r (Act.readW r i)
  | readId r => exact reader_step h r (Act.readId r)
  | map r => exact reader_step h r (Act.map r)
  | rel r => exact reader_step h r (Act.rel r)
  | tok c => exact caller_step hc h c (Act.tok c)
  | send c => exact caller_step hc h c (Act.send c)
  | ret c => exact caller_step hc h c (Act.ret c)

theorem run_inv {cfg : Cfg} (hc : cfg.WF = true) (s : St) (h : TokInv cfg s) (σ : List Act) : TokInv cfg (run cfg s σ) := by
  induction σ generalizing s with
  | nil => exact h
  | cons a as ih => exact ih _ (step_inv hc h a)

/-! ### Reading the log -/

theorem okLog_suffix {a b : List Ev} (h : OkLog (a ++ b)) : OkLog b := by
  induction a with
  | nil => exact h
  | cons e a ih =>
    cases e with
    | wr t => exact ih h.2
    | sent c t => exact ih h
    | ret c t => exact ih h

end AmVerif.Lemmas.IsoTok
