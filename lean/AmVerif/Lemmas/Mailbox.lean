import AmVerif.Model.Reloader
/-!
# Invariants of the answer mailbox (helper lemmas for C08)

`Inv` is preserved by every step (spurious wake-ups included) of every environment that is
*safe* (every update pass returns: no uncaught loader panic, no stack overflow) and *signalling*
(`wait_for_answer` notifies after emptying the slot — or there is at most one call).
-/
namespace AmVerif.Lemmas.Mailbox
open AmVerif.Model.Reloader

/-- every update pass comes back to the thread loop -/
def Safe (e : Env) : Prop := ∀ t, e.upd t = .ok ∨ (e.upd t = .panics ∧ e.catchesPanic = true)
/-- the slot-emptying caller wakes the reloader, or there is no second caller to be kept waiting -/
def Sig (e : Env) (n : Nat) : Prop := e.waitNotifies = true ∨ n ≤ 1

structure Inv (n : Nat) (s : St) : Prop where
  b  : ∀ t, s.c t ≠ .done → t < n
  i2 : ∀ u, s.slot = some u → s.c u ≠ .sleeping
  j  : ∀ t, where_ s t = if active (s.c t) then 1 else 0
  i1 : ∀ t, s.r = .sleep t → s.slot ≠ none
  al : s.r ≠ .dead ∧ s.r ≠ .aborted

theorem inv_init (n : Nat) : Inv n (init n) := by
  refine ⟨?_, by simp [init], ?_, by simp [init], by simp [init]⟩
  · intro t; simp only [init]; by_cases h : t < n <;> simp [h]
  · intro t; simp only [init, where_, holds, inSlot]; by_cases h : t < n <;> simp [h, active]

@[simp] theorem holds_wakeR (r : RPc) (t : Nat) : holds (wakeR r) t = holds r t := by
  cases r <;> simp [wakeR, holds]

theorem active_wakeAll (c : Nat → CPc) (j : Nat) : active (wakeAll c j) = active (c j) := by
  unfold wakeAll; by_cases h : c j = .sleeping <;> simp [h, active]

theorem wakeAll_done (c : Nat → CPc) (j : Nat) : wakeAll c j = .done ↔ c j = .done := by
  unfold wakeAll; by_cases h : c j = .sleeping <;> simp [h]

theorem wakeR_alive (r : RPc) (h : r ≠ .dead ∧ r ≠ .aborted) : wakeR r ≠ .dead ∧ wakeR r ≠ .aborted := by
  cases r <;> simp_all [wakeR]

/-- two distinct tokens in flight need two calls -/
theorem two_active {n : Nat} {s : St} (hb : ∀ t, s.c t ≠ .done → t < n) (t u : Nat) (htu : t ≠ u)
    (ht : active (s.c t) = true) (hu : active (s.c u) = true) : 2 ≤ n := by
  have h1 : t < n := hb t (by intro h; simp [h, active] at ht)
  have h2 : u < n := hb u (by intro h; simp [h, active] at hu)
  omega

theorem active_of_where {s : St} (j : ∀ t, where_ s t = if active (s.c t) then 1 else 0) (t : Nat)
    (h : 0 < where_ s t) : active (s.c t) = true := by
  have := j t
  cases ha : active (s.c t) with
  | true => rfl
  | false => simp [ha] at this; omega

theorem inv_step (e : Env) (n : Nat) (hs : Safe e) (hg : Sig e n) (s s' : St) (t : Tid)
    (h : step e s t = some s') (hi : Inv n s) : Inv n s' := by
  obtain ⟨b, i2, j, i1, al⟩ := hi
  cases t with
  | caller i =>
    simp only [step, al.2, if_false] at h
    cases hc : s.c i with
    | idle =>
      simp only [hc, al.1, if_false] at h
      cases h
      refine ⟨?_, ?_, ?_, i1, al⟩
      · intro t ht
        by_cases hti : t = i
        · subst hti; exact b t (by simp [hc])
        · exact b t (by simpa [upd, hti] using ht)
      · intro u hu
        show upd s.c i .sent u ≠ .sleeping
        by_cases hui : u = i
        · simp [upd, hui]
        · simpa [upd, hui] using i2 u hu
      · intro t
        have := j t
        show (s.queue ++ [i]).count t + holds s.r t + inSlot s.slot t = if active (upd s.c i .sent t) then 1 else 0
        simp only [where_] at this
        by_cases hti : t = i
        · subst hti; simp [upd, active, hc, List.count_append] at this ⊢; omega
        · have hne : ¬ (i = t) := fun e => hti e.symm
          simp [upd, hti, List.count_append, hne] at this ⊢; exact this
    | sleeping => simp [hc] at h
    | done => simp [hc] at h
    | sent | runnable =>
      all_goals
        simp only [hc] at h
        by_cases hsl : s.slot = some i
        · simp only [hsl, if_true] at h
          -- the reloader cannot be asleep here unless the caller wakes it
          have hnosleep : e.waitNotifies = false → ∀ t, s.r ≠ .sleep t := by
            intro hw t hr
            rcases hg with hg | hg
            · simp [hg] at hw
            · have hjt := j t
              have hji := j i
              simp only [where_, hr, hsl, holds, inSlot] at hjt hji
              have hne : t ≠ i := by
                intro e; subst e; simp at hjt
                split at hjt <;> omega
              have h1 : active (s.c t) = true := by
                cases ha : active (s.c t) with
                | true => rfl
                | false => simp [ha] at hjt
              have h2 : active (s.c i) = true := by simp [hc, active]
              have := two_active b t i hne h1 h2
              omega
          cases hw : e.waitNotifies with
          | true =>
            simp only [hw, if_true] at h
            cases h
            refine ⟨?_, by simp, ?_, ?_, wakeR_alive _ al⟩
            · intro t ht
              by_cases hti : t = i
              · subst hti; exact b t (by simp [hc])
              · refine b t ?_
                intro hd; apply ht
                show wakeAll (upd s.c i .done) t = .done
                rw [wakeAll_done]; simp [upd, hti, hd]
            · intro t
              have := j t
              show s.queue.count t + holds (wakeR s.r) t + inSlot none t = if active (wakeAll (upd s.c i .done) t) then 1 else 0
              simp only [where_] at this
              rw [active_wakeAll, holds_wakeR]
              by_cases hti : t = i
              · subst hti; simp [upd, active, hc, hsl, inSlot] at this ⊢; omega
              · have hne : ¬ (i = t) := fun e => hti e.symm
                simp [upd, hti, hsl, inSlot, hne] at this ⊢; exact this
            · intro t ht; exfalso; revert ht; show wakeR s.r = .sleep t → False; cases s.r <;> simp [wakeR]
          | false =>
            simp only [hw] at h
            cases h
            refine ⟨?_, by simp, ?_, ?_, al⟩
            · intro t ht
              by_cases hti : t = i
              · subst hti; exact b t (by simp [hc])
              · exact b t (by simpa [upd, hti] using ht)
            · intro t
              have := j t
              show s.queue.count t + holds s.r t + inSlot none t = if active (upd s.c i .done t) then 1 else 0
              simp only [where_] at this
              by_cases hti : t = i
              · subst hti; simp [upd, active, hc, hsl, inSlot] at this ⊢; omega
              · have hne : ¬ (i = t) := fun e => hti e.symm
                simp [upd, hti, hsl, inSlot, hne] at this ⊢; exact this
            · intro t ht; exact absurd ht (hnosleep hw t)
        · simp only [hsl, if_false] at h
          cases h
          refine ⟨?_, ?_, ?_, i1, al⟩
          · intro t ht
            by_cases hti : t = i
            · subst hti; exact b t (by simp [hc])
            · exact b t (by simpa [upd, hti] using ht)
          · intro u hu
            show upd s.c i .sleeping u ≠ .sleeping
            have hui : u ≠ i := by intro e; subst e; exact hsl hu
            simpa [upd, hui] using i2 u hu
          · intro t
            have := j t
            show where_ s t = if active (upd s.c i .sleeping t) then 1 else 0
            by_cases hti : t = i
            · subst hti; simp [upd, active, hc] at this ⊢; exact this
            · simp [upd, hti] at this ⊢; exact this
  | reloader =>
    simp only [step] at h
    cases hr : s.r with
    | recv =>
      simp only [hr] at h
      cases hq : s.queue with
      | nil => simp [hq] at h
      | cons t q =>
        simp only [hq] at h; cases h
        refine ⟨b, i2, ?_, by simp, by simp⟩
        intro u
        have := j u
        show q.count u + holds (.upd t) u + inSlot s.slot u = if active (s.c u) then 1 else 0
        simp only [where_, hq, hr, holds, List.count_cons] at this
        simp only [holds]
        by_cases e : t = u <;> simp [e] at this ⊢ <;> omega
    | upd t =>
      simp only [hr] at h
      have keep : ∀ sv, Inv n { s with r := .pub t, served := sv } := by
        intro sv
        refine ⟨b, i2, ?_, by simp, by simp⟩
        intro u
        have := j u
        show s.queue.count u + holds (.pub t) u + inSlot s.slot u = if active (s.c u) then 1 else 0
        simpa [where_, hr, holds] using this
      rcases hs t with hu | ⟨hu, hcatch⟩
      · simp only [hu] at h; cases h; exact keep _
      · simp only [hu, hcatch, if_true] at h; cases h; exact keep _
    | pub t =>
      simp only [hr] at h
      by_cases hsl : s.slot.isSome
      · simp only [hsl, if_true] at h; cases h
        refine ⟨b, i2, ?_, fun _ _ => by simpa [Option.isSome_iff_ne_none] using hsl, by simp⟩
        intro u
        have := j u
        show s.queue.count u + holds (.sleep t) u + inSlot s.slot u = if active (s.c u) then 1 else 0
        simpa [where_, hr, holds] using this
      · simp only [hsl] at h; cases h
        have hnone : s.slot = none := by simpa using hsl
        refine ⟨?_, ?_, ?_, by simp, by simp⟩
        · intro u hu
          refine b u ?_
          intro hd; apply hu
          show wakeAll s.c u = .done
          rw [wakeAll_done]; exact hd
        · intro u _
          show wakeAll s.c u ≠ .sleeping
          unfold wakeAll; by_cases hsl : s.c u = .sleeping <;> simp [hsl]
        · intro u
          have := j u
          show s.queue.count u + holds .recv u + inSlot (some t) u = if active (wakeAll s.c u) then 1 else 0
          rw [active_wakeAll]
          simp only [where_, hr, hnone, holds, inSlot] at this
          simp only [holds, inSlot]
          by_cases e : t = u <;> simp [e] at this ⊢ <;> omega
    | sleep t => simp [hr] at h
    | dead => simp [hr] at h
    | aborted => simp [hr] at h
  | spurious i =>
    simp only [step] at h
    by_cases hc : s.c i = .sleeping
    · simp only [hc, al.2, ne_eq, not_false_eq_true, and_self, if_true] at h; cases h
      refine ⟨?_, ?_, ?_, i1, al⟩
      · intro t ht
        by_cases hti : t = i
        · subst hti; exact b t (by simp [hc])
        · exact b t (by simpa [upd, hti] using ht)
      · intro u hu
        show upd s.c i .runnable u ≠ .sleeping
        by_cases hui : u = i
        · simp [upd, hui]
        · simpa [upd, hui] using i2 u hu
      · intro t
        have := j t
        show where_ s t = if active (upd s.c i .runnable t) then 1 else 0
        by_cases hti : t = i
        · subst hti; simp [upd, active, hc] at this ⊢; exact this
        · simp [upd, hti] at this ⊢; exact this
    · simp [hc] at h
  | spuriousR =>
    simp only [step] at h
    cases hr : s.r with
    | sleep t =>
      simp only [hr] at h; cases h
      refine ⟨b, i2, ?_, by simp, by simp⟩
      intro u
      have := j u
      show s.queue.count u + holds (.pub t) u + inSlot s.slot u = if active (s.c u) then 1 else 0
      simpa [where_, hr, holds] using this
    | recv => simp [hr] at h
    | upd t => simp [hr] at h
    | pub t => simp [hr] at h
    | dead => simp [hr] at h
    | aborted => simp [hr] at h

theorem inv_run (e : Env) (n : Nat) (hs : Safe e) (hg : Sig e n) (s : St) (σ : List Tid) (hi : Inv n s) :
    Inv n (run e s σ) := by
  induction σ generalizing s with
  | nil => exact hi
  | cons t ts ih =>
    simp only [run]
    cases h : step e s t with
    | none => exact ih s hi
    | some s' => exact ih s' (inv_step e n hs hg s s' t h hi)

end AmVerif.Lemmas.Mailbox
