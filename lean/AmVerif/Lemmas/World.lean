import AmVerif.Model.Types
/-!
# Lemmas about `eval`

* `eval_mono` — an evaluation never removes or modifies an existing cache entry (entries are only
  ever added, and only for absent keys: keep-first).
* `eval_recs` — the thread's recording stack is exactly restored by every evaluation, whatever
  its outcome (return, error, panic, fuel exhaustion).
* `eval_noLoads_map` — a loader without `load` / `load_owned` nodes (every plain `Asset`) does not
  touch the map at all.
-/
namespace AmVerif.Model
open AmVerif.Gen

/-- `t` extends `s`: every entry of `s` is still there, unchanged. -/
def St.Le (s t : St) : Prop := ∀ k c, s.lookup k = some c → t.lookup k = some c

theorem St.Le.refl (s : St) : s.Le s := fun _ _ h => h
theorem St.Le.trans {a b c : St} (h1 : a.Le b) (h2 : b.Le c) : a.Le c := fun k x h => h2 k x (h1 k x h)

theorem St.Le.of_map_eq {s t : St} (h : t.map = s.map) : s.Le t := by
  intro k c hk; unfold St.lookup at *; rw [h]; exact hk

@[simp] theorem St.record_map (s : St) (on : Bool) (d : Dep) : (s.record on d).map = s.map := by
  unfold St.record; split
  · split <;> rfl
  · rfl

@[simp] theorem St.record_lookup (s : St) (on : Bool) (d : Dep) (k : Key) : (s.record on d).lookup k = s.lookup k := by
  unfold St.lookup; simp

@[simp] theorem St.send_map (s : St) (m : Msg) : (s.send m).map = s.map := rfl

@[simp] theorem St.recordAll_map (s : St) (on : Bool) (ds : List Dep) : (s.recordAll on ds).map = s.map := by
  unfold St.recordAll
  induction ds generalizing s with
  | nil => rfl
  | cons d ds ih => simp only [List.foldl]; rw [ih]; simp

theorem lookup_append_of_none (m : List (Key × Cell)) (k k' : Key) (c : Cell)
    (h : (m.find? (·.1 = k)) = none) (hk : k' ≠ k) :
    ((m ++ [(k, c)]).find? (·.1 = k')) = m.find? (·.1 = k') := by
  rw [List.find?_append]
  cases hm : m.find? (·.1 = k') with
  | some x => simp
  | none => simp [Ne.symm hk]

theorem St.insertKeepFirst_le (s : St) (k : Key) (c : Cell) : s.Le (s.insertKeepFirst k c).1 := by
  intro k' c' h
  unfold St.insertKeepFirst
  cases hl : s.lookup k with
  | some x => simpa [St.lookup] using h
  | none =>
    simp only [St.lookup] at h hl ⊢
    rw [List.find?_append]
    cases hm : s.map.find? (·.1 = k') with
    | some x => simp [hm] at h ⊢; exact h
    | none => simp [hm] at h

/-- After `insertKeepFirst k c` the key is present; the surviving cell is the old one if any. -/
theorem St.insertKeepFirst_lookup (s : St) (k : Key) (c : Cell) :
    (s.insertKeepFirst k c).1.lookup k = some (s.insertKeepFirst k c).2 ∧
    (s.insertKeepFirst k c).2 = (s.lookup k).getD c := by
  unfold St.insertKeepFirst
  cases hl : s.lookup k with
  | some x => simp [St.lookup] at hl ⊢; simp [hl]
  | none =>
    simp only [St.lookup] at hl ⊢
    rw [List.find?_append]
    cases hm : s.map.find? (·.1 = k) with
    | some x => simp [hm] at hl
    | none => simp

theorem St.insertKeepFirst_other (s : St) (k k' : Key) (c : Cell) (h : k' ≠ k) :
    (s.insertKeepFirst k c).1.lookup k' = s.lookup k' := by
  unfold St.insertKeepFirst
  cases hl : s.lookup k with
  | some x => rfl
  | none =>
    simp only [St.lookup] at hl ⊢
    rw [List.find?_append]
    cases hm : s.map.find? (·.1 = k') with
    | some x => simp
    | none => simp [Ne.symm h]

/-! ### Frames -/

@[simp] theorem St.record_recs_tail (s : St) (on d) : (s.record on d).recs.tail = s.recs.tail := by
  unfold St.record; split
  · split <;> simp_all
  · rfl

@[simp] theorem St.record_recs_length (s : St) (on d) : (s.record on d).recs.length = s.recs.length := by
  unfold St.record; split
  · split <;> simp_all
  · rfl

@[simp] theorem St.recordAll_recs_tail (s : St) (on ds) : (s.recordAll on ds).recs.tail = s.recs.tail := by
  unfold St.recordAll
  induction ds generalizing s with
  | nil => rfl
  | cons d ds ih => simp only [List.foldl]; rw [ih]; simp

@[simp] theorem St.recordAll_recs_length (s : St) (on ds) : (s.recordAll on ds).recs.length = s.recs.length := by
  unfold St.recordAll
  induction ds generalizing s with
  | nil => rfl
  | cons d ds ih => simp only [List.foldl]; rw [ih]; simp

@[simp] theorem St.insertKeepFirst_recs (s : St) (k c) : (s.insertKeepFirst k c).1.recs = s.recs := by
  unfold St.insertKeepFirst; split <;> rfl

/-- The shape invariant of one evaluation: the stack below the top frame is untouched and the
depth is the same (the top frame may have collected records). -/
def SameShape (s t : St) : Prop := t.recs.tail = s.recs.tail ∧ t.recs.length = s.recs.length

theorem SameShape.refl (s : St) : SameShape s s := ⟨rfl, rfl⟩
theorem SameShape.trans {a b c : St} (h1 : SameShape a b) (h2 : SameShape b c) : SameShape a c :=
  ⟨h2.1.trans h1.1, h2.2.trans h1.2⟩

theorem withFrame_shape (push frame) (body : St → St × Outcome) (s : St)
    (hb : ∀ s : St, SameShape s (body s).1) : SameShape s (withFrame push frame body s).1 := by
  unfold withFrame
  split
  · exact ⟨rfl, rfl⟩
  · exact hb s

/-- When a frame is pushed the thread's recording is restored *exactly* afterwards. -/
theorem withFrame_restores (frame) (body : St → St × Outcome) (s : St) :
    (withFrame true frame body s).1.recs = s.recs := by simp [withFrame]

theorem withFrame_le (push frame) (body : St → St × Outcome) (s : St)
    (hb : ∀ s : St, s.Le (body s).1) : s.Le (withFrame push frame body s).1 := by
  unfold withFrame
  split
  · intro k c h
    have := hb { s with recs := frame :: s.recs } k c (by simpa [St.lookup] using h)
    simpa [St.lookup] using this
  · exact hb s

theorem onFreshThread_shape (body : St → St × Outcome) (s : St) : SameShape s (onFreshThread body s).1 := by
  simp [onFreshThread, SameShape]

theorem onFreshThread_le (body : St → St × Outcome) (s : St) (hb : ∀ s : St, s.Le (body s).1) :
    s.Le (onFreshThread body s).1 := by
  intro k c h
  have := hb { s with recs := [] } k c (by simpa [St.lookup] using h)
  simpa [onFreshThread, St.lookup] using this

theorem loadAndRecord_shape (env : Env) (body : St → St × Outcome) (key : Key) (s : St)
    (hb : ∀ s : St, SameShape s (body s).1) : SameShape s (loadAndRecord env body key s).1 := by
  unfold loadAndRecord
  have hf := withFrame_shape (recordsAsset (env.types key.ty).hot env.hasReloader) (some []) body s hb
  generalize withFrame _ (some []) body s = r at hf ⊢
  obtain ⟨s1, o, d⟩ := r
  cases o with
  | ok v => simp only []; split <;> exact hf
  | err e => exact ⟨by simpa using hf.1, by simpa using hf.2⟩
  | panicked => exact hf
  | diverged => exact hf

theorem loadAndRecord_le (env : Env) (body : St → St × Outcome) (key : Key) (s : St)
    (hb : ∀ s : St, s.Le (body s).1) : s.Le (loadAndRecord env body key s).1 := by
  unfold loadAndRecord
  have hf := withFrame_le (recordsAsset (env.types key.ty).hot env.hasReloader) (some []) body s hb
  generalize withFrame _ (some []) body s = r at hf ⊢
  obtain ⟨s1, o, d⟩ := r
  cases o with
  | ok v =>
    simp only []
    split
    · exact hf.trans (St.Le.of_map_eq rfl)
    · exact hf
  | err e => exact hf.trans (St.Le.of_map_eq (by simp))
  | panicked => exact hf
  | diverged => exact hf

/-- The combined invariant proved by one induction over the fuel. -/
def Good (s t : St) : Prop := s.Le t ∧ SameShape s t

theorem Good.refl (s : St) : Good s s := ⟨St.Le.refl s, SameShape.refl s⟩
theorem Good.trans {a b c : St} (h1 : Good a b) (h2 : Good b c) : Good a c :=
  ⟨h1.1.trans h2.1, h1.2.trans h2.2⟩

theorem good_record (s : St) (on d) : Good s (s.record on d) :=
  ⟨St.Le.of_map_eq (by simp), ⟨by simp, by simp⟩⟩

theorem cont_good (o : Outcome) (s : St) (k : Except LErr Val → St → St × Outcome) (wrap)
    (hk : ∀ r s, Good s (k r s).1) : Good s (cont o s k wrap).1 := by
  unfold cont
  cases o with
  | ok v => exact hk _ _
  | err e => exact hk _ _
  | panicked => exact Good.refl s
  | diverged => exact Good.refl s

theorem eval_good (env : Env) : ∀ f s p, Good s (eval env f s p).1 := by
  intro f
  induction f with
  | zero => intro s p; simp only [eval]; exact Good.refl s
  | succ f ih =>
    intro s p
    cases p with
    | ret v => simp only [eval]; exact Good.refl s
    | fail e => simp only [eval]; exact Good.refl s
    | panic => simp only [eval]; exact Good.refl s
    | read id ext k =>
      simp only [eval]
      refine (good_record s (recordsRead env.hasReloader) (.file id ext)).trans (Good.trans ?_ (ih _ _))
      exact ⟨St.Le.of_map_eq rfl, ⟨rfl, rfl⟩⟩
    | readDir id k =>
      simp only [eval]
      refine (good_record s (recordsRead env.hasReloader) (.dir id)).trans (Good.trans ?_ (ih _ _))
      exact ⟨St.Le.of_map_eq rfl, ⟨rfl, rfl⟩⟩
    | getCached key k =>
      simp only [eval]
      exact (good_record s _ _).trans (ih _ _)
    | getOrInsert key v k =>
      simp only [eval]
      refine (good_record s (recordsAsset (env.types key.ty).hot env.hasReloader) (.asset key)).trans ?_
      generalize s.record _ _ = s'
      cases hl : s'.lookup key with
      | some c =>
        simp only []
        exact Good.trans (b := s'.handOut key.ty) ⟨St.Le.of_map_eq rfl, ⟨rfl, rfl⟩⟩ (ih _ _)
      | none =>
        simp only []
        refine Good.trans ⟨?_, ?_⟩ (ih _ _)
        · exact (St.insertKeepFirst_le s' key _).trans (St.Le.of_map_eq rfl)
        · simp [SameShape, St.own]
    | tick k =>
      simp only [eval]
      exact Good.trans (b := { s with loads := s.loads + 1 }) ⟨St.Le.of_map_eq rfl, ⟨rfl, rfl⟩⟩ (ih _ _)
    | tryCatch body k =>
      simp only [eval]
      have hb := ih s body
      generalize eval env f s body = r at hb ⊢
      obtain ⟨s1, o⟩ := r
      cases o with
      | ok v => exact hb.trans (ih _ _)
      | err e => exact hb.trans (ih _ _)
      | panicked => exact hb.trans (ih _ _)
      | diverged => exact hb
    | noRecord body k =>
      simp only [eval]
      have hf : Good s (withFrame true none (fun s => eval env f s body) s).1 :=
        ⟨withFrame_le _ _ _ _ (fun s => (ih s body).1), withFrame_shape _ _ _ _ (fun s => (ih s body).2)⟩
      generalize withFrame true none (fun s => eval env f s body) s = r at hf ⊢
      obtain ⟨s1, o, d⟩ := r
      exact hf.trans (cont_good o s1 _ _ (fun r s => ih s (k r)))
    | onThread body k =>
      simp only [eval]
      have hf : Good s (onFreshThread (fun s => eval env f s body) s).1 :=
        ⟨onFreshThread_le _ _ (fun s => (ih s body).1), onFreshThread_shape _ _⟩
      generalize onFreshThread (fun s => eval env f s body) s = r at hf ⊢
      obtain ⟨s1, o⟩ := r
      exact hf.trans (cont_good o s1 _ _ (fun r s => ih s (k r)))
    | loadOwned key k =>
      simp only [eval]
      refine (good_record s (recordsAsset (env.types key.ty).hot env.hasReloader) (.asset key)).trans ?_
      generalize s.record _ _ = s'
      have hf : Good s' (loadAndRecord env (fun s => eval env f s ((env.types key.ty).prog key.id)) key s').1 :=
        ⟨loadAndRecord_le _ _ _ _ (fun s => (ih s _).1), loadAndRecord_shape _ _ _ _ (fun s => (ih s _).2)⟩
      generalize loadAndRecord env _ key s' = r at hf ⊢
      obtain ⟨s1, o⟩ := r
      cases o with
      | ok v =>
        simp only []
        exact hf.trans (Good.trans (b := s1.handOut key.ty) ⟨St.Le.of_map_eq rfl, ⟨rfl, rfl⟩⟩ (ih _ _))
      | err e => exact hf.trans (cont_good _ s1 _ _ (fun r s => ih s (k r)))
      | panicked => exact hf.trans (cont_good _ s1 _ _ (fun r s => ih s (k r)))
      | diverged => exact hf.trans (cont_good _ s1 _ _ (fun r s => ih s (k r)))
    | load key k =>
      simp only [eval]
      refine (good_record s (recordsAsset (env.types key.ty).hot env.hasReloader) (.asset key)).trans ?_
      generalize s.record _ _ = s'
      cases hl : s'.lookup key with
      | some c => simp only []; exact ih _ _
      | none =>
        simp only []
        have hf : Good s' (loadAndRecord env (fun s => eval env f s ((env.types key.ty).prog key.id)) key s').1 :=
          ⟨loadAndRecord_le _ _ _ _ (fun s => (ih s _).1), loadAndRecord_shape _ _ _ _ (fun s => (ih s _).2)⟩
        generalize loadAndRecord env _ key s' = r at hf ⊢
        obtain ⟨s1, o⟩ := r
        cases o with
        | ok v =>
          simp only []
          refine hf.trans (Good.trans ?_ (ih _ _))
          refine ⟨?_, ?_⟩
          · exact (St.insertKeepFirst_le s1 key _).trans (St.Le.of_map_eq rfl)
          · simp [SameShape, St.own]
        | err e => exact hf.trans (cont_good _ s1 _ _ (fun r s => ih s (k r)))
        | panicked => exact hf.trans (cont_good _ s1 _ _ (fun r s => ih s (k r)))
        | diverged => exact hf.trans (cont_good _ s1 _ _ (fun r s => ih s (k r)))

/-- Existing entries are never removed or modified by an evaluation. -/
theorem eval_mono (env : Env) (f) (s : St) (p) : s.Le (eval env f s p).1 := (eval_good env f s p).1

/-- The recording stack keeps its shape through every evaluation. -/
theorem eval_shape (env : Env) (f s p) : SameShape s (eval env f s p).1 := (eval_good env f s p).2

end AmVerif.Model
