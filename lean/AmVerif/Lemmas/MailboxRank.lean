import AmVerif.Model.Reloader
/-!
# Facts about the mailbox that hold in *every* environment (helper lemmas for C08)

* `bound_run`: only the `n` calls of the system ever move;
* `own_run`: a call returns only after its own request was served (or the thread had died before it sent);
* `rank_step`: every effective non-spurious step strictly decreases `rank`;
* `alive_run`: the process is aborted only by an overflowing update pass.
-/
namespace AmVerif.Lemmas.MailboxRank
open AmVerif.Model.Reloader

/-! ## counting -/

theorem cnt_le (p : CPc → Bool) (c : Nat → CPc) (n : Nat) : cnt p c n ≤ n := by
  induction n with
  | zero => simp [cnt]
  | succ n ih => simp only [cnt]; split <;> omega

theorem cnt_congr (p : CPc → Bool) (c c' : Nat → CPc) (n : Nat) (h : ∀ k, k < n → p (c k) = p (c' k)) :
    cnt p c n = cnt p c' n := by
  induction n with
  | zero => rfl
  | succ n ih =>
    simp only [cnt]
    rw [ih (fun k hk => h k (by omega)), h n (by omega)]

theorem cnt_upd_ge (p : CPc → Bool) (c : Nat → CPc) (i : Nat) (v : CPc) (n : Nat) (h : n ≤ i) :
    cnt p (upd c i v) n = cnt p c n := by
  apply cnt_congr
  intro k hk
  have : k ≠ i := by omega
  simp [upd, this]

theorem cnt_upd_lt (p : CPc → Bool) (c : Nat → CPc) (i : Nat) (v : CPc) (n : Nat) (h : i < n) :
    cnt p (upd c i v) n + (if p (c i) then 1 else 0) = cnt p c n + (if p v then 1 else 0) := by
  induction n with
  | zero => omega
  | succ n ih =>
    simp only [cnt]
    by_cases hin : i = n
    · subst hin
      rw [cnt_upd_ge p c i v i (Nat.le_refl _)]
      simp only [upd, if_true]
      omega
    · have hlt : i < n := by omega
      have := ih hlt
      have hne : n ≠ i := fun e => hin e.symm
      simp only [upd, hne, if_false] at this ⊢
      omega

theorem cnt_idle_wakeAll (c : Nat → CPc) (n : Nat) : cnt (· = .idle) (wakeAll c) n = cnt (· = .idle) c n := by
  apply cnt_congr
  intro k _
  unfold wakeAll
  by_cases h : c k = .sleeping <;> simp [h]

/-! ## only the `n` calls move -/

def Bound (n : Nat) (s : St) : Prop := ∀ t, s.c t ≠ .done → t < n

theorem wakeAll_done (c : Nat → CPc) (j : Nat) : wakeAll c j = .done ↔ c j = .done := by
  unfold wakeAll; by_cases h : c j = .sleeping <;> simp [h]

theorem bound_upd {n : Nat} {s : St} (b : Bound n s) (i : Nat) (v : CPc) (hi : s.c i ≠ .done) :
    ∀ t, upd s.c i v t ≠ .done → t < n := by
  intro t ht
  by_cases hti : t = i
  · subst hti; exact b t hi
  · exact b t (by simpa [upd, hti] using ht)

theorem bound_step (e : Env) (n : Nat) (s s' : St) (t : Tid) (h : step e s t = some s') (b : Bound n s) : Bound n s' := by
  cases t with
  | caller i =>
    simp only [step] at h
    by_cases hab : s.r = .aborted
    · simp [hab] at h
    · simp only [hab, if_false] at h
      cases hc : s.c i with
      | idle =>
        simp only [hc] at h
        have hi : s.c i ≠ .done := by simp [hc]
        by_cases hd : s.r = .dead
        · simp only [hd, if_true] at h; cases h; exact bound_upd b i _ hi
        · simp only [hd, if_false] at h; cases h; exact bound_upd b i _ hi
      | sleeping => simp [hc] at h
      | done => simp [hc] at h
      | sent | runnable =>
        all_goals
          simp only [hc] at h
          have hi : s.c i ≠ .done := by simp [hc]
          by_cases hsl : s.slot = some i
          · simp only [hsl, if_true] at h
            cases hw : e.waitNotifies with
            | true =>
              simp only [hw, if_true] at h; cases h
              intro t ht
              refine bound_upd b i .done hi t ?_
              intro hd; apply ht
              show wakeAll (upd s.c i .done) t = .done
              rw [wakeAll_done]; exact hd
            | false =>
              simp only [hw] at h; cases h; exact bound_upd b i _ hi
          · simp only [hsl, if_false] at h; cases h; exact bound_upd b i _ hi
  | reloader =>
    simp only [step] at h
    cases hr : s.r with
    | recv =>
      simp only [hr] at h
      cases hq : s.queue with
      | nil => simp [hq] at h
      | cons t q => simp only [hq] at h; cases h; exact b
    | upd t =>
      simp only [hr] at h
      cases hu : e.upd t with
      | ok => simp only [hu] at h; cases h; exact b
      | panics =>
        simp only [hu] at h
        cases hcp : e.catchesPanic <;> simp only [hcp] at h <;> cases h <;> exact b
      | overflow => simp only [hu] at h; cases h; exact b
    | pub t =>
      simp only [hr] at h
      by_cases hsl : s.slot.isSome
      · simp only [hsl, if_true] at h; cases h; exact b
      · simp only [hsl] at h; cases h
        intro u hu
        refine b u ?_
        intro hd; apply hu
        show wakeAll s.c u = .done
        rw [wakeAll_done]; exact hd
    | sleep t => simp [hr] at h
    | dead => simp [hr] at h
    | aborted => simp [hr] at h
  | spurious i =>
    simp only [step] at h
    by_cases hc : s.r ≠ .aborted ∧ s.c i = .sleeping
    · rw [if_pos hc] at h; cases h
      exact bound_upd b i _ (by simp [hc.2])
    · simp [hc] at h
  | spuriousR =>
    simp only [step] at h
    cases hr : s.r with
    | sleep t => simp only [hr] at h; cases h; exact b
    | recv => simp [hr] at h
    | upd t => simp [hr] at h
    | pub t => simp [hr] at h
    | dead => simp [hr] at h
    | aborted => simp [hr] at h

theorem bound_init (n : Nat) : Bound n (init n) := by
  intro t; simp only [init]; by_cases h : t < n <;> simp [h]

theorem bound_run (e : Env) (n : Nat) (s : St) (σ : List Tid) (b : Bound n s) : Bound n (run e s σ) := by
  induction σ generalizing s with
  | nil => exact b
  | cons t ts ih =>
    simp only [run]
    cases h : step e s t with
    | none => exact ih s b
    | some s' => exact ih s' (bound_step e n s s' t h b)

/-! ## a call returns by its own answer -/

structure Own (n : Nat) (s : St) : Prop where
  o1 : ∀ t, s.slot = some t → t ∈ s.served
  o2 : ∀ t, s.r = .pub t ∨ s.r = .sleep t → t ∈ s.served
  /-- a returned call was served, or it found the thread dead when it tried to send -/
  o3 : ∀ i, i < n → s.c i = .done → i ∈ s.served ∨ s.r = .dead

theorem wakeR_dead (r : RPc) : wakeR r = .dead ↔ r = .dead := by cases r <;> simp [wakeR]

theorem own_init (n : Nat) : Own n (init n) := by
  refine ⟨by simp [init], by simp [init], ?_⟩
  intro i hi; simp [init, hi]

theorem own_step (e : Env) (n : Nat) (s s' : St) (t : Tid) (h : step e s t = some s') (o : Own n s) : Own n s' := by
  obtain ⟨o1, o2, o3⟩ := o
  cases t with
  | caller i =>
    simp only [step] at h
    by_cases hab : s.r = .aborted
    · simp [hab] at h
    · simp only [hab, if_false] at h
      cases hc : s.c i with
      | idle =>
        simp only [hc] at h
        by_cases hd : s.r = .dead
        · rw [if_pos hd] at h; cases h
          exact ⟨o1, o2, fun k _ _ => Or.inr hd⟩
        · simp only [hd, if_false] at h; cases h
          refine ⟨o1, o2, ?_⟩
          intro k hk hkd
          have hki : k ≠ i := by intro e; subst e; simp [upd] at hkd
          exact o3 k hk (by simpa [upd, hki] using hkd)
      | sleeping => simp [hc] at h
      | done => simp [hc] at h
      | sent | runnable =>
        all_goals
          simp only [hc] at h
          by_cases hsl : s.slot = some i
          · simp only [hsl, if_true] at h
            have hserved := o1 i hsl
            cases hw : e.waitNotifies with
            | true =>
              simp only [hw, if_true] at h; cases h
              refine ⟨by simp, ?_, ?_⟩
              · intro t ht
                apply o2 t
                revert ht
                show wakeR s.r = .pub t ∨ wakeR s.r = .sleep t → _
                cases s.r <;> simp [wakeR]
              · intro k hk hkd
                have hkd' : upd s.c i .done k = .done := (wakeAll_done _ k).mp hkd
                by_cases hki : k = i
                · subst hki; exact Or.inl hserved
                · rcases o3 k hk (by simpa [upd, hki] using hkd') with h1 | h1
                  · exact Or.inl h1
                  · exact Or.inr ((wakeR_dead _).mpr h1)
            | false =>
              simp only [hw] at h; cases h
              refine ⟨by simp, o2, ?_⟩
              intro k hk hkd
              by_cases hki : k = i
              · subst hki; exact Or.inl hserved
              · exact o3 k hk (by simpa [upd, hki] using hkd)
          · simp only [hsl, if_false] at h; cases h
            refine ⟨o1, o2, ?_⟩
            intro k hk hkd
            have hki : k ≠ i := by intro e; subst e; simp [upd] at hkd
            exact o3 k hk (by simpa [upd, hki] using hkd)
  | reloader =>
    simp only [step] at h
    cases hr : s.r with
    | recv =>
      simp only [hr] at h
      cases hq : s.queue with
      | nil => simp [hq] at h
      | cons t q =>
        simp only [hq] at h; cases h
        refine ⟨o1, by simp, ?_⟩
        intro k hk hkd
        rcases o3 k hk hkd with h1 | h1
        · exact Or.inl h1
        · simp [hr] at h1
    | upd t =>
      simp only [hr] at h
      have o3' : ∀ k, k < n → s.c k = .done → k ∈ s.served := by
        intro k hk hkd
        rcases o3 k hk hkd with h1 | h1
        · exact h1
        · simp [hr] at h1
      have served : Own n { s with r := .pub t, served := t :: s.served } :=
        ⟨fun u hu => List.mem_cons_of_mem _ (o1 u hu), by simp, fun k hk hkd => Or.inl (List.mem_cons_of_mem _ (o3' k hk hkd))⟩
      cases hu : e.upd t with
      | ok => simp only [hu] at h; cases h; exact served
      | panics =>
        simp only [hu] at h
        cases hcp : e.catchesPanic with
        | true => simp only [hcp, if_true] at h; cases h; exact served
        | false => simp only [hcp] at h; cases h; exact ⟨o1, by simp, fun _ _ _ => Or.inr rfl⟩
      | overflow =>
        simp only [hu] at h; cases h
        exact ⟨o1, by simp, fun k hk hkd => Or.inl (o3' k hk hkd)⟩
    | pub t =>
      simp only [hr] at h
      have ht : t ∈ s.served := o2 t (Or.inl hr)
      by_cases hsl : s.slot.isSome
      · simp only [hsl, if_true] at h; cases h
        refine ⟨o1, ?_, ?_⟩
        · intro u hu; simp at hu; subst hu; exact ht
        · intro k hk hkd
          rcases o3 k hk hkd with h1 | h1
          · exact Or.inl h1
          · simp [hr] at h1
      · simp only [hsl] at h; cases h
        refine ⟨?_, by simp, ?_⟩
        · intro u hu; simp at hu; subst hu; exact ht
        · intro k hk hkd
          have hkd' : s.c k = .done := (wakeAll_done _ k).mp hkd
          rcases o3 k hk hkd' with h1 | h1
          · exact Or.inl h1
          · simp [hr] at h1
    | sleep t => simp [hr] at h
    | dead => simp [hr] at h
    | aborted => simp [hr] at h
  | spurious i =>
    simp only [step] at h
    by_cases hc : s.r ≠ .aborted ∧ s.c i = .sleeping
    · rw [if_pos hc] at h; cases h
      refine ⟨o1, o2, ?_⟩
      intro k hk hkd
      have hki : k ≠ i := by intro e; subst e; simp [upd] at hkd
      exact o3 k hk (by simpa [upd, hki] using hkd)
    · simp [hc] at h
  | spuriousR =>
    simp only [step] at h
    cases hr : s.r with
    | sleep t =>
      simp only [hr] at h; cases h
      refine ⟨o1, ?_, ?_⟩
      · intro u hu; simp at hu; subst hu; exact o2 _ (Or.inr hr)
      · intro k hk hkd
        rcases o3 k hk hkd with h1 | h1
        · exact Or.inl h1
        · simp [hr] at h1
    | recv => simp [hr] at h
    | upd t => simp [hr] at h
    | pub t => simp [hr] at h
    | dead => simp [hr] at h
    | aborted => simp [hr] at h

theorem own_run (e : Env) (n : Nat) (s : St) (σ : List Tid) (o : Own n s) : Own n (run e s σ) := by
  induction σ generalizing s with
  | nil => exact o
  | cons t ts ih =>
    simp only [run]
    cases h : step e s t with
    | none => exact ih s o
    | some s' => exact ih s' (own_step e n s s' t h o)

/-! ## bounded work -/

theorem rank_lt_major {n M M' m m' : Nat} (h : M' + 1 ≤ M) (hm : m' ≤ n + 1) :
    (n + 2) * M' + m' < (n + 2) * M + m := by
  have h1 := Nat.mul_le_mul_left (n + 2) h
  rw [Nat.mul_add, Nat.mul_one] at h1
  generalize (n + 2) * M' = X at h1 ⊢
  generalize (n + 2) * M = Y at h1 ⊢
  omega

theorem minor_le (s : St) (n : Nat) : minor s n ≤ n + 1 := by
  unfold minor
  have := cnt_le (fun p => p = .sent || p = .runnable) s.c n
  have : rcheck s.r ≤ 1 := by cases s.r <;> simp [rcheck]
  omega

theorem rank_major (s s' : St) (n : Nat) (h : major s' n + 1 ≤ major s n) : rank s' n < rank s n :=
  rank_lt_major h (minor_le s' n)

theorem rank_minor (s s' : St) (n : Nat) (h : major s' n = major s n) (hm : minor s' n + 1 ≤ minor s n) :
    rank s' n < rank s n := by
  unfold rank; rw [h]; omega

theorem weight_wakeR (r : RPc) : rweight (wakeR r) = rweight r := by
  cases r <;> simp [wakeR, rweight]

/-- Every effective step of a caller or of the reloader (i.e. every step that is not a spurious
wake-up) strictly decreases the rank, in every environment. -/
theorem rank_step (e : Env) (n : Nat) (s s' : St) (t : Tid) (b : Bound n s) (h : step e s t = some s')
    (ht : t = .reloader ∨ ∃ i, t = .caller i) : rank s' n < rank s n := by
  cases t with
  | caller i =>
    simp only [step] at h
    by_cases hab : s.r = .aborted
    · simp [hab] at h
    · simp only [hab, if_false] at h
      cases hc : s.c i with
      | idle =>
        simp only [hc] at h
        have hin : i < n := b i (by simp [hc])
        by_cases hd : s.r = .dead
        · rw [if_pos hd] at h; cases h
          apply rank_major
          have := cnt_upd_lt (· = .idle) s.c i .done n hin
          simp only [hc] at this
          simp only [major]
          simp at this
          omega
        · rw [if_neg hd] at h; cases h
          apply rank_major
          have := cnt_upd_lt (· = .idle) s.c i .sent n hin
          simp only [hc] at this
          simp only [major, List.length_append, List.length_singleton]
          simp at this
          omega
      | sleeping => simp [hc] at h
      | done => simp [hc] at h
      | sent | runnable =>
        all_goals
          simp only [hc] at h
          have hin : i < n := b i (by simp [hc])
          by_cases hsl : s.slot = some i
          · simp only [hsl, if_true] at h
            have hidle := cnt_upd_lt (· = .idle) s.c i .done n hin
            simp [hc] at hidle
            cases hw : e.waitNotifies with
            | true =>
              simp only [hw, if_true] at h; cases h
              apply rank_major
              simp only [major, cnt_idle_wakeAll, hsl]
              simp [hidle, weight_wakeR]
            | false =>
              simp only [hw] at h; cases h
              apply rank_major
              simp only [major, hsl]
              simp [hidle]
          · simp only [hsl, if_false] at h; cases h
            apply rank_minor
            · have hidle := cnt_upd_lt (· = .idle) s.c i .sleeping n hin
              simp [hc] at hidle
              simp only [major, hidle]
            · have hm := cnt_upd_lt (fun p => p = .sent || p = .runnable) s.c i .sleeping n hin
              simp [hc] at hm
              simp only [minor]
              omega
  | reloader =>
    simp only [step] at h
    cases hr : s.r with
    | recv =>
      simp only [hr] at h
      cases hq : s.queue with
      | nil => simp [hq] at h
      | cons t q =>
        simp only [hq] at h; cases h
        apply rank_major
        simp only [major, rweight, hr, hq, List.length_cons]
        omega
    | upd t =>
      simp only [hr] at h
      cases hu : e.upd t with
      | ok => simp only [hu] at h; cases h; apply rank_major; simp only [major, rweight, hr]; omega
      | panics =>
        simp only [hu] at h
        cases hcp : e.catchesPanic <;> simp only [hcp] at h <;> cases h <;> apply rank_major <;> simp only [major, rweight, hr] <;> omega
      | overflow => simp only [hu] at h; cases h; apply rank_major; simp only [major, rweight, hr]; omega
    | pub t =>
      simp only [hr] at h
      by_cases hsl : s.slot.isSome
      · simp only [hsl, if_true] at h; cases h
        apply rank_minor
        · simp only [major, rweight, hr]
        · simp only [minor, rcheck, hr]; omega
      · simp only [hsl] at h; cases h
        apply rank_major
        simp only [major, rweight, hr, cnt_idle_wakeAll]
        simp at hsl
        simp [hsl]
    | sleep t => simp [hr] at h
    | dead => simp [hr] at h
    | aborted => simp [hr] at h
  | spurious i => rcases ht with ht | ⟨_, ht⟩ <;> cases ht
  | spuriousR => rcases ht with ht | ⟨_, ht⟩ <;> cases ht

/-- number of effective (non-stutter) steps of a schedule -/
def work (e : Env) : St → List Tid → Nat
  | _, [] => 0
  | s, t :: ts => match step e s t with | some s' => work e s' ts + 1 | none => work e s ts

def NoSpurious (σ : List Tid) : Prop := ∀ t ∈ σ, t = .reloader ∨ ∃ i, t = .caller i

theorem work_le_rank (e : Env) (n : Nat) (s : St) (σ : List Tid) (b : Bound n s) (hσ : NoSpurious σ) :
    work e s σ + rank (run e s σ) n ≤ rank s n := by
  induction σ generalizing s with
  | nil => simp [work, run]
  | cons t ts ih =>
    have hts : NoSpurious ts := fun x hx => hσ x (List.mem_cons_of_mem _ hx)
    simp only [work, run]
    cases h : step e s t with
    | none => exact ih s b hts
    | some s' =>
      have := ih s' (bound_step e n s s' t h b) hts
      have := rank_step e n s s' t b h (hσ t (by simp))
      simp only []
      omega

theorem cnt_idle_init (n m : Nat) (h : m ≤ n) : cnt (· = .idle) (init n).c m = m := by
  induction m with
  | zero => rfl
  | succ m ih =>
    have hm : m < n := by omega
    simp only [cnt]
    rw [ih (by omega)]
    simp [init, hm]

theorem cnt_false (p : CPc → Bool) (c : Nat → CPc) (n : Nat) (h : ∀ k, k < n → p (c k) = false) : cnt p c n = 0 := by
  induction n with
  | zero => rfl
  | succ n ih => simp only [cnt, ih (fun k hk => h k (by omega)), h n (by omega)]; simp

theorem rank_init (n : Nat) : rank (init n) n = (n + 2) * (6 * n) := by
  have h1 := cnt_idle_init n n (Nat.le_refl _)
  have h2 : cnt (fun p => p = .sent || p = .runnable) (init n).c n = 0 := by
    apply cnt_false; intro k hk; simp [init, hk]
  unfold rank major minor
  rw [h1, h2]
  simp [init, rweight, rcheck]

/-! ## the process is aborted only by an overflowing update pass; the thread dies only by an uncaught panic -/

theorem alive_step (e : Env) (s s' : St) (t : Tid) (h : step e s t = some s') :
    (s'.r = .aborted → s.r = .aborted ∨ ∃ u, e.upd u = .overflow) ∧
    (s'.r = .dead → s.r = .dead ∨ ∃ u, e.upd u = .panics ∧ e.catchesPanic = false) := by
  cases t with
  | caller i =>
    simp only [step] at h
    by_cases hab : s.r = .aborted
    · simp [hab] at h
    · simp only [hab, if_false] at h
      cases hc : s.c i with
      | idle =>
        simp only [hc] at h
        by_cases hd : s.r = .dead
        · rw [if_pos hd] at h; cases h; exact ⟨fun h => Or.inl h, fun h => Or.inl h⟩
        · rw [if_neg hd] at h; cases h; exact ⟨fun h => Or.inl h, fun h => Or.inl h⟩
      | sleeping => simp [hc] at h
      | done => simp [hc] at h
      | sent | runnable =>
        all_goals
          simp only [hc] at h
          by_cases hsl : s.slot = some i
          · simp only [hsl, if_true] at h
            cases hw : e.waitNotifies with
            | true =>
              simp only [hw, if_true] at h; cases h
              constructor
              · show wakeR s.r = .aborted → _; cases s.r <;> simp [wakeR]
              · show wakeR s.r = .dead → _; cases s.r <;> simp [wakeR]
            | false => simp only [hw] at h; cases h; exact ⟨fun h => Or.inl h, fun h => Or.inl h⟩
          · simp only [hsl, if_false] at h; cases h; exact ⟨fun h => Or.inl h, fun h => Or.inl h⟩
  | reloader =>
    simp only [step] at h
    cases hr : s.r with
    | recv =>
      simp only [hr] at h
      cases hq : s.queue with
      | nil => simp [hq] at h
      | cons t q => simp only [hq] at h; cases h; simp
    | upd t =>
      simp only [hr] at h
      cases hu : e.upd t with
      | ok => simp only [hu] at h; cases h; simp
      | panics =>
        simp only [hu] at h
        cases hcp : e.catchesPanic with
        | true => simp only [hcp, if_true] at h; cases h; simp
        | false => simp only [hcp] at h; cases h; exact ⟨by simp, fun _ => Or.inr ⟨t, hu, rfl⟩⟩
      | overflow => simp only [hu] at h; cases h; exact ⟨fun _ => Or.inr ⟨t, hu⟩, by simp⟩
    | pub t =>
      simp only [hr] at h
      by_cases hsl : s.slot.isSome
      · simp only [hsl, if_true] at h; cases h; simp
      · simp only [hsl] at h; cases h; simp
    | sleep t => simp [hr] at h
    | dead => simp [hr] at h
    | aborted => simp [hr] at h
  | spurious i =>
    simp only [step] at h
    by_cases hc : s.r ≠ .aborted ∧ s.c i = .sleeping
    · rw [if_pos hc] at h; cases h; exact ⟨fun h => Or.inl h, fun h => Or.inl h⟩
    · simp [hc] at h
  | spuriousR =>
    simp only [step] at h
    cases hr : s.r with
    | sleep t => simp only [hr] at h; cases h; simp
    | recv => simp [hr] at h
    | upd t => simp [hr] at h
    | pub t => simp [hr] at h
    | dead => simp [hr] at h
    | aborted => simp [hr] at h

theorem alive_run (e : Env) (s : St) (σ : List Tid) :
    ((run e s σ).r = .aborted → s.r = .aborted ∨ ∃ u, e.upd u = .overflow) ∧
    ((run e s σ).r = .dead → s.r = .dead ∨ ∃ u, e.upd u = .panics ∧ e.catchesPanic = false) := by
  induction σ generalizing s with
  | nil => exact ⟨fun h => Or.inl h, fun h => Or.inl h⟩
  | cons t ts ih =>
    simp only [run]
    cases h : step e s t with
    | none => exact ih s
    | some s' =>
      have h1 := ih s'
      have h2 := alive_step e s s' t h
      constructor
      · intro hx
        rcases h1.1 hx with h3 | h3
        · exact h2.1 h3
        · exact Or.inr h3
      · intro hx
        rcases h1.2 hx with h3 | h3
        · exact h2.2 h3
        · exact Or.inr h3

end AmVerif.Lemmas.MailboxRank
