import AmVerif.Lemmas.Reload
/-!
# The ownership ledger (C13): every created value is held by exactly one live entry or has gone once

* `LedgerOK` — well-formedness of the ghost ledger `made` / `held` / `gone` against the map.
* list facts: the pigeonhole (`mem_of_nodup_full`), the permutations behind `release` / `swapValue`.
* `LedgerOK` is preserved by the four ghost updates at the places the model performs them
  (`LedgerOK.handOut`, `.ins`, `.release_filter`, `.swap`), hence by `eval` (`eval_ledger`),
  `step`, `reloadUntyped`, a whole pass, and every history (`runH_ledger`).
-/
namespace AmVerif.Model
open AmVerif.Gen

/-! ## List facts -/

/-- a duplicate-free list of naturals below `n` has at most `n` elements -/
theorem length_le_of_nodup_lt : ∀ (n : Nat) (l : List Nat), l.Nodup → (∀ x ∈ l, x < n) → l.length ≤ n := by
  intro n
  induction n with
  | zero =>
    intro l _ hlt
    cases l with
    | nil => exact Nat.le_refl _
    | cons a t => exact absurd (hlt a List.mem_cons_self) (Nat.not_lt_zero _)
  | succ n ih =>
    intro l hnd hlt
    have h1 : (l.erase n).length ≤ n := by
      refine ih (l.erase n) (hnd.erase n) ?_
      intro x hx
      have hx' := (hnd.mem_erase_iff).1 hx
      have := hlt x hx'.2
      omega
    have h2 := List.length_erase (a := n) (l := l)
    split at h2 <;> omega

/-- pigeonhole: a duplicate-free list of `n` naturals below `n` contains every natural below `n` -/
theorem mem_of_nodup_full (n : Nat) (l : List Nat) (hnd : l.Nodup) (hlt : ∀ x ∈ l, x < n) (hlen : l.length = n)
    (v : Nat) (hv : v < n) : v ∈ l := by
  apply Classical.byContradiction
  intro hmem
  have h := length_le_of_nodup_lt n (v :: l) (List.nodup_cons.2 ⟨hmem, hnd⟩) (by
    intro x hx
    rcases List.mem_cons.1 hx with rfl | hx
    · exact hv
    · exact hlt x hx)
  simp only [List.length_cons] at h
  omega

theorem inj_of_nodup_map {α β : Type} (f : α → β) : ∀ (l : List α), (l.map f).Nodup →
    ∀ x ∈ l, ∀ y ∈ l, f x = f y → x = y := by
  intro l
  induction l with
  | nil => intro _ x hx; cases hx
  | cons a t ih =>
    intro hnd x hx y hy e
    rw [List.map_cons, List.nodup_cons] at hnd
    rcases List.mem_cons.1 hx with ex | hx
    · rcases List.mem_cons.1 hy with ey | hy
      · rw [ex, ey]
      · refine absurd ?_ hnd.1
        rw [← ex, e]; exact List.mem_map.2 ⟨y, hy, rfl⟩
    · rcases List.mem_cons.1 hy with ey | hy
      · refine absurd ?_ hnd.1
        rw [← ey, ← e]; exact List.mem_map.2 ⟨x, hx, rfl⟩
      · exact ih hnd.2 x hx y hy e

/-- splitting the holders by a predicate on the address permutes the held values -/
theorem split_vals_perm (P : Nat → Prop) [DecidablePred P] : ∀ l : List (Nat × Nat),
    ((l.filter (fun x => P x.1)).map (·.2) ++ (l.filter (fun x => ¬ P x.1)).map (·.2)).Perm (l.map (·.2)) := by
  intro l
  induction l with
  | nil => exact List.Perm.refl _
  | cons x xs ih =>
    by_cases hp : P x.1
    · simp only [List.filter_cons, hp, decide_true, if_true, not_true_eq_false, decide_false, List.map_cons,
        List.cons_append]
      exact List.Perm.cons _ ih
    · simp only [List.filter_cons, hp, decide_false, not_false_eq_true, decide_true, if_true, List.map_cons]
      exact List.perm_middle.trans (List.Perm.cons _ ih)

theorem split_length (P : Nat → Prop) [DecidablePred P] (l : List (Nat × Nat)) :
    (l.filter (fun x => P x.1)).length + (l.filter (fun x => ¬ P x.1)).length = l.length := by
  have h := (split_vals_perm P l).length_eq
  simpa using h

/-- no holder at `addr`: `swapValue` does nothing to the holders -/
theorem swap_absent (addr n : Nat) : ∀ l : List (Nat × Nat), addr ∉ l.map (·.1) →
    l.map (fun x => if x.1 = addr then (addr, n) else x) = l ∧ l.filter (fun x => x.1 = addr) = [] := by
  intro l
  induction l with
  | nil => intro _; exact ⟨rfl, rfl⟩
  | cons x xs ih =>
    intro h
    rw [List.map_cons, List.mem_cons, not_or] at h
    have hx : ¬ x.1 = addr := fun e => h.1 e.symm
    obtain ⟨i1, i2⟩ := ih h.2
    refine ⟨?_, ?_⟩
    · rw [List.map_cons, i1]; simp only [hx, if_false]
    · simp only [List.filter_cons, hx, decide_false, i2]; rfl

/-- exactly one holder at `addr`: after `swapValue` the held values and the value that left are the
old held values plus the new one -/
theorem swap_vals_perm (addr n : Nat) : ∀ l : List (Nat × Nat), (l.map (·.1)).Nodup → addr ∈ l.map (·.1) →
    ((l.map (fun x => if x.1 = addr then (addr, n) else x)).map (·.2) ++ (l.filter (fun x => x.1 = addr)).map (·.2)).Perm
      (n :: l.map (·.2)) := by
  intro l
  induction l with
  | nil => intro _ h; cases h
  | cons x xs ih =>
    intro hnd hmem
    rw [List.map_cons, List.nodup_cons] at hnd
    by_cases hx : x.1 = addr
    · have hno : addr ∉ xs.map (·.1) := hx ▸ hnd.1
      obtain ⟨i1, i2⟩ := swap_absent addr n xs hno
      rw [List.map_cons, i1]
      simp only [List.filter_cons, hx, decide_true, if_true, i2, List.map_cons, List.map_nil, List.cons_append]
      refine List.Perm.cons _ ?_
      exact List.perm_append_comm (l₁ := xs.map (·.2)) (l₂ := [x.2])
    · have hmem' : addr ∈ xs.map (·.1) := by
        rw [List.map_cons, List.mem_cons] at hmem
        rcases hmem with e | h
        · exact absurd e.symm hx
        · exact h
      have := ih hnd.2 hmem'
      simp only [List.map_cons, hx, if_false, List.filter_cons, decide_false, List.cons_append]
      exact (List.Perm.cons x.2 this).trans (List.Perm.swap _ _ _)

theorem swap_fst (addr n : Nat) (l : List (Nat × Nat)) :
    (l.map (fun x => if x.1 = addr then (addr, n) else x)).map (·.1) = l.map (·.1) := by
  induction l with
  | nil => rfl
  | cons x xs ih =>
    rw [List.map_cons, List.map_cons, List.map_cons, ih]
    by_cases hx : x.1 = addr
    · simp only [hx, if_true]
    · simp only [hx, if_false]

/-! ## States that differ only in what the ledger does not look at -/

/-- same map, address counter and ledger (`recs` / `out` / `ios` / `loads` / `dropped` may differ) -/
structure St.Same (s t : St) : Prop where
  map : t.map = s.map
  next : t.next = s.next
  made : t.made = s.made
  held : t.held = s.held
  gone : t.gone = s.gone

theorem St.Same.refl (s : St) : s.Same s := ⟨rfl, rfl, rfl, rfl, rfl⟩

theorem St.Same.trans {a b c : St} (h1 : a.Same b) (h2 : b.Same c) : a.Same c :=
  ⟨h2.map.trans h1.map, h2.next.trans h1.next, h2.made.trans h1.made, h2.held.trans h1.held, h2.gone.trans h1.gone⟩

theorem St.record_same (s : St) (on : Bool) (d : Dep) : s.Same (s.record on d) := by
  unfold St.record
  split
  · split
    · exact ⟨rfl, rfl, rfl, rfl, rfl⟩
    · exact St.Same.refl s
  · exact St.Same.refl s

theorem St.recordAll_same (s : St) (on : Bool) (ds : List Dep) : s.Same (s.recordAll on ds) := by
  unfold St.recordAll
  induction ds generalizing s with
  | nil => exact St.Same.refl s
  | cons d ds ih => simp only [List.foldl]; exact (St.record_same s on d).trans (ih _)

theorem St.send_same (s : St) (m : Msg) : s.Same (s.send m) := ⟨rfl, rfl, rfl, rfl, rfl⟩

/-! ## Ledger well-formedness -/

/-- the values accounted for: held by a live entry, or gone -/
def St.vals (s : St) : List Nat := s.held.map (·.2) ++ s.gone

/-- ledger well-formedness -/
structure LedgerOK (s : St) : Prop where
  /-- one entry per key -/
  keys    : (s.map.map (·.1)).Nodup
  /-- entries have distinct addresses -/
  addrs   : (s.map.map (·.2.addr)).Nodup
  fresh   : ∀ x ∈ s.map, x.2.addr < s.next
  /-- the holders are exactly the live entries -/
  holders : s.held.map (·.1) = s.map.map (·.2.addr)
  /-- no value in two places, none gone twice -/
  once    : (s.held.map (·.2) ++ s.gone).Nodup
  /-- only created values -/
  known   : ∀ v ∈ s.held.map (·.2) ++ s.gone, v < s.made.length
  /-- none lost: every created value is held or gone -/
  all     : s.held.length + s.gone.length = s.made.length

theorem LedgerOK.init : LedgerOK ({} : St) :=
  ⟨List.nodup_nil, List.nodup_nil, fun _ h => (by cases h), rfl, List.nodup_nil, fun _ h => (by cases h), rfl⟩

theorem LedgerOK.of_same {s t : St} (h : LedgerOK s) (e : s.Same t) : LedgerOK t := by
  obtain ⟨hm, hn, hmade, hheld, hgone⟩ := e
  refine ⟨?_, ?_, ?_, ?_, ?_, ?_, ?_⟩
  · rw [hm]; exact h.keys
  · rw [hm]; exact h.addrs
  · rw [hm, hn]; exact h.fresh
  · rw [hm, hheld]; exact h.holders
  · rw [hheld, hgone]; exact h.once
  · rw [hheld, hgone, hmade]; exact h.known
  · rw [hheld, hgone, hmade]; exact h.all

theorem St.vals_length (s : St) : s.vals.length = s.held.length + s.gone.length := by
  simp [St.vals]

/-- the value part of the invariant, from a permutation: nothing created -/
theorem LedgerOK.of_vals_perm {s t : St} (h : LedgerOK s)
    (keys : (t.map.map (·.1)).Nodup) (addrs : (t.map.map (·.2.addr)).Nodup) (fresh : ∀ x ∈ t.map, x.2.addr < t.next)
    (holders : t.held.map (·.1) = t.map.map (·.2.addr))
    (hmade : t.made = s.made) (hp : t.vals.Perm s.vals) : LedgerOK t := by
  refine ⟨keys, addrs, fresh, holders, ?_, ?_, ?_⟩
  · exact (hp.nodup_iff).2 h.once
  · intro v hv; rw [hmade]; exact h.known v ((hp.mem_iff).1 hv)
  · rw [← St.vals_length, hp.length_eq, St.vals_length, hmade]; exact h.all

/-- the value part of the invariant, from a permutation: one value created -/
theorem LedgerOK.of_vals_perm_new {s t : St} (h : LedgerOK s) (ty : Nat)
    (keys : (t.map.map (·.1)).Nodup) (addrs : (t.map.map (·.2.addr)).Nodup) (fresh : ∀ x ∈ t.map, x.2.addr < t.next)
    (holders : t.held.map (·.1) = t.map.map (·.2.addr))
    (hmade : t.made = s.made ++ [ty]) (hp : t.vals.Perm (s.made.length :: s.vals)) : LedgerOK t := by
  refine ⟨keys, addrs, fresh, holders, ?_, ?_, ?_⟩
  · refine (hp.nodup_iff).2 (List.nodup_cons.2 ⟨?_, h.once⟩)
    intro hm; exact Nat.lt_irrefl _ (h.known _ hm)
  · intro v hv
    rw [hmade, List.length_append]
    rcases List.mem_cons.1 ((hp.mem_iff).1 hv) with rfl | hv
    · exact Nat.lt_succ_self _
    · exact Nat.lt_succ_of_lt (h.known v hv)
  · rw [← St.vals_length, hp.length_eq, List.length_cons, St.vals_length, hmade, List.length_append, h.all]; rfl

theorem LedgerOK.held_nodup {s : St} (h : LedgerOK s) : (s.held.map (·.1)).Nodup := by
  rw [h.holders]; exact h.addrs

/-! ## The four ghost updates -/

/-- a value that leaves at once (`load_owned`; `get_or_insert` on a present key) -/
theorem LedgerOK.handOut {s : St} (h : LedgerOK s) (ty : Nat) : LedgerOK (s.handOut ty) := by
  refine h.of_vals_perm_new ty h.keys h.addrs h.fresh h.holders rfl ?_
  show (s.held.map (·.2) ++ (s.gone ++ [s.made.length])).Perm (s.made.length :: (s.held.map (·.2) ++ s.gone))
  rw [← List.append_assoc]
  exact List.perm_append_comm (l₁ := s.held.map (·.2) ++ s.gone) (l₂ := [s.made.length])

theorem lookup_none_not_mem {s : St} {k : Key} (h : s.lookup k = none) : k ∉ s.map.map (·.1) := by
  intro hm
  obtain ⟨x, hx, e⟩ := List.mem_map.1 hm
  unfold St.lookup at h
  cases hf : s.map.find? (·.1 = k) with
  | some y => rw [hf] at h; cases h
  | none => exact (List.find?_eq_none.1 hf) x hx (by simpa using e)

/-- a freshly created value inserted keep-first at the next address: stored if the key was absent,
dropped with its entry if the key was there (`own`'s flag is what `insertKeepFirst` did) -/
theorem LedgerOK.ins {s : St} (h : LedgerOK s) (k : Key) (c : Cell) (ty : Nat) (hc : c.addr = s.next) :
    LedgerOK (St.own { (s.insertKeepFirst k c).1 with next := s.next + 1 } ty s.next (s.lookup k).isSome) := by
  unfold St.insertKeepFirst
  cases hl : s.lookup k with
  | some c' =>
    refine h.of_vals_perm_new ty h.keys h.addrs (fun x hx => Nat.lt_succ_of_lt (h.fresh x hx)) h.holders rfl ?_
    show (s.held.map (·.2) ++ (s.gone ++ [s.made.length])).Perm (s.made.length :: (s.held.map (·.2) ++ s.gone))
    rw [← List.append_assoc]
    exact List.perm_append_comm (l₁ := s.held.map (·.2) ++ s.gone) (l₂ := [s.made.length])
  | none =>
    refine h.of_vals_perm_new ty ?_ ?_ ?_ ?_ rfl ?_
    · show ((s.map ++ [(k, c)]).map (·.1)).Nodup
      rw [List.map_append, List.nodup_append]
      refine ⟨h.keys, by simp, ?_⟩
      intro a ha b hb e
      simp only [List.map_cons, List.map_nil, List.mem_singleton] at hb
      exact lookup_none_not_mem hl (hb ▸ e ▸ ha)
    · show ((s.map ++ [(k, c)]).map (·.2.addr)).Nodup
      rw [List.map_append, List.nodup_append]
      refine ⟨h.addrs, by simp, ?_⟩
      intro a ha b hb e
      simp only [List.map_cons, List.map_nil, List.mem_singleton] at hb
      obtain ⟨x, hx, ex⟩ := List.mem_map.1 ha
      have := h.fresh x hx
      rw [ex, e, hb, hc] at this
      exact Nat.lt_irrefl _ this
    · intro x hx
      show x.2.addr < s.next + 1
      rcases List.mem_append.1 hx with hx | hx
      · exact Nat.lt_succ_of_lt (h.fresh x hx)
      · simp only [List.mem_singleton] at hx
        rw [hx, hc]; exact Nat.lt_succ_self _
    · show (s.held ++ [(s.next, s.made.length)]).map (·.1) = (s.map ++ [(k, c)]).map (·.2.addr)
      rw [List.map_append, List.map_append, h.holders]
      simp [hc]
    · show ((s.held ++ [(s.next, s.made.length)]).map (·.2) ++ s.gone).Perm (s.made.length :: (s.held.map (·.2) ++ s.gone))
      rw [List.map_append, List.append_assoc]
      exact List.perm_middle (l₁ := s.held.map (·.2)) (l₂ := s.gone) (a := s.made.length)

/-- entries leave the map (`remove`, `take`, `clear`, dropping the cache): `q` keeps, `q'` = not `q`
selects the entries whose values go -/
theorem LedgerOK.release_filter {s : St} (h : LedgerOK s) (q q' : Key × Cell → Bool) (hq : ∀ x, q' x = !q x) :
    LedgerOK (St.release { s with map := s.map.filter q } ((s.map.filter q').map (·.2.addr))) := by
  have hmemA : ∀ x ∈ s.map, (x.2.addr ∈ (s.map.filter q').map (·.2.addr) ↔ q x = false) := by
    intro x hx
    constructor
    · intro hm
      obtain ⟨y, hy, e⟩ := List.mem_map.1 hm
      have hy' := List.mem_filter.1 hy
      have : y = x := inj_of_nodup_map (·.2.addr) s.map h.addrs y hy'.1 x hx e
      subst this
      have := hy'.2
      rw [hq] at this
      simpa using this
    · intro hqx
      exact List.mem_map.2 ⟨x, List.mem_filter.2 ⟨hx, by rw [hq, hqx]; rfl⟩, rfl⟩
  refine h.of_vals_perm ?_ ?_ ?_ ?_ rfl ?_
  · exact h.keys.sublist (List.Sublist.map _ List.filter_sublist)
  · exact h.addrs.sublist (List.Sublist.map _ List.filter_sublist)
  · intro x hx; exact h.fresh x (List.mem_filter.1 hx).1
  · show (s.held.filter (fun x => x.1 ∉ (s.map.filter q').map (·.2.addr))).map (·.1) = (s.map.filter q).map (·.2.addr)
    have e1 : (s.held.filter (fun x => x.1 ∉ (s.map.filter q').map (·.2.addr))).map (·.1)
        = (s.held.map (·.1)).filter (fun a => a ∉ (s.map.filter q').map (·.2.addr)) := by
      rw [List.filter_map]; rfl
    rw [e1, h.holders, List.filter_map]
    congr 1
    apply List.filter_congr
    intro x hx
    have := hmemA x hx
    cases hqx : q x with
    | true =>
      have hn : x.2.addr ∉ (s.map.filter q').map (·.2.addr) := fun hm => by
        have := this.1 hm; rw [hqx] at this; cases this
      simp only [Function.comp, hn, not_false_eq_true, decide_true]
    | false =>
      have hm := this.2 hqx
      simp only [Function.comp, hm, not_true_eq_false, decide_false]
  · show ((s.held.filter (fun x => x.1 ∉ (s.map.filter q').map (·.2.addr))).map (·.2)
        ++ (s.gone ++ (s.held.filter (fun x => x.1 ∈ (s.map.filter q').map (·.2.addr))).map (·.2))).Perm
        (s.held.map (·.2) ++ s.gone)
    have hp := split_vals_perm (fun a => a ∈ (s.map.filter q').map (·.2.addr)) s.held
    refine List.Perm.trans ?_ (List.Perm.append hp (List.Perm.refl s.gone))
    generalize (s.held.filter (fun x => x.1 ∈ (s.map.filter q').map (·.2.addr))).map (·.2) = A
    generalize (s.held.filter (fun x => ¬ x.1 ∈ (s.map.filter q').map (·.2.addr))).map (·.2) = B
    -- B ++ (gone ++ A) ~ (A ++ B) ++ gone
    exact (List.perm_append_comm (l₁ := B) (l₂ := s.gone ++ A)).trans
      ((List.append_assoc s.gone A B).symm ▸ (List.perm_append_comm (l₁ := s.gone) (l₂ := A ++ B)))

theorem addrsOf_eq (s : St) (key : Key) : addrsOf s key = (s.map.filter (fun x => decide (x.1 = key))).map (·.2.addr) := rfl

/-- `remove` / `take` -/
theorem LedgerOK.remove {s : St} (h : LedgerOK s) (key : Key) :
    LedgerOK (St.release { s with map := s.map.filter (·.1 ≠ key) } (addrsOf s key)) :=
  h.release_filter (fun x => decide (x.1 ≠ key)) (fun x => decide (x.1 = key)) (by intro x; simp)

/-- `clear`, dropping the cache: every entry leaves -/
theorem LedgerOK.dropAll {s : St} (h : LedgerOK s) :
    LedgerOK (St.release { s with map := [] } (s.map.map (·.2.addr))) := by
  have := h.release_filter (fun _ => false) (fun _ => true) (by intro x; rfl)
  have e1 : s.map.filter (fun _ => false) = [] := List.filter_eq_nil_iff.2 (by intro a _ h; cases h)
  have e2 : s.map.filter (fun _ => true) = s.map := List.filter_eq_self.2 (by intro a _; rfl)
  rw [e1, e2] at this
  exact this

theorem lookup_some_mem {s : St} {k : Key} {c : Cell} (h : s.lookup k = some c) : (k, c) ∈ s.map := by
  unfold St.lookup at h
  cases hf : s.map.find? (·.1 = k) with
  | none => rw [hf] at h; cases h
  | some y =>
    rw [hf] at h
    have hk : y.1 = k := by simpa using List.find?_some hf
    have hc : y.2 = c := by simpa using h
    have : y = (k, c) := by rw [← hk, ← hc]
    rw [← this]; exact List.mem_of_find?_eq_some hf

/-- `UntypedEntry::write`: the cell under `key` gets a new value (same entry, same address), the
value it held goes -/
theorem LedgerOK.swap {s : St} (h : LedgerOK s) (key : Key) (c c2 : Cell) (ty : Nat)
    (hl : s.lookup key = some c) (ha : c2.addr = c.addr) :
    LedgerOK ((s.setCell key c2).swapValue ty c.addr) := by
  have hmem := lookup_some_mem hl
  have hcell : ∀ x ∈ s.map, x.1 = key → x = (key, c) := by
    intro x hx e
    exact inj_of_nodup_map (·.1) s.map h.keys x hx (key, c) hmem e
  have hk : (s.setCell key c2).map.map (·.1) = s.map.map (·.1) := by
    unfold St.setCell
    simp only [List.map_map]
    apply List.map_congr_left
    intro x _
    by_cases e : x.1 = key
    · simp [e]
    · simp [e]
  have hadd : (s.setCell key c2).map.map (·.2.addr) = s.map.map (·.2.addr) := by
    unfold St.setCell
    simp only [List.map_map]
    apply List.map_congr_left
    intro x hx
    by_cases e : x.1 = key
    · have := hcell x hx e
      simp only [Function.comp, e, if_true, ha]
      rw [this]
    · simp [e]
  have haddr_mem : c.addr ∈ s.held.map (·.1) := by
    rw [h.holders]; exact List.mem_map.2 ⟨(key, c), hmem, rfl⟩
  refine h.of_vals_perm_new ty ?_ ?_ ?_ ?_ rfl ?_
  · show ((s.setCell key c2).map.map (·.1)).Nodup
    rw [hk]; exact h.keys
  · show ((s.setCell key c2).map.map (·.2.addr)).Nodup
    rw [hadd]; exact h.addrs
  · intro x hx
    have hx' : x ∈ (s.setCell key c2).map := hx
    have : x.2.addr ∈ s.map.map (·.2.addr) := by
      rw [← hadd]; exact List.mem_map.2 ⟨x, hx', rfl⟩
    obtain ⟨y, hy, e⟩ := List.mem_map.1 this
    show x.2.addr < s.next
    rw [← e]; exact h.fresh y hy
  · show (s.held.map (fun x => if x.1 = c.addr then (c.addr, s.made.length) else x)).map (·.1) = (s.setCell key c2).map.map (·.2.addr)
    rw [swap_fst, hadd]; exact h.holders
  · show ((s.held.map (fun x => if x.1 = c.addr then (c.addr, s.made.length) else x)).map (·.2)
        ++ (s.gone ++ (s.held.filter (fun x => x.1 = c.addr)).map (·.2))).Perm (s.made.length :: (s.held.map (·.2) ++ s.gone))
    have hp := swap_vals_perm c.addr s.made.length s.held h.held_nodup haddr_mem
    generalize (s.held.map (fun x => if x.1 = c.addr then (c.addr, s.made.length) else x)).map (·.2) = M at hp ⊢
    generalize (s.held.filter (fun x => x.1 = c.addr)).map (·.2) = F at hp ⊢
    -- M ++ (gone ++ F) ~ (M ++ F) ++ gone ~ (n :: H) ++ gone
    have h1 : (M ++ (s.gone ++ F)).Perm ((M ++ F) ++ s.gone) := by
      rw [List.append_assoc]
      exact List.Perm.append (List.Perm.refl M) List.perm_append_comm
    exact h1.trans (List.Perm.append hp (List.Perm.refl s.gone))

/-! ## `eval` -/

theorem withFrame_ledger (push frame) (body : St → St × Outcome) (s : St) (h : LedgerOK s)
    (hb : ∀ s, LedgerOK s → LedgerOK (body s).1) : LedgerOK (withFrame push frame body s).1 := by
  unfold withFrame
  split
  · exact (hb { s with recs := frame :: s.recs } (h.of_same ⟨rfl, rfl, rfl, rfl, rfl⟩)).of_same ⟨rfl, rfl, rfl, rfl, rfl⟩
  · exact hb s h

theorem onFreshThread_ledger (body : St → St × Outcome) (s : St) (h : LedgerOK s)
    (hb : ∀ s, LedgerOK s → LedgerOK (body s).1) : LedgerOK (onFreshThread body s).1 := by
  unfold onFreshThread
  exact (hb { s with recs := [] } (h.of_same ⟨rfl, rfl, rfl, rfl, rfl⟩)).of_same ⟨rfl, rfl, rfl, rfl, rfl⟩

theorem loadAndRecord_ledger (env : Env) (body : St → St × Outcome) (key : Key) (s : St) (h : LedgerOK s)
    (hb : ∀ s, LedgerOK s → LedgerOK (body s).1) : LedgerOK (loadAndRecord env body key s).1 := by
  unfold loadAndRecord
  have hf := withFrame_ledger (recordsAsset (env.types key.ty).hot env.hasReloader) (some []) body s h hb
  generalize withFrame _ (some []) body s = r at hf ⊢
  obtain ⟨s1, o, d⟩ := r
  cases o with
  | ok v =>
    simp only []
    split
    · exact hf.of_same (St.send_same _ _)
    · exact hf
  | err e => exact hf.of_same (St.recordAll_same _ _ _)
  | panicked => exact hf
  | diverged => exact hf

theorem cont_ledger (o : Outcome) (s : St) (k : Except LErr Val → St → St × Outcome) (wrap) (h : LedgerOK s)
    (hk : ∀ r s, LedgerOK s → LedgerOK (k r s).1) : LedgerOK (cont o s k wrap).1 := by
  unfold cont
  cases o with
  | ok v => exact hk _ _ h
  | err e => exact hk _ _ h
  | panicked => exact h
  | diverged => exact h

/-- **Every loader program preserves the ledger**: nested loads, `load_owned`, `get_or_insert` (also into the slot being loaded), failures, panics, fuel
exhaustion, helper threads, `no_record`. -/
theorem eval_ledger (env : Env) : ∀ f s p, LedgerOK s → LedgerOK (eval env f s p).1 := by
  intro f
  induction f with
  | zero => intro s p h; simp only [eval]; exact h
  | succ f ih =>
    intro s p h
    cases p with
    | ret v => simp only [eval]; exact h
    | fail e => simp only [eval]; exact h
    | panic => simp only [eval]; exact h
    | read id ext k =>
      simp only [eval]
      exact ih _ _ ((h.of_same (St.record_same s _ _)).of_same ⟨rfl, rfl, rfl, rfl, rfl⟩)
    | readDir id k =>
      simp only [eval]
      exact ih _ _ ((h.of_same (St.record_same s _ _)).of_same ⟨rfl, rfl, rfl, rfl, rfl⟩)
    | getCached key k =>
      simp only [eval]
      exact ih _ _ (h.of_same (St.record_same s _ _))
    | getOrInsert key v k =>
      simp only [eval]
      have h' := h.of_same (St.record_same s (recordsAsset (env.types key.ty).hot env.hasReloader) (.asset key))
      generalize s.record _ _ = s' at h'
      cases hl : s'.lookup key with
      | some c => simp only []; exact ih _ _ (h'.handOut key.ty)
      | none =>
        simp only []
        have := h'.ins key (insertedCell env key v s'.next) key.ty rfl
        rw [hl] at this
        exact ih _ _ this
    | tick k =>
      simp only [eval]
      exact ih _ _ (h.of_same (t := { s with loads := s.loads + 1 }) ⟨rfl, rfl, rfl, rfl, rfl⟩)
    | tryCatch body k =>
      simp only [eval]
      have hb := ih s body h
      generalize eval env f s body = r at hb ⊢
      obtain ⟨s1, o⟩ := r
      cases o with
      | ok v => exact ih _ _ hb
      | err e => exact ih _ _ hb
      | panicked => exact ih _ _ hb
      | diverged => exact hb
    | noRecord body k =>
      simp only [eval]
      have hf : LedgerOK (withFrame true none (fun s => eval env f s body) s).1 :=
        withFrame_ledger _ _ _ _ h (fun s hs => ih s body hs)
      generalize withFrame true none (fun s => eval env f s body) s = r at hf ⊢
      obtain ⟨s1, o, d⟩ := r
      exact cont_ledger o s1 _ _ hf (fun r s hs => ih s (k r) hs)
    | onThread body k =>
      simp only [eval]
      have hf : LedgerOK (onFreshThread (fun s => eval env f s body) s).1 :=
        onFreshThread_ledger _ _ h (fun s hs => ih s body hs)
      generalize onFreshThread (fun s => eval env f s body) s = r at hf ⊢
      obtain ⟨s1, o⟩ := r
      exact cont_ledger o s1 _ _ hf (fun r s hs => ih s (k r) hs)
    | loadOwned key k =>
      simp only [eval]
      have h' := h.of_same (St.record_same s (recordsAsset (env.types key.ty).hot env.hasReloader) (.asset key))
      generalize s.record _ _ = s' at h'
      have hf : LedgerOK (loadAndRecord env (fun s => eval env f s ((env.types key.ty).prog key.id)) key s').1 :=
        loadAndRecord_ledger _ _ _ _ h' (fun s hs => ih s _ hs)
      generalize loadAndRecord env _ key s' = r at hf ⊢
      obtain ⟨s1, o⟩ := r
      cases o with
      | ok v => exact ih _ _ (LedgerOK.handOut hf key.ty)
      | err e => exact cont_ledger _ s1 _ _ hf (fun r s hs => ih s (k r) hs)
      | panicked => exact cont_ledger _ s1 _ _ hf (fun r s hs => ih s (k r) hs)
      | diverged => exact cont_ledger _ s1 _ _ hf (fun r s hs => ih s (k r) hs)
    | load key k =>
      simp only [eval]
      have h' := h.of_same (St.record_same s (recordsAsset (env.types key.ty).hot env.hasReloader) (.asset key))
      generalize s.record _ _ = s' at h'
      cases hl : s'.lookup key with
      | some c => simp only []; exact ih _ _ h'
      | none =>
        simp only []
        have hf : LedgerOK (loadAndRecord env (fun s => eval env f s ((env.types key.ty).prog key.id)) key s').1 :=
          loadAndRecord_ledger _ _ _ _ h' (fun s hs => ih s _ hs)
        generalize loadAndRecord env _ key s' = r at hf ⊢
        obtain ⟨s1, o⟩ := r
        cases o with
        | ok v =>
          simp only []
          exact ih _ _ (LedgerOK.ins hf key (newCell env key.ty v s1.next) key.ty rfl)
        | err e => exact cont_ledger _ s1 _ _ hf (fun r s hs => ih s (k r) hs)
        | panicked => exact cont_ledger _ s1 _ _ hf (fun r s hs => ih s (k r) hs)
        | diverged => exact cont_ledger _ s1 _ _ hf (fun r s hs => ih s (k r) hs)

theorem evalTop_ledger (env : Env) (fuel : Nat) (s : St) (p : Prog) (h : LedgerOK s) : LedgerOK (evalTop env fuel s p).1 := by
  unfold evalTop
  exact (eval_ledger env fuel { s with recs := [] } p (h.of_same ⟨rfl, rfl, rfl, rfl, rfl⟩)).of_same ⟨rfl, rfl, rfl, rfl, rfl⟩

/-! ## API operations -/

theorem step_ledger (env : Env) (fuel : Nat) (s : St) (op : Op) (h : LedgerOK s) : LedgerOK (step env fuel s op).1 := by
  cases op with
  | load key => rw [step_load_fst]; exact evalTop_ledger env fuel s _ h
  | loadOwned key => rw [step_loadOwned_fst]; exact evalTop_ledger env fuel s _ h
  | getCached key => exact h
  | contains key => exact h
  | getOrInsert key v =>
    simp only [step]
    cases hl : s.lookup key with
    | some c' => exact h.handOut key.ty
    | none =>
      simp only []
      have := h.ins key (insertedCell env key v s.next) key.ty rfl
      rw [hl] at this
      exact this
  | remove key => exact h.remove key
  | take key => exact h.remove key
  | clear =>
    simp only [step]
    cases env.hasReloader with
    | false => exact h.dropAll
    | true => exact h.dropAll.of_same ⟨rfl, rfl, rfl, rfl, rfl⟩

/-! ## Hot-reloading -/

theorem reloadUntyped_ledger (env : Env) (fuel : Nat) (s : St) (key : Key) (h : LedgerOK s) :
    LedgerOK (reloadUntyped env fuel s key).1 := by
  unfold reloadUntyped
  cases hc : s.lookup key with
  | none => exact h
  | some c =>
    simp only []
    by_cases hskip : (reloadSkipsStatic && !c.dyn) = true
    · simp only [hskip, if_true]; exact h
    · simp only [hskip]
      have hle := reloadEval_le env fuel s key
      have hok : LedgerOK (reloadEval env fuel s key).1 :=
        withFrame_ledger true (some []) _ _ (h.of_same (t := { s with recs := [] }) ⟨rfl, rfl, rfl, rfl, rfl⟩)
          (fun s hs => eval_ledger env fuel s _ hs)
      unfold reloadEval at hle hok
      generalize withFrame true (some []) (fun s => eval env fuel s ((env.types key.ty).prog key.id)) { s with recs := [] } = r0 at hle hok ⊢
      obtain ⟨s1, o, deps⟩ := r0
      simp only [] at hle hok ⊢
      have hle' : s.Le { s1 with recs := [] } := hle.trans (St.Le.of_map_eq rfl)
      have hok' : LedgerOK { s1 with recs := [] } := hok.of_same ⟨rfl, rfl, rfl, rfl, rfl⟩
      cases o with
      | ok v =>
        simp only []
        by_cases hd : c.dyn = true
        case neg =>
          simp only [hd]
          exact hok'.handOut key.ty
        case pos =>
          simp only [hd, if_true]
          have hl : St.lookup { s1 with recs := [] } key = some c := hle' key c hc
          simp only [hl]
          exact hok'.swap key c _ key.ty hl rfl
      | err e => exact hok'
      | panicked =>
        simp only []
        cases reloadCatchesPanic <;> exact hok'
      | diverged => exact hok'

theorem reloadAll_ledger (env : Env) (fuel : Nat) (keys : List Key) (s : St) (r : RSt) (h : LedgerOK s) :
    LedgerOK (reloadAll env fuel keys (s, r)).1 := by
  refine reloadAll_ind env fuel (fun _ s t => LedgerOK s → LedgerOK t) (fun _ h => h) ?_ keys s r h
  intro k ks s s1 s2 h1 h2 hs
  rcases h1 with rfl | rfl
  · exact h2 hs
  · exact h2 (reloadUntyped_ledger env fuel s k hs)

theorem runUpdate_ledger (env : Env) (fuel : Nat) (s : St) (r : RSt) (h : LedgerOK s) : LedgerOK (runUpdate env fuel s r).1 := by
  rcases runUpdate_form env fuel s r with ⟨_, e⟩ | ⟨keys, _, e⟩
  · rw [e]; exact h
  · rw [e]; exact reloadAll_ledger env fuel keys s _ h

theorem processMsgs_ledger (s : St) (r : RSt) (h : LedgerOK s) : LedgerOK (processMsgs s r).1 :=
  h.of_same ⟨rfl, rfl, rfl, rfl, rfl⟩

theorem handleEvents_ledger (env : Env) (fuel : Nat) (s : St) (r : RSt) (evs : List Dep) (h : LedgerOK s) :
    LedgerOK (handleEvents env fuel s r evs).1 := by
  unfold handleEvents
  split
  · exact h
  · simp only []
    split
    · exact processMsgs_ledger _ _ (runUpdate_ledger env fuel _ _ (processMsgs_ledger s r h))
    · exact processMsgs_ledger s r h

theorem hotReload_ledger (env : Env) (fuel : Nat) (s : St) (r : RSt) (h : LedgerOK s) : LedgerOK (hotReload env fuel s r).1 := by
  unfold hotReload
  split
  · exact h
  · simp only []
    split
    · exact processMsgs_ledger s r h
    · exact processMsgs_ledger _ _ (runUpdate_ledger env fuel _ _ (processMsgs_ledger s r h))

theorem enhance_ledger (env : Env) (fuel : Nat) (s : St) (r : RSt) (h : LedgerOK s) : LedgerOK (enhance env fuel s r).1 := by
  unfold enhance
  split
  · exact h
  · simp only []
    split
    · exact processMsgs_ledger s r h
    · exact processMsgs_ledger _ _ (runUpdate_ledger env fuel _ _ (processMsgs_ledger s r h))

/-! ## Histories -/

theorem hstep_ledger (fuel : Nat) (e : Env × HOp) (x : St × RSt) (h : LedgerOK x.1) : LedgerOK (hstep fuel e x).1 := by
  obtain ⟨env, op⟩ := e
  obtain ⟨s, r⟩ := x
  cases op with
  | api op => exact step_ledger env fuel s op h
  | notify evs => exact handleEvents_ledger env fuel s r evs h
  | hotReload => exact hotReload_ledger env fuel s r h
  | enhance => exact enhance_ledger env fuel s r h

theorem runH_ledger (fuel : Nat) (hs : List (Env × HOp)) (x : St × RSt) (h : LedgerOK x.1) : LedgerOK (runH fuel hs x).1 := by
  induction hs generalizing x with
  | nil => exact h
  | cons e es ih => simp only [runH]; exact ih _ (hstep_ledger fuel e x h)

end AmVerif.Model
