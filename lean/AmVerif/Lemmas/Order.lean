import AmVerif.Lemmas.StaticMode
/-!
# The order in which the reloader takes registrations and events

`handle_events` drains the channel of `AddAsset` / `Clear` messages BEFORE it filters the events
against the dependency graph, so a registration that is already in the channel when an event
arrives is in the graph when the event is looked up.

* `graph_get_insertAsset_mono`, `graph_get_insertAsset_dep`, `graph_get_insertAsset_self` —
  `Graph.insertAsset` never removes a node and creates the nodes of the asset and of its dependencies;
* `drain_get_mono`, `drain_registers` — the same through a whole channel (`drain` = `processMsgs`),
  whatever the other messages are;
* `OutExt`, `eval_outExt` — an evaluation only appends to the channel;
* `step_load_out` — the channel after an API `load` of an absent key of a reloadable type that
  returned a handle: what it was, what nested loads sent, then `AddAsset key deps`.
-/
namespace AmVerif.Model
open AmVerif.Gen AmVerif.Lemmas.TopoGraph

/-! ## `Graph.insertAsset` only adds nodes -/

/-- the reverse-edge insertions keep every node and create the nodes of `deps` -/
theorem get_addR_fold_isSome (a : Dep) (deps : List Dep) (g : Graph) (x : Dep)
    (h : (g.get x).isSome ∨ x ∈ deps) : ((deps.foldl (addR a) g).get x).isSome := by
  rw [get_addR_fold]
  by_cases hx : x ∈ deps
  · rw [if_pos hx]; rfl
  · rw [if_neg hx]
    rcases h with h | h
    · exact h
    · exact absurd h hx

/-- a node of the graph after the reverse-edge insertions is a node after `insertAsset`, and so is `a` -/
theorem insertAsset_isSome_of_g1 (g : Graph) (a : Dep) (deps : List Dep) (x : Dep)
    (h : ((deps.foldl (addR a) g).get x).isSome ∨ x = a) : ((g.insertAsset a deps).get x).isSome := by
  cases h1 : (deps.foldl (addR a) g).get a with
  | none =>
    rw [get_insertAsset_none h1]
    by_cases hx : x = a
    · rw [if_pos hx]; rfl
    · rw [if_neg hx]
      rcases h with h | h
      · exact h
      · exact absurd h hx
  | some old =>
    rw [get_insertAsset_some h1, Option.isSome_map]
    rcases h with h | h
    · exact h
    · subst h; rw [h1]; rfl

/-- **Nodes are never removed by `insertAsset`.** -/
theorem graph_get_insertAsset_mono (g : Graph) (a : Dep) (deps : List Dep) (d : Dep)
    (h : (g.get d).isSome) : ((g.insertAsset a deps).get d).isSome :=
  insertAsset_isSome_of_g1 g a deps d (Or.inl (get_addR_fold_isSome a deps g d (Or.inl h)))

/-- every dependency of the registered asset has a node afterwards -/
theorem graph_get_insertAsset_dep (g : Graph) (a : Dep) (deps : List Dep) (d : Dep)
    (h : d ∈ deps) : ((g.insertAsset a deps).get d).isSome :=
  insertAsset_isSome_of_g1 g a deps d (Or.inl (get_addR_fold_isSome a deps g d (Or.inr h)))

/-- the registered asset has a node afterwards -/
theorem graph_get_insertAsset_self (g : Graph) (a : Dep) (deps : List Dep) :
    ((g.insertAsset a deps).get a).isSome :=
  insertAsset_isSome_of_g1 g a deps a (Or.inr rfl)

/-! ## … and so does a whole channel -/

theorem drain_cons (m : Msg) (ms : List Msg) (r : RSt) :
    drain (m :: ms) r = drain ms (drain [m] r) := rfl

theorem drain_append (ms ms' : List Msg) (r : RSt) : drain (ms ++ ms') r = drain ms' (drain ms r) := by
  unfold drain; rw [List.foldl_append]

/-- draining messages never removes a node of the graph -/
theorem drain_get_mono (msgs : List Msg) : ∀ (r : RSt) (d : Dep), (r.graph.get d).isSome →
    ((drain msgs r).graph.get d).isSome := by
  induction msgs with
  | nil => intro r d h; exact h
  | cons m ms ih =>
    intro r d h
    rw [drain_cons]
    apply ih
    cases m with
    | addAsset key deps => exact graph_get_insertAsset_mono r.graph (.asset key) deps d h
    | clear => exact h

/-- **A pending registration is in the graph after the drain** — the asset and each of its
dependencies — whatever else is in the channel before or after it (`Clear`, other registrations, a
later registration of the same key with other dependencies). -/
theorem drain_registers (msgs : List Msg) (key : Key) (deps : List Dep) : ∀ (r : RSt),
    Msg.addAsset key deps ∈ msgs → ∀ e, (e ∈ deps ∨ e = .asset key) → ((drain msgs r).graph.get e).isSome := by
  induction msgs with
  | nil => intro r h; cases h
  | cons m ms ih =>
    intro r h e he
    rw [drain_cons]
    rcases List.mem_cons.mp h with h | h
    · subst h
      apply drain_get_mono
      show ((r.graph.insertAsset (.asset key) deps).get e).isSome
      rcases he with he | he
      · exact graph_get_insertAsset_dep _ _ _ _ he
      · subst he; exact graph_get_insertAsset_self _ _ _
    · exact ih _ h e he

/-- an event whose entry is registered by a pending message is taken (`takeEvents` = the state
`handle_events` has after the drain and the filter, in either mode) -/
theorem takeEvents_registered (s : St) (r : RSt) (evs : List Dep) (key : Key) (deps : List Dep) (e : Dep)
    (hm : Msg.addAsset key deps ∈ s.out) (he : e ∈ deps ∨ e = .asset key) (hev : e ∈ evs) :
    e ∈ (takeEvents s r evs).2.toReload := by
  unfold takeEvents
  apply mem_keepEvents _ evs _ e hev
  rw [processMsgs_eq]
  have h := drain_registers s.out key deps r hm e he
  intro hn
  simp only [] at hn
  rw [hn] at h
  cases h

/-! ## An evaluation only appends to the channel -/

/-- `t`'s channel is `s`'s channel with messages appended -/
def OutExt (s t : St) : Prop := ∃ new : List Msg, t.out = s.out ++ new

theorem OutExt.refl (s : St) : OutExt s s := ⟨[], (List.append_nil _).symm⟩
theorem OutExt.of_eq {s t : St} (h : t.out = s.out) : OutExt s t := ⟨[], by rw [h, List.append_nil]⟩
theorem OutExt.trans {a b c : St} (h1 : OutExt a b) (h2 : OutExt b c) : OutExt a c := by
  obtain ⟨n1, e1⟩ := h1
  obtain ⟨n2, e2⟩ := h2
  exact ⟨n1 ++ n2, by rw [e2, e1, List.append_assoc]⟩

theorem outExt_record (s : St) (on d) : OutExt s (s.record on d) := OutExt.of_eq (St.record_out s on d)

theorem cont_outExt (o : Outcome) (s : St) (k : Except LErr Val → St → St × Outcome) (wrap)
    (hk : ∀ r s, OutExt s (k r s).1) : OutExt s (cont o s k wrap).1 := by
  unfold cont
  cases o with
  | ok v => exact hk _ _
  | err e => exact hk _ _
  | panicked => exact OutExt.refl s
  | diverged => exact OutExt.refl s

theorem withFrame_outExt (push frame) (body : St → St × Outcome) (s : St)
    (hb : ∀ s : St, OutExt s (body s).1) : OutExt s (withFrame push frame body s).1 := by
  unfold withFrame
  split
  · exact hb { s with recs := frame :: s.recs }
  · exact hb s

theorem onFreshThread_outExt (body : St → St × Outcome) (s : St) (hb : ∀ s : St, OutExt s (body s).1) :
    OutExt s (onFreshThread body s).1 := hb { s with recs := [] }

theorem loadAndRecord_outExt (env : Env) (body : St → St × Outcome) (key : Key) (s : St)
    (hb : ∀ s : St, OutExt s (body s).1) : OutExt s (loadAndRecord env body key s).1 := by
  unfold loadAndRecord
  have hf := withFrame_outExt (recordsAsset (env.types key.ty).hot env.hasReloader) (some []) body s hb
  generalize withFrame _ (some []) body s = r at hf ⊢
  obtain ⟨s1, o, d⟩ := r
  cases o with
  | ok v =>
    simp only []
    split
    · exact hf.trans ⟨[.addAsset key d], rfl⟩
    · exact hf
  | err e => exact hf.trans (OutExt.of_eq (St.recordAll_out _ _ _))
  | panicked => exact hf
  | diverged => exact hf

/-- **An evaluation never takes a message out of the channel, nor reorders it: it appends.** -/
theorem eval_outExt (env : Env) : ∀ f s p, OutExt s (eval env f s p).1 := by
  intro f
  induction f with
  | zero => intro s p; simp only [eval]; exact OutExt.refl s
  | succ f ih =>
    intro s p
    cases p with
    | ret v => simp only [eval]; exact OutExt.refl s
    | fail e => simp only [eval]; exact OutExt.refl s
    | panic => simp only [eval]; exact OutExt.refl s
    | read id ext k =>
      simp only [eval]
      refine (outExt_record s (recordsRead env.hasReloader) (.file id ext)).trans (OutExt.trans ?_ (ih _ _))
      exact OutExt.of_eq rfl
    | readDir id k =>
      simp only [eval]
      refine (outExt_record s (recordsRead env.hasReloader) (.dir id)).trans (OutExt.trans ?_ (ih _ _))
      exact OutExt.of_eq rfl
    | getCached key k =>
      simp only [eval]
      exact (outExt_record s _ _).trans (ih _ _)
    | getOrInsert key v k =>
      simp only [eval]
      refine (outExt_record s (recordsAsset (env.types key.ty).hot env.hasReloader) (.asset key)).trans ?_
      generalize s.record _ _ = s'
      cases hl : s'.lookup key with
      | some c =>
        simp only []
        exact OutExt.trans (b := s'.handOut key.ty) (OutExt.of_eq rfl) (ih _ _)
      | none =>
        simp only []
        refine OutExt.trans (OutExt.of_eq ?_) (ih _ _)
        rw [St.own_out]
        exact St.insertKeepFirst_out s' key _
    | tick k =>
      simp only [eval]
      exact OutExt.trans (b := { s with loads := s.loads + 1 }) (OutExt.of_eq rfl) (ih _ _)
    | tryCatch body k =>
      simp only [eval]
      have hb := ih s body
      generalize eval env f s body = r at hb ⊢
      obtain ⟨s1, o⟩ := r
      cases o with
      | ok v => exact hb.trans (ih _ _)
      | err e => exact hb.trans (ih _ _)
      | panicked => exact hb.trans (ih _ _)
      | diverged => exact hb
    | noRecord body k =>
      simp only [eval]
      have hf : OutExt s (withFrame true none (fun s => eval env f s body) s).1 :=
        withFrame_outExt _ _ _ _ (fun s => ih s body)
      generalize withFrame true none (fun s => eval env f s body) s = r at hf ⊢
      obtain ⟨s1, o, d⟩ := r
      exact hf.trans (cont_outExt o s1 _ _ (fun r s => ih s (k r)))
    | onThread body k =>
      simp only [eval]
      have hf : OutExt s (onFreshThread (fun s => eval env f s body) s).1 :=
        onFreshThread_outExt _ _ (fun s => ih s body)
      generalize onFreshThread (fun s => eval env f s body) s = r at hf ⊢
      obtain ⟨s1, o⟩ := r
      exact hf.trans (cont_outExt o s1 _ _ (fun r s => ih s (k r)))
    | loadOwned key k =>
      simp only [eval]
      refine (outExt_record s (recordsAsset (env.types key.ty).hot env.hasReloader) (.asset key)).trans ?_
      generalize s.record _ _ = s'
      have hf : OutExt s' (loadAndRecord env (fun s => eval env f s ((env.types key.ty).prog key.id)) key s').1 :=
        loadAndRecord_outExt _ _ _ _ (fun s => ih s _)
      generalize loadAndRecord env _ key s' = r at hf ⊢
      obtain ⟨s1, o⟩ := r
      cases o with
      | ok v =>
        simp only []
        exact hf.trans (OutExt.trans (b := s1.handOut key.ty) (OutExt.of_eq rfl) (ih _ _))
      | err e => exact hf.trans (cont_outExt _ s1 _ _ (fun r s => ih s (k r)))
      | panicked => exact hf.trans (cont_outExt _ s1 _ _ (fun r s => ih s (k r)))
      | diverged => exact hf.trans (cont_outExt _ s1 _ _ (fun r s => ih s (k r)))
    | load key k =>
      simp only [eval]
      refine (outExt_record s (recordsAsset (env.types key.ty).hot env.hasReloader) (.asset key)).trans ?_
      generalize s.record _ _ = s'
      cases hl : s'.lookup key with
      | some c => simp only []; exact ih _ _
      | none =>
        simp only []
        have hf : OutExt s' (loadAndRecord env (fun s => eval env f s ((env.types key.ty).prog key.id)) key s').1 :=
          loadAndRecord_outExt _ _ _ _ (fun s => ih s _)
        generalize loadAndRecord env _ key s' = r at hf ⊢
        obtain ⟨s1, o⟩ := r
        cases o with
        | ok v =>
          simp only []
          refine hf.trans (OutExt.trans (OutExt.of_eq ?_) (ih _ _))
          rw [St.own_out]
          exact St.insertKeepFirst_out s1 key _
        | err e => exact hf.trans (cont_outExt _ s1 _ _ (fun r s => ih s (k r)))
        | panicked => exact hf.trans (cont_outExt _ s1 _ _ (fun r s => ih s (k r)))
        | diverged => exact hf.trans (cont_outExt _ s1 _ _ (fun r s => ih s (k r)))

/-! ## The channel after an API `load` that returned a handle -/

/-- An API `load` of a key that is NOT cached, of a reloadable type in a cache with a reloader, that
returned normally: the channel is what it was, then what nested loads sent, then — last — the
registration of `key` itself. -/
theorem evalTop_load_miss_out (env : Env) (fuel : Nat) (s : St) (key : Key) (w : Val)
    (hb : recordsAsset (env.types key.ty).hot env.hasReloader = true) (hl : s.lookup key = none)
    (hok : (evalTop env fuel s (.load key Prog.ret')).2 = .ok w) :
    ∃ nested deps, (evalTop env fuel s (.load key Prog.ret')).1.out = s.out ++ nested ++ [.addAsset key deps] := by
  change (eval env fuel { s with recs := [] } (.load key Prog.ret')).2 = .ok w at hok
  change ∃ nested deps, (eval env fuel { s with recs := [] } (.load key Prog.ret')).1.out = s.out ++ nested ++ [.addAsset key deps]
  cases fuel with
  | zero => simp only [eval] at hok; cases hok
  | succ f =>
    have hl' : ({ s with recs := [] } : St).lookup key = none := hl
    rw [eval_load_miss env f _ key _ hb hl'] at hok ⊢
    have hext := eval_outExt env f (({ s with recs := [] } : St).record true (.asset key)).enter ((env.types key.ty).prog key.id)
    generalize eval env f (({ s with recs := [] } : St).record true (.asset key)).enter ((env.types key.ty).prog key.id) = x at hok hext ⊢
    obtain ⟨sb, o⟩ := x
    obtain ⟨new, hnew⟩ := hext
    have hnew' : sb.out = s.out ++ new := by
      rw [hnew, St.enter_out, St.record_out]
    cases o with
    | ok v =>
      simp only [] at hok ⊢
      cases f with
      | zero => simp only [eval] at hok; cases hok
      | succ f' =>
        refine ⟨new, sb.top, ?_⟩
        simp only [Prog.ret', eval]
        rw [leaveOk_out, hnew']
    | err e =>
      simp only [] at hok
      cases f with
      | zero => simp only [eval] at hok; cases hok
      | succ f' => simp only [Prog.ret', eval] at hok; cases hok
    | panicked => simp only [] at hok; cases hok
    | diverged => simp only [] at hok; cases hok

theorem step_load_ok_of_handle (env : Env) (fuel : Nat) (s : St) (key : Key) (addr : Nat) (v : Val)
    (hres : (step env fuel s (.load key)).2 = .handle addr v) :
    ∃ w, (evalTop env fuel s (.load key Prog.ret')).2 = .ok w := by
  simp only [step] at hres
  generalize evalTop env fuel s (.load key Prog.ret') = x at hres ⊢
  obtain ⟨s1, o⟩ := x
  cases o with
  | ok w => exact ⟨w, rfl⟩
  | err e => simp [outcomeRes] at hres
  | panicked => simp [outcomeRes] at hres
  | diverged => simp [outcomeRes] at hres

/-- the same for the API operation: `step … (.load key)` returned a handle -/
theorem step_load_out (env : Env) (fuel : Nat) (s : St) (key : Key) (addr : Nat) (v : Val)
    (hb : recordsAsset (env.types key.ty).hot env.hasReloader = true) (hl : s.lookup key = none)
    (hres : (step env fuel s (.load key)).2 = .handle addr v) :
    ∃ nested deps, (step env fuel s (.load key)).1.out = s.out ++ nested ++ [.addAsset key deps] := by
  obtain ⟨w, hw⟩ := step_load_ok_of_handle env fuel s key addr v hres
  rw [step_load_fst]
  exact evalTop_load_miss_out env fuel s key w hb hl hw

end AmVerif.Model
