import AmVerif.Model.History
import AmVerif.Lemmas.World
/-!
# Lemmas about one hot-reloading pass (`reloadUntyped`, `reloadAll`, `runUpdate`, …)

* `MapRel` / `eval_rel` — a generic induction over `eval`: every reflexive, transitive relation on
  states that only looks at the map and is established by the insertion of a freshly loaded cell
  holds between the state before and after *every* evaluation (instances: `St.Le`, `Added P`).
* `reloadUntyped_cases` — the two things `reload_untyped` can do to the cache: nothing beyond what the
  nested loads add, or additionally exactly one `write` of the key's (dynamic) cell.
* `Cell.Ev` / `St.Ev` — "evolves": the cell is the same, or it is dynamic, its reload id is strictly
  larger and its global flag is set. Preserved by everything a reloader does (`reloadAll_ev`, …).
* `reloadAll_ind` — induction principle over the key list of a pass.
-/
namespace AmVerif.Model
open AmVerif.Gen

/-! ## Look-ups only depend on the map -/

theorem St.lookup_congr {s t : St} (h : t.map = s.map) (k : Key) : t.lookup k = s.lookup k := by
  unfold St.lookup; rw [h]

/-! ## `setCell` -/

theorem find_setCell (m : List (Key × Cell)) (k k' : Key) (c : Cell) :
    ((m.map fun x => if x.1 = k then (k, c) else x).find? (·.1 = k')).map (·.2)
      = if k' = k then ((m.find? (·.1 = k)).map (·.2)).map (fun _ => c) else (m.find? (·.1 = k')).map (·.2) := by
  induction m with
  | nil => simp
  | cons x xs ih =>
    by_cases hk : k' = k
    · subst hk
      simp only [if_true] at ih ⊢
      by_cases hx : x.1 = k'
      · simp [hx]
      · simp only [List.map_cons, hx, if_false, List.find?_cons, decide_false]
        exact ih
    · simp only [hk, if_false] at ih ⊢
      by_cases hx : x.1 = k
      · have hx' : ¬ x.1 = k' := fun e => hk (e.symm.trans hx)
        have hk2 : ¬ k = k' := fun e => hk e.symm
        simp only [List.map_cons, hx, if_true, List.find?_cons, hk2, decide_false]
        exact ih
      · by_cases hx' : x.1 = k'
        · subst hx'; simp [hx]
        · simp only [List.map_cons, hx, if_false, List.find?_cons, hx', decide_false]
          exact ih

theorem St.setCell_lookup (s : St) (k k' : Key) (c : Cell) :
    (s.setCell k c).lookup k' = if k' = k then (s.lookup k).map (fun _ => c) else s.lookup k' := by
  unfold St.setCell St.lookup
  exact find_setCell s.map k k' c

theorem St.setCell_lookup_self (s : St) (k : Key) (c c0 : Cell) (h : s.lookup k = some c0) :
    (s.setCell k c).lookup k = some c := by
  rw [St.setCell_lookup]; simp [h]

theorem St.setCell_lookup_other (s : St) (k k' : Key) (c : Cell) (h : k' ≠ k) :
    (s.setCell k c).lookup k' = s.lookup k' := by
  rw [St.setCell_lookup]; simp [h]

/-! ## A generic induction over `eval` -/

/-- the cell `get_or_insert` creates (`add_any`) -/
def insertedCell (env : Env) (key : Key) (v : Val) (addr : Nat) : Cell :=
  { val := v, dyn := insertedEntryDynamic (env.types key.ty).hot env.hasReloader,
    rid := ReloadId_NEVER, flag := false, addr := addr }

/-- Relations between the state before and after an evaluation that `eval` establishes for loaders
that do not call `get_or_insert`. -/
structure MapRel₀ (env : Env) (R : St → St → Prop) : Prop where
  refl : ∀ s, R s s
  trans : ∀ {a b c}, R a b → R b c → R a c
  /-- only the map matters -/
  congr : ∀ {s t s' t' : St}, s'.map = s.map → t'.map = t.map → R s t → R s' t'
  /-- the insertion (keep-first) of a freshly loaded cell -/
  ins : ∀ (s : St) (key : Key) (v : Val) (addr : Nat), R s (s.insertKeepFirst key (newCell env key.ty v addr)).1

/-- Relations between the state before and after an evaluation that `eval` establishes (every loader). -/
structure MapRel (env : Env) (R : St → St → Prop) : Prop extends MapRel₀ env R where
  /-- the insertion (keep-first) of a cell handed to `get_or_insert` (by a loader) -/
  insAny : ∀ (s : St) (key : Key) (v : Val) (addr : Nat), R s (s.insertKeepFirst key (insertedCell env key v addr)).1

/-- Loader programs that never call `get_or_insert` themselves. -/
inductive Prog.NoInsert : Prog → Prop
  | ret (v : Val) : NoInsert (.ret v)
  | fail (e : LErr) : NoInsert (.fail e)
  | panic : NoInsert .panic
  | read (id ext : String) (k : Except IoErr (List UInt8) → Prog) : (∀ r, NoInsert (k r)) → NoInsert (.read id ext k)
  | readDir (id : String) (k : Except IoErr (List DirEnt) → Prog) : (∀ r, NoInsert (k r)) → NoInsert (.readDir id k)
  | load (key : Key) (k : Except LErr Val → Prog) : (∀ r, NoInsert (k r)) → NoInsert (.load key k)
  | getCached (key : Key) (k : Option Val → Prog) : (∀ r, NoInsert (k r)) → NoInsert (.getCached key k)
  | loadOwned (key : Key) (k : Except LErr Val → Prog) : (∀ r, NoInsert (k r)) → NoInsert (.loadOwned key k)
  | noRecord (body : Prog) (k : Except LErr Val → Prog) : NoInsert body → (∀ r, NoInsert (k r)) → NoInsert (.noRecord body k)
  | onThread (body : Prog) (k : Except LErr Val → Prog) : NoInsert body → (∀ r, NoInsert (k r)) → NoInsert (.onThread body k)
  | tick (k : Option Bool → Prog) : (∀ r, NoInsert (k r)) → NoInsert (.tick k)
  | tryCatch (body : Prog) (k : Option (Except LErr Val) → Prog) : NoInsert body → (∀ r, NoInsert (k r)) → NoInsert (.tryCatch body k)

/-- no loader of the type table calls `get_or_insert` -/
def Env.NoInsert (env : Env) : Prop := ∀ ty id, ((env.types ty).prog id).NoInsert

theorem Prog.NoInsert.ret' (r : Except LErr Val) : (Prog.ret' r).NoInsert := by
  cases r <;> constructor

namespace MapRel₀
variable {env : Env} {R : St → St → Prop}

theorem of_map_eq (h : MapRel₀ env R) {s t : St} (e : t.map = s.map) : R s t :=
  h.congr rfl e (h.refl s)

theorem withFrame_rel (h : MapRel₀ env R) (push frame) (body : St → St × Outcome) (s : St)
    (hb : ∀ s, R s (body s).1) : R s (withFrame push frame body s).1 := by
  unfold withFrame
  split
  · exact h.congr (s := { s with recs := frame :: s.recs }) (t := (body { s with recs := frame :: s.recs }).1)
      rfl rfl (hb _)
  · exact hb s

theorem onFreshThread_rel (h : MapRel₀ env R) (body : St → St × Outcome) (s : St)
    (hb : ∀ s, R s (body s).1) : R s (onFreshThread body s).1 := by
  unfold onFreshThread
  exact h.congr (s := { s with recs := [] }) (t := (body { s with recs := [] }).1) rfl rfl (hb _)

theorem loadAndRecord_rel (h : MapRel₀ env R) (body : St → St × Outcome) (key : Key) (s : St)
    (hb : ∀ s, R s (body s).1) : R s (loadAndRecord env body key s).1 := by
  unfold loadAndRecord
  have hf := h.withFrame_rel (recordsAsset (env.types key.ty).hot env.hasReloader) (some []) body s hb
  generalize withFrame _ (some []) body s = r at hf ⊢
  obtain ⟨s1, o, d⟩ := r
  cases o with
  | ok v =>
    simp only []
    split
    · exact h.trans hf (h.of_map_eq rfl)
    · exact hf
  | err e => exact h.trans hf (h.of_map_eq (by simp))
  | panicked => exact hf
  | diverged => exact hf

theorem cont_rel (h : MapRel₀ env R) (o : Outcome) (s : St) (k : Except LErr Val → St → St × Outcome) (wrap)
    (hk : ∀ r s, R s (k r s).1) : R s (cont o s k wrap).1 := by
  unfold cont
  cases o with
  | ok v => exact hk _ _
  | err e => exact hk _ _
  | panicked => exact h.refl s
  | diverged => exact h.refl s

/-- Every `MapRel₀` holds across every evaluation of a loader that does not call `get_or_insert`, under a type
table whose loaders do not either. -/
theorem eval_rel (h : MapRel₀ env R) (henv : env.NoInsert) : ∀ f s p, p.NoInsert → R s (eval env f s p).1 := by
  intro f
  induction f with
  | zero => intro s p _; simp only [eval]; exact h.refl s
  | succ f ih =>
    intro s p hp
    cases hp with
    | ret v => simp only [eval]; exact h.refl s
    | fail e => simp only [eval]; exact h.refl s
    | panic => simp only [eval]; exact h.refl s
    | read id ext k hk =>
      simp only [eval]
      exact h.trans (h.of_map_eq (by simp)) (ih _ _ (hk _))
    | readDir id k hk =>
      simp only [eval]
      exact h.trans (h.of_map_eq (by simp)) (ih _ _ (hk _))
    | getCached key k hk =>
      simp only [eval]
      exact h.trans (h.of_map_eq (by simp)) (ih _ _ (hk _))
    | tick k hk =>
      simp only [eval]
      exact h.trans (b := { s with loads := s.loads + 1 }) (h.of_map_eq rfl) (ih _ _ (hk _))
    | tryCatch body k hbody hk =>
      simp only [eval]
      have hb := ih s body hbody
      generalize eval env f s body = r at hb ⊢
      obtain ⟨s1, o⟩ := r
      cases o with
      | ok v => exact h.trans hb (ih _ _ (hk _))
      | err e => exact h.trans hb (ih _ _ (hk _))
      | panicked => exact h.trans hb (ih _ _ (hk _))
      | diverged => exact hb
    | noRecord body k hbody hk =>
      simp only [eval]
      have hf : R s (withFrame true none (fun s => eval env f s body) s).1 :=
        h.withFrame_rel _ _ _ _ (fun s => ih s body hbody)
      generalize withFrame true none (fun s => eval env f s body) s = r at hf ⊢
      obtain ⟨s1, o, d⟩ := r
      exact h.trans hf (h.cont_rel o s1 _ _ (fun r s => ih s (k r) (hk r)))
    | onThread body k hbody hk =>
      simp only [eval]
      have hf : R s (onFreshThread (fun s => eval env f s body) s).1 :=
        h.onFreshThread_rel _ _ (fun s => ih s body hbody)
      generalize onFreshThread (fun s => eval env f s body) s = r at hf ⊢
      obtain ⟨s1, o⟩ := r
      exact h.trans hf (h.cont_rel o s1 _ _ (fun r s => ih s (k r) (hk r)))
    | loadOwned key k hk =>
      simp only [eval]
      refine h.trans (b := s.record (recordsAsset (env.types key.ty).hot env.hasReloader) (.asset key))
        (h.of_map_eq (by simp)) ?_
      generalize s.record _ _ = s'
      have hf : R s' (loadAndRecord env (fun s => eval env f s ((env.types key.ty).prog key.id)) key s').1 :=
        h.loadAndRecord_rel _ _ _ (fun s => ih s _ (henv _ _))
      generalize loadAndRecord env _ key s' = r at hf ⊢
      obtain ⟨s1, o⟩ := r
      cases o with
      | ok v => exact h.trans hf (h.trans (b := s1.handOut key.ty) (h.of_map_eq rfl) (ih _ _ (hk _)))
      | err e => exact h.trans hf (h.cont_rel _ s1 _ _ (fun r s => ih s (k r) (hk r)))
      | panicked => exact h.trans hf (h.cont_rel _ s1 _ _ (fun r s => ih s (k r) (hk r)))
      | diverged => exact h.trans hf (h.cont_rel _ s1 _ _ (fun r s => ih s (k r) (hk r)))
    | load key k hk =>
      simp only [eval]
      refine h.trans (b := s.record (recordsAsset (env.types key.ty).hot env.hasReloader) (.asset key))
        (h.of_map_eq (by simp)) ?_
      generalize s.record _ _ = s'
      cases hl : s'.lookup key with
      | some c => simp only []; exact ih _ _ (hk _)
      | none =>
        simp only []
        have hf : R s' (loadAndRecord env (fun s => eval env f s ((env.types key.ty).prog key.id)) key s').1 :=
          h.loadAndRecord_rel _ _ _ (fun s => ih s _ (henv _ _))
        generalize loadAndRecord env _ key s' = r at hf ⊢
        obtain ⟨s1, o⟩ := r
        cases o with
        | ok v =>
          simp only []
          refine h.trans hf (h.trans ?_ (ih _ _ (hk _)))
          exact h.trans (h.ins s1 key v s1.next) (h.of_map_eq rfl)
        | err e => exact h.trans hf (h.cont_rel _ s1 _ _ (fun r s => ih s (k r) (hk r)))
        | panicked => exact h.trans hf (h.cont_rel _ s1 _ _ (fun r s => ih s (k r) (hk r)))
        | diverged => exact h.trans hf (h.cont_rel _ s1 _ _ (fun r s => ih s (k r) (hk r)))

end MapRel₀

namespace MapRel
variable {env : Env} {R : St → St → Prop}

/-- Every `MapRel` holds across every evaluation. -/
theorem eval_rel (h : MapRel env R) : ∀ f s p, R s (eval env f s p).1 := by
  intro f
  induction f with
  | zero => intro s p; simp only [eval]; exact h.refl s
  | succ f ih =>
    intro s p
    cases p with
    | ret v => simp only [eval]; exact h.refl s
    | fail e => simp only [eval]; exact h.refl s
    | panic => simp only [eval]; exact h.refl s
    | read id ext k =>
      simp only [eval]
      exact h.trans (h.of_map_eq (by simp)) (ih _ _)
    | readDir id k =>
      simp only [eval]
      exact h.trans (h.of_map_eq (by simp)) (ih _ _)
    | getCached key k =>
      simp only [eval]
      exact h.trans (h.of_map_eq (by simp)) (ih _ _)
    | getOrInsert key v k =>
      simp only [eval]
      refine h.trans (b := s.record (recordsAsset (env.types key.ty).hot env.hasReloader) (.asset key))
        (h.of_map_eq (by simp)) ?_
      generalize s.record _ _ = s'
      cases hl : s'.lookup key with
      | some c => simp only []; exact h.trans (b := s'.handOut key.ty) (h.of_map_eq rfl) (ih _ _)
      | none =>
        simp only []
        refine h.trans ?_ (ih _ _)
        exact h.trans (h.insAny s' key v s'.next) (h.of_map_eq rfl)
    | tick k =>
      simp only [eval]
      exact h.trans (b := { s with loads := s.loads + 1 }) (h.of_map_eq rfl) (ih _ _)
    | tryCatch body k =>
      simp only [eval]
      have hb := ih s body
      generalize eval env f s body = r at hb ⊢
      obtain ⟨s1, o⟩ := r
      cases o with
      | ok v => exact h.trans hb (ih _ _)
      | err e => exact h.trans hb (ih _ _)
      | panicked => exact h.trans hb (ih _ _)
      | diverged => exact hb
    | noRecord body k =>
      simp only [eval]
      have hf : R s (withFrame true none (fun s => eval env f s body) s).1 :=
        h.withFrame_rel _ _ _ _ (fun s => ih s body)
      generalize withFrame true none (fun s => eval env f s body) s = r at hf ⊢
      obtain ⟨s1, o, d⟩ := r
      exact h.trans hf (h.cont_rel o s1 _ _ (fun r s => ih s (k r)))
    | onThread body k =>
      simp only [eval]
      have hf : R s (onFreshThread (fun s => eval env f s body) s).1 :=
        h.onFreshThread_rel _ _ (fun s => ih s body)
      generalize onFreshThread (fun s => eval env f s body) s = r at hf ⊢
      obtain ⟨s1, o⟩ := r
      exact h.trans hf (h.cont_rel o s1 _ _ (fun r s => ih s (k r)))
    | loadOwned key k =>
      simp only [eval]
      refine h.trans (b := s.record (recordsAsset (env.types key.ty).hot env.hasReloader) (.asset key))
        (h.of_map_eq (by simp)) ?_
      generalize s.record _ _ = s'
      have hf : R s' (loadAndRecord env (fun s => eval env f s ((env.types key.ty).prog key.id)) key s').1 :=
        h.loadAndRecord_rel _ _ _ (fun s => ih s _)
      generalize loadAndRecord env _ key s' = r at hf ⊢
      obtain ⟨s1, o⟩ := r
      cases o with
      | ok v => exact h.trans hf (h.trans (b := s1.handOut key.ty) (h.of_map_eq rfl) (ih _ _))
      | err e => exact h.trans hf (h.cont_rel _ s1 _ _ (fun r s => ih s (k r)))
      | panicked => exact h.trans hf (h.cont_rel _ s1 _ _ (fun r s => ih s (k r)))
      | diverged => exact h.trans hf (h.cont_rel _ s1 _ _ (fun r s => ih s (k r)))
    | load key k =>
      simp only [eval]
      refine h.trans (b := s.record (recordsAsset (env.types key.ty).hot env.hasReloader) (.asset key))
        (h.of_map_eq (by simp)) ?_
      generalize s.record _ _ = s'
      cases hl : s'.lookup key with
      | some c => simp only []; exact ih _ _
      | none =>
        simp only []
        have hf : R s' (loadAndRecord env (fun s => eval env f s ((env.types key.ty).prog key.id)) key s').1 :=
          h.loadAndRecord_rel _ _ _ (fun s => ih s _)
        generalize loadAndRecord env _ key s' = r at hf ⊢
        obtain ⟨s1, o⟩ := r
        cases o with
        | ok v =>
          simp only []
          refine h.trans hf (h.trans ?_ (ih _ _))
          exact h.trans (h.ins s1 key v s1.next) (h.of_map_eq rfl)
        | err e => exact h.trans hf (h.cont_rel _ s1 _ _ (fun r s => ih s (k r)))
        | panicked => exact h.trans hf (h.cont_rel _ s1 _ _ (fun r s => ih s (k r)))
        | diverged => exact h.trans hf (h.cont_rel _ s1 _ _ (fun r s => ih s (k r)))

end MapRel

/-! ## What an evaluation adds -/

/-- Every cell of `t` is a cell of `s` (same key, unchanged) or satisfies `P`. -/
def Added (P : Key → Cell → Prop) (s t : St) : Prop :=
  ∀ k c, t.lookup k = some c → s.lookup k = some c ∨ P k c

theorem Added.refl (P) (s : St) : Added P s s := fun _ _ h => Or.inl h

theorem Added.trans {P} {a b c : St} (h1 : Added P a b) (h2 : Added P b c) : Added P a c := by
  intro k x hx
  rcases h2 k x hx with h | h
  · exact h1 k x h
  · exact Or.inr h

theorem Added.of_map_eq {P} {s t : St} (e : t.map = s.map) : Added P s t := by
  intro k c h; left; rw [← St.lookup_congr e k]; exact h

/-- `P` holds of every cell an evaluation creates under `env`: by a load (`newCell`) or by a loader's
`get_or_insert` (`insertedCell`). -/
def NewCellsSat (env : Env) (P : Key → Cell → Prop) : Prop :=
  (∀ key v addr, P key (newCell env key.ty v addr)) ∧ ∀ key v addr, P key (insertedCell env key v addr)

/-- keep-first insertion of a cell satisfying `P` -/
theorem Added.ins_cell {P : Key → Cell → Prop} (s : St) (key : Key) (c0 : Cell) (h0 : P key c0) :
    Added P s (s.insertKeepFirst key c0).1 := by
  intro k c hc
  by_cases hk : k = key
  · subst hk
    have h := St.insertKeepFirst_lookup s k c0
    rw [h.1] at hc
    cases hs : s.lookup k with
    | some x =>
      left
      rw [h.2, hs] at hc
      simpa using hc
    | none =>
      right
      rw [h.2, hs] at hc
      have : c0 = c := by simpa using hc
      rw [← this]; exact h0
  · left
    rw [St.insertKeepFirst_other s key k _ hk] at hc
    exact hc

theorem Added.congr {P} {s t s' t' : St} (hs : s'.map = s.map) (ht : t'.map = t.map) (h : Added P s t) :
    Added P s' t' := by
  intro k c hc
  rw [St.lookup_congr ht k] at hc
  rw [St.lookup_congr hs k]
  exact h k c hc

theorem Added.mapRel {env : Env} {P : Key → Cell → Prop} (hP : NewCellsSat env P) : MapRel env (Added P) where
  refl := Added.refl P
  trans := Added.trans
  congr := Added.congr
  ins := fun s key v addr => Added.ins_cell s key _ (hP.1 key v addr)
  insAny := fun s key v addr => Added.ins_cell s key _ (hP.2 key v addr)

/-- for loaders without `get_or_insert` only the cells created by loads matter -/
theorem Added.mapRel₀ {env : Env} {P : Key → Cell → Prop} (hP : ∀ key v addr, P key (newCell env key.ty v addr)) :
    MapRel₀ env (Added P) where
  refl := Added.refl P
  trans := Added.trans
  congr := Added.congr
  ins := fun s key v addr => Added.ins_cell s key _ (hP key v addr)

theorem St.Le.mapRel (env : Env) : MapRel env St.Le where
  refl := St.Le.refl
  trans := St.Le.trans
  congr := by
    intro s t s' t' hs ht h k c hc
    rw [St.lookup_congr hs k] at hc
    rw [St.lookup_congr ht k]
    exact h k c hc
  ins := fun s key _ _ => St.insertKeepFirst_le s key _
  insAny := fun s key _ _ => St.insertKeepFirst_le s key _

/-- Whatever an evaluation adds to the cache was created by `newCell` or `insertedCell` under this `env`. -/
theorem eval_added (env : Env) (P) (hP : NewCellsSat env P) (f : Nat) (s : St) (p : Prog) : Added P s (eval env f s p).1 :=
  (Added.mapRel hP).eval_rel f s p

/-- Whatever an evaluation without `get_or_insert` (in the loader and in the type table) adds to the
cache was created by `newCell` under this `env`. -/
theorem eval_added_noInsert (env : Env) (henv : env.NoInsert) (P) (hP : ∀ key v addr, P key (newCell env key.ty v addr))
    (f : Nat) (s : St) (p : Prog) (hp : p.NoInsert) : Added P s (eval env f s p).1 :=
  (Added.mapRel₀ hP).eval_rel henv f s p hp

theorem MapRel₀.evalTop_rel {env : Env} {R : St → St → Prop} (h : MapRel₀ env R) (henv : env.NoInsert) (fuel : Nat) (s : St)
    (p : Prog) (hp : p.NoInsert) : R s (evalTop env fuel s p).1 := by
  unfold evalTop
  exact h.congr (s := { s with recs := [] }) (t := (eval env fuel { s with recs := [] } p).1) rfl rfl
    (h.eval_rel henv fuel _ p hp)

/-! ## `reloadUntyped` -/

/-- The evaluation `reload_untyped` performs: the type's loader under a fresh record, on the
reloader thread's own (empty) recording stack. -/
def reloadEval (env : Env) (fuel : Nat) (s : St) (key : Key) : St × Outcome × List Dep :=
  withFrame true (some []) (fun s => eval env fuel s ((env.types key.ty).prog key.id)) { s with recs := [] }

def ReloadOutcome.wrote : ReloadOutcome → Bool
  | .done (some (_, true)) => true
  | _ => false

theorem reloadEval_le (env : Env) (fuel : Nat) (s : St) (key : Key) : s.Le (reloadEval env fuel s key).1 := by
  have h : St.Le { s with recs := [] } (reloadEval env fuel s key).1 :=
    withFrame_le true (some []) _ _ (fun s => eval_mono env fuel s _)
  exact (St.Le.of_map_eq (s := s) (t := { s with recs := [] }) rfl).trans h

theorem reloadEval_added (env : Env) (fuel : Nat) (s : St) (key : Key) (P) (hP : NewCellsSat env P) :
    Added P s (reloadEval env fuel s key).1 := by
  have h : Added P { s with recs := [] } (reloadEval env fuel s key).1 :=
    (Added.mapRel hP).withFrame_rel true (some []) _ _ (fun s => eval_added env P hP fuel s _)
  exact (Added.of_map_eq (s := s) (t := { s with recs := [] }) rfl).trans h

/-- the written cell: `UntypedEntry::write` = swap the value, `reload.increment()`, `reload_global = true` -/
def Cell.written (c : Cell) (v : Val) : Cell := { c with val := v, rid := c.rid + 1, flag := true }

/-- **The two things `reload_untyped` can do.** With `s1` the cache after the nested loads of the
re-evaluation (`s ≤ s1`, everything new created by `newCell`): either the result is `s1` and the
outcome is not a success, or the loader returned `ok v`, the cell is dynamic, and the result is
`s1` with exactly the key's cell replaced by `c.written v`. -/
theorem reloadUntyped_cases (env : Env) (fuel : Nat) (s : St) (key : Key) (c : Cell) (hc : s.lookup key = some c) :
    ∃ s1 : St, s.Le s1 ∧ (∀ P, NewCellsSat env P → Added P s s1) ∧
      ((∃ o, o.wrote = false ∧ reloadUntyped env fuel s key = (s1, o)) ∨
       (∃ v deps, c.dyn = true ∧ (reloadEval env fuel s key).2.1 = .ok v ∧
          reloadUntyped env fuel s key = ((s1.setCell key (c.written v)).swapValue key.ty c.addr, .done (some (deps, true))))) := by
  unfold reloadUntyped
  simp only [hc]
  by_cases hskip : (reloadSkipsStatic && !c.dyn) = true
  · simp only [hskip, if_true]
    exact ⟨s, St.Le.refl s, fun P _ => Added.refl P s, Or.inl ⟨_, rfl, rfl⟩⟩
  · simp only [hskip]
    have hle := reloadEval_le env fuel s key
    have hadd := reloadEval_added env fuel s key
    unfold reloadEval at hle hadd
    generalize hr : reloadEval env fuel s key = r0
    unfold reloadEval at hr
    rw [hr] at hle hadd
    simp only [hr]
    obtain ⟨s1, o, deps⟩ := r0
    simp only [] at hle hadd ⊢
    have hle' : s.Le { s1 with recs := [] } := hle.trans (St.Le.of_map_eq rfl)
    have hadd' : ∀ P, NewCellsSat env P → Added P s { s1 with recs := [] } :=
      fun P hP => (hadd P hP).trans (Added.of_map_eq rfl)
    cases o with
    | ok v =>
      simp only []
      by_cases hd : c.dyn = true
      case neg =>
        simp only [hd]
        exact ⟨St.handOut { s1 with recs := [] } key.ty, hle'.trans (St.Le.of_map_eq rfl),
          fun P hP => (hadd' P hP).trans (Added.of_map_eq rfl), Or.inl ⟨_, rfl, rfl⟩⟩
      case pos =>
        refine ⟨{ s1 with recs := [] }, hle', hadd', ?_⟩
        simp only [hd, if_true]
        right
        have hl : St.lookup { s1 with recs := [] } key = some c := hle' key c hc
        refine ⟨v, deps, trivial, rfl, ?_⟩
        simp only [hl]
        rfl
    | err e =>
      refine ⟨{ s1 with recs := [] }, hle', hadd', ?_⟩
      simp only []
      left
      cases failedReloadKeepsNewDeps <;> exact ⟨_, rfl, rfl⟩
    | panicked =>
      refine ⟨{ s1 with recs := [] }, hle', hadd', ?_⟩
      simp only []
      left
      cases reloadCatchesPanic <;> exact ⟨_, rfl, rfl⟩
    | diverged => exact ⟨{ s1 with recs := [] }, hle', hadd', Or.inl ⟨_, rfl, rfl⟩⟩

theorem reloadUntyped_absent (env : Env) (fuel : Nat) (s : St) (key : Key) (h : s.lookup key = none) :
    reloadUntyped env fuel s key = (s, .done none) := by
  unfold reloadUntyped; simp only [h]

/-- `reload_untyped` never touches another key's cell. -/
theorem reloadUntyped_other (env : Env) (fuel : Nat) (s : St) (key : Key) (k : Key) (c : Cell) (hk : k ≠ key) (h : s.lookup k = some c) :
    (reloadUntyped env fuel s key).1.lookup k = some c := by
  cases hc : s.lookup key with
  | none => rw [reloadUntyped_absent env fuel s key hc]; exact h
  | some c0 =>
    obtain ⟨s1, hle, _, hcase⟩ := reloadUntyped_cases env fuel s key c0 hc
    rcases hcase with ⟨o, _, e⟩ | ⟨v, deps, _, _, e⟩
    · rw [e]; exact hle k c h
    · rw [e]; simp only []; rw [St.swapValue_lookup, St.setCell_lookup_other _ _ _ _ hk]; exact hle k c h

/-- What `reload_untyped` adds (keys absent before) was created by `newCell`. -/
theorem reloadUntyped_added (env : Env) (fuel : Nat) (s : St) (key : Key) (P) (hP : NewCellsSat env P) (k : Key) (c : Cell)
    (h : (reloadUntyped env fuel s key).1.lookup k = some c) (habs : s.lookup k = none) : P k c := by
  cases hc : s.lookup key with
  | none => rw [reloadUntyped_absent env fuel s key hc] at h; rw [habs] at h; cases h
  | some c0 =>
    have hk : k ≠ key := by intro e; subst e; rw [habs] at hc; cases hc
    obtain ⟨s1, _, hadd, hcase⟩ := reloadUntyped_cases env fuel s key c0 hc
    rcases hcase with ⟨o, _, e⟩ | ⟨v, deps, _, _, e⟩
    · rw [e] at h
      rcases hadd P hP k c h with h' | h'
      · rw [habs] at h'; cases h'
      · exact h'
    · rw [e] at h; simp only [] at h; rw [St.swapValue_lookup, St.setCell_lookup_other _ _ _ _ hk] at h
      rcases hadd P hP k c h with h' | h'
      · rw [habs] at h'; cases h'
      · exact h'

/-! ## Evolution of cells -/

/-- `c'` is what `c` may have become through hot-reloading: the very same cell, or (only if it is
dynamic) a cell with a strictly larger reload id whose global flag is set. Kind and address never
change. -/
def Cell.Ev (c c' : Cell) : Prop :=
  c'.dyn = c.dyn ∧ c'.addr = c.addr ∧ (c' = c ∨ (c.dyn = true ∧ c.rid < c'.rid ∧ c'.flag = true))

theorem Cell.Ev.refl (c : Cell) : c.Ev c := ⟨rfl, rfl, Or.inl rfl⟩

theorem Cell.Ev.trans {a b c : Cell} (h1 : a.Ev b) (h2 : b.Ev c) : a.Ev c := by
  obtain ⟨d1, a1, e1⟩ := h1
  obtain ⟨d2, a2, e2⟩ := h2
  refine ⟨d2.trans d1, a2.trans a1, ?_⟩
  rcases e1 with rfl | ⟨hd, hr, hf⟩
  · exact e2
  · rcases e2 with rfl | ⟨hd2, hr2, hf2⟩
    · exact Or.inr ⟨hd, hr, hf⟩
    · exact Or.inr ⟨hd, Nat.lt_trans hr hr2, hf2⟩

theorem Cell.Ev.static {c c' : Cell} (h : c.Ev c') (hs : c.dyn = false) : c' = c := by
  rcases h.2.2 with e | ⟨hd, _, _⟩
  · exact e
  · rw [hs] at hd; cases hd

theorem Cell.Ev.rid_le {c c' : Cell} (h : c.Ev c') : c.rid ≤ c'.rid := by
  rcases h.2.2 with e | ⟨_, hr, _⟩
  · rw [e]; exact Nat.le_refl _
  · exact Nat.le_of_lt hr

theorem Cell.Ev.changed_rid_lt {c c' : Cell} (h : c.Ev c') (hne : c' ≠ c) : c.rid < c'.rid := by
  rcases h.2.2 with e | ⟨_, hr, _⟩
  · exact absurd e hne
  · exact hr

theorem Cell.ev_written (c : Cell) (v : Val) (hd : c.dyn = true) : c.Ev (c.written v) :=
  ⟨rfl, rfl, Or.inr ⟨hd, Nat.lt_succ_self _, rfl⟩⟩

/-- Every cell of `s` is still stored in `t`, under the same key, evolved. -/
def St.Ev (s t : St) : Prop := ∀ k c, s.lookup k = some c → ∃ c', t.lookup k = some c' ∧ c.Ev c'

theorem St.Ev.refl (s : St) : s.Ev s := fun _ c h => ⟨c, h, Cell.Ev.refl c⟩

theorem St.Ev.trans {a b c : St} (h1 : a.Ev b) (h2 : b.Ev c) : a.Ev c := by
  intro k x hx
  obtain ⟨y, hy, e1⟩ := h1 k x hx
  obtain ⟨z, hz, e2⟩ := h2 k y hy
  exact ⟨z, hz, e1.trans e2⟩

theorem St.Le.ev {s t : St} (h : s.Le t) : s.Ev t := fun k c hc => ⟨c, h k c hc, Cell.Ev.refl c⟩

theorem St.Ev.of_map_eq {s t : St} (e : t.map = s.map) : s.Ev t := (St.Le.of_map_eq e).ev

theorem reloadUntyped_ev (env : Env) (fuel : Nat) (s : St) (key : Key) : s.Ev (reloadUntyped env fuel s key).1 := by
  cases hc : s.lookup key with
  | none => rw [reloadUntyped_absent env fuel s key hc]; exact St.Ev.refl s
  | some c0 =>
    obtain ⟨s1, hle, _, hcase⟩ := reloadUntyped_cases env fuel s key c0 hc
    rcases hcase with ⟨o, _, e⟩ | ⟨v, deps, hd, _, e⟩
    · rw [e]; exact hle.ev
    · rw [e]
      intro k c h
      by_cases hk : k = key
      · subst hk
        rw [hc] at h
        have : c0 = c := by simpa using h
        subst this
        exact ⟨c0.written v, St.setCell_lookup_self _ _ _ c0 (hle k c0 hc), Cell.ev_written c0 v hd⟩
      · refine ⟨c, ?_, Cell.Ev.refl c⟩
        simp only []
        rw [St.swapValue_lookup, St.setCell_lookup_other _ _ _ _ hk]; exact hle k c h

/-! ## `reloadAll` -/

theorem reloadAll_dead (env : Env) (fuel : Nat) (ks : List Key) (s : St) (r : RSt) (h : r.dead = true) :
    reloadAll env fuel ks (s, r) = (s, r) := by
  cases ks with
  | nil => rfl
  | cons k ks => simp [reloadAll, h]

/-- One step of a pass: the cache is untouched or went through `reloadUntyped` for the head key. -/
theorem reloadAll_cons (env : Env) (fuel : Nat) (k : Key) (ks : List Key) (s : St) (r : RSt) :
    ∃ s1 r', (s1 = s ∨ s1 = (reloadUntyped env fuel s k).1) ∧
      reloadAll env fuel (k :: ks) (s, r) = reloadAll env fuel ks (s1, r') := by
  simp only [reloadAll]
  by_cases hd : r.dead = true
  · simp only [hd, if_true]
    exact ⟨s, r, Or.inl rfl, (reloadAll_dead env fuel ks s r hd).symm⟩
  · simp only [hd]
    cases r.graph.get (.asset k) with
    | none => exact ⟨s, r, Or.inl rfl, rfl⟩
    | some node =>
      simp only []
      cases node.typed with
      | false => exact ⟨s, r, Or.inl rfl, rfl⟩
      | true =>
        simp only [if_true]
        generalize reloadUntyped env fuel s k = x
        obtain ⟨s1, o⟩ := x
        cases o with
        | died =>
          exact ⟨s1, { r with dead := true }, Or.inr rfl, (reloadAll_dead env fuel ks s1 _ rfl).symm⟩
        | done d =>
          cases d with
          | none => exact ⟨s1, r, Or.inr rfl, rfl⟩
          | some p =>
            obtain ⟨deps, b⟩ := p
            cases b with
            | true => exact ⟨s1, _, Or.inr rfl, rfl⟩
            | false => exact ⟨s1, _, Or.inr rfl, rfl⟩

/-- Induction over the key list of a pass. -/
theorem reloadAll_ind (env : Env) (fuel : Nat) (Q : List Key → St → St → Prop)
    (hnil : ∀ s, Q [] s s)
    (hcons : ∀ k ks s s1 s2, (s1 = s ∨ s1 = (reloadUntyped env fuel s k).1) → Q ks s1 s2 → Q (k :: ks) s s2) :
    ∀ keys s r, Q keys s (reloadAll env fuel keys (s, r)).1 := by
  intro keys
  induction keys with
  | nil => intro s r; exact hnil s
  | cons k ks ih =>
    intro s r
    obtain ⟨s1, r', h1, e⟩ := reloadAll_cons env fuel k ks s r
    rw [e]
    exact hcons k ks s s1 _ h1 (ih s1 r')

theorem reloadAll_ev (env : Env) (fuel : Nat) (keys : List Key) (s : St) (r : RSt) : s.Ev (reloadAll env fuel keys (s, r)).1 := by
  refine reloadAll_ind env fuel (fun _ s t => s.Ev t) (fun s => St.Ev.refl s) ?_ keys s r
  intro k ks s s1 s2 h1 h2
  rcases h1 with rfl | rfl
  · exact h2
  · exact (reloadUntyped_ev env fuel s k).trans h2

/-- A pass only touches cells of the keys it was given. -/
theorem reloadAll_frame (env : Env) (fuel : Nat) (keys : List Key) (s : St) (r : RSt) (k : Key) (c : Cell) (hk : k ∉ keys) (h : s.lookup k = some c) :
    (reloadAll env fuel keys (s, r)).1.lookup k = some c := by
  refine reloadAll_ind env fuel (fun keys s t => k ∉ keys → s.lookup k = some c → t.lookup k = some c)
    (fun s _ h => h) ?_ keys s r hk h
  intro k0 ks s s1 s2 h1 h2 hk h
  have hk0 : k ≠ k0 := fun e => hk (e ▸ List.mem_cons_self)
  have hks : k ∉ ks := fun m => hk (List.mem_cons_of_mem _ m)
  rcases h1 with rfl | rfl
  · exact h2 hks h
  · exact h2 hks (reloadUntyped_other env fuel s k0 k c hk0 h)

/-- the reload id a handle on `k` shows (`NEVER` for an absent key: what a fresh entry starts with) -/
def St.ridOf (s : St) (k : Key) : Nat :=
  match s.lookup k with
  | some c => c.rid
  | none => ReloadId_NEVER

theorem newCells_never (env : Env) : NewCellsSat env (fun _ c => c.rid = ReloadId_NEVER) := ⟨fun _ _ _ => rfl, fun _ _ _ => rfl⟩

theorem reloadUntyped_ridOf_le (env : Env) (fuel : Nat) (s : St) (key : Key) (k : Key) (c' : Cell)
    (h : (reloadUntyped env fuel s key).1.lookup k = some c') : c'.rid ≤ s.ridOf k + 1 := by
  unfold St.ridOf
  cases hk : s.lookup k with
  | none =>
    have := reloadUntyped_added env fuel s key _ (newCells_never env) k c' h hk
    simp only [this]; exact Nat.le_succ _
  | some c =>
    simp only []
    by_cases hkk : k = key
    · subst hkk
      obtain ⟨s1, hle, _, hcase⟩ := reloadUntyped_cases env fuel s k c hk
      rcases hcase with ⟨o, _, e⟩ | ⟨v, deps, _, _, e⟩
      · rw [e] at h; rw [hle k c hk] at h
        have : c = c' := by simpa using h
        rw [← this]; exact Nat.le_succ _
      · rw [e] at h; simp only [] at h
        rw [St.swapValue_lookup, St.setCell_lookup_self _ _ _ c (hle k c hk)] at h
        have : c.written v = c' := by simpa using h
        rw [← this]; exact Nat.le_refl _
    · rw [reloadUntyped_other env fuel s key k c hkk hk] at h
      have : c = c' := by simpa using h
      rw [← this]; exact Nat.le_succ _

theorem reloadUntyped_ridOf_other (env : Env) (fuel : Nat) (s : St) (key : Key) (k : Key) (hk : k ≠ key) :
    (reloadUntyped env fuel s key).1.ridOf k = s.ridOf k := by
  unfold St.ridOf
  cases hs : s.lookup k with
  | some c => rw [reloadUntyped_other env fuel s key k c hk hs]
  | none =>
    cases h1 : (reloadUntyped env fuel s key).1.lookup k with
    | none => rfl
    | some c1 => exact reloadUntyped_added env fuel s key _ (newCells_never env) k c1 h1 hs

/-- **At most one write per key and pass**: with a duplicate-free key list every reload id after
the pass is at most one more than before (`ridOf` = `NEVER` for keys that were absent). -/
theorem reloadAll_rid_le_succ (env : Env) (fuel : Nat) (keys : List Key) (s : St) (r : RSt) (hnd : keys.Nodup) (k : Key) (c' : Cell)
    (h : (reloadAll env fuel keys (s, r)).1.lookup k = some c') : c'.rid ≤ s.ridOf k + 1 := by
  refine (reloadAll_ind env fuel
    (fun keys s t => (∀ k c, k ∉ keys → s.lookup k = some c → t.lookup k = some c) ∧
      (keys.Nodup → ∀ k c', t.lookup k = some c' → c'.rid ≤ s.ridOf k + 1)) ?_ ?_ keys s r).2 hnd k c' h
  · intro s
    refine ⟨fun _ _ _ h => h, ?_⟩
    intro _ k c' h
    simp only [St.ridOf, h]; exact Nat.le_succ _
  · intro k0 ks s s1 s2 h1 ⟨hf, hb⟩
    have hframe : ∀ k c, k ∉ k0 :: ks → s.lookup k = some c → s2.lookup k = some c := by
      intro k c hk h
      have hk0 : k ≠ k0 := fun e => hk (e ▸ List.mem_cons_self)
      have hks : k ∉ ks := fun m => hk (List.mem_cons_of_mem _ m)
      rcases h1 with rfl | rfl
      · exact hf k c hks h
      · exact hf k c hks (reloadUntyped_other env fuel s k0 k c hk0 h)
    refine ⟨hframe, ?_⟩
    intro hnd k c' h
    have hnd' := List.nodup_cons.mp hnd
    rcases h1 with rfl | rfl
    · exact hb hnd'.2 k c' h
    · have ih := hb hnd'.2 k c' h
      by_cases hkk : k = k0
      · subst hkk
        cases hs : s.lookup k with
        | none =>
          rw [reloadUntyped_absent env fuel s k hs] at ih; exact ih
        | some c =>
          obtain ⟨c1, hc1, _⟩ := reloadUntyped_ev env fuel s k k c hs
          have hstep := reloadUntyped_ridOf_le env fuel s k k c1 hc1
          have h2 := hf k c1 hnd'.1 hc1
          rw [h2] at h
          have : c1 = c' := by simpa using h
          rw [← this]; exact hstep
      · rw [reloadUntyped_ridOf_other env fuel s k0 k hkk] at ih; exact ih

/-! ## Messages, `runUpdate`, and the three entry points -/

@[simp] theorem processMsgs_map (s : St) (r : RSt) : (processMsgs s r).1.map = s.map := rfl

theorem processMsgs_fst (s : St) (r : RSt) : (processMsgs s r).1 = { s with out := [] } := rfl

theorem processMsgs_lookup (s : St) (r : RSt) (k : Key) : (processMsgs s r).1.lookup k = s.lookup k :=
  St.lookup_congr rfl k

/-- `run_update` either gives up before touching anything (sort ran out of fuel) or is `reloadAll`
over the sorted list. -/
theorem runUpdate_form (env : Env) (fuel : Nat) (s : St) (r : RSt) :
    (topo r.graph fuel r.toReload = none ∧ runUpdate env fuel s r = (s, { r with dead := true })) ∨
    (∃ keys, topo r.graph fuel r.toReload = some keys ∧
      runUpdate env fuel s r = reloadAll env fuel keys (s, { r with toReload := [] })) := by
  unfold runUpdate
  cases topo r.graph fuel r.toReload with
  | none => exact Or.inl ⟨rfl, rfl⟩
  | some keys => exact Or.inr ⟨keys, rfl, rfl⟩

/-- Generic transfer: a reflexive relation that holds across `reloadAll` and only looks at the map
holds across `runUpdate`, `handleEvents`, `hotReload`, `enhance`. -/
structure PassRel (env : Env) (fuel : Nat) (R : St → St → Prop) : Prop where
  refl : ∀ s, R s s
  trans : ∀ {a b c}, R a b → R b c → R a c
  of_map_eq : ∀ {s t : St}, t.map = s.map → R s t
  all : ∀ keys s r, R s (reloadAll env fuel keys (s, r)).1

namespace PassRel
variable {env : Env} {fuel : Nat} {R : St → St → Prop}

theorem runUpdate_rel (h : PassRel env fuel R) (s : St) (r : RSt) : R s (runUpdate env fuel s r).1 := by
  rcases runUpdate_form env fuel s r with ⟨_, e⟩ | ⟨keys, _, e⟩
  · rw [e]; exact h.refl s
  · rw [e]; exact h.all keys s _

theorem handleEvents_rel (h : PassRel env fuel R) (s : St) (r : RSt) (evs : List Dep) : R s (handleEvents env fuel s r evs).1 := by
  unfold handleEvents
  split
  · exact h.refl s
  · simp only []
    split
    · exact h.trans (h.trans (h.of_map_eq (t := (processMsgs s r).1) rfl) (h.runUpdate_rel _ _)) (h.of_map_eq rfl)
    · exact h.of_map_eq rfl

theorem hotReload_rel (h : PassRel env fuel R) (s : St) (r : RSt) : R s (hotReload env fuel s r).1 := by
  unfold hotReload
  split
  · exact h.refl s
  · simp only []
    split
    · exact h.of_map_eq rfl
    · exact h.trans (h.trans (h.of_map_eq (t := (processMsgs s r).1) rfl) (h.runUpdate_rel _ _)) (h.of_map_eq rfl)

theorem enhance_rel (h : PassRel env fuel R) (s : St) (r : RSt) : R s (enhance env fuel s r).1 := by
  unfold enhance
  split
  · exact h.refl s
  · simp only []
    split
    · exact h.of_map_eq rfl
    · exact h.trans (h.trans (h.of_map_eq (t := (processMsgs s r).1) rfl) (h.runUpdate_rel _ _)) (h.of_map_eq rfl)

end PassRel

theorem St.Ev.passRel (env : Env) (fuel : Nat) : PassRel env fuel St.Ev where
  refl := St.Ev.refl
  trans := St.Ev.trans
  of_map_eq := St.Ev.of_map_eq
  all := fun keys s r => reloadAll_ev env fuel keys s r

theorem runUpdate_ev (env : Env) (fuel : Nat) (s : St) (r : RSt) : s.Ev (runUpdate env fuel s r).1 := (St.Ev.passRel env fuel).runUpdate_rel s r
theorem handleEvents_ev (env : Env) (fuel : Nat) (s : St) (r : RSt) (evs : List Dep) : s.Ev (handleEvents env fuel s r evs).1 :=
  (St.Ev.passRel env fuel).handleEvents_rel s r evs
theorem hotReload_ev (env : Env) (fuel : Nat) (s : St) (r : RSt) : s.Ev (hotReload env fuel s r).1 := (St.Ev.passRel env fuel).hotReload_rel s r
theorem enhance_ev (env : Env) (fuel : Nat) (s : St) (r : RSt) : s.Ev (enhance env fuel s r).1 := (St.Ev.passRel env fuel).enhance_rel s r

/-! ## API operations -/

/-- `P` holds of every cell an API operation creates under `env` (by a load or by `get_or_insert`):
the same as `NewCellsSat` now that loaders may call `get_or_insert` themselves. -/
abbrev EnvCellsSat (env : Env) (P : Key → Cell → Prop) : Prop := NewCellsSat env P

theorem MapRel.evalTop_rel {env : Env} {R : St → St → Prop} (h : MapRel env R) (fuel : Nat) (s : St) (p : Prog) :
    R s (evalTop env fuel s p).1 := by
  unfold evalTop
  exact h.congr (s := { s with recs := [] }) (t := (eval env fuel { s with recs := [] } p).1) rfl rfl
    (h.eval_rel fuel _ p)

theorem step_load_fst (env : Env) (fuel : Nat) (s : St) (key : Key) :
    (step env fuel s (.load key)).1 = (evalTop env fuel s (.load key Prog.ret')).1 := by
  simp only [step]
  generalize evalTop env fuel s (.load key Prog.ret') = x
  obtain ⟨s1, o⟩ := x
  cases o <;> rfl

theorem step_loadOwned_fst (env : Env) (fuel : Nat) (s : St) (key : Key) :
    (step env fuel s (.loadOwned key)).1 = (evalTop env fuel s (.loadOwned key Prog.ret')).1 := rfl

theorem find_filter_ne (m : List (Key × Cell)) (key k : Key) :
    ((m.filter (·.1 ≠ key)).find? (·.1 = k)).map (·.2) =
      if k = key then none else (m.find? (·.1 = k)).map (·.2) := by
  induction m with
  | nil => simp
  | cons x xs ih =>
    by_cases hx : x.1 = key
    · have : (x :: xs).filter (·.1 ≠ key) = xs.filter (·.1 ≠ key) := by simp [hx]
      rw [this, ih]
      by_cases hk : k = key
      · simp [hk]
      · have hxk : ¬ x.1 = k := fun e => hk (e.symm.trans hx)
        simp [hk, hxk]
    · have : (x :: xs).filter (·.1 ≠ key) = x :: xs.filter (·.1 ≠ key) := by simp [hx]
      rw [this]
      by_cases hxk : x.1 = k
      · have hk : ¬ k = key := fun e => hx (hxk.trans e)
        simp [hxk, hk]
      · simp only [List.find?_cons, hxk, decide_false]
        exact ih

/-- the map after `remove` / `take` -/
theorem lookup_removed (s : St) (key k : Key) :
    St.lookup { s with map := s.map.filter (·.1 ≠ key) } k = if k = key then none else s.lookup k := by
  unfold St.lookup; exact find_filter_ne s.map key k

/-- An operation that does not remove `k` leaves the cell stored under `k` alone. -/
theorem step_keeps (env : Env) (fuel : Nat) (s : St) (op : Op) (k : Key) (c : Cell)
    (hop : op.removes k = false) (h : s.lookup k = some c) : (step env fuel s op).1.lookup k = some c := by
  cases op with
  | load key => rw [step_load_fst]; exact (St.Le.mapRel env).evalTop_rel fuel s _ k c h
  | loadOwned key => rw [step_loadOwned_fst]; exact (St.Le.mapRel env).evalTop_rel fuel s _ k c h
  | getCached key => exact h
  | contains key => exact h
  | getOrInsert key v =>
    simp only [step]
    cases hl : s.lookup key with
    | some c' => exact h
    | none =>
      simp only []
      have := St.insertKeepFirst_le s key (insertedCell env key v s.next) k c h
      rw [← this]; exact St.lookup_congr rfl k
  | remove key =>
    have hk : ¬ k = key := by
      intro e; simp [Op.removes, e] at hop
    simp only [step, St.release_lookup]; rw [lookup_removed]; simp [hk, h]
  | take key =>
    have hk : ¬ k = key := by
      intro e; simp [Op.removes, e] at hop
    simp only [step, St.release_lookup]; rw [lookup_removed]; simp [hk, h]
  | clear => simp [Op.removes] at hop

/-- Every cell stored after an API operation was stored before (same key, unchanged) or was created
by this operation. -/
theorem step_added (env : Env) (fuel : Nat) (s : St) (op : Op) (P) (hP : EnvCellsSat env P) :
    Added P s (step env fuel s op).1 := by
  cases op with
  | load key => rw [step_load_fst]; exact (Added.mapRel hP).evalTop_rel fuel s _
  | loadOwned key => rw [step_loadOwned_fst]; exact (Added.mapRel hP).evalTop_rel fuel s _
  | getCached key => exact Added.refl P s
  | contains key => exact Added.refl P s
  | getOrInsert key v =>
    simp only [step]
    cases hl : s.lookup key with
    | some c' => exact Added.refl P s
    | none =>
      simp only []
      exact (Added.ins_cell s key (insertedCell env key v s.next) (hP.2 key v s.next)).trans (Added.of_map_eq rfl)
  | remove key =>
    intro k c h
    simp only [step, St.release_lookup] at h; rw [lookup_removed] at h
    by_cases hk : k = key
    · simp [hk] at h
    · simp only [hk, if_false] at h; exact Or.inl h
  | take key =>
    intro k c h
    simp only [step, St.release_lookup] at h; rw [lookup_removed] at h
    by_cases hk : k = key
    · simp [hk] at h
    · simp only [hk, if_false] at h; exact Or.inl h
  | clear =>
    intro k c h
    simp [step, St.lookup] at h

/-! ## Invariants of stored cells -/

/-- every stored cell satisfies `I` -/
def St.All (I : Key → Cell → Prop) (s : St) : Prop := ∀ k c, s.lookup k = some c → I k c

/-- `I` survives a `write` -/
def WriteStable (I : Key → Cell → Prop) : Prop := ∀ k c v, I k c → c.dyn = true → I k (c.written v)

theorem reloadUntyped_all (env : Env) (fuel : Nat) (s : St) (key : Key) (I) (hw : WriteStable I)
    (hn : NewCellsSat env I) (hs : s.All I) : (reloadUntyped env fuel s key).1.All I := by
  cases hc : s.lookup key with
  | none => rw [reloadUntyped_absent env fuel s key hc]; exact hs
  | some c0 =>
    obtain ⟨s1, hle, hadd, hcase⟩ := reloadUntyped_cases env fuel s key c0 hc
    have h1 : s1.All I := by
      intro k c h
      rcases hadd I hn k c h with h' | h'
      · exact hs k c h'
      · exact h'
    rcases hcase with ⟨o, _, e⟩ | ⟨v, deps, hd, _, e⟩
    · rw [e]; exact h1
    · rw [e]
      intro k c h
      simp only [] at h
      by_cases hk : k = key
      · subst hk
        rw [St.swapValue_lookup, St.setCell_lookup_self _ _ _ c0 (hle k c0 hc)] at h
        have : c0.written v = c := by simpa using h
        rw [← this]; exact hw k c0 v (hs k c0 hc) hd
      · rw [St.swapValue_lookup, St.setCell_lookup_other _ _ _ _ hk] at h
        exact h1 k c h

theorem allRel_passRel (env : Env) (fuel : Nat) (I) (hw : WriteStable I) (hn : NewCellsSat env I) :
    PassRel env fuel (fun s t => s.All I → t.All I) where
  refl := fun _ h => h
  trans := fun h1 h2 h => h2 (h1 h)
  of_map_eq := by
    intro s t e h k c hc
    rw [St.lookup_congr e k] at hc; exact h k c hc
  all := by
    intro keys s r
    refine reloadAll_ind env fuel (fun _ s t => s.All I → t.All I) (fun _ h => h) ?_ keys s r
    intro k ks s s1 s2 h1 h2 hs
    rcases h1 with rfl | rfl
    · exact h2 hs
    · exact h2 (reloadUntyped_all env fuel s k I hw hn hs)

theorem step_all (env : Env) (fuel : Nat) (s : St) (op : Op) (I) (hP : EnvCellsSat env I) (hs : s.All I) :
    (step env fuel s op).1.All I := by
  intro k c h
  rcases step_added env fuel s op I hP k c h with h' | h'
  · exact hs k c h'
  · exact h'

/-! ## Histories -/

theorem hstep_all (fuel : Nat) (e : Env × HOp) (x : St × RSt) (I) (hw : WriteStable I)
    (hP : EnvCellsSat e.1 I) (hs : x.1.All I) : (hstep fuel e x).1.All I := by
  obtain ⟨env, op⟩ := e
  obtain ⟨s, r⟩ := x
  cases op with
  | api op => exact step_all env fuel s op I hP hs
  | notify evs => exact (allRel_passRel env fuel I hw hP).handleEvents_rel s r evs hs
  | hotReload => exact (allRel_passRel env fuel I hw hP).hotReload_rel s r hs
  | enhance => exact (allRel_passRel env fuel I hw hP).enhance_rel s r hs

theorem runH_all (fuel : Nat) (I) (hw : WriteStable I) (h : List (Env × HOp)) (x : St × RSt)
    (hP : ∀ e ∈ h, EnvCellsSat e.1 I) (hs : x.1.All I) : (runH fuel h x).1.All I := by
  induction h generalizing x with
  | nil => exact hs
  | cons e es ih =>
    simp only [runH]
    exact ih _ (fun e' he' => hP e' (List.mem_cons_of_mem _ he'))
      (hstep_all fuel e x I hw (hP e List.mem_cons_self) hs)

/-- One step that does not remove `k` keeps the cell stored under `k`, evolved. -/
theorem hstep_ev (fuel : Nat) (e : Env × HOp) (x : St × RSt) (k : Key) (c : Cell)
    (hop : e.2.removes k = false) (h : x.1.lookup k = some c) :
    ∃ c', (hstep fuel e x).1.lookup k = some c' ∧ c.Ev c' := by
  obtain ⟨env, op⟩ := e
  obtain ⟨s, r⟩ := x
  cases op with
  | api op => exact ⟨c, step_keeps env fuel s op k c hop h, Cell.Ev.refl c⟩
  | notify evs => exact handleEvents_ev env fuel s r evs k c h
  | hotReload => exact hotReload_ev env fuel s r k c h
  | enhance => exact enhance_ev env fuel s r k c h

theorem runH_ev (fuel : Nat) (h : List (Env × HOp)) (x : St × RSt) (k : Key) (c : Cell)
    (hop : ∀ e ∈ h, e.2.removes k = false) (hc : x.1.lookup k = some c) :
    ∃ c', (runH fuel h x).1.lookup k = some c' ∧ c.Ev c' := by
  induction h generalizing x c with
  | nil => exact ⟨c, hc, Cell.Ev.refl c⟩
  | cons e es ih =>
    simp only [runH]
    obtain ⟨c1, h1, e1⟩ := hstep_ev fuel e x k c (hop e List.mem_cons_self) hc
    obtain ⟨c2, h2, e2⟩ := ih (hstep fuel e x) c1 (fun e' he' => hop e' (List.mem_cons_of_mem _ he')) h1
    exact ⟨c2, h2, e1.trans e2⟩

theorem runH_append (fuel : Nat) (h1 h2 : List (Env × HOp)) (x : St × RSt) :
    runH fuel (h1 ++ h2) x = runH fuel h2 (runH fuel h1 x) := by
  induction h1 generalizing x with
  | nil => rfl
  | cons e es ih => simp only [List.cons_append, runH]; exact ih _

end AmVerif.Model
