import AmVerif.Lemmas.ReadSet
import AmVerif.Lemmas.TopoGraph
/-!
# Semantic convergence of one update pass

* `reloadUntyped_hit_ok` / `_err` — what `reload_untyped` does when the re-evaluation is a tracked
  hit-only run (exactly: the key's cell gets the new value / nothing changes; the outcome carries
  exactly the recorded dependencies).
* forward view of the graph maintenance (`insertAsset_get_self`, `insertAsset_get_ne`,
  `addDeps_get_self`, `addDeps_get_ne`): what `typed` / `deps` of each node become.
* `reloadAll_cons_eq`, `reloadAll_one_*` — a pass is the iteration of its one-key step.
* `SettledAt` / `Settled`, the invariant `PInv` of a pass, the one-key step `pinv_step`, the initial
  invariant `pinv_init`, and `reloadAll_converges`.
-/
namespace AmVerif.Model
open AmVerif.Gen AmVerif.Lemmas.TopoGraph AmVerif.Lemmas.Topo

/-! ## `reload_untyped` when the re-evaluation is a tracked hit-only run -/

theorem reloadUntyped_hit_ok {env : Env} {fuel : Nat} {s : St} {key : Key} {c : Cell} {v : Val}
    (hc : s.lookup key = some c) (hd : c.dyn = true)
    (hh : reloadHit env fuel s key = true) (ho : reloadOut env fuel s key = .ok v) :
    (reloadUntyped env fuel s key).2 = .done (some (reloadDeps env fuel s key, true)) ∧
    (∃ c2, (reloadUntyped env fuel s key).1.lookup key = some c2 ∧ c2.val = v ∧ c2.dyn = true) ∧
    (∀ k, k ≠ key → (reloadUntyped env fuel s key).1.lookup k = s.lookup k) := by
  have hmap := reloadHit_map hh
  unfold reloadOut at ho
  unfold reloadDeps
  unfold reloadUntyped
  simp only [hc, hd, Bool.not_true, Bool.and_false, Bool.false_eq_true, if_false]
  generalize hr : reloadEval env fuel s key = r0 at hmap ho ⊢
  unfold reloadEval at hr
  simp only [hr]
  obtain ⟨s1, o, deps⟩ := r0
  simp only [] at hmap ho ⊢
  subst ho
  have hl : ∀ k, St.lookup { s1 with recs := [] } k = s.lookup k := fun k => St.lookup_congr hmap k
  simp only [hl key, hc, if_true]
  refine ⟨trivial, ⟨{ c with val := v, rid := (AtomicReloadId_increment c.rid).2, flag := true }, ?_, rfl, hd⟩, ?_⟩
  · rw [St.swapValue_lookup]
    exact St.setCell_lookup_self _ _ _ c ((hl key).trans hc)
  · intro k hk
    rw [St.swapValue_lookup, St.setCell_lookup_other _ _ _ _ hk]
    exact hl k

theorem reloadUntyped_hit_err {env : Env} {fuel : Nat} {s : St} {key : Key} {c : Cell} {e : LErr}
    (hc : s.lookup key = some c) (hd : c.dyn = true)
    (hh : reloadHit env fuel s key = true) (ho : reloadOut env fuel s key = .err e) :
    (reloadUntyped env fuel s key).2 = .done (some (reloadDeps env fuel s key, false)) ∧
    (∀ k, (reloadUntyped env fuel s key).1.lookup k = s.lookup k) := by
  have hcfg : failedReloadKeepsNewDeps = true := by decide
  have hmap := reloadHit_map hh
  unfold reloadOut at ho
  unfold reloadDeps
  unfold reloadUntyped
  simp only [hc, hd, Bool.not_true, Bool.and_false, Bool.false_eq_true, if_false]
  generalize hr : reloadEval env fuel s key = r0 at hmap ho ⊢
  unfold reloadEval at hr
  simp only [hr]
  obtain ⟨s1, o, deps⟩ := r0
  simp only [] at hmap ho ⊢
  subst ho
  simp only [hcfg, if_true]
  exact ⟨trivial, fun k => St.lookup_congr hmap k⟩

/-! ## Forward view of the graph maintenance: `typed` and `deps` of every node -/

/-- after the `rdeps` insertions a node has the `typed` / `deps` it had, or is a fresh untyped node
without dependencies -/
theorem addR_fold_get_fw {g : Graph} {a : Dep} {deps : List Dep} {x : Dep} {n1 : GNode}
    (h : (deps.foldl (addR a) g).get x = some n1) :
    (∃ n, g.get x = some n ∧ n.typed = n1.typed ∧ n.deps = n1.deps) ∨
    (g.get x = none ∧ n1.typed = false ∧ n1.deps = []) := by
  rw [get_addR_fold] at h
  split at h
  · cases h
    cases hg : g.get x with
    | none => exact Or.inr ⟨rfl, rfl, rfl⟩
    | some n => exact Or.inl ⟨n, rfl, rfl, rfl⟩
  · exact Or.inl ⟨n1, h, rfl, rfl⟩

theorem addR_fold_get_of_some {g : Graph} {a : Dep} {deps : List Dep} {x : Dep} {n : GNode}
    (h : g.get x = some n) :
    ∃ n1, (deps.foldl (addR a) g).get x = some n1 ∧ n1.typed = n.typed ∧ n1.deps = n.deps := by
  rw [get_addR_fold]
  split
  · exact ⟨_, rfl, by simp [h, bump], by simp [h]⟩
  · exact ⟨n, h, rfl, rfl⟩

theorem insT_typed_ne {a : Dep} {deps : List Dep} {old : GNode} {x : Dep} (m1 : GNode) (hx : x ≠ a) :
    (insT a deps old x m1).typed = m1.typed := by
  unfold insT; simp only [hx, if_false]; split <;> rfl

theorem insT_typed_self {a : Dep} {deps : List Dep} {old : GNode} (m1 : GNode) :
    (insT a deps old a m1).typed = true := by
  unfold insT; simp only [if_true]; split <;> rfl

/-- the node of the inserted asset: registered, with exactly the given dependencies -/
theorem insertAsset_get_self (g : Graph) (a : Dep) (deps : List Dep) :
    ∃ n', (g.insertAsset a deps).get a = some n' ∧ n'.typed = true ∧ n'.deps = deps := by
  cases h : (deps.foldl (addR a) g).get a with
  | none => rw [get_insertAsset_none h a, if_pos rfl]; exact ⟨_, rfl, rfl, rfl⟩
  | some old =>
    rw [get_insertAsset_some h a, h]
    exact ⟨_, rfl, insT_typed_self old, insT_deps_self old⟩

/-- every other node keeps `typed` / `deps`, or is a fresh untyped node without dependencies -/
theorem insertAsset_get_ne {g : Graph} {a : Dep} {deps : List Dep} {x : Dep} {n' : GNode} (hx : x ≠ a)
    (h : (g.insertAsset a deps).get x = some n') :
    (∃ n, g.get x = some n ∧ n.typed = n'.typed ∧ n.deps = n'.deps) ∨
    (g.get x = none ∧ n'.typed = false ∧ n'.deps = []) := by
  cases h1 : (deps.foldl (addR a) g).get a with
  | none =>
    rw [get_insertAsset_none h1 x, if_neg hx] at h
    exact addR_fold_get_fw h
  | some old =>
    rw [get_insertAsset_some h1 x] at h
    cases h2 : (deps.foldl (addR a) g).get x with
    | none => rw [h2] at h; cases h
    | some m1 =>
      rw [h2] at h
      simp only [Option.map_some, Option.some.injEq] at h
      subst h
      rw [insT_typed_ne m1 hx, insT_deps_ne m1 hx]
      exact addR_fold_get_fw h2

/-- `add_deps` on a registered asset: `typed` kept, dependencies = old ∪ new -/
theorem addDeps_get_self {g : Graph} {a : Dep} {deps : List Dep} {n : GNode} (hn : g.get a = some n) :
    ∃ n', (g.addDeps a deps).get a = some n' ∧ n'.typed = n.typed ∧ ∀ d, d ∈ n'.deps ↔ d ∈ n.deps ∨ d ∈ deps := by
  obtain ⟨n1, h1, ht, hd⟩ := addR_fold_get_of_some (a := a) (deps := deps) hn
  rw [get_addDeps_some h1 a, if_pos rfl]
  refine ⟨_, rfl, ht, ?_⟩
  intro d
  simp only []
  rw [mem_foldl_addIfAbsent, hd]

theorem addDeps_get_ne {g : Graph} {a : Dep} {deps : List Dep} {x : Dep} {n' : GNode} (hx : x ≠ a)
    (h : (g.addDeps a deps).get x = some n') :
    (∃ n, g.get x = some n ∧ n.typed = n'.typed ∧ n.deps = n'.deps) ∨
    (g.get x = none ∧ n'.typed = false ∧ n'.deps = []) := by
  cases h1 : (deps.foldl (addR a) g).get a with
  | none => rw [get_addDeps_none h1 x] at h; exact addR_fold_get_fw h
  | some old => rw [get_addDeps_some h1 x, if_neg hx] at h; exact addR_fold_get_fw h

/-! ## A pass is the iteration of its one-key step -/

theorem reloadAll_cons_eq (env : Env) (fuel : Nat) (k : Key) (ks : List Key) (x : St × RSt) :
    reloadAll env fuel (k :: ks) x = reloadAll env fuel ks (reloadAll env fuel [k] x) := by
  obtain ⟨s, r⟩ := x
  simp only [reloadAll]
  by_cases hd : r.dead = true
  · simp only [hd, if_true]
    exact (reloadAll_dead env fuel ks s r hd).symm
  · simp only [hd]
    cases r.graph.get (.asset k) with
    | none => rfl
    | some node =>
      simp only []
      cases node.typed with
      | false => rfl
      | true =>
        simp only [if_true]
        generalize reloadUntyped env fuel s k = y
        obtain ⟨s1, o⟩ := y
        cases o with
        | died => exact (reloadAll_dead env fuel ks s1 _ rfl).symm
        | done d =>
          cases d with
          | none => rfl
          | some p =>
            obtain ⟨deps, b⟩ := p
            cases b <;> rfl

/-- the key is not a registered node: nothing happens -/
theorem reloadAll_one_unregistered {env : Env} {fuel : Nat} {k : Key} {s : St} {r : RSt}
    (h : ∀ node, r.graph.get (.asset k) = some node → node.typed = false) :
    reloadAll env fuel [k] (s, r) = (s, r) := by
  simp only [reloadAll]
  split
  · rfl
  · cases hg : r.graph.get (.asset k) with
    | none => rfl
    | some node => simp only [h node hg]; rfl

/-- the key is registered: the step is `reload_untyped` and the graph update its outcome asks for -/
theorem reloadAll_one_registered {env : Env} {fuel : Nat} {k : Key} {s : St} {r : RSt} {node : GNode}
    (hd : r.dead = false) (hg : r.graph.get (.asset k) = some node) (ht : node.typed = true) :
    reloadAll env fuel [k] (s, r) =
      match reloadUntyped env fuel s k with
      | (s1, .done (some (deps, true))) => (s1, { r with graph := r.graph.insertAsset (.asset k) deps })
      | (s1, .done (some (deps, false))) => (s1, { r with graph := r.graph.addDeps (.asset k) deps })
      | (s1, .done none) => (s1, r)
      | (s1, .died) => (s1, { r with dead := true }) := by
  simp only [reloadAll, hd, hg, ht, Bool.false_eq_true, if_false, if_true]
  generalize reloadUntyped env fuel s k = y
  obtain ⟨s1, o⟩ := y
  cases o with
  | died => rfl
  | done d =>
    cases d with
    | none => rfl
    | some p =>
      obtain ⟨deps, b⟩ := p
      cases b <;> rfl

theorem reloadAll_one_ok {env : Env} {fuel : Nat} {k : Key} {s : St} {r : RSt} {node : GNode} {c : Cell} {v : Val}
    (hd : r.dead = false) (hg : r.graph.get (.asset k) = some node) (ht : node.typed = true)
    (hc : s.lookup k = some c) (hdyn : c.dyn = true)
    (hh : reloadHit env fuel s k = true) (ho : reloadOut env fuel s k = .ok v) :
    (reloadAll env fuel [k] (s, r)).2 = { r with graph := r.graph.insertAsset (.asset k) (reloadDeps env fuel s k) } ∧
    (∃ c2, (reloadAll env fuel [k] (s, r)).1.lookup k = some c2 ∧ c2.val = v ∧ c2.dyn = true) ∧
    (∀ k', k' ≠ k → (reloadAll env fuel [k] (s, r)).1.lookup k' = s.lookup k') := by
  rw [reloadAll_one_registered hd hg ht]
  obtain ⟨h1, h2, h3⟩ := reloadUntyped_hit_ok hc hdyn hh ho
  generalize reloadUntyped env fuel s k = y at h1 h2 h3 ⊢
  obtain ⟨s1, o⟩ := y
  simp only [] at h1 h2 h3
  subst h1
  exact ⟨rfl, h2, h3⟩

theorem reloadAll_one_err {env : Env} {fuel : Nat} {k : Key} {s : St} {r : RSt} {node : GNode} {c : Cell} {e : LErr}
    (hd : r.dead = false) (hg : r.graph.get (.asset k) = some node) (ht : node.typed = true)
    (hc : s.lookup k = some c) (hdyn : c.dyn = true)
    (hh : reloadHit env fuel s k = true) (ho : reloadOut env fuel s k = .err e) :
    (reloadAll env fuel [k] (s, r)).2 = { r with graph := r.graph.addDeps (.asset k) (reloadDeps env fuel s k) } ∧
    (∀ k', (reloadAll env fuel [k] (s, r)).1.lookup k' = s.lookup k') := by
  rw [reloadAll_one_registered hd hg ht]
  obtain ⟨h1, h2⟩ := reloadUntyped_hit_err hc hdyn hh ho
  generalize reloadUntyped env fuel s k = y at h1 h2 ⊢
  obtain ⟨s1, o⟩ := y
  simp only [] at h1 h2
  subst h1
  exact ⟨rfl, h2⟩

/-- a registered key that is not cached, or cached in a static entry: nothing happens -/
theorem reloadAll_one_skipped {env : Env} {fuel : Nat} {k : Key} {s : St} {r : RSt}
    (h : ∀ c, s.lookup k = some c → c.dyn = false) :
    reloadAll env fuel [k] (s, r) = (s, r) := by
  have hu : reloadUntyped env fuel s k = (s, .done none) := by
    cases hc : s.lookup k with
    | none => exact reloadUntyped_absent env fuel s k hc
    | some c =>
      have hs : reloadSkipsStatic = true := by decide
      unfold reloadUntyped
      simp only [hc, h c hc, hs, Bool.not_false, Bool.and_self, if_true]
  simp only [reloadAll]
  split
  · rfl
  · cases hg : r.graph.get (.asset k) with
    | none => rfl
    | some node =>
      simp only []
      split
      · rw [hu]
      · rfl

/-! ## Settled assets -/

/-- The cached cell `c` of the registered asset `k` (graph node `node`) is **settled** under `env`
and the cache `s`: re-evaluating its loader now is a tracked hit-only run (loads nothing new), and
* either it returns the cached value, and what it reads is exactly the node's dependency set,
* or it fails (the entry keeps its previous value), and everything the failing evaluation reads is
  among the node's dependencies (so that the asset is retried when any of it changes). -/
structure SettledAt (env : Env) (fuel : Nat) (s : St) (node : GNode) (k : Key) (c : Cell) : Prop where
  hit : reloadHit env fuel s k = true
  res : (reloadOut env fuel s k = .ok c.val ∧ ∀ d, d ∈ reloadDeps env fuel s k ↔ d ∈ node.deps) ∨
        (∃ e, reloadOut env fuel s k = .err e ∧ ∀ d, d ∈ reloadDeps env fuel s k → d ∈ node.deps)

/-- every registered (typed node), cached, dynamic asset is settled -/
def Settled (env : Env) (fuel : Nat) (s : St) (g : Graph) : Prop :=
  ∀ k node c, g.get (.asset k) = some node → node.typed = true → s.lookup k = some c → c.dyn = true →
    SettledAt env fuel s node k c

theorem SettledAt.deps_sub {env : Env} {fuel : Nat} {s : St} {node : GNode} {k : Key} {c : Cell}
    (h : SettledAt env fuel s node k c) : ∀ d, d ∈ reloadDeps env fuel s k → d ∈ node.deps := by
  rcases h.res with ⟨_, h2⟩ | ⟨_, _, h2⟩
  · exact fun d hd => (h2 d).mp hd
  · exact h2

/-- Settledness is transported along agreement on the recorded entries. -/
theorem SettledAt.transfer {env env' : Env} (hS : env.Steady) (hS' : env'.Steady) (hL : SameLoaders env env')
    {fuel : Nat} {s t : St} {node node' : GNode} {k : Key} {c c' : Cell}
    (h : SettledAt env fuel s node k c)
    (hag : ∀ d ∈ reloadDeps env fuel s k, AgreeOn env env' s t d)
    (hval : c'.val = c.val) (hdeps : node'.deps = node.deps) :
    SettledAt env' fuel t node' k c' ∧ reloadDeps env' fuel t k = reloadDeps env fuel s k := by
  obtain ⟨h1, h2, h3⟩ := reloadEval_readset hS hS' hL fuel s t k h.hit hag
  refine ⟨⟨h1, ?_⟩, h3⟩
  rw [h2, h3, hval, hdeps]
  exact h.res

/-- under one environment two caches agree on `d` as soon as they hold the same value for the asset
`d` names (files and directories read the same anyway) -/
theorem agreeOn_same_env {env : Env} {s t : St} {d : Dep}
    (h : ∀ y, d = .asset y → t.lookup y = s.lookup y) : AgreeOn env env s t d := by
  cases d with
  | file id ext => rfl
  | dir id => rfl
  | asset y => simp only [AgreeOn]; rw [h y rfl]

end AmVerif.Model
