import AmVerif.Lemmas.ReadSet
import AmVerif.Lemmas.TopoGraph
/-!
# Semantic convergence of one update pass

* `reloadUntyped_hit_ok` / `_err` — what `reload_untyped` does when the re-evaluation is a tracked
  hit-only run (exactly: the key's cell gets the new value / nothing changes; the outcome carries
  exactly the recorded dependencies).
* forward view of the graph maintenance (`insertAsset_get_self`, `insertAsset_get_ne`,
  `addDeps_get_self`, `addDeps_get_ne`): what `typed` / `deps` of each node become.
* `reloadAll_cons_eq`, `reloadAll_one_*` — a pass is the iteration of its one-key step.
* `SettledAt` / `Settled`, the invariant `PInv` of a pass, the one-key step `pinv_step`
  (`pinv_skip` / `pinv_ok` / `pinv_err`), the initial invariant `pinv_init`, and `reloadAll_converges`.
* `PassStep` / `passSteps` / `updateSteps` and the three hypotheses on the reloads of a pass:
  `NoMissInPass` (excludes F-C05d), `ReloadsReturn`, `NoRewireOntoPending` (excludes F-C05e).
* executable checks (`settledB`, `stepsHitB`, `stepsReturnB`, `noRewireB`, `noMissB`) with their
  soundness lemmas, for concrete instances.
-/
namespace AmVerif.Model
open AmVerif.Gen AmVerif.Lemmas.TopoGraph AmVerif.Lemmas.Topo

/-! ## `reload_untyped` when the re-evaluation is a tracked hit-only run -/

theorem reloadUntyped_hit_ok {env : Env} {fuel : Nat} {s : St} {key : Key} {c : Cell} {v : Val}
    (hc : s.lookup key = some c) (hd : c.dyn = true)
    (hh : reloadHit env fuel s key = true) (ho : reloadOut env fuel s key = .ok v) :
    (reloadUntyped env fuel s key).2 = .done (some (reloadDeps env fuel s key, true)) ∧
    (∃ c2, (reloadUntyped env fuel s key).1.lookup key = some c2 ∧ c2.val = v ∧ c2.dyn = true) ∧
    (∀ k, k ≠ key → (reloadUntyped env fuel s key).1.lookup k = s.lookup k) ∧
    (reloadUntyped env fuel s key).1.out = s.out := by
  have hmap := reloadHit_map hh
  have hout := reloadHit_out hh
  unfold reloadOut at ho
  unfold reloadDeps
  unfold reloadUntyped
  simp only [hc, hd, Bool.not_true, Bool.and_false, Bool.false_eq_true, if_false]
  generalize hr : reloadEval env fuel s key = r0 at hmap hout ho ⊢
  unfold reloadEval at hr
  simp only [hr]
  obtain ⟨s1, o, deps⟩ := r0
  simp only [] at hmap hout ho ⊢
  subst ho
  have hl : ∀ k, St.lookup { s1 with recs := [] } k = s.lookup k := fun k => St.lookup_congr hmap k
  simp only [hl key, hc, if_true]
  refine ⟨trivial, ⟨{ c with val := v, rid := (AtomicReloadId_increment c.rid).2, flag := true }, ?_, rfl, hd⟩, ?_, hout⟩
  · rw [St.swapValue_lookup]
    exact St.setCell_lookup_self _ _ _ c ((hl key).trans hc)
  · intro k hk
    rw [St.swapValue_lookup, St.setCell_lookup_other _ _ _ _ hk]
    exact hl k

theorem reloadUntyped_hit_err {env : Env} {fuel : Nat} {s : St} {key : Key} {c : Cell} {e : LErr}
    (hc : s.lookup key = some c) (hd : c.dyn = true)
    (hh : reloadHit env fuel s key = true) (ho : reloadOut env fuel s key = .err e) :
    (reloadUntyped env fuel s key).2 = .done (some (reloadDeps env fuel s key, false)) ∧
    (∀ k, (reloadUntyped env fuel s key).1.lookup k = s.lookup k) ∧
    (reloadUntyped env fuel s key).1.out = s.out := by
  have hcfg : failedReloadKeepsNewDeps = true := by decide
  have hmap := reloadHit_map hh
  have hout := reloadHit_out hh
  unfold reloadOut at ho
  unfold reloadDeps
  unfold reloadUntyped
  simp only [hc, hd, Bool.not_true, Bool.and_false, Bool.false_eq_true, if_false]
  generalize hr : reloadEval env fuel s key = r0 at hmap hout ho ⊢
  unfold reloadEval at hr
  simp only [hr]
  obtain ⟨s1, o, deps⟩ := r0
  simp only [] at hmap hout ho ⊢
  subst ho
  simp only [hcfg, if_true]
  exact ⟨trivial, fun k => St.lookup_congr hmap k, hout⟩

/-! ## Forward view of the graph maintenance: `typed` and `deps` of every node -/

/-- after the `rdeps` insertions a node has the `typed` / `deps` it had, or is a fresh untyped node
without dependencies -/
theorem addR_fold_get_fw {g : Graph} {a : Dep} {deps : List Dep} {x : Dep} {n1 : GNode}
    (h : (deps.foldl (addR a) g).get x = some n1) :
    (∃ n, g.get x = some n ∧ n.typed = n1.typed ∧ n.deps = n1.deps) ∨
    (g.get x = none ∧ n1.typed = false ∧ n1.deps = []) := by
  rw [get_addR_fold] at h
  split at h
  · cases h
    cases hg : g.get x with
    | none => exact Or.inr ⟨rfl, rfl, rfl⟩
    | some n => exact Or.inl ⟨n, rfl, rfl, rfl⟩
  · exact Or.inl ⟨n1, h, rfl, rfl⟩

theorem addR_fold_get_of_some {g : Graph} {a : Dep} {deps : List Dep} {x : Dep} {n : GNode}
    (h : g.get x = some n) :
    ∃ n1, (deps.foldl (addR a) g).get x = some n1 ∧ n1.typed = n.typed ∧ n1.deps = n.deps := by
  rw [get_addR_fold]
  split
  · exact ⟨_, rfl, by simp [h, bump], by simp [h]⟩
  · exact ⟨n, h, rfl, rfl⟩

theorem insT_typed_ne {a : Dep} {deps : List Dep} {old : GNode} {x : Dep} (m1 : GNode) (hx : x ≠ a) :
    (insT a deps old x m1).typed = m1.typed := by
  unfold insT; simp only [hx, if_false]; split <;> rfl

theorem insT_typed_self {a : Dep} {deps : List Dep} {old : GNode} (m1 : GNode) :
    (insT a deps old a m1).typed = true := by
  unfold insT; simp only [if_true]; split <;> rfl

/-- the node of the inserted asset: registered, with exactly the given dependencies -/
theorem insertAsset_get_self (g : Graph) (a : Dep) (deps : List Dep) :
    ∃ n', (g.insertAsset a deps).get a = some n' ∧ n'.typed = true ∧ n'.deps = deps := by
  cases h : (deps.foldl (addR a) g).get a with
  | none => rw [get_insertAsset_none h a, if_pos rfl]; exact ⟨_, rfl, rfl, rfl⟩
  | some old =>
    rw [get_insertAsset_some h a, h]
    exact ⟨_, rfl, insT_typed_self old, insT_deps_self old⟩

/-- every other node keeps `typed` / `deps`, or is a fresh untyped node without dependencies -/
theorem insertAsset_get_ne {g : Graph} {a : Dep} {deps : List Dep} {x : Dep} {n' : GNode} (hx : x ≠ a)
    (h : (g.insertAsset a deps).get x = some n') :
    (∃ n, g.get x = some n ∧ n.typed = n'.typed ∧ n.deps = n'.deps) ∨
    (g.get x = none ∧ n'.typed = false ∧ n'.deps = []) := by
  cases h1 : (deps.foldl (addR a) g).get a with
  | none =>
    rw [get_insertAsset_none h1 x, if_neg hx] at h
    exact addR_fold_get_fw h
  | some old =>
    rw [get_insertAsset_some h1 x] at h
    cases h2 : (deps.foldl (addR a) g).get x with
    | none => rw [h2] at h; cases h
    | some m1 =>
      rw [h2] at h
      simp only [Option.map_some, Option.some.injEq] at h
      subst h
      rw [insT_typed_ne m1 hx, insT_deps_ne m1 hx]
      exact addR_fold_get_fw h2

/-- `add_deps` on a registered asset: `typed` kept, dependencies = old ∪ new -/
theorem addDeps_get_self {g : Graph} {a : Dep} {deps : List Dep} {n : GNode} (hn : g.get a = some n) :
    ∃ n', (g.addDeps a deps).get a = some n' ∧ n'.typed = n.typed ∧ ∀ d, d ∈ n'.deps ↔ d ∈ n.deps ∨ d ∈ deps := by
  obtain ⟨n1, h1, ht, hd⟩ := addR_fold_get_of_some (a := a) (deps := deps) hn
  rw [get_addDeps_some h1 a, if_pos rfl]
  refine ⟨_, rfl, ht, ?_⟩
  intro d
  simp only []
  rw [mem_foldl_addIfAbsent, hd]

theorem addDeps_get_ne {g : Graph} {a : Dep} {deps : List Dep} {x : Dep} {n' : GNode} (hx : x ≠ a)
    (h : (g.addDeps a deps).get x = some n') :
    (∃ n, g.get x = some n ∧ n.typed = n'.typed ∧ n.deps = n'.deps) ∨
    (g.get x = none ∧ n'.typed = false ∧ n'.deps = []) := by
  cases h1 : (deps.foldl (addR a) g).get a with
  | none => rw [get_addDeps_none h1 x] at h; exact addR_fold_get_fw h
  | some old => rw [get_addDeps_some h1 x, if_neg hx] at h; exact addR_fold_get_fw h

/-! ## A pass is the iteration of its one-key step -/

theorem reloadAll_cons_eq (env : Env) (fuel : Nat) (k : Key) (ks : List Key) (x : St × RSt) :
    reloadAll env fuel (k :: ks) x = reloadAll env fuel ks (reloadAll env fuel [k] x) := by
  obtain ⟨s, r⟩ := x
  simp only [reloadAll]
  by_cases hd : r.dead = true
  · simp only [hd, if_true]
    exact (reloadAll_dead env fuel ks s r hd).symm
  · simp only [hd]
    cases r.graph.get (.asset k) with
    | none => rfl
    | some node =>
      simp only []
      cases node.typed with
      | false => rfl
      | true =>
        simp only [if_true]
        generalize reloadUntyped env fuel s k = y
        obtain ⟨s1, o⟩ := y
        cases o with
        | died => exact (reloadAll_dead env fuel ks s1 _ rfl).symm
        | done d =>
          cases d with
          | none => rfl
          | some p =>
            obtain ⟨deps, b⟩ := p
            cases b <;> rfl

/-- the key is not a registered node: nothing happens -/
theorem reloadAll_one_unregistered {env : Env} {fuel : Nat} {k : Key} {s : St} {r : RSt}
    (h : ∀ node, r.graph.get (.asset k) = some node → node.typed = false) :
    reloadAll env fuel [k] (s, r) = (s, r) := by
  simp only [reloadAll]
  split
  · rfl
  · cases hg : r.graph.get (.asset k) with
    | none => rfl
    | some node => simp only [h node hg]; rfl

/-- the key is registered: the step is `reload_untyped` and the graph update its outcome asks for -/
theorem reloadAll_one_registered {env : Env} {fuel : Nat} {k : Key} {s : St} {r : RSt} {node : GNode}
    (hd : r.dead = false) (hg : r.graph.get (.asset k) = some node) (ht : node.typed = true) :
    reloadAll env fuel [k] (s, r) =
      match reloadUntyped env fuel s k with
      | (s1, .done (some (deps, true))) => (s1, { r with graph := r.graph.insertAsset (.asset k) deps })
      | (s1, .done (some (deps, false))) => (s1, { r with graph := r.graph.addDeps (.asset k) deps })
      | (s1, .done none) => (s1, r)
      | (s1, .died) => (s1, { r with dead := true }) := by
  simp only [reloadAll, hd, hg, ht, Bool.false_eq_true, if_false, if_true]
  generalize reloadUntyped env fuel s k = y
  obtain ⟨s1, o⟩ := y
  cases o with
  | died => rfl
  | done d =>
    cases d with
    | none => rfl
    | some p =>
      obtain ⟨deps, b⟩ := p
      cases b <;> rfl

theorem reloadAll_one_ok {env : Env} {fuel : Nat} {k : Key} {s : St} {r : RSt} {node : GNode} {c : Cell} {v : Val}
    (hd : r.dead = false) (hg : r.graph.get (.asset k) = some node) (ht : node.typed = true)
    (hc : s.lookup k = some c) (hdyn : c.dyn = true)
    (hh : reloadHit env fuel s k = true) (ho : reloadOut env fuel s k = .ok v) :
    (reloadAll env fuel [k] (s, r)).2 = { r with graph := r.graph.insertAsset (.asset k) (reloadDeps env fuel s k) } ∧
    (∃ c2, (reloadAll env fuel [k] (s, r)).1.lookup k = some c2 ∧ c2.val = v ∧ c2.dyn = true) ∧
    (∀ k', k' ≠ k → (reloadAll env fuel [k] (s, r)).1.lookup k' = s.lookup k') ∧
    (reloadAll env fuel [k] (s, r)).1.out = s.out := by
  rw [reloadAll_one_registered hd hg ht]
  obtain ⟨h1, h2, h3, h4⟩ := reloadUntyped_hit_ok hc hdyn hh ho
  generalize reloadUntyped env fuel s k = y at h1 h2 h3 h4 ⊢
  obtain ⟨s1, o⟩ := y
  simp only [] at h1 h2 h3 h4
  subst h1
  exact ⟨rfl, h2, h3, h4⟩

theorem reloadAll_one_err {env : Env} {fuel : Nat} {k : Key} {s : St} {r : RSt} {node : GNode} {c : Cell} {e : LErr}
    (hd : r.dead = false) (hg : r.graph.get (.asset k) = some node) (ht : node.typed = true)
    (hc : s.lookup k = some c) (hdyn : c.dyn = true)
    (hh : reloadHit env fuel s k = true) (ho : reloadOut env fuel s k = .err e) :
    (reloadAll env fuel [k] (s, r)).2 = { r with graph := r.graph.addDeps (.asset k) (reloadDeps env fuel s k) } ∧
    (∀ k', (reloadAll env fuel [k] (s, r)).1.lookup k' = s.lookup k') ∧
    (reloadAll env fuel [k] (s, r)).1.out = s.out := by
  rw [reloadAll_one_registered hd hg ht]
  obtain ⟨h1, h2, h3⟩ := reloadUntyped_hit_err hc hdyn hh ho
  generalize reloadUntyped env fuel s k = y at h1 h2 h3 ⊢
  obtain ⟨s1, o⟩ := y
  simp only [] at h1 h2 h3
  subst h1
  exact ⟨rfl, h2, h3⟩

/-- a registered key that is not cached, or cached in a static entry: nothing happens -/
theorem reloadAll_one_skipped {env : Env} {fuel : Nat} {k : Key} {s : St} {r : RSt}
    (h : ∀ c, s.lookup k = some c → c.dyn = false) :
    reloadAll env fuel [k] (s, r) = (s, r) := by
  have hu : reloadUntyped env fuel s k = (s, .done none) := by
    cases hc : s.lookup k with
    | none => exact reloadUntyped_absent env fuel s k hc
    | some c =>
      have hs : reloadSkipsStatic = true := by decide
      unfold reloadUntyped
      simp only [hc, h c hc, hs, Bool.not_false, Bool.and_self, if_true]
  simp only [reloadAll]
  split
  · rfl
  · cases hg : r.graph.get (.asset k) with
    | none => rfl
    | some node =>
      simp only []
      split
      · rw [hu]
      · rfl

/-! ## Settled assets -/

/-- The cached cell `c` of the registered asset `k` (graph node `node`) is **settled** under `env`
and the cache `s`: re-evaluating its loader now is a tracked hit-only run (loads nothing new), and
* either it returns the cached value, and what it reads is exactly the node's dependency set,
* or it fails (the entry keeps its previous value), and everything the failing evaluation reads is
  among the node's dependencies (so that the asset is retried when any of it changes). -/
structure SettledAt (env : Env) (fuel : Nat) (s : St) (node : GNode) (k : Key) (c : Cell) : Prop where
  hit : reloadHit env fuel s k = true
  res : (reloadOut env fuel s k = .ok c.val ∧ ∀ d, d ∈ reloadDeps env fuel s k ↔ d ∈ node.deps) ∨
        (∃ e, reloadOut env fuel s k = .err e ∧ ∀ d, d ∈ reloadDeps env fuel s k → d ∈ node.deps)

/-- every registered (typed node), cached, dynamic asset is settled -/
def Settled (env : Env) (fuel : Nat) (s : St) (g : Graph) : Prop :=
  ∀ k node c, g.get (.asset k) = some node → node.typed = true → s.lookup k = some c → c.dyn = true →
    SettledAt env fuel s node k c

theorem SettledAt.deps_sub {env : Env} {fuel : Nat} {s : St} {node : GNode} {k : Key} {c : Cell}
    (h : SettledAt env fuel s node k c) : ∀ d, d ∈ reloadDeps env fuel s k → d ∈ node.deps := by
  rcases h.res with ⟨_, h2⟩ | ⟨_, _, h2⟩
  · exact fun d hd => (h2 d).mp hd
  · exact h2

/-- Settledness is transported along agreement on the recorded entries. -/
theorem SettledAt.transfer {env env' : Env} (hS : env.Steady) (hS' : env'.Steady) (hL : SameLoaders env env')
    {fuel : Nat} {s t : St} {node node' : GNode} {k : Key} {c c' : Cell}
    (h : SettledAt env fuel s node k c)
    (hag : ∀ d ∈ reloadDeps env fuel s k, AgreeOn env env' s t d)
    (hval : c'.val = c.val) (hdeps : node'.deps = node.deps) :
    SettledAt env' fuel t node' k c' ∧ reloadDeps env' fuel t k = reloadDeps env fuel s k := by
  obtain ⟨h1, h2, h3⟩ := reloadEval_readset hS hS' hL fuel s t k h.hit hag
  refine ⟨⟨h1, ?_⟩, h3⟩
  rw [h2, h3, hval, hdeps]
  exact h.res

/-- under one environment two caches agree on `d` as soon as they hold the same value for the asset
`d` names (files and directories read the same anyway) -/
theorem agreeOn_same_env {env : Env} {s t : St} {d : Dep}
    (h : ∀ y, d = .asset y → t.lookup y = s.lookup y) : AgreeOn env env s t d := by
  cases d with
  | file id ext => rfl
  | dir id => rfl
  | asset y => simp only [AgreeOn]; rw [h y rfl]

/-! ## The invariant of a pass -/

/-- the list respects the (initial) graph: whoever depends on a key of the list comes after it -/
def DepsFirst (g0 : Graph) (post : List Key) : Prop :=
  ∀ p1 y p2, post = p1 ++ y :: p2 → ∀ k n, g0.get (.asset k) = some n → Dep.asset y ∈ n.deps → k ∈ p2

theorem DepsFirst.tail {g0 : Graph} {k : Key} {rest : List Key} (h : DepsFirst g0 (k :: rest)) : DepsFirst g0 rest :=
  fun p1 y p2 e => h (k :: p1) y p2 (by rw [e]; rfl)

/-- no (old) dependency of the head key is the head itself or comes later -/
theorem DepsFirst.head_deps {g0 : Graph} {k : Key} {rest : List Key} (h : DepsFirst g0 (k :: rest))
    (hnd : (k :: rest).Nodup) {n : GNode} (hn : g0.get (.asset k) = some n) {y : Key}
    (hy : Dep.asset y ∈ n.deps) : y ∉ k :: rest := by
  intro hm
  obtain ⟨p1, p2, e⟩ := List.append_of_mem hm
  have hk := h p1 y p2 e k n hn hy
  have hnk := (List.nodup_cons.mp hnd).1
  cases p1 with
  | nil =>
    simp only [List.nil_append, List.cons.injEq] at e
    obtain ⟨_, e2⟩ := e
    exact hnk (e2 ▸ hk)
  | cons a p1' =>
    simp only [List.cons_append, List.cons.injEq] at e
    obtain ⟨_, e2⟩ := e
    exact hnk (e2 ▸ List.mem_append_right _ (List.mem_cons_of_mem _ hk))

/-- **Invariant of a pass** (`post` = the keys still to be processed, `g0` = the graph the list was
sorted from): every asset that is not pending is settled under the new environment and reads no
pending asset; the dependencies of a pending asset's node are still those of `g0`. -/
structure PInv (env' : Env) (fuel : Nat) (g0 : Graph) (post : List Key) (s : St) (g : Graph) : Prop where
  settled : ∀ k, k ∉ post → ∀ node c, g.get (.asset k) = some node → node.typed = true →
    s.lookup k = some c → c.dyn = true →
      SettledAt env' fuel s node k c ∧ ∀ y, y ∈ post → Dep.asset y ∉ reloadDeps env' fuel s k
  olddeps : ∀ k, k ∈ post → ∀ node, g.get (.asset k) = some node → ∀ d, d ∈ node.deps →
    ∃ n0, g0.get (.asset k) = some n0 ∧ d ∈ n0.deps

theorem PInv.settled_nil {env' : Env} {fuel : Nat} {g0 : Graph} {s : St} {g : Graph}
    (h : PInv env' fuel g0 [] s g) : Settled env' fuel s g :=
  fun k node c hg ht hc hd => (h.settled k (List.not_mem_nil) node c hg ht hc hd).1

/-- the head key is not reloaded (unregistered, not cached, or static): drop it -/
theorem pinv_skip {env' : Env} {fuel : Nat} {g0 : Graph} {k : Key} {rest : List Key} {s : St} {g : Graph}
    (hinv : PInv env' fuel g0 (k :: rest) s g)
    (hno : ∀ node c, g.get (.asset k) = some node → node.typed = true → s.lookup k = some c → c.dyn = true → False) :
    PInv env' fuel g0 rest s g := by
  constructor
  · intro x hx node c hg ht hc hd
    by_cases hxk : x = k
    · subst hxk; exact (hno node c hg ht hc hd).elim
    · have hx' : x ∉ k :: rest := by
        intro hm; rcases List.mem_cons.mp hm with e | e
        · exact hxk e
        · exact hx e
      obtain ⟨h1, h2⟩ := hinv.settled x hx' node c hg ht hc hd
      exact ⟨h1, fun y hy => h2 y (List.mem_cons_of_mem _ hy)⟩
  · intro x hx node hg d hd
    exact hinv.olddeps x (List.mem_cons_of_mem _ hx) node hg d hd

/-- the head key is reloaded successfully -/
theorem pinv_ok {env' : Env} (hS' : env'.Steady) {fuel : Nat} {g0 : Graph} {k : Key} {rest : List Key}
    {s : St} {g : Graph} {v : Val} {s2 : St}
    (hinv : PInv env' fuel g0 (k :: rest) s g)
    (hh : reloadHit env' fuel s k = true) (ho : reloadOut env' fuel s k = .ok v)
    (hF : ∀ y, y ∈ k :: rest → Dep.asset y ∉ reloadDeps env' fuel s k)
    (hnd : (k :: rest).Nodup)
    (h2k : ∃ c2, s2.lookup k = some c2 ∧ c2.val = v ∧ c2.dyn = true)
    (h2o : ∀ k', k' ≠ k → s2.lookup k' = s.lookup k') :
    PInv env' fuel g0 rest s2 (g.insertAsset (.asset k) (reloadDeps env' fuel s k)) := by
  have hL := SameLoaders.refl hS'
  have hag : ∀ x, Dep.asset k ∉ reloadDeps env' fuel s x →
      ∀ d ∈ reloadDeps env' fuel s x, AgreeOn env' env' s s2 d := by
    intro x hx d hd
    refine agreeOn_same_env (fun y e => h2o y ?_)
    intro eyk
    rw [e, eyk] at hd
    exact hx hd
  constructor
  · intro x hx node' c' hg' ht' hc' hd'
    by_cases hxk : x = k
    · subst hxk
      obtain ⟨n', hn', _, hnd'⟩ := insertAsset_get_self g (.asset x) (reloadDeps env' fuel s x)
      rw [hn'] at hg'
      have en : n' = node' := by simpa using hg'
      subst en
      obtain ⟨c2, hc2, hv, _⟩ := h2k
      rw [hc2] at hc'
      have ec : c2 = c' := by simpa using hc'
      subst ec
      obtain ⟨r1, r2, r3⟩ := reloadEval_readset hS' hS' hL fuel s s2 x hh (hag x (hF x List.mem_cons_self))
      refine ⟨⟨r1, Or.inl ⟨?_, ?_⟩⟩, ?_⟩
      · rw [r2, ho, hv]
      · intro d; rw [r3, hnd']
      · intro y hy; rw [r3]; exact hF y (List.mem_cons_of_mem _ hy)
    · have hx' : x ∉ k :: rest := by
        intro hm; rcases List.mem_cons.mp hm with e | e
        · exact hxk e
        · exact hx e
      have hne : Dep.asset x ≠ Dep.asset k := fun e => hxk (Dep.asset.inj e)
      rcases insertAsset_get_ne hne hg' with ⟨n, hn, hnt, hnd'⟩ | ⟨_, hf, _⟩
      · rw [h2o x hxk] at hc'
        obtain ⟨h1, h2⟩ := hinv.settled x hx' n c' hn (hnt.trans ht') hc' hd'
        obtain ⟨t1, t2⟩ := h1.transfer hS' hS' hL (hag x (h2 k List.mem_cons_self)) (c' := c') rfl hnd'.symm
        exact ⟨t1, fun y hy => by rw [t2]; exact h2 y (List.mem_cons_of_mem _ hy)⟩
      · rw [hf] at ht'; cases ht'
  · intro x hx node' hg' d hd
    have hxk : x ≠ k := fun e => (List.nodup_cons.mp hnd).1 (e ▸ hx)
    have hne : Dep.asset x ≠ Dep.asset k := fun e => hxk (Dep.asset.inj e)
    rcases insertAsset_get_ne hne hg' with ⟨n, hn, _, hnd'⟩ | ⟨_, _, he⟩
    · exact hinv.olddeps x (List.mem_cons_of_mem _ hx) n hn d (hnd' ▸ hd)
    · rw [he] at hd; cases hd

/-- the head key's reload fails: its entry keeps the previous value, its node gains what the failed
attempt read -/
theorem pinv_err {env' : Env} (hS' : env'.Steady) {fuel : Nat} {g0 : Graph} {k : Key} {rest : List Key}
    {s : St} {g : Graph} {node : GNode} {e : LErr} {s2 : St}
    (hinv : PInv env' fuel g0 (k :: rest) s g)
    (hg : g.get (.asset k) = some node)
    (hh : reloadHit env' fuel s k = true) (ho : reloadOut env' fuel s k = .err e)
    (hF : ∀ y, y ∈ k :: rest → Dep.asset y ∉ reloadDeps env' fuel s k)
    (hnd : (k :: rest).Nodup)
    (h2 : ∀ k', s2.lookup k' = s.lookup k') :
    PInv env' fuel g0 rest s2 (g.addDeps (.asset k) (reloadDeps env' fuel s k)) := by
  have hL := SameLoaders.refl hS'
  have hag : ∀ x, ∀ d ∈ reloadDeps env' fuel s x, AgreeOn env' env' s s2 d :=
    fun x d _ => agreeOn_same_env (fun y _ => h2 y)
  constructor
  · intro x hx node' c' hg' ht' hc' hd'
    by_cases hxk : x = k
    · subst hxk
      obtain ⟨n', hn', _, hnd'⟩ := addDeps_get_self (deps := reloadDeps env' fuel s x) hg
      rw [hn'] at hg'
      have en : n' = node' := by simpa using hg'
      subst en
      obtain ⟨r1, r2, r3⟩ := reloadEval_readset hS' hS' hL fuel s s2 x hh (hag x)
      refine ⟨⟨r1, Or.inr ⟨e, ?_, ?_⟩⟩, ?_⟩
      · rw [r2, ho]
      · intro d hd; rw [r3] at hd; exact (hnd' d).mpr (Or.inr hd)
      · intro y hy; rw [r3]; exact hF y (List.mem_cons_of_mem _ hy)
    · have hx' : x ∉ k :: rest := by
        intro hm; rcases List.mem_cons.mp hm with e | e
        · exact hxk e
        · exact hx e
      have hne : Dep.asset x ≠ Dep.asset k := fun e => hxk (Dep.asset.inj e)
      rcases addDeps_get_ne hne hg' with ⟨n, hn, hnt, hnd'⟩ | ⟨_, hf, _⟩
      · rw [h2 x] at hc'
        obtain ⟨h1, h3⟩ := hinv.settled x hx' n c' hn (hnt.trans ht') hc' hd'
        obtain ⟨t1, t2⟩ := h1.transfer hS' hS' hL (hag x) (c' := c') rfl hnd'.symm
        exact ⟨t1, fun y hy => by rw [t2]; exact h3 y (List.mem_cons_of_mem _ hy)⟩
      · rw [hf] at ht'; cases ht'
  · intro x hx node' hg' d hd
    have hxk : x ≠ k := fun e => (List.nodup_cons.mp hnd).1 (e ▸ hx)
    have hne : Dep.asset x ≠ Dep.asset k := fun e => hxk (Dep.asset.inj e)
    rcases addDeps_get_ne hne hg' with ⟨n, hn, _, hnd'⟩ | ⟨_, _, he⟩
    · exact hinv.olddeps x (List.mem_cons_of_mem _ hx) n hn d (hnd' ▸ hd)
    · rw [he] at hd; cases hd

/-! ## The reloads of a pass, and the hypotheses on them -/

/-- one step of a pass: the key, the keys that come later, and the cache / reloader state the step
starts from -/
structure PassStep where
  key : Key
  later : List Key
  s : St
  r : RSt

/-- the steps of `reloadAll env fuel keys x`, in order -/
def passSteps (env : Env) (fuel : Nat) : List Key → St × RSt → List PassStep
  | [], _ => []
  | k :: ks, x => ⟨k, ks, x.1, x.2⟩ :: passSteps env fuel ks (reloadAll env fuel [k] x)

/-- the step really re-evaluates its key: the key is registered (typed node `node`), cached, and its
entry `c` is dynamic -/
def PassStep.Performs (st : PassStep) (node : GNode) (c : Cell) : Prop :=
  st.r.graph.get (.asset st.key) = some node ∧ node.typed = true ∧ st.s.lookup st.key = some c ∧ c.dyn = true

/-- **excludes F-C05d**: every re-evaluation of the pass is a tracked hit-only run — in particular
it loads no asset that is not cached yet (no miss during the pass) -/
def NoMissInPass (env : Env) (fuel : Nat) (steps : List PassStep) : Prop :=
  ∀ st, st ∈ steps → ∀ node c, st.Performs node c → reloadHit env fuel st.s st.key = true

/-- every re-evaluation of the pass returns a value or an error (no panic, no fuel exhaustion) -/
def ReloadsReturn (env : Env) (fuel : Nat) (steps : List PassStep) : Prop :=
  ∀ st, st ∈ steps → ∀ node c, st.Performs node c →
    (∃ v, reloadOut env fuel st.s st.key = .ok v) ∨ (∃ e, reloadOut env fuel st.s st.key = .err e)

/-- **excludes F-C05e**: no re-evaluation of the pass acquires a NEW dependency (one that is not in
its node before the step) on the asset being reloaded itself or on one reloaded LATER in the pass -/
def NoRewireOntoPending (env : Env) (fuel : Nat) (steps : List PassStep) : Prop :=
  ∀ st, st ∈ steps → ∀ node c, st.Performs node c →
    ∀ y, Dep.asset y ∈ reloadDeps env fuel st.s st.key → Dep.asset y ∉ node.deps → y ≠ st.key ∧ y ∉ st.later

/-- **Processing one key** keeps the invariant. -/
theorem pinv_step {env' : Env} (hS' : env'.Steady) {fuel : Nat} {g0 : Graph} {k : Key} {rest : List Key}
    {s : St} {r : RSt}
    (hinv : PInv env' fuel g0 (k :: rest) s r.graph) (hdead : r.dead = false)
    (hnd : (k :: rest).Nodup) (hord : DepsFirst g0 (k :: rest))
    (hmiss : ∀ node c, PassStep.Performs ⟨k, rest, s, r⟩ node c → reloadHit env' fuel s k = true)
    (hends : ∀ node c, PassStep.Performs ⟨k, rest, s, r⟩ node c →
      (∃ v, reloadOut env' fuel s k = .ok v) ∨ (∃ e, reloadOut env' fuel s k = .err e))
    (hrew : ∀ node c, PassStep.Performs ⟨k, rest, s, r⟩ node c →
      ∀ y, Dep.asset y ∈ reloadDeps env' fuel s k → Dep.asset y ∉ node.deps → y ≠ k ∧ y ∉ rest) :
    PInv env' fuel g0 rest (reloadAll env' fuel [k] (s, r)).1 (reloadAll env' fuel [k] (s, r)).2.graph ∧
    (reloadAll env' fuel [k] (s, r)).2.dead = false ∧ (reloadAll env' fuel [k] (s, r)).1.out = s.out := by
  by_cases hp : ∃ node c, r.graph.get (.asset k) = some node ∧ node.typed = true ∧ s.lookup k = some c ∧ c.dyn = true
  · obtain ⟨node, c, hg, ht, hc, hdyn⟩ := hp
    have hper : PassStep.Performs ⟨k, rest, s, r⟩ node c := ⟨hg, ht, hc, hdyn⟩
    have hh := hmiss node c hper
    have hF : ∀ y, y ∈ k :: rest → Dep.asset y ∉ reloadDeps env' fuel s k := by
      intro y hy hmem
      by_cases hold : Dep.asset y ∈ node.deps
      · obtain ⟨n0, hn0, hd0⟩ := hinv.olddeps k List.mem_cons_self node hg _ hold
        exact hord.head_deps hnd hn0 hd0 hy
      · obtain ⟨h1, h2⟩ := hrew node c hper y hmem hold
        rcases List.mem_cons.mp hy with e | e
        · exact h1 e
        · exact h2 e
    rcases hends node c hper with ⟨v, ho⟩ | ⟨e, ho⟩
    · obtain ⟨e1, e2, e3, e4⟩ := reloadAll_one_ok hdead hg ht hc hdyn hh ho
      rw [e1]
      exact ⟨pinv_ok hS' hinv hh ho hF hnd e2 e3, hdead, e4⟩
    · obtain ⟨e1, e2, e3⟩ := reloadAll_one_err hdead hg ht hc hdyn hh ho
      rw [e1]
      exact ⟨pinv_err hS' hinv hg hh ho hF hnd e2, hdead, e3⟩
  · have hsame : reloadAll env' fuel [k] (s, r) = (s, r) := by
      by_cases hreg : ∃ node, r.graph.get (.asset k) = some node ∧ node.typed = true
      · obtain ⟨node, hg, ht⟩ := hreg
        refine reloadAll_one_skipped (fun c hc => ?_)
        cases hdc : c.dyn with
        | false => rfl
        | true => exact (hp ⟨node, c, hg, ht, hc, hdc⟩).elim
      · refine reloadAll_one_unregistered (fun node hg => ?_)
        cases htt : node.typed with
        | false => rfl
        | true => exact (hreg ⟨node, hg, htt⟩).elim
    rw [hsame]
    exact ⟨pinv_skip hinv (fun node c h1 h2 h3 h4 => hp ⟨node, c, h1, h2, h3, h4⟩), hdead, rfl⟩

/-- **The pass**: from the invariant for the whole list to `Settled` at the end. -/
theorem reloadAll_converges {env' : Env} (hS' : env'.Steady) {fuel : Nat} {g0 : Graph} :
    ∀ (post : List Key) (s : St) (r : RSt),
    PInv env' fuel g0 post s r.graph → r.dead = false → post.Nodup → DepsFirst g0 post →
    NoMissInPass env' fuel (passSteps env' fuel post (s, r)) →
    ReloadsReturn env' fuel (passSteps env' fuel post (s, r)) →
    NoRewireOntoPending env' fuel (passSteps env' fuel post (s, r)) →
    Settled env' fuel (reloadAll env' fuel post (s, r)).1 (reloadAll env' fuel post (s, r)).2.graph ∧
    (reloadAll env' fuel post (s, r)).2.dead = false ∧ (reloadAll env' fuel post (s, r)).1.out = s.out := by
  intro post
  induction post with
  | nil => intro s r hinv hdead _ _ _ _ _; exact ⟨hinv.settled_nil, hdead, rfl⟩
  | cons k rest ih =>
    intro s r hinv hdead hnd hord h1 h2 h3
    have hhead : (⟨k, rest, s, r⟩ : PassStep) ∈ passSteps env' fuel (k :: rest) (s, r) := List.mem_cons_self
    have htail : ∀ st, st ∈ passSteps env' fuel rest (reloadAll env' fuel [k] (s, r)) →
        st ∈ passSteps env' fuel (k :: rest) (s, r) := fun st h => List.mem_cons_of_mem _ h
    obtain ⟨i1, i2, i3⟩ := pinv_step hS' hinv hdead hnd hord (h1 _ hhead) (h2 _ hhead) (h3 _ hhead)
    rw [reloadAll_cons_eq]
    obtain ⟨j1, j2, j3⟩ := ih (reloadAll env' fuel [k] (s, r)).1 (reloadAll env' fuel [k] (s, r)).2 i1 i2
      (List.nodup_cons.mp hnd).2 hord.tail
      (fun st h => h1 st (htail st h)) (fun st h => h2 st (htail st h)) (fun st h => h3 st (htail st h))
    exact ⟨j1, j2, j3.trans i3⟩

/-! ## The invariant holds at the start of a pass -/

theorem depsFirst_of_topo {g : Graph} {fuel : Nat} {changed : List Dep} {keys : List Key} {rank : Dep → Nat}
    (hI : g.Inverse) (hr : ∀ a rs b, g.rdepsOf a = some rs → b ∈ rs → rank b < rank a)
    (h : topo g fuel changed = some keys) : DepsFirst g keys := by
  intro p1 y p2 e k n hn hy
  obtain ⟨m, hm, hk⟩ := hI (.asset k) (.asset y) ⟨n, hn, hy⟩
  exact topo_order hr h p1 y p2 e m.rdeps (rdepsOf_eq_some.mpr ⟨m, hm, rfl⟩) k hk (by rw [hn]; simp)

/-- an asset that is not in the reload list depends on nothing that is reachable from a notified
entry -/
theorem unaffected_deps {g : Graph} {fuel : Nat} {toReload : List Dep} {keys : List Key}
    (hI : g.Inverse) (h : topo g fuel toReload = some keys) {x : Key} (hx : x ∉ keys)
    {node : GNode} (hg : g.get (.asset x) = some node) {d : Dep} (hd : d ∈ node.deps) :
    g.get d ≠ none ∧ ∀ c ∈ toReload, ¬ Reach g.rdepsOf c d := by
  obtain ⟨m, hm, hk⟩ := hI (.asset x) d ⟨node, hg, hd⟩
  refine ⟨by rw [hm]; simp, ?_⟩
  intro c hc hr
  exact hx (topo_complete h c hc x (Reach.step hr (rdepsOf_eq_some.mpr ⟨m, hm, rfl⟩) hk) (by rw [hg]; simp))

/-- **Start of the pass.** If everything was settled under the old environment, the new environment
differs from it only on `changed` entries, and every changed entry the graph knows has been
notified, then every asset outside the reload list is settled under the new environment already and
reads no asset of the list. -/
theorem pinv_init {env env' : Env} (hS : env.Steady) (hS' : env'.Steady) (hL : SameLoaders env env')
    {fuel : Nat} {s : St} {g : Graph} {changed toReload : List Dep} {keys : List Key}
    (hset : Settled env fuel s g) (hI : g.Inverse)
    (htopo : topo g fuel toReload = some keys)
    (hfile : ∀ id ext, Dep.file id ext ∉ changed → env'.read 0 id ext = env.read 0 id ext)
    (hdir : ∀ id, Dep.dir id ∉ changed → env'.readDir 0 id = env.readDir 0 id)
    (hnot : ∀ d, d ∈ changed → g.get d ≠ none → d ∈ toReload) :
    PInv env' fuel g keys s g := by
  constructor
  · intro x hx node c hg ht hc hd
    have h0 := hset x node c hg ht hc hd
    have hunch : ∀ d, d ∈ node.deps → d ∉ changed := by
      intro d hdn hch
      obtain ⟨u1, u2⟩ := unaffected_deps hI htopo hx hg hdn
      exact u2 d (hnot d hch u1) (Reach.refl d)
    have hag : ∀ d ∈ reloadDeps env fuel s x, AgreeOn env env' s s d := by
      intro d hdd
      have hdn := h0.deps_sub d hdd
      cases d with
      | file id ext => exact hfile id ext (hunch _ hdn)
      | dir id => exact hdir id (hunch _ hdn)
      | asset y => rfl
    obtain ⟨t1, t2⟩ := h0.transfer hS hS' hL hag (c' := c) (node' := node) rfl rfl
    refine ⟨t1, ?_⟩
    intro y hy hmem
    rw [t2] at hmem
    obtain ⟨_, u2⟩ := unaffected_deps hI htopo hx hg (h0.deps_sub _ hmem)
    obtain ⟨_, c0, hc0, hr0⟩ := topo_only_reachable htopo y hy
    exact u2 c0 hc0 hr0
  · intro x _ node hg d hd
    exact ⟨node, hg, hd⟩

/-! ## Executable checks (for concrete instances) -/

/-- `SettledAt`, as a check -/
def settledAtB (env : Env) (fuel : Nat) (s : St) (node : GNode) (k : Key) (c : Cell) : Bool :=
  reloadHit env fuel s k &&
  (match reloadOut env fuel s k with
   | .ok v => decide (v = c.val) && (reloadDeps env fuel s k).all (fun d => decide (d ∈ node.deps)) &&
       node.deps.all (fun d => decide (d ∈ reloadDeps env fuel s k))
   | .err _ => (reloadDeps env fuel s k).all (fun d => decide (d ∈ node.deps))
   | _ => false)

theorem settledAt_of_check {env : Env} {fuel : Nat} {s : St} {node : GNode} {k : Key} {c : Cell}
    (h : settledAtB env fuel s node k c = true) : SettledAt env fuel s node k c := by
  unfold settledAtB at h
  simp only [Bool.and_eq_true] at h
  obtain ⟨h1, h2⟩ := h
  refine ⟨h1, ?_⟩
  cases ho : reloadOut env fuel s k with
  | ok v =>
    rw [ho] at h2
    simp only [Bool.and_eq_true, decide_eq_true_eq, List.all_eq_true] at h2
    obtain ⟨⟨hv, ha⟩, hb⟩ := h2
    exact Or.inl ⟨by rw [hv], fun d => ⟨ha d, hb d⟩⟩
  | err e =>
    rw [ho] at h2
    simp only [decide_eq_true_eq, List.all_eq_true] at h2
    exact Or.inr ⟨e, rfl, h2⟩
  | panicked => rw [ho] at h2; cases h2
  | diverged => rw [ho] at h2; cases h2

/-- `Settled`, as a check over the entries of the graph -/
def settledB (env : Env) (fuel : Nat) (s : St) (g : Graph) : Bool :=
  g.all fun x =>
    match x.1 with
    | .asset k =>
      (match s.lookup k with
       | some c => !(x.2.typed && c.dyn) || settledAtB env fuel s x.2 k c
       | none => true)
    | _ => true

theorem settled_of_check {env : Env} {fuel : Nat} {s : St} {g : Graph}
    (h : settledB env fuel s g = true) : Settled env fuel s g := by
  intro k node c hg ht hc hd
  unfold settledB at h
  rw [List.all_eq_true] at h
  have h1 := h (.asset k, node) (get_some_mem hg)
  simp only [hc, ht, hd, Bool.and_self, Bool.not_true, Bool.false_or] at h1
  exact settledAt_of_check h1

/-- `NoMissInPass`, as a check (on every step, performed or not) -/
def stepsHitB (env : Env) (fuel : Nat) (steps : List PassStep) : Bool :=
  steps.all fun st => reloadHit env fuel st.s st.key

/-- `ReloadsReturn`, as a check (on every step, performed or not) -/
def stepsReturnB (env : Env) (fuel : Nat) (steps : List PassStep) : Bool :=
  steps.all fun st =>
    match reloadOut env fuel st.s st.key with
    | .ok _ => true
    | .err _ => true
    | _ => false

theorem noMiss_of_check {env : Env} {fuel : Nat} {steps : List PassStep}
    (h : stepsHitB env fuel steps = true) : NoMissInPass env fuel steps := by
  intro st hst _ _ _
  unfold stepsHitB at h
  rw [List.all_eq_true] at h
  exact h st hst

theorem reloadsReturn_of_check {env : Env} {fuel : Nat} {steps : List PassStep}
    (h : stepsReturnB env fuel steps = true) : ReloadsReturn env fuel steps := by
  intro st hst _ _ _
  unfold stepsReturnB at h
  rw [List.all_eq_true] at h
  have h1 := h st hst
  cases ho : reloadOut env fuel st.s st.key with
  | ok v => exact Or.inl ⟨v, rfl⟩
  | err e => exact Or.inr ⟨e, rfl⟩
  | panicked => rw [ho] at h1; cases h1
  | diverged => rw [ho] at h1; cases h1

/-- `NoRewireOntoPending`, as a check -/
def noRewireB (env : Env) (fuel : Nat) (steps : List PassStep) : Bool :=
  steps.all fun st =>
    match st.r.graph.get (.asset st.key) with
    | some node =>
      (reloadDeps env fuel st.s st.key).all fun d =>
        match d with
        | .asset y => decide (d ∈ node.deps) || (decide (y ≠ st.key) && decide (y ∉ st.later))
        | _ => true
    | none => true

theorem noRewire_of_check {env : Env} {fuel : Nat} {steps : List PassStep}
    (h : noRewireB env fuel steps = true) : NoRewireOntoPending env fuel steps := by
  intro st hst node c hp y hy hno
  unfold noRewireB at h
  rw [List.all_eq_true] at h
  have h1 := h st hst
  rw [hp.1] at h1
  simp only [List.all_eq_true] at h1
  have h2 := h1 _ hy
  simp only [Bool.or_eq_true, Bool.and_eq_true, decide_eq_true_eq] at h2
  rcases h2 with h2 | h2
  · exact (hno h2).elim
  · exact h2


/-- `NoMissInPass` implies its exact check (used to refute it on a concrete pass) -/
def noMissB (env : Env) (fuel : Nat) (steps : List PassStep) : Bool :=
  steps.all fun st =>
    match st.r.graph.get (.asset st.key), st.s.lookup st.key with
    | some node, some c => !(node.typed && c.dyn) || reloadHit env fuel st.s st.key
    | _, _ => true

theorem noMiss_check_of {env : Env} {fuel : Nat} {steps : List PassStep}
    (h : NoMissInPass env fuel steps) : noMissB env fuel steps = true := by
  unfold noMissB
  rw [List.all_eq_true]
  intro st hst
  cases hg : st.r.graph.get (.asset st.key) with
  | none => rfl
  | some node =>
    cases hc : st.s.lookup st.key with
    | none => rfl
    | some c =>
      simp only []
      cases ht : node.typed with
      | false => rfl
      | true =>
        cases hd : c.dyn with
        | false => rfl
        | true => simp only [Bool.and_self, Bool.not_true, Bool.false_or]; exact h st hst node c ⟨hg, ht, hc, hd⟩

/-! ## `run_update` -/

/-- the steps of the pass `runUpdate env fuel s r` performs -/
def updateSteps (env : Env) (fuel : Nat) (s : St) (r : RSt) : List PassStep :=
  match topo r.graph fuel r.toReload with
  | some keys => passSteps env fuel keys (s, { r with toReload := [] })
  | none => []

theorem processMsgs_nil (s : St) (r : RSt) (h : s.out = []) : processMsgs s r = (s, r) := by
  unfold processMsgs
  rw [h]
  cases s
  simp only [List.foldl_nil] at h ⊢
  subst h
  rfl

end AmVerif.Model
