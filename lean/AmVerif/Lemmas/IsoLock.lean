import AmVerif.Model.Iso
/-!
# C07 helper lemmas, part 1: the lock / words invariant of `Model/Iso.lean`

`LockInv` is preserved by every step of every thread when the extracted configuration is
well-formed (`Cfg.WF`); the property theorems in `Props/C07.lean` are read off it.
-/
namespace AmVerif.Lemmas.IsoLock
open AmVerif.Model.Iso

structure LockInv (cfg : Cfg) (s : St) : Prop where
  wf : wfW s.wheld s.wrest = true
  /-- every guard really holds the read lock, belongs to one of the `n` readers, and excludes the writer -/
  rdr : ∀ r l ow oid, s.rd r = .hold l ow oid → l = true ∧ r < s.n ∧ s.wheld ≠ some .write
  ci_le : s.ci ≤ cfg.k
  ci_pos : 0 < s.ci → ∃ rest, s.wrest = .copy :: rest
  /-- the first `ci` words carry the version being installed, the others the version `base` -/
  shape : ∃ base cp ic, (∀ i, i < cfg.k → s.words i = if i < s.ci then s.ver else base) ∧ s.rid ≤ base ∧ base ≤ s.ver ∧
      ordOk cp ic s.wrest = true ∧ (ic = false → s.rid < s.ver) ∧ (cp = true → base = s.ver)
  /-- everything observed under a live guard is still what the entry holds -/
  view : ∀ r l ow oid, s.rd r = .hold l ow oid → (∀ p ∈ ow, p.1 < cfg.k ∧ s.words p.1 = p.2) ∧ (∀ x ∈ oid, x = s.rid)

theorem wf_parts {cfg : Cfg} (h : cfg.WF = true) :
    wfW none cfg.wprog = true ∧ ordOk false false cfg.wprog = true ∧ cfg.readLocks = true ∧ cfg.mapKeeps = true ∧
    armOk cfg.arm = true ∧ cfg.callerWaits = true := by
  simp only [Cfg.WF, Bool.and_eq_true] at h
  obtain ⟨⟨⟨⟨⟨a, b⟩, c⟩, d⟩, e⟩, f⟩ := h
  exact ⟨a, b, c, d, e, f⟩

theorem init_inv (cfg : Cfg) (n : Nat) : LockInv cfg (init n) where
  wf := rfl
  rdr := by intro r l ow oid h; simp [init] at h
  ci_le := Nat.zero_le _
  ci_pos := by intro h; simp [init] at h
  shape := ⟨0, false, true, (by intro i _; simp [init]), Nat.le_refl _, Nat.le_refl _, rfl, (by intro h; cases h), (by intro h; cases h)⟩
  view := by intro r l ow oid h; simp [init] at h

theorem upd_same {α} (f : Nat → α) (i : Nat) (v : α) : upd f i v i = v := by simp [upd]
theorem upd_other {α} (f : Nat → α) (i j : Nat) (v : α) (h : j ≠ i) : upd f i v j = f j := by simp [upd, h]

/-- No reader holds a guard while the writer holds `write`. -/
theorem no_holder {cfg : Cfg} {s : St} (h : LockInv cfg s) (hw : s.wheld = some .write) (r : Nat) : s.rd r = .idle := by
  cases e : s.rd r with
  | idle => rfl
  | hold l ow oid => exact absurd hw (h.rdr r l ow oid e).2.2

theorem not_locked_of {s : St} (h : s.readersLocked = false) (r : Nat) (hr : r < s.n) : (s.rd r).locked = false := by
  unfold St.readersLocked at h
  rw [List.any_eq_false] at h
  have := h r (List.mem_range.mpr hr)
  simpa using this

/-! ### Reader steps -/

theorem reader_step {cfg : Cfg} (hc : cfg.WF = true) {s : St} (h : LockInv cfg s) (r : Nat) (a : Act) :
    LockInv cfg (stepReader cfg s r a) := by
  obtain ⟨_, _, hrl, hmk, _, _⟩ := wf_parts hc
  cases a with
  | rl m => exact h
  | tok c => exact h
  | send c => exact h
  | ret c => exact h
  | acq r' =>
    simp only [stepReader]
    split
    · split
      · rename_i hidle hen
        refine ⟨h.wf, ?_, h.ci_le, h.ci_pos, h.shape, ?_⟩
        · intro r2 l ow oid e
          by_cases e2 : r2 = r
          · subst e2; simp only [upd_same] at e
            cases e
            exact ⟨hrl, hen.1, hen.2 hrl⟩
          · simp only [upd_other _ _ _ _ e2] at e; exact h.rdr r2 l ow oid e
        · intro r2 l ow oid e
          by_cases e2 : r2 = r
          · subst e2; simp only [upd_same] at e
            cases e
            exact ⟨(by intro p hp; cases hp), (by intro x hx; cases hx)⟩
          · simp only [upd_other _ _ _ _ e2] at e; exact h.view r2 l ow oid e
      · exact h
    · exact h
  | readW r' i =>
    simp only [stepReader]
    split
    · rename_i l ow oid hh
      split
      · rename_i hi
        refine ⟨h.wf, ?_, h.ci_le, h.ci_pos, h.shape, ?_⟩
        · intro r2 l2 ow2 oid2 e
          by_cases e2 : r2 = r
          · subst e2; simp only [upd_same] at e
            cases e
            exact h.rdr r2 l ow oid hh
          · simp only [upd_other _ _ _ _ e2] at e; exact h.rdr r2 l2 ow2 oid2 e
        · intro r2 l2 ow2 oid2 e
          by_cases e2 : r2 = r
          · subst e2; simp only [upd_same] at e
            cases e
            have hv := h.view r2 l ow oid hh
            refine ⟨?_, hv.2⟩
            intro p hp
            rcases List.mem_cons.mp hp with rfl | hp
            · exact ⟨hi, rfl⟩
            · exact hv.1 p hp
          · simp only [upd_other _ _ _ _ e2] at e; exact h.view r2 l2 ow2 oid2 e
      · exact h
    · exact h
  | readId r' =>
    simp only [stepReader]
    split
    · rename_i l ow oid hh
      refine ⟨h.wf, ?_, h.ci_le, h.ci_pos, h.shape, ?_⟩
      · intro r2 l2 ow2 oid2 e
        by_cases e2 : r2 = r
        · subst e2; simp only [upd_same] at e
          cases e
          exact h.rdr r2 l ow oid hh
        · simp only [upd_other _ _ _ _ e2] at e; exact h.rdr r2 l2 ow2 oid2 e
      · intro r2 l2 ow2 oid2 e
        by_cases e2 : r2 = r
        · subst e2; simp only [upd_same] at e
          cases e
          have hv := h.view r2 l ow oid hh
          refine ⟨hv.1, ?_⟩
          intro x hx
          rcases List.mem_cons.mp hx with rfl | hx
          · rfl
          · exact hv.2 x hx
        · simp only [upd_other _ _ _ _ e2] at e; exact h.view r2 l2 ow2 oid2 e
    · exact h
  | map r' =>
    simp only [stepReader]
    split
    · rename_i l ow oid hh
      refine ⟨h.wf, ?_, h.ci_le, h.ci_pos, h.shape, ?_⟩
      · intro r2 l2 ow2 oid2 e
        by_cases e2 : r2 = r
        · subst e2; simp only [upd_same] at e
          cases e
          have := h.rdr r2 l ow oid hh
          exact ⟨(by simp [this.1, hmk]), this.2⟩
        · simp only [upd_other _ _ _ _ e2] at e; exact h.rdr r2 l2 ow2 oid2 e
      · intro r2 l2 ow2 oid2 e
        by_cases e2 : r2 = r
        · subst e2; simp only [upd_same] at e
          cases e
          exact h.view r2 l ow oid hh
        · simp only [upd_other _ _ _ _ e2] at e; exact h.view r2 l2 ow2 oid2 e
    · exact h
  | rel r' =>
    simp only [stepReader]
    split
    · refine ⟨h.wf, ?_, h.ci_le, h.ci_pos, h.shape, ?_⟩
      · intro r2 l2 ow2 oid2 e
        by_cases e2 : r2 = r
        · subst e2; simp only [upd_same] at e; cases e
        · simp only [upd_other _ _ _ _ e2] at e; exact h.rdr r2 l2 ow2 oid2 e
      · intro r2 l2 ow2 oid2 e
        by_cases e2 : r2 = r
        · subst e2; simp only [upd_same] at e; cases e
        · simp only [upd_other _ _ _ _ e2] at e; exact h.view r2 l2 ow2 oid2 e
    · exact h

/-! ### Caller steps touch nothing the invariant mentions -/

theorem caller_step {cfg : Cfg} {s : St} (h : LockInv cfg s) (c : Nat) (a : Act) :
    LockInv cfg (stepCaller cfg s c a) := by
  cases a <;> simp only [stepCaller] <;> first | exact h | (repeat' split) <;> exact ⟨h.wf, h.rdr, h.ci_le, h.ci_pos, h.shape, h.view⟩

/-! ### The reloader thread -/

theorem not_ci_pos {cfg : Cfg} {s : St} (h : LockInv cfg s) {w : WStep} {rest : List WStep} (e : s.wrest = w :: rest)
    (hw : w ≠ .copy) : s.ci = 0 := by
  cases hci : s.ci with
  | zero => rfl
  | succ m =>
    obtain ⟨r', e'⟩ := h.ci_pos (by omega)
    rw [e] at e'
    exact absurd (List.cons.inj e').1 hw

theorem writer_step {cfg : Cfg} {s : St} (h : LockInv cfg s) (w : WStep) (rest : List WStep)
    (e : s.wrest = w :: rest) : LockInv cfg (stepW cfg s w rest) := by
  have hwf := h.wf
  rw [e] at hwf
  obtain ⟨base, cp, ic, hwords, hrb, hbv, hord, hic, hcp⟩ := h.shape
  rw [e] at hord
  cases w with
  | acq k =>
    have hci := not_ci_pos h e (by intro x; cases x)
    simp only [wfW, Bool.and_eq_true] at hwf
    have hord' : ordOk cp ic rest = true := by simpa [ordOk] using hord
    cases k with
    | read =>
      simp only [stepW]
      split
      · refine ⟨hwf.2, ?_, h.ci_le, ?_, ⟨base, cp, ic, hwords, hrb, hbv, hord', hic, hcp⟩, h.view⟩
        · intro r l ow oid er
          have t := h.rdr r l ow oid er
          exact ⟨t.1, t.2.1, by simp⟩
        · intro hp; rw [hci] at hp; exact absurd hp (Nat.lt_irrefl 0)
      · exact h
    | write =>
      simp only [stepW]
      split
      · rename_i hen
        refine ⟨hwf.2, ?_, h.ci_le, ?_, ⟨base, cp, ic, hwords, hrb, hbv, hord', hic, hcp⟩, h.view⟩
        · intro r l ow oid er
          have t := h.rdr r l ow oid er
          have nl := not_locked_of hen.2 r t.2.1
          rw [er, t.1] at nl
          cases nl
        · intro hp; rw [hci] at hp; exact absurd hp (Nat.lt_irrefl 0)
      · exact h
  | copy =>
    simp only [wfW, Bool.and_eq_true, beq_iff_eq] at hwf
    simp only [stepW]
    split
    · rename_i hlt
      refine ⟨h.wf, h.rdr, Nat.succ_le_of_lt hlt, fun _ => ⟨rest, e⟩, ⟨base, cp, ic, ?_, hrb, hbv, by rw [e]; exact hord, hic, hcp⟩, ?_⟩
      · intro i hi
        show upd s.words s.ci s.ver i = if i < s.ci + 1 then s.ver else base
        by_cases e2 : i = s.ci
        · subst e2; simp [upd]
        · rw [upd_other _ _ _ _ e2, hwords i hi]
          have : (i < s.ci + 1) ↔ (i < s.ci) := by omega
          simp [this]
      · intro r l ow oid er
        rw [no_holder h hwf.1 r] at er
        cases er
    · rename_i hge
      have hk : s.ci = cfg.k := Nat.le_antisymm h.ci_le (Nat.le_of_not_lt hge)
      refine ⟨hwf.2, h.rdr, Nat.zero_le _, fun h0 => absurd h0 (Nat.lt_irrefl 0),
        ⟨s.ver, true, ic, ?_, Nat.le_trans hrb hbv, Nat.le_refl _, by simpa [ordOk] using hord, hic, fun _ => rfl⟩, h.view⟩
      intro i hi
      show s.words i = if i < 0 then s.ver else s.ver
      rw [hwords i hi]
      simp [hk, hi]
  | inc =>
    have hci := not_ci_pos h e (by intro x; cases x)
    simp only [wfW, Bool.and_eq_true, beq_iff_eq] at hwf
    simp only [ordOk, Bool.and_eq_true, Bool.not_eq_true'] at hord
    obtain ⟨⟨hcp1, hic0⟩, hord'⟩ := hord
    simp only [stepW]
    refine ⟨hwf.2, h.rdr, h.ci_le, ?_, ⟨base, cp, true, hwords, ?_, hbv, hord', (by intro x; cases x), hcp⟩, ?_⟩
    · intro hp; rw [hci] at hp; exact absurd hp (Nat.lt_irrefl 0)
    · have := hic hic0
      have := hcp hcp1
      show s.rid + 1 ≤ base
      omega
    · intro r l ow oid er
      rw [no_holder h hwf.1 r] at er
      cases er
  | setFlag =>
    have hci := not_ci_pos h e (by intro x; cases x)
    simp only [wfW] at hwf
    simp only [stepW]
    refine ⟨hwf, h.rdr, h.ci_le, ?_, ⟨base, cp, ic, hwords, hrb, hbv, by simpa [ordOk] using hord, hic, hcp⟩, h.view⟩
    intro hp; rw [hci] at hp; exact absurd hp (Nat.lt_irrefl 0)
  | rel =>
    have hci := not_ci_pos h e (by intro x; cases x)
    simp only [wfW, Bool.and_eq_true] at hwf
    simp only [stepW]
    refine ⟨hwf.2, ?_, h.ci_le, ?_, ⟨base, cp, ic, hwords, hrb, hbv, by simpa [ordOk] using hord, hic, hcp⟩, h.view⟩
    · intro r l ow oid er
      have t := h.rdr r l ow oid er
      exact ⟨t.1, t.2.1, by simp⟩
    · intro hp; rw [hci] at hp; exact absurd hp (Nat.lt_irrefl 0)

theorem rl_step {cfg : Cfg} (hc : cfg.WF = true) {s : St} (h : LockInv cfg s) (more : Bool) :
    LockInv cfg (stepRl cfg s more) := by
  obtain ⟨hw0, ho0, _, _, _, _⟩ := wf_parts hc
  unfold stepRl
  split
  · rename_i w rest e; exact writer_step h w rest e
  · rename_i e
    have hci : s.ci = 0 := by
      cases hci : s.ci with
      | zero => rfl
      | succ m => obtain ⟨r', e'⟩ := h.ci_pos (by omega); rw [e] at e'; cases e'
    have hnone : s.wheld = none := by
      have := h.wf; rw [e] at this
      cases hh : s.wheld with
      | none => rfl
      | some k => rw [hh] at this; cases this
    split
    · split
      · exact ⟨h.wf, h.rdr, h.ci_le, h.ci_pos, h.shape, h.view⟩
      · exact h
    · split
      · obtain ⟨base, cp, ic, hwords, hrb, hbv, hord, hic, hcp⟩ := h.shape
        refine ⟨by show wfW s.wheld cfg.wprog = true; rw [hnone]; exact hw0, h.rdr, h.ci_le, ?_,
          ⟨base, false, false, ?_, hrb, Nat.le_succ_of_le hbv, ho0, fun _ => Nat.lt_succ_of_le (Nat.le_trans hrb hbv), (by intro x; cases x)⟩, h.view⟩
        · intro hp; rw [hci] at hp; exact absurd hp (Nat.lt_irrefl 0)
        · intro i hi
          show s.words i = if i < s.ci then s.ver + 1 else base
          rw [hwords i hi, hci]; simp
      · refine ⟨by show wfW s.wheld s.wrest = true; exact h.wf, h.rdr, h.ci_le, h.ci_pos, h.shape, h.view⟩
    · exact ⟨h.wf, h.rdr, h.ci_le, h.ci_pos, h.shape, h.view⟩

theorem step_inv {cfg : Cfg} (hc : cfg.WF = true) {s : St} (h : LockInv cfg s) (a : Act) : LockInv cfg (step cfg s a) := by
  cases a with
  | rl m => exact rl_step hc h m
  | acq r => exact reader_step hc h r (Act.acq r)
  | readW r i => exact reader_step hc h r (Act.readW r i)
  | readId r => exact reader_step hc h r (Act.readId r)
  | map r => exact reader_step hc h r (Act.map r)
  | rel r => exact reader_step hc h r (Act.rel r)
  | tok c => exact caller_step h c (Act.tok c)
  | send c => exact caller_step h c (Act.send c)
  | ret c => exact caller_step h c (Act.ret c)

theorem run_inv {cfg : Cfg} (hc : cfg.WF = true) (s : St) (h : LockInv cfg s) (σ : List Act) : LockInv cfg (run cfg s σ) := by
  induction σ generalizing s with
  | nil => exact h
  | cons a as ih => exact ih _ (step_inv hc h a)

end AmVerif.Lemmas.IsoLock
