import AmVerif.Model.Reload
/-!
# The reload order: graph-algorithm theorems about `visitG` / `sortFrom` (generic node type)

For an arbitrary node type `α` and `rdeps : α → Option (List α)` (`none` = not in the graph):

* `visitG_induct`: the induction principle of the fuelled DFS (no fuel in the cases);
* `visitG_step` / `sortFrom_inv`: the invariant (`Inv`: `sub`, `ing`, `cl`, `ord`, `nodup`) and the
  `Step` relation between the states before / after a visit;
* `sortFrom_nodup`, `sortFrom_sound`, `sortFrom_complete`, `sortFrom_closed`: for EVERY graph;
* `sortFrom_order_scc` (every graph: a reverse dependency comes later unless it is on a cycle with
  the node), `sortFrom_order_acyclic` / `sortFrom_order` / `sortFrom_order_up` / `sortFrom_order_mem`
  (acyclic = ranked graphs: always later; prefix formulation), `sortFrom_order_idx` (index formulation);
* `sortFrom_terminates`, `visitG_fuel_mono`, `sortFrom_fuel_mono`.

Core Lean only.
-/
namespace AmVerif.Lemmas.Topo
open AmVerif.Model

variable {α : Type} [DecidableEq α]

/-- `Reach rdeps a b`: `b` is reachable from `a` along `rdeps` edges. Every node of the path except
possibly the last one is in the graph (an edge leaves `b` only if `rdeps b = some _`). -/
inductive Reach (rdeps : α → Option (List α)) : α → α → Prop
  | refl (a : α) : Reach rdeps a a
  | step {a b c : α} {rs : List α} : Reach rdeps a b → rdeps b = some rs → c ∈ rs → Reach rdeps a c

/-- the big-step relation of a left fold: `R` relates the states around each element -/
inductive Chain (R : VSt α → α → VSt α → Prop) : List α → VSt α → VSt α → Prop
  | nil (s : VSt α) : Chain R [] s s
  | cons {r : α} {rs : List α} {s s1 s2 : VSt α} : R s r s1 → Chain R rs s1 s2 → Chain R (r :: rs) s s2

omit [DecidableEq α] in
theorem foldlM_chain {R : VSt α → α → VSt α → Prop} {f : VSt α → α → Option (VSt α)}
    (hf : ∀ s r s', f s r = some s' → R s r s') :
    ∀ (rs : List α) (s0 s : VSt α), rs.foldlM f s0 = some s → Chain R rs s0 s := by
  intro rs
  induction rs with
  | nil => intro s0 s h; simp [List.foldlM] at h; subst h; exact Chain.nil _
  | cons r rs ih =>
    intro s0 s h
    simp only [List.foldlM_cons, Option.bind_eq_bind] at h
    cases hv : f s0 r with
    | none => simp [hv] at h
    | some s1 => simp [hv] at h; exact Chain.cons (hf _ _ _ hv) (ih s1 s h)

example : Chain (fun s r s' => s' = ⟨r :: s.vis, s.out⟩) [1, 2] ⟨[], []⟩ ⟨[2, 1], []⟩ :=
  foldlM_chain (f := fun s r => some ⟨r :: s.vis, s.out⟩) (fun _ _ _ h => by simpa using h.symm) _ _ _ rfl

section
variable (rdeps : α → Option (List α))

omit [DecidableEq α] in
theorem Reach.trans {rdeps : α → Option (List α)} {a b c : α} (h1 : Reach rdeps a b) (h2 : Reach rdeps b c) :
    Reach rdeps a c := by
  induction h2 with
  | refl => exact h1
  | step _ hr hm ih => exact Reach.step ih hr hm

omit [DecidableEq α] in
theorem Reach.head {rdeps : α → Option (List α)} {a b c : α} {rs : List α} (hr : rdeps a = some rs) (hm : b ∈ rs)
    (h : Reach rdeps b c) : Reach rdeps a c :=
  Reach.trans (Reach.step (Reach.refl a) hr hm) h

/-- a three-node graph with a cycle `1 ↔ 2`, an edge to the absent node `7`, and `0 → 1` -/
def exG : Nat → Option (List Nat)
  | 0 => some [1]
  | 1 => some [2, 7]
  | 2 => some [1]
  | _ => none

/-- an acyclic graph: `0 → 1, 2`; `1 → 2`; `2 → 9` (absent) -/
def exDag : Nat → Option (List Nat)
  | 0 => some [1, 2]
  | 1 => some [2]
  | 2 => some [9]
  | _ => none

omit [DecidableEq α] in
theorem Reach.edge {rdeps : α → Option (List α)} {a b : α} {rs : List α} (hr : rdeps a = some rs) (hm : b ∈ rs) :
    Reach rdeps a b := Reach.step (Reach.refl a) hr hm

theorem exG_01 : Reach exG 0 1 := Reach.edge (rs := [1]) rfl (by simp)
theorem exG_12 : Reach exG 1 2 := Reach.edge (rs := [2, 7]) rfl (by simp)
theorem exG_21 : Reach exG 2 1 := Reach.edge (rs := [1]) rfl (by simp)
example : Reach exG 0 2 := Reach.trans exG_01 exG_12
example : Reach exG 0 2 := Reach.head (rs := [1]) rfl (by simp) exG_12

/-- **Induction principle of the DFS**: a property of (state before, node, state after) holds of every
returning visit if it holds for a visited node, for a node that is not in the graph, and for a new
node given that it holds along the fold over its reverse dependencies. -/
theorem visitG_induct {motive : VSt α → α → VSt α → Prop}
    (seen : ∀ st k, k ∈ st.vis → motive st k st)
    (absent : ∀ st k, k ∉ st.vis → rdeps k = none → motive st k st)
    (node : ∀ st k rs s, k ∉ st.vis → rdeps k = some rs →
      Chain motive rs ⟨k :: st.vis, st.out⟩ s → motive st k ⟨s.vis, k :: s.out⟩) :
    ∀ f st k st', visitG rdeps f st k = some st' → motive st k st' := by
  intro f
  induction f with
  | zero => intro st k st' h; simp [visitG] at h
  | succ f ih =>
    intro st k st' h
    unfold visitG at h
    by_cases hk : k ∈ st.vis
    · simp [hk] at h; subst h; exact seen st k hk
    · simp only [hk, if_false] at h
      cases hg : rdeps k with
      | none => simp [hg] at h; subst h; exact absent st k hk hg
      | some rs =>
        simp only [hg] at h
        cases hf : rs.foldlM (fun s r => visitG rdeps f s r) ⟨k :: st.vis, st.out⟩ with
        | none => simp [hf] at h
        | some s =>
          simp [hf] at h; subst h
          exact node st k rs s hk hg (foldlM_chain (fun s r s' => ih s r s') rs _ s hf)

/-- ... and of the whole sort. -/
theorem sortFrom_chain {motive : VSt α → α → VSt α → Prop}
    (hv : ∀ f st k st', visitG rdeps f st k = some st' → motive st k st')
    {fuel : Nat} {changed : List α} {st : VSt α} (h : sortFrom rdeps fuel changed = some st) :
    Chain motive changed ⟨[], []⟩ st :=
  foldlM_chain (fun s r s' => hv fuel s r s') changed _ st h

-- non-vacuous: a visit of the cyclic example returns
example : (visitG exG 4 ⟨[], []⟩ 0).map (·.out) = some [0, 1, 2] := by decide

/-! ## The invariant -/

/-- Order property that holds on EVERY graph: a reverse dependency `b` (that is in the graph) of `a`
comes after `a`, unless `a` is reachable from `b` (then `a` and `b` lie on a cycle). -/
def Ord (out : List α) : Prop :=
  ∀ pre a post, out = pre ++ a :: post → ∀ rs, rdeps a = some rs → ∀ b ∈ rs, rdeps b ≠ none →
    b ∈ post ∨ Reach rdeps b a

structure Inv (st : VSt α) : Prop where
  /-- finished nodes are visited -/
  sub : ∀ x ∈ st.out, x ∈ st.vis
  /-- only nodes of the graph are marked visited -/
  ing : ∀ x ∈ st.vis, rdeps x ≠ none
  /-- the reverse dependencies (in the graph) of a finished node are visited -/
  cl : ∀ a ∈ st.out, ∀ rs, rdeps a = some rs → ∀ b ∈ rs, rdeps b ≠ none → b ∈ st.vis
  ord : Ord rdeps st.out
  nodup : st.out.Nodup

/-- relation between the state before and after a (sequence of) visit(s); "gray" = visited and not
finished (the nodes on the recursion stack) -/
structure Step (st st' : VSt α) : Prop where
  inv   : Inv rdeps st'
  mono  : ∀ x ∈ st.vis, x ∈ st'.vis
  omono : ∀ x ∈ st.out, x ∈ st'.out
  fresh : ∀ x ∈ st'.out, x ∈ st.out ∨ x ∉ st.vis
  gray  : ∀ g ∈ st'.vis, g ∉ st'.out → g ∈ st.vis ∧ g ∉ st.out

omit [DecidableEq α] in
theorem Inv.empty : Inv rdeps (⟨[], []⟩ : VSt α) :=
  ⟨by simp, by simp, by simp, by intro pre a post h; simp at h, by simp⟩

variable {rdeps}

omit [DecidableEq α] in
theorem Step.refl {st : VSt α} (h : Inv rdeps st) : Step rdeps st st :=
  ⟨h, fun _ h => h, fun _ h => h, fun _ h => Or.inl h, fun _ h1 h2 => ⟨h1, h2⟩⟩

omit [DecidableEq α] in
theorem Step.trans {a b c : VSt α} (h1 : Step rdeps a b) (h2 : Step rdeps b c) : Step rdeps a c where
  inv := h2.inv
  mono x hx := h2.mono x (h1.mono x hx)
  omono x hx := h2.omono x (h1.omono x hx)
  fresh x hx := by
    rcases h2.fresh x hx with h | h
    · exact h1.fresh x h
    · exact Or.inr (fun hv => h (h1.mono x hv))
  gray g hv ho := by
    have ⟨hv', ho'⟩ := h2.gray g hv ho
    exact h1.gray g hv' ho'

omit [DecidableEq α] in
theorem ord_cons {k : α} {out : List α} (ho : Ord rdeps out)
    (hk : ∀ rs, rdeps k = some rs → ∀ b ∈ rs, rdeps b ≠ none → b ∈ out ∨ Reach rdeps b k) :
    Ord rdeps (k :: out) := by
  intro pre a post h rs hrs b hb hbg
  cases pre with
  | nil => simp at h; obtain ⟨rfl, rfl⟩ := h; exact hk rs hrs b hb hbg
  | cons p pre' =>
    simp at h
    exact ho pre' a post h.2 rs hrs b hb hbg

/-- what one returning visit guarantees (the motive of the induction) -/
def VisitOk (rdeps : α → Option (List α)) (st : VSt α) (k : α) (st' : VSt α) : Prop :=
  Inv rdeps st → (∀ g ∈ st.vis, g ∉ st.out → Reach rdeps g k) →
    Step rdeps st st' ∧ (rdeps k ≠ none → k ∈ st'.vis)

omit [DecidableEq α] in
theorem chain_step {rs : List α} {s0 s : VSt α} (h : Chain (VisitOk rdeps) rs s0 s) :
    Inv rdeps s0 → (∀ r ∈ rs, ∀ g ∈ s0.vis, g ∉ s0.out → Reach rdeps g r) →
    Step rdeps s0 s ∧ ∀ r ∈ rs, rdeps r ≠ none → r ∈ s.vis := by
  induction h with
  | nil s => intro hi _; exact ⟨Step.refl hi, by simp⟩
  | cons hR _ ih =>
    intro hi hg
    have ⟨st1, hr1⟩ := hR hi (hg _ (by simp))
    have ⟨st2, hr2⟩ := ih st1.inv (by
      intro r' hr' g hgv hgo
      have ⟨a, b⟩ := st1.gray g hgv hgo
      exact hg r' (by simp [hr']) g a b)
    refine ⟨st1.trans st2, ?_⟩
    intro x hx hxg
    simp at hx
    rcases hx with rfl | hx
    · exact st2.mono _ (hr1 hxg)
    · exact hr2 x hx hxg

theorem visitOk_all (rdeps : α → Option (List α)) :
    ∀ f st k st', visitG rdeps f st k = some st' → VisitOk rdeps st k st' := by
  apply visitG_induct
  · intro st k hk hinv _; exact ⟨Step.refl hinv, fun _ => hk⟩
  · intro st k _ hg hinv _; exact ⟨Step.refl hinv, fun h => absurd hg h⟩
  · intro st k rs s hk hg hch hinv hgray
    have hinv0 : Inv rdeps ⟨k :: st.vis, st.out⟩ :=
      ⟨fun x hx => List.mem_cons_of_mem _ (hinv.sub x hx),
       by
        intro x hx; simp at hx
        rcases hx with rfl | hx
        · simp [hg]
        · exact hinv.ing x hx,
       fun a ha rs hrs b hb hbg => List.mem_cons_of_mem _ (hinv.cl a ha rs hrs b hb hbg),
       hinv.ord, hinv.nodup⟩
    have ⟨hs, hvis⟩ := chain_step hch hinv0 (by
      intro r hrk g hgv hgo
      simp at hgv
      rcases hgv with rfl | hgv
      · exact Reach.step (Reach.refl _) hg hrk
      · exact Reach.step (hgray g hgv hgo) hg hrk)
    have hkout : k ∉ s.out := by
      intro hks
      rcases hs.fresh k hks with h1 | h1
      · exact hk (hinv.sub k h1)
      · exact h1 (by simp)
    refine ⟨⟨⟨?_, hs.inv.ing, ?_, ?_, ?_⟩, ?_, ?_, ?_, ?_⟩, fun _ => hs.mono k (by simp)⟩
    · intro x hx; simp at hx
      rcases hx with rfl | hx
      · exact hs.mono _ (by simp)
      · exact hs.inv.sub x hx
    · intro a ha rs' hrs' b hb hbg
      simp at ha
      rcases ha with rfl | ha
      · rw [hg] at hrs'; cases hrs'; exact hvis b hb hbg
      · exact hs.inv.cl a ha rs' hrs' b hb hbg
    · refine ord_cons hs.inv.ord ?_
      intro rs' hrs' b hb hbg
      rw [hg] at hrs'; cases hrs'
      have hbv := hvis b hb hbg
      by_cases hbo : b ∈ s.out
      · exact Or.inl hbo
      · have ⟨a1, a2⟩ := hs.gray b hbv hbo
        simp at a1
        rcases a1 with rfl | a1
        · exact Or.inr (Reach.refl _)
        · exact Or.inr (hgray b a1 a2)
    · exact List.nodup_cons.mpr ⟨hkout, hs.inv.nodup⟩
    · intro x hx; exact hs.mono x (List.mem_cons_of_mem _ hx)
    · intro x hx; exact List.mem_cons_of_mem _ (hs.omono x hx)
    · intro x hx; simp at hx
      rcases hx with rfl | hx
      · exact Or.inr hk
      · rcases hs.fresh x hx with h1 | h1
        · exact Or.inl h1
        · exact Or.inr (fun hv => h1 (List.mem_cons_of_mem _ hv))
    · intro g hgv hgo
      simp at hgo
      have ⟨a, b⟩ := hs.gray g hgv hgo.2
      simp at a
      rcases a with rfl | a
      · exact absurd rfl hgo.1
      · exact ⟨a, b⟩

/-- **visitG_step.** A returning visit of `k` from a state satisfying the invariant, in which every
gray node (on the recursion stack) reaches `k`, yields a state satisfying the invariant, related to
the old one by `Step`; `k` is visited if it is in the graph (unchanged state if it is not). -/
theorem visitG_step {f : Nat} {st st' : VSt α} {k : α} (h : visitG rdeps f st k = some st')
    (hinv : Inv rdeps st) (hgray : ∀ g ∈ st.vis, g ∉ st.out → Reach rdeps g k) :
    Step rdeps st st' ∧ (rdeps k ≠ none → k ∈ st'.vis) :=
  visitOk_all rdeps f st k st' h hinv hgray

/-- the `rdeps k = none` branch: state unchanged -/
theorem visitG_absent {f : Nat} {st st' : VSt α} {k : α} (h : visitG rdeps f st k = some st')
    (hk : rdeps k = none) : st' = st := by
  cases f with
  | zero => simp [visitG] at h
  | succ f =>
    unfold visitG at h
    by_cases hv : k ∈ st.vis
    · simp [hv] at h; exact h.symm
    · simp [hv, hk] at h; exact h.symm

example : ∃ st', visitG exG 4 ⟨[], []⟩ 0 = some st' ∧ Inv exG (⟨[], []⟩ : VSt Nat) ∧
    (∀ g ∈ (⟨[], []⟩ : VSt Nat).vis, g ∉ (⟨[], []⟩ : VSt Nat).out → Reach exG g 0) :=
  ⟨_, rfl, Inv.empty _, by simp⟩
example : visitG exG 4 ⟨[0], []⟩ 7 = some ⟨[0], []⟩ ∧ exG 7 = none := ⟨rfl, rfl⟩

/-- what a visit adds to `vis` is reachable from the visited node -/
def VisitReach (rdeps : α → Option (List α)) (st : VSt α) (k : α) (st' : VSt α) : Prop :=
  ∀ x ∈ st'.vis, x ∈ st.vis ∨ Reach rdeps k x

omit [DecidableEq α] in
theorem chain_reach {rs : List α} {s0 s : VSt α} (h : Chain (VisitReach rdeps) rs s0 s) :
    ∀ x ∈ s.vis, x ∈ s0.vis ∨ ∃ r ∈ rs, Reach rdeps r x := by
  induction h with
  | nil s => intro x hx; exact Or.inl hx
  | cons hR _ ih =>
    intro x hx
    rcases ih x hx with h1 | ⟨r, hr, h1⟩
    · rcases hR x h1 with h2 | h2
      · exact Or.inl h2
      · exact Or.inr ⟨_, by simp, h2⟩
    · exact Or.inr ⟨r, by simp [hr], h1⟩

theorem visitG_reach (rdeps : α → Option (List α)) :
    ∀ f st k st', visitG rdeps f st k = some st' → VisitReach rdeps st k st' := by
  apply visitG_induct
  · intro st k _ x hx; exact Or.inl hx
  · intro st k _ _ x hx; exact Or.inl hx
  · intro st k rs s _ hg hch x hx
    rcases chain_reach hch x hx with h1 | ⟨r, hr, h1⟩
    · simp at h1
      rcases h1 with rfl | h1
      · exact Or.inr (Reach.refl _)
      · exact Or.inl h1
    · exact Or.inr (Reach.head hg hr h1)

example : VisitReach exG ⟨[], []⟩ 1 ⟨[2, 1], [1, 2]⟩ := visitG_reach exG 3 _ _ _ rfl

-- the invariant and the `Step` relation on the cyclic example (visit of `1` from the state in which `0` is gray)
example : Step exG ⟨[0], []⟩ ⟨[2, 1, 0], [1, 2]⟩ ∧ (exG 1 ≠ none → 1 ∈ [2, 1, 0]) :=
  visitOk_all exG 3 ⟨[0], []⟩ 1 _ rfl
    ⟨by simp, by simp [exG], by simp, by intro pre a post h; simp at h, by simp⟩
    (by intro g hg _; simp at hg; subst hg; exact exG_01)
example : Step exG ⟨[], []⟩ ⟨[], []⟩ := Step.refl (Inv.empty exG)
example : Step exG ⟨[], []⟩ ⟨[], []⟩ := (Step.refl (Inv.empty exG)).trans (Step.refl (Inv.empty exG))
example : Ord exG [2] := ord_cons (by intro pre a post h; simp at h)
  (by intro rs h b hb _; cases h; simp at hb; subst hb; exact Or.inr exG_12)
example : Step exG ⟨[], []⟩ ⟨[], []⟩ ∧ ∀ r ∈ ([] : List Nat), exG r ≠ none → r ∈ ([] : List Nat) :=
  chain_step (Chain.nil _) (Inv.empty exG) (by simp)
example : ∀ x ∈ [2, 1], x ∈ ([] : List Nat) ∨ ∃ r ∈ [1], Reach exG r x :=
  chain_reach (s0 := ⟨[], []⟩) (s := ⟨[2, 1], [1, 2]⟩) (Chain.cons (visitG_reach exG 3 _ _ _ rfl) (Chain.nil _))

/-! ## The whole sort -/

/-- **sortFrom_inv.** The result of the sort satisfies the invariant, has no gray node left
(`vis ⊆ out`), and contains every changed node that is in the graph. -/
theorem sortFrom_inv {fuel : Nat} {changed : List α} {st : VSt α}
    (h : sortFrom rdeps fuel changed = some st) :
    Inv rdeps st ∧ (∀ x ∈ st.vis, x ∈ st.out) ∧ (∀ c ∈ changed, rdeps c ≠ none → c ∈ st.out) := by
  have ⟨hs, hc⟩ := chain_step (sortFrom_chain rdeps (visitOk_all rdeps) h) (Inv.empty rdeps) (by simp)
  have hno : ∀ x ∈ st.vis, x ∈ st.out := by
    intro x hx
    apply Decidable.byContradiction
    intro hxo
    have := (hs.gray x hx hxo).1
    simp at this
  exact ⟨hs.inv, hno, fun c hc' hg => hno c (hc c hc' hg)⟩

example : ∃ st, sortFrom exG 4 [0, 7] = some st ∧ st.out = [0, 1, 2] := ⟨_, rfl, rfl⟩

example : Chain (VisitReach exG) [0, 7] ⟨[], []⟩ ⟨[2, 1, 0], [0, 1, 2]⟩ :=
  sortFrom_chain exG (visitG_reach exG) (fuel := 4) rfl

/-- **sortFrom_nodup.** No node is listed twice — on every graph, cyclic or not. -/
theorem sortFrom_nodup {fuel : Nat} {changed : List α} {st : VSt α}
    (h : sortFrom rdeps fuel changed = some st) : st.out.Nodup :=
  (sortFrom_inv h).1.nodup

example : ∃ st, sortFrom exG 4 [2, 0, 1, 0] = some st ∧ st.out = [0, 2, 1] := ⟨_, rfl, rfl⟩

/-- **sortFrom_sound.** Every listed node is in the graph and reachable from a changed node. -/
theorem sortFrom_sound {fuel : Nat} {changed : List α} {st : VSt α}
    (h : sortFrom rdeps fuel changed = some st) :
    ∀ x ∈ st.out, rdeps x ≠ none ∧ ∃ c ∈ changed, Reach rdeps c x := by
  intro x hx
  have hi := (sortFrom_inv h).1
  have hv := hi.sub x hx
  refine ⟨hi.ing x hv, ?_⟩
  rcases chain_reach (sortFrom_chain rdeps (visitG_reach rdeps) h) x hv with h1 | h1
  · simp at h1
  · exact h1

-- `2` is changed, `0` (which only reaches the others) is not listed; the absent `7` is not listed
example : ∃ st, sortFrom exG 4 [2] = some st ∧ st.out = [2, 1] := ⟨_, rfl, rfl⟩

/-- **sortFrom_closed.** The list is closed under `rdeps` (restricted to the graph). -/
theorem sortFrom_closed {fuel : Nat} {changed : List α} {st : VSt α}
    (h : sortFrom rdeps fuel changed = some st) :
    ∀ a ∈ st.out, ∀ rs, rdeps a = some rs → ∀ b ∈ rs, rdeps b ≠ none → b ∈ st.out := by
  intro a ha rs hrs b hb hbg
  have ⟨hi, hno, _⟩ := sortFrom_inv h
  exact hno b (hi.cl a ha rs hrs b hb hbg)

example : 1 ∈ [2, 1] := sortFrom_closed (rdeps := exG) (fuel := 4) (changed := [2]) (st := ⟨[1, 2], [2, 1]⟩) rfl
  2 (by simp) [1] rfl 1 (by simp) (by simp [exG])

/-- **sortFrom_complete.** Every node of the graph that is reachable from a changed node is listed
(the path's inner nodes are in the graph by the definition of `Reach`). -/
theorem sortFrom_complete {fuel : Nat} {changed : List α} {st : VSt α}
    (h : sortFrom rdeps fuel changed = some st) :
    ∀ c ∈ changed, ∀ x, Reach rdeps c x → rdeps x ≠ none → x ∈ st.out := by
  intro c hc x hr
  induction hr with
  | refl => intro hg; exact (sortFrom_inv h).2.2 c hc hg
  | step _ hrs hm ih =>
    intro hg
    exact sortFrom_closed h _ (ih (by simp [hrs])) _ hrs _ hm hg

example : ∃ st, sortFrom exG 4 [0] = some st ∧ 0 ∈ [0] ∧ Reach exG 0 2 ∧ exG 2 ≠ none ∧ 2 ∈ st.out :=
  ⟨_, rfl, by simp, Reach.trans exG_01 exG_12, by simp [exG], by decide⟩

/-- **sortFrom_order_scc.** On EVERY graph: a node comes before each of its reverse dependencies,
except those from which it is itself reachable (they lie on a cycle with it). -/
theorem sortFrom_order_scc {fuel : Nat} {changed : List α} {st : VSt α}
    (h : sortFrom rdeps fuel changed = some st) : Ord rdeps st.out :=
  (sortFrom_inv h).1.ord

example : Ord exG [1, 2] := sortFrom_order_scc (fuel := 4) (changed := [1]) (st := ⟨[2, 1], [1, 2]⟩) rfl

omit [DecidableEq α] in
theorem rank_reach {rank : α → Nat} (hr : ∀ a rs b, rdeps a = some rs → b ∈ rs → rank b < rank a)
    {a b : α} (h : Reach rdeps a b) : rank b ≤ rank a := by
  induction h with
  | refl => exact Nat.le_refl _
  | step _ hrs hm ih => exact Nat.le_of_lt (Nat.lt_of_lt_of_le (hr _ _ _ hrs hm) ih)

omit [DecidableEq α] in
theorem rank_up_reach {rank : α → Nat} (hr : ∀ a rs b, rdeps a = some rs → b ∈ rs → rank a < rank b)
    {a b : α} (h : Reach rdeps a b) : rank a ≤ rank b := by
  induction h with
  | refl => exact Nat.le_refl _
  | step _ hrs hm ih => exact Nat.le_of_lt (Nat.lt_of_le_of_lt ih (hr _ _ _ hrs hm))

/-- **sortFrom_order_acyclic.** If no edge `a → b` closes a cycle (`a` is not reachable from `b`):
in `out = pre ++ a :: post` every reverse dependency of `a` (that is in the graph) is in `post`. -/
theorem sortFrom_order_acyclic (hac : ∀ a rs b, rdeps a = some rs → b ∈ rs → ¬ Reach rdeps b a)
    {fuel : Nat} {changed : List α} {st : VSt α} (h : sortFrom rdeps fuel changed = some st) :
    ∀ pre a post, st.out = pre ++ a :: post → ∀ rs, rdeps a = some rs → ∀ b ∈ rs, rdeps b ≠ none →
      b ∈ post := by
  intro pre a post hout rs hrs b hb hbg
  rcases sortFrom_order_scc h pre a post hout rs hrs b hb hbg with h1 | h1
  · exact h1
  · exact absurd h1 (hac a rs b hrs hb)

/-- **sortFrom_order.** On a graph with a rank that strictly decreases along edges (acyclic): in
`out = pre ++ a :: post` every reverse dependency of `a` (that is in the graph) is in `post`:
dependencies are refreshed before their dependents. -/
theorem sortFrom_order {rank : α → Nat} (hr : ∀ a rs b, rdeps a = some rs → b ∈ rs → rank b < rank a)
    {fuel : Nat} {changed : List α} {st : VSt α} (h : sortFrom rdeps fuel changed = some st) :
    ∀ pre a post, st.out = pre ++ a :: post → ∀ rs, rdeps a = some rs → ∀ b ∈ rs, rdeps b ≠ none →
      b ∈ post :=
  sortFrom_order_acyclic (fun a rs b hrs hb h1 => by
    have := rank_reach hr h1
    have := hr a rs b hrs hb
    omega) h

/-- the same with a rank that strictly increases along edges -/
theorem sortFrom_order_up {rank : α → Nat} (hr : ∀ a rs b, rdeps a = some rs → b ∈ rs → rank a < rank b)
    {fuel : Nat} {changed : List α} {st : VSt α} (h : sortFrom rdeps fuel changed = some st) :
    ∀ pre a post, st.out = pre ++ a :: post → ∀ rs, rdeps a = some rs → ∀ b ∈ rs, rdeps b ≠ none →
      b ∈ post :=
  sortFrom_order_acyclic (fun a rs b hrs hb h1 => by
    have := rank_up_reach hr h1
    have := hr a rs b hrs hb
    omega) h

/-- the same for any listed node: the decomposition exists -/
theorem sortFrom_order_mem {rank : α → Nat} (hr : ∀ a rs b, rdeps a = some rs → b ∈ rs → rank b < rank a)
    {fuel : Nat} {changed : List α} {st : VSt α} (h : sortFrom rdeps fuel changed = some st) :
    ∀ a ∈ st.out, ∀ rs, rdeps a = some rs → ∀ b ∈ rs, rdeps b ≠ none →
      ∃ pre post, st.out = pre ++ a :: post ∧ a ∉ pre ∧ b ∈ post := by
  intro a ha rs hrs b hb hbg
  obtain ⟨pre, post, hout⟩ := List.append_of_mem ha
  have hnd := sortFrom_nodup h
  rw [hout] at hnd
  have hap : a ∉ pre := by
    intro hp
    have := (List.nodup_append.mp hnd).2.2 a hp a (by simp)
    exact this rfl
  exact ⟨pre, post, hout, hap, sortFrom_order hr h pre a post hout rs hrs b hb hbg⟩

def exRank (n : Nat) : Nat := 10 - n

theorem exDag_rank : ∀ a rs b, exDag a = some rs → b ∈ rs → exRank b < exRank a := by
  intro a rs b h hb
  unfold exRank
  match a, h with
  | 0, h => cases h; simp at hb; rcases hb with rfl | rfl <;> simp
  | 1, h => cases h; simp at hb; subst hb; simp
  | 2, h => cases h; simp at hb; subst hb; simp

example : exRank 2 ≤ exRank 0 :=
  rank_reach exDag_rank (Reach.edge (rdeps := exDag) (rs := [1, 2]) rfl (by simp))
example : (0 : Nat) ≤ 2 := rank_up_reach (rdeps := exDag) (rank := id)
  (fun a rs b h hb => by have := exDag_rank a rs b h hb; simp only [exRank, id] at *; omega)
  (Reach.edge (rs := [1, 2]) rfl (by simp))

-- `2` is changed first, still `0` (on which `1`, `2` depend) and `1` come before it
example : ∃ st, sortFrom exDag 4 [2, 1, 0] = some st ∧ st.out = [0, 1, 2] := ⟨_, rfl, rfl⟩
example : ∀ pre a post, [0, 1, 2] = pre ++ a :: post → ∀ rs, exDag a = some rs → ∀ b ∈ rs, exDag b ≠ none →
    b ∈ post := sortFrom_order exDag_rank (fuel := 4) (changed := [2, 1, 0]) rfl
example : ∀ pre a post, [0, 1, 2] = pre ++ a :: post → ∀ rs, exDag a = some rs → ∀ b ∈ rs, exDag b ≠ none →
    b ∈ post := sortFrom_order_up (rank := id) (fun a rs b h hb => by
      have := exDag_rank a rs b h hb; simp only [exRank, id] at *; omega) (fuel := 4) (changed := [2, 1, 0]) rfl
example : ∀ pre a post, [0, 1, 2] = pre ++ a :: post → ∀ rs, exDag a = some rs → ∀ b ∈ rs, exDag b ≠ none →
    b ∈ post := sortFrom_order_acyclic (fun a rs b h hb hre => by
      have := exDag_rank a rs b h hb; have := rank_reach exDag_rank hre; omega) (fuel := 4) (changed := [2, 1, 0]) rfl
example : ∃ pre post, [0, 1, 2] = pre ++ 1 :: post ∧ 1 ∉ pre ∧ 2 ∈ post :=
  sortFrom_order_mem exDag_rank (fuel := 4) (changed := [2, 1, 0]) rfl 1 (by simp) [2] rfl 2 (by simp) (by simp [exDag])
/-- in a duplicate-free list, what comes after `a` has a larger index -/
theorem idxOf_lt_of_split {l pre post : List α} {a b : α} (hl : l = pre ++ a :: post)
    (hnd : l.Nodup) (hb : b ∈ post) : l.idxOf a < l.idxOf b := by
  subst hl
  induction pre with
  | nil =>
    have hba : ¬ a = b := by
      intro e; subst e
      simp at hnd; exact hnd.1 hb
    have : (a == b) = false := by simpa using hba
    simp [List.idxOf_cons, this]
  | cons p pre ih =>
    have ⟨h1, h2⟩ := List.nodup_cons.mp hnd
    have hpa : (p == a) = false := by
      have : ¬ p = a := by intro e; subst e; exact h1 (by simp)
      simpa using this
    have hpb : (p == b) = false := by
      have : ¬ p = b := by intro e; subst e; exact h1 (by simp [hb])
      simpa using this
    have := ih h2
    simp only [List.cons_append, List.idxOf_cons, hpa, hpb, cond_false]
    omega

example : [5, 3, 8].idxOf 3 < [5, 3, 8].idxOf 8 := idxOf_lt_of_split (pre := [5]) (post := [8]) rfl (by decide) (by simp)

/-- **sortFrom_order_idx.** The index formulation: on a ranked (acyclic) graph every listed node has
a smaller index in `out` than each of its reverse dependencies (which are listed too). -/
theorem sortFrom_order_idx {rank : α → Nat} (hr : ∀ a rs b, rdeps a = some rs → b ∈ rs → rank b < rank a)
    {fuel : Nat} {changed : List α} {st : VSt α} (h : sortFrom rdeps fuel changed = some st) :
    ∀ a ∈ st.out, ∀ rs, rdeps a = some rs → ∀ b ∈ rs, rdeps b ≠ none →
      b ∈ st.out ∧ st.out.idxOf a < st.out.idxOf b := by
  intro a ha rs hrs b hb hbg
  obtain ⟨pre, post, hout, _, hbp⟩ := sortFrom_order_mem hr h a ha rs hrs b hb hbg
  exact ⟨by rw [hout]; simp [hbp], idxOf_lt_of_split hout (sortFrom_nodup h) hbp⟩

example : 2 ∈ [0, 1, 2] ∧ [0, 1, 2].idxOf 1 < [0, 1, 2].idxOf 2 :=
  sortFrom_order_idx exDag_rank (fuel := 4) (changed := [2, 1, 0]) rfl 1 (by simp) [2] rfl 2 (by simp) (by simp [exDag])

-- on the cyclic example the strict order is impossible (`1` and `2` are each other's reverse
-- dependencies) and `sortFrom_order_scc` is what holds
example : ∃ st, sortFrom exG 4 [1] = some st ∧ st.out = [1, 2] ∧ Reach exG 1 2 ∧ Reach exG 2 1 :=
  ⟨_, rfl, rfl, exG_12, exG_21⟩

/-! ## Termination and fuel -/

/-- number of nodes of `nodes` not yet visited -/
def unv (nodes vis : List α) : Nat := nodes.countP (fun x => !decide (x ∈ vis))

theorem unv_mono (nodes : List α) {v v' : List α} (h : ∀ x ∈ v, x ∈ v') : unv nodes v' ≤ unv nodes v := by
  unfold unv
  apply List.countP_mono_left
  intro x _ hx
  simp at hx ⊢
  exact fun hv => hx (h x hv)

theorem unv_cons_lt (nodes : List α) {v : List α} {k : α} (hk : k ∈ nodes) (hv : k ∉ v) :
    unv nodes (k :: v) < unv nodes v := by
  unfold unv
  induction nodes with
  | nil => simp at hk
  | cons a as ih =>
    have hle : List.countP (fun x => !decide (x ∈ k :: v)) as ≤ List.countP (fun x => !decide (x ∈ v)) as :=
      unv_mono as (fun x hx => List.mem_cons_of_mem _ hx)
    by_cases hak : a = k
    · subst hak
      rw [List.countP_cons_of_neg (by simp), List.countP_cons_of_pos (by simpa using hv)]
      omega
    · have hk' : k ∈ as := by
        rcases List.mem_cons.mp hk with h | h
        · exact absurd h.symm hak
        · exact h
      have := ih hk'
      by_cases h1 : a ∈ v
      · rw [List.countP_cons_of_neg (by simp [h1]), List.countP_cons_of_neg (by simp [h1])]; exact this
      · rw [List.countP_cons_of_pos (by simp [h1, hak]), List.countP_cons_of_pos (by simp [h1])]; omega

example : unv [0, 1, 2] [1] = 2 := by decide

example : unv [0, 1, 2] [1, 0] ≤ unv [0, 1, 2] [1] := unv_mono _ (by simp)
example : unv [0, 1, 2] [2, 1] < unv [0, 1, 2] [1] := unv_cons_lt _ (by simp) (by simp)

theorem visitG_vis_mono {f : Nat} {st st' : VSt α} {k : α} (h : visitG rdeps f st k = some st') :
    ∀ x ∈ st.vis, x ∈ st'.vis := by
  revert f st k st'
  suffices ∀ f st k st', visitG rdeps f st k = some st' → (fun st _ st' => ∀ x ∈ st.vis, x ∈ st'.vis) st k st' from
    fun {f st st' k} h => this f st k st' h
  have chain : ∀ (rs : List α) (s0 s : VSt α),
      Chain (fun st _ st' => ∀ x ∈ st.vis, x ∈ st'.vis) rs s0 s → ∀ x ∈ s0.vis, x ∈ s.vis := by
    intro rs s0 s h
    induction h with
    | nil => intro x hx; exact hx
    | cons hR _ ih => intro x hx; exact ih x (hR x hx)
  apply visitG_induct
  · intro st k _ x hx; exact hx
  · intro st k _ _ x hx; exact hx
  · intro st k rs s _ _ hch x hx
    exact chain _ _ _ hch x (List.mem_cons_of_mem _ hx)

example : ∀ x ∈ [0], x ∈ [2, 1, 0] := visitG_vis_mono (rdeps := exG) (f := 3) (st := ⟨[0], []⟩) (k := 1)
  (st' := ⟨[2, 1, 0], [1, 2]⟩) rfl

/-- The visit returns on EVERY finite graph (`nodes` lists the graph's nodes), cyclic or not, with
fuel above the number of still-unvisited nodes. -/
theorem visitG_terminates (nodes : List α) (hfin : ∀ a rs, rdeps a = some rs → a ∈ nodes) :
    ∀ f st k, unv nodes st.vis < f → ∃ st', visitG rdeps f st k = some st' := by
  intro f
  induction f with
  | zero => intro st k h; omega
  | succ f ih =>
    intro st k hlt
    unfold visitG
    by_cases hkv : k ∈ st.vis
    · exact ⟨st, by simp [hkv]⟩
    · simp only [hkv, if_false]
      cases hg : rdeps k with
      | none => exact ⟨st, rfl⟩
      | some rs =>
        have hk : k ∈ nodes := hfin k rs hg
        have h0 : unv nodes (k :: st.vis) < f := by
          have := unv_cons_lt nodes hk hkv; omega
        have fold : ∀ (rs : List α) (s0 : VSt α), unv nodes s0.vis < f →
            ∃ s, rs.foldlM (fun s r => visitG rdeps f s r) s0 = some s := by
          intro rs
          induction rs with
          | nil => intro s0 _; exact ⟨s0, by simp [List.foldlM]⟩
          | cons r rs ihrs =>
            intro s0 hl
            have ⟨s1, h1⟩ := ih s0 r hl
            have hm := visitG_vis_mono h1
            have ⟨s, hs⟩ := ihrs s1 (Nat.lt_of_le_of_lt (unv_mono nodes hm) hl)
            exact ⟨s, by simp [List.foldlM_cons, h1, hs]⟩
        have ⟨s, hs⟩ := fold rs ⟨k :: st.vis, st.out⟩ h0
        exact ⟨_, by simp only []; rw [hs]⟩

-- one node is already visited: fuel 3 is enough for the remaining two
example : ∃ st', visitG exG 3 ⟨[0], []⟩ 1 = some st' :=
  visitG_terminates [0, 1, 2] (fun a rs h => by
    match a, h with
    | 0, _ => simp
    | 1, _ => simp
    | 2, _ => simp) 3 ⟨[0], []⟩ 1 (by decide)

/-- **sortFrom_terminates.** On a finite graph, cyclic or not, fuel `#nodes + 1` suffices. -/
theorem sortFrom_terminates (nodes : List α) (hfin : ∀ a rs, rdeps a = some rs → a ∈ nodes)
    (fuel : Nat) (hfuel : nodes.length + 1 ≤ fuel) (changed : List α) :
    ∃ st, sortFrom rdeps fuel changed = some st := by
  unfold sortFrom
  suffices ∀ s0 : VSt α, ∃ s, changed.foldlM (fun s k => visitG rdeps fuel s k) s0 = some s from this _
  induction changed with
  | nil => intro s0; exact ⟨s0, by simp [List.foldlM]⟩
  | cons k ks ih =>
    intro s0
    have hle : unv nodes s0.vis < fuel := by
      have : unv nodes s0.vis ≤ nodes.length := by unfold unv; exact List.countP_le_length
      omega
    have ⟨s1, h1⟩ := visitG_terminates nodes hfin _ s0 k hle
    have ⟨s, hs⟩ := ih s1
    exact ⟨s, by simp [List.foldlM_cons, h1, hs]⟩

theorem exG_fin : ∀ a rs, exG a = some rs → a ∈ [0, 1, 2] := by
  intro a rs h
  match a, h with
  | 0, _ => simp
  | 1, _ => simp
  | 2, _ => simp

example : ∃ st, sortFrom exG 4 [1, 0] = some st := sortFrom_terminates [0, 1, 2] exG_fin 4 (by simp) _
-- the bound is tight for a visit: three nodes on a path need fuel 4
example : sortFrom exG 3 [0] = none ∧ (sortFrom exG 4 [0]).isSome := by decide

omit [DecidableEq α] in
theorem foldlM_some_congr {F G : VSt α → α → Option (VSt α)} (hFG : ∀ s r s', F s r = some s' → G s r = some s') :
    ∀ (rs : List α) (s0 s : VSt α), rs.foldlM F s0 = some s → rs.foldlM G s0 = some s := by
  intro rs
  induction rs with
  | nil => intro s0 s h; simpa [List.foldlM] using h
  | cons r rs ih =>
    intro s0 s h
    simp only [List.foldlM_cons, Option.bind_eq_bind] at h ⊢
    cases hv : F s0 r with
    | none => simp [hv] at h
    | some s1 => simp [hv] at h; simp [hFG _ _ _ hv]; exact ih s1 s h

/-- **visitG_fuel_mono.** More fuel does not change a result. -/
theorem visitG_fuel_mono : ∀ f st k st', visitG rdeps f st k = some st' →
    ∀ f', f ≤ f' → visitG rdeps f' st k = some st' := by
  intro f
  induction f with
  | zero => intro st k st' h; simp [visitG] at h
  | succ f ih =>
    intro st k st' h f' hf'
    obtain ⟨f'', rfl⟩ : ∃ f'', f' = f'' + 1 := ⟨f' - 1, by omega⟩
    unfold visitG at h ⊢
    by_cases hk : k ∈ st.vis
    · simpa [hk] using h
    · simp only [hk, if_false] at h ⊢
      cases hg : rdeps k with
      | none => simpa [hg] using h
      | some rs =>
        simp only [hg] at h ⊢
        cases hfo : rs.foldlM (fun s r => visitG rdeps f s r) ⟨k :: st.vis, st.out⟩ with
        | none => simp [hfo] at h
        | some s =>
          simp [hfo] at h
          rw [foldlM_some_congr (fun s r s' hv => ih s r s' hv f'' (by omega)) rs _ s hfo]
          simpa using h

example : visitG exG 7 ⟨[0], []⟩ 1 = some ⟨[2, 1, 0], [1, 2]⟩ := visitG_fuel_mono 3 _ _ _ rfl 7 (by simp)
example : [1, 7].foldlM (fun s r => visitG exG 7 s r) ⟨[0], []⟩ = some ⟨[2, 1, 0], [1, 2]⟩ :=
  foldlM_some_congr (F := fun s r => visitG exG 3 s r) (fun s r s' h => visitG_fuel_mono 3 s r s' h 7 (by simp))
    _ _ _ rfl

/-- **sortFrom_fuel_mono.** -/
theorem sortFrom_fuel_mono {fuel fuel' : Nat} {changed : List α} {st : VSt α}
    (h : sortFrom rdeps fuel changed = some st) (hle : fuel ≤ fuel') :
    sortFrom rdeps fuel' changed = some st :=
  foldlM_some_congr (fun s r s' hv => visitG_fuel_mono _ s r s' hv fuel' hle) changed _ st h

example : sortFrom exG 4 [0] = sortFrom exG 9 [0] ∧ (sortFrom exG 4 [0]).isSome := ⟨rfl, rfl⟩

end

end AmVerif.Lemmas.Topo
