import AmVerif.Lemmas.Fault
import AmVerif.Lemmas.Reload
/-!
# Read-set determinacy of hit-only evaluations

* `Prog.Plain` — loaders built from `ret / fail / panic / read / readDir / getCached / load / tick`
  only. `.noRecord`, `.onThread`, `.tryCatch` are excluded because what they read is deliberately
  not recorded; `.loadOwned` is excluded because it always re-evaluates the nested loader under a
  frame of its own, so that what decides its value is not in the parent's record; `.getOrInsert` is
  excluded because it mutates the cache (it may fill a slot).
* `hitRun env f s p` — the evaluation `eval env f s p` is a **tracked hit-only run**: on the path it
  actually takes it meets plain constructors only, every `.load` finds its key cached (a *hit*: no
  nested evaluation, nothing inserted), and every look-up is recorded (the type is hot-reloaded and
  the cache has a reloader; reads of the source are recorded). This is weaker than
  `p.Plain ∧ every type hot` (`hitRun_of_plain`): only the path taken matters.
* `hitRun_frame` — such a run leaves the map alone and only adds to the top recording frame.
* `eval_readset` — **read-set determinacy**: a tracked hit-only run is a function of what it
  recorded. If `(env', t)` agrees with `(env, s)` on every entry of the final record `D` (`AgreeOn`:
  same file / directory content, same cached *value* or absent in both), then the evaluation under
  `(env', t)` is a tracked hit-only run too, with the same outcome and the same record `D`.
* `reloadEval_readset` — the same for the evaluation a reload performs (`reloadEval`).
* `eval_topMono` — every evaluation (any loader) only adds to the top recording frame;
  `hitRun_of_plain` — a `Plain` loader under an all-hot environment runs tracked hit-only as soon as
  every asset it records is cached; `eval_readset_plain` — determinacy stated with `Prog.Plain`.
-/
namespace AmVerif.Model
open AmVerif.Gen

/-! ## Plain loaders -/

/-- Loaders whose every read is recorded in the frame of the asset being loaded. -/
inductive Prog.Plain : Prog → Prop
  | ret (v : Val) : Plain (.ret v)
  | fail (e : LErr) : Plain (.fail e)
  | panic : Plain .panic
  | read (id ext : String) (k : Except IoErr (List UInt8) → Prog) : (∀ r, Plain (k r)) → Plain (.read id ext k)
  | readDir (id : String) (k : Except IoErr (List DirEnt) → Prog) : (∀ r, Plain (k r)) → Plain (.readDir id k)
  | getCached (key : Key) (k : Option Val → Prog) : (∀ r, Plain (k r)) → Plain (.getCached key k)
  | load (key : Key) (k : Except LErr Val → Prog) : (∀ r, Plain (k r)) → Plain (.load key k)
  | tick (k : Option Bool → Prog) : (∀ r, Plain (k r)) → Plain (.tick k)

/-- every type is hot-reloaded and the cache has a reloader -/
def Env.Hot (env : Env) : Prop := env.hasReloader = true ∧ ∀ ty, (env.types ty).hot = true

/-! ## The top recording frame -/

/-- what the top frame has recorded (the third component of `withFrame`) -/
def St.top (s : St) : List Dep :=
  match s.recs with
  | some ds :: _ => ds
  | _ => []

theorem St.top_of_recs {s : St} {ds : List Dep} {rs} (h : s.recs = some ds :: rs) : s.top = ds := by
  unfold St.top; rw [h]

theorem mem_depInsert (x d : Dep) (ds : List Dep) : x ∈ depInsert d ds ↔ x = d ∨ x ∈ ds := by
  unfold depInsert
  by_cases h : d ∈ ds
  · simp only [h, if_true]
    constructor
    · exact Or.inr
    · rintro (e | e)
      · rw [e]; exact h
      · exact e
  · simp only [h, if_false, List.mem_append, List.mem_singleton]
    exact or_comm

theorem St.record_recs {s : St} {ds : List Dep} {rs} (h : s.recs = some ds :: rs) (d : Dep) :
    (s.record true d).recs = some (depInsert d ds) :: rs := by
  unfold St.record
  simp only [if_true]
  rw [h]

/-! ## Tracked hit-only runs -/

/-- `eval env f s p` meets plain constructors only, every `.load` is a hit, every look-up and read
is recorded. (Mirrors `eval` clause by clause.) -/
def hitRun (env : Env) : Nat → St → Prog → Bool
  | 0, _, _ => true
  | _+1, _, .ret _ => true
  | _+1, _, .fail _ => true
  | _+1, _, .panic => true
  | f+1, s, .read id ext k =>
      recordsRead env.hasReloader &&
      hitRun env f { s.record (recordsRead env.hasReloader) (.file id ext) with
                       ios := (s.record (recordsRead env.hasReloader) (.file id ext)).ios + 1 }
        (k (env.read (s.record (recordsRead env.hasReloader) (.file id ext)).ios id ext))
  | f+1, s, .readDir id k =>
      recordsRead env.hasReloader &&
      hitRun env f { s.record (recordsRead env.hasReloader) (.dir id) with
                       ios := (s.record (recordsRead env.hasReloader) (.dir id)).ios + 1 }
        (k (env.readDir (s.record (recordsRead env.hasReloader) (.dir id)).ios id))
  | f+1, s, .getCached key k =>
      recordsAsset (env.types key.ty).hot env.hasReloader &&
      hitRun env f (s.record (recordsAsset (env.types key.ty).hot env.hasReloader) (.asset key))
        (k (((s.record (recordsAsset (env.types key.ty).hot env.hasReloader) (.asset key)).lookup key).map (·.val)))
  | f+1, s, .tick k => hitRun env f { s with loads := s.loads + 1 } (k (env.loaderFault s.loads))
  | f+1, s, .load key k =>
      recordsAsset (env.types key.ty).hot env.hasReloader &&
      (match (s.record (recordsAsset (env.types key.ty).hot env.hasReloader) (.asset key)).lookup key with
       | some c => hitRun env f (s.record (recordsAsset (env.types key.ty).hot env.hasReloader) (.asset key)) (k (.ok c.val))
       | none => false)
  | _+1, _, .noRecord _ _ => false
  | _+1, _, .onThread _ _ => false
  | _+1, _, .tryCatch _ _ => false
  | _+1, _, .loadOwned _ _ => false
  | _+1, _, .getOrInsert _ _ _ => false

/-- A tracked hit-only run keeps the stack below the top frame, only adds to the top frame, and
does not touch the map. -/
theorem hitRun_frame (env : Env) : ∀ (f : Nat) (p : Prog) (s : St) (ds : List Dep) (rs : List (Option (List Dep))),
    s.recs = some ds :: rs → hitRun env f s p = true →
    (eval env f s p).1.recs = some (eval env f s p).1.top :: rs ∧
    (∀ d ∈ ds, d ∈ (eval env f s p).1.top) ∧ (eval env f s p).1.map = s.map := by
  intro f
  induction f with
  | zero =>
    intro p s ds rs hs _
    simp only [eval]
    exact ⟨by rw [St.top_of_recs hs]; exact hs, by rw [St.top_of_recs hs]; exact fun d h => h, trivial⟩
  | succ f ih =>
    intro p s ds rs hs hh
    have base : (s.recs = some s.top :: rs ∧ (∀ d ∈ ds, d ∈ s.top) ∧ True) :=
      ⟨by rw [St.top_of_recs hs]; exact hs, by rw [St.top_of_recs hs]; exact fun d h => h, trivial⟩
    cases p with
    | ret v => simp only [eval]; exact base
    | fail e => simp only [eval]; exact base
    | panic => simp only [eval]; exact base
    | read id ext k =>
      simp only [hitRun, Bool.and_eq_true] at hh
      obtain ⟨hb, hh⟩ := hh
      rw [hb] at hh
      simp only [eval, hb]
      have h1 := St.record_recs hs (.file id ext)
      obtain ⟨i1, i2, i3⟩ := ih _ _ _ _ (show St.recs { s.record true (.file id ext) with
        ios := (s.record true (.file id ext)).ios + 1 } = _ from h1) hh
      refine ⟨i1, fun d hd => i2 d ((mem_depInsert _ _ _).mpr (Or.inr hd)), ?_⟩
      rw [i3]; exact St.record_map s true _
    | readDir id k =>
      simp only [hitRun, Bool.and_eq_true] at hh
      obtain ⟨hb, hh⟩ := hh
      rw [hb] at hh
      simp only [eval, hb]
      have h1 := St.record_recs hs (.dir id)
      obtain ⟨i1, i2, i3⟩ := ih _ _ _ _ (show St.recs { s.record true (.dir id) with
        ios := (s.record true (.dir id)).ios + 1 } = _ from h1) hh
      refine ⟨i1, fun d hd => i2 d ((mem_depInsert _ _ _).mpr (Or.inr hd)), ?_⟩
      rw [i3]; exact St.record_map s true _
    | getCached key k =>
      simp only [hitRun, Bool.and_eq_true] at hh
      obtain ⟨hb, hh⟩ := hh
      rw [hb] at hh
      simp only [eval, hb]
      have h1 := St.record_recs hs (.asset key)
      obtain ⟨i1, i2, i3⟩ := ih _ _ _ _ h1 hh
      refine ⟨i1, fun d hd => i2 d ((mem_depInsert _ _ _).mpr (Or.inr hd)), ?_⟩
      rw [i3]; exact St.record_map s true _
    | tick k =>
      simp only [hitRun] at hh
      simp only [eval]
      exact ih _ { s with loads := s.loads + 1 } ds rs hs hh
    | load key k =>
      simp only [hitRun, Bool.and_eq_true] at hh
      obtain ⟨hb, hh⟩ := hh
      rw [hb] at hh
      simp only [eval, hb]
      have h1 := St.record_recs hs (.asset key)
      cases hl : (s.record true (.asset key)).lookup key with
      | none => rw [hl] at hh; cases hh
      | some c =>
        rw [hl] at hh
        simp only [] at hh ⊢
        obtain ⟨i1, i2, i3⟩ := ih _ _ _ _ h1 hh
        refine ⟨i1, fun d hd => i2 d ((mem_depInsert _ _ _).mpr (Or.inr hd)), ?_⟩
        rw [i3]; exact St.record_map s true _
    | noRecord body k => simp only [hitRun] at hh; cases hh
    | onThread body k => simp only [hitRun] at hh; cases hh
    | tryCatch body k => simp only [hitRun] at hh; cases hh
    | loadOwned key k => simp only [hitRun] at hh; cases hh
    | getOrInsert key v k => simp only [hitRun] at hh; cases hh


theorem St.record_out (s : St) (on : Bool) (d : Dep) : (s.record on d).out = s.out := by
  unfold St.record; split
  · split <;> rfl
  · rfl

/-- A tracked hit-only run sends nothing to the reloader (nothing new is registered). -/
theorem hitRun_out (env : Env) : ∀ (f : Nat) (p : Prog) (s : St),
    hitRun env f s p = true → (eval env f s p).1.out = s.out := by
  intro f
  induction f with
  | zero => intro p s _; rfl
  | succ f ih =>
    intro p s hh
    cases p with
    | ret v => rfl
    | fail e => rfl
    | panic => rfl
    | read id ext k =>
      simp only [hitRun, Bool.and_eq_true] at hh
      simp only [eval]
      rw [ih _ _ hh.2]; exact St.record_out s _ _
    | readDir id k =>
      simp only [hitRun, Bool.and_eq_true] at hh
      simp only [eval]
      rw [ih _ _ hh.2]; exact St.record_out s _ _
    | getCached key k =>
      simp only [hitRun, Bool.and_eq_true] at hh
      simp only [eval]
      rw [ih _ _ hh.2]; exact St.record_out s _ _
    | tick k =>
      simp only [hitRun] at hh
      simp only [eval]
      rw [ih _ _ hh]
    | load key k =>
      simp only [hitRun, Bool.and_eq_true] at hh
      obtain ⟨_, hh⟩ := hh
      simp only [eval]
      cases hl : (s.record (recordsAsset (env.types key.ty).hot env.hasReloader) (.asset key)).lookup key with
      | none => rw [hl] at hh; cases hh
      | some c =>
        rw [hl] at hh
        simp only [] at hh ⊢
        rw [ih _ _ hh]; exact St.record_out s _ _
    | noRecord body k => simp only [hitRun] at hh; cases hh
    | onThread body k => simp only [hitRun] at hh; cases hh
    | tryCatch body k => simp only [hitRun] at hh; cases hh
    | loadOwned key k => simp only [hitRun] at hh; cases hh
    | getOrInsert key v k => simp only [hitRun] at hh; cases hh

/-! ## Read-set determinacy -/

/-- `env'` runs the same loaders as `env`: same type table, same reloader flag, same answers of the
loader fault plan. Only the source may differ. -/
structure SameLoaders (env env' : Env) : Prop where
  types : env'.types = env.types
  hasReloader : env'.hasReloader = env.hasReloader
  fault : ∀ i j, env'.loaderFault i = env.loaderFault j

theorem SameLoaders.refl {env : Env} (h : env.Steady) : SameLoaders env env := ⟨rfl, rfl, h.2.2⟩

/-- `(env', t)` answers a look-up of `d` like `(env, s)`: same content of the file / directory, same
cached **value** of the asset (or absent in both). Reload id, flag, address are not compared. -/
def AgreeOn (env env' : Env) (s t : St) : Dep → Prop
  | .file id ext => env'.read 0 id ext = env.read 0 id ext
  | .dir id => env'.readDir 0 id = env.readDir 0 id
  | .asset k => (t.lookup k).map (·.val) = (s.lookup k).map (·.val)

theorem AgreeOn.congr {env env' : Env} {s t s' t' : St} {d : Dep}
    (hs : ∀ k, s'.lookup k = s.lookup k) (ht : ∀ k, t'.lookup k = t.lookup k)
    (h : AgreeOn env env' s t d) : AgreeOn env env' s' t' d := by
  cases d with
  | file id ext => exact h
  | dir id => exact h
  | asset k => simp only [AgreeOn] at h ⊢; rw [hs, ht]; exact h

theorem AgreeOn.refl {env : Env} (s : St) (d : Dep) : AgreeOn env env s s d := by
  cases d <;> rfl

/-- **Read-set determinacy.** A tracked hit-only run is a function of the entries it recorded:
under every `(env', t)` that agrees with `(env, s)` on the final record (and has a recording frame
with the same content on top), the evaluation is again a tracked hit-only run, with the same outcome
and the same final record. -/
theorem eval_readset {env env' : Env} (hS : env.Steady) (hS' : env'.Steady) (hL : SameLoaders env env') :
    ∀ (f : Nat) (p : Prog) (s t : St) (ds : List Dep) (rs rt : List (Option (List Dep))),
    s.recs = some ds :: rs → t.recs = some ds :: rt → hitRun env f s p = true →
    (∀ d ∈ (eval env f s p).1.top, AgreeOn env env' s t d) →
    hitRun env' f t p = true ∧ (eval env' f t p).2 = (eval env f s p).2 ∧
    (eval env' f t p).1.top = (eval env f s p).1.top := by
  intro f
  induction f with
  | zero =>
    intro p s t ds rs rt hs ht _ _
    simp only [eval, hitRun]
    exact ⟨trivial, trivial, by rw [St.top_of_recs hs, St.top_of_recs ht]⟩
  | succ f ih =>
    intro p s t ds rs rt hs ht hh hag
    have base : s.top = ds ∧ t.top = ds := ⟨St.top_of_recs hs, St.top_of_recs ht⟩
    cases p with
    | ret v => simp only [eval, hitRun]; exact ⟨trivial, trivial, by rw [base.1, base.2]⟩
    | fail e => simp only [eval, hitRun]; exact ⟨trivial, trivial, by rw [base.1, base.2]⟩
    | panic => simp only [eval, hitRun]; exact ⟨trivial, trivial, by rw [base.1, base.2]⟩
    | read id ext k =>
      simp only [hitRun, Bool.and_eq_true] at hh
      obtain ⟨hb, hh⟩ := hh
      have hb' : recordsRead env'.hasReloader = true := by rw [hL.hasReloader]; exact hb
      rw [hb] at hh
      simp only [eval, hb] at hag
      simp only [eval, hitRun, hb, hb', Bool.true_and]
      have h1 := St.record_recs hs (.file id ext)
      have h2 := St.record_recs ht (.file id ext)
      have hfr := hitRun_frame env f _ _ _ _ (show St.recs { s.record true (.file id ext) with
        ios := (s.record true (.file id ext)).ios + 1 } = _ from h1) hh
      have hmem := hfr.2.1 (.file id ext) ((mem_depInsert _ _ _).mpr (Or.inl rfl))
      have hr : env'.read (t.record true (.file id ext)).ios id ext =
          env.read (s.record true (.file id ext)).ios id ext := by
        rw [hS'.1 _ 0, hS.1 _ 0]; exact hag _ hmem
      rw [hr]
      exact ih _ _ _ _ _ _ (show St.recs { s.record true (.file id ext) with
          ios := (s.record true (.file id ext)).ios + 1 } = _ from h1)
        (show St.recs { t.record true (.file id ext) with
          ios := (t.record true (.file id ext)).ios + 1 } = _ from h2) hh
        (fun d hd => (hag d hd).congr (fun k => St.lookup_congr (St.record_map s true _) k)
          (fun k => St.lookup_congr (St.record_map t true _) k))
    | readDir id k =>
      simp only [hitRun, Bool.and_eq_true] at hh
      obtain ⟨hb, hh⟩ := hh
      have hb' : recordsRead env'.hasReloader = true := by rw [hL.hasReloader]; exact hb
      rw [hb] at hh
      simp only [eval, hb] at hag
      simp only [eval, hitRun, hb, hb', Bool.true_and]
      have h1 := St.record_recs hs (.dir id)
      have h2 := St.record_recs ht (.dir id)
      have hfr := hitRun_frame env f _ _ _ _ (show St.recs { s.record true (.dir id) with
        ios := (s.record true (.dir id)).ios + 1 } = _ from h1) hh
      have hmem := hfr.2.1 (.dir id) ((mem_depInsert _ _ _).mpr (Or.inl rfl))
      have hr : env'.readDir (t.record true (.dir id)).ios id =
          env.readDir (s.record true (.dir id)).ios id := by
        rw [hS'.2.1 _ 0, hS.2.1 _ 0]; exact hag _ hmem
      rw [hr]
      exact ih _ _ _ _ _ _ (show St.recs { s.record true (.dir id) with
          ios := (s.record true (.dir id)).ios + 1 } = _ from h1)
        (show St.recs { t.record true (.dir id) with
          ios := (t.record true (.dir id)).ios + 1 } = _ from h2) hh
        (fun d hd => (hag d hd).congr (fun k => St.lookup_congr (St.record_map s true _) k)
          (fun k => St.lookup_congr (St.record_map t true _) k))
    | getCached key k =>
      simp only [hitRun, Bool.and_eq_true] at hh
      obtain ⟨hb, hh⟩ := hh
      have hb' : recordsAsset (env'.types key.ty).hot env'.hasReloader = true := by
        rw [hL.types, hL.hasReloader]; exact hb
      rw [hb] at hh
      simp only [St.record_lookup] at hh
      simp only [eval, hb, St.record_lookup] at hag
      simp only [eval, hitRun, hb, hb', Bool.true_and, St.record_lookup]
      have h1 := St.record_recs hs (.asset key)
      have h2 := St.record_recs ht (.asset key)
      have hfr := hitRun_frame env f _ _ _ _ h1 hh
      have hmem := hfr.2.1 (.asset key) ((mem_depInsert _ _ _).mpr (Or.inl rfl))
      have hr : (t.lookup key).map (·.val) = (s.lookup key).map (·.val) := hag _ hmem
      rw [hr]
      exact ih _ _ _ _ _ _ h1 h2 hh
        (fun d hd => (hag d hd).congr (fun k => St.record_lookup s true _ k) (fun k => St.record_lookup t true _ k))
    | tick k =>
      simp only [hitRun] at hh
      simp only [eval] at hag
      simp only [eval, hitRun]
      rw [hL.fault t.loads s.loads]
      exact ih _ { s with loads := s.loads + 1 } { t with loads := t.loads + 1 } ds rs rt hs ht hh
        (fun d hd => (hag d hd).congr (fun _ => rfl) (fun _ => rfl))
    | load key k =>
      simp only [hitRun, Bool.and_eq_true] at hh
      obtain ⟨hb, hh⟩ := hh
      have hb' : recordsAsset (env'.types key.ty).hot env'.hasReloader = true := by
        rw [hL.types, hL.hasReloader]; exact hb
      rw [hb] at hh
      simp only [St.record_lookup] at hh
      cases hl : s.lookup key with
      | none => rw [hl] at hh; cases hh
      | some c =>
        rw [hl] at hh
        simp only [] at hh
        simp only [eval, hb, St.record_lookup, hl] at hag
        have h1 := St.record_recs hs (.asset key)
        have h2 := St.record_recs ht (.asset key)
        have hfr := hitRun_frame env f _ _ _ _ h1 hh
        have hmem := hfr.2.1 (.asset key) ((mem_depInsert _ _ _).mpr (Or.inl rfl))
        have hr : (t.lookup key).map (·.val) = (s.lookup key).map (·.val) := hag _ hmem
        cases hlt : t.lookup key with
        | none => rw [hl, hlt] at hr; cases hr
        | some c' =>
          have hv : c'.val = c.val := by rw [hl, hlt] at hr; simpa using hr
          simp only [eval, hitRun, hb, hb', Bool.true_and, St.record_lookup, hl, hlt, hv]
          exact ih _ _ _ _ _ _ h1 h2 hh
            (fun d hd => (hag d hd).congr (fun k => St.record_lookup s true _ k) (fun k => St.record_lookup t true _ k))
    | noRecord body k => simp only [hitRun] at hh; cases hh
    | onThread body k => simp only [hitRun] at hh; cases hh
    | tryCatch body k => simp only [hitRun] at hh; cases hh
    | loadOwned key k => simp only [hitRun] at hh; cases hh
    | getOrInsert key v k => simp only [hitRun] at hh; cases hh

/-! ## The evaluation of a reload -/

/-- the state `reload_untyped` starts the loader from: the reloader thread's own stack with one
fresh record -/
def St.fresh (s : St) : St := { s with recs := [some []] }

@[simp] theorem St.fresh_lookup (s : St) (k : Key) : s.fresh.lookup k = s.lookup k := rfl
@[simp] theorem St.fresh_map (s : St) : s.fresh.map = s.map := rfl

theorem reloadEval_eq (env : Env) (fuel : Nat) (s : St) (key : Key) :
    reloadEval env fuel s key =
      ({ (eval env fuel s.fresh ((env.types key.ty).prog key.id)).1 with recs := [] },
       (eval env fuel s.fresh ((env.types key.ty).prog key.id)).2,
       (eval env fuel s.fresh ((env.types key.ty).prog key.id)).1.top) := rfl

/-- the outcome of re-evaluating the loader of `key` against the current cache -/
def reloadOut (env : Env) (fuel : Nat) (s : St) (key : Key) : Outcome := (reloadEval env fuel s key).2.1
/-- what that evaluation records -/
def reloadDeps (env : Env) (fuel : Nat) (s : St) (key : Key) : List Dep := (reloadEval env fuel s key).2.2
/-- that evaluation is a tracked hit-only run -/
def reloadHit (env : Env) (fuel : Nat) (s : St) (key : Key) : Bool :=
  hitRun env fuel s.fresh ((env.types key.ty).prog key.id)

theorem reloadHit_map {env : Env} {fuel : Nat} {s : St} {key : Key} (h : reloadHit env fuel s key = true) :
    (reloadEval env fuel s key).1.map = s.map :=
  (hitRun_frame env fuel _ s.fresh [] [] rfl h).2.2

theorem reloadHit_lookup {env : Env} {fuel : Nat} {s : St} {key : Key} (h : reloadHit env fuel s key = true) (k : Key) :
    (reloadEval env fuel s key).1.lookup k = s.lookup k :=
  St.lookup_congr (reloadHit_map h) k

theorem reloadHit_out {env : Env} {fuel : Nat} {s : St} {key : Key} (h : reloadHit env fuel s key = true) :
    (reloadEval env fuel s key).1.out = s.out :=
  hitRun_out env fuel _ s.fresh h

/-- **Read-set determinacy of a reload.** If re-evaluating `key` under `(env, s)` is a tracked
hit-only run and `(env', t)` agrees with `(env, s)` on everything it records, then re-evaluating
`key` under `(env', t)` is a tracked hit-only run with the same outcome and the same record. -/
theorem reloadEval_readset {env env' : Env} (hS : env.Steady) (hS' : env'.Steady) (hL : SameLoaders env env')
    (fuel : Nat) (s t : St) (key : Key) (hh : reloadHit env fuel s key = true)
    (hag : ∀ d ∈ reloadDeps env fuel s key, AgreeOn env env' s t d) :
    reloadHit env' fuel t key = true ∧ reloadOut env' fuel t key = reloadOut env fuel s key ∧
    reloadDeps env' fuel t key = reloadDeps env fuel s key := by
  have h := eval_readset hS hS' hL fuel ((env.types key.ty).prog key.id) s.fresh t.fresh [] [] [] rfl rfl hh
    (fun d hd => (hag d hd).congr (fun _ => rfl) (fun _ => rfl))
  unfold reloadHit reloadOut reloadDeps
  rw [reloadEval_eq, reloadEval_eq, hL.types]
  exact h

/-! ## Plain loaders under an all-hot environment -/

/-- the top frame of `t` is the top frame of `s` with possibly more records; the stack below is the same -/
def TopMono (s t : St) : Prop :=
  ∀ ds rs, s.recs = some ds :: rs → ∃ ds', t.recs = some ds' :: rs ∧ ∀ d, d ∈ ds → d ∈ ds'

theorem TopMono.of_recs_eq {s t : St} (h : t.recs = s.recs) : TopMono s t :=
  fun ds _ hs => ⟨ds, h.trans hs, fun _ hd => hd⟩

theorem TopMono.refl (s : St) : TopMono s s := TopMono.of_recs_eq rfl

theorem TopMono.trans {a b c : St} (h1 : TopMono a b) (h2 : TopMono b c) : TopMono a c := by
  intro ds rs hs
  obtain ⟨ds1, e1, m1⟩ := h1 ds rs hs
  obtain ⟨ds2, e2, m2⟩ := h2 ds1 rs e1
  exact ⟨ds2, e2, fun d hd => m2 d (m1 d hd)⟩

theorem topMono_record (s : St) (on : Bool) (d : Dep) : TopMono s (s.record on d) := by
  cases on with
  | false => exact TopMono.of_recs_eq rfl
  | true =>
    intro ds rs hs
    exact ⟨depInsert d ds, St.record_recs hs d, fun x hx => (mem_depInsert _ _ _).mpr (Or.inr hx)⟩

theorem topMono_recordAll (s : St) (on : Bool) (l : List Dep) : TopMono s (s.recordAll on l) := by
  unfold St.recordAll
  induction l generalizing s with
  | nil => exact TopMono.refl s
  | cons d l ih => simp only [List.foldl]; exact (topMono_record s on d).trans (ih _)

theorem topMono_withFrame (push : Bool) (frame) (body : St → St × Outcome) (s : St)
    (hb : ∀ s, TopMono s (body s).1) : TopMono s (withFrame push frame body s).1 := by
  cases push with
  | true => exact TopMono.of_recs_eq (withFrame_restores frame body s)
  | false => simp only [withFrame, Bool.false_eq_true, if_false]; exact hb s

theorem topMono_loadAndRecord (env : Env) (body : St → St × Outcome) (key : Key) (s : St)
    (hb : ∀ s, TopMono s (body s).1) : TopMono s (loadAndRecord env body key s).1 := by
  unfold loadAndRecord
  have hf := topMono_withFrame (recordsAsset (env.types key.ty).hot env.hasReloader) (some []) body s hb
  generalize withFrame _ (some []) body s = r at hf ⊢
  obtain ⟨s1, o, d⟩ := r
  cases o with
  | ok v =>
    simp only []
    split
    · exact hf.trans (TopMono.of_recs_eq rfl)
    · exact hf
  | err e => exact hf.trans (topMono_recordAll _ _ _)
  | panicked => exact hf
  | diverged => exact hf

theorem topMono_cont (o : Outcome) (s : St) (k : Except LErr Val → St → St × Outcome) (wrap)
    (hk : ∀ r s, TopMono s (k r s).1) : TopMono s (cont o s k wrap).1 := by
  unfold cont
  cases o with
  | ok v => exact hk _ _
  | err e => exact hk _ _
  | panicked => exact TopMono.refl s
  | diverged => exact TopMono.refl s

/-- Every evaluation only adds to the top recording frame. -/
theorem eval_topMono (env : Env) : ∀ f s p, TopMono s (eval env f s p).1 := by
  intro f
  induction f with
  | zero => intro s p; simp only [eval]; exact TopMono.refl s
  | succ f ih =>
    intro s p
    cases p with
    | ret v => simp only [eval]; exact TopMono.refl s
    | fail e => simp only [eval]; exact TopMono.refl s
    | panic => simp only [eval]; exact TopMono.refl s
    | read id ext k =>
      simp only [eval]
      exact (topMono_record s (recordsRead env.hasReloader) (.file id ext)).trans
        (TopMono.trans (b := { s.record (recordsRead env.hasReloader) (.file id ext) with
          ios := (s.record (recordsRead env.hasReloader) (.file id ext)).ios + 1 }) (TopMono.of_recs_eq rfl) (ih _ _))
    | readDir id k =>
      simp only [eval]
      exact (topMono_record s (recordsRead env.hasReloader) (.dir id)).trans
        (TopMono.trans (b := { s.record (recordsRead env.hasReloader) (.dir id) with
          ios := (s.record (recordsRead env.hasReloader) (.dir id)).ios + 1 }) (TopMono.of_recs_eq rfl) (ih _ _))
    | getCached key k =>
      simp only [eval]
      exact (topMono_record s _ _).trans (ih _ _)
    | getOrInsert key v k =>
      simp only [eval]
      refine (topMono_record s (recordsAsset (env.types key.ty).hot env.hasReloader) (.asset key)).trans ?_
      generalize s.record _ _ = s'
      cases hl : s'.lookup key with
      | some c => simp only []; exact TopMono.trans (b := s'.handOut key.ty) (TopMono.of_recs_eq rfl) (ih _ _)
      | none =>
        simp only []
        exact TopMono.trans (TopMono.of_recs_eq (by simp [St.own])) (ih _ _)
    | tick k =>
      simp only [eval]
      exact TopMono.trans (b := { s with loads := s.loads + 1 }) (TopMono.of_recs_eq rfl) (ih _ _)
    | tryCatch body k =>
      simp only [eval]
      have hb := ih s body
      generalize eval env f s body = r at hb ⊢
      obtain ⟨s1, o⟩ := r
      cases o with
      | ok v => exact hb.trans (ih _ _)
      | err e => exact hb.trans (ih _ _)
      | panicked => exact hb.trans (ih _ _)
      | diverged => exact hb
    | noRecord body k =>
      simp only [eval]
      have hf : TopMono s (withFrame true none (fun s => eval env f s body) s).1 :=
        topMono_withFrame _ _ _ _ (fun s => ih s body)
      generalize withFrame true none (fun s => eval env f s body) s = r at hf ⊢
      obtain ⟨s1, o, d⟩ := r
      exact hf.trans (topMono_cont o s1 _ _ (fun r s => ih s (k r)))
    | onThread body k =>
      simp only [eval]
      have hf : TopMono s (onFreshThread (fun s => eval env f s body) s).1 := TopMono.of_recs_eq rfl
      generalize onFreshThread (fun s => eval env f s body) s = r at hf ⊢
      obtain ⟨s1, o⟩ := r
      exact hf.trans (topMono_cont o s1 _ _ (fun r s => ih s (k r)))
    | loadOwned key k =>
      simp only [eval]
      refine (topMono_record s (recordsAsset (env.types key.ty).hot env.hasReloader) (.asset key)).trans ?_
      generalize s.record _ _ = s'
      have hf : TopMono s' (loadAndRecord env (fun s => eval env f s ((env.types key.ty).prog key.id)) key s').1 :=
        topMono_loadAndRecord _ _ _ _ (fun s => ih s _)
      generalize loadAndRecord env _ key s' = r at hf ⊢
      obtain ⟨s1, o⟩ := r
      cases o with
      | ok v => exact hf.trans (TopMono.trans (b := s1.handOut key.ty) (TopMono.of_recs_eq rfl) (ih _ _))
      | err e => exact hf.trans (topMono_cont _ s1 _ _ (fun r s => ih s (k r)))
      | panicked => exact hf.trans (topMono_cont _ s1 _ _ (fun r s => ih s (k r)))
      | diverged => exact hf.trans (topMono_cont _ s1 _ _ (fun r s => ih s (k r)))
    | load key k =>
      simp only [eval]
      refine (topMono_record s (recordsAsset (env.types key.ty).hot env.hasReloader) (.asset key)).trans ?_
      generalize s.record _ _ = s'
      cases hl : s'.lookup key with
      | some c => simp only []; exact ih _ _
      | none =>
        simp only []
        have hf : TopMono s' (loadAndRecord env (fun s => eval env f s ((env.types key.ty).prog key.id)) key s').1 :=
          topMono_loadAndRecord _ _ _ _ (fun s => ih s _)
        generalize loadAndRecord env _ key s' = r at hf ⊢
        obtain ⟨s1, o⟩ := r
        cases o with
        | ok v =>
          simp only []
          refine hf.trans (TopMono.trans ?_ (ih _ _))
          exact TopMono.of_recs_eq (by simp [St.own])
        | err e => exact hf.trans (topMono_cont _ s1 _ _ (fun r s => ih s (k r)))
        | panicked => exact hf.trans (topMono_cont _ s1 _ _ (fun r s => ih s (k r)))
        | diverged => exact hf.trans (topMono_cont _ s1 _ _ (fun r s => ih s (k r)))

theorem St.isSome_lookup_congr {s t : St} (h : t.map = s.map) {key : Key} (h2 : (s.lookup key).isSome = true) :
    (t.lookup key).isSome = true := by
  rw [St.lookup_congr h]; exact h2

/-- **Plain loaders.** Under an environment whose types are all hot-reloaded, the evaluation of a
`Plain` loader is a tracked hit-only run as soon as every asset it records is cached — a `.load` of
an asset that is not cached (a miss) leaves that asset in the record. -/
theorem hitRun_of_plain {env : Env} (hhot : env.Hot) : ∀ (f : Nat) (p : Prog) (s : St) (ds : List Dep) (rs),
    p.Plain → s.recs = some ds :: rs →
    (∀ key, Dep.asset key ∈ (eval env f s p).1.top → (s.lookup key).isSome = true) →
    hitRun env f s p = true := by
  have hR : recordsRead env.hasReloader = true := hhot.1
  have hA : ∀ key : Key, recordsAsset (env.types key.ty).hot env.hasReloader = true := by
    intro key; unfold recordsAsset; rw [hhot.1, hhot.2]; rfl
  intro f
  induction f with
  | zero => intro p s ds rs _ _ _; rfl
  | succ f ih =>
    intro p s ds rs hp hs hc
    cases hp with
    | ret v => rfl
    | fail e => rfl
    | panic => rfl
    | read id ext k hk =>
      simp only [eval, hR] at hc
      simp only [hitRun, hR, Bool.true_and]
      exact ih _ _ _ _ (hk _) (show St.recs { s.record true (.file id ext) with
        ios := (s.record true (.file id ext)).ios + 1 } = _ from St.record_recs hs _)
        (fun key h => St.isSome_lookup_congr (St.record_map s true _) (hc key h))
    | readDir id k hk =>
      simp only [eval, hR] at hc
      simp only [hitRun, hR, Bool.true_and]
      exact ih _ _ _ _ (hk _) (show St.recs { s.record true (.dir id) with
        ios := (s.record true (.dir id)).ios + 1 } = _ from St.record_recs hs _)
        (fun key h => St.isSome_lookup_congr (St.record_map s true _) (hc key h))
    | getCached key k hk =>
      simp only [eval, hA] at hc
      simp only [hitRun, hA, Bool.true_and]
      exact ih _ _ _ _ (hk _) (St.record_recs hs _)
        (fun key h => St.isSome_lookup_congr (St.record_map s true _) (hc key h))
    | tick k hk =>
      simp only [eval] at hc
      simp only [hitRun]
      exact ih _ { s with loads := s.loads + 1 } ds rs (hk _) hs hc
    | load key k hk =>
      simp only [hitRun, hA, Bool.true_and, St.record_lookup]
      cases hl : s.lookup key with
      | some c =>
        simp only [eval, hA, St.record_lookup, hl] at hc
        simp only []
        exact ih _ _ _ _ (hk _) (St.record_recs hs _)
          (fun key h => St.isSome_lookup_congr (St.record_map s true _) (hc key h))
      | none =>
        exfalso
        have hm := eval_topMono env (f + 1) s (.load key k) ds rs hs
        have h1 : TopMono (s.record true (.asset key)) (eval env (f + 1) s (.load key k)).1 := by
          simp only [eval, hA]
          generalize hs' : s.record true (.asset key) = s'
          have hl' : s'.lookup key = none := by rw [← hs', St.record_lookup]; exact hl
          rw [hl']
          simp only []
          have hf : TopMono s' (loadAndRecord env (fun s => eval env f s ((env.types key.ty).prog key.id)) key s').1 :=
            topMono_loadAndRecord _ _ _ _ (fun s => eval_topMono env f s _)
          generalize loadAndRecord env _ key s' = r at hf ⊢
          obtain ⟨s1, o⟩ := r
          cases o with
          | ok v =>
            simp only []
            refine hf.trans (TopMono.trans ?_ (eval_topMono env f _ _))
            exact TopMono.of_recs_eq (by simp [St.own])
          | err e => exact hf.trans (topMono_cont _ s1 _ _ (fun r s => eval_topMono env f s (k r)))
          | panicked => exact hf.trans (topMono_cont _ s1 _ _ (fun r s => eval_topMono env f s (k r)))
          | diverged => exact hf.trans (topMono_cont _ s1 _ _ (fun r s => eval_topMono env f s (k r)))
        obtain ⟨ds', e', m'⟩ := h1 _ rs (St.record_recs hs (.asset key))
        have hin : Dep.asset key ∈ (eval env (f + 1) s (.load key k)).1.top := by
          rw [St.top_of_recs e']
          exact m' _ ((mem_depInsert _ _ _).mpr (Or.inl rfl))
        have := hc key hin
        rw [hl] at this
        cases this

/-- **Read-set determinacy, for `Plain` loaders** (the formulation with a predicate on `Prog`): under
an all-hot environment, if the evaluation of a plain loader records the dependency list `D`, every
asset of `D` is cached (so every `.load` was a hit), and `(env', t)` agrees with `(env, s)` on `D`,
then the evaluation under `(env', t)` has the same outcome, records the same `D`, and both leave the
map alone. -/
theorem eval_readset_plain {env env' : Env} (hS : env.Steady) (hS' : env'.Steady) (hL : SameLoaders env env')
    (hhot : env.Hot) (f : Nat) (p : Prog) (hp : p.Plain) (s t : St) (ds : List Dep) (rs rt : List (Option (List Dep)))
    (hs : s.recs = some ds :: rs) (ht : t.recs = some ds :: rt)
    (hcached : ∀ key, Dep.asset key ∈ (eval env f s p).1.top → (s.lookup key).isSome = true)
    (hag : ∀ d ∈ (eval env f s p).1.top, AgreeOn env env' s t d) :
    (eval env' f t p).2 = (eval env f s p).2 ∧ (eval env' f t p).1.top = (eval env f s p).1.top ∧
    (eval env f s p).1.map = s.map ∧ (eval env' f t p).1.map = t.map := by
  have hh := hitRun_of_plain hhot f p s ds rs hp hs hcached
  obtain ⟨h1, h2, h3⟩ := eval_readset hS hS' hL f p s t ds rs rt hs ht hh hag
  exact ⟨h2, h3, (hitRun_frame env f p s ds rs hs hh).2.2, (hitRun_frame env' f p t ds rt ht h1).2.2⟩

/-! ## Why "hit-only" has to mean "no miss", not just "nothing inserted"

With "the run inserted nothing" (`(eval env f s p).1.map = s.map`) in place of `hitRun`, and `Plain`
required of the loader `p` only, read-set determinacy is **false**: a `.load` of an asset that is not
cached evaluates that asset's loader — any program of the type table — and when it fails nothing is
inserted, but its error (which `p` may return) can depend on reads it made under `no_record`. -/

namespace ReadSetCounterexample

/-- the nested loader: fails either way; which error depends on an unrecorded read of `y.s` -/
def nested : Prog :=
  .noRecord (.read "y" "s" fun r =>
    match r with
    | .ok _ => .fail (.custom "a")
    | .error _ => .fail (.custom "b")) Prog.ret'

/-- the plain loader: load `x`, return what that gives -/
def parent : Prog := .load ⟨1, "x"⟩ Prog.ret'

def cenv (y : Bool) : Env :=
  { read := fun _ _ _ => if y then .ok [] else .error ⟨true, "NotFound", "y"⟩
    readDir := fun _ _ => .ok []
    types := fun ty => { hot := true, prog := fun _ => if ty = 1 then nested else parent }
    hasReloader := true }

def s0 : St := { recs := [some []] }

theorem parent_plain : parent.Plain :=
  Prog.Plain.load _ _ (fun r => by cases r <;> constructor)

/-- `parent` is plain, the environments are steady, all-hot and run the same loaders, the run
under `cenv true` inserts nothing and records only `.asset x`, on which the two sides agree (absent
in both) — and the outcomes differ. -/
theorem readset_false_with_map_unchanged :
    parent.Plain ∧ (cenv true).Hot ∧ (cenv true).Steady ∧ (cenv false).Steady ∧ SameLoaders (cenv true) (cenv false) ∧
    (eval (cenv true) 10 s0 parent).1.map = s0.map ∧
    (∀ d ∈ (eval (cenv true) 10 s0 parent).1.top, AgreeOn (cenv true) (cenv false) s0 s0 d) ∧
    (eval (cenv false) 10 s0 parent).2 ≠ (eval (cenv true) 10 s0 parent).2 ∧
    hitRun (cenv true) 10 s0 parent = false := by
  refine ⟨parent_plain, ⟨rfl, fun _ => rfl⟩, ⟨fun _ _ _ _ => rfl, fun _ _ _ => rfl, fun _ _ => rfl⟩,
    ⟨fun _ _ _ _ => rfl, fun _ _ _ => rfl, fun _ _ => rfl⟩, ⟨rfl, rfl, fun _ _ => rfl⟩, by decide, ?_, by decide, by decide⟩
  intro d hd
  have htop : (eval (cenv true) 10 s0 parent).1.top = [Dep.asset ⟨1, "x"⟩] := by decide
  rw [htop] at hd
  rw [List.mem_singleton.mp hd]
  rfl

end ReadSetCounterexample

end AmVerif.Model
