import AmVerif.Gen.TabFacts
import AmVerif.Gen.Skel
import AmVerif.Lemmas.Reload
/-!
# C10 — what is declared non-reloadable is never rewritten

A cache entry is *static* (`Cell.dyn = false`: `EntryStorage::new_static`, no lock, no reload id)
or *dynamic*. The theorems say (1) which entries are static — everything `get_or_insert` creates,
everything of a type that opts out, everything in a cache without reloader — by the regenerated
conditions of `CacheEntry::new` (`Gen.Tables`), and (2) that no step of the reloader (`reload_untyped`,
a whole update pass, `handle_events`, `hot_reload`, `enhance_hot_reloading`) ever changes a static
entry: same value, same reload id (`NEVER`), same global flag, same address. Hence over every history
of API operations, notifications and reloader passes, with arbitrary edits of the source in between,
a static entry stays stored and unchanged until it is removed with `remove` / `take` / `clear`
(all `&mut self`) — in particular when the same key had been loaded (and registered with the
reloader), removed or cleared before and was re-created by `get_or_insert`.

Loaders may call `get_or_insert` themselves (`Prog.getOrInsert`): a cell created during an evaluation
was created by a load (dynamic iff hot type and reloader) or by a loader's `get_or_insert` (static) —
`C10_loaded_dynamic_iff`; for loaders that never call it the sharper former statement holds
(`C10_loaded_dynamic_iff_no_insert`).

All theorems quantify over every environment (source, fault plan, type table, constructor), every
fuel, every cache and reloader state (`St`, `RSt`), every loader program.
-/
namespace AmVerif.Props.C10
open AmVerif.Gen AmVerif.Model

/-! ## Concrete instances used by the `example`s below -/

/-- a cache WITH a reloader over a source where every type is hot-reloaded and loads to `n` -/
def exEnv (n : Int) : Env :=
  { read := fun _ _ _ => .ok [], readDir := fun _ _ => .ok [],
    types := fun _ => { hot := true, prog := fun _ => .ret (.int n) }, hasReloader := true }

/-- the same source, type 1 opts out of hot-reloading -/
def exEnvOpt (n : Int) : Env :=
  { exEnv n with types := fun ty => { hot := ty != 1, prog := fun _ => .ret (.int n) } }

/-- the same source in a cache without reloader -/
def exEnvNo (n : Int) : Env := { exEnv n with hasReloader := false }

def exKey : Key := ⟨0, "a"⟩
def exKeyOpt : Key := ⟨1, "a"⟩

/-- load (dynamic, registered with the reloader), remove, re-create with `get_or_insert`, edit the
source (`exEnv 2`), notify, reload: the former witness of F-C10 -/
def exHistory : List (Env × HOp) :=
  [(exEnv 1, .api (.load exKey)), (exEnv 1, .hotReload), (exEnv 1, .api (.remove exKey)),
   (exEnv 1, .api (.getOrInsert exKey (.int 7))),
   (exEnv 2, .notify [.asset exKey]), (exEnv 2, .hotReload)]

/-- the cache after `load; hot_reload; remove; get_or_insert` -/
def exInserted : St × RSt := runH 5 (exHistory.take 4) ({}, {})

/-- the load created a dynamic entry and the reloader knows it (and still does after the removal) -/
example : ((runH 5 (exHistory.take 2) ({}, {})).1.lookup exKey).map (·.dyn) = some true ∧
    ((runH 5 (exHistory.take 2) ({}, {})).2.graph.get (.asset exKey)).map (·.typed) = some true ∧
    (exInserted.2.graph.get (.asset exKey)).map (·.typed) = some true := by
  decide

/-- a dynamic entry IS rewritten by the same notification (the histories are not trivially inert) -/
example : ((runH 5 [(exEnv 1, .api (.load exKey)), (exEnv 1, .hotReload), (exEnv 2, .notify [.asset exKey]),
    (exEnv 2, .hotReload)] ({}, {})).1.lookup exKey).map (fun c => (c.val, c.rid)) = some (.int 2, 1) := by
  decide

/-! ## The regenerated conditions this property rests on (`Gen/Tables.lean`, from the source) -/

/-- `add_any` (the `get_or_insert` path) never creates a dynamic entry. -/
theorem insertedEntryDynamic_cfg : ∀ hot r, insertedEntryDynamic hot r = false := by decide

/-- an entry created by a load is dynamic iff the type is hot-reloaded and the cache has a reloader -/
theorem loadedEntryDynamic_cfg : ∀ hot r, loadedEntryDynamic hot r = (hot && r) := by decide

/-- `reload_untyped` returns before loading anything when the entry is static -/
theorem reloadSkipsStatic_cfg : reloadSkipsStatic = true := by decide

example : insertedEntryDynamic true true = false ∧ loadedEntryDynamic true true = true ∧
    loadedEntryDynamic false true = false ∧ loadedEntryDynamic true false = false := by decide

/-! ## (a) `get_or_insert` creates static entries -/

/-- The cell `get_or_insert` creates for an absent key is static with reload id `NEVER`, whatever
the type and whether or not the cache has a reloader. -/
theorem C10_get_or_insert_static (env : Env) (fuel : Nat) (s : St) (key : Key) (v : Val)
    (h : s.lookup key = none) :
    (step env fuel s (.getOrInsert key v)).1.lookup key =
        some { val := v, dyn := false, rid := ReloadId_NEVER, flag := false, addr := s.next } ∧
    (step env fuel s (.getOrInsert key v)).2 = .handle s.next v := by
  have hl := St.insertKeepFirst_lookup s key (insertedCell env key v s.next)
  have hc : (s.insertKeepFirst key (insertedCell env key v s.next)).2 = insertedCell env key v s.next := by
    rw [hl.2, h]; rfl
  have hi : insertedCell env key v s.next =
      { val := v, dyn := false, rid := ReloadId_NEVER, flag := false, addr := s.next } := by
    simp only [insertedCell, insertedEntryDynamic_cfg]
  simp only [step, h]
  constructor
  · rw [← hi, ← hc, ← hl.1]; exact St.lookup_congr rfl key
  · show Res.handle (s.insertKeepFirst key (insertedCell env key v s.next)).2.addr
        (s.insertKeepFirst key (insertedCell env key v s.next)).2.val = _
    rw [hc, hi]

/-- hot type, cache with reloader: still static -/
example : (step (exEnv 1) 5 {} (.getOrInsert exKey (.int 7))).1.lookup exKey = some ⟨.int 7, false, 0, false, 0⟩ :=
  (C10_get_or_insert_static (exEnv 1) 5 {} exKey (.int 7) rfl).1

/-- every cell `get_or_insert` can create satisfies: static, `NEVER`, flag clear -/
theorem insertedCell_static (env : Env) (key : Key) (v : Val) (addr : Nat) :
    (insertedCell env key v addr).dyn = false ∧ (insertedCell env key v addr).rid = ReloadId_NEVER ∧
    (insertedCell env key v addr).flag = false :=
  ⟨insertedEntryDynamic_cfg (env.types key.ty).hot env.hasReloader, rfl, rfl⟩

example : (insertedCell (exEnv 1) exKey (.int 7) 3).dyn = false := (insertedCell_static (exEnv 1) exKey (.int 7) 3).1

/-! ## (b) which loaded entries are dynamic -/

/-- what is known of a cell created under `env` for key `k` -/
def FreshCell (env : Env) (k : Key) (c : Cell) : Prop :=
  (c.dyn = true ↔ ((env.types k.ty).hot = true ∧ env.hasReloader = true)) ∧
  c.rid = ReloadId_NEVER ∧ c.flag = false

/-- what is known of a cell created by `get_or_insert` (by the API operation or by a loader) -/
def InsertedCell (c : Cell) : Prop := c.dyn = false ∧ c.rid = ReloadId_NEVER ∧ c.flag = false

/-- what is known of a cell created under `env` for key `k` during an evaluation: it was created by a
load (`FreshCell`) or handed to `get_or_insert` by a loader (`InsertedCell`) -/
def CreatedCell (env : Env) (k : Key) (c : Cell) : Prop := FreshCell env k c ∨ InsertedCell c

theorem newCells_created (env : Env) : NewCellsSat env (CreatedCell env) := by
  refine ⟨?_, fun key v addr => Or.inr (insertedCell_static env key v addr)⟩
  intro key v addr
  refine Or.inl ⟨?_, rfl, rfl⟩
  simp only [newCell, loadedEntryDynamic_cfg, Bool.and_eq_true]

/-- in either case: dynamic only if the type is hot-reloaded and the cache has a reloader; reload id
`NEVER`; flag clear -/
theorem CreatedCell.weak {env : Env} {k : Key} {c : Cell} (h : CreatedCell env k c) :
    (c.dyn = true → ((env.types k.ty).hot = true ∧ env.hasReloader = true)) ∧ c.rid = ReloadId_NEVER ∧ c.flag = false := by
  rcases h with h | h
  · exact ⟨h.1.mp, h.2.1, h.2.2⟩
  · exact ⟨fun hd => (by rw [h.1] at hd; cases hd), h.2.1, h.2.2⟩

example : (newCell (exEnv 1) 0 (.int 1) 0).dyn = true ∧ (newCell (exEnvOpt 1) 1 (.int 1) 0).dyn = false ∧
    (newCell (exEnvNo 1) 0 (.int 1) 0).dyn = false := by decide

/-- A cell created at any depth of any evaluation of any loader was created by a load — then it is
dynamic iff its type is hot-reloaded AND the cache has a reloader — or by a loader's `get_or_insert` —
then it is static; either way it starts with reload id `NEVER` and a clear flag.
(Before loaders could call `get_or_insert` the conclusion was `FreshCell env k c`; that is false now:
`getOrInsert k v` run as a loader program under a hot type in a cache with reloader creates a static
cell, see the `example` below.) -/
theorem C10_loaded_dynamic_iff (env : Env) (fuel : Nat) (s : St) (p : Prog) (k : Key) (c : Cell)
    (hnew : s.lookup k = none) (h : (eval env fuel s p).1.lookup k = some c) : CreatedCell env k c := by
  rcases eval_added env (CreatedCell env) (newCells_created env) fuel s p k c h with h' | h'
  · rw [hnew] at h'; cases h'
  · exact h'

/-- a nested load inside an evaluation creates the entry -/
example : CreatedCell (exEnv 1) exKey ⟨.int 1, true, 0, false, 0⟩ :=
  C10_loaded_dynamic_iff (exEnv 1) 5 {} (.load exKey Prog.ret') exKey _ rfl (by decide)

/-- the old conclusion is false: a loader's `get_or_insert` creates a static cell of a hot type in a
cache with reloader -/
example : (eval (exEnv 1) 5 {} (.getOrInsert exKey (.int 7) .ret)).1.lookup exKey = some ⟨.int 7, false, 0, false, 0⟩ ∧
    ¬ FreshCell (exEnv 1) exKey ⟨.int 7, false, 0, false, 0⟩ := by
  refine ⟨by decide, ?_⟩
  intro h
  have := h.1.mpr ⟨rfl, rfl⟩
  cases this

/-- **The former statement, for loaders that do not call `get_or_insert`** (neither the program nor any
loader of the type table — every loader written before `AnyCache::get_or_insert` is used re-entrantly):
a cell created at any depth of the evaluation is dynamic iff its type is hot-reloaded AND the cache has
a reloader; reload id `NEVER`, flag clear. -/
theorem C10_loaded_dynamic_iff_no_insert (env : Env) (henv : env.NoInsert) (fuel : Nat) (s : St) (p : Prog)
    (hp : p.NoInsert) (k : Key) (c : Cell)
    (hnew : s.lookup k = none) (h : (eval env fuel s p).1.lookup k = some c) : FreshCell env k c := by
  have hP : ∀ key v addr, FreshCell env key (newCell env key.ty v addr) := by
    intro key v addr
    refine ⟨?_, rfl, rfl⟩
    simp only [newCell, loadedEntryDynamic_cfg, Bool.and_eq_true]
  rcases eval_added_noInsert env henv (FreshCell env) hP fuel s p hp k c h with h' | h'
  · rw [hnew] at h'; cases h'
  · exact h'

theorem exEnv_noInsert (n : Int) : (exEnv n).NoInsert := fun _ _ => Prog.NoInsert.ret _

example : FreshCell (exEnv 1) exKey ⟨.int 1, true, 0, false, 0⟩ :=
  C10_loaded_dynamic_iff_no_insert (exEnv 1) (exEnv_noInsert 1) 5 {} (.load exKey Prog.ret')
    (Prog.NoInsert.load _ _ Prog.NoInsert.ret') exKey _ rfl (by decide)

/-- …and for the API operation `load` under such a type table -/
theorem C10_load_dynamic_iff_no_insert (env : Env) (henv : env.NoInsert) (fuel : Nat) (s : St) (key k : Key) (c : Cell)
    (hnew : s.lookup k = none) (h : (step env fuel s (.load key)).1.lookup k = some c) : FreshCell env k c := by
  rw [step_load_fst] at h
  have hP : ∀ key v addr, FreshCell env key (newCell env key.ty v addr) := by
    intro key v addr
    refine ⟨?_, rfl, rfl⟩
    simp only [newCell, loadedEntryDynamic_cfg, Bool.and_eq_true]
  rcases (Added.mapRel₀ hP).evalTop_rel henv fuel s _ (Prog.NoInsert.load _ _ Prog.NoInsert.ret') k c h with h' | h'
  · rw [hnew] at h'; cases h'
  · exact h'

example : FreshCell (exEnvOpt 1) exKeyOpt ⟨.int 1, false, 0, false, 0⟩ :=
  C10_load_dynamic_iff_no_insert (exEnvOpt 1) (fun _ _ => Prog.NoInsert.ret _) 5 {} exKeyOpt exKeyOpt _ rfl (by decide)

/-- the same for the API operation `load` -/
theorem C10_load_dynamic_iff (env : Env) (fuel : Nat) (s : St) (key k : Key) (c : Cell)
    (hnew : s.lookup k = none) (h : (step env fuel s (.load key)).1.lookup k = some c) : CreatedCell env k c := by
  rw [step_load_fst] at h
  rcases (Added.mapRel (newCells_created env)).evalTop_rel fuel s _ k c h with h' | h'
  · rw [hnew] at h'; cases h'
  · exact h'

/-- hot type with reloader: dynamic; opted-out type, or no reloader: static -/
example : ((step (exEnv 1) 5 {} (.load exKey)).1.lookup exKey).map (·.dyn) = some true ∧
    ((step (exEnvOpt 1) 5 {} (.load exKeyOpt)).1.lookup exKeyOpt).map (·.dyn) = some false ∧
    ((step (exEnvNo 1) 5 {} (.load exKey)).1.lookup exKey).map (·.dyn) = some false := by decide
example : CreatedCell (exEnvOpt 1) exKeyOpt ⟨.int 1, false, 0, false, 0⟩ :=
  C10_load_dynamic_iff (exEnvOpt 1) 5 {} exKeyOpt exKeyOpt _ rfl (by decide)

/-- `AllStaticWhen`: in a cache without reloader (`without_hot_reloading`, `LocalAssetCache`, a source
that does not support hot-reloading) every cell that any evaluation adds is static. -/
def AllStaticWhen (env : Env) : Prop :=
  env.hasReloader = false → ∀ fuel s p, Added (fun _ c => c.dyn = false) s (eval env fuel s p).1

theorem C10_all_static_when (env : Env) : AllStaticWhen env := by
  intro hr fuel s p
  refine eval_added env _ ⟨?_, fun key v addr => (insertedCell_static env key v addr).1⟩ fuel s p
  intro key v addr
  simp only [newCell, loadedEntryDynamic_cfg, hr, Bool.and_false]

example : (exEnvNo 1).hasReloader = false ∧
    ((eval (exEnvNo 1) 5 {} (.load exKey Prog.ret')).1.lookup exKey).map (·.dyn) = some false := by decide

/-- every cell of a type that opts out of hot-reloading is created static, in every cache -/
theorem C10_opted_out_static (env : Env) (fuel : Nat) (s : St) (p : Prog) :
    Added (fun k c => (env.types k.ty).hot = false → c.dyn = false) s (eval env fuel s p).1 := by
  refine eval_added env _ ⟨?_, fun key v addr _ => (insertedCell_static env key v addr).1⟩ fuel s p
  intro key v addr hh
  simp only [newCell, loadedEntryDynamic_cfg, hh, Bool.false_and]

example : ((exEnvOpt 1).types exKeyOpt.ty).hot = false ∧
    ((eval (exEnvOpt 1) 5 {} (.load exKeyOpt Prog.ret')).1.lookup exKeyOpt).map (·.dyn) = some false := by decide

/-! ## (c) `reload_untyped` does not touch a static entry -/

/-- `reload_untyped` on a key whose entry is static does nothing at all (no read of the source, no
nested load, no write) and reports "nothing reloaded". -/
theorem C10_static_never_written (env : Env) (fuel : Nat) (s : St) (key : Key) (c : Cell)
    (hc : s.lookup key = some c) (hs : c.dyn = false) : reloadUntyped env fuel s key = (s, .done none) := by
  unfold reloadUntyped
  simp only [hc, reloadSkipsStatic_cfg, hs, Bool.not_false, Bool.and_self, if_true]

/-- the reloader still has a typed node for the key (it was loaded before), the source changed: nothing -/
example : reloadUntyped (exEnv 2) 5 exInserted.1 exKey = (exInserted.1, .done none) :=
  C10_static_never_written (exEnv 2) 5 exInserted.1 exKey ⟨.int 7, false, 0, false, 1⟩ (by decide) rfl

/-- Even independently of that early return, a reload never writes to a static entry and never to
another key's entry: the only cell a `reload_untyped` may change is the dynamic cell of its own key. -/
theorem C10_reload_writes_only_dynamic (env : Env) (fuel : Nat) (s : St) (key k : Key) (c : Cell)
    (hc : s.lookup k = some c) (hs : c.dyn = false ∨ k ≠ key) :
    (reloadUntyped env fuel s key).1.lookup k = some c := by
  rcases hs with hs | hk
  · obtain ⟨c', h1, e⟩ := reloadUntyped_ev env fuel s key k c hc
    rw [h1, e.static hs]
  · exact reloadUntyped_other env fuel s key k c hk hc

example : (reloadUntyped (exEnv 2) 5 exInserted.1 exKeyOpt).1.lookup exKey = some ⟨.int 7, false, 0, false, 1⟩ :=
  C10_reload_writes_only_dynamic (exEnv 2) 5 exInserted.1 exKeyOpt exKey _ (by decide) (Or.inl rfl)

/-! ## (d) no reloader pass changes a static entry -/

theorem static_of_ev {s t : St} (h : s.Ev t) (k : Key) (c : Cell) (hc : s.lookup k = some c) (hs : c.dyn = false) :
    t.lookup k = some c := by
  obtain ⟨c', h1, e⟩ := h k c hc
  rw [h1, e.static hs]

example : exInserted.1.lookup exKey = some ⟨.int 7, false, 0, false, 1⟩ :=
  static_of_ev (St.Ev.refl _) exKey _ (by decide) rfl

/-- For every environment, fuel, cache and reloader state: a static cell stored under `k` is stored
unchanged (same value, reload id, flag, address) after `reloadAll` over any key list, `runUpdate`,
`handleEvents` for any events, `hotReload` and `enhance`. -/
theorem C10_static_preserved_pass (env : Env) (fuel : Nat) (s : St) (r : RSt) (k : Key) (c : Cell)
    (hc : s.lookup k = some c) (hs : c.dyn = false) :
    (∀ keys, (reloadAll env fuel keys (s, r)).1.lookup k = some c) ∧
    (runUpdate env fuel s r).1.lookup k = some c ∧
    (∀ evs, (handleEvents env fuel s r evs).1.lookup k = some c) ∧
    (hotReload env fuel s r).1.lookup k = some c ∧
    (enhance env fuel s r).1.lookup k = some c :=
  ⟨fun keys => static_of_ev (reloadAll_ev env fuel keys s r) k c hc hs,
   static_of_ev (runUpdate_ev env fuel s r) k c hc hs,
   fun evs => static_of_ev (handleEvents_ev env fuel s r evs) k c hc hs,
   static_of_ev (hotReload_ev env fuel s r) k c hc hs,
   static_of_ev (enhance_ev env fuel s r) k c hc hs⟩

/-- the stale graph node makes the pass call `reload_untyped` for the key — and nothing happens to it -/
example : (hotReload (exEnv 2) 5 exInserted.1 { exInserted.2 with toReload := [.asset exKey] }).1.lookup exKey =
    some ⟨.int 7, false, 0, false, 1⟩ :=
  (C10_static_preserved_pass (exEnv 2) 5 exInserted.1 _ exKey _ (by decide) rfl).2.2.2.1
example : topo exInserted.2.graph 5 [.asset exKey] = some [exKey] := by decide

/-- A pass over a cache that holds only static entries does nothing to the cache at all. -/
theorem C10_all_static_pass_noop (env : Env) (fuel : Nat) (keys : List Key) (s : St) (r : RSt)
    (hs : s.All (fun _ c => c.dyn = false)) : (reloadAll env fuel keys (s, r)).1 = s := by
  refine reloadAll_ind env fuel (fun _ s t => s.All (fun _ c => c.dyn = false) → t = s) (fun _ _ => rfl) ?_
    keys s r hs
  intro k ks s s1 s2 h1 h2 hs
  have : s1 = s := by
    rcases h1 with rfl | rfl
    · rfl
    · cases hc : s.lookup k with
      | none => rw [reloadUntyped_absent env fuel s k hc]
      | some c => rw [C10_static_never_written env fuel s k c hc (hs k c hc)]
  subst this
  exact h2 hs

example : (reloadAll (exEnv 2) 5 [exKey, exKeyOpt] ((step (exEnvNo 1) 5 {} (.load exKey)).1, {})).1 =
    (step (exEnvNo 1) 5 {} (.load exKey)).1 :=
  C10_all_static_pass_noop _ _ _ _ _ (by
    intro k c h
    rcases step_added (exEnvNo 1) 5 {} (.load exKey) (fun _ c => c.dyn = false)
      ⟨fun _ _ _ => rfl, fun _ _ _ => rfl⟩ k c h with h' | h'
    · simp [St.lookup] at h'
    · exact h')

/-! ## (e) histories -/

/-- **Static entries are never rewritten, in any history.** For every list of (environment,
operation) pairs — API operations on any keys, notifications for any entries, `hot_reload`, `enhance`,
the source edited arbitrarily between any two steps — a static cell stored under `k` stays stored
and unchanged as long as no step is `remove k`, `take k` or `clear`. -/
theorem C10_history (fuel : Nat) (h : List (Env × HOp)) (s : St) (r : RSt) (k : Key) (c : Cell)
    (hc : s.lookup k = some c) (hs : c.dyn = false) (hkeep : ∀ e ∈ h, e.2.removes k = false) :
    (runH fuel h (s, r)).1.lookup k = some c := by
  obtain ⟨c', h1, e⟩ := runH_ev fuel h (s, r) k c hkeep hc
  rw [h1, e.static hs]

example : (runH 5 (exHistory.drop 4) exInserted).1.lookup exKey = some ⟨.int 7, false, 0, false, 1⟩ :=
  C10_history 5 (exHistory.drop 4) exInserted.1 exInserted.2 exKey _ (by decide) rfl (by decide)

/-- **Values stored with `get_or_insert`**: after ANY prefix history `h1` (in which the key may have
been loaded, registered with the reloader, removed, cleared, …), if the key is absent and
`get_or_insert key v` is called, then after any further history `h2` that does not remove the key,
the entry holds exactly `v`, reload id `NEVER`, flag clear, at the address it was created at. -/
theorem C10_history_get_or_insert (fuel : Nat) (h1 h2 : List (Env × HOp)) (x0 : St × RSt) (env : Env)
    (key : Key) (v : Val)
    (habs : (runH fuel h1 x0).1.lookup key = none)
    (hkeep : ∀ e ∈ h2, e.2.removes key = false) :
    (runH fuel (h1 ++ (env, .api (.getOrInsert key v)) :: h2) x0).1.lookup key =
      some { val := v, dyn := false, rid := ReloadId_NEVER, flag := false, addr := (runH fuel h1 x0).1.next } := by
  rw [runH_append]
  simp only [runH]
  generalize runH fuel h1 x0 = x at habs ⊢
  obtain ⟨s, r⟩ := x
  exact C10_history fuel h2 _ r key _ (C10_get_or_insert_static env fuel s key v habs).1 rfl hkeep

/-- the theorem applies to the history (its hypotheses hold) … -/
example : (runH 5 exHistory ({}, {})).1.lookup exKey =
    some { val := .int 7, dyn := false, rid := ReloadId_NEVER, flag := false, addr := 1 } :=
  C10_history_get_or_insert 5 (exHistory.take 3) (exHistory.drop 4) ({}, {}) (exEnv 1) exKey (.int 7)
    (by decide) (by decide)

/-- … and the model computes the same -/
example : (runH 5 exHistory ({}, {})).1.lookup exKey = some ⟨.int 7, false, 0, false, 1⟩ := by decide

/-- **Opted-out types and caches without reloader**: an entry that a `load` creates while the type
opts out of hot-reloading or the cache has no reloader is static, and stays stored unchanged with
reload id `NEVER` through any further history that does not remove it. -/
theorem C10_history_load_static (fuel : Nat) (h2 : List (Env × HOp)) (s : St) (r : RSt) (env : Env)
    (key : Key) (c : Cell)
    (hopt : (env.types key.ty).hot = false ∨ env.hasReloader = false)
    (habs : s.lookup key = none)
    (hload : (step env fuel s (.load key)).1.lookup key = some c)
    (hkeep : ∀ e ∈ h2, e.2.removes key = false) :
    c.dyn = false ∧ c.rid = ReloadId_NEVER ∧ c.flag = false ∧
    (runH fuel ((env, .api (.load key)) :: h2) (s, r)).1.lookup key = some c := by
  have hf := (C10_load_dynamic_iff env fuel s key key c habs hload).weak
  have hd : c.dyn = false := by
    cases hdyn : c.dyn with
    | false => rfl
    | true =>
      have := hf.1 hdyn
      rcases hopt with h | h
      · rw [h] at this; exact absurd this.1 (by decide)
      · rw [h] at this; exact absurd this.2 (by decide)
  refine ⟨hd, hf.2.1, hf.2.2, ?_⟩
  simp only [runH, hstep]
  exact C10_history fuel h2 _ r key c hload hd hkeep

/-- opted-out type in a cache with reloader, notified and "reloaded": unchanged -/
example : (runH 5 [(exEnvOpt 1, .api (.load exKeyOpt)), (exEnvOpt 2, .notify [.asset exKeyOpt]), (exEnvOpt 2, .hotReload)]
    ({}, {})).1.lookup exKeyOpt = some ⟨.int 1, false, 0, false, 0⟩ :=
  (C10_history_load_static 5 [(exEnvOpt 2, .notify [.asset exKeyOpt]), (exEnvOpt 2, .hotReload)] {} {} (exEnvOpt 1)
    exKeyOpt _ (Or.inl rfl) rfl (by decide) (by decide)).2.2.2

/-- **A cache without reloader holds only static entries, forever**: if every environment of the
history has `hasReloader = false` and the cache starts with static entries only (e.g. empty), every
entry at every later time is static — and so (by `C10_history`) unchanged until removed. -/
theorem C10_no_reloader_all_static (fuel : Nat) (h : List (Env × HOp)) (x : St × RSt)
    (hnr : ∀ e ∈ h, e.1.hasReloader = false) (hs : x.1.All (fun _ c => c.dyn = false)) :
    (runH fuel h x).1.All (fun _ c => c.dyn = false) := by
  refine runH_all fuel _ (fun _ _ _ h _ => h) h x ?_ hs
  intro e he
  refine ⟨?_, fun key v addr => insertedEntryDynamic_cfg (e.1.types key.ty).hot e.1.hasReloader⟩
  intro key v addr
  simp only [newCell, loadedEntryDynamic_cfg, hnr e he, Bool.and_false]

example : (runH 5 [(exEnvNo 1, .api (.load exKey)), (exEnvNo 2, .hotReload)] ({}, {})).1.All (fun _ c => c.dyn = false) :=
  C10_no_reloader_all_static 5 _ ({}, {}) (by decide) (by intro k c h; simp [St.lookup] at h)

/-- **A type that opts out is never dynamic**: if in every environment of the history the type
`ty` is not hot-reloaded, no entry of that type is ever dynamic. -/
theorem C10_opted_out_never_dynamic (fuel : Nat) (ty : Nat) (h : List (Env × HOp)) (x : St × RSt)
    (hty : ∀ e ∈ h, (e.1.types ty).hot = false)
    (hs : x.1.All (fun k c => k.ty = ty → c.dyn = false)) :
    (runH fuel h x).1.All (fun k c => k.ty = ty → c.dyn = false) := by
  refine runH_all fuel _ (fun _ _ _ h _ => h) h x ?_ hs
  intro e he
  refine ⟨?_, fun key v addr _ => insertedEntryDynamic_cfg (e.1.types key.ty).hot e.1.hasReloader⟩
  intro key v addr hk
  simp only [newCell, loadedEntryDynamic_cfg, hk, hty e he, Bool.false_and]

example : (runH 5 [(exEnvOpt 1, .api (.load exKeyOpt)), (exEnvOpt 2, .hotReload)] ({}, {})).1.All
    (fun k c => k.ty = 1 → c.dyn = false) :=
  C10_opted_out_never_dynamic 5 1 _ ({}, {}) (by decide) (by intro k c h; simp [St.lookup] at h)

/-- `Arc<T>` opts out of hot-reloading exactly when `T` does (`impl Compound for Arc<T>` inherits
`HOT_RELOADED`): an `Arc` of an opted-out type is never registered nor given a lock. -/
theorem C10_arc_inherits_opt_out : arcInheritsHotReloaded = true := by decide

/-- The `OnceInitCell` wrappers (`utils` feature) opt out of hot-reloading exactly when the wrapped type does, like `Arc`. -/
theorem C10_cell_inherits_opt_out : cellInheritsHotReloaded = true := by decide

/-- Both maps (sharded `AssetCache`, single-threaded `LocalAssetCache`) insert with `entry(key).or_insert(entry)` inside one
lock / borrow scope: the first entry for a key survives, handles that were given out stay valid, a late entry is dropped. -/
theorem C10_insert_keeps_first :
    AmVerif.Gen.skel_cache_AssetMap_for_AssetMap_insert = [.call .s_get_shard, .acq .s_write 0, .call .s_entry, .call .s_or_insert, .rel 0] ∧
    AmVerif.Gen.skel_local_cache_AssetMap_for_AssetMap_insert = [.acq .s_borrow_mut 0, .call .s_entry, .call .s_or_insert, .rel 0] := ⟨rfl, rfl⟩

end AmVerif.Props.C10
