import AmVerif.Model.Rid
/-!
# C18 — ReloadId bookkeeping is a monotone maximum, atomically

All statements are about the definitions regenerated from `src/entry.rs` (`AmVerif.Gen.Rid`).
-/
namespace AmVerif.Props.C18
open AmVerif.Gen AmVerif.Model AmVerif.Model.Rid

/-- `ReloadId::update` stores the larger id and reports `true` exactly when the stored id grew. -/
theorem C18_update_max (old new : Nat) :
    ReloadId_update old new = (max old new, decide (new > old)) := by
  unfold ReloadId_update
  by_cases h : new > old
  · simp [h, Nat.max_eq_right (Nat.le_of_lt h)]
  · simp [h, Nat.max_eq_left (Nat.le_of_not_gt h)]

/-- `NEVER` is the least id: offering it never changes anything and is never reported. -/
theorem C18_never_least (n : Nat) :
    ReloadId_NEVER ≤ n ∧ ReloadId_update n ReloadId_NEVER = (n, false) := by
  constructor
  · simp [ReloadId_NEVER]
  · rw [C18_update_max]; simp [ReloadId_NEVER]

/-- A fresh `AtomicReloadId` holds `NEVER`. -/
theorem C18_new_is_never : AtomicReloadId_new = ReloadId_NEVER := rfl

/-- `AtomicReloadId::update` is `fetch_max` + compare: stores the max, tells `true` iff it grew. -/
theorem C18_atomic_update (cell new : Nat) :
    AtomicReloadId_update new cell = (decide (new > cell), max cell new) := by
  simp [AtomicReloadId_update, AtomicReloadId_fetch_max, Atom.fetchMax]

/-- Every public operation of `AtomicReloadId` is exactly ONE atomic primitive, so a call has a
single linearisation point; the read-modify-write ones are RMW primitives (not load+store). -/
theorem C18_single_primitive :
    atomicPrims.all (fun mp => mp.2.length == 1) = true ∧
    atomicPrims.lookup .update = some [(.fetchMax, .AcqRel)] ∧
    atomicPrims.lookup .fetchMax = some [(.fetchMax, .AcqRel)] ∧
    atomicPrims.lookup .swap = some [(.swap, .AcqRel)] ∧
    atomicPrims.lookup .increment = some [(.fetchAdd, .Release)] := by
  decide

/-- Sequential meaning of every call at its linearisation point. -/
theorem C18_with_swap_store (cell : Nat) (c : Call) :
    step cell c = match c with
      | .update n   => (.told (decide (n > cell)), max cell n)
      | .fetchMax n => (.prev cell, max cell n)
      | .swap n     => (.prev cell, n)
      | .store n    => (.unit, n)
      | .load       => (.prev cell, cell)
      | .increment  => (.unit, cell + 1) := by
  cases c <;> simp [step, AtomicReloadId_update, AtomicReloadId_fetch_max, AtomicReloadId_swap,
    AtomicReloadId_store, AtomicReloadId_load, AtomicReloadId_increment,
    Atom.fetchMax, Atom.swap, Atom.store, Atom.load, Atom.fetchAdd]

theorem run_updates_cons (cell n : Nat) (ns : List Nat) :
    run cell (updates (n :: ns)) =
      ((run (max cell n) (updates ns)).1, .told (decide (n > cell)) :: (run (max cell n) (updates ns)).2) := by
  simp [updates, run, step, C18_atomic_update]

/-- Whatever the linearisation of concurrent `update` calls, the final value is the maximum of
the initial value and everything offered. -/
theorem C18_final_max (init : Nat) (xs : List Nat) :
    (run init (updates xs)).1 = xs.foldl max init := by
  induction xs generalizing init with
  | nil => rfl
  | cons n ns ih => rw [run_updates_cons]; simpa using ih (max init n)

theorem foldl_max_ge (init : Nat) (xs : List Nat) : init ≤ xs.foldl max init := by
  induction xs generalizing init with
  | nil => simp
  | cons n ns ih => exact Nat.le_trans (Nat.le_max_left ..) (ih _)

theorem foldl_max_ge_mem (init : Nat) (xs : List Nat) (x : Nat) (h : x ∈ xs) : x ≤ xs.foldl max init := by
  induction xs generalizing init with
  | nil => cases h
  | cons n ns ih =>
    simp only [List.foldl]
    rcases List.mem_cons.mp h with rfl | h'
    · exact Nat.le_trans (Nat.le_max_right ..) (foldl_max_ge _ _)
    · exact ih _ h'

theorem foldl_max_mem_or (init : Nat) (xs : List Nat) : xs.foldl max init = init ∨ xs.foldl max init ∈ xs := by
  induction xs generalizing init with
  | nil => simp
  | cons n ns ih =>
    simp only [List.foldl]
    rcases ih (max init n) with h | h
    · rw [h]
      by_cases hn : init ≤ n
      · right; simp [Nat.max_eq_right hn]
      · left; exact Nat.max_eq_left (Nat.le_of_not_ge hn)
    · right; exact List.mem_cons_of_mem _ h

/-- The final value does not depend on the schedule (any two linearisations of the same calls). -/
theorem C18_final_schedule_independent (init : Nat) (xs ys : List Nat) (h : xs.Perm ys) :
    (run init (updates xs)).1 = (run init (updates ys)).1 := by
  rw [C18_final_max, C18_final_max]
  apply Nat.le_antisymm
  · rcases foldl_max_mem_or init xs with e | m
    · rw [e]; exact foldl_max_ge _ _
    · exact foldl_max_ge_mem _ _ _ (h.mem_iff.mp m)
  · rcases foldl_max_mem_or init ys with e | m
    · rw [e]; exact foldl_max_ge _ _
    · exact foldl_max_ge_mem _ _ _ (h.mem_iff.mpr m)

/-- The value stored after a linearised prefix of offers. -/
def finalOf (init : Nat) (xs : List Nat) : Nat := (run init (updates xs)).1

theorem finalOf_cons (init n : Nat) (ns : List Nat) :
    finalOf init (n :: ns) = finalOf (max init n) ns := by
  unfold finalOf; rw [run_updates_cons]

/-- The `i`-th call of a linearisation is told `true` iff it offered more than the value stored
at that moment, i.e. iff the stored id grew at that call. -/
theorem C18_told_iff_grew (init : Nat) (xs : List Nat) (i : Nat) (hi : i < xs.length) :
    (run init (updates xs)).2[i]? = some (.told (decide (xs[i] > finalOf init (xs.take i)))) := by
  induction xs generalizing init i with
  | nil => simp at hi
  | cons n ns ih =>
    cases i with
    | zero => rw [run_updates_cons]; simp [finalOf, updates, run]
    | succ j =>
      have hj : j < ns.length := by simpa using hi
      rw [run_updates_cons]
      simp only [List.getElem?_cons_succ, List.take_succ_cons, List.getElem_cons_succ, finalOf_cons]
      exact ih (max init n) j hj

/-- The values whose callers were told `true`, in linearisation order. -/
def toldTrue (init : Nat) : List Nat → List Nat
  | [] => []
  | n :: ns => if n > init then n :: toldTrue (max init n) ns else toldTrue (max init n) ns

/-- `toldTrue` really is the sub-list of offers answered `true`. -/
theorem toldTrue_spec (init : Nat) (xs : List Nat) :
    toldTrue init xs =
      ((xs.zip (run init (updates xs)).2).filter (fun p => p.2 == .told true)).map (·.1) := by
  induction xs generalizing init with
  | nil => rfl
  | cons n ns ih =>
    rw [run_updates_cons]
    by_cases h : n > init
    · simp [toldTrue, h, ih]
    · simp [toldTrue, h, ih]

/-- Strictly increasing, every element above `lo`. -/
def IncrAbove (lo : Nat) : List Nat → Prop
  | [] => True
  | x :: xs => lo < x ∧ IncrAbove x xs

theorem toldTrue_incr (init : Nat) (xs : List Nat) : IncrAbove init (toldTrue init xs) := by
  induction xs generalizing init with
  | nil => trivial
  | cons n ns ih =>
    by_cases h : n > init
    · simp only [toldTrue, h, ↓reduceIte]
      refine ⟨h, ?_⟩
      rw [Nat.max_eq_right (Nat.le_of_lt h)]
      exact ih n
    · simp only [toldTrue, h, ↓reduceIte]
      rw [Nat.max_eq_left (Nat.le_of_not_gt h)]
      exact ih init

theorem IncrAbove.nodup {lo : Nat} {l : List Nat} (h : IncrAbove lo l) : l.Nodup ∧ ∀ x ∈ l, lo < x := by
  induction l generalizing lo with
  | nil => simp
  | cons x xs ih =>
    obtain ⟨h1, h2⟩ := h
    obtain ⟨nd, ab⟩ := ih h2
    refine ⟨List.nodup_cons.mpr ⟨fun hm => Nat.lt_irrefl _ (ab x hm), nd⟩, ?_⟩
    intro y hy
    rcases List.mem_cons.mp hy with rfl | hy
    · exact h1
    · exact Nat.lt_trans h1 (ab y hy)

/-- For each distinct growth exactly one caller is told `true`: the offers answered `true` are
strictly increasing along the linearisation (so no id is reported twice), all above the initial
value. -/
theorem C18_each_growth_once (init : Nat) (xs : List Nat) :
    (toldTrue init xs).Nodup ∧ ∀ x ∈ toldTrue init xs, init < x :=
  (toldTrue_incr init xs).nodup

theorem toldTrue_last (init : Nat) (xs : List Nat) (h : init < xs.foldl max init) :
    xs.foldl max init ∈ toldTrue init xs := by
  induction xs generalizing init with
  | nil => simp at h
  | cons n ns ih =>
    simp only [List.foldl] at h ⊢
    by_cases hn : n > init
    · simp only [toldTrue, hn, ↓reduceIte]
      by_cases hm : max init n < ns.foldl max (max init n)
      · exact List.mem_cons_of_mem _ (ih _ hm)
      · have : ns.foldl max (max init n) = max init n :=
          Nat.le_antisymm (Nat.le_of_not_gt hm) (foldl_max_ge _ _)
        rw [this, Nat.max_eq_right (Nat.le_of_lt hn)]; exact List.mem_cons_self
    · simp only [toldTrue, hn, ↓reduceIte]
      have e : max init n = init := Nat.max_eq_left (Nat.le_of_not_gt hn)
      rw [e] at h ⊢
      exact ih _ h

/-- A reload is never lost: if the stored id ends up larger than it started, the caller who
offered the final (maximal) id was told `true`. -/
theorem C18_never_lost (init : Nat) (xs : List Nat)
    (h : init < (run init (updates xs)).1) :
    (run init (updates xs)).1 ∈ toldTrue init xs := by
  rw [C18_final_max] at h ⊢; exact toldTrue_last init xs h

/-- The sequential `ReloadId` behaves like the atomic one on the same offers. -/
theorem C18_seq_eq_atomic (init : Nat) (xs : List Nat) :
    (seqRun init xs).1 = (run init (updates xs)).1 ∧
    (seqRun init xs).2.map Ret.told = (run init (updates xs)).2 := by
  induction xs generalizing init with
  | nil => exact ⟨rfl, rfl⟩
  | cons n ns ih =>
    rw [run_updates_cons]
    simp only [seqRun, C18_update_max]
    exact ⟨(ih _).1, by simp [(ih _).2]⟩

/-! Non-vacuity: concrete histories. -/
example : run 0 (updates [2, 1, 2, 5]) = (5, [.told true, .told false, .told false, .told true]) := by decide
example : toldTrue 0 [2, 1, 2, 5] = [2, 5] := by decide
example : admitsLinearisation 1 3 [(3, true), (2, false), (2, true)] = true := by decide
example : admitsLinearisation 1 3 [(3, true), (3, true)] = false := by decide

end AmVerif.Props.C18
