import AmVerif.Lemmas.World
import AmVerif.Lemmas.Order
import AmVerif.Gen.Skel
/-!
# C14 — dependencies are attributed to the asset being loaded, and only to it

The thread's recording is a stack of frames (`St.recs`, top first): `record` (one per load of a
reloadable asset in a cache with a reloader) pushes `some []`, `no_record` pushes `none`, a helper
thread starts with an empty stack; each is popped by a drop guard (`CellGuard`). A read or look-up
adds its entry to the TOP frame only, and only if that frame is `some` (`St.record`). The theorems
say what each construct does to the frames *below* it — i.e. to the record of the enclosing asset.
-/
namespace AmVerif.Props.C14
open AmVerif.Gen AmVerif.Model

/-! ## The mechanism, from the source -/

/-- `record` and `no_record` install their frame with `CellGuard::replace` before running the closure;
the guard's `Drop` puts the previous value back (so also on unwinding). -/
theorem skel_record_guards :
    skel_hot_reloading_records_record = [.closure [.call .s_replace, .call .s_f], .call .s_with] ∧
    skel_hot_reloading_records_no_record = [.closure [.call .s_replace, .call .s_f], .call .s_with] ∧
    skel_hot_reloading_records_CellGuard_replace = [.call .s_replace] ∧
    skel_hot_reloading_records_Drop_for_CellGuard_drop = [.call .s_set] := ⟨rfl, rfl, rfl, rfl⟩

/-- A look-up records the asset whether or not it is cached (before returning), `load_owned` records
it before loading, and `load_and_record` runs the loader inside `record` and then either registers
the asset or hands the failed load's reads to the enclosing record. -/
theorem skel_lookups_record :
    skel_anycache_Cache_for_T_get_cached_entry_inner =
      [.branch [[.branch [[.call .s_get, .branch [[], []], .call .s_add_record, .ret], []]], []], .call .s_get] ∧
    skel_anycache_Cache_for_T_load_owned_entry = [.branch [[.branch [[.call .s_add_record], []]], []], .call .s_load_and_record] ∧
    skel_asset_load_and_record = [.branch [[.branch [[.call .s_record, .branch [[.call .s_add_asset], [.call .s_add_records]], .ret], []]], []]] ∧
    skel_hot_reloading_records_add_record = [.closure [.call .s_get, .branch [[.call .s_insert_asset], []]], .call .s_with] :=
  ⟨rfl, rfl, rfl, rfl⟩

/-- A read or look-up touches the top frame only, and only if it is recording. -/
theorem C14_record_top_only (s : St) (d : Dep) :
    (s.record true d).recs =
      match s.recs with
      | some ds :: rest => some (depInsert d ds) :: rest
      | other => other := by
  unfold St.record
  simp only [if_true]
  cases h : s.recs with
  | nil => simp [h]
  | cons x rest => cases x <;> simp [h]

/-- Nothing is recorded while recording is off for this cache / type. -/
theorem C14_record_off (s : St) (d : Dep) : s.record false d = s := by simp [St.record]

/-! ## What each construct leaves in the enclosing record -/

/-- **`no_record`**: whatever the closure does — reads, loads of any depth, errors, panics, fuel
exhaustion — the enclosing frames (in particular the record of the asset being loaded) are exactly
what they were: nothing read inside is attributed to it, and recording resumes afterwards. -/
theorem C14_no_record_isolated (body : St → St × Outcome) (s : St) :
    (withFrame true none body s).1.recs = s.recs := withFrame_restores none body s

/-- **Nested load of a reloadable asset** (hot type, cache with reloader): its reads go to its own
frame. On success — and on panic — the enclosing record is exactly what it was before the nested
load ran (the outer asset depends on the nested asset, recorded by the look-up, not on its files). -/
theorem C14_nested_hot_isolated (env : Env) (body : St → St × Outcome) (key : Key) (s : St)
    (hhot : recordsAsset (env.types key.ty).hot env.hasReloader = true)
    (hnoerr : ∀ e, (loadAndRecord env body key s).2 ≠ .err e) :
    (loadAndRecord env body key s).1.recs = s.recs := by
  unfold loadAndRecord at hnoerr ⊢
  rw [hhot] at hnoerr ⊢
  have hr := withFrame_restores (some []) body s
  generalize withFrame true (some []) body s = r at hr hnoerr ⊢
  obtain ⟨s1, o, d⟩ := r
  cases o with
  | ok v => simpa [St.send] using hr
  | err e => exact absurd rfl (hnoerr _)
  | panicked => exact hr
  | diverged => exact hr

/-- …and the dependency set registered with the reloader for the nested asset is exactly what its
own frame collected while it was on top. -/
theorem C14_registered_is_own_frame (env : Env) (body : St → St × Outcome) (key : Key) (s : St) (v : Val)
    (hhot : recordsAsset (env.types key.ty).hot env.hasReloader = true)
    (hok : (loadAndRecord env body key s).2 = .ok v) :
    (loadAndRecord env body key s).1.out =
      (withFrame true (some []) body s).1.out ++ [.addAsset key (withFrame true (some []) body s).2.2] := by
  unfold loadAndRecord at hok ⊢
  rw [hhot] at hok ⊢
  generalize withFrame true (some []) body s = r at hok ⊢
  obtain ⟨s1, o, d⟩ := r
  cases o with
  | ok v' => simp [St.send]
  | err e => simp at hok
  | panicked => simp at hok
  | diverged => simp at hok

/-- When the nested load FAILS nothing is registered for it; what it read is handed to the
enclosing record (so that the enclosing asset is reloaded when the failure can be fixed). -/
theorem C14_failed_nested_goes_to_parent (env : Env) (body : St → St × Outcome) (key : Key) (s : St) (e : LErr)
    (hhot : recordsAsset (env.types key.ty).hot env.hasReloader = true)
    (hcfg : failedLoadRecordsToParent = true)
    (herr : (withFrame true (some []) body s).2.1 = .err e) :
    (loadAndRecord env body key s).1 =
      (withFrame true (some []) body s).1.recordAll true (withFrame true (some []) body s).2.2 ∧
    (loadAndRecord env body key s).1.out = (withFrame true (some []) body s).1.out := by
  unfold loadAndRecord
  rw [hhot]
  generalize withFrame true (some []) body s = r at herr ⊢
  obtain ⟨s1, o, d⟩ := r
  simp only [] at herr
  subst herr
  simp only [hcfg, Bool.true_and]
  refine ⟨by first | rfl | trivial, ?_⟩
  show (s1.recordAll true d).out = s1.out
  unfold St.recordAll
  induction d generalizing s1 with
  | nil => rfl
  | cons x xs ih =>
    simp only [List.foldl]
    rw [ih]
    unfold St.record
    simp only [if_true]
    split <;> rfl

theorem C14_failed_load_cfg : failedLoadRecordsToParent = true := by decide

/-- **Nested load of a type that is not reloaded** (or any load in a cache without reloader): no
frame is pushed; it runs under the enclosing record, which therefore receives its reads — the
code's design for `HOT_RELOADED = false` types, stated rather than hidden. -/
theorem C14_nested_cold_shares_frame (env : Env) (body : St → St × Outcome) (key : Key) (s : St)
    (hcold : recordsAsset (env.types key.ty).hot env.hasReloader = false) :
    (withFrame (recordsAsset (env.types key.ty).hot env.hasReloader) (some []) body s) = ((body s).1, (body s).2, []) := by
  rw [hcold]; rfl

/-- **Helper thread**: a load issued from another thread during a load runs with that thread's own
(empty) recording; the enclosing record of the spawning thread is exactly what it was. -/
theorem C14_helper_thread_isolated (body : St → St × Outcome) (s : St) :
    (onFreshThread body s).1.recs = s.recs := by simp [onFreshThread]

/-- …and inside the helper thread nothing is recorded at top level (its stack is empty). -/
theorem C14_helper_thread_records_nothing (s : St) (d : Dep) (on : Bool) :
    ({ s with recs := [] }.record on d).recs = [] := by
  unfold St.record; split <;> rfl

/-- **Recording resumes**: after ANY evaluation — nested loads, `no_record` blocks, helper threads,
to any depth, ending normally, with an error, by panic or by fuel exhaustion — the stack has the
same depth and the same frames below the top; the top frame (the asset being loaded) is still
the top frame and has only grown by what this evaluation recorded for it. -/
theorem C14_resumes (env : Env) (f : Nat) (s : St) (p : Prog) :
    (eval env f s p).1.recs.length = s.recs.length ∧ (eval env f s p).1.recs.tail = s.recs.tail :=
  ⟨(eval_shape env f s p).2, (eval_shape env f s p).1⟩

/-- **`get_or_insert` from inside a loader** goes through the same look-up as `get_cached`
(`_get_cached_entry`): it adds the asset — present or absent — to the top frame if that frame is
recording, and does nothing else to the thread's recording before the loader continues (with the
value found, or with its own value once stored). -/
theorem C14_get_or_insert_records (env : Env) (f : Nat) (s : St) (key : Key) (v : Val) (k : Val → Prog) :
    ∃ s' w, s'.recs = (s.record (recordsAsset (env.types key.ty).hot env.hasReloader) (.asset key)).recs ∧
      eval env (f + 1) s (.getOrInsert key v k) = eval env f s' (k w) := by
  simp only [eval]
  cases (s.record (recordsAsset (env.types key.ty).hot env.hasReloader) (.asset key)).lookup key with
  | some c => exact ⟨(s.record (recordsAsset (env.types key.ty).hot env.hasReloader) (.asset key)).handOut key.ty, c.val, rfl, rfl⟩
  | none => simp only []; exact ⟨_, v, by simp [St.own], rfl⟩

/-- a cache with reloader whose types are all hot-reloaded -/
def exEnvHot : Env :=
  { read := fun _ _ _ => .ok [], readDir := fun _ _ => .ok [],
    types := fun _ => { hot := true, prog := fun _ => .panic }, hasReloader := true }

/-- the loader of a reloadable asset fills a slot: the key is in its record -/
example : (eval exEnvHot 3 { recs := [some []] } (.getOrInsert ⟨0, "a"⟩ (.int 1) .ret)).1.recs = [some [.asset ⟨0, "a"⟩]] := by
  decide

/-- Top-level calls (outside any load) record nothing and leave the thread's recording empty. -/
theorem C14_top_level_clean (env : Env) (f : Nat) (s : St) (p : Prog) :
    (evalTop env f s p).1.recs = [] := rfl

/-- Reads made through a cache whose reloader is not the one recording, and reads on another
thread, are not recorded: `Record::insert_*` compare the reloader identity (regenerated fact). -/
theorem C14_reloader_identity_checked : recordChecksReloaderIdentity = true := by decide

/-! Non-vacuity: a nested hot load inside a recording frame leaves the outer frame untouched. -/
example : (withFrame true none (fun s => (s.record true (.file "x" "a"), .ok (.int 1)))
    { recs := [some [.file "outer" "s"]] }).1.recs = [some [.file "outer" "s"]] := by
  simp [withFrame]

/-- Every successful load registers its dependency set with the reloader, empty or not (`HotReloader::add_asset` sends
unconditionally): a key loaded again after a removal gets its OLD dependencies replaced. -/
theorem C14_add_asset_always_sends :
    AmVerif.Gen.skel_hot_reloading_mod_HotReloader_add_asset = [.call .s_AddAsset, .call .s_send] := rfl

/-! ## The registration of a load reaches the reloader before any later event

`handle_events` (and `hot_reload`) drain the channel of `AddAsset` / `Clear` messages FIRST and only
then look the events up in the dependency graph; a load sends its registration before it returns.
So an event sent after the load returned finds the asset's dependencies in the graph (harness probe
`hr.order`). -/

/-- `Graph.insertAsset` never removes a node, and the registered asset and each of its dependencies
have a node afterwards. -/
theorem C14_graph_get_insertAsset_mono (g : Graph) (a : Dep) (deps : List Dep) (d : Dep) :
    ((g.get d).isSome → ((g.insertAsset a deps).get d).isSome) ∧
    (d ∈ deps → ((g.insertAsset a deps).get d).isSome) ∧
    ((g.insertAsset a deps).get a).isSome :=
  ⟨AmVerif.Model.graph_get_insertAsset_mono g a deps d, AmVerif.Model.graph_get_insertAsset_dep g a deps d,
   AmVerif.Model.graph_get_insertAsset_self g a deps⟩

/-- **Registration before event, local mode.** A registration `AddAsset key deps` is pending in the
channel — anywhere in it, whatever the other pending messages are (`Clear`, other registrations, a
later registration of the same key with other dependencies). Then `handle_events` keeps every event
on an entry of `deps`: it is in the set of changed entries afterwards. -/
theorem C14_registration_before_event (env : Env) (fuel : Nat) (s : St) (r : RSt) (evs : List Dep)
    (key : Key) (deps : List Dep) (e : Dep)
    (hm : Msg.addAsset key deps ∈ s.out) (he : e ∈ deps) (hd : r.dead = false) (hs : r.static_ = false)
    (hev : e ∈ evs) :
    e ∈ (handleEvents env fuel s r evs).2.toReload := by
  rw [handleEvents_local' env fuel s r evs hd hs]
  exact takeEvents_registered s r evs key deps e hm (Or.inl he) hev

/-- …and **in static mode** (in fact in either mode, dead or not) for the state `handle_events` hands
to `run_update` (`handleEvents_static`: `handleEvents = processMsgs ∘ runUpdate` of `takeEvents`). -/
theorem C14_registration_before_event_static (s : St) (r : RSt) (evs : List Dep)
    (key : Key) (deps : List Dep) (e : Dep)
    (hm : Msg.addAsset key deps ∈ s.out) (he : e ∈ deps) (hev : e ∈ evs) :
    e ∈ (takeEvents s r evs).2.toReload :=
  takeEvents_registered s r evs key deps e hm (Or.inl he) hev

/-- the same for an event on the registered asset itself -/
theorem C14_registration_before_event_self (s : St) (r : RSt) (evs : List Dep) (key : Key) (deps : List Dep)
    (hm : Msg.addAsset key deps ∈ s.out) (hev : Dep.asset key ∈ evs) :
    Dep.asset key ∈ (takeEvents s r evs).2.toReload :=
  takeEvents_registered s r evs key deps (.asset key) hm (Or.inr rfl) hev

/-- **A load, then an event.** `load key` returned a handle for a key that was not cached, of a
reloadable type in a cache with a reloader. Then the channel is exactly: what was pending before,
what nested loads sent, and LAST the registration `AddAsset key deps` of the load itself; and every
entry `d` of that `deps` is kept by the next `handle_events` — under any environment and fuel of the
reloader, from any live reloader state in local mode, whatever the batch of events that contains `d`
(in particular `[d]`), although nothing drained the channel in between. -/
theorem C14_load_then_event (env : Env) (fuel : Nat) (s : St) (key : Key) (addr : Nat) (v : Val)
    (hhot : recordsAsset (env.types key.ty).hot env.hasReloader = true) (hmiss : s.lookup key = none)
    (hres : (step env fuel s (.load key)).2 = .handle addr v) :
    ∃ nested deps, (step env fuel s (.load key)).1.out = s.out ++ nested ++ [.addAsset key deps] ∧
      ∀ (env' : Env) (fuel' : Nat) (r : RSt), r.dead = false → r.static_ = false →
        ∀ d, d ∈ deps → ∀ evs, d ∈ evs →
          d ∈ (handleEvents env' fuel' (step env fuel s (.load key)).1 r evs).2.toReload := by
  obtain ⟨nested, deps, hout⟩ := step_load_out env fuel s key addr v hhot hmiss hres
  refine ⟨nested, deps, hout, fun env' fuel' r hd hs d hdd evs hev => ?_⟩
  refine C14_registration_before_event env' fuel' _ r evs key deps d ?_ hdd hd hs hev
  rw [hout]
  exact List.mem_append_right _ List.mem_cons_self

/-- …and in static mode (either mode): the entry is in the set of changed entries `run_update` starts from. -/
theorem C14_load_then_event_static (env : Env) (fuel : Nat) (s : St) (key : Key) (addr : Nat) (v : Val)
    (hhot : recordsAsset (env.types key.ty).hot env.hasReloader = true) (hmiss : s.lookup key = none)
    (hres : (step env fuel s (.load key)).2 = .handle addr v) :
    ∃ nested deps, (step env fuel s (.load key)).1.out = s.out ++ nested ++ [.addAsset key deps] ∧
      ∀ (r : RSt) d, d ∈ deps → ∀ evs, d ∈ evs →
        d ∈ (takeEvents (step env fuel s (.load key)).1 r evs).2.toReload := by
  obtain ⟨nested, deps, hout⟩ := step_load_out env fuel s key addr v hhot hmiss hres
  refine ⟨nested, deps, hout, fun r d hdd evs hev => ?_⟩
  refine C14_registration_before_event_static _ r evs key deps d ?_ hdd hev
  rw [hout]
  exact List.mem_append_right _ List.mem_cons_self

/-! Non-vacuity: the order is what matters. With the registration pending, `handle_events` (drain,
then filter) keeps the event; a reloader that filtered the event BEFORE draining — `handle_events`
on the state with an empty channel, then `processMsgs` of the real channel — drops it. -/
example : (handleEvents exEnvHot 3 { out := [.addAsset ⟨0, "a"⟩ [.file "n" "s"]] } {} [.file "n" "s"]).2.toReload
    = [.file "n" "s"] := by decide

example :
    (processMsgs { out := [.addAsset ⟨0, "a"⟩ [.file "n" "s"]] }
      (handleEvents exEnvHot 3 { out := [] } {} [.file "n" "s"]).2).2.toReload = [] := by decide

/-- …although the swapped reloader does register the asset afterwards: only the order differs -/
example :
    ((processMsgs { out := [.addAsset ⟨0, "a"⟩ [.file "n" "s"]] }
      (handleEvents exEnvHot 3 { out := [] } {} [.file "n" "s"]).2).2.graph.get (.file "n" "s")).isSome = true := by
  decide

/-- a cache with reloader whose (hot) assets read the file `<id>.s` -/
def exEnvOrder : Env :=
  { read := fun _ _ _ => .ok [], readDir := fun _ _ => .ok [],
    types := fun _ => { hot := true, prog := fun id => .read id "s" (fun _ => .ret (.int 1)) }, hasReloader := true }

/-- `C14_load_then_event` is not vacuous: a load that returns a handle, registers a file, and the
event on that file sent after the load returned is kept without any drain in between. -/
example :
    (step exEnvOrder 5 {} (.load ⟨0, "n"⟩)).2 = .handle 0 (.int 1) ∧
    (step exEnvOrder 5 {} (.load ⟨0, "n"⟩)).1.out = [.addAsset ⟨0, "n"⟩ [.file "n" "s"]] ∧
    (handleEvents exEnvOrder 5 (step exEnvOrder 5 {} (.load ⟨0, "n"⟩)).1 {} [.file "n" "s"]).2.toReload = [.file "n" "s"] := by
  decide

/-- a `Clear` and a re-registration with other dependencies pending after it do not matter -/
example : (handleEvents exEnvHot 3
    { out := [.addAsset ⟨0, "a"⟩ [.file "n" "s"], .clear, .addAsset ⟨0, "a"⟩ []] } {} [.file "n" "s"]).2.toReload
    = [.file "n" "s"] := by decide

end AmVerif.Props.C14
