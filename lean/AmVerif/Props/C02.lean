import AmVerif.Lemmas.Map
import AmVerif.Lemmas.World
import AmVerif.Gen.Skel
/-!
# C02 — the cache is a faithful map keyed by (id, type), for every front-end
-/
namespace AmVerif.Props.C02
open AmVerif.Gen AmVerif.Model

/-! ## Front-ends: sharded (`AssetCache`) and flat (`LocalAssetCache`) against the abstract map -/

/-- `AssetCache`'s sharded map behaves like the abstract map `Key → Option Cell` on every
operation sequence, for every hasher (random seed) and every number of shards. -/
theorem C02_sharded_refines (hash : Key → Nat) (m : SMap) (ops : List MOp) :
    m.run hash ops = (m.abs hash).run ops := SMap.refines hash m ops

/-- So does `LocalAssetCache`'s single map. -/
theorem C02_flat_refines (m : AL) (ops : List MOp) : m.run ops = m.abs.run ops := AL.refines m ops

/-- **The front-ends are observationally identical**: from empty, the sharded map (any seed, any
shard count) and the flat map answer every operation sequence identically. -/
theorem C02_frontends_agree (hash : Key → Nat) (len : Nat) (ops : List MOp) :
    SMap.run hash ⟨len, fun _ => []⟩ ops = AL.run [] ops := by
  rw [SMap.refines, AL.refines]
  congr 1

/-- `&self` and `&mut self` operations address the same shard (otherwise `remove`/`take` would
miss entries that `get` finds). -/
theorem C02_shard_index_agree (hash len : Nat) : shardIndexMut hash len = shardIndex hash len := rfl

theorem nextPow2Aux_ge (f p n : Nat) : p ≤ nextPow2Aux f p n := by
  induction f generalizing p with
  | zero => simp [nextPow2Aux]
  | succ f ih =>
    simp only [nextPow2Aux]
    split
    · exact Nat.le_refl _
    · exact Nat.le_trans (by omega) (ih (2 * p))

/-- There is always at least one shard. -/
theorem C02_shard_count_pos (n : Nat) : 0 < shardCount n ∧ 0 < shardCountFallback := by
  constructor
  · have := nextPow2Aux_ge n 1 n
    simp only [shardCount, nextPow2]; omega
  · decide

/-- The model's keep-first `insert` is what the code does: both maps insert with
`entry(key).or_insert(entry)` inside one exclusive scope (regenerated effect skeletons). -/
theorem C02_insert_is_or_insert :
    skel_cache_AssetMap_for_AssetMap_insert = [.call .s_get_shard, .acq .s_write 0, .call .s_entry, .call .s_or_insert, .rel 0] ∧
    skel_local_cache_AssetMap_for_AssetMap_insert = [.acq .s_borrow_mut 0, .call .s_entry, .call .s_or_insert, .rel 0] ∧
    skel_cache_AssetMap_take = [.call .s_get_shard_mut, .call .s_get_mut, .call .s_remove] ∧
    skel_cache_AssetMap_clear = [.loop [.call .s_get_mut, .call .s_clear]] := ⟨rfl, rfl, rfl, rfl⟩

/-! ## The abstract map has the one-line meaning of each operation -/

/-- Entries with a different id or a different type are never affected by an operation on `k`
(only `clear` touches other keys). -/
theorem C02_independent (f : FMap) (op : MOp) (k' : Key)
    (h : match op with | .get k | .insert k _ | .contains k | .remove k => k' ≠ k | .clear => False) :
    (f.step op).1 k' = f k' := by
  cases op with
  | get k => rfl
  | contains k => rfl
  | clear => exact absurd h id
  | insert k c =>
    simp only [FMap.step]
    cases f k with
    | some c' => rfl
    | none => simp only []; simp [h]
  | remove k => simp [FMap.step, h]

/-- `get_or_insert` / `load`'s insert never overwrite: on a present key the stored cell is returned
and nothing changes. -/
theorem C02_insert_keeps (f : FMap) (k : Key) (c c' : Cell) (h : f k = some c') :
    f.step (.insert k c) = (f, .cell (some c')) := by simp [FMap.step, h]

/-- …and on an absent key exactly that key is added, with the offered cell. -/
theorem C02_insert_adds (f : FMap) (k : Key) (c : Cell) (h : f k = none) :
    (f.step (.insert k c)).2 = .cell (some c) ∧ (f.step (.insert k c)).1 k = some c := by
  simp [FMap.step, h]

/-- `get_cached` and `contains` add nothing and change nothing. -/
theorem C02_readonly (f : FMap) (k : Key) : (f.step (.get k)).1 = f ∧ (f.step (.contains k)).1 = f := ⟨rfl, rfl⟩

/-- `remove` / `take` delete exactly the key they name and hand back what was stored. -/
theorem C02_remove_exact (f : FMap) (k : Key) :
    (f.step (.remove k)).2 = .cell (f k) ∧ (f.step (.remove k)).1 k = none ∧
    ∀ k', k' ≠ k → (f.step (.remove k)).1 k' = f k' := by
  refine ⟨rfl, by simp [FMap.step], fun k' h => by simp [FMap.step, h]⟩

/-- `clear` empties everything. -/
theorem C02_clear_all (f : FMap) (k : Key) : (f.step .clear).1 k = none := rfl

/-! ## The cache front-end (`World.step`) is that map -/

theorem lookup_eq_get (s : St) (k : Key) : s.lookup k = AL.get s.map k := rfl

/-- A hit: `load` of a cached key returns the stored entry and changes nothing in the map. -/
theorem C02_load_hit (env : Env) (f : Nat) (s : St) (key : Key) (c : Cell) (h : s.lookup key = some c) :
    (eval env (f+2) s (.load key Prog.ret')).2 = .ok c.val ∧
    (eval env (f+2) s (.load key Prog.ret')).1.map = s.map := by
  simp only [eval, St.record_lookup, h, Prog.ret']
  simp

/-- `get_or_insert` on a present key: same handle, nothing changes (the ghost ledger notes that the
value passed in was dropped). -/
theorem C02_getOrInsert_keeps (env : Env) (f : Nat) (s : St) (key : Key) (v : Val) (c : Cell)
    (h : s.lookup key = some c) :
    step env f s (.getOrInsert key v) = (s.handOut key.ty, .handle c.addr c.val) ∧ (s.handOut key.ty).core = s.core := by
  simp [step, h]

/-- `get_or_insert` on an absent key adds exactly this key with exactly this value. -/
theorem C02_getOrInsert_adds (env : Env) (f : Nat) (s : St) (key : Key) (v : Val)
    (h : s.lookup key = none) :
    ((step env f s (.getOrInsert key v)).1.lookup key).map (·.val) = some v ∧
    ∀ k', k' ≠ key → (step env f s (.getOrInsert key v)).1.lookup k' = s.lookup k' := by
  simp only [step, h]
  constructor
  · have := (St.insertKeepFirst_lookup s key { val := v, dyn := insertedEntryDynamic (env.types key.ty).hot env.hasReloader, rid := ReloadId_NEVER, flag := false, addr := s.next })
    simp only [h, Option.getD_none] at this
    show Option.map _ (St.lookup _ key) = _
    simp only [St.own_lookup]
    simp only [St.lookup] at this ⊢
    rw [this.1, this.2]; rfl
  · intro k' hk
    have := St.insertKeepFirst_other s key k' { val := v, dyn := insertedEntryDynamic (env.types key.ty).hot env.hasReloader, rid := ReloadId_NEVER, flag := false, addr := s.next } hk
    simpa [St.lookup] using this

/-- `get_or_insert` never touches another key (present or absent). -/
theorem C02_getOrInsert_adds_other (env : Env) (f : Nat) (s : St) (key : Key) (v : Val) (k' : Key) (hk : k' ≠ key) :
    (step env f s (.getOrInsert key v)).1.lookup k' = s.lookup k' := by
  cases h : s.lookup key with
  | some c => rw [(C02_getOrInsert_keeps env f s key v c h).1]; simp
  | none => exact (C02_getOrInsert_adds env f s key v h).2 k' hk

/-- `get_cached`, `contains` change nothing at all. -/
theorem C02_lookups_readonly (env : Env) (f : Nat) (s : St) (key : Key) :
    (step env f s (.getCached key)).1 = s ∧ (step env f s (.contains key)).1 = s := ⟨rfl, rfl⟩

/-- `remove` / `take`: the key is gone, every other key is untouched, `take` hands back the value. -/
theorem C02_remove_take_exact (env : Env) (f : Nat) (s : St) (key : Key) :
    (step env f s (.remove key)).1.lookup key = none ∧
    (step env f s (.take key)).1.lookup key = none ∧
    (∀ k', k' ≠ key → (step env f s (.remove key)).1.lookup k' = s.lookup k' ∧
                      (step env f s (.take key)).1.lookup k' = s.lookup k') ∧
    (step env f s (.remove key)).2 = .bool (s.lookup key).isSome ∧
    (step env f s (.take key)).2 = (match s.lookup key with | some c => .value c.val | none => .none) := by
  refine ⟨AL.get_filter_self s.map key, AL.get_filter_self s.map key, fun k' h => ⟨AL.get_filter_other s.map key k' h, AL.get_filter_other s.map key k' h⟩, rfl, rfl⟩

/-- `clear` removes every entry. -/
theorem C02_clear_exact (env : Env) (f : Nat) (s : St) (k : Key) : (step env f s .clear).1.lookup k = none := by
  simp [step, St.lookup]

/-- **Loads only add**: whatever a load (or any loader program) does — nested loads, failures,
panics — every entry that was cached before is still cached, unchanged, afterwards. -/
theorem C02_loads_only_add (env : Env) (f : Nat) (s : St) (p : Prog) (k : Key) (c : Cell)
    (h : s.lookup k = some c) : (eval env f s p).1.lookup k = some c := eval_mono env f s p k c h

/-- A failed `load` adds nothing of its own: the state is exactly what evaluating the loader left
(assets requested on the way and cached by those nested loads stay cached). -/
theorem C02_failed_load_adds_nothing_of_its_own (env : Env) (f : Nat) (s : St) (key : Key)
    (habs : s.lookup key = none) (e : LErr)
    (hfail : (eval env (f+2) s (.load key Prog.ret')).2 = .err e) :
    (eval env (f+2) s (.load key Prog.ret')).1 =
      (loadAndRecord env (fun s => eval env (f+1) s ((env.types key.ty).prog key.id)) key
        (s.record (recordsAsset (env.types key.ty).hot env.hasReloader) (.asset key))).1 := by
  simp only [eval] at hfail ⊢
  rw [St.record_lookup, habs] at hfail ⊢
  simp only [] at hfail ⊢
  generalize loadAndRecord env _ key _ = r at hfail ⊢
  obtain ⟨s1, o⟩ := r
  cases o with
  | ok v => simp [eval, Prog.ret'] at hfail
  | err e' => simp [cont, eval, Prog.ret']
  | panicked => simp [cont] at hfail
  | diverged => simp [cont] at hfail

/-- `load_owned` never caches the asset it returns: the state afterwards is what evaluating the
loader left. -/
theorem C02_load_owned_adds_nothing_of_its_own (env : Env) (f : Nat) (s : St) (key : Key) :
    (eval env (f+2) s (.loadOwned key Prog.ret')).1.core =
      (loadAndRecord env (fun s => eval env (f+1) s ((env.types key.ty).prog key.id)) key
        (s.record (recordsAsset (env.types key.ty).hot env.hasReloader) (.asset key))).1.core := by
  simp only [eval]
  generalize loadAndRecord env _ key _ = r
  obtain ⟨s1, o⟩ := r
  cases o <;> simp [cont, eval, Prog.ret']

/-- A successful `load` of an absent key caches it (keep-first: if a nested load already cached
the key, that entry survives) and the handle's value is the cached one. -/
theorem C02_load_caches (env : Env) (f : Nat) (s : St) (key : Key) (v : Val)
    (hok : (eval env (f+2) s (.load key Prog.ret')).2 = .ok v) :
    ∃ c, (eval env (f+2) s (.load key Prog.ret')).1.lookup key = some c ∧ c.val = v := by
  simp only [eval] at hok ⊢
  rw [St.record_lookup] at hok ⊢
  cases hl : s.lookup key with
  | some c =>
    simp only [hl] at hok ⊢
    simp only [Prog.ret', eval] at hok ⊢
    exact ⟨c, by simpa using hl, by simpa using hok⟩
  | none =>
    simp only [hl] at hok ⊢
    generalize loadAndRecord env _ key _ = r at hok ⊢
    obtain ⟨s1, o⟩ := r
    cases o with
    | ok v' =>
      simp only [Prog.ret', eval] at hok ⊢
      have := St.insertKeepFirst_lookup s1 key (newCell env key.ty v' s1.next)
      refine ⟨_, ?_, by simpa using hok⟩
      simpa [St.lookup] using this.1
    | err e => simp [cont, eval, Prog.ret'] at hok
    | panicked => simp [cont] at hok
    | diverged => simp [cont] at hok

/-! ## Histories of front-end operations (every length, every loader, every source)

The single-step facts above lifted to arbitrary operation sequences of `World.step`: an entry lives, at the same
address and with the same value, until an operation names it for deletion; and only `load`, `load_owned` (through
the assets its loader requests) and `get_or_insert` can ever make a key appear. -/

/-- the operations that delete key `k` -/
def deletes (k : Key) : Op → Bool
  | .remove k' => decide (k' = k)
  | .take k' => decide (k' = k)
  | .clear => true
  | _ => false

/-- the operations that may add entries -/
def mayAdd : Op → Bool
  | .load _ => true
  | .loadOwned _ => true
  | .getOrInsert _ _ => true
  | _ => false

/-- a history of API operations; the environment (source contents, loaders) may differ at every step -/
def runOps (f : Nat) : St → List (Env × Op) → St
  | s, [] => s
  | s, (env, op) :: ops => runOps f (step env f s op).1 ops

theorem evalTop_lookup (env : Env) (f : Nat) (s : St) (p : Prog) (k : Key) (c : Cell) (h : s.lookup k = some c) :
    (evalTop env f s p).1.lookup k = some c := by
  have := eval_mono env f { s with recs := [] } p k c h
  exact this

/-- One step keeps every entry it does not name for deletion: same cell (address, value, flags). -/
theorem C02_step_keeps (env : Env) (f : Nat) (s : St) (op : Op) (k : Key) (c : Cell)
    (hd : deletes k op = false) (h : s.lookup k = some c) : (step env f s op).1.lookup k = some c := by
  cases op with
  | load key =>
    have h1 : (step env f s (.load key)).1 = (evalTop env f s (.load key Prog.ret')).1 := by
      simp only [step]
      generalize evalTop env f s _ = r
      obtain ⟨s1, o⟩ := r
      cases o <;> rfl
    rw [h1]; exact evalTop_lookup env f s _ k c h
  | loadOwned key => exact evalTop_lookup env f s _ k c h
  | getCached key => exact h
  | contains key => exact h
  | getOrInsert key v =>
    by_cases hk : k = key
    · subst hk
      have := (C02_getOrInsert_keeps env f s k v c h).1
      rw [this]; simpa using h
    · rw [(C02_getOrInsert_adds_other env f s key v k hk)]; exact h
  | remove key =>
    have hk : k ≠ key := by intro e; subst e; simp [deletes] at hd
    rw [((C02_remove_take_exact env f s key).2.2.1 k hk).1]; exact h
  | take key =>
    have hk : k ≠ key := by intro e; subst e; simp [deletes] at hd
    rw [((C02_remove_take_exact env f s key).2.2.1 k hk).2]; exact h
  | clear => simp [deletes] at hd

/-- **An entry lives until it is deleted**: over every history in which no operation removes, takes or clears `k`,
the entry stored under `k` is still there, at the same address, with the same value. -/
theorem C02_history_keeps (f : Nat) (ops : List (Env × Op)) (s : St) (k : Key) (c : Cell)
    (hd : ∀ eo ∈ ops, deletes k eo.2 = false) (h : s.lookup k = some c) : (runOps f s ops).lookup k = some c := by
  induction ops generalizing s with
  | nil => exact h
  | cons eo ops ih =>
    obtain ⟨env, op⟩ := eo
    exact ih _ (fun e he => hd e (List.mem_cons_of_mem _ he)) (C02_step_keeps env f s op k c (hd _ (List.mem_cons_self ..)) h)

/-- Look-ups and deletions add nothing: whatever is cached after such a step was cached before, unchanged. -/
theorem C02_step_adds_only_by_adders (env : Env) (f : Nat) (s : St) (op : Op) (k : Key) (c : Cell)
    (ha : mayAdd op = false) (h : (step env f s op).1.lookup k = some c) : s.lookup k = some c := by
  cases op with
  | load key => simp [mayAdd] at ha
  | loadOwned key => simp [mayAdd] at ha
  | getOrInsert key v => simp [mayAdd] at ha
  | getCached key => exact h
  | contains key => exact h
  | remove key =>
    by_cases hk : k = key
    · subst hk; rw [(C02_remove_take_exact env f s k).1] at h; cases h
    · rw [((C02_remove_take_exact env f s key).2.2.1 k hk).1] at h; exact h
  | take key =>
    by_cases hk : k = key
    · subst hk; rw [(C02_remove_take_exact env f s k).2.1] at h; cases h
    · rw [((C02_remove_take_exact env f s key).2.2.1 k hk).2] at h; exact h
  | clear => rw [C02_clear_exact] at h; cases h

/-- **Only loads and `get_or_insert` add**: over every history made of `get_cached`, `contains`, `remove`, `take`
and `clear`, every entry present at the end was present at the start, unchanged. -/
theorem C02_history_adds_only_by_adders (f : Nat) (ops : List (Env × Op)) (s : St) (k : Key) (c : Cell)
    (ha : ∀ eo ∈ ops, mayAdd eo.2 = false) (h : (runOps f s ops).lookup k = some c) : s.lookup k = some c := by
  induction ops generalizing s with
  | nil => exact h
  | cons eo ops ih =>
    obtain ⟨env, op⟩ := eo
    exact C02_step_adds_only_by_adders env f s op k c (ha _ (List.mem_cons_self ..))
      (ih _ (fun e he => ha e (List.mem_cons_of_mem _ he)) h)

/-- **Keys never interfere**: an operation that names key `key` and is not a load (loads may request other assets)
leaves every other key exactly as it was — in particular the same id under another type, and another id under the same type. -/
theorem C02_other_keys_untouched (env : Env) (f : Nat) (s : St) (key k : Key) (v : Val) (hk : k ≠ key) :
    (step env f s (.getOrInsert key v)).1.lookup k = s.lookup k ∧
    (step env f s (.getCached key)).1.lookup k = s.lookup k ∧
    (step env f s (.contains key)).1.lookup k = s.lookup k ∧
    (step env f s (.remove key)).1.lookup k = s.lookup k ∧
    (step env f s (.take key)).1.lookup k = s.lookup k :=
  ⟨C02_getOrInsert_adds_other env f s key v k hk, rfl, rfl,
   ((C02_remove_take_exact env f s key).2.2.1 k hk).1, ((C02_remove_take_exact env f s key).2.2.1 k hk).2⟩

/-- After a deletion the key is absent, whatever came before (so `remove`; `contains` answers false for every history). -/
theorem C02_history_then_delete (f : Nat) (ops : List (Env × Op)) (s : St) (env : Env) (k : Key) :
    (runOps f s (ops ++ [(env, .remove k)])).lookup k = none ∧
    (runOps f s (ops ++ [(env, .take k)])).lookup k = none ∧
    (runOps f s (ops ++ [(env, .clear)])).lookup k = none := by
  have app : ∀ (ops : List (Env × Op)) (s : St) (eo : Env × Op), runOps f s (ops ++ [eo]) = (step eo.1 f (runOps f s ops) eo.2).1 := by
    intro ops
    induction ops with
    | nil => intro s eo; rfl
    | cons a ops ih => intro s eo; exact ih _ eo
  refine ⟨?_, ?_, ?_⟩
  · rw [app]; exact (C02_remove_take_exact env f _ k).1
  · rw [app]; exact (C02_remove_take_exact env f _ k).2.1
  · rw [app]; exact C02_clear_exact env f _ k

/-! Non-vacuity -/
example : (SMap.run (fun k => k.id.length) ⟨4, fun _ => []⟩
    [.insert ⟨0, "a"⟩ ⟨.int 1, false, 0, false, 0⟩, .insert ⟨0, "a"⟩ ⟨.int 2, false, 0, false, 1⟩, .get ⟨1, "a"⟩]).length = 3 := by decide

theorem runOps_append (f : Nat) (a b : List (Env × Op)) (s : St) : runOps f s (a ++ b) = runOps f (runOps f s a) b := by
  induction a generalizing s with
  | nil => rfl
  | cons x a ih => obtain ⟨env, op⟩ := x; exact ih _

/-- **One handle for the life of the entry**: once `k` is cached, every `get_cached`, `load` hit and `get_or_insert` issued at any
two points of a history without deletion of `k` — under whatever source contents and loaders — answers the same handle: same
address, same value. (Over `World.step`, i.e. without reloads; with reloads the address is still the same: C01 / C07.) -/
theorem C02_same_handle_along_history (f : Nat) (ops1 ops2 : List (Env × Op)) (s : St) (k : Key) (c : Cell) (env env' : Env) (v : Val)
    (hd : ∀ eo ∈ ops1 ++ ops2, deletes k eo.2 = false) (h : s.lookup k = some c) :
    (step env f (runOps f s ops1) (.getCached k)).2 = .handle c.addr c.val ∧
    (step env' f (runOps f s (ops1 ++ ops2)) (.getCached k)).2 = .handle c.addr c.val ∧
    (step env' f (runOps f s (ops1 ++ ops2)) (.getOrInsert k v)).2 = .handle c.addr c.val := by
  have h1 := C02_history_keeps f ops1 s k c (fun e he => hd e (List.mem_append_left _ he)) h
  have h2 := C02_history_keeps f (ops1 ++ ops2) s k c hd h
  refine ⟨?_, ?_, ?_⟩
  · simp only [step, h1]
  · simp only [step, h2]
  · simp only [step, h2]

/-! Non-vacuity of the history theorems: a concrete source, a history with loads of three keys (same id under two
types, another id), a `get_or_insert`, and deletions of the other keys only — the first entry is still at address 0. -/
def exEnv (n : Int) : Env :=
  { read := fun _ _ _ => .ok [], readDir := fun _ _ => .ok [],
    types := fun _ => { hot := true, prog := fun _ => .ret (.int n) }, hasReloader := true }
def exOps : List (Env × Op) :=
  [(exEnv 1, .load ⟨0, "a"⟩), (exEnv 2, .load ⟨1, "a"⟩), (exEnv 3, .load ⟨0, "b"⟩), (exEnv 4, .getOrInsert ⟨0, "a"⟩ (.int 9)),
   (exEnv 5, .remove ⟨1, "a"⟩), (exEnv 6, .take ⟨0, "b"⟩), (exEnv 7, .load ⟨0, "a"⟩)]
example : (∀ eo ∈ exOps, deletes ⟨0, "a"⟩ eo.2 = false) ∧
    ((runOps 5 {} (exOps.take 1)).lookup ⟨0, "a"⟩).map (fun c => (c.addr, c.val)) = some (0, .int 1) ∧
    ((runOps 5 {} exOps).lookup ⟨0, "a"⟩).map (fun c => (c.addr, c.val)) = some (0, .int 1) ∧
    (runOps 5 {} exOps).lookup ⟨1, "a"⟩ = none ∧ (runOps 5 {} exOps).lookup ⟨0, "b"⟩ = none := by
  refine ⟨by decide, by decide, by decide, by decide, by decide⟩

end AmVerif.Props.C02
