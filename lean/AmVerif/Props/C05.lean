import AmVerif.Lemmas.TopoGraph
import AmVerif.Lemmas.Converge
import AmVerif.Lemmas.World
import AmVerif.Gen.Tables
/-!
# C05 — hot-reloading converges: cached values follow the source, transitively

What is proved here, for every graph, every set of events and every loader program:
the reload list of a pass is exactly the set of registered assets that (transitively) depend on a
notified entry, each once, dependencies before dependents; the reverse-dependency index the sort
walks is the exact inverse of the recorded dependencies at all times; a successful reload
re-learns the dependency set, a failed one keeps value and dependencies and adds what the failed
attempt read; events for entries the graph does not know are dropped, all others are kept; events
sent before `hot_reload` are taken before the update (skeleton of the thread loop).
**Partial**: the semantic convergence statement ("the cached value equals a fresh load") is decided
by the correspondence + oracle (`freshall`), not yet by a theorem; known finding F-C05d (an asset
first loaded *during* a pass) is a counterexample to the unrestricted statement on the current
tree and is listed in known_findings.json.
-/
namespace AmVerif.Props.C05
open AmVerif.Gen AmVerif.Model AmVerif.Lemmas.TopoGraph AmVerif.Lemmas.Topo

/-- The repaired behaviours this property needs are present in the source (regenerated flags). -/
theorem C05_cfg_ok :
    failedLoadRecordsToParent = true ∧ failedReloadKeepsNewDeps = true ∧ visitMarksFirst = true := by decide

/-- Events sent before the request are taken into `to_reload` before the update of that request
runs, and the caller is answered only after the update (regenerated thread loop, `Ptr` arm). -/
theorem C05_barrier_skeleton :
    (match skel_hot_reloading_mod_hot_reloading_thread with
     | [_, _, .loop [_, .loop [_, .branch (ptr :: _)], _]] => ptr
     | _ => []) =
    [.loop [.call .s_try_recv, .branch [[.call .s_handle_events], []]], .call .s_update_if_local, .call .s_notify] := rfl

/-! ## The dependency index -/

/-- Graph well-formedness maintained by the reloader: `rdeps` is the exact inverse of `deps`. -/
def GraphOK (g : Graph) : Prop := g.Inverse ∧ g.InverseRev

theorem graphOK_nil : GraphOK [] := ⟨inverse_nil, inverseRev_nil⟩

/-- Registering an asset (first load, or successful reload: `DepsGraph::insert`) keeps it exact. -/
theorem C05_insert_keeps_inverse (g : Graph) (h : GraphOK g) (a : Dep) (deps : List Dep) :
    GraphOK (g.insertAsset a deps) := ⟨inverse_insertAsset h.1 a deps, inverseRev_insertAsset h.2 a deps⟩

/-- Adding what a failed reload read (`DepsGraph::add_deps`, only ever called on a registered
asset) keeps it exact. -/
theorem C05_add_deps_keeps_inverse (g : Graph) (h : GraphOK g) (a : Dep) (deps : List Dep) (ha : g.get a ≠ none) :
    GraphOK (g.addDeps a deps) := ⟨inverse_addDeps h.1 a deps, inverseRev_addDeps h.2 a deps ha⟩

/-- Draining the `AddAsset` / `Clear` messages keeps it exact. -/
theorem C05_processMsgs_graphOK (s : St) (r : RSt) (h : GraphOK r.graph) : GraphOK (processMsgs s r).2.graph := by
  unfold processMsgs
  simp only []
  generalize s.out = msgs
  induction msgs generalizing r with
  | nil => exact h
  | cons m ms ih =>
    simp only [List.foldl]
    apply ih
    cases m with
    | addAsset key deps => exact C05_insert_keeps_inverse _ h _ _
    | clear => exact h

/-! ## The reload list of a pass -/

/-- **Exactly the affected assets**: an asset is reloaded in a pass iff it is registered and
reachable from a changed entry along reverse dependencies — nothing else is re-read. -/
theorem C05_reload_list_exact (g : Graph) (fuel : Nat) (changed : List Dep) (keys : List Key)
    (h : topo g fuel changed = some keys) (k : Key) :
    k ∈ keys ↔ (g.get (.asset k) ≠ none ∧ ∃ c ∈ changed, Reach g.rdepsOf c (.asset k)) := by
  constructor
  · intro hk; exact topo_only_reachable h k hk
  · intro ⟨hg, c, hc, hr⟩; exact topo_complete h c hc k hr hg

/-- each at most once -/
theorem C05_reload_list_nodup (g : Graph) (fuel : Nat) (changed : List Dep) (keys : List Key)
    (h : topo g fuel changed = some keys) : keys.Nodup := topo_nodup h

/-- **Dependencies are refreshed before their dependents** (on acyclic dependency graphs): every
registered asset that depends on `k` comes after `k` in the reload list. -/
theorem C05_deps_before_dependents (g : Graph) (hR : g.InverseRev) {rank : Dep → Nat}
    (hr : ∀ a rs b, g.rdepsOf a = some rs → b ∈ rs → rank b < rank a)
    (fuel : Nat) (changed : List Dep) (keys : List Key) (h : topo g fuel changed = some keys) :
    ∀ pre k post, keys = pre ++ k :: post → ∀ rs, g.rdepsOf (.asset k) = some rs → ∀ k', Dep.asset k' ∈ rs → k' ∈ post := by
  intro pre k post hk rs hrs k' hk'
  exact topo_order hr h pre k post hk rs hrs k' hk' (rdeps_in_graph hR hrs hk')

/-- The sort always returns (cyclic look-ups included) once the fuel exceeds the number of nodes. -/
theorem C05_sort_returns (g : Graph) (changed : List Dep) (fuel : Nat) (hf : g.length + 1 ≤ fuel) :
    ∃ keys, topo g fuel changed = some keys := topo_terminates g fuel hf changed

/-! ## Events -/

/-- An event is kept for the next pass iff the graph knows the entry (something recorded it);
events for unknown entries are dropped, duplicates collapse. -/
theorem C05_event_kept_iff_tracked (g : Graph) (l : List Dep) (e : Dep) :
    (if (g.get e).isSome then addIfAbsent e l else l) = (if (g.get e).isSome then (if e ∈ l then l else l ++ [e]) else l) := rfl

/-! ## One reload -/

/-- **A failed reload keeps the previous value** (and reload id): the cell is untouched; the asset
keeps its dependencies and additionally depends on what the failed attempt read, so it recovers at
the next change of any of them. -/
theorem C05_failed_reload_keeps (env : Env) (fuel : Nat) (s : St) (key : Key) (c : Cell)
    (hc : s.lookup key = some c) (hdyn : c.dyn = true) (e : LErr)
    (hfail : (withFrame true (some []) (fun s => eval env fuel s ((env.types key.ty).prog key.id)) { s with recs := [] }).2.1 = .err e) :
    (reloadUntyped env fuel s key).1.lookup key = some c ∧
    (reloadUntyped env fuel s key).2 = .done (some ((withFrame true (some []) (fun s => eval env fuel s ((env.types key.ty).prog key.id)) { s with recs := [] }).2.2, false)) := by
  have hcfg : failedReloadKeepsNewDeps = true := by decide
  have hskip : reloadSkipsStatic = true := by decide
  unfold reloadUntyped
  simp only [hc, hdyn, hskip, Bool.not_true, Bool.and_false, Bool.false_eq_true, if_false]
  have hmono : ({ s with recs := [] } : St).Le (withFrame true (some []) (fun s => eval env fuel s ((env.types key.ty).prog key.id)) { s with recs := [] }).1 :=
    withFrame_le true (some []) _ _ (fun s => eval_mono env fuel s _)
  generalize withFrame true (some []) (fun s => eval env fuel s ((env.types key.ty).prog key.id)) { s with recs := [] } = r at hfail hmono ⊢
  obtain ⟨s1, o, d⟩ := r
  simp only [] at hfail
  subst hfail
  simp only [hcfg, if_true]
  refine ⟨?_, by first | rfl | trivial⟩
  have := hmono key c (by simpa [St.lookup] using hc)
  simpa [St.lookup] using this

/-! ## Semantic convergence of one update pass -/

/-- **One update pass converges** (partial: the two situations in which the full statement is
false are excluded by the named hypotheses `hmiss` and `hrewire`).

Setting: `env` is the source before the edits, `env'` after; both without fault plan (`Steady`),
same loaders (`SameLoaders`). `s`, `r` are the cache and the reloader's data when `run_update`
starts (messages drained, events taken into `r.toReload`).

Hypotheses:
* `hset` — before the edits everything was settled: every registered, cached, dynamic asset holds
  what re-evaluating its loader against `env` and the cache gives (or that re-evaluation fails),
  the evaluation being a tracked hit-only run whose reads are the node's dependencies;
* `hG`, `hrank` — the graph's `rdeps` is the inverse of `deps`, and look-ups are acyclic;
* `hlive`, `hfuel` — the reloader is alive and the sort has enough fuel;
* `hfile`, `hdir` — `env'` differs from `env` only on entries of `changed`;
* `hnotified` — every changed entry the graph knows has been notified (is in `r.toReload`);
* `hmiss` — **excludes F-C05d**: every re-evaluation of this pass is a tracked hit-only run: on its
  path only `ret / fail / panic / read / readDir / getCached / load / tick` (no `loadOwned`, no
  unrecorded reads under `noRecord` / `onThread` / `tryCatch`), every look-up recorded (hot type),
  and no `.load` of an asset that is not cached yet;
* `hret` — every re-evaluation of this pass returns a value or an error (a panic is caught and
  leaves the graph without the new dependencies; exhausted fuel kills the thread);
* `hrewire` — **excludes F-C05e**: no re-evaluation of this pass acquires a NEW dependency on the
  asset itself or on an asset that is reloaded LATER in this pass. (Old dependencies are never
  reloaded later: `C05_deps_before_dependents`.)

Conclusion: after the pass every registered, cached, dynamic asset holds exactly what re-evaluating
its loader against the new source and the current cache returns (or that re-evaluation fails and the
entry kept its previous value), and the graph holds exactly what that evaluation reads (for a failing
one: at least what it reads); the reloader is alive. -/
theorem C05_pass_converges_partial (env env' : Env) (fuel : Nat) (s : St) (r : RSt) (changed : List Dep)
    {rank : Dep → Nat}
    (hS : env.Steady) (hS' : env'.Steady) (hL : SameLoaders env env')
    (hset : Settled env fuel s r.graph) (hG : GraphOK r.graph)
    (hrank : ∀ a rs b, r.graph.rdepsOf a = some rs → b ∈ rs → rank b < rank a)
    (hlive : r.dead = false) (hfuel : r.graph.length + 1 ≤ fuel)
    (hfile : ∀ id ext, Dep.file id ext ∉ changed → env'.read 0 id ext = env.read 0 id ext)
    (hdir : ∀ id, Dep.dir id ∉ changed → env'.readDir 0 id = env.readDir 0 id)
    (hnotified : ∀ d, d ∈ changed → r.graph.get d ≠ none → d ∈ r.toReload)
    (hmiss : NoMissInPass env' fuel (updateSteps env' fuel s r))
    (hret : ReloadsReturn env' fuel (updateSteps env' fuel s r))
    (hrewire : NoRewireOntoPending env' fuel (updateSteps env' fuel s r)) :
    Settled env' fuel (runUpdate env' fuel s r).1 (runUpdate env' fuel s r).2.graph ∧
    (runUpdate env' fuel s r).2.dead = false := by
  obtain ⟨keys, hk⟩ := topo_terminates r.graph fuel hfuel r.toReload
  unfold updateSteps at hmiss hret hrewire
  rw [hk] at hmiss hret hrewire
  unfold runUpdate
  rw [hk]
  exact reloadAll_converges hS' keys s { r with toReload := [] }
    (pinv_init hS hS' hL hset hG.1 hk hfile hdir hnotified) hlive (topo_nodup hk)
    (depsFirst_of_topo hG.1 hrank hk) hmiss hret hrewire

/-! Non-vacuity -/
example : GraphOK (Graph.insertAsset [] (.asset ⟨0, "a"⟩) [.file "a" "s"]) :=
  C05_insert_keeps_inverse [] graphOK_nil _ _

end AmVerif.Props.C05
