import AmVerif.Model.Reload
import AmVerif.Gen.Tables
/-!
# C05 — hot-reloading converges (work in progress)
-/
namespace AmVerif.Props.C05
open AmVerif.Gen AmVerif.Model

/-- The repaired behaviours this property needs are present in the source (regenerated flags). -/
theorem C05_cfg_ok :
    failedLoadRecordsToParent = true ∧ failedReloadKeepsNewDeps = true := by decide

end AmVerif.Props.C05
