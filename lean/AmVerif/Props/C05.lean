import AmVerif.Gen.Skel
import AmVerif.Lemmas.TopoGraph
import AmVerif.Lemmas.Converge
import AmVerif.Lemmas.Settle
import AmVerif.Lemmas.StaticMode
import AmVerif.Lemmas.HistMore
import AmVerif.Model.History
import AmVerif.Lemmas.World
import AmVerif.Gen.TabLock
/-!
# C05 — hot-reloading converges: cached values follow the source, transitively

What is proved here, for every graph, every set of events and every loader program:
the reload list of a pass is exactly the set of registered assets that (transitively) depend on a
notified entry, each once, dependencies before dependents; the reverse-dependency index the sort
walks is the exact inverse of the recorded dependencies at all times; a successful reload
re-learns the dependency set, a failed one keeps value and dependencies and adds what the failed
attempt read; events for entries the graph does not know are dropped, all others are kept; events
sent before `hot_reload` are taken before the update (skeleton of the thread loop).
**Semantic convergence** ("the cached value equals a fresh load") is proved for one update pass
(`C05_pass_converges_partial`, `C05_hot_reload_converges_partial`) from read-set determinacy
(`C05_read_set_determinacy`): after the pass every registered cached asset is `Settled` — it holds
what re-evaluating its loader against the new source and the current cache returns, and its node
holds what that evaluation reads. **Partial**: the unrestricted statement is false of the code and of
the model in the two order-dependent situations recorded as known findings; they are excluded by
named hypotheses (`NoMissInPass` for F-C05d, `NoRewireOntoPending` for F-C05e) and each is shown to be
necessary by a concrete counterexample (`C05_full_statement_false_miss`,
`C05_full_statement_false_rewire`). Reads under `no_record`, on helper threads, inside
`catch_unwind(no_record(..))` and through `load_owned` are outside the statement (a tracked hit-only
run meets none of them), as are assets of types that are not hot-reloaded.
**Loading establishes and preserves `Settled`** (`C05_load_settles_partial`, over histories of loads and
`hot_reload`s `C05_history_settled_partial`, combined with a pass `C05_load_edit_reload_converges_partial`):
after a load and after the reloader has taken its registrations, every registered cached asset —
those the load cached on the way included — is settled, under the named hypotheses `CleanLoad` (no
absorbed failure of a nested load, no `get_cached` probe of a key that is cached before the load
returns) and `NoProbedKeyFilled`; each is necessary (`C05_load_settles_false_absorbed`,
`C05_load_settles_false_probe`, `C05_load_preserves_false_fill`). No hypothesis on fuel or result.
**Static mode** (`enhance_hot_reloading`; `Lemmas/StaticMode.lean`): the cache follows the source by itself —
one batch of events is applied when `handle_events` returns (`C05_static_events_converge_partial`, with
registrations still in the channel `C05_static_events_converge_pending_partial`), the switch applies what was
notified and not applied yet (`C05_enhance_converges_partial`), `hot_reload()` is a no-op
(`C05_hot_reload_static_idle`), and over histories of loads, `hot_reload()`s, notifications and switches under
one environment everything is settled after every reloader step (`C05_static_history_partial`, which contains
`C05_history_settled_partial`: `C05_static_history_extends`). The pass is the same `run_update`: same named
hypotheses, on the steps of the pass the entry point runs; both stay necessary in static mode
(`C05_static_statement_false_rewire`, `C05_static_statement_false_miss`).
**Histories with `clear` and `load_owned`** (`Lemmas/HistMore.lean`): `C05_history_with_clear_partial` extends
`C05_static_history_partial` with `clear` steps (no hypothesis: the registrations still in the channel become
stale, and the last registration of a key wins — `C05_last_registration_wins`),
`C05_history_with_load_owned_partial` extends it further with `load_owned` from the API (a registration for a
key that is not cached; the assets cached on the way are registered as by a load). `load_owned` nested in a
loader is outside `Settled` by definition (`C05_nested_load_owned_never_settled`).
-/
namespace AmVerif.Props.C05
open AmVerif.Gen AmVerif.Model AmVerif.Lemmas.TopoGraph AmVerif.Lemmas.Topo

/-- The repaired behaviours this property needs are present in the source (regenerated flags). -/
theorem C05_cfg_ok :
    failedLoadRecordsToParent = true ∧ failedReloadKeepsNewDeps = true ∧ visitMarksFirst = true := by decide

/-- Events sent before the request are taken into `to_reload` before the update of that request
runs, and the caller is answered only after the update (regenerated thread loop, `Ptr` arm). -/
theorem C05_barrier_skeleton :
    (match skel_hot_reloading_mod_hot_reloading_thread with
     | [_, _, .loop [_, .loop [_, .branch (ptr :: _)], _]] => ptr
     | _ => []) =
    [.loop [.call .s_try_recv, .branch [[.call .s_handle_events], []]], .call .s_update_if_local, .call .s_notify] := rfl

/-! ## The dependency index -/

/-- Graph well-formedness maintained by the reloader: `rdeps` is the exact inverse of `deps`. -/
def GraphOK (g : Graph) : Prop := g.Inverse ∧ g.InverseRev

theorem graphOK_nil : GraphOK [] := ⟨inverse_nil, inverseRev_nil⟩

/-- Registering an asset (first load, or successful reload: `DepsGraph::insert`) keeps it exact. -/
theorem C05_insert_keeps_inverse (g : Graph) (h : GraphOK g) (a : Dep) (deps : List Dep) :
    GraphOK (g.insertAsset a deps) := ⟨inverse_insertAsset h.1 a deps, inverseRev_insertAsset h.2 a deps⟩

/-- Adding what a failed reload read (`DepsGraph::add_deps`, only ever called on a registered
asset) keeps it exact. -/
theorem C05_add_deps_keeps_inverse (g : Graph) (h : GraphOK g) (a : Dep) (deps : List Dep) (ha : g.get a ≠ none) :
    GraphOK (g.addDeps a deps) := ⟨inverse_addDeps h.1 a deps, inverseRev_addDeps h.2 a deps ha⟩

/-- Draining the `AddAsset` / `Clear` messages keeps it exact. -/
theorem C05_processMsgs_graphOK (s : St) (r : RSt) (h : GraphOK r.graph) : GraphOK (processMsgs s r).2.graph := by
  unfold processMsgs
  simp only []
  generalize s.out = msgs
  induction msgs generalizing r with
  | nil => exact h
  | cons m ms ih =>
    simp only [List.foldl]
    apply ih
    cases m with
    | addAsset key deps => exact C05_insert_keeps_inverse _ h _ _
    | clear => exact h

/-! ## The reload list of a pass -/

/-- **Exactly the affected assets**: an asset is reloaded in a pass iff it is registered and
reachable from a changed entry along reverse dependencies — nothing else is re-read. -/
theorem C05_reload_list_exact (g : Graph) (fuel : Nat) (changed : List Dep) (keys : List Key)
    (h : topo g fuel changed = some keys) (k : Key) :
    k ∈ keys ↔ (g.get (.asset k) ≠ none ∧ ∃ c ∈ changed, Reach g.rdepsOf c (.asset k)) := by
  constructor
  · intro hk; exact topo_only_reachable h k hk
  · intro ⟨hg, c, hc, hr⟩; exact topo_complete h c hc k hr hg

/-- each at most once -/
theorem C05_reload_list_nodup (g : Graph) (fuel : Nat) (changed : List Dep) (keys : List Key)
    (h : topo g fuel changed = some keys) : keys.Nodup := topo_nodup h

/-- **Dependencies are refreshed before their dependents** (on acyclic dependency graphs): every
registered asset that depends on `k` comes after `k` in the reload list. -/
theorem C05_deps_before_dependents (g : Graph) (hR : g.InverseRev) {rank : Dep → Nat}
    (hr : ∀ a rs b, g.rdepsOf a = some rs → b ∈ rs → rank b < rank a)
    (fuel : Nat) (changed : List Dep) (keys : List Key) (h : topo g fuel changed = some keys) :
    ∀ pre k post, keys = pre ++ k :: post → ∀ rs, g.rdepsOf (.asset k) = some rs → ∀ k', Dep.asset k' ∈ rs → k' ∈ post := by
  intro pre k post hk rs hrs k' hk'
  exact topo_order hr h pre k post hk rs hrs k' hk' (rdeps_in_graph hR hrs hk')

/-- The sort always returns (cyclic look-ups included) once the fuel exceeds the number of nodes. -/
theorem C05_sort_returns (g : Graph) (changed : List Dep) (fuel : Nat) (hf : g.length + 1 ≤ fuel) :
    ∃ keys, topo g fuel changed = some keys := topo_terminates g fuel hf changed

/-! ## Events -/

/-- An event is kept for the next pass iff the graph knows the entry (something recorded it);
events for unknown entries are dropped, duplicates collapse. -/
theorem C05_event_kept_iff_tracked (g : Graph) (l : List Dep) (e : Dep) :
    (if (g.get e).isSome then addIfAbsent e l else l) = (if (g.get e).isSome then (if e ∈ l then l else l ++ [e]) else l) := rfl

/-! ## One reload -/

/-- **A failed reload keeps the previous value** (and reload id): the cell is untouched; the asset
keeps its dependencies and additionally depends on what the failed attempt read, so it recovers at
the next change of any of them. -/
theorem C05_failed_reload_keeps (env : Env) (fuel : Nat) (s : St) (key : Key) (c : Cell)
    (hc : s.lookup key = some c) (hdyn : c.dyn = true) (e : LErr)
    (hfail : (withFrame true (some []) (fun s => eval env fuel s ((env.types key.ty).prog key.id)) { s with recs := [] }).2.1 = .err e) :
    (reloadUntyped env fuel s key).1.lookup key = some c ∧
    (reloadUntyped env fuel s key).2 = .done (some ((withFrame true (some []) (fun s => eval env fuel s ((env.types key.ty).prog key.id)) { s with recs := [] }).2.2, false)) := by
  have hcfg : failedReloadKeepsNewDeps = true := by decide
  have hskip : reloadSkipsStatic = true := by decide
  unfold reloadUntyped
  simp only [hc, hdyn, hskip, Bool.not_true, Bool.and_false, Bool.false_eq_true, if_false]
  have hmono : ({ s with recs := [] } : St).Le (withFrame true (some []) (fun s => eval env fuel s ((env.types key.ty).prog key.id)) { s with recs := [] }).1 :=
    withFrame_le true (some []) _ _ (fun s => eval_mono env fuel s _)
  generalize withFrame true (some []) (fun s => eval env fuel s ((env.types key.ty).prog key.id)) { s with recs := [] } = r at hfail hmono ⊢
  obtain ⟨s1, o, d⟩ := r
  simp only [] at hfail
  subst hfail
  simp only [hcfg, if_true]
  refine ⟨?_, by first | rfl | trivial⟩
  have := hmono key c (by simpa [St.lookup] using hc)
  simpa [St.lookup] using this

/-! ## Semantic convergence of one update pass -/

/-- **Read-set determinacy of a reload** (the core lemma, `Lemmas/ReadSet.lean`): if re-evaluating
the loader of `key` under `(env, s)` is a tracked hit-only run — plain constructors on its path,
every `.load` a hit, every look-up recorded — and `(env', t)` agrees with `(env, s)` on every entry it
records (same file / directory content, same cached value or absent in both), then re-evaluating it
under `(env', t)` is a tracked hit-only run with the same outcome and the same record. -/
theorem C05_read_set_determinacy (env env' : Env) (hS : env.Steady) (hS' : env'.Steady) (hL : SameLoaders env env')
    (fuel : Nat) (s t : St) (key : Key) (hh : reloadHit env fuel s key = true)
    (hag : ∀ d ∈ reloadDeps env fuel s key, AgreeOn env env' s t d) :
    reloadHit env' fuel t key = true ∧ reloadOut env' fuel t key = reloadOut env fuel s key ∧
    reloadDeps env' fuel t key = reloadDeps env fuel s key ∧
    (reloadEval env fuel s key).1.map = s.map ∧ (reloadEval env' fuel t key).1.map = t.map := by
  obtain ⟨h1, h2, h3⟩ := reloadEval_readset hS hS' hL fuel s t key hh hag
  exact ⟨h1, h2, h3, reloadHit_map hh, reloadHit_map h1⟩

/-- **Processing one key of a pass** keeps the invariant `PInv` (assets that are not pending are
settled under the new source and read no pending asset; pending assets still have the dependencies
the list was sorted with). -/
theorem C05_pass_step (env' : Env) (hS' : env'.Steady) (fuel : Nat) (g0 : Graph) (k : Key) (rest : List Key)
    (s : St) (r : RSt)
    (hinv : PInv env' fuel g0 (k :: rest) s r.graph) (hdead : r.dead = false)
    (hnd : (k :: rest).Nodup) (hord : DepsFirst g0 (k :: rest))
    (hmiss : NoMissInPass env' fuel [⟨k, rest, s, r⟩])
    (hret : ReloadsReturn env' fuel [⟨k, rest, s, r⟩])
    (hrewire : NoRewireOntoPending env' fuel [⟨k, rest, s, r⟩]) :
    PInv env' fuel g0 rest (reloadAll env' fuel [k] (s, r)).1 (reloadAll env' fuel [k] (s, r)).2.graph ∧
    (reloadAll env' fuel [k] (s, r)).2.dead = false ∧ (reloadAll env' fuel [k] (s, r)).1.out = s.out :=
  pinv_step hS' hinv hdead hnd hord (hmiss _ List.mem_cons_self) (hret _ List.mem_cons_self)
    (hrewire _ List.mem_cons_self)


/-- **One update pass converges** (partial: the two situations in which the full statement is
false are excluded by the named hypotheses `hmiss` and `hrewire`).

Setting: `env` is the source before the edits, `env'` after; both without fault plan (`Steady`),
same loaders (`SameLoaders`). `s`, `r` are the cache and the reloader's data when `run_update`
starts (messages drained, events taken into `r.toReload`).

Hypotheses:
* `hset` — before the edits everything was settled: every registered, cached, dynamic asset holds
  what re-evaluating its loader against `env` and the cache gives (or that re-evaluation fails),
  the evaluation being a tracked hit-only run whose reads are the node's dependencies;
* `hG`, `hrank` — the graph's `rdeps` is the inverse of `deps`, and look-ups are acyclic;
* `hlive`, `hfuel` — the reloader is alive and the sort has enough fuel;
* `hfile`, `hdir` — `env'` differs from `env` only on entries of `changed`;
* `hnotified` — every changed entry the graph knows has been notified (is in `r.toReload`);
* `hmiss` — **excludes F-C05d**: every re-evaluation of this pass is a tracked hit-only run: on its
  path only `ret / fail / panic / read / readDir / getCached / load / tick` (no `loadOwned`, no
  unrecorded reads under `noRecord` / `onThread` / `tryCatch`), every look-up recorded (hot type),
  and no `.load` of an asset that is not cached yet;
* `hret` — every re-evaluation of this pass returns a value or an error (a panic is caught and
  leaves the graph without the new dependencies; exhausted fuel kills the thread);
* `hrewire` — **excludes F-C05e**: no re-evaluation of this pass acquires a NEW dependency on the
  asset itself or on an asset that is reloaded LATER in this pass. (Old dependencies are never
  reloaded later: `C05_deps_before_dependents`.)

Conclusion: after the pass every registered, cached, dynamic asset holds exactly what re-evaluating
its loader against the new source and the current cache returns (or that re-evaluation fails and the
entry kept its previous value), and the graph holds exactly what that evaluation reads (for a failing
one: at least what it reads); the reloader is alive; the pass sent no message to the reloader (no
asset was registered behind the sort's back). -/
theorem C05_pass_converges_partial (env env' : Env) (fuel : Nat) (s : St) (r : RSt) (changed : List Dep)
    {rank : Dep → Nat}
    (hS : env.Steady) (hS' : env'.Steady) (hL : SameLoaders env env')
    (hset : Settled env fuel s r.graph) (hG : GraphOK r.graph)
    (hrank : ∀ a rs b, r.graph.rdepsOf a = some rs → b ∈ rs → rank b < rank a)
    (hlive : r.dead = false) (hfuel : r.graph.length + 1 ≤ fuel)
    (hfile : ∀ id ext, Dep.file id ext ∉ changed → env'.read 0 id ext = env.read 0 id ext)
    (hdir : ∀ id, Dep.dir id ∉ changed → env'.readDir 0 id = env.readDir 0 id)
    (hnotified : ∀ d, d ∈ changed → r.graph.get d ≠ none → d ∈ r.toReload)
    (hmiss : NoMissInPass env' fuel (updateSteps env' fuel s r))
    (hret : ReloadsReturn env' fuel (updateSteps env' fuel s r))
    (hrewire : NoRewireOntoPending env' fuel (updateSteps env' fuel s r)) :
    Settled env' fuel (runUpdate env' fuel s r).1 (runUpdate env' fuel s r).2.graph ∧
    (runUpdate env' fuel s r).2.dead = false ∧ (runUpdate env' fuel s r).1.out = s.out := by
  obtain ⟨keys, hk⟩ := topo_terminates r.graph fuel hfuel r.toReload
  unfold updateSteps at hmiss hret hrewire
  rw [hk] at hmiss hret hrewire
  unfold runUpdate
  rw [hk]
  exact reloadAll_converges hS' keys s { r with toReload := [] }
    (pinv_init hS hS' hL hset hG.1 hk hfile hdir hnotified) hlive (topo_nodup hk)
    (depsFirst_of_topo hG.1 hrank hk) hmiss hret hrewire

/-- A pass keeps the dependency index exact (whatever the reloads do): so the conclusion of
`C05_pass_converges_partial`, together with this, re-establishes `hset`, `hG`, `hlive` and the
drained channel for the next pass. -/
theorem C05_reloadAll_keeps_graphOK (env : Env) (fuel : Nat) :
    ∀ (keys : List Key) (s : St) (r : RSt), GraphOK r.graph → GraphOK (reloadAll env fuel keys (s, r)).2.graph := by
  intro keys
  induction keys with
  | nil => intro s r h; exact h
  | cons k ks ih =>
    intro s r h
    simp only [reloadAll]
    split
    · exact h
    · cases hg : r.graph.get (.asset k) with
      | none => exact ih s r h
      | some node =>
        simp only []
        split
        · generalize reloadUntyped env fuel s k = y
          obtain ⟨s1, o⟩ := y
          cases o with
          | died => exact h
          | done d =>
            cases d with
            | none => exact ih s1 r h
            | some p =>
              obtain ⟨deps, b⟩ := p
              cases b with
              | false => exact ih s1 _ (C05_add_deps_keeps_inverse _ h _ _ (by rw [hg]; simp))
              | true => exact ih s1 _ (C05_insert_keeps_inverse _ h _ _)
        · exact ih s r h

theorem C05_pass_keeps_graphOK (env : Env) (fuel : Nat) (s : St) (r : RSt) (h : GraphOK r.graph) :
    GraphOK (runUpdate env fuel s r).2.graph := by
  unfold runUpdate
  split
  · exact h
  · exact C05_reloadAll_keeps_graphOK env fuel _ s _ h

theorem C05_handleEvents_keeps_graphOK (env : Env) (fuel : Nat) (s : St) (r : RSt) (evs : List Dep)
    (h : GraphOK r.graph) : GraphOK (handleEvents env fuel s r evs).2.graph := by
  unfold handleEvents
  split
  · exact h
  · simp only []
    split
    · exact C05_processMsgs_graphOK _ _ (C05_pass_keeps_graphOK _ _ _ _ (C05_processMsgs_graphOK s r h))
    · exact C05_processMsgs_graphOK s r h

theorem C05_hotReload_keeps_graphOK (env : Env) (fuel : Nat) (s : St) (r : RSt)
    (h : GraphOK r.graph) : GraphOK (hotReload env fuel s r).2.graph := by
  unfold hotReload
  split
  · exact h
  · simp only []
    split
    · exact C05_processMsgs_graphOK s r h
    · exact C05_processMsgs_graphOK _ _ (C05_pass_keeps_graphOK _ _ _ _ (C05_processMsgs_graphOK s r h))

theorem C05_enhance_keeps_graphOK (env : Env) (fuel : Nat) (s : St) (r : RSt)
    (h : GraphOK r.graph) : GraphOK (enhance env fuel s r).2.graph := by
  unfold enhance
  split
  · exact h
  · simp only []
    split
    · exact C05_processMsgs_graphOK s r h
    · exact C05_processMsgs_graphOK _ _ (C05_pass_keeps_graphOK _ _ _ _ (C05_processMsgs_graphOK s r h))

/-- **The dependency index is exact in every reachable state** of a cache with its reloader. -/
theorem C05_history_keeps_graphOK (fuel : Nat) (h : List (Env × HOp)) (x : St × RSt)
    (hx : GraphOK x.2.graph) : GraphOK (runH fuel h x).2.graph := by
  induction h generalizing x with
  | nil => exact hx
  | cons e es ih =>
    simp only [runH]
    apply ih
    obtain ⟨env, op⟩ := e
    obtain ⟨s, r⟩ := x
    cases op with
    | api op => exact hx
    | notify evs => exact C05_handleEvents_keeps_graphOK env fuel s r evs hx
    | hotReload => exact C05_hotReload_keeps_graphOK env fuel s r hx
    | enhance => exact C05_enhance_keeps_graphOK env fuel s r hx

/-- **`hot_reload()` converges** (local mode, no pending `AddAsset` messages): the same statement for
the whole request — drain the messages, run the pass, drain the messages the pass produced (none,
under `hmiss`). The hypotheses are those of `C05_pass_converges_partial`. -/
theorem C05_hot_reload_converges_partial (env env' : Env) (fuel : Nat) (s : St) (r : RSt) (changed : List Dep)
    {rank : Dep → Nat}
    (hS : env.Steady) (hS' : env'.Steady) (hL : SameLoaders env env')
    (hset : Settled env fuel s r.graph) (hG : GraphOK r.graph)
    (hrank : ∀ a rs b, r.graph.rdepsOf a = some rs → b ∈ rs → rank b < rank a)
    (hlive : r.dead = false) (hfuel : r.graph.length + 1 ≤ fuel)
    (hdrained : s.out = []) (hlocal : r.static_ = false)
    (hfile : ∀ id ext, Dep.file id ext ∉ changed → env'.read 0 id ext = env.read 0 id ext)
    (hdir : ∀ id, Dep.dir id ∉ changed → env'.readDir 0 id = env.readDir 0 id)
    (hnotified : ∀ d, d ∈ changed → r.graph.get d ≠ none → d ∈ r.toReload)
    (hmiss : NoMissInPass env' fuel (updateSteps env' fuel s r))
    (hret : ReloadsReturn env' fuel (updateSteps env' fuel s r))
    (hrewire : NoRewireOntoPending env' fuel (updateSteps env' fuel s r)) :
    Settled env' fuel (hotReload env' fuel s r).1 (hotReload env' fuel s r).2.graph ∧
    (hotReload env' fuel s r).2.dead = false := by
  obtain ⟨h1, h2, h3⟩ := C05_pass_converges_partial env env' fuel s r changed hS hS' hL hset hG hrank hlive hfuel
    hfile hdir hnotified hmiss hret hrewire
  have e : hotReload env' fuel s r = runUpdate env' fuel s r := by
    unfold hotReload
    simp only [hlive, processMsgs_nil s r hdrained, hlocal, Bool.false_eq_true, if_false]
    exact processMsgs_nil _ _ (h3.trans hdrained)
  rw [e]
  exact ⟨h1, h2⟩

/-! ## Concrete instances: non-vacuity, and the two refutations of the unrestricted statement -/

/-- scripts of a tiny asset type, as bytes: `[n]` is the script `n`, `[n, 0]` is `n +S0:e`,
`[n, _]` is `n +S0:n` -/
def exToks : List UInt8 → Option (List Tok)
  | [n] => some [.lit n.toNat]
  | [n, t] => some [.lit n.toNat, .load 0 (if t = 0 then "e" else "n")]
  | _ => none

/-- read `id.s`, interpret the script (`scriptProg` of `Model/Types.lean`) -/
def exProg (id : String) : Prog :=
  .read id "s" fun r =>
    match r with
    | .error e => .fail (.io e)
    | .ok bytes =>
      match exToks bytes with
      | none => .fail (.custom "parse")
      | some toks => scriptProg toks 0

/-- a source with the files `b.s`, `e.s` and `n.s` (always the script `0 +S0:e`); one hot-reloaded
type; a cache with reloader -/
def exEnv (b e : List UInt8) : Env :=
  { read := fun _ id ext =>
      if id = "b" ∧ ext = "s" then .ok b
      else if id = "e" ∧ ext = "s" then .ok e
      else if id = "n" ∧ ext = "s" then .ok [0, 0]
      else .error ⟨true, "NotFound", id⟩
    readDir := fun _ _ => .ok []
    types := fun _ => { hot := true, prog := exProg }
    hasReloader := true }

def kb : Key := ⟨0, "b"⟩
def ke : Key := ⟨0, "e"⟩

theorem exEnv_steady (b e : List UInt8) : (exEnv b e).Steady := ⟨fun _ _ _ _ => rfl, fun _ _ _ => rfl, fun _ _ => rfl⟩
theorem exEnv_same (b e b' e' : List UInt8) : SameLoaders (exEnv b e) (exEnv b' e') := ⟨rfl, rfl, fun _ _ => rfl⟩

/-- files rank above assets -/
def exRank : Dep → Nat
  | .asset k => if k = kb then 0 else 1
  | _ => 2

/-- a cache holding `e` and `b` with the given values -/
def exSt (vb ve : Int) : St :=
  { map := [(ke, ⟨.int ve, true, 0, false, 0⟩), (kb, ⟨.int vb, true, 0, false, 1⟩)], next := 2 }

/-- `b = 1 +S0:e`, `e = 10`, both loaded; `e.s` has been edited and notified -/
def exChain : RSt :=
  { graph := (Graph.insertAsset [] (.asset ke) [.file "e" "s"]).insertAsset (.asset kb) [.file "b" "s", .asset ke],
    toReload := [.file "e" "s"] }

theorem exChain_graphOK : GraphOK exChain.graph :=
  C05_insert_keeps_inverse _ (C05_insert_keeps_inverse [] graphOK_nil (.asset ke) [.file "e" "s"]) (.asset kb)
    [.file "b" "s", .asset ke]

theorem exEnv_unchanged_e (b e e' : List UInt8) :
    ∀ id ext, Dep.file id ext ∉ [Dep.file "e" "s"] → (exEnv b e').read 0 id ext = (exEnv b e).read 0 id ext := by
  intro id ext h
  simp only [exEnv]
  split
  · rfl
  · split
    · rename_i h2; exact absurd (by rw [h2.1, h2.2]; exact List.mem_singleton.mpr rfl) h
    · rfl

/-- **Non-vacuity** of `C05_pass_converges_partial`: the chain `b → e`, `e.s` edited from `10` to
`20`: all hypotheses hold; the computed pass gives `e = 20`, `b = 21`. -/
example :
    Settled (exEnv [1, 0] [20]) 10 (runUpdate (exEnv [1, 0] [20]) 10 (exSt 11 10) exChain).1
      (runUpdate (exEnv [1, 0] [20]) 10 (exSt 11 10) exChain).2.graph ∧
    (runUpdate (exEnv [1, 0] [20]) 10 (exSt 11 10) exChain).2.dead = false ∧
    (runUpdate (exEnv [1, 0] [20]) 10 (exSt 11 10) exChain).1.out = [] :=
  C05_pass_converges_partial (exEnv [1, 0] [10]) (exEnv [1, 0] [20]) 10 (exSt 11 10) exChain [.file "e" "s"]
    (rank := exRank) (exEnv_steady _ _) (exEnv_steady _ _) (exEnv_same _ _ _ _)
    (settled_of_check (by decide)) exChain_graphOK (rank_of_entries (by decide)) rfl (by decide)
    (exEnv_unchanged_e _ _ _)
    (fun _ _ => rfl) (by decide)
    (noMiss_of_check (by decide)) (reloadsReturn_of_check (by decide)) (noRewire_of_check (by decide))

/-- the conclusion, checked on the computed pass -/
example :
    (runUpdate (exEnv [1, 0] [20]) 10 (exSt 11 10) exChain).1.lookup ke = some ⟨.int 20, true, 1, true, 0⟩ ∧
    (runUpdate (exEnv [1, 0] [20]) 10 (exSt 11 10) exChain).1.lookup kb = some ⟨.int 21, true, 1, true, 1⟩ ∧
    settledB (exEnv [1, 0] [20]) 10 (runUpdate (exEnv [1, 0] [20]) 10 (exSt 11 10) exChain).1
      (runUpdate (exEnv [1, 0] [20]) 10 (exSt 11 10) exChain).2.graph = true := by decide

/-- the same starting from a real history: `load b` (which loads `e`), `hot_reload` (drains the two
registrations), then `e.s` is edited and the event is handed to the reloader -/
def exHist : St × RSt :=
  runH 10 [(exEnv [1, 0] [10], .api (.load kb)), (exEnv [1, 0] [10], .hotReload),
    (exEnv [1, 0] [20], .notify [.file "e" "s"])] ({}, {})

example :
    Settled (exEnv [1, 0] [20]) 10 (hotReload (exEnv [1, 0] [20]) 10 exHist.1 exHist.2).1
      (hotReload (exEnv [1, 0] [20]) 10 exHist.1 exHist.2).2.graph ∧
    (hotReload (exEnv [1, 0] [20]) 10 exHist.1 exHist.2).2.dead = false :=
  C05_hot_reload_converges_partial (exEnv [1, 0] [10]) (exEnv [1, 0] [20]) 10 exHist.1 exHist.2 [.file "e" "s"]
    (rank := exRank) (exEnv_steady _ _) (exEnv_steady _ _) (exEnv_same _ _ _ _)
    (settled_of_check (by decide)) (C05_history_keeps_graphOK 10 _ _ graphOK_nil) (rank_of_entries (by decide))
    (by decide) (by decide) (by decide) (by decide)
    (fun id ext h => exEnv_unchanged_e _ _ _ id ext h)
    (fun _ _ => rfl) (by decide)
    (noMiss_of_check (by decide)) (reloadsReturn_of_check (by decide)) (noRewire_of_check (by decide))

example :
    (hotReload (exEnv [1, 0] [20]) 10 exHist.1 exHist.2).1.lookup ke = some ⟨.int 20, true, 1, true, 0⟩ ∧
    (hotReload (exEnv [1, 0] [20]) 10 exHist.1 exHist.2).1.lookup kb = some ⟨.int 21, true, 1, true, 1⟩ := by decide

/-- **The failure branch is inhabited, and the asset recovers**: `e.s` is edited to something that
does not parse (`[1, 2, 3]`), notified, `hot_reload`: `e` keeps `10`, `b` keeps `11`, everything is
settled (`e` through the failure branch). Then `e.s` is repaired to `30` and notified. -/
def exHistBroken : St × RSt :=
  runH 10 [(exEnv [1, 0] [1, 2, 3], .hotReload), (exEnv [1, 0] [30], .notify [.file "e" "s"])] exHist

/-- the pass over the broken file satisfies the hypotheses; `e` keeps its previous value -/
example :
    (Settled (exEnv [1, 0] [1, 2, 3]) 10 (hotReload (exEnv [1, 0] [1, 2, 3]) 10 exHist.1 exHist.2).1
      (hotReload (exEnv [1, 0] [1, 2, 3]) 10 exHist.1 exHist.2).2.graph ∧
     (hotReload (exEnv [1, 0] [1, 2, 3]) 10 exHist.1 exHist.2).2.dead = false) ∧
    (hotReload (exEnv [1, 0] [1, 2, 3]) 10 exHist.1 exHist.2).1.lookup ke = some ⟨.int 10, true, 0, false, 0⟩ ∧
    reloadOut (exEnv [1, 0] [1, 2, 3]) 10 (hotReload (exEnv [1, 0] [1, 2, 3]) 10 exHist.1 exHist.2).1 ke =
      .err (.custom "parse") :=
  ⟨C05_hot_reload_converges_partial (exEnv [1, 0] [10]) (exEnv [1, 0] [1, 2, 3]) 10 exHist.1 exHist.2 [.file "e" "s"]
    (rank := exRank) (exEnv_steady _ _) (exEnv_steady _ _) (exEnv_same _ _ _ _)
    (settled_of_check (by decide)) (C05_history_keeps_graphOK 10 _ _ graphOK_nil) (rank_of_entries (by decide))
    (by decide) (by decide) (by decide) (by decide)
    (exEnv_unchanged_e _ _ _) (fun _ _ => rfl) (by decide)
    (noMiss_of_check (by decide)) (reloadsReturn_of_check (by decide)) (noRewire_of_check (by decide)),
   by decide, by decide⟩

/-- the next pass (file repaired) satisfies the hypotheses again — `hset` now holds through the
failure branch for `e` — and the assets recover: `e = 30`, `b = 31` -/
example :
    (Settled (exEnv [1, 0] [30]) 10 (hotReload (exEnv [1, 0] [30]) 10 exHistBroken.1 exHistBroken.2).1
      (hotReload (exEnv [1, 0] [30]) 10 exHistBroken.1 exHistBroken.2).2.graph ∧
     (hotReload (exEnv [1, 0] [30]) 10 exHistBroken.1 exHistBroken.2).2.dead = false) ∧
    (hotReload (exEnv [1, 0] [30]) 10 exHistBroken.1 exHistBroken.2).1.lookup ke = some ⟨.int 30, true, 1, true, 0⟩ ∧
    (hotReload (exEnv [1, 0] [30]) 10 exHistBroken.1 exHistBroken.2).1.lookup kb = some ⟨.int 31, true, 2, true, 1⟩ :=
  ⟨C05_hot_reload_converges_partial (exEnv [1, 0] [1, 2, 3]) (exEnv [1, 0] [30]) 10 exHistBroken.1 exHistBroken.2
    [.file "e" "s"]
    (rank := exRank) (exEnv_steady _ _) (exEnv_steady _ _) (exEnv_same _ _ _ _)
    (settled_of_check (by decide)) (C05_history_keeps_graphOK 10 _ _ (C05_history_keeps_graphOK 10 _ _ graphOK_nil)) (rank_of_entries (by decide))
    (by decide) (by decide) (by decide) (by decide)
    (exEnv_unchanged_e _ _ _) (fun _ _ => rfl) (by decide)
    (noMiss_of_check (by decide)) (reloadsReturn_of_check (by decide)) (noRewire_of_check (by decide)),
   by decide, by decide⟩

/-- `b = 1`, `e = 10`, both loaded; both files have been edited, the events arrived as `e.s`, `b.s`
(the sort then yields `b` before `e`) -/
def exFlat : RSt :=
  { graph := (Graph.insertAsset [] (.asset ke) [.file "e" "s"]).insertAsset (.asset kb) [.file "b" "s"],
    toReload := [.file "e" "s", .file "b" "s"] }

theorem exFlat_graphOK : GraphOK exFlat.graph :=
  C05_insert_keeps_inverse _ (C05_insert_keeps_inverse [] graphOK_nil (.asset ke) [.file "e" "s"]) (.asset kb)
    [.file "b" "s"]

theorem exEnv_unchanged (b e b' e' : List UInt8) :
    ∀ id ext, Dep.file id ext ∉ [Dep.file "b" "s", Dep.file "e" "s"] →
      (exEnv b' e').read 0 id ext = (exEnv b e).read 0 id ext := by
  intro id ext h
  simp only [exEnv]
  split
  · rename_i h2; exact absurd (by rw [h2.1, h2.2]; exact List.mem_cons_self) h
  · split
    · rename_i h2; exact absurd (by rw [h2.1, h2.2]; exact List.mem_cons_of_mem _ List.mem_cons_self) h
    · rfl

/-- a registered, cached, dynamic asset whose cached value is NOT what re-evaluating its loader
against the current source and cache returns -/
def StaleAt (env : Env) (fuel : Nat) (x : St × RSt) (k : Key) : Prop :=
  ∃ node c v, x.2.graph.get (.asset k) = some node ∧ node.typed = true ∧ x.1.lookup k = some c ∧ c.dyn = true ∧
    reloadHit env fuel x.1 k = true ∧ reloadOut env fuel x.1 k = .ok v ∧ v ≠ c.val

theorem StaleAt.not_settled {env : Env} {fuel : Nat} {x : St × RSt} {k : Key} (h : StaleAt env fuel x k) :
    ¬ Settled env fuel x.1 x.2.graph := by
  obtain ⟨node, c, v, hg, ht, hc, hd, _, ho, hv⟩ := h
  intro hs
  rcases (hs k node c hg ht hc hd).res with ⟨h1, _⟩ | ⟨e, h1, _⟩
  · rw [ho] at h1; exact hv (by simpa using h1)
  · rw [ho] at h1; cases h1

def staleAtB (env : Env) (fuel : Nat) (x : St × RSt) (k : Key) : Bool :=
  match x.2.graph.get (.asset k), x.1.lookup k with
  | some node, some c =>
    node.typed && c.dyn && reloadHit env fuel x.1 k &&
      (match reloadOut env fuel x.1 k with
       | .ok v => decide (v ≠ c.val)
       | _ => false)
  | _, _ => false

theorem staleAt_of_check {env : Env} {fuel : Nat} {x : St × RSt} {k : Key} (h : staleAtB env fuel x k = true) :
    StaleAt env fuel x k := by
  unfold staleAtB at h
  cases hg : x.2.graph.get (.asset k) with
  | none => rw [hg] at h; cases h
  | some node =>
    cases hc : x.1.lookup k with
    | none => rw [hg, hc] at h; cases h
    | some c =>
      rw [hg, hc] at h
      simp only [Bool.and_eq_true] at h
      obtain ⟨⟨⟨h1, h2⟩, h3⟩, h4⟩ := h
      cases ho : reloadOut env fuel x.1 k with
      | ok v =>
        rw [ho] at h4
        exact ⟨node, c, v, hg, h1, hc, h2, h3, ho, by simpa using h4⟩
      | err e => rw [ho] at h4; cases h4
      | panicked => rw [ho] at h4; cases h4
      | diverged => rw [ho] at h4; cases h4

/-- **F-C05e: the statement without `hrewire` is false.** Scripts before: `b = 1`, `e = 10`; after:
`b = 2 +S0:e`, `e = 20`; both edits notified, events in the order `e.s`, `b.s`. Every hypothesis of
`C05_pass_converges_partial` except `hrewire` holds, and after the pass `b` holds `12` although
re-evaluating its loader gives `22`: `b` was rebuilt from the stale `e`, and `e` was reloaded after
it. (With the events in the other order the pass converges: the outcome depends on the iteration
order of a hash set.) -/
theorem C05_full_statement_false_rewire :
    ∃ (env env' : Env) (fuel : Nat) (s : St) (r : RSt) (changed : List Dep) (rank : Dep → Nat),
      env.Steady ∧ env'.Steady ∧ SameLoaders env env' ∧ Settled env fuel s r.graph ∧ GraphOK r.graph ∧
      (∀ a rs b, r.graph.rdepsOf a = some rs → b ∈ rs → rank b < rank a) ∧
      r.dead = false ∧ r.graph.length + 1 ≤ fuel ∧
      (∀ id ext, Dep.file id ext ∉ changed → env'.read 0 id ext = env.read 0 id ext) ∧
      (∀ id, Dep.dir id ∉ changed → env'.readDir 0 id = env.readDir 0 id) ∧
      (∀ d, d ∈ changed → d ∈ r.toReload) ∧
      NoMissInPass env' fuel (updateSteps env' fuel s r) ∧
      ReloadsReturn env' fuel (updateSteps env' fuel s r) ∧
      ¬ NoRewireOntoPending env' fuel (updateSteps env' fuel s r) ∧
      StaleAt env' fuel (runUpdate env' fuel s r) kb ∧
      (runUpdate env' fuel s r).1.lookup kb = some ⟨.int 12, true, 1, true, 1⟩ ∧
      reloadOut env' fuel (runUpdate env' fuel s r).1 kb = .ok (.int 22) := by
  have hstale : StaleAt (exEnv [2, 0] [20]) 10 (runUpdate (exEnv [2, 0] [20]) 10 (exSt 1 10) exFlat) kb :=
    staleAt_of_check (by decide)
  have hS := exEnv_steady [1] [10]
  have hS' := exEnv_steady [2, 0] [20]
  have hL := exEnv_same [1] [10] [2, 0] [20]
  have hset : Settled (exEnv [1] [10]) 10 (exSt 1 10) exFlat.graph := settled_of_check (by decide)
  have hrank : ∀ a rs b, exFlat.graph.rdepsOf a = some rs → b ∈ rs → exRank b < exRank a :=
    rank_of_entries (by decide)
  have hfile := exEnv_unchanged [1] [10] [2, 0] [20]
  have hnot : ∀ d, d ∈ [Dep.file "b" "s", Dep.file "e" "s"] → d ∈ exFlat.toReload := by decide
  have hmiss : NoMissInPass (exEnv [2, 0] [20]) 10 (updateSteps (exEnv [2, 0] [20]) 10 (exSt 1 10) exFlat) :=
    noMiss_of_check (by decide)
  have hret : ReloadsReturn (exEnv [2, 0] [20]) 10 (updateSteps (exEnv [2, 0] [20]) 10 (exSt 1 10) exFlat) :=
    reloadsReturn_of_check (by decide)
  refine ⟨exEnv [1] [10], exEnv [2, 0] [20], 10, exSt 1 10, exFlat, [.file "b" "s", .file "e" "s"], exRank,
    hS, hS', hL, hset, exFlat_graphOK, hrank, rfl, by decide, hfile, fun _ _ => rfl, hnot, hmiss, hret, ?_,
    hstale, by decide, by decide⟩
  intro hrew
  exact hstale.not_settled
    (C05_pass_converges_partial _ _ 10 _ _ _ hS hS' hL hset exFlat_graphOK hrank rfl (by decide) hfile
      (fun _ _ => rfl) (fun d hd _ => hnot d hd) hmiss hret hrew).1

def kn : Key := ⟨0, "n"⟩

/-- **F-C05d: the statement without `hmiss` is false.** Scripts before: `b = 1`, `e = 10`, and
`n = 0 +S0:e` on disk but never loaded; after: `b = 2 +S0:n`, `e = 20`; both edits notified, events
in the order `e.s`, `b.s`. Every hypothesis of `C05_pass_converges_partial` except `hmiss` holds for
the pass `hot_reload` runs (no pending messages, local mode). The reload of `b` loads `n` for the
first time, from the stale `e`; `e` is reloaded afterwards; `n` is not in the list (it did not exist
when the list was sorted). After `hot_reload` returns `n` is registered and holds `10` although
re-evaluating its loader gives `20`. -/
theorem C05_full_statement_false_miss :
    ∃ (env env' : Env) (fuel : Nat) (s : St) (r : RSt) (changed : List Dep) (rank : Dep → Nat),
      env.Steady ∧ env'.Steady ∧ SameLoaders env env' ∧ Settled env fuel s r.graph ∧ GraphOK r.graph ∧
      (∀ a rs b, r.graph.rdepsOf a = some rs → b ∈ rs → rank b < rank a) ∧
      r.dead = false ∧ r.graph.length + 1 ≤ fuel ∧
      (∀ id ext, Dep.file id ext ∉ changed → env'.read 0 id ext = env.read 0 id ext) ∧
      (∀ id, Dep.dir id ∉ changed → env'.readDir 0 id = env.readDir 0 id) ∧
      (∀ d, d ∈ changed → d ∈ r.toReload) ∧
      s.out = [] ∧ r.static_ = false ∧
      ¬ NoMissInPass env' fuel (updateSteps env' fuel s r) ∧
      ReloadsReturn env' fuel (updateSteps env' fuel s r) ∧
      NoRewireOntoPending env' fuel (updateSteps env' fuel s r) ∧
      StaleAt env' fuel (hotReload env' fuel s r) kn ∧
      (hotReload env' fuel s r).1.lookup kn = some ⟨.int 10, true, 0, false, 2⟩ ∧
      reloadOut env' fuel (hotReload env' fuel s r).1 kn = .ok (.int 20) := by
  refine ⟨exEnv [1] [10], exEnv [2, 1] [20], 10, exSt 1 10, exFlat, [.file "b" "s", .file "e" "s"], exRank,
    exEnv_steady _ _, exEnv_steady _ _, exEnv_same _ _ _ _, settled_of_check (by decide), exFlat_graphOK,
    rank_of_entries (by decide), rfl, by decide, exEnv_unchanged _ _ _ _, fun _ _ => rfl, by decide, rfl, rfl,
    fun h => absurd (noMiss_check_of h) (by decide), reloadsReturn_of_check (by decide),
    noRewire_of_check (by decide), staleAt_of_check (by decide), by decide, by decide⟩

/-! ## Loading establishes and preserves `Settled`

`Lemmas/Settle.lean`. The statement "after a load (handle or error) and after the reloader has taken
the registrations, everything registered and cached is settled" is **false** of the code and of the
model for `Plain` loaders in an all-hot environment, in two situations (`C05_load_settles_false_absorbed`,
`C05_load_settles_false_probe`), and `Settled` is not preserved by a later load in a third
(`C05_load_preserves_false_fill`). They are excluded by named hypotheses: `CleanLoad` on the load
(= `cleanRun`: no absorbed failure, no `get_cached` probe of a key that is cached before the load
returns) and `NoProbedKeyFilled` relative to what was registered before. Each is necessary. -/

/-- **One API load establishes and preserves `Settled`** (partial: `hclean`, `hfill`).

`env` without fault plan; `s`, `r`: the cache and the reloader's data, channel drained, everything
registered and cached settled, dependency index exact.
* `hclean` — `CleanLoad`: the evaluation of `load(key)` is a clean loading run (`cleanRun`), i.e. on the
  path it takes — nested loader bodies included — plain constructors only and every look-up recorded
  (hot types, cache with reloader: this is what `Env.Hot` and `Prog.Plain` give, required on the path
  only), **no absorbed failure** (when a nested load fails the loader that asked for it does not go on
  to return a value), **no probe of a key that gets filled** (a `get_cached` that finds nothing is for
  a key still absent when the load returns); a lost keep-first insertion (the key loaded again while
  its own loader runs) needs no hypothesis;
* `hfill` — `NoProbedKeyFilled`: the load caches no key that an asset registered before depends on
  while it is absent.
No hypothesis on the fuel or on the result: the conclusion holds whether the load returns a handle, an
error, panics or runs out of fuel (re-evaluations after the load only hit: `hitRun_fuel`).

Conclusion: after the load and after the reloader has taken the `AddAsset` messages, every
registered, cached, dynamic asset — including all the assets the load cached on the way — holds what
re-evaluating its loader returns and its node holds exactly what that re-evaluation reads; the index
is exact; the channel is drained. -/
theorem C05_load_settles_partial (env : Env) (fuel : Nat) (s : St) (r : RSt) (key : Key)
    (hS : env.Steady) (hdrained : s.out = []) (hset : Settled env fuel s r.graph) (hG : GraphOK r.graph)
    (hclean : CleanLoad env fuel s key)
    (hfill : NoProbedKeyFilled s (step env fuel s (.load key)).1 r.graph) :
    Settled env fuel (processMsgs (step env fuel s (.load key)).1 r).1
      (processMsgs (step env fuel s (.load key)).1 r).2.graph ∧
    GraphOK (processMsgs (step env fuel s (.load key)).1 r).2.graph ∧
    (processMsgs (step env fuel s (.load key)).1 r).1.out = [] := by
  obtain ⟨h1, h2⟩ := load_settles hS key hdrained hset hclean hfill
  exact ⟨h1, C05_processMsgs_graphOK _ _ hG, h2⟩

/-- **Read-back of a clean load**: every registration a clean run sends is for an asset that, in the
cache the load ends in, holds what re-evaluating its loader returns, and lists exactly what that
re-evaluation reads (the re-evaluation needs no more fuel than the load had). -/
theorem C05_clean_registrations_good (env : Env) (hS : env.Steady) (fuel : Nat) (s : St) (p : Prog)
    (hclean : cleanRun env (eval env fuel s p).1 fuel s p = true) :
    ∀ m, m ∈ (eval env fuel s p).1.out → m ∈ s.out ∨ ∃ k D, m = .addAsset k D ∧ MsgGood env fuel (eval env fuel s p).1 k D :=
  clean_msgs hS fuel (fun _ h => h) fuel p s (Nat.le_refl _) hclean (St.Le.refl _)

/-- **Histories of loads and `hot_reload`s** (partial), from the empty cache and an empty reloader,
under one environment without fault plan: if every load of the history satisfies `LoadOK` in the
state it starts from (`CleanLoad`, `NoProbedKeyFilled`, and the same for the registrations still in
the channel: `NoPendingKeyFilled`), then after **every** `hot_reload` step everything registered and
cached is settled, the index is exact and the channel is drained. Loads need not be separated by
`hot_reload`s. `LoadHist` also admits `get_or_insert` (a static entry; same two no-fill hypotheses), the
operations that leave the cache as it is (`get_cached`, `contains`), and `remove` / `take` of a key on which
nothing registered and cached (and no registration still in the channel) depends (`NoDependentOn`;
necessary: `C05_remove_breaks_settled`). Not covered HERE: `clear` (its `Clear` message and the registrations
still in the channel for entries that are gone need a weaker notion of good registration:
`C05_history_with_clear_partial`), `load_owned` (registers a key it does not cache:
`C05_history_with_load_owned_partial`), `notify` / `enhance` (`C05_static_history_partial`), edits
(`C05_hot_reload_converges_partial`). -/
theorem C05_history_settled_partial (env : Env) (hS : env.Steady) (fuel : Nat) (h : List (Env × HOp))
    (hh : LoadHist env fuel h ({}, {})) :
    ∀ h1 h2, h = h1 ++ (env, .hotReload) :: h2 →
      Settled env fuel (runH fuel (h1 ++ [(env, .hotReload)]) ({}, {})).1 (runH fuel (h1 ++ [(env, .hotReload)]) ({}, {})).2.graph ∧
      GraphOK (runH fuel (h1 ++ [(env, .hotReload)]) ({}, {})).2.graph ∧
      (runH fuel (h1 ++ [(env, .hotReload)]) ({}, {})).1.out = [] := by
  intro h1 h2 e
  obtain ⟨j1, j2⟩ := (loads_settle hS hh (HInv.init env fuel)).2 h1 h2 e
  exact ⟨j1, C05_history_keeps_graphOK fuel _ _ graphOK_nil, j2⟩

/-- **Non-vacuity** with the other admitted operations: `load b`, `get_or_insert z`, `get_cached e`, `hot_reload` -/
example :
    Settled (exEnv [1, 0] [10]) 10
      (runH 10 ([(exEnv [1, 0] [10], .api (.load kb)), (exEnv [1, 0] [10], .api (.getOrInsert ⟨0, "z"⟩ (.int 5))),
        (exEnv [1, 0] [10], .api (.getCached ke))] ++ [(exEnv [1, 0] [10], .hotReload)]) ({}, {})).1
      (runH 10 ([(exEnv [1, 0] [10], .api (.load kb)), (exEnv [1, 0] [10], .api (.getOrInsert ⟨0, "z"⟩ (.int 5))),
        (exEnv [1, 0] [10], .api (.getCached ke))] ++ [(exEnv [1, 0] [10], .hotReload)]) ({}, {})).2.graph :=
  (C05_history_settled_partial (exEnv [1, 0] [10]) (exEnv_steady _ _) 10
    [(exEnv [1, 0] [10], .api (.load kb)), (exEnv [1, 0] [10], .api (.getOrInsert ⟨0, "z"⟩ (.int 5))),
     (exEnv [1, 0] [10], .api (.getCached ke)), (exEnv [1, 0] [10], .hotReload)]
    (.load kb _ _ _ (loadOK_of_check (by decide))
      (.insert _ _ _ _ _ (noProbedKeyFilled_of_check (by decide)) (noPendingKeyFilled_of_check (by decide))
        (.look (.getCached ke) _ _ rfl (.hotReload _ _ (.nil _)))))
    [(exEnv [1, 0] [10], .api (.load kb)), (exEnv [1, 0] [10], .api (.getOrInsert ⟨0, "z"⟩ (.int 5))),
     (exEnv [1, 0] [10], .api (.getCached ke))] [] rfl).1

/-- **Non-vacuity** with `remove`: `load b` (loads `e`), `hot_reload`, `remove b` (nothing depends on `b`),
`load b` again (a miss that hits `e`; the registration replaces the stale one), `hot_reload` -/
example :
    Settled (exEnv [1, 0] [10]) 10
      (runH 10 ([(exEnv [1, 0] [10], .api (.load kb)), (exEnv [1, 0] [10], .hotReload), (exEnv [1, 0] [10], .api (.remove kb)),
        (exEnv [1, 0] [10], .api (.load kb))] ++ [(exEnv [1, 0] [10], .hotReload)]) ({}, {})).1
      (runH 10 ([(exEnv [1, 0] [10], .api (.load kb)), (exEnv [1, 0] [10], .hotReload), (exEnv [1, 0] [10], .api (.remove kb)),
        (exEnv [1, 0] [10], .api (.load kb))] ++ [(exEnv [1, 0] [10], .hotReload)]) ({}, {})).2.graph :=
  (C05_history_settled_partial (exEnv [1, 0] [10]) (exEnv_steady _ _) 10
    [(exEnv [1, 0] [10], .api (.load kb)), (exEnv [1, 0] [10], .hotReload), (exEnv [1, 0] [10], .api (.remove kb)),
     (exEnv [1, 0] [10], .api (.load kb)), (exEnv [1, 0] [10], .hotReload)]
    (.load kb _ _ _ (loadOK_of_check (by decide))
      (.hotReload _ _ (.remove kb _ _ _ (noDependentOn_of_check (by decide))
        (.load kb _ _ _ (loadOK_of_check (by decide)) (.hotReload _ _ (.nil _))))))
    [(exEnv [1, 0] [10], .api (.load kb)), (exEnv [1, 0] [10], .hotReload), (exEnv [1, 0] [10], .api (.remove kb)),
     (exEnv [1, 0] [10], .api (.load kb))] [] rfl).1

/-- the cache and the reloader after `load(key)` and after the reloader has taken the registrations -/
def loadDrain (env : Env) (fuel : Nat) (x : St × RSt) (key : Key) : St × RSt :=
  processMsgs (step env fuel x.1 (.load key)).1 x.2

/-- **Load, edit, notify, `hot_reload`** (partial). `x = (s, r)`: channel drained, everything settled
under `env`, index exact, reloader alive, local mode. `load(key)` under `env` (`hclean`, `hfill` as in
`C05_load_settles_partial`), the reloader takes the registrations (`loadDrain`); the source is edited:
`env'` differs from `env` only on `changed` (`hfile`, `hdir`); every changed entry is notified
(`handleEvents`: the graph keeps the ones it knows); `hot_reload()` under `env'`. Under the three named
hypotheses on that pass (`hmiss` = `NoMissInPass`, excludes F-C05d; `hret` = `ReloadsReturn`;
`hrewire` = `NoRewireOntoPending`, excludes F-C05e) and acyclic look-ups (`hrank`), afterwards every
registered, cached, dynamic asset — those the load cached included — is settled under the NEW source. -/
theorem C05_load_edit_reload_converges_partial (env env' : Env) (fuel : Nat) (x : St × RSt) (key : Key)
    (changed : List Dep) {rank : Dep → Nat}
    (hS : env.Steady) (hS' : env'.Steady) (hL : SameLoaders env env')
    (hdrained : x.1.out = []) (hset : Settled env fuel x.1 x.2.graph) (hG : GraphOK x.2.graph)
    (hlive : x.2.dead = false) (hlocal : x.2.static_ = false)
    (hclean : CleanLoad env fuel x.1 key)
    (hfill : NoProbedKeyFilled x.1 (step env fuel x.1 (.load key)).1 x.2.graph)
    (hfile : ∀ id ext, Dep.file id ext ∉ changed → env'.read 0 id ext = env.read 0 id ext)
    (hdir : ∀ id, Dep.dir id ∉ changed → env'.readDir 0 id = env.readDir 0 id)
    (hrank : ∀ a rs b, (loadDrain env fuel x key).2.graph.rdepsOf a = some rs → b ∈ rs → rank b < rank a)
    (hfuel : (loadDrain env fuel x key).2.graph.length + 1 ≤ fuel)
    (hmiss : NoMissInPass env' fuel (updateSteps env' fuel
      (handleEvents env' fuel (loadDrain env fuel x key).1 (loadDrain env fuel x key).2 changed).1
      (handleEvents env' fuel (loadDrain env fuel x key).1 (loadDrain env fuel x key).2 changed).2))
    (hret : ReloadsReturn env' fuel (updateSteps env' fuel
      (handleEvents env' fuel (loadDrain env fuel x key).1 (loadDrain env fuel x key).2 changed).1
      (handleEvents env' fuel (loadDrain env fuel x key).1 (loadDrain env fuel x key).2 changed).2))
    (hrewire : NoRewireOntoPending env' fuel (updateSteps env' fuel
      (handleEvents env' fuel (loadDrain env fuel x key).1 (loadDrain env fuel x key).2 changed).1
      (handleEvents env' fuel (loadDrain env fuel x key).1 (loadDrain env fuel x key).2 changed).2)) :
    Settled env' fuel
      (hotReload env' fuel (handleEvents env' fuel (loadDrain env fuel x key).1 (loadDrain env fuel x key).2 changed).1
        (handleEvents env' fuel (loadDrain env fuel x key).1 (loadDrain env fuel x key).2 changed).2).1
      (hotReload env' fuel (handleEvents env' fuel (loadDrain env fuel x key).1 (loadDrain env fuel x key).2 changed).1
        (handleEvents env' fuel (loadDrain env fuel x key).1 (loadDrain env fuel x key).2 changed).2).2.graph ∧
    (hotReload env' fuel (handleEvents env' fuel (loadDrain env fuel x key).1 (loadDrain env fuel x key).2 changed).1
        (handleEvents env' fuel (loadDrain env fuel x key).1 (loadDrain env fuel x key).2 changed).2).2.dead = false := by
  obtain ⟨s, r⟩ := x
  have hl : Settled env fuel (loadDrain env fuel (s, r) key).1 (loadDrain env fuel (s, r) key).2.graph ∧
      GraphOK (loadDrain env fuel (s, r) key).2.graph ∧ (loadDrain env fuel (s, r) key).1.out = [] :=
    C05_load_settles_partial env fuel s r key hS hdrained hset hG hclean hfill
  have hd1 : (loadDrain env fuel (s, r) key).2.dead = false := (processMsgs_dead _ _).trans hlive
  have hs1 : (loadDrain env fuel (s, r) key).2.static_ = false := (processMsgs_static _ _).trans hlocal
  generalize loadDrain env fuel (s, r) key = x1 at *
  obtain ⟨s1, r1⟩ := x1
  obtain ⟨l1, l2, l3⟩ := hl
  rw [handleEvents_local env' fuel s1 r1 changed hd1 hs1 l3] at hmiss hret hrewire ⊢
  exact C05_hot_reload_converges_partial env env' fuel _ _ changed hS hS' hL l1 l2 hrank hd1 hfuel l3 hs1 hfile hdir
    (fun d hd hg => mem_keepEvents _ changed _ d hd hg) hmiss hret hrewire

/-- **Non-vacuity** of `C05_load_edit_reload_converges_partial`: the chain `b → e` of the examples
above, with the initial state produced by the load theorem — empty cache, empty reloader, `load b`
(which loads `e`), the reloader takes the two registrations; `e.s` is edited from `10` to `20` and
notified; `hot_reload`. All hypotheses hold; the computed result is `e = 20`, `b = 21`. -/
example :
    Settled (exEnv [1, 0] [20]) 10
      (hotReload (exEnv [1, 0] [20]) 10
        (handleEvents (exEnv [1, 0] [20]) 10 (loadDrain (exEnv [1, 0] [10]) 10 ({}, {}) kb).1
          (loadDrain (exEnv [1, 0] [10]) 10 ({}, {}) kb).2 [.file "e" "s"]).1
        (handleEvents (exEnv [1, 0] [20]) 10 (loadDrain (exEnv [1, 0] [10]) 10 ({}, {}) kb).1
          (loadDrain (exEnv [1, 0] [10]) 10 ({}, {}) kb).2 [.file "e" "s"]).2).1
      (hotReload (exEnv [1, 0] [20]) 10
        (handleEvents (exEnv [1, 0] [20]) 10 (loadDrain (exEnv [1, 0] [10]) 10 ({}, {}) kb).1
          (loadDrain (exEnv [1, 0] [10]) 10 ({}, {}) kb).2 [.file "e" "s"]).1
        (handleEvents (exEnv [1, 0] [20]) 10 (loadDrain (exEnv [1, 0] [10]) 10 ({}, {}) kb).1
          (loadDrain (exEnv [1, 0] [10]) 10 ({}, {}) kb).2 [.file "e" "s"]).2).2.graph ∧
    (hotReload (exEnv [1, 0] [20]) 10
        (handleEvents (exEnv [1, 0] [20]) 10 (loadDrain (exEnv [1, 0] [10]) 10 ({}, {}) kb).1
          (loadDrain (exEnv [1, 0] [10]) 10 ({}, {}) kb).2 [.file "e" "s"]).1
        (handleEvents (exEnv [1, 0] [20]) 10 (loadDrain (exEnv [1, 0] [10]) 10 ({}, {}) kb).1
          (loadDrain (exEnv [1, 0] [10]) 10 ({}, {}) kb).2 [.file "e" "s"]).2).2.dead = false :=
  C05_load_edit_reload_converges_partial (exEnv [1, 0] [10]) (exEnv [1, 0] [20]) 10 ({}, {}) kb [.file "e" "s"]
    (rank := exRank) (exEnv_steady _ _) (exEnv_steady _ _) (exEnv_same _ _ _ _)
    rfl (settled_nil _ _ _) graphOK_nil rfl rfl (by decide) (noProbedKeyFilled_nil _ _)
    (exEnv_unchanged_e _ _ _) (fun _ _ => rfl) (rank_of_entries (by decide)) (by decide)
    (noMiss_of_check (by decide)) (reloadsReturn_of_check (by decide)) (noRewire_of_check (by decide))

/-- the state the load theorem produces is the one the earlier examples built by hand, and the
conclusion checked on the computed result -/
example :
    (loadDrain (exEnv [1, 0] [10]) 10 ({}, {}) kb).1.lookup ke = some ⟨.int 10, true, 0, false, 0⟩ ∧
    (loadDrain (exEnv [1, 0] [10]) 10 ({}, {}) kb).1.lookup kb = some ⟨.int 11, true, 0, false, 1⟩ ∧
    settledB (exEnv [1, 0] [10]) 10 (loadDrain (exEnv [1, 0] [10]) 10 ({}, {}) kb).1
      (loadDrain (exEnv [1, 0] [10]) 10 ({}, {}) kb).2.graph = true ∧
    (hotReload (exEnv [1, 0] [20]) 10
        (handleEvents (exEnv [1, 0] [20]) 10 (loadDrain (exEnv [1, 0] [10]) 10 ({}, {}) kb).1
          (loadDrain (exEnv [1, 0] [10]) 10 ({}, {}) kb).2 [.file "e" "s"]).1
        (handleEvents (exEnv [1, 0] [20]) 10 (loadDrain (exEnv [1, 0] [10]) 10 ({}, {}) kb).1
          (loadDrain (exEnv [1, 0] [10]) 10 ({}, {}) kb).2 [.file "e" "s"]).2).1.lookup kb =
      some ⟨.int 21, true, 1, true, 1⟩ := by decide

/-- **Non-vacuity** of `C05_history_settled_partial`: `load n` (loads `e`), `load b` (hits `e`) without
a drain in between, `hot_reload`, `load e` (a hit), `hot_reload`. -/
example :
    Settled (exEnv [1, 0] [10]) 10
      (runH 10 ([(exEnv [1, 0] [10], .api (.load kn)), (exEnv [1, 0] [10], .api (.load kb))] ++ [(exEnv [1, 0] [10], .hotReload)]) ({}, {})).1
      (runH 10 ([(exEnv [1, 0] [10], .api (.load kn)), (exEnv [1, 0] [10], .api (.load kb))] ++ [(exEnv [1, 0] [10], .hotReload)]) ({}, {})).2.graph :=
  (C05_history_settled_partial (exEnv [1, 0] [10]) (exEnv_steady _ _) 10
    [(exEnv [1, 0] [10], .api (.load kn)), (exEnv [1, 0] [10], .api (.load kb)), (exEnv [1, 0] [10], .hotReload),
     (exEnv [1, 0] [10], .api (.load ke)), (exEnv [1, 0] [10], .hotReload)]
    (.load kn _ _ _ (loadOK_of_check (by decide))
      (.load kb _ _ _ (loadOK_of_check (by decide))
        (.hotReload _ _ (.load ke _ _ _ (loadOK_of_check (by decide)) (.hotReload _ _ (.nil _))))))
    [(exEnv [1, 0] [10], .api (.load kn)), (exEnv [1, 0] [10], .api (.load kb))]
    [(exEnv [1, 0] [10], .api (.load ke)), (exEnv [1, 0] [10], .hotReload)] rfl).1

/-- **A history of loads, then edit, notify, `hot_reload`** (partial): the same as
`C05_load_edit_reload_converges_partial` with the state before the edit produced by a whole history
`h ++ [hot_reload]` of loads (`LoadHist`, every load `LoadOK`) from the empty cache and an empty reloader. -/
theorem C05_history_edit_reload_converges_partial (env env' : Env) (fuel : Nat) (h : List (Env × HOp))
    (changed : List Dep) {rank : Dep → Nat}
    (hS : env.Steady) (hS' : env'.Steady) (hL : SameLoaders env env')
    (hh : LoadHist env fuel (h ++ [(env, .hotReload)]) ({}, {}))
    (hfile : ∀ id ext, Dep.file id ext ∉ changed → env'.read 0 id ext = env.read 0 id ext)
    (hdir : ∀ id, Dep.dir id ∉ changed → env'.readDir 0 id = env.readDir 0 id)
    (hrank : ∀ a rs b, (runH fuel (h ++ [(env, .hotReload)]) ({}, {})).2.graph.rdepsOf a = some rs → b ∈ rs → rank b < rank a)
    (hfuel : (runH fuel (h ++ [(env, .hotReload)]) ({}, {})).2.graph.length + 1 ≤ fuel)
    (hmiss : NoMissInPass env' fuel (updateSteps env' fuel
      (handleEvents env' fuel (runH fuel (h ++ [(env, .hotReload)]) ({}, {})).1 (runH fuel (h ++ [(env, .hotReload)]) ({}, {})).2 changed).1
      (handleEvents env' fuel (runH fuel (h ++ [(env, .hotReload)]) ({}, {})).1 (runH fuel (h ++ [(env, .hotReload)]) ({}, {})).2 changed).2))
    (hret : ReloadsReturn env' fuel (updateSteps env' fuel
      (handleEvents env' fuel (runH fuel (h ++ [(env, .hotReload)]) ({}, {})).1 (runH fuel (h ++ [(env, .hotReload)]) ({}, {})).2 changed).1
      (handleEvents env' fuel (runH fuel (h ++ [(env, .hotReload)]) ({}, {})).1 (runH fuel (h ++ [(env, .hotReload)]) ({}, {})).2 changed).2))
    (hrewire : NoRewireOntoPending env' fuel (updateSteps env' fuel
      (handleEvents env' fuel (runH fuel (h ++ [(env, .hotReload)]) ({}, {})).1 (runH fuel (h ++ [(env, .hotReload)]) ({}, {})).2 changed).1
      (handleEvents env' fuel (runH fuel (h ++ [(env, .hotReload)]) ({}, {})).1 (runH fuel (h ++ [(env, .hotReload)]) ({}, {})).2 changed).2)) :
    Settled env' fuel
      (hotReload env' fuel
        (handleEvents env' fuel (runH fuel (h ++ [(env, .hotReload)]) ({}, {})).1 (runH fuel (h ++ [(env, .hotReload)]) ({}, {})).2 changed).1
        (handleEvents env' fuel (runH fuel (h ++ [(env, .hotReload)]) ({}, {})).1 (runH fuel (h ++ [(env, .hotReload)]) ({}, {})).2 changed).2).1
      (hotReload env' fuel
        (handleEvents env' fuel (runH fuel (h ++ [(env, .hotReload)]) ({}, {})).1 (runH fuel (h ++ [(env, .hotReload)]) ({}, {})).2 changed).1
        (handleEvents env' fuel (runH fuel (h ++ [(env, .hotReload)]) ({}, {})).1 (runH fuel (h ++ [(env, .hotReload)]) ({}, {})).2 changed).2).2.graph ∧
    (hotReload env' fuel
        (handleEvents env' fuel (runH fuel (h ++ [(env, .hotReload)]) ({}, {})).1 (runH fuel (h ++ [(env, .hotReload)]) ({}, {})).2 changed).1
        (handleEvents env' fuel (runH fuel (h ++ [(env, .hotReload)]) ({}, {})).1 (runH fuel (h ++ [(env, .hotReload)]) ({}, {})).2 changed).2).2.dead = false := by
  obtain ⟨hinv, hall⟩ := loads_settle hS hh (HInv.init env fuel)
  obtain ⟨l1, l3⟩ := hall h [] rfl
  have l2 : GraphOK (runH fuel (h ++ [(env, .hotReload)]) ({}, {})).2.graph := C05_history_keeps_graphOK fuel _ _ graphOK_nil
  have hd1 := hinv.live
  have hs1 := hinv.local_
  generalize runH fuel (h ++ [(env, .hotReload)]) ({}, {}) = x1 at *
  obtain ⟨s1, r1⟩ := x1
  rw [handleEvents_local env' fuel s1 r1 changed hd1 hs1 l3] at hmiss hret hrewire ⊢
  exact C05_hot_reload_converges_partial env env' fuel _ _ changed hS hS' hL l1 l2 hrank hd1 hfuel l3 hs1 hfile hdir
    (fun d hd hg => mem_keepEvents _ changed _ d hd hg) hmiss hret hrewire

/-! ### The unrestricted load statement is false: three refutations

Loaders of a tiny all-hot type table (all `Plain`): `x` returns `0`; `y` fails; `a` loads `y` and
returns `1` whatever that gives (it absorbs the failure); `p` probes `x` with `get_cached`, and when `x`
is absent loads it and returns `1`, else returns `2`; `q` probes `x` and returns `1` / `2`. -/

def cxProg (id : String) : Prog :=
  if id = "x" then .ret (.int 0)
  else if id = "y" then .fail (.custom "no")
  else if id = "a" then .load ⟨0, "y"⟩ fun _ => .ret (.int 1)
  else if id = "p" then .getCached ⟨0, "x"⟩ fun r =>
    match r with
    | none => .load ⟨0, "x"⟩ fun _ => .ret (.int 1)
    | some _ => .ret (.int 2)
  else if id = "q" then .getCached ⟨0, "x"⟩ fun r =>
    match r with
    | none => .ret (.int 1)
    | some _ => .ret (.int 2)
  else .panic

def cxEnv : Env :=
  { read := fun _ id _ => .error ⟨true, "NotFound", id⟩
    readDir := fun _ _ => .ok []
    types := fun _ => { hot := true, prog := cxProg }
    hasReloader := true }

theorem cxEnv_steady : cxEnv.Steady := ⟨fun _ _ _ _ => rfl, fun _ _ _ => rfl, fun _ _ => rfl⟩
theorem cxEnv_hot : cxEnv.Hot := ⟨rfl, fun _ => rfl⟩

theorem cxEnv_plain : ∀ ty id, ((cxEnv.types ty).prog id).Plain := by
  intro _ id
  show (cxProg id).Plain
  unfold cxProg
  split
  · exact .ret _
  split
  · exact .fail _
  split
  · exact .load _ _ (fun _ => .ret _)
  split
  · refine .getCached _ _ (fun r => ?_)
    cases r
    · exact .load _ _ (fun _ => .ret _)
    · exact .ret _
  split
  · refine .getCached _ _ (fun r => ?_)
    cases r <;> exact .ret _
  · exact .panic

/-- a registered, cached, dynamic asset whose re-evaluation is NOT a tracked hit-only run (it misses) -/
def missAtB (env : Env) (fuel : Nat) (x : St × RSt) (k : Key) : Bool :=
  match x.2.graph.get (.asset k), x.1.lookup k with
  | some node, some c => node.typed && c.dyn && !reloadHit env fuel x.1 k
  | _, _ => false

theorem not_settled_of_miss {env : Env} {fuel : Nat} {x : St × RSt} {k : Key} (h : missAtB env fuel x k = true) :
    ¬ Settled env fuel x.1 x.2.graph := by
  unfold missAtB at h
  cases hg : x.2.graph.get (.asset k) with
  | none => rw [hg] at h; cases h
  | some node =>
    cases hc : x.1.lookup k with
    | none => rw [hg, hc] at h; cases h
    | some c =>
      rw [hg, hc] at h
      simp only [Bool.and_eq_true, Bool.not_eq_true'] at h
      obtain ⟨⟨h1, h2⟩, h3⟩ := h
      intro hs
      have := (hs k node c hg h1 hc h2).hit
      rw [h3] at this
      cases this

/-- **An absorbed failure: the load statement without `hclean` is false.** Every hypothesis of the
unrestricted statement holds — environment without fault plan, all types hot, all loaders `Plain`,
empty cache and reloader (settled, exact, drained) — and `load a` returns a handle. `a` loaded `y`,
which failed, and went on: it is cached and registered with the dependency `y`, and `y` is not cached.
Re-evaluating `a` misses `y`: it is not a tracked hit-only run, `a` is not settled. (A reload of `a`
would load `y` behind the sort's back: F-C05d.) -/
theorem C05_load_settles_false_absorbed :
    ∃ (env : Env) (fuel : Nat) (s : St) (r : RSt) (key : Key),
      env.Steady ∧ env.Hot ∧ (∀ ty id, ((env.types ty).prog id).Plain) ∧
      s.out = [] ∧ Settled env fuel s r.graph ∧ GraphOK r.graph ∧
      NoProbedKeyFilled s (step env fuel s (.load key)).1 r.graph ∧
      (step env fuel s (.load key)).2 = .handle 0 (.int 1) ∧
      ¬ CleanLoad env fuel s key ∧
      reloadHit env fuel (loadDrain env fuel (s, r) key).1 key = false ∧
      ¬ Settled env fuel (loadDrain env fuel (s, r) key).1 (loadDrain env fuel (s, r) key).2.graph :=
  ⟨cxEnv, 10, {}, {}, ⟨0, "a"⟩, cxEnv_steady, cxEnv_hot, cxEnv_plain, rfl, settled_nil _ _ _, graphOK_nil,
    noProbedKeyFilled_nil _ _, by decide, by decide, by decide,
    not_settled_of_miss (x := loadDrain cxEnv 10 ({}, {}) ⟨0, "a"⟩) (k := ⟨0, "a"⟩) (by decide)⟩

/-- **A probe of a key that gets filled: the load statement without `hclean` is false.** Same
hypotheses; `load p` returns a handle. `p` probed `x` with `get_cached`, found nothing, loaded `x` and
returned `1`. Now `x` is cached: re-evaluating `p` returns `2`. `p` holds `1`: stale from the start. -/
theorem C05_load_settles_false_probe :
    ∃ (env : Env) (fuel : Nat) (s : St) (r : RSt) (key : Key),
      env.Steady ∧ env.Hot ∧ (∀ ty id, ((env.types ty).prog id).Plain) ∧
      s.out = [] ∧ Settled env fuel s r.graph ∧ GraphOK r.graph ∧
      NoProbedKeyFilled s (step env fuel s (.load key)).1 r.graph ∧
      (step env fuel s (.load key)).2 = .handle 1 (.int 1) ∧
      ¬ CleanLoad env fuel s key ∧
      StaleAt env fuel (loadDrain env fuel (s, r) key) key ∧
      reloadOut env fuel (loadDrain env fuel (s, r) key).1 key = .ok (.int 2) ∧
      ¬ Settled env fuel (loadDrain env fuel (s, r) key).1 (loadDrain env fuel (s, r) key).2.graph :=
  have hst : StaleAt cxEnv 10 (loadDrain cxEnv 10 ({}, {}) ⟨0, "p"⟩) ⟨0, "p"⟩ := staleAt_of_check (by decide)
  ⟨cxEnv, 10, {}, {}, ⟨0, "p"⟩, cxEnv_steady, cxEnv_hot, cxEnv_plain, rfl, settled_nil _ _ _, graphOK_nil,
    noProbedKeyFilled_nil _ _, by decide, by decide, hst, by decide, hst.not_settled⟩

/-- **`Settled` is not preserved without `hfill`.** `q` was loaded (it probed `x`, found nothing,
returned `1`) and registered: everything is settled (by the load theorem). Then `load x`: a clean load
that returns a handle — and fills the key `q` probed. Re-evaluating `q` returns `2` now; `q` holds `1`.
(In the code the dependency `q → x` is recorded, but the first load of `x` is not an event.) -/
theorem C05_load_preserves_false_fill :
    ∃ (env : Env) (fuel : Nat) (s : St) (r : RSt) (key : Key),
      env.Steady ∧ env.Hot ∧ (∀ ty id, ((env.types ty).prog id).Plain) ∧
      s.out = [] ∧ Settled env fuel s r.graph ∧ GraphOK r.graph ∧
      CleanLoad env fuel s key ∧
      (step env fuel s (.load key)).2 = .handle 1 (.int 0) ∧
      ¬ NoProbedKeyFilled s (step env fuel s (.load key)).1 r.graph ∧
      StaleAt env fuel (loadDrain env fuel (s, r) key) ⟨0, "q"⟩ ∧
      ¬ Settled env fuel (loadDrain env fuel (s, r) key).1 (loadDrain env fuel (s, r) key).2.graph := by
  have h0 := C05_load_settles_partial cxEnv 10 {} {} ⟨0, "q"⟩ cxEnv_steady rfl (settled_nil _ _ _) graphOK_nil
    (by decide) (noProbedKeyFilled_nil _ _)
  have hst : StaleAt cxEnv 10 (loadDrain cxEnv 10 (loadDrain cxEnv 10 ({}, {}) ⟨0, "q"⟩) ⟨0, "x"⟩) ⟨0, "q"⟩ :=
    staleAt_of_check (by decide)
  have hclean : CleanLoad cxEnv 10 (loadDrain cxEnv 10 ({}, {}) ⟨0, "q"⟩).1 ⟨0, "x"⟩ := by decide
  refine ⟨cxEnv, 10, (loadDrain cxEnv 10 ({}, {}) ⟨0, "q"⟩).1, (loadDrain cxEnv 10 ({}, {}) ⟨0, "q"⟩).2, ⟨0, "x"⟩,
    cxEnv_steady, cxEnv_hot, cxEnv_plain, h0.2.2, h0.1, h0.2.1, hclean, by decide, ?_, hst, hst.not_settled⟩
  intro hfill
  exact hst.not_settled
    (C05_load_settles_partial cxEnv 10 _ _ ⟨0, "x"⟩ cxEnv_steady h0.2.2 h0.1 h0.2.1 hclean hfill).1

/-- **`remove` of a key something depends on breaks `Settled`** (`NoDependentOn` is necessary): after
`load b` (which loads `e`) and `hot_reload` everything is settled; `remove e`; now re-evaluating `b`
misses `e` — it is not a tracked hit-only run (a reload of `b` would load `e` during the pass). -/
theorem C05_remove_breaks_settled :
    ∃ (env : Env) (fuel : Nat) (x : St × RSt) (key : Key),
      env.Steady ∧ x.1.out = [] ∧ Settled env fuel x.1 x.2.graph ∧ GraphOK x.2.graph ∧
      ¬ NoDependentOn x.1 x.2.graph key ∧
      ¬ Settled env fuel (hstep fuel (env, .api (.remove key)) x).1 (hstep fuel (env, .api (.remove key)) x).2.graph := by
  have h0 := C05_history_settled_partial (exEnv [1, 0] [10]) (exEnv_steady _ _) 10
    [(exEnv [1, 0] [10], .api (.load kb)), (exEnv [1, 0] [10], .hotReload)]
    (.load kb _ _ _ (loadOK_of_check (by decide)) (.hotReload _ _ (.nil _)))
    [(exEnv [1, 0] [10], .api (.load kb))] [] rfl
  have hbad : ¬ Settled (exEnv [1, 0] [10]) 10
      (hstep 10 (exEnv [1, 0] [10], .api (.remove ke))
        (runH 10 ([(exEnv [1, 0] [10], .api (.load kb))] ++ [(exEnv [1, 0] [10], .hotReload)]) ({}, {}))).1
      (hstep 10 (exEnv [1, 0] [10], .api (.remove ke))
        (runH 10 ([(exEnv [1, 0] [10], .api (.load kb))] ++ [(exEnv [1, 0] [10], .hotReload)]) ({}, {}))).2.graph :=
    not_settled_of_miss (k := kb) (by decide)
  refine ⟨exEnv [1, 0] [10], 10, _, ke, exEnv_steady _ _, h0.2.2, h0.1, h0.2.1, ?_, hbad⟩
  intro hdep
  have hinv : HInv (exEnv [1, 0] [10]) 10
      (runH 10 ([(exEnv [1, 0] [10], .api (.load kb))] ++ [(exEnv [1, 0] [10], .hotReload)]) ({}, {})) :=
    (loads_settle (exEnv_steady _ _) (.load kb _ _ _ (loadOK_of_check (by decide)) (.hotReload _ _ (.nil _)))
      (HInv.init _ _)).1
  have h2 := (HInv.step_remove (exEnv_steady _ _) (key := ke) hinv hdep).pending
  exact hbad (by
    have h3 := h2.drain (exEnv_steady _ _) (r := (hstep 10 (exEnv [1, 0] [10], .api (.remove ke))
      (runH 10 ([(exEnv [1, 0] [10], .api (.load kb))] ++ [(exEnv [1, 0] [10], .hotReload)]) ({}, {}))).2)
    exact h3)

/-! Non-vacuity -/
example : GraphOK (Graph.insertAsset [] (.asset ⟨0, "a"⟩) [.file "a" "s"]) :=
  C05_insert_keeps_inverse [] graphOK_nil _ _

/-- "After `hot_reload` returns" means after the caller's OWN request was served: `Answers::wait_for_answer` waits with the
crate's `Condvar::wait_while`, which re-checks the token after every wake-up in both lock implementations (one condition
variable is shared by all callers and woken with `notify_all`). -/
theorem C05_wait_while_rechecks : waitWhileRechecksStd = true ∧ waitWhileRechecksParkingLot = true := by decide

/-- Every successful load registers its dependency set with the reloader, empty or not (`HotReloader::add_asset` sends
unconditionally): a key loaded again after a removal gets its OLD dependencies replaced. -/
theorem C05_add_asset_always_sends :
    AmVerif.Gen.skel_hot_reloading_mod_HotReloader_add_asset = [.call .s_AddAsset, .call .s_send] := rfl

/-- The reloader finds the entry it has to rewrite with the same `AssetMap::get` as every reader: a blocking read lock on the shard,
so a concurrent insertion into that shard delays the look-up but never turns it into a miss (a missed look-up would skip the reload
and consume the change). -/
theorem C05_get_waits_for_the_shard :
    AmVerif.Gen.skel_cache_AssetMap_for_AssetMap_get = [.call .s_get_shard, .acq .s_read 0, .call .s_get, .try_, .rel 0] := rfl

/-! ## The static mode (`enhance_hot_reloading`): the cache follows the source by itself

`Lemmas/StaticMode.lean`. In static mode every batch of events is applied at once by the reloader
thread (`handle_events` → `update_if_static`), the switch itself applies what was notified before and
not applied yet, and `hot_reload()` is a no-op. The pass is the same `run_update`: the statements are
`C05_pass_converges_partial` for the state the entry point hands to `run_update` (`takeEvents`,
`enhanceState`), with the same three named hypotheses on the steps of THAT pass. -/

/-- The pass `handle_events` runs in static mode is `run_update` from `takeEvents s r evs` (messages
drained, the events the graph knows taken); with a drained channel that state is `s` and `r` with the
kept events added to the set of changed entries. -/
theorem C05_static_events_pass_state (env : Env) (fuel : Nat) (s : St) (r : RSt) (evs : List Dep)
    (hlive : r.dead = false) (hstatic : r.static_ = true) :
    handleEvents env fuel s r evs =
      processMsgs (runUpdate env fuel (takeEvents s r evs).1 (takeEvents s r evs).2).1
        (runUpdate env fuel (takeEvents s r evs).1 (takeEvents s r evs).2).2 ∧
    (s.out = [] → takeEvents s r evs = (s, { r with toReload := keepEvents r.graph evs r.toReload })) :=
  ⟨handleEvents_static env fuel s r evs hlive hstatic, takeEvents_drained s r evs⟩

/-- **A batch of events in static mode converges** (partial: `hmiss`, `hrewire` as in
`C05_pass_converges_partial`, on the steps of the pass `handle_events` runs).

`s`, `r`: the cache and the reloader's data, reloader alive and in static mode, channel drained,
everything registered and cached settled under the source `env` before the edits. `env'` differs from
`env` only on `changed` (`hfile`, `hdir`); every changed entry the graph knows is among the events
`evs` of this batch or was in the set of changed entries already (`hnotified`). The three named
hypotheses are on `updateSteps` of the state `handle_events` hands to `run_update`
(`takeEvents s r evs`, see `C05_static_events_pass_state`).

Conclusion: when `handle_events` returns — no `hot_reload()` call — every registered, cached, dynamic
asset is settled under the NEW source, the reloader is alive and still in static mode, the channel is
drained (the pass registered nothing behind the sort's back), nothing is pending, the index is exact. -/
theorem C05_static_events_converge_partial (env env' : Env) (fuel : Nat) (s : St) (r : RSt) (evs changed : List Dep)
    {rank : Dep → Nat}
    (hS : env.Steady) (hS' : env'.Steady) (hL : SameLoaders env env')
    (hset : Settled env fuel s r.graph) (hG : GraphOK r.graph)
    (hrank : ∀ a rs b, r.graph.rdepsOf a = some rs → b ∈ rs → rank b < rank a)
    (hlive : r.dead = false) (hfuel : r.graph.length + 1 ≤ fuel)
    (hdrained : s.out = []) (hstatic : r.static_ = true)
    (hfile : ∀ id ext, Dep.file id ext ∉ changed → env'.read 0 id ext = env.read 0 id ext)
    (hdir : ∀ id, Dep.dir id ∉ changed → env'.readDir 0 id = env.readDir 0 id)
    (hnotified : ∀ d, d ∈ changed → r.graph.get d ≠ none → d ∈ evs ∨ d ∈ r.toReload)
    (hmiss : NoMissInPass env' fuel (updateSteps env' fuel (takeEvents s r evs).1 (takeEvents s r evs).2))
    (hret : ReloadsReturn env' fuel (updateSteps env' fuel (takeEvents s r evs).1 (takeEvents s r evs).2))
    (hrewire : NoRewireOntoPending env' fuel (updateSteps env' fuel (takeEvents s r evs).1 (takeEvents s r evs).2)) :
    Settled env' fuel (handleEvents env' fuel s r evs).1 (handleEvents env' fuel s r evs).2.graph ∧
    (handleEvents env' fuel s r evs).2.dead = false ∧ (handleEvents env' fuel s r evs).1.out = [] ∧
    (handleEvents env' fuel s r evs).2.toReload = [] ∧ (handleEvents env' fuel s r evs).2.static_ = true ∧
    GraphOK (handleEvents env' fuel s r evs).2.graph := by
  have e := takeEvents_drained s r evs hdrained
  have hg : (takeEvents s r evs).2.graph = r.graph := by rw [e]
  have ht : (takeEvents s r evs).2.toReload = keepEvents r.graph evs r.toReload := by rw [e]
  obtain ⟨c1, c2, c3, c4, c5, _⟩ := handleEvents_static_converges hS hS' hL (Pending.of_settled hdrained hset) hG.1
    (rank := rank) (changed := changed) (evs := evs) (by rw [hg]; exact hrank) hlive hstatic (by rw [hg]; exact hfuel)
    hfile hdir
    (by
      intro d hd hk
      rw [hg] at hk
      rw [ht]
      rcases hnotified d hd hk with h | h
      · exact mem_keepEvents _ evs _ d h hk
      · exact mem_keepEvents_of_mem _ evs _ d h)
    hmiss hret hrewire
  exact ⟨c1, c2, c3, c4, c5, C05_handleEvents_keeps_graphOK env' fuel s r evs hG⟩

/-- The same with registrations of earlier loads still in the channel (the usual situation in static
mode, where nobody has to call `hot_reload()`): `Pending` instead of "drained and settled" — every
registration in the channel is good and everything registered and cached is settled unless a
registration for it is in the channel. `handle_events` takes them first; the graph the sort walks is the
one after that drain (`(takeEvents s r evs).2.graph`). -/
theorem C05_static_events_converge_pending_partial (env env' : Env) (fuel : Nat) (s : St) (r : RSt)
    (evs changed : List Dep) {rank : Dep → Nat}
    (hS : env.Steady) (hS' : env'.Steady) (hL : SameLoaders env env')
    (hp : Pending env fuel s r.graph) (hG : GraphOK r.graph)
    (hrank : ∀ a rs b, (takeEvents s r evs).2.graph.rdepsOf a = some rs → b ∈ rs → rank b < rank a)
    (hlive : r.dead = false) (hfuel : (takeEvents s r evs).2.graph.length + 1 ≤ fuel)
    (hstatic : r.static_ = true)
    (hfile : ∀ id ext, Dep.file id ext ∉ changed → env'.read 0 id ext = env.read 0 id ext)
    (hdir : ∀ id, Dep.dir id ∉ changed → env'.readDir 0 id = env.readDir 0 id)
    (hnotified : ∀ d, d ∈ changed → (takeEvents s r evs).2.graph.get d ≠ none → d ∈ evs ∨ d ∈ r.toReload)
    (hmiss : NoMissInPass env' fuel (updateSteps env' fuel (takeEvents s r evs).1 (takeEvents s r evs).2))
    (hret : ReloadsReturn env' fuel (updateSteps env' fuel (takeEvents s r evs).1 (takeEvents s r evs).2))
    (hrewire : NoRewireOntoPending env' fuel (updateSteps env' fuel (takeEvents s r evs).1 (takeEvents s r evs).2)) :
    Settled env' fuel (handleEvents env' fuel s r evs).1 (handleEvents env' fuel s r evs).2.graph ∧
    (handleEvents env' fuel s r evs).2.dead = false ∧ (handleEvents env' fuel s r evs).1.out = [] ∧
    (handleEvents env' fuel s r evs).2.toReload = [] ∧ (handleEvents env' fuel s r evs).2.static_ = true ∧
    GraphOK (handleEvents env' fuel s r evs).2.graph := by
  have ht : (processMsgs s r).2.toReload = r.toReload :=
    drain_toReload s.out r (fun m hm => by obtain ⟨k, D, e, _⟩ := hp.good m hm; exact ⟨k, D, e⟩)
  obtain ⟨c1, c2, c3, c4, c5, _⟩ := handleEvents_static_converges hS hS' hL hp hG.1
    (rank := rank) (changed := changed) (evs := evs) hrank hlive hstatic hfuel hfile hdir
    (by
      intro d hd hk
      show d ∈ keepEvents (processMsgs s r).2.graph evs (processMsgs s r).2.toReload
      rcases hnotified d hd hk with h | h
      · exact mem_keepEvents _ evs _ d h hk
      · exact mem_keepEvents_of_mem _ evs _ d (by rw [ht]; exact h))
    hmiss hret hrewire
  exact ⟨c1, c2, c3, c4, c5, C05_handleEvents_keeps_graphOK env' fuel s r evs hG⟩

/-- The pass `enhance_hot_reloading` runs from the local mode is `run_update` from `enhanceState s r`
(messages drained, mode switched); with a drained channel that state is `s` and `r` in static mode. -/
theorem C05_enhance_pass_state (env : Env) (fuel : Nat) (s : St) (r : RSt)
    (hlive : r.dead = false) (hlocal : r.static_ = false) :
    enhance env fuel s r =
      processMsgs (runUpdate env fuel (enhanceState s r).1 (enhanceState s r).2).1
        (runUpdate env fuel (enhanceState s r).1 (enhanceState s r).2).2 ∧
    (s.out = [] → enhanceState s r = (s, { r with static_ := true })) :=
  ⟨enhance_local env fuel s r hlive hlocal, enhanceState_drained s r⟩

/-- **The switch to static mode applies what was pending** (partial: `hmiss`, `hrewire` on the steps
of the pass `enhance_hot_reloading` runs).

`s`, `r`: reloader alive, LOCAL mode, channel drained, everything settled under the source `env` before
the edits; `env'` differs from `env` only on `changed`, and every changed entry the graph knows has been
notified — it is in `r.toReload`, not applied yet (no `hot_reload()` since). After
`enhance_hot_reloading` returns everything registered and cached is settled under the NEW source, the
reloader is alive and in static mode, the channel is drained, nothing is pending, the index is exact. -/
theorem C05_enhance_converges_partial (env env' : Env) (fuel : Nat) (s : St) (r : RSt) (changed : List Dep)
    {rank : Dep → Nat}
    (hS : env.Steady) (hS' : env'.Steady) (hL : SameLoaders env env')
    (hset : Settled env fuel s r.graph) (hG : GraphOK r.graph)
    (hrank : ∀ a rs b, r.graph.rdepsOf a = some rs → b ∈ rs → rank b < rank a)
    (hlive : r.dead = false) (hfuel : r.graph.length + 1 ≤ fuel)
    (hdrained : s.out = []) (hlocal : r.static_ = false)
    (hfile : ∀ id ext, Dep.file id ext ∉ changed → env'.read 0 id ext = env.read 0 id ext)
    (hdir : ∀ id, Dep.dir id ∉ changed → env'.readDir 0 id = env.readDir 0 id)
    (hnotified : ∀ d, d ∈ changed → r.graph.get d ≠ none → d ∈ r.toReload)
    (hmiss : NoMissInPass env' fuel (updateSteps env' fuel (enhanceState s r).1 (enhanceState s r).2))
    (hret : ReloadsReturn env' fuel (updateSteps env' fuel (enhanceState s r).1 (enhanceState s r).2))
    (hrewire : NoRewireOntoPending env' fuel (updateSteps env' fuel (enhanceState s r).1 (enhanceState s r).2)) :
    Settled env' fuel (enhance env' fuel s r).1 (enhance env' fuel s r).2.graph ∧
    (enhance env' fuel s r).2.dead = false ∧ (enhance env' fuel s r).1.out = [] ∧
    (enhance env' fuel s r).2.toReload = [] ∧ (enhance env' fuel s r).2.static_ = true ∧
    GraphOK (enhance env' fuel s r).2.graph := by
  have e := enhanceState_drained s r hdrained
  have hg : (enhanceState s r).2.graph = r.graph := by rw [e]
  have ht : (enhanceState s r).2.toReload = r.toReload := by rw [e]
  obtain ⟨c1, c2, c3, c4, c5, _⟩ := enhance_converges hS hS' hL (Pending.of_settled hdrained hset) hG.1
    (rank := rank) (changed := changed) (by rw [hg]; exact hrank) hlive hlocal (by rw [hg]; exact hfuel)
    hfile hdir (by intro d hd hk; rw [hg] at hk; rw [ht]; exact hnotified d hd hk)
    hmiss hret hrewire
  exact ⟨c1, c2, c3, c4, c5, C05_enhance_keeps_graphOK env' fuel s r hG⟩

/-- The same with registrations of earlier loads still in the channel (`Pending`): the switch takes
them first. -/
theorem C05_enhance_converges_pending_partial (env env' : Env) (fuel : Nat) (s : St) (r : RSt) (changed : List Dep)
    {rank : Dep → Nat}
    (hS : env.Steady) (hS' : env'.Steady) (hL : SameLoaders env env')
    (hp : Pending env fuel s r.graph) (hG : GraphOK r.graph)
    (hrank : ∀ a rs b, (enhanceState s r).2.graph.rdepsOf a = some rs → b ∈ rs → rank b < rank a)
    (hlive : r.dead = false) (hfuel : (enhanceState s r).2.graph.length + 1 ≤ fuel)
    (hlocal : r.static_ = false)
    (hfile : ∀ id ext, Dep.file id ext ∉ changed → env'.read 0 id ext = env.read 0 id ext)
    (hdir : ∀ id, Dep.dir id ∉ changed → env'.readDir 0 id = env.readDir 0 id)
    (hnotified : ∀ d, d ∈ changed → (enhanceState s r).2.graph.get d ≠ none → d ∈ r.toReload)
    (hmiss : NoMissInPass env' fuel (updateSteps env' fuel (enhanceState s r).1 (enhanceState s r).2))
    (hret : ReloadsReturn env' fuel (updateSteps env' fuel (enhanceState s r).1 (enhanceState s r).2))
    (hrewire : NoRewireOntoPending env' fuel (updateSteps env' fuel (enhanceState s r).1 (enhanceState s r).2)) :
    Settled env' fuel (enhance env' fuel s r).1 (enhance env' fuel s r).2.graph ∧
    (enhance env' fuel s r).2.dead = false ∧ (enhance env' fuel s r).1.out = [] ∧
    (enhance env' fuel s r).2.toReload = [] ∧ (enhance env' fuel s r).2.static_ = true ∧
    GraphOK (enhance env' fuel s r).2.graph := by
  have ht : (processMsgs s r).2.toReload = r.toReload :=
    drain_toReload s.out r (fun m hm => by obtain ⟨k, D, e, _⟩ := hp.good m hm; exact ⟨k, D, e⟩)
  obtain ⟨c1, c2, c3, c4, c5, _⟩ := enhance_converges hS hS' hL hp hG.1
    (rank := rank) (changed := changed) hrank hlive hlocal hfuel hfile hdir
    (by
      intro d hd hk
      show d ∈ (processMsgs s r).2.toReload
      rw [ht]
      exact hnotified d hd hk)
    hmiss hret hrewire
  exact ⟨c1, c2, c3, c4, c5, C05_enhance_keeps_graphOK env' fuel s r hG⟩

/-- **In static mode `hot_reload()` is a no-op** (as documented): the reloader only takes the messages
of the channel (registrations of loads) — no pass, no entry is rewritten, whatever the source, the set
of changed entries and the fuel are. (A dead reloader does nothing at all.) -/
theorem C05_hot_reload_static_idle (env : Env) (fuel : Nat) (s : St) (r : RSt) (hstatic : r.static_ = true) :
    hotReload env fuel s r = (if r.dead then (s, r) else processMsgs s r) ∧
    (hotReload env fuel s r).1.map = s.map ∧
    (∀ k, (hotReload env fuel s r).1.lookup k = s.lookup k) ∧
    (hotReload env fuel s r).2.static_ = true := by
  cases hd : r.dead with
  | true =>
    have e : hotReload env fuel s r = (s, r) := by unfold hotReload; simp only [hd, if_true]
    rw [e]
    exact ⟨rfl, rfl, fun _ => rfl, hstatic⟩
  | false =>
    rw [hotReload_static env fuel s r hd hstatic]
    exact ⟨rfl, rfl, fun k => processMsgs_lookup s r k, (processMsgs_static s r).trans hstatic⟩

/-- **Histories in which the reloader is switched to static mode** (partial), from the empty cache and
an empty reloader, under ONE environment without fault plan (no edit: a notification under an unchanged
source makes the reloader re-evaluate assets whose re-evaluation reproduces the cached value — the
statement is about the bookkeeping). The history is any list of API operations, `hot_reload()`s,
batches of events and `enhance_hot_reloading`s such that every step satisfies `StepOK` in the state it
starts from (`StaticHist`):
* a load satisfies `LoadOK` (`CleanLoad`, `NoProbedKeyFilled`, `NoPendingKeyFilled`) — `get_or_insert`,
  `remove`, `take` and the read-only operations as in `C05_history_settled_partial`;
* a reloader step that runs `run_update` with something to reload — a batch of events in static mode,
  `hot_reload()` or the switch in local mode after events were taken — satisfies `PassOK` for the state
  it hands to `run_update` (`prePass`): acyclic look-ups, fuel for the sort, `NoMissInPass`,
  `ReloadsReturn`, `NoRewireOntoPending` on the steps of that pass.
Loads need not be separated by reloader steps: in static mode the registrations of a load stay in the
channel until the next reloader step (`Pending`), whichever it is.

Conclusion: after EVERY reloader step of the history — every `enhance_hot_reloading`, every batch of
events (static mode: applied at once; local mode: taken), every `hot_reload()` (static mode: a no-op
drain) — everything registered and cached is settled, the index is exact, the channel is drained, the
reloader is alive, in static mode nothing is pending; after `enhance_hot_reloading` the mode is static. -/
theorem C05_static_history_partial (env : Env) (hS : env.Steady) (fuel : Nat) (h : List (Env × HOp))
    (hh : StaticHist env fuel h ({}, {})) :
    ∀ h1 op h2, h = h1 ++ (env, op) :: h2 → op.isReloader = true →
      Settled env fuel (runH fuel (h1 ++ [(env, op)]) ({}, {})).1 (runH fuel (h1 ++ [(env, op)]) ({}, {})).2.graph ∧
      GraphOK (runH fuel (h1 ++ [(env, op)]) ({}, {})).2.graph ∧
      (runH fuel (h1 ++ [(env, op)]) ({}, {})).1.out = [] ∧
      (runH fuel (h1 ++ [(env, op)]) ({}, {})).2.dead = false ∧
      ((runH fuel (h1 ++ [(env, op)]) ({}, {})).2.static_ = true →
        (runH fuel (h1 ++ [(env, op)]) ({}, {})).2.toReload = []) ∧
      (op = .enhance → (runH fuel (h1 ++ [(env, op)]) ({}, {})).2.static_ = true) := by
  intro h1 op h2 e hop
  obtain ⟨j1, j2, j3⟩ := (static_hist_settled hS hh (SInv.init env fuel)).2 h1 op h2 e hop
  refine ⟨j1, C05_history_keeps_graphOK fuel _ _ graphOK_nil, j2, j3.live, j3.idle, ?_⟩
  intro eo
  subst eo
  have hpre := static_hist_prefix hS hh (SInv.init env fuel) h1 ((env, .enhance) :: h2) e
  rw [runH_append]
  generalize runH fuel h1 ({}, {}) = x1 at hpre
  obtain ⟨s1, r1⟩ := x1
  exact enhance_static_after env fuel s1 r1 hpre.live

/-- `C05_static_history_partial` contains `C05_history_settled_partial`: every history of loads and
`hot_reload()`s (`LoadHist`) is a `StaticHist` — its `hot_reload()`s have nothing to reload, which needs
no hypothesis. -/
theorem C05_static_history_extends (env : Env) (hS : env.Steady) (fuel : Nat) (h : List (Env × HOp))
    (hh : LoadHist env fuel h ({}, {})) : StaticHist env fuel h ({}, {}) :=
  StaticHist.of_loadHist hS hh (HInv.init env fuel)

/-! ### Non-vacuity of the static-mode statements: the chain `b → e` -/

/-- `load b` (which loads `e`), then `enhance_hot_reloading`: the two registrations are taken by the
switch; static mode -/
def exStatic : St × RSt :=
  runH 10 [(exEnv [1, 0] [10], .api (.load kb)), (exEnv [1, 0] [10], .enhance)] ({}, {})

theorem exStatic_hist :
    StaticHist (exEnv [1, 0] [10]) 10 [(exEnv [1, 0] [10], .api (.load kb)), (exEnv [1, 0] [10], .enhance)] ({}, {}) :=
  .cons _ _ _ (StepOK.load (loadOK_of_check (by decide))) (.cons _ _ _ (StepOK.of_idle rfl (by decide)) (.nil _))

/-- **Non-vacuity** of `C05_static_events_converge_partial`: `load b`, `enhance_hot_reloading` (the
initial state is produced by the history theorem), `e.s` is edited from `10` to `20`, the event is
handed to the reloader — no `hot_reload()`. All hypotheses hold. -/
example :
    Settled (exEnv [1, 0] [20]) 10 (handleEvents (exEnv [1, 0] [20]) 10 exStatic.1 exStatic.2 [.file "e" "s"]).1
      (handleEvents (exEnv [1, 0] [20]) 10 exStatic.1 exStatic.2 [.file "e" "s"]).2.graph ∧
    (handleEvents (exEnv [1, 0] [20]) 10 exStatic.1 exStatic.2 [.file "e" "s"]).2.dead = false ∧
    (handleEvents (exEnv [1, 0] [20]) 10 exStatic.1 exStatic.2 [.file "e" "s"]).1.out = [] ∧
    (handleEvents (exEnv [1, 0] [20]) 10 exStatic.1 exStatic.2 [.file "e" "s"]).2.toReload = [] ∧
    (handleEvents (exEnv [1, 0] [20]) 10 exStatic.1 exStatic.2 [.file "e" "s"]).2.static_ = true ∧
    GraphOK (handleEvents (exEnv [1, 0] [20]) 10 exStatic.1 exStatic.2 [.file "e" "s"]).2.graph :=
  have h0 := C05_static_history_partial (exEnv [1, 0] [10]) (exEnv_steady _ _) 10 _ exStatic_hist
    [(exEnv [1, 0] [10], .api (.load kb))] .enhance [] rfl rfl
  C05_static_events_converge_partial (exEnv [1, 0] [10]) (exEnv [1, 0] [20]) 10 exStatic.1 exStatic.2
    [.file "e" "s"] [.file "e" "s"]
    (rank := exRank) (exEnv_steady _ _) (exEnv_steady _ _) (exEnv_same _ _ _ _)
    h0.1 h0.2.1 (rank_of_entries (by decide)) h0.2.2.2.1 (by decide) h0.2.2.1 (h0.2.2.2.2.2 rfl)
    (exEnv_unchanged_e _ _ _) (fun _ _ => rfl) (fun _ hd _ => Or.inl hd)
    (noMiss_of_check (by decide)) (reloadsReturn_of_check (by decide)) (noRewire_of_check (by decide))

/-- the conclusion, checked on the computed state: `e = 20`, `b = 21` as soon as `handle_events` returns -/
example :
    (handleEvents (exEnv [1, 0] [20]) 10 exStatic.1 exStatic.2 [.file "e" "s"]).1.lookup ke = some ⟨.int 20, true, 1, true, 0⟩ ∧
    (handleEvents (exEnv [1, 0] [20]) 10 exStatic.1 exStatic.2 [.file "e" "s"]).1.lookup kb = some ⟨.int 21, true, 1, true, 1⟩ ∧
    settledB (exEnv [1, 0] [20]) 10 (handleEvents (exEnv [1, 0] [20]) 10 exStatic.1 exStatic.2 [.file "e" "s"]).1
      (handleEvents (exEnv [1, 0] [20]) 10 exStatic.1 exStatic.2 [.file "e" "s"]).2.graph = true ∧
    (updateSteps (exEnv [1, 0] [20]) 10 (takeEvents exStatic.1 exStatic.2 [.file "e" "s"]).1
      (takeEvents exStatic.1 exStatic.2 [.file "e" "s"]).2).map (·.key) = [ke, kb] := by decide

/-- … and a `hot_reload()` afterwards changes nothing (`C05_hot_reload_static_idle`) -/
example :
    hotReload (exEnv [1, 0] [20]) 10 (handleEvents (exEnv [1, 0] [20]) 10 exStatic.1 exStatic.2 [.file "e" "s"]).1
        (handleEvents (exEnv [1, 0] [20]) 10 exStatic.1 exStatic.2 [.file "e" "s"]).2 =
      handleEvents (exEnv [1, 0] [20]) 10 exStatic.1 exStatic.2 [.file "e" "s"] := by
  have h := (C05_hot_reload_static_idle (exEnv [1, 0] [20]) 10
    (handleEvents (exEnv [1, 0] [20]) 10 exStatic.1 exStatic.2 [.file "e" "s"]).1
    (handleEvents (exEnv [1, 0] [20]) 10 exStatic.1 exStatic.2 [.file "e" "s"]).2 (by decide)).1
  rw [h, show (handleEvents (exEnv [1, 0] [20]) 10 exStatic.1 exStatic.2 [.file "e" "s"]).2.dead = false by decide]
  exact processMsgs_nil _ _ (by decide)

/-- **Non-vacuity** of `C05_enhance_converges_partial`: `exHist` = `load b`, `hot_reload()`, `e.s` edited
from `10` to `20` and notified in LOCAL mode (taken, not applied); `enhance_hot_reloading` applies it. -/
example :
    (Settled (exEnv [1, 0] [20]) 10 (enhance (exEnv [1, 0] [20]) 10 exHist.1 exHist.2).1
      (enhance (exEnv [1, 0] [20]) 10 exHist.1 exHist.2).2.graph ∧
     (enhance (exEnv [1, 0] [20]) 10 exHist.1 exHist.2).2.dead = false ∧
     (enhance (exEnv [1, 0] [20]) 10 exHist.1 exHist.2).1.out = [] ∧
     (enhance (exEnv [1, 0] [20]) 10 exHist.1 exHist.2).2.toReload = [] ∧
     (enhance (exEnv [1, 0] [20]) 10 exHist.1 exHist.2).2.static_ = true ∧
     GraphOK (enhance (exEnv [1, 0] [20]) 10 exHist.1 exHist.2).2.graph) ∧
    exHist.2.toReload = [.file "e" "s"] ∧
    (enhance (exEnv [1, 0] [20]) 10 exHist.1 exHist.2).1.lookup ke = some ⟨.int 20, true, 1, true, 0⟩ ∧
    (enhance (exEnv [1, 0] [20]) 10 exHist.1 exHist.2).1.lookup kb = some ⟨.int 21, true, 1, true, 1⟩ :=
  ⟨C05_enhance_converges_partial (exEnv [1, 0] [10]) (exEnv [1, 0] [20]) 10 exHist.1 exHist.2 [.file "e" "s"]
    (rank := exRank) (exEnv_steady _ _) (exEnv_steady _ _) (exEnv_same _ _ _ _)
    (settled_of_check (by decide)) (C05_history_keeps_graphOK 10 _ _ graphOK_nil) (rank_of_entries (by decide))
    (by decide) (by decide) (by decide) (by decide)
    (exEnv_unchanged_e _ _ _) (fun _ _ => rfl) (by decide)
    (noMiss_of_check (by decide)) (reloadsReturn_of_check (by decide)) (noRewire_of_check (by decide)),
   by decide, by decide, by decide⟩

/-- files rank above `e`, `e` above `b` and `n` -/
def exRank2 : Dep → Nat
  | .asset k => if k = ke then 1 else 0
  | _ => 2

/-- **Non-vacuity** of `C05_static_history_partial`, passes in static mode included: `load b`, the switch,
a notification for `e.s` (static mode: `e` and `b` are re-evaluated at once), `load n` (its registration
stays in the channel), `hot_reload()` (a no-op that drains it), a notification again (`e`, `b`, `n`). -/
def exStaticHistory : List (Env × HOp) :=
  [(exEnv [1, 0] [10], .api (.load kb)), (exEnv [1, 0] [10], .enhance),
   (exEnv [1, 0] [10], .notify [.file "e" "s"]), (exEnv [1, 0] [10], .api (.load kn)),
   (exEnv [1, 0] [10], .hotReload), (exEnv [1, 0] [10], .notify [.file "e" "s"])]

theorem exStaticHistory_ok : StaticHist (exEnv [1, 0] [10]) 10 exStaticHistory ({}, {}) :=
  .cons _ _ _ (StepOK.load (loadOK_of_check (by decide)))
    (.cons _ _ _ (StepOK.of_idle rfl (by decide))
      (.cons _ _ _ (StepOK.of_pass rfl (PassOK.of_checks exRank2 (by decide) (by decide) (by decide) (by decide) (by decide)))
        (.cons _ _ _ (StepOK.load (loadOK_of_check (by decide)))
          (.cons _ _ _ (StepOK.of_idle rfl (by decide))
            (.cons _ _ _ (StepOK.of_pass rfl (PassOK.of_checks exRank2 (by decide) (by decide) (by decide) (by decide) (by decide)))
              (.nil _))))))

example :
    Settled (exEnv [1, 0] [10]) 10 (runH 10 exStaticHistory ({}, {})).1 (runH 10 exStaticHistory ({}, {})).2.graph ∧
    (runH 10 exStaticHistory ({}, {})).2.static_ = true ∧ (runH 10 exStaticHistory ({}, {})).2.toReload = [] :=
  have h := C05_static_history_partial (exEnv [1, 0] [10]) (exEnv_steady _ _) 10 exStaticHistory exStaticHistory_ok
    [(exEnv [1, 0] [10], .api (.load kb)), (exEnv [1, 0] [10], .enhance),
     (exEnv [1, 0] [10], .notify [.file "e" "s"]), (exEnv [1, 0] [10], .api (.load kn)),
     (exEnv [1, 0] [10], .hotReload)] (.notify [.file "e" "s"]) [] rfl rfl
  ⟨h.1, by decide, h.2.2.2.2.1 (by decide)⟩

/-- the passes of that history are not empty: the second notification re-evaluates `e`, then `b` and `n`;
the registration of `n` was in the channel until the `hot_reload()` -/
example :
    (runH 10 (exStaticHistory.take 4) ({}, {})).1.out.length = 1 ∧
    (runH 10 (exStaticHistory.take 5) ({}, {})).1.out = [] ∧
    ((updateSteps (exEnv [1, 0] [10]) 10
      (prePass (.notify [.file "e" "s"]) (runH 10 (exStaticHistory.take 5) ({}, {}))).1
      (prePass (.notify [.file "e" "s"]) (runH 10 (exStaticHistory.take 5) ({}, {}))).2).map (·.key)).length = 3 ∧
    (runH 10 exStaticHistory ({}, {})).1.lookup kn = some ⟨.int 10, true, 1, true, 2⟩ := by decide

/-! ### The two order-dependent situations exist in static mode too

The pass is the same `run_update`, sorted once from the graph as it is when the batch arrives: the
named hypotheses `hrewire` (F-C05e) and `hmiss` (F-C05d) of `C05_static_events_converge_partial` cannot
be dropped. Same scripts as `C05_full_statement_false_rewire` / `C05_full_statement_false_miss`; the
events of ONE batch arrive as `e.s`, `b.s`. -/

/-- `b = 1`, `e = 10`, both loaded and registered; static mode, nothing pending -/
def exFlatStatic : RSt := { graph := exFlat.graph, static_ := true }

/-- **F-C05e in static mode**: every hypothesis of `C05_static_events_converge_partial` except `hrewire`
holds, and when `handle_events` returns `b` holds `12` although re-evaluating its loader gives `22`. -/
theorem C05_static_statement_false_rewire :
    ∃ (env env' : Env) (fuel : Nat) (s : St) (r : RSt) (evs changed : List Dep) (rank : Dep → Nat),
      env.Steady ∧ env'.Steady ∧ SameLoaders env env' ∧ Settled env fuel s r.graph ∧ GraphOK r.graph ∧
      (∀ a rs b, r.graph.rdepsOf a = some rs → b ∈ rs → rank b < rank a) ∧
      r.dead = false ∧ r.graph.length + 1 ≤ fuel ∧ s.out = [] ∧ r.static_ = true ∧
      (∀ id ext, Dep.file id ext ∉ changed → env'.read 0 id ext = env.read 0 id ext) ∧
      (∀ id, Dep.dir id ∉ changed → env'.readDir 0 id = env.readDir 0 id) ∧
      (∀ d, d ∈ changed → d ∈ evs) ∧
      NoMissInPass env' fuel (updateSteps env' fuel (takeEvents s r evs).1 (takeEvents s r evs).2) ∧
      ReloadsReturn env' fuel (updateSteps env' fuel (takeEvents s r evs).1 (takeEvents s r evs).2) ∧
      ¬ NoRewireOntoPending env' fuel (updateSteps env' fuel (takeEvents s r evs).1 (takeEvents s r evs).2) ∧
      StaleAt env' fuel (handleEvents env' fuel s r evs) kb ∧
      (handleEvents env' fuel s r evs).1.lookup kb = some ⟨.int 12, true, 1, true, 1⟩ ∧
      reloadOut env' fuel (handleEvents env' fuel s r evs).1 kb = .ok (.int 22) := by
  have hstale : StaleAt (exEnv [2, 0] [20]) 10
      (handleEvents (exEnv [2, 0] [20]) 10 (exSt 1 10) exFlatStatic [.file "e" "s", .file "b" "s"]) kb :=
    staleAt_of_check (by decide)
  have hS := exEnv_steady [1] [10]
  have hS' := exEnv_steady [2, 0] [20]
  have hL := exEnv_same [1] [10] [2, 0] [20]
  have hset : Settled (exEnv [1] [10]) 10 (exSt 1 10) exFlatStatic.graph := settled_of_check (by decide)
  have hrank : ∀ a rs b, exFlatStatic.graph.rdepsOf a = some rs → b ∈ rs → exRank b < exRank a :=
    rank_of_entries (by decide)
  have hfile := exEnv_unchanged [1] [10] [2, 0] [20]
  have hnot : ∀ d, d ∈ [Dep.file "b" "s", Dep.file "e" "s"] → d ∈ [Dep.file "e" "s", Dep.file "b" "s"] := by decide
  refine ⟨exEnv [1] [10], exEnv [2, 0] [20], 10, exSt 1 10, exFlatStatic, [.file "e" "s", .file "b" "s"],
    [.file "b" "s", .file "e" "s"], exRank,
    hS, hS', hL, hset, exFlat_graphOK, hrank, rfl, by decide, rfl, rfl, hfile, fun _ _ => rfl, hnot,
    noMiss_of_check (by decide), reloadsReturn_of_check (by decide), ?_, hstale, by decide, by decide⟩
  intro hrew
  exact hstale.not_settled
    (C05_static_events_converge_partial _ _ 10 _ _ _ _ hS hS' hL hset exFlat_graphOK hrank rfl (by decide) rfl rfl
      hfile (fun _ _ => rfl) (fun d hd _ => Or.inl (hnot d hd)) (noMiss_of_check (by decide))
      (reloadsReturn_of_check (by decide)) hrew).1

/-- **F-C05d in static mode**: every hypothesis of `C05_static_events_converge_partial` except `hmiss`
holds; the reload of `b` loads `n` for the first time, from the stale `e`; when `handle_events` returns
`n` is registered (its registration was drained by `handle_events` itself) and holds `10` although
re-evaluating its loader gives `20`. -/
theorem C05_static_statement_false_miss :
    ∃ (env env' : Env) (fuel : Nat) (s : St) (r : RSt) (evs changed : List Dep) (rank : Dep → Nat),
      env.Steady ∧ env'.Steady ∧ SameLoaders env env' ∧ Settled env fuel s r.graph ∧ GraphOK r.graph ∧
      (∀ a rs b, r.graph.rdepsOf a = some rs → b ∈ rs → rank b < rank a) ∧
      r.dead = false ∧ r.graph.length + 1 ≤ fuel ∧ s.out = [] ∧ r.static_ = true ∧
      (∀ id ext, Dep.file id ext ∉ changed → env'.read 0 id ext = env.read 0 id ext) ∧
      (∀ id, Dep.dir id ∉ changed → env'.readDir 0 id = env.readDir 0 id) ∧
      (∀ d, d ∈ changed → d ∈ evs) ∧
      ¬ NoMissInPass env' fuel (updateSteps env' fuel (takeEvents s r evs).1 (takeEvents s r evs).2) ∧
      ReloadsReturn env' fuel (updateSteps env' fuel (takeEvents s r evs).1 (takeEvents s r evs).2) ∧
      NoRewireOntoPending env' fuel (updateSteps env' fuel (takeEvents s r evs).1 (takeEvents s r evs).2) ∧
      StaleAt env' fuel (handleEvents env' fuel s r evs) kn ∧
      (handleEvents env' fuel s r evs).1.lookup kn = some ⟨.int 10, true, 0, false, 2⟩ ∧
      reloadOut env' fuel (handleEvents env' fuel s r evs).1 kn = .ok (.int 20) := by
  refine ⟨exEnv [1] [10], exEnv [2, 1] [20], 10, exSt 1 10, exFlatStatic, [.file "e" "s", .file "b" "s"],
    [.file "b" "s", .file "e" "s"], exRank,
    exEnv_steady _ _, exEnv_steady _ _, exEnv_same _ _ _ _, settled_of_check (by decide), exFlat_graphOK,
    rank_of_entries (by decide), rfl, by decide, rfl, rfl, exEnv_unchanged _ _ _ _, fun _ _ => rfl, by decide,
    fun h => absurd (noMiss_check_of h) (by decide), reloadsReturn_of_check (by decide),
    noRewire_of_check (by decide), staleAt_of_check (by decide), by decide, by decide⟩

/-! ## Histories with `clear` (`Lemmas/HistMore.lean`)

After `clear` the cache is empty, the reloader's graph keeps its (typed) nodes, and the registrations
that were still in the channel name entries that are gone: the invariant `Pending` of the history
theorems above ("every registration in the channel is `MsgGood`: its key IS cached …") is false. It is
replaced by `PendingC`: the LAST registration of every key in the channel is good IF its key is cached
(`MsgGoodIf`, `LastGood`). A stale registration cannot break `Settled`: `insertAsset` replaces the
dependencies of the node, so the last message wins (`settledBut_drainC`) — and a key can only be cached
again (with a dynamic cell) by a load that misses, which sends a NEW registration after the stale one.
`clear` itself needs no hypothesis. -/

/-- the conclusion of the history theorems, for every step predicate `P` whose steps keep the invariant
`SInvC` and whose reloader steps satisfy `PassOK` when they run a pass -/
theorem C05_history_conclusion {P : HOp → St × RSt → Prop} (env : Env) (hS : env.Steady) (fuel : Nat)
    (hI : ∀ x op, SInvC env fuel x → P op x → SInvC env fuel (hstep fuel (env, op) x))
    (hpass : ∀ x op, op.isReloader = true → P op x →
      op.runsPass x.2 = true → (prePass op x).2.toReload ≠ [] → PassOK env fuel (prePass op x))
    (h : List (Env × HOp)) (hh : HistP P env fuel h ({}, {})) :
    ∀ h1 op h2, h = h1 ++ (env, op) :: h2 → op.isReloader = true →
      Settled env fuel (runH fuel (h1 ++ [(env, op)]) ({}, {})).1 (runH fuel (h1 ++ [(env, op)]) ({}, {})).2.graph ∧
      GraphOK (runH fuel (h1 ++ [(env, op)]) ({}, {})).2.graph ∧
      (runH fuel (h1 ++ [(env, op)]) ({}, {})).1.out = [] ∧
      (runH fuel (h1 ++ [(env, op)]) ({}, {})).2.dead = false ∧
      ((runH fuel (h1 ++ [(env, op)]) ({}, {})).2.static_ = true →
        (runH fuel (h1 ++ [(env, op)]) ({}, {})).2.toReload = []) ∧
      (op = .enhance → (runH fuel (h1 ++ [(env, op)]) ({}, {})).2.static_ = true) := by
  intro h1 op h2 e hop
  obtain ⟨j1, j2, j3, j4⟩ := (histP_settled hS hI hpass hh (SInvC.init env fuel)).2 h1 op h2 e hop
  refine ⟨j1, C05_history_keeps_graphOK fuel _ _ graphOK_nil, j2, j3.live, j3.idle, ?_⟩
  intro eo
  subst eo
  rw [runH_append]
  generalize runH fuel h1 ({}, {}) = x1 at j4
  obtain ⟨s1, r1⟩ := x1
  exact enhance_static_after env fuel s1 r1 j4.live

/-- **Histories with `clear`** (partial): `C05_static_history_partial` extended with `.api .clear` steps.
From the empty cache and an empty reloader, under ONE environment without fault plan; the history is
any list of API operations, `hot_reload()`s, batches of events and `enhance_hot_reloading`s such that
every step satisfies `StepOKC` in the state it starts from:
* `clear`: no hypothesis (registrations may be in the channel, events may be pending, any mode);
* a load satisfies `LoadOKC` = `CleanLoad`, `NoProbedKeyFilled` and `NoLivePendingKeyFilled` — the third
  is `NoPendingKeyFilled` asked only of the registrations whose key is cached: implied by it, and the
  only form that holds after a `clear` (`C05_clear_old_hypothesis_too_strong`); necessary
  (`C05_load_pending_false_fill`);
* `get_or_insert`: the same two no-fill hypotheses; `remove` / `take`: `NoDependentOnC` (`NoDependentOn`
  with the part on the channel asked only of cached keys other than the removed one; necessary:
  `C05_remove_breaks_settled` — with the channel drained the two coincide, `NoDependentOnC.drained` —,
  `C05_remove_pending_breaks_settled`); the read-only operations: nothing;
* reloader steps: `PassOK` as in `C05_static_history_partial`.
Every `StaticHist` is such a history (`C05_history_with_clear_extends`). Not covered here: `load_owned`
(`C05_history_with_load_owned_partial`), edits.

Conclusion: the one of `C05_static_history_partial`, after EVERY reloader step. -/
theorem C05_history_with_clear_partial (env : Env) (hS : env.Steady) (fuel : Nat) (h : List (Env × HOp))
    (hh : HistP (StepOKC env fuel) env fuel h ({}, {})) :
    ∀ h1 op h2, h = h1 ++ (env, op) :: h2 → op.isReloader = true →
      Settled env fuel (runH fuel (h1 ++ [(env, op)]) ({}, {})).1 (runH fuel (h1 ++ [(env, op)]) ({}, {})).2.graph ∧
      GraphOK (runH fuel (h1 ++ [(env, op)]) ({}, {})).2.graph ∧
      (runH fuel (h1 ++ [(env, op)]) ({}, {})).1.out = [] ∧
      (runH fuel (h1 ++ [(env, op)]) ({}, {})).2.dead = false ∧
      ((runH fuel (h1 ++ [(env, op)]) ({}, {})).2.static_ = true →
        (runH fuel (h1 ++ [(env, op)]) ({}, {})).2.toReload = []) ∧
      (op = .enhance → (runH fuel (h1 ++ [(env, op)]) ({}, {})).2.static_ = true) :=
  C05_history_conclusion env hS fuel (fun _ op hx hok => hx.step hS op hok) (fun _ _ hop hok => hok.pass hop) h hh

/-- `C05_history_with_clear_partial` contains `C05_static_history_partial` (hence `C05_history_settled_partial`) -/
theorem C05_history_with_clear_extends (env : Env) (fuel : Nat) (h : List (Env × HOp)) (x : St × RSt)
    (hh : StaticHist env fuel h x) : HistP (StepOKC env fuel) env fuel h x :=
  hh.toP.mono (fun _ _ => StepOK.toC)

/-- **Last message wins** (the drain lemma behind the theorem): if the last registration of every key
in the channel is good if its key is cached, and everything registered and cached is settled except
the keys with a registration in the channel, then after the reloader has taken the channel — stale
registrations and `Clear`s included — everything registered and cached is settled. -/
theorem C05_last_registration_wins (env : Env) (hS : env.Steady) (fuel : Nat) (s : St) (r : RSt)
    (hlast : LastGood env fuel s s.out) (hbut : SettledBut env fuel s r.graph s.out) :
    Settled env fuel (processMsgs s r).1 (processMsgs s r).2.graph := by
  rw [processMsgs_eq]
  exact settled_congr hS (s := s) (fun _ => rfl) (settledBut_drainC s.out r hlast hbut)

/-- `clear` keeps the invariant whatever is in the channel and in the graph, without hypothesis -/
theorem C05_clear_keeps_invariant (env : Env) (hS : env.Steady) (fuel : Nat) (x : St × RSt) (hx : SInvC env fuel x) :
    SInvC env fuel (hstep fuel (env, .api .clear) x) ∧
    (∀ k, (hstep fuel (env, .api .clear) x).1.lookup k = none) ∧
    (hstep fuel (env, .api .clear) x).2 = x.2 ∧
    (hstep fuel (env, .api .clear) x).1.out = if env.hasReloader then x.1.out ++ [.clear] else x.1.out :=
  ⟨hx.step hS _ StepOKC.clear, fun k => step_clear_lookup env fuel x.1 k, rfl, step_clear_out env fuel x.1⟩

/-! ### Non-vacuity -/

/-- `load b` (loads `e`), `clear` — the two registrations and the `Clear` are in the channel, nothing
is cached —, `load b` again, `hot_reload()` -/
def exClearHistory : List (Env × HOp) :=
  [(exEnv [1, 0] [10], .api (.load kb)), (exEnv [1, 0] [10], .api .clear),
   (exEnv [1, 0] [10], .api (.load kb)), (exEnv [1, 0] [10], .hotReload)]

theorem exClearHistory_ok : HistP (StepOKC (exEnv [1, 0] [10]) 10) (exEnv [1, 0] [10]) 10 exClearHistory ({}, {}) :=
  .cons _ _ _ (StepOKC.load (loadOKC_of_check (by decide)))
    (.cons _ _ _ StepOKC.clear
      (.cons _ _ _ (StepOKC.load (loadOKC_of_check (by decide)))
        (.cons _ _ _ (StepOK.of_idle rfl (by decide)).toC (.nil _))))

/-- **Non-vacuity** of `C05_history_with_clear_partial`, the channel NOT drained before the `clear` -/
example :
    Settled (exEnv [1, 0] [10]) 10 (runH 10 exClearHistory ({}, {})).1 (runH 10 exClearHistory ({}, {})).2.graph ∧
    (runH 10 exClearHistory ({}, {})).1.out = [] :=
  have h := C05_history_with_clear_partial (exEnv [1, 0] [10]) (exEnv_steady _ _) 10 exClearHistory exClearHistory_ok
    [(exEnv [1, 0] [10], .api (.load kb)), (exEnv [1, 0] [10], .api .clear), (exEnv [1, 0] [10], .api (.load kb))]
    .hotReload [] rfl rfl
  ⟨h.1, h.2.2.1⟩

/-- what happens in that history: after the `clear` nothing is cached and three messages are in the
channel; before the `hot_reload()` there are five (two stale registrations, `Clear`, two new ones); at
the end `e` and `b` are cached again (new entries) and registered. -/
example :
    (runH 10 (exClearHistory.take 2) ({}, {})).1.map = [] ∧
    (runH 10 (exClearHistory.take 2) ({}, {})).1.out =
      [.addAsset ke [.file "e" "s"], .addAsset kb [.file "b" "s", .asset ke], .clear] ∧
    (runH 10 (exClearHistory.take 3) ({}, {})).1.out.length = 5 ∧
    (runH 10 exClearHistory ({}, {})).1.lookup kb = some ⟨.int 11, true, 0, false, 3⟩ ∧
    settledB (exEnv [1, 0] [10]) 10 (runH 10 exClearHistory ({}, {})).1 (runH 10 exClearHistory ({}, {})).2.graph = true := by
  decide

/-- `load b` (loads `e`), the switch to static mode, `clear`, `load e`, a notification for `e.s`: the pass of
the notification is sorted from a graph that still has the typed node of `b` — an asset that is gone -/
def exClearStaticHistory : List (Env × HOp) :=
  [(exEnv [1, 0] [10], .api (.load kb)), (exEnv [1, 0] [10], .enhance), (exEnv [1, 0] [10], .api .clear),
   (exEnv [1, 0] [10], .api (.load ke)), (exEnv [1, 0] [10], .notify [.file "e" "s"])]

theorem exClearStaticHistory_ok :
    HistP (StepOKC (exEnv [1, 0] [10]) 10) (exEnv [1, 0] [10]) 10 exClearStaticHistory ({}, {}) :=
  .cons _ _ _ (StepOKC.load (loadOKC_of_check (by decide)))
    (.cons _ _ _ (StepOK.of_idle rfl (by decide)).toC
      (.cons _ _ _ StepOKC.clear
        (.cons _ _ _ (StepOKC.load (loadOKC_of_check (by decide)))
          (.cons _ _ _ (StepOK.of_pass rfl
            (PassOK.of_checks exRank2 (by decide) (by decide) (by decide) (by decide) (by decide))).toC (.nil _)))))

/-- **Non-vacuity** with a pass after the `clear` (static mode): the reload list of the notification is `e`, `b`
— `b` is registered but not cached any more, `reload` skips it —, and everything is settled when
`handle_events` returns; the `Clear` and the registration of `e` were taken by that step. -/
example :
    Settled (exEnv [1, 0] [10]) 10 (runH 10 exClearStaticHistory ({}, {})).1 (runH 10 exClearStaticHistory ({}, {})).2.graph ∧
    (runH 10 (exClearStaticHistory.take 4) ({}, {})).1.out = [.clear, .addAsset ke [.file "e" "s"]] ∧
    (updateSteps (exEnv [1, 0] [10]) 10
      (prePass (.notify [.file "e" "s"]) (runH 10 (exClearStaticHistory.take 4) ({}, {}))).1
      (prePass (.notify [.file "e" "s"]) (runH 10 (exClearStaticHistory.take 4) ({}, {}))).2).map (·.key) = [ke, kb] ∧
    (runH 10 exClearStaticHistory ({}, {})).1.lookup kb = none ∧
    ((runH 10 exClearStaticHistory ({}, {})).2.graph.get (.asset kb)).map (·.typed) = some true ∧
    (runH 10 exClearStaticHistory ({}, {})).1.lookup ke = some ⟨.int 10, true, 1, true, 2⟩ :=
  have h := C05_history_with_clear_partial (exEnv [1, 0] [10]) (exEnv_steady _ _) 10 exClearStaticHistory
    exClearStaticHistory_ok
    [(exEnv [1, 0] [10], .api (.load kb)), (exEnv [1, 0] [10], .enhance), (exEnv [1, 0] [10], .api .clear),
     (exEnv [1, 0] [10], .api (.load ke))] (.notify [.file "e" "s"]) [] rfl rfl
  ⟨h.1, by decide, by decide, by decide, by decide, by decide⟩

/-- **The hypothesis of the earlier history theorems is too strong after a `clear`**: in that history the
second `load b` violates `NoPendingKeyFilled` (it fills `e`, which the STALE registration of `b` lists
while `e` is absent), hence `LoadOK`; it satisfies `LoadOKC`. -/
theorem C05_clear_old_hypothesis_too_strong :
    ¬ LoadOK (exEnv [1, 0] [10]) 10 (runH 10 (exClearHistory.take 2) ({}, {})).1
        (runH 10 (exClearHistory.take 2) ({}, {})).2 kb ∧
    LoadOKC (exEnv [1, 0] [10]) 10 (runH 10 (exClearHistory.take 2) ({}, {})).1
        (runH 10 (exClearHistory.take 2) ({}, {})).2 kb :=
  ⟨fun h => absurd (noPendingKeyFilled_check_of h.noFillPending) (by decide), loadOKC_of_check (by decide)⟩

/-- loaders whose dependency set depends on the cache: `x` returns `0`; `r` probes `x` with `get_cached`:
absent → `1`; present → reads `f.s` and returns `2`; `w` loads `x` and returns `3`; `o` calls `load_owned x`
and returns `4` -/
def lwProg (id : String) : Prog :=
  if id = "x" then .ret (.int 0)
  else if id = "r" then .getCached ⟨0, "x"⟩ fun r =>
    match r with
    | none => .ret (.int 1)
    | some _ => .read "f" "s" fun _ => .ret (.int 2)
  else if id = "w" then .load ⟨0, "x"⟩ fun _ => .ret (.int 3)
  else if id = "o" then .loadOwned ⟨0, "x"⟩ fun _ => .ret (.int 4)
  else .panic

def lwEnv : Env :=
  { read := fun _ id _ => .error ⟨true, "NotFound", id⟩
    readDir := fun _ _ => .ok []
    types := fun _ => { hot := true, prog := lwProg }
    hasReloader := true }

theorem lwEnv_steady : lwEnv.Steady := ⟨fun _ _ _ _ => rfl, fun _ _ _ => rfl, fun _ _ => rfl⟩

def kx : Key := ⟨0, "x"⟩
def kr : Key := ⟨0, "r"⟩

/-- `load x`, `load r` (registered with `{x, f.s}`, value `2`), `clear`, `load r` (registered with `{x}`,
value `1`), `hot_reload()`: two DIFFERENT registrations of `r` are in the channel when it is drained -/
def lwHistory : List (Env × HOp) :=
  [(lwEnv, .api (.load kx)), (lwEnv, .api (.load kr)), (lwEnv, .api .clear), (lwEnv, .api (.load kr)),
   (lwEnv, .hotReload)]

theorem lwHistory_ok : HistP (StepOKC lwEnv 10) lwEnv 10 lwHistory ({}, {}) :=
  .cons _ _ _ (StepOKC.load (loadOKC_of_check (by decide)))
    (.cons _ _ _ (StepOKC.load (loadOKC_of_check (by decide)))
      (.cons _ _ _ StepOKC.clear
        (.cons _ _ _ (StepOKC.load (loadOKC_of_check (by decide)))
          (.cons _ _ _ (StepOK.of_idle rfl (by decide)).toC (.nil _)))))

/-- **A stale registration with other dependencies, still in the channel, is harmless**: `load r; clear;
load r` with different dependency sets between the two registrations, both drained by the same
`hot_reload()` — the node of `r` ends with the dependencies of the LAST one, and `r` is settled. -/
example :
    Settled lwEnv 10 (runH 10 lwHistory ({}, {})).1 (runH 10 lwHistory ({}, {})).2.graph ∧
    (runH 10 (lwHistory.take 4) ({}, {})).1.out =
      [.addAsset kx [], .addAsset kr [.asset kx, .file "f" "s"], .clear, .addAsset kr [.asset kx]] ∧
    ((runH 10 lwHistory ({}, {})).2.graph.get (.asset kr)).map (·.deps) = some [.asset kx] ∧
    (runH 10 lwHistory ({}, {})).1.lookup kr = some ⟨.int 1, true, 0, false, 2⟩ :=
  have h := C05_history_with_clear_partial lwEnv lwEnv_steady 10 lwHistory lwHistory_ok
    [(lwEnv, .api (.load kx)), (lwEnv, .api (.load kr)), (lwEnv, .api .clear), (lwEnv, .api (.load kr))]
    .hotReload [] rfl rfl
  ⟨h.1, by decide, by decide, by decide⟩

/-! ### The weakened hypotheses are still necessary -/

/-- **`NoLivePendingKeyFilled` is necessary.** `load q` (it probes `x`, finds nothing, returns `1`); its
registration is still in the channel and `q` is cached. Then `load x`: a clean load, and nothing
registered is concerned (`NoProbedKeyFilled` holds: the graph is empty) — but it fills the key the
pending registration of the cached `q` lists. After `hot_reload()` `q` is registered and holds `1`
although re-evaluating its loader returns `2`. -/
theorem C05_load_pending_false_fill :
    ∃ (env : Env) (fuel : Nat) (x : St × RSt) (key : Key),
      env.Steady ∧ SInvC env fuel x ∧ CleanLoad env fuel x.1 key ∧
      NoProbedKeyFilled x.1 (step env fuel x.1 (.load key)).1 x.2.graph ∧
      ¬ NoLivePendingKeyFilled x.1 (step env fuel x.1 (.load key)).1 ∧
      StaleAt env fuel (runH fuel [(env, .api (.load key)), (env, .hotReload)] x) ⟨0, "q"⟩ ∧
      ¬ Settled env fuel (runH fuel [(env, .api (.load key)), (env, .hotReload)] x).1
          (runH fuel [(env, .api (.load key)), (env, .hotReload)] x).2.graph := by
  have hq : HistP (StepOKC cxEnv 10) cxEnv 10 [(cxEnv, .api (.load ⟨0, "q"⟩))] ({}, {}) :=
    .cons _ _ _ (StepOKC.load (loadOKC_of_check (by decide))) (.nil _)
  have hinv := (histC_settled cxEnv_steady hq (SInvC.init cxEnv 10)).1
  have hst : StaleAt cxEnv 10 (runH 10 [(cxEnv, .api (.load ⟨0, "x"⟩)), (cxEnv, .hotReload)]
      (runH 10 [(cxEnv, .api (.load ⟨0, "q"⟩))] ({}, {}))) ⟨0, "q"⟩ := staleAt_of_check (by decide)
  exact ⟨cxEnv, 10, runH 10 [(cxEnv, .api (.load ⟨0, "q"⟩))] ({}, {}), ⟨0, "x"⟩, cxEnv_steady, hinv, by decide,
    noProbedKeyFilled_of_check (by decide),
    fun h => absurd (noLivePendingKeyFilled_check_of h) (by decide), hst, hst.not_settled⟩

/-- **The part of `NoDependentOnC` on the channel is necessary**: `load b` (which loads `e`), the two
registrations still in the channel, `remove e`: the graph is empty, so nothing REGISTERED depends on `e`
— but the pending registration of the cached `b` lists it. After `hot_reload()` re-evaluating `b` misses
`e`: it is not a tracked hit-only run, `b` is not settled. -/
theorem C05_remove_pending_breaks_settled :
    ∃ (env : Env) (fuel : Nat) (x : St × RSt) (key : Key),
      env.Steady ∧ SInvC env fuel x ∧
      (∀ k node c, x.2.graph.get (.asset k) = some node → node.typed = true → x.1.lookup k = some c → c.dyn = true →
        k ≠ key → Dep.asset key ∉ node.deps) ∧
      ¬ NoDependentOnC x.1 x.2.graph key ∧
      ¬ Settled env fuel (runH fuel [(env, .api (.remove key)), (env, .hotReload)] x).1
          (runH fuel [(env, .api (.remove key)), (env, .hotReload)] x).2.graph := by
  have hb : HistP (StepOKC (exEnv [1, 0] [10]) 10) (exEnv [1, 0] [10]) 10 [(exEnv [1, 0] [10], .api (.load kb))] ({}, {}) :=
    .cons _ _ _ (StepOKC.load (loadOKC_of_check (by decide))) (.nil _)
  have hinv := (histC_settled (exEnv_steady _ _) hb (SInvC.init _ 10)).1
  have hbad : ¬ Settled (exEnv [1, 0] [10]) 10
      (runH 10 [(exEnv [1, 0] [10], .api (.remove ke)), (exEnv [1, 0] [10], .hotReload)]
        (runH 10 [(exEnv [1, 0] [10], .api (.load kb))] ({}, {}))).1
      (runH 10 [(exEnv [1, 0] [10], .api (.remove ke)), (exEnv [1, 0] [10], .hotReload)]
        (runH 10 [(exEnv [1, 0] [10], .api (.load kb))] ({}, {}))).2.graph :=
    not_settled_of_miss (k := kb) (by decide)
  refine ⟨exEnv [1, 0] [10], 10, runH 10 [(exEnv [1, 0] [10], .api (.load kb))] ({}, {}), ke, exEnv_steady _ _, hinv,
    fun k node c hg => (by cases hg), ?_, hbad⟩
  intro hdep
  have hh : HistP (StepOKC (exEnv [1, 0] [10]) 10) (exEnv [1, 0] [10]) 10
      [(exEnv [1, 0] [10], .api (.remove ke)), (exEnv [1, 0] [10], .hotReload)]
      (runH 10 [(exEnv [1, 0] [10], .api (.load kb))] ({}, {})) :=
    .cons _ _ _ (Or.inr hdep) (.cons _ _ _ (StepOK.of_idle rfl (by decide)).toC (.nil _))
  exact hbad ((histC_settled (exEnv_steady _ _) hh hinv).2 [(exEnv [1, 0] [10], .api (.remove ke))] .hotReload [] rfl rfl).1

/-! ## Histories with `load_owned` (`Lemmas/HistMore.lean`)

`load_owned(key)` from the API runs the loader of `key` under its own frame and registers `key` with what
the frame recorded, but caches nothing for `key` (`step_loadOwned_facts`): the graph gets a typed node for
a key that is not cached — skipped by `reload`, and `Settled` does not speak of it (`MsgGoodIf` holds
vacuously). The assets the owned load cached ON THE WAY are registered by good messages as for a load
(`clean_out` on the body). -/

/-- **Histories with `clear` and `load_owned`** (partial): `C05_history_with_clear_partial` extended with
`.api (.loadOwned key)` steps. Every step satisfies `StepOKO` in the state it starts from: `StepOKC`
(see `C05_history_with_clear_partial`), and a `load_owned` from the API satisfies `LoadOwnedOK`:
* `clean` — `CleanLoadOwned`: the type of `key` is hot-reloaded (and the cache has a reloader), and the
  body of the loader runs clean (`cleanRun` relative to the cache the call ends in: nested `load`s, misses
  included, recursively; no absorbed failure; no `get_cached` probe of a key that is cached before the call
  returns) — the hypothesis `CleanLoad` of a load, on the body;
* `noFill`, `noFillLive` — `NoProbedKeyFilled`, `NoLivePendingKeyFilled` for the keys the owned load caches
  on the way; necessary (`C05_load_owned_false_fill`).
No hypothesis on the result (value, error, panic, exhausted fuel), none on whether `key` is cached: when it
is (`load a; load_owned a`), the owned load returns the cached value and registers `a` with the same
dependencies (`C05_load_owned_cached_agrees`) — that needs the invariant to know every cached dynamic entry
(`Reg`, carried by `SInvC`; `Settled` alone is not inductive here: `C05_load_owned_needs_registered`).
NOT covered: `load_owned` NESTED in a loader. That is not a gap of the proof: `hitRun` rejects `.loadOwned`,
so an asset whose loader takes that path is never `Settled`, whatever the history
(`C05_nested_load_owned_never_settled`, `C05_nested_load_owned_example`); `cleanRun` rejects it accordingly.

Conclusion: the one of `C05_static_history_partial`, after EVERY reloader step. -/
theorem C05_history_with_load_owned_partial (env : Env) (hS : env.Steady) (fuel : Nat) (h : List (Env × HOp))
    (hh : HistP (StepOKO env fuel) env fuel h ({}, {})) :
    ∀ h1 op h2, h = h1 ++ (env, op) :: h2 → op.isReloader = true →
      Settled env fuel (runH fuel (h1 ++ [(env, op)]) ({}, {})).1 (runH fuel (h1 ++ [(env, op)]) ({}, {})).2.graph ∧
      GraphOK (runH fuel (h1 ++ [(env, op)]) ({}, {})).2.graph ∧
      (runH fuel (h1 ++ [(env, op)]) ({}, {})).1.out = [] ∧
      (runH fuel (h1 ++ [(env, op)]) ({}, {})).2.dead = false ∧
      ((runH fuel (h1 ++ [(env, op)]) ({}, {})).2.static_ = true →
        (runH fuel (h1 ++ [(env, op)]) ({}, {})).2.toReload = []) ∧
      (op = .enhance → (runH fuel (h1 ++ [(env, op)]) ({}, {})).2.static_ = true) :=
  C05_history_conclusion env hS fuel (fun _ op hx hok => hx.stepO hS op hok) (fun _ _ hop hok => hok.pass hop) h hh

/-- `C05_history_with_load_owned_partial` contains `C05_history_with_clear_partial` -/
theorem C05_history_with_load_owned_extends (env : Env) (fuel : Nat) (h : List (Env × HOp)) (x : St × RSt)
    (hh : HistP (StepOKC env fuel) env fuel h x) : HistP (StepOKO env fuel) env fuel h x :=
  hh.mono (fun _ _ => StepOKC.toO)

/-- **What `load_owned` from the API does to the cache and the channel** (hot type, reloader): nothing is
cached for `key` by the call itself — the cache is the one the loader body ended in —, and `key` is
registered with what the body recorded when the body returned a value. -/
theorem C05_load_owned_registers_uncached (env : Env) (f : Nat) (s : St) (key : Key)
    (hb : recordsAsset (env.types key.ty).hot env.hasReloader = true) :
    (∀ k, (step env (f + 1) s (.loadOwned key)).1.lookup k = (ownedBody env (f + 1) s key).1.lookup k) ∧
    (step env (f + 1) s (.loadOwned key)).1.out = (ownedBody env (f + 1) s key).1.out ++
      (match (ownedBody env (f + 1) s key).2 with
       | .ok _ => [.addAsset key (ownedBody env (f + 1) s key).1.top]
       | _ => []) :=
  step_loadOwned_facts env f s key hb

/-! ### Non-vacuity -/

/-- `load_owned b` (loads and caches `e` on the way; registers `b`, which is NOT cached), `hot_reload()`,
`load b`, `load_owned b` (now `b` is cached: the owned load returns the cached value), `clear`,
`load_owned b` again, `hot_reload()` -/
def exOwnedHistory : List (Env × HOp) :=
  [(exEnv [1, 0] [10], .api (.loadOwned kb)), (exEnv [1, 0] [10], .hotReload),
   (exEnv [1, 0] [10], .api (.load kb)), (exEnv [1, 0] [10], .api (.loadOwned kb)),
   (exEnv [1, 0] [10], .api .clear), (exEnv [1, 0] [10], .api (.loadOwned kb)), (exEnv [1, 0] [10], .hotReload)]

theorem exOwnedHistory_ok : HistP (StepOKO (exEnv [1, 0] [10]) 10) (exEnv [1, 0] [10]) 10 exOwnedHistory ({}, {}) :=
  .cons _ _ _ (StepOKO.loadOwned (loadOwnedOK_of_check (by decide)))
    (.cons _ _ _ (StepOK.of_idle rfl (by decide)).toC.toO
      (.cons _ _ _ (StepOKC.load (loadOKC_of_check (by decide))).toO
        (.cons _ _ _ (StepOKO.loadOwned (loadOwnedOK_of_check (by decide)))
          (.cons _ _ _ StepOKC.clear.toO
            (.cons _ _ _ (StepOKO.loadOwned (loadOwnedOK_of_check (by decide)))
              (.cons _ _ _ (StepOK.of_idle rfl (by decide)).toC.toO (.nil _)))))))

/-- **Non-vacuity** of `C05_history_with_load_owned_partial`: settled after both `hot_reload()`s -/
example :
    Settled (exEnv [1, 0] [10]) 10 (runH 10 (exOwnedHistory.take 2) ({}, {})).1 (runH 10 (exOwnedHistory.take 2) ({}, {})).2.graph ∧
    Settled (exEnv [1, 0] [10]) 10 (runH 10 exOwnedHistory ({}, {})).1 (runH 10 exOwnedHistory ({}, {})).2.graph :=
  ⟨(C05_history_with_load_owned_partial (exEnv [1, 0] [10]) (exEnv_steady _ _) 10 exOwnedHistory exOwnedHistory_ok
      [(exEnv [1, 0] [10], .api (.loadOwned kb))] .hotReload _ rfl rfl).1,
   (C05_history_with_load_owned_partial (exEnv [1, 0] [10]) (exEnv_steady _ _) 10 exOwnedHistory exOwnedHistory_ok
      [(exEnv [1, 0] [10], .api (.loadOwned kb)), (exEnv [1, 0] [10], .hotReload),
       (exEnv [1, 0] [10], .api (.load kb)), (exEnv [1, 0] [10], .api (.loadOwned kb)),
       (exEnv [1, 0] [10], .api .clear), (exEnv [1, 0] [10], .api (.loadOwned kb))] .hotReload [] rfl rfl).1⟩

/-- what happens in that history: the first `load_owned b` returns `11`, caches `e` but not `b`, and sends
the registrations of `e` and of `b`; after the `hot_reload()` the graph has a typed node for the uncached `b`;
the second `load_owned b` (with `b` cached) returns the cached `11` and registers `b` again -/
example :
    (step (exEnv [1, 0] [10]) 10 {} (.loadOwned kb)).2 = .value (.int 11) ∧
    (runH 10 (exOwnedHistory.take 1) ({}, {})).1.lookup kb = none ∧
    (runH 10 (exOwnedHistory.take 1) ({}, {})).1.lookup ke = some ⟨.int 10, true, 0, false, 0⟩ ∧
    (runH 10 (exOwnedHistory.take 1) ({}, {})).1.out =
      [.addAsset ke [.file "e" "s"], .addAsset kb [.file "b" "s", .asset ke]] ∧
    ((runH 10 (exOwnedHistory.take 2) ({}, {})).2.graph.get (.asset kb)).map (·.typed) = some true ∧
    (runH 10 (exOwnedHistory.take 2) ({}, {})).1.lookup kb = none ∧
    (step (exEnv [1, 0] [10]) 10 (runH 10 (exOwnedHistory.take 3) ({}, {})).1 (.loadOwned kb)).2 = .value (.int 11) ∧
    (runH 10 (exOwnedHistory.take 4) ({}, {})).1.out.length = 2 := by decide

/-! ### The hypotheses on a `load_owned` are necessary; nested `load_owned` -/

/-- **A `load_owned` of a cached key returns the cached value** in every state of the invariant: the key
is registered or has a registration in the channel (`Reg`), so re-evaluating its loader is a tracked
hit-only run that returns what the entry holds (`Settled` / `LastGood`), and the owned load is that run. -/
theorem C05_load_owned_cached_agrees (env : Env) (fuel : Nat) (x : St × RSt) (key : Key) (hx : SInvC env fuel x) :
    OwnedAgrees env fuel x.1 key :=
  OwnedAgrees.of_known hx.pending (fun c hc hd => hx.pending.reg key c hc hd)

/-- **Why the invariant carries `Reg`** (every cached dynamic entry is registered or has a registration in
the channel): `Settled`, a drained channel, an exact index, a live reloader are NOT enough for `load_owned`.
A state with nothing registered (`Settled` holds vacuously) in which `x` is cached with `99` although its
loader returns `0`: `load_owned x` is a clean owned load that fills nothing — it returns `0` and REGISTERS
`x`. After `hot_reload()` `x` is registered, cached, and holds `99`. (Such a state is not reachable: a dynamic
entry is created by a load that misses, which registers it.) -/
theorem C05_load_owned_needs_registered :
    ∃ (env : Env) (fuel : Nat) (x : St × RSt) (key : Key),
      env.Steady ∧ x.1.out = [] ∧ Settled env fuel x.1 x.2.graph ∧ GraphOK x.2.graph ∧ x.2.dead = false ∧
      LoadOwnedOK env fuel x.1 x.2 key ∧
      ¬ Reg x.1 x.2.graph ∧ ¬ OwnedAgrees env fuel x.1 key ∧
      StaleAt env fuel (runH fuel [(env, .api (.loadOwned key)), (env, .hotReload)] x) key ∧
      ¬ Settled env fuel (runH fuel [(env, .api (.loadOwned key)), (env, .hotReload)] x).1
          (runH fuel [(env, .api (.loadOwned key)), (env, .hotReload)] x).2.graph := by
  have hst : StaleAt cxEnv 10 (runH 10 [(cxEnv, .api (.loadOwned ⟨0, "x"⟩)), (cxEnv, .hotReload)]
      ({ map := [(⟨0, "x"⟩, ⟨.int 99, true, 0, false, 0⟩)], next := 1 }, {})) ⟨0, "x"⟩ := staleAt_of_check (by decide)
  refine ⟨cxEnv, 10, ({ map := [(⟨0, "x"⟩, ⟨.int 99, true, 0, false, 0⟩)], next := 1 }, {}), ⟨0, "x"⟩, cxEnv_steady, rfl,
    settled_nil _ _ _, graphOK_nil, rfl, loadOwnedOK_of_check (by decide), ?_,
    fun h => absurd (ownedAgrees_check_of h) (by decide), hst, hst.not_settled⟩
  intro hreg
  rcases hreg ⟨0, "x"⟩ ⟨.int 99, true, 0, false, 0⟩ (by decide) rfl with ⟨node, hg, _⟩ | ⟨D, hm⟩
  · cases hg
  · cases hm

/-- **`NoProbedKeyFilled` is necessary for `load_owned` too** (for the keys it caches on the way): `load r`
(it probes `x`, finds nothing, returns `1`), `hot_reload()`: everything is settled. `load_owned w`: a clean
owned load of a key that is not cached — whose loader loads `x`: it fills the key `r` probed. Re-evaluating
`r` returns `2` now; `r` holds `1`. -/
theorem C05_load_owned_false_fill :
    ∃ (env : Env) (fuel : Nat) (x : St × RSt) (key : Key),
      env.Steady ∧ SInvC env fuel x ∧ CleanLoadOwned env fuel x.1 key ∧
      NoLivePendingKeyFilled x.1 (step env fuel x.1 (.loadOwned key)).1 ∧
      ¬ NoProbedKeyFilled x.1 (step env fuel x.1 (.loadOwned key)).1 x.2.graph ∧
      StaleAt env fuel (runH fuel [(env, .api (.loadOwned key)), (env, .hotReload)] x) kr ∧
      ¬ Settled env fuel (runH fuel [(env, .api (.loadOwned key)), (env, .hotReload)] x).1
          (runH fuel [(env, .api (.loadOwned key)), (env, .hotReload)] x).2.graph := by
  have hr : HistP (StepOKO lwEnv 10) lwEnv 10 [(lwEnv, .api (.load kr)), (lwEnv, .hotReload)] ({}, {}) :=
    .cons _ _ _ (StepOKC.load (loadOKC_of_check (by decide))).toO
      (.cons _ _ _ (StepOK.of_idle rfl (by decide)).toC.toO (.nil _))
  have hinv := (histO_settled lwEnv_steady hr (SInvC.init lwEnv 10)).1
  have hst : StaleAt lwEnv 10 (runH 10 [(lwEnv, .api (.loadOwned ⟨0, "w"⟩)), (lwEnv, .hotReload)]
      (runH 10 [(lwEnv, .api (.load kr)), (lwEnv, .hotReload)] ({}, {}))) kr := staleAt_of_check (by decide)
  refine ⟨lwEnv, 10, runH 10 [(lwEnv, .api (.load kr)), (lwEnv, .hotReload)] ({}, {}), ⟨0, "w"⟩, lwEnv_steady, hinv,
    ⟨by decide, by decide⟩, noLivePendingKeyFilled_of_check (by decide), ?_, hst, hst.not_settled⟩
  intro hfill
  have hh : HistP (StepOKO lwEnv 10) lwEnv 10 [(lwEnv, .api (.loadOwned ⟨0, "w"⟩)), (lwEnv, .hotReload)]
      (runH 10 [(lwEnv, .api (.load kr)), (lwEnv, .hotReload)] ({}, {})) :=
    .cons _ _ _ (StepOKO.loadOwned ⟨⟨by decide, by decide⟩, hfill, noLivePendingKeyFilled_of_check (by decide)⟩)
      (.cons _ _ _ (StepOK.of_idle rfl (by decide)).toC.toO (.nil _))
  exact hst.not_settled
    ((histO_settled lwEnv_steady hh hinv).2 [(lwEnv, .api (.loadOwned ⟨0, "w"⟩))] .hotReload [] rfl rfl).1

/-- **A `load_owned` nested in a loader is outside `Settled` by definition**: re-evaluating a loader that
starts with `load_owned` is never a tracked hit-only run (`hitRun` rejects `.loadOwned`: the parent records
`asset key`, but the value comes from re-running the child's loader, not from the cache) — so such an asset,
once registered and cached with a dynamic cell, is not settled, whatever the history. -/
theorem C05_nested_load_owned_never_settled (env : Env) (fuel : Nat) (s : St) (g : Graph) (key k0 : Key)
    (k : Except LErr Val → Prog) (node : GNode) (c : Cell)
    (hprog : (env.types key.ty).prog key.id = .loadOwned k0 k)
    (hg : g.get (.asset key) = some node) (ht : node.typed = true) (hc : s.lookup key = some c) (hd : c.dyn = true) :
    reloadHit env (fuel + 1) s key = false ∧ ¬ Settled env (fuel + 1) s g := by
  have h : reloadHit env (fuel + 1) s key = false := by
    unfold reloadHit
    rw [hprog]
    rfl
  refine ⟨h, fun hs => ?_⟩
  have := (hs key node c hg ht hc hd).hit
  rw [h] at this
  cases this

/-- … concretely: `load o` (the loader of `o` calls `load_owned x`) returns a handle, `o` is cached and
registered with the dependency `x`; it is not a clean load, and after `hot_reload()` `o` is not settled. -/
theorem C05_nested_load_owned_example :
    (step lwEnv 10 {} (.load ⟨0, "o"⟩)).2 = .handle 0 (.int 4) ∧
    ¬ CleanLoad lwEnv 10 {} ⟨0, "o"⟩ ∧
    (runH 10 [(lwEnv, .api (.load ⟨0, "o"⟩)), (lwEnv, .hotReload)] ({}, {})).1.lookup kx = none ∧
    ((runH 10 [(lwEnv, .api (.load ⟨0, "o"⟩)), (lwEnv, .hotReload)] ({}, {})).2.graph.get (.asset ⟨0, "o"⟩)).map (·.deps) =
      some [.asset kx] ∧
    ¬ Settled lwEnv 10 (runH 10 [(lwEnv, .api (.load ⟨0, "o"⟩)), (lwEnv, .hotReload)] ({}, {})).1
        (runH 10 [(lwEnv, .api (.load ⟨0, "o"⟩)), (lwEnv, .hotReload)] ({}, {})).2.graph :=
  ⟨by decide, by decide, by decide, by decide,
   not_settled_of_miss (x := runH 10 [(lwEnv, .api (.load ⟨0, "o"⟩)), (lwEnv, .hotReload)] ({}, {})) (k := ⟨0, "o"⟩)
     (by decide)⟩

/-- Value-level facts of the `hot_reload` handshake that no effect skeleton shows: a caller waits for exactly its own token, the
reloader publishes only into an empty slot, tokens are distinct, `notify_all` wakes every sleeper; and a request takes in the events
that were sent before it (the loop is bounded by the length of the EVENT channel). -/
theorem C05_handshake_values : AmVerif.Gen.answersHandshakeExact = true ∧ AmVerif.Gen.requestTakesPendingEvents = true := by decide

end AmVerif.Props.C05
