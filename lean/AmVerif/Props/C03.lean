import AmVerif.Lemmas.World
/-!
# C03 — a load returns what the source holds: extension order, defaults, errors

Statements are about the definitions regenerated from the source: `Gen.errorOr` (`ErrorKind::or`),
`Gen.loadWithExtK` / `Gen.loadFoldK` / `Gen.loadFromSourceK` (`asset::load_from_source`), and about
`eval` (the transcription of `load_entry` / `add_asset` / `load_and_record`).
-/
namespace AmVerif.Props.C03
open AmVerif.Gen AmVerif.Model

/-! ## The error table -/

/-- Precedence class of an error: conversion > other I/O > not found > "no default value". -/
def rank : EK → Nat
  | .noDefault => 0
  | .io e => if e.notFound then 1 else 2
  | .conv _ => 3

/-- `ErrorKind::or`, arm by arm, as a closed table. -/
theorem C03_or_table (a b : EK) :
    errorOr a b = match a, b with
      | .noDefault, b => b
      | .io _, .conv c => .conv c
      | .io e, .io e' => if e.notFound then .io e' else .io e
      | a, _ => a := by
  cases a <;> cases b <;> simp [errorOr, errorOr_arm0, errorOr_arm1, errorOr_arm2, errorOr_arm3]
  all_goals (split <;> simp_all)

/-- A decoding error is preferred over an I/O error over a not-found error over `NoDefaultValue`:
`or` returns an error of the higher class of its two arguments. -/
theorem C03_or_rank (a b : EK) : rank (errorOr a b) = max (rank a) (rank b) := by
  rw [C03_or_table]
  cases a with
  | noDefault => simp [rank]
  | conv c => cases b <;> simp [rank] <;> split <;> omega
  | io e =>
    obtain ⟨nf, kind, tag⟩ := e
    cases b with
    | noDefault => simp [rank]
    | conv c => cases nf <;> simp [rank]
    | io e' =>
      obtain ⟨nf', kind', tag'⟩ := e'
      cases nf <;> cases nf' <;> simp [rank]

/-- `or` never invents an error: the result is one of its arguments. -/
theorem C03_or_mem (a b : EK) : errorOr a b = a ∨ errorOr a b = b := by
  rw [C03_or_table]
  cases a with
  | noDefault => simp
  | conv c => simp
  | io e =>
    cases b with
    | noDefault => simp
    | conv c => simp
    | io e' => cases h : e.notFound <;> simp [h]

/-! ## The extension loop, in direct style -/

/-- The pure instance of the regenerated loop: `read` is a function of the extension. -/
def loadPure {α : Type} (read : String → Except IoErr (List UInt8))
    (decode : List UInt8 → String → Except String α) (exts : List String)
    (dflt : EK → Except EK α) : Except EK α :=
  loadFromSourceK (ρ := Except EK α) (fun ext k => k (read ext)) decode exts dflt id

/-- What one extension yields. -/
def tryExt {α : Type} (read : String → Except IoErr (List UInt8))
    (decode : List UInt8 → String → Except String α) (ext : String) : Except EK α :=
  loadWithExtK (ρ := Except EK α) (fun ext k => k (read ext)) decode ext id

theorem tryExt_eq {α : Type} (read) (decode : List UInt8 → String → Except String α) (ext : String) :
    tryExt read decode ext = match read ext with
      | .error e => .error (.io e)
      | .ok content => match decode content ext with
        | .error t => .error (.conv t)
        | .ok a => .ok a := by
  unfold tryExt loadWithExtK
  simp only []
  generalize read ext = r
  cases r with
  | error e => rfl
  | ok c => simp only [id]; generalize decode c ext = d; cases d <;> rfl

/-- The fold of the errors of a list of failing extensions, exactly as the loop computes it. -/
def foldErrs (acc : EK) : List EK → EK
  | [] => acc
  | e :: es => foldErrs (errorOr e acc) es

theorem loadWithExtK_id {α : Type} (read) (decode : List UInt8 → String → Except String α) (ext : String)
    (k : Except EK α → Except EK α) :
    loadWithExtK (ρ := Except EK α) (fun ext k => k (read ext)) decode ext k = k (tryExt read decode ext) := by
  unfold tryExt loadWithExtK
  simp only []
  generalize read ext = r
  cases r with
  | error e => rfl
  | ok c => simp only [id]; generalize decode c ext = d; cases d <;> rfl

/-- Characterisation of the loop: it scans the extensions in order; the first one that can be read
and decoded wins (nothing after it is looked at); if none does, the folded error comes out. -/
theorem loadFoldK_scan {α : Type} (read) (decode : List UInt8 → String → Except String α)
    (acc : EK) (exts : List String) (k : Except EK α → Except EK α) :
    loadFoldK (loadWithExtK (ρ := Except EK α) (fun ext k => k (read ext)) decode) acc exts k =
      match exts with
      | [] => k (.error acc)
      | ext :: rest =>
        match tryExt read decode ext with
        | .ok a => k (.ok a)
        | .error e => loadFoldK (loadWithExtK (ρ := Except EK α) (fun ext k => k (read ext)) decode) (errorOr e acc) rest k := by
  cases exts with
  | nil => rfl
  | cons ext rest =>
    simp only [loadFoldK]
    rw [loadWithExtK_id]
    cases tryExt read decode ext <;> rfl

/-- **First readable and decodable extension wins**: if every extension before `x` fails and `x`
yields `v`, the load returns `v` — the loader's result on exactly the bytes stored for `x`. -/
theorem C03_first_readable_decodable {α : Type} (read) (decode : List UInt8 → String → Except String α)
    (dflt : EK → Except EK α) (pre post : List String) (x : String) (v : α)
    (hpre : ∀ e ∈ pre, ∃ err, tryExt read decode e = .error err)
    (hx : tryExt read decode x = .ok v) :
    loadPure read decode (pre ++ x :: post) dflt = .ok v := by
  unfold loadPure loadFromSourceK
  generalize loadInitError = acc
  induction pre generalizing acc with
  | nil => rw [List.nil_append, loadFoldK_scan]; simp [hx]
  | cons p ps ih =>
    obtain ⟨err, he⟩ := hpre p List.mem_cons_self
    rw [List.cons_append, loadFoldK_scan]
    simp only [he]
    exact ih (fun e h => hpre e (List.mem_cons_of_mem _ h)) _

/-- and the value is the decoder applied to the stored bytes under that very extension -/
theorem C03_value_is_decode_of_stored {α : Type} (read) (decode : List UInt8 → String → Except String α)
    (x : String) (v : α) (hx : tryExt read decode x = .ok v) :
    ∃ bytes, read x = .ok bytes ∧ decode bytes x = .ok v := by
  rw [tryExt_eq] at hx
  cases hr : read x with
  | error e => simp [hr] at hx
  | ok c =>
    simp only [hr] at hx
    cases hd : decode c x with
    | error t => simp [hd] at hx
    | ok a => simp [hd] at hx; exact ⟨c, rfl, by rw [hd, hx]⟩

/-- **If none can, `default_value` decides**, and it is handed the fold of all the errors. -/
theorem C03_default_decides {α : Type} (read) (decode : List UInt8 → String → Except String α)
    (dflt : EK → Except EK α) (exts : List String) (errs : List EK)
    (hall : exts.map (tryExt read decode) = errs.map .error) :
    loadPure read decode exts dflt = dflt (foldErrs loadInitError errs) := by
  unfold loadPure loadFromSourceK
  generalize loadInitError = acc
  induction exts generalizing acc errs with
  | nil =>
    cases errs with
    | nil => rfl
    | cons e es => simp at hall
  | cons x xs ih =>
    cases errs with
    | nil => simp at hall
    | cons e es =>
      simp only [List.map_cons, List.cons.injEq] at hall
      rw [loadFoldK_scan]; simp only [hall.1]
      exact ih (errs := es) (acc := _) hall.2

/-- The class of the reported error is the highest class among the individual failures
(`NoDefaultValue` for an empty extension list). -/
theorem C03_error_class (acc : EK) (errs : List EK) :
    rank (foldErrs acc errs) = errs.foldl (fun m e => max m (rank e)) (rank acc) := by
  induction errs generalizing acc with
  | nil => rfl
  | cons e es ih => simp only [foldErrs, List.foldl]; rw [ih, C03_or_rank, Nat.max_comm]

/-- The reported error is one of the errors that actually happened (or the initial one). -/
theorem C03_error_is_one_of (acc : EK) (errs : List EK) :
    foldErrs acc errs = acc ∨ foldErrs acc errs ∈ errs := by
  induction errs generalizing acc with
  | nil => left; rfl
  | cons e es ih =>
    simp only [foldErrs]
    rcases ih (errorOr e acc) with h | h
    · rcases C03_or_mem e acc with h' | h'
      · right; rw [h, h']; exact List.mem_cons_self
      · left; rw [h, h']
    · right; exact List.mem_cons_of_mem _ h

/-- With no extension at all the type's `default_value` is consulted with `NoDefaultValue`. -/
theorem C03_empty_extension_list {α : Type} (read) (decode : List UInt8 → String → Except String α)
    (dflt : EK → Except EK α) : loadPure read decode [] dflt = dflt .noDefault := rfl

/-! ## At the level of the cache: the error names the requested id, a failure caches nothing -/

/-- A failing `Compound::load` is reported as `Error{own id, the error it returned}`. -/
theorem C03_error_names_id (env : Env) (body : St → St × Outcome) (key : Key) (s : St) (e : LErr) :
    (loadAndRecord env body key s).2 = .err e →
      ∃ inner, e = .wrapped key.id inner := by
  unfold loadAndRecord
  generalize withFrame _ (some []) body s = r
  obtain ⟨s1, o, d⟩ := r
  cases o with
  | ok v => simp
  | err e' => simp; intro h; exact ⟨e', h.symm⟩
  | panicked => simp
  | diverged => simp

/-- A loader without nested loads. -/
inductive NoLoads : Prog → Prop
  | ret (v) : NoLoads (.ret v)
  | fail (e) : NoLoads (.fail e)
  | panic : NoLoads .panic
  | read (id ext k) : (∀ r, NoLoads (k r)) → NoLoads (.read id ext k)
  | readDir (id k) : (∀ r, NoLoads (k r)) → NoLoads (.readDir id k)
  | tick (k) : (∀ r, NoLoads (k r)) → NoLoads (.tick k)

/-- Such a loader never touches the map. -/
theorem eval_noLoads_map (env : Env) (f : Nat) (s : St) (p : Prog) (h : NoLoads p) :
    (eval env f s p).1.map = s.map := by
  induction f generalizing s p with
  | zero => simp [eval]
  | succ f ih =>
    cases h with
    | ret v => simp [eval]
    | fail e => simp [eval]
    | panic => simp [eval]
    | read id ext k hk => simp only [eval]; rw [ih _ _ (hk _)]; simp
    | readDir id k hk => simp only [eval]; rw [ih _ _ (hk _)]; simp
    | tick k hk => simp only [eval]; rw [ih _ _ (hk _)]

theorem loadFoldK_noLoads (id : String) (decode) (kfin : Except EK Val → Prog) (hk : ∀ r, NoLoads (kfin r))
    (acc : EK) (exts : List String) :
    NoLoads (loadFoldK (loadWithExtK (ρ := Prog) (fun ext k => .read id ext k) decode) acc exts kfin) := by
  induction exts generalizing acc with
  | nil => exact hk _
  | cons x xs ih =>
    simp only [loadFoldK, loadWithExtK]
    refine NoLoads.read _ _ _ (fun r => ?_)
    cases r with
    | error e => exact ih _
    | ok c =>
      simp only []
      cases decode c x with
      | error t => exact ih _
      | ok a => exact hk _

/-- Every plain asset's loader (`load_from_source` over `Prog.read`) has no nested loads. -/
theorem assetProg_noLoads (exts : List String) (d : Bool) (id : String) : NoLoads (assetProg exts d id) := by
  unfold assetProg loadFromSourceK
  apply loadFoldK_noLoads
  intro r
  cases r with
  | ok v => exact NoLoads.ret _
  | error e =>
    simp only []
    cases mDefault d e with
    | ok v => exact NoLoads.ret _
    | error e' => exact NoLoads.fail _

theorem withFrame_map (push frame) (body : St → St × Outcome) (s : St)
    (hb : ∀ s : St, (body s).1.map = s.map) : (withFrame push frame body s).1.map = s.map := by
  unfold withFrame; split
  · simp [hb]
  · exact hb s

/-- **A failure caches nothing**: when the loader of `key` (a loader without nested loads, e.g.
any plain asset) fails, the cache is exactly what it was; so the same call succeeds as soon as
the source is fixed (the next attempt evaluates against the repaired source, with the same map). -/
theorem C03_failure_caches_nothing (env : Env) (f : Nat) (s : St) (key : Key)
    (hp : NoLoads ((env.types key.ty).prog key.id)) (habs : s.lookup key = none)
    (e : LErr) (hfail : (eval env (f+1) s (.load key Prog.ret')).2 = .err e) :
    (eval env (f+1) s (.load key Prog.ret')).1.map = s.map := by
  simp only [eval] at hfail ⊢
  rw [St.record_lookup, habs] at hfail ⊢
  simp only [] at hfail ⊢
  have hm : (loadAndRecord env (fun s => eval env f s ((env.types key.ty).prog key.id)) key
      (s.record (recordsAsset (env.types key.ty).hot env.hasReloader) (.asset key))).1.map = s.map := by
    unfold loadAndRecord
    have := withFrame_map (recordsAsset (env.types key.ty).hot env.hasReloader) (some [])
      (fun s => eval env f s ((env.types key.ty).prog key.id))
      (s.record (recordsAsset (env.types key.ty).hot env.hasReloader) (.asset key))
      (fun s => eval_noLoads_map env f s _ hp)
    generalize withFrame _ (some []) _ _ = r at this ⊢
    obtain ⟨s1, o, d⟩ := r
    cases o with
    | ok v => simp only []; split <;> simpa using this
    | err e => simpa using this
    | panicked => simpa using this
    | diverged => simpa using this
  generalize loadAndRecord env _ key _ = r at hm hfail ⊢
  obtain ⟨s1, o⟩ := r
  cases o with
  | ok v =>
    exfalso
    simp only [] at hfail
    cases f with
    | zero => simp [eval] at hfail
    | succ f => simp [eval, Prog.ret'] at hfail
  | err e' =>
    simp only [cont] at hfail ⊢
    cases f with
    | zero => simpa [eval] using hm
    | succ f => simpa [eval, Prog.ret'] using hm
  | panicked => simp [cont] at hfail
  | diverged => simp [cont] at hfail

/-! Non-vacuity: a concrete asset over a concrete source. -/
def exRead : String → Except IoErr (List UInt8)
  | "b" => .ok "ok:5".toUTF8.toList
  | "a" => .error { notFound := false, kind := "PermissionDenied", tag := "x.a" }
  | e => .error { notFound := true, kind := "NotFound", tag := "x." ++ e }

example : errorOr (.io ⟨true, "NotFound", "t"⟩) (.conv "c") = .conv "c" := by decide
example : rank (foldErrs .noDefault [.io ⟨true, "NotFound", "1"⟩, .io ⟨false, "Other", "2"⟩, .io ⟨true, "NotFound", "3"⟩]) = 2 := by decide
example : NoLoads (assetProg ["a", "b"] false "x") := assetProg_noLoads _ _ _

end AmVerif.Props.C03
