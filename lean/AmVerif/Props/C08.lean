import AmVerif.Gen.TabLock
import AmVerif.Model.ReloaderFacts
import AmVerif.Lemmas.Mailbox
import AmVerif.Lemmas.MailboxRank
import AmVerif.Lemmas.Visit
/-!
# C08 — `hot_reload` always returns: no deadlock, no crash, any number of callers

**Model** (`Model/Reloader.lean`). `n` concurrent `hot_reload` calls (call `i` owns token `i`:
`fetch_add`), the `cache_msg` channel, the single-slot `Answers` mailbox and the reloader thread, as
shared state + per-thread programs of atomic steps; a schedule is an arbitrary `List Tid` (spurious
condvar wake-ups are schedule entries of their own; a disabled choice is a stutter). The update pass
the thread runs between receiving and answering a request is an *arbitrary* function
`Env.upd : token → ok | panics | overflow` — every dependency graph and every loader — and
`updatePass` computes it from the model of `DepsGraph::visit`.

**Parametric in the source facts.** The protocol depends on two facts (`waitNotifies`,
`catchesPanic`), the visit on one (`marksFirst`). `genCfg` computes them from the effect skeletons
regenerated from the source on every run. The theorems below are proved for *every* environment with
the repaired facts (any number of callers, any schedule, any graph); for the defective facts there
are kernel-checked refutation witnesses; `C08_cfg_*` demand that today's source has the repaired
facts, and the `_today` corollaries instantiate the full-strength theorems at `genCfg`.
-/
namespace AmVerif.Props.C08
open AmVerif.Gen AmVerif.Model AmVerif.Model.Reloader AmVerif.Lemmas.Mailbox AmVerif.Lemmas.MailboxRank AmVerif.Lemmas.Visit

/-! ## The effect skeletons the model transcribes (regenerated from the source) -/

/-- `Answers::notify`: under the mutex, wait until the slot is empty, publish the token, wake all. -/
theorem skel_notify : skel_hot_reloading_mod_Answers_notify =
    [.acq .s_lock 0, .call .s_wait_while, .call .s_assign_deref, .call .s_notify_all, .rel 0] := rfl
/-- `Answers::wait_for_answer` begins: under the mutex, wait for the own token, empty the slot. -/
theorem skel_wait_prefix : skel_hot_reloading_mod_Answers_wait_for_answer.take 3 =
    [.acq .s_lock 0, .call .s_wait_while, .call .s_assign_deref] := rfl
/-- ... and nothing but an optional `notify_all` follows before the mutex is released. -/
theorem skel_wait_suffix :
    skel_hot_reloading_mod_Answers_wait_for_answer.drop 3 = [.rel 0] ∨
    skel_hot_reloading_mod_Answers_wait_for_answer.drop 3 = [.call .s_notify_all, .rel 0] := by
  first | exact Or.inl rfl | exact Or.inr rfl
theorem skel_token : skel_hot_reloading_mod_Answers_get_unique_token = [.call .s_fetch_add_Relaxed] := rfl
/-- `HotReloader::reload`: fresh token, send `Ptr`, wait only if the send succeeded. -/
theorem skel_reload : skel_hot_reloading_mod_HotReloader_reload =
    [.call .s_get_unique_token, .call .s_Ptr, .call .s_send, .branch [[.call .s_wait_for_answer], []]] := rfl

/-- `HotReloader::start` creates the cache→reloader channel **unbounded**. The mailbox model relies on it:
`send` on `cache_msg` is a step that never blocks. This matters because the reloader thread is the only
consumer of that channel *and also sends on it* (a reload that loads never-cached assets reaches
`HotReloader::add_asset` on the reloader thread): with a bounded channel that send blocks for ever once
the queue is full and the pending `hot_reload` never returns (seeded mutation C08-a; engine op `hr.bulk`). -/
theorem skel_start_unbounded_channel : skel_hot_reloading_mod_HotReloader_start =
    [.call .s_unbounded, .call .s_name, .closure [.call .s_hot_reloading_thread], .call .s_spawn] := rfl
/-- the three senders on that channel do nothing but send -/
theorem skel_add_asset_sends : skel_hot_reloading_mod_HotReloader_add_asset = [.call .s_AddAsset, .call .s_send] := rfl
theorem skel_clear_sends : skel_hot_reloading_mod_HotReloader_clear = [.call .s_send] := rfl

/-- the `Ptr` arm of the thread loop: update first, then answer -/
def ptrArm : List Reloader.Sk → List Reloader.Sk
  | [_, _, .loop (_ :: .loop [_, .branch (arm :: _)] :: _)] => arm
  | _ => []
theorem skel_thread_answers_after_update :
    ptrArm skel_hot_reloading_mod_hot_reloading_thread =
      [.loop [.call .s_try_recv, .branch [[.call .s_handle_events], []]], .call .s_update_if_local, .call .s_notify] := rfl
theorem skel_update_if_local : skel_hot_reloading_paths_HotReloadingData_update_if_local =
    [.branch [[.call .s_run_update], []]] := rfl
theorem skel_run_update : skel_hot_reloading_paths_run_update =
    [.call .s_topological_sort_from, .call .s_clear, .loop [.call .s_reload]] := rfl
theorem skel_sort : skel_hot_reloading_dependencies_DepsGraph_topological_sort_from =
    [.loop [.call .s_visit], .call .s_TopologicalSort] := rfl
/-- `visit` begins with the visited test and the node look-up, each with its early return. -/
theorem skel_visit_guard : skel_hot_reloading_dependencies_DepsGraph_visit.take 4 =
    [.call .s_contains, .branch [[.ret], []], .call .s_get, .branch [[], [.ret]]] := rfl
/-- the rest of `visit` is: recurse over the reverse dependencies, mark, push — in one of the two orders -/
theorem skel_visit_rest :
    skel_hot_reloading_dependencies_DepsGraph_visit.drop 4 =
      [.loop [.call .s_visit], .call .s_insert, .branch [[.call .s_push], []]] ∨
    skel_hot_reloading_dependencies_DepsGraph_visit.drop 4 =
      [.call .s_insert, .loop [.call .s_visit], .branch [[.call .s_push], []]] := by
  first | exact Or.inl rfl | exact Or.inr rfl

/-! ## The source facts: today's source must have the repaired ones -/

/-- F-C08a: `wait_for_answer` signals after emptying the slot. -/
theorem C08_cfg_waitNotifies : genCfg.waitNotifies = true := by decide
/-- F-C08b: `visit` marks a node before recursing. -/
theorem C08_cfg_marksFirst : genCfg.marksFirst = true := by decide
/-- F-C09: the recorded reload runs under `catch_unwind`. -/
theorem C08_cfg_catchesPanic : genCfg.catchesPanic = true := by decide

/-! ## No deadlock -/

/-- Full-strength statement for an environment: in every reachable state (any number `n` of calls,
any schedule, spurious wake-ups included) in which some call `i` has not returned, a thread that is
*already running* can take a non-spurious step: the reloader, call `i` itself, or a call in flight. -/
def C08_no_deadlock_stmt (e : Env) : Prop :=
  ∀ (n : Nat) (σ : List Tid) (i : Nat), (run e (init n) σ).c i ≠ .done →
    (step e (run e (init n) σ) .reloader).isSome ∨
    ∃ k, (k = i ∨ active ((run e (init n) σ).c k) = true) ∧ (step e (run e (init n) σ) (.caller k)).isSome

theorem no_deadlock_of_inv (e : Env) (n : Nat) (s : St) (hinv : Inv n s) (i : Nat) (hnd : s.c i ≠ .done) :
    (step e s .reloader).isSome ∨ ∃ k, (k = i ∨ active (s.c k) = true) ∧ (step e s (.caller k)).isSome := by
  obtain ⟨_, i2, j, i1, al⟩ := hinv
  have callerEnabled : ∀ k, s.c k = .idle ∨ s.c k = .sent ∨ s.c k = .runnable → (step e s (.caller k)).isSome := by
    intro k hk
    simp only [step, al.2, if_false]
    rcases hk with h | h | h <;> simp only [h] <;> (repeat' split) <;> simp
  cases hci : s.c i with
  | done => exact absurd hci hnd
  | idle => exact Or.inr ⟨i, Or.inl rfl, callerEnabled i (Or.inl hci)⟩
  | sent => exact Or.inr ⟨i, Or.inl rfl, callerEnabled i (Or.inr (Or.inl hci))⟩
  | runnable => exact Or.inr ⟨i, Or.inl rfl, callerEnabled i (Or.inr (Or.inr hci))⟩
  | sleeping =>
    have hw := j i
    simp [active, hci, where_] at hw
    cases hr : s.r with
    | dead => exact absurd hr al.1
    | aborted => exact absurd hr al.2
    | upd t => left; simp only [step, hr]; (repeat' split) <;> simp
    | pub t => left; simp only [step, hr]; split <;> simp
    | recv =>
      cases hq : s.queue with
      | cons t q => left; simp [step, hr, hq]
      | nil =>
        simp [hr, hq, holds, inSlot] at hw
        exact absurd hci (i2 i hw)
    | sleep t =>
      have hne := i1 t hr
      cases hsl : s.slot with
      | none => exact absurd hsl hne
      | some u =>
        right
        have hju := j u
        have hu2 := i2 u hsl
        simp [where_, hsl, inSlot] at hju
        have hact : active (s.c u) = true := by
          cases hact : active (s.c u) with
          | true => rfl
          | false => simp [hact] at hju
        refine ⟨u, Or.inr hact, ?_⟩
        apply callerEnabled
        revert hact hu2; cases s.c u <;> simp [active]

/-- **C08_no_deadlock (repaired protocol).** If every update pass returns and `wait_for_answer`
signals after emptying the slot, no reachable state is a deadlock — for any number of concurrent
callers and every schedule. -/
theorem C08_no_deadlock (e : Env) (hs : Safe e) (hw : e.waitNotifies = true) : C08_no_deadlock_stmt e := by
  intro n σ i hnd
  exact no_deadlock_of_inv e n _ (inv_run e n hs (Or.inl hw) (init n) σ (inv_init n)) i hnd

/-- The environments of the repaired source: it signals, catches loader panics, and its visit does not overflow. -/
def repairedEnv (u : Nat → Upd) : Env := ⟨true, true, u⟩
example : C08_no_deadlock_stmt (repairedEnv fun t => if t % 2 = 0 then .ok else .panics) :=
  C08_no_deadlock _ (by intro t; simp only [repairedEnv]; by_cases h : t % 2 = 0 <;> simp [h]) rfl

/-- Executable form of "some call has not returned and nobody can move" agrees with the statement. -/
theorem allDone_false {s : St} : ∀ n, allDone s n = false → ∃ i, i < n ∧ s.c i ≠ .done
  | 0, h => by simp [allDone] at h
  | n+1, h => by
    simp only [allDone, Bool.and_eq_false_iff, decide_eq_false_iff_not] at h
    rcases h with h | h
    · exact ⟨n, by omega, h⟩
    · obtain ⟨i, hi, hc⟩ := allDone_false n h; exact ⟨i, by omega, hc⟩

theorem anyCallerEnabled_false {e : Env} {s : St} : ∀ n, anyCallerEnabled e s n = false → ∀ k, k < n → step e s (.caller k) = none
  | 0, _, k, hk => by omega
  | n+1, h, k, hk => by
    simp only [anyCallerEnabled, Bool.or_eq_false_iff] at h
    by_cases hkn : k = n
    · subst hkn; simpa using h.1
    · exact anyCallerEnabled_false n h.2 k (by omega)

theorem step_done_none (e : Env) (s : St) (k : Nat) (h : s.c k = .done) : step e s (.caller k) = none := by
  simp only [step, h]; split <;> rfl

/-- a state the executable predicate calls deadlocked refutes the statement -/
theorem deadlocked_refutes (e : Env) (n : Nat) (σ : List Tid) (h : deadlocked e (run e (init n) σ) n = true) :
    ¬ C08_no_deadlock_stmt e := by
  intro hstmt
  have hb := bound_run e n (init n) σ (bound_init n)
  simp only [deadlocked, Bool.and_eq_true, Bool.not_eq_true'] at h
  obtain ⟨⟨h1, h2⟩, h3⟩ := h
  obtain ⟨i, _, hi⟩ := allDone_false n h1
  rcases hstmt n σ i hi with hr | ⟨k, _, hk⟩
  · simp [h2] at hr
  · by_cases hkn : k < n
    · rw [anyCallerEnabled_false n h3 k hkn] at hk; simp at hk
    · have : (run e (init n) σ).c k = .done := Decidable.byContradiction fun hc => hkn (hb k hc)
      rw [step_done_none e _ k this] at hk; simp at hk

open Tid in
/-- **F-C08a at model level (lost wake-up).** Without the signal, two callers and this 10-step
schedule end with call 1 asleep for its answer, the reloader asleep for an empty slot, the slot
empty, and nobody able to move. Kernel-checked. -/
theorem C08_lost_wakeup (cp : Bool) :
    deadlocked ⟨false, cp, fun _ => .ok⟩
      (run ⟨false, cp, fun _ => .ok⟩ (init 2)
        [caller 0, caller 1, reloader, reloader, reloader, reloader, reloader, reloader, caller 0, caller 1]) 2 = true := by
  cases cp <;> decide

/-- The full-strength statement is false for the protocol without the signal. -/
theorem C08_no_deadlock_false_without_signal (cp : Bool) : ¬ C08_no_deadlock_stmt ⟨false, cp, fun _ => .ok⟩ :=
  deadlocked_refutes _ 2 _ (C08_lost_wakeup cp)

open Tid in
/-- **F-C09 at model level.** One caller, an update pass whose loader panics, no `catch_unwind`: the
thread dies holding the request and the caller sleeps for ever. -/
theorem C08_panic_strands_caller (wn : Bool) :
    deadlocked ⟨wn, false, fun _ => .panics⟩
      (run ⟨wn, false, fun _ => .panics⟩ (init 1) [caller 0, reloader, reloader, caller 0]) 1 = true := by
  cases wn <;> decide

theorem C08_no_deadlock_false_with_uncaught_panic (wn : Bool) : ¬ C08_no_deadlock_stmt ⟨wn, false, fun _ => .panics⟩ :=
  deadlocked_refutes _ 1 _ (C08_panic_strands_caller wn)

/-- **C08_no_deadlock_partial.** Whatever `wait_for_answer` does after emptying the slot: with at
most one call (`n ≤ 1`, the executable extra hypothesis — one caller in flight at a time) there is
no deadlock, provided every update pass returns. -/
theorem C08_no_deadlock_partial (e : Env) (hs : Safe e) (n : Nat) (hn : n ≤ 1) (σ : List Tid) (i : Nat)
    (hnd : (run e (init n) σ).c i ≠ .done) :
    (step e (run e (init n) σ) .reloader).isSome ∨
    ∃ k, (k = i ∨ active ((run e (init n) σ).c k) = true) ∧ (step e (run e (init n) σ) (.caller k)).isSome :=
  no_deadlock_of_inv e n _ (inv_run e n hs (Or.inr hn) (init n) σ (inv_init n)) i hnd

example : (run ⟨false, false, fun _ => .ok⟩ (init 1) [.caller 0, .reloader, .reloader, .reloader, .caller 0]).c 0 = .done := by decide

/-! ## Own answer -/

/-- **C08_own_answer.** In every environment, for every number of callers and every schedule: a
call that has returned had its *own* request served (its token's update pass finished) — or it found
the thread already dead when it tried to send, in which case `reload` does not wait at all. -/
theorem C08_own_answer (e : Env) (n : Nat) (σ : List Tid) (i : Nat) (hi : i < n)
    (hd : (run e (init n) σ).c i = .done) :
    i ∈ (run e (init n) σ).served ∨ (run e (init n) σ).r = .dead :=
  (own_run e n (init n) σ (own_init n)).o3 i hi hd

/-- ... and a token is only ever published after its update pass. -/
theorem C08_published_is_served (e : Env) (n : Nat) (σ : List Tid) (t : Nat)
    (h : (run e (init n) σ).slot = some t) : t ∈ (run e (init n) σ).served :=
  (own_run e n (init n) σ (own_init n)).o1 t h

example : (run ⟨true, true, fun _ => .ok⟩ (init 2)
    [.caller 1, .caller 0, .reloader, .reloader, .reloader, .caller 1]).served = [1] := by decide

/-! ## Bounded work -/

/-- **C08_bounded_work.** In every environment every effective step that is not a spurious wake-up
strictly decreases `rank = (n+2)·major + minor` (`major`: how far the tokens still have to travel —
unsent 6, queued 5, being updated 4, in the reloader's hand 3, in the slot 1; `minor`: threads that can
still re-check their predicate without moving a token). -/
theorem C08_bounded_work (e : Env) (n : Nat) (σ : List Tid) (t : Tid) (s' : St)
    (ht : t = .reloader ∨ ∃ i, t = .caller i) (h : step e (run e (init n) σ) t = some s') :
    rank s' n < rank (run e (init n) σ) n :=
  rank_step e n _ s' t (bound_run e n (init n) σ (bound_init n)) h ht

/-- ... so a schedule without spurious wake-ups performs at most `6·n·(n+2)` effective steps. -/
theorem C08_work_bound (e : Env) (n : Nat) (σ : List Tid) (hσ : NoSpurious σ) :
    work e (init n) σ ≤ 6 * n * (n + 2) := by
  have := work_le_rank e n (init n) σ (bound_init n) hσ
  rw [rank_init] at this
  have h2 : (n + 2) * (6 * n) = 6 * n * (n + 2) := Nat.mul_comm _ _
  omega

/-- ... and when such an execution of the repaired protocol cannot continue, every call has returned. -/
theorem C08_maximal_all_returned (e : Env) (hs : Safe e) (hw : e.waitNotifies = true) (n : Nat) (σ : List Tid)
    (hmax : step e (run e (init n) σ) .reloader = none ∧ ∀ k, step e (run e (init n) σ) (.caller k) = none) :
    ∀ i, (run e (init n) σ).c i = .done := by
  intro i
  apply Decidable.byContradiction
  intro hnd
  rcases C08_no_deadlock e hs hw n σ i hnd with h | ⟨k, _, h⟩
  · simp [hmax.1] at h
  · simp [hmax.2 k] at h

example : work ⟨true, true, fun _ => .ok⟩ (init 2) [.caller 0, .caller 0, .caller 1, .reloader, .reloader] = 5 := by decide

/-! ## The visit terminates; the process is never aborted -/

/-- Full-strength statement: the sort returns on every finite graph (cyclic look-ups included) within
`#nodes + 1` stack frames. -/
def C08_topo_terminates_stmt (markFirst : Bool) : Prop :=
  ∀ (g : Nat → Option (List Nat)) (isAsset : Nat → Bool) (nodes : List Nat), (∀ a rs, g a = some rs → a ∈ nodes) →
    ∀ changed, topo g isAsset markFirst (nodes.length + 1) changed ≠ none

/-- **C08_topo_terminates (repaired order).** -/
theorem C08_topo_terminates : C08_topo_terminates_stmt true := by
  intro g isAsset nodes hfin changed
  obtain ⟨s, hs⟩ := sort_terminates g nodes hfin changed ⟨[], []⟩
  simp [topo, hs]

/-- two assets that look each other up (`1 ↔ 2`, both reverse dependencies of file `0`) -/
def mutualLookups : Nat → Option (List Nat)
  | 0 => some [1] | 1 => some [2] | 2 => some [1] | _ => none
example : topo mutualLookups (· ≠ 0) true 4 [0] = some [1, 2] := by decide

/-- **F-C08b at model level.** In the defective order a node that is its own reverse dependency
exhausts every fuel: unbounded recursion. -/
theorem C08_visit_diverges (fuel : Nat) : topo (fun _ => some [0]) (fun _ => true) false fuel [0] = none := by
  have := visit_diverges_self_loop (fun _ => some [0]) 0 ⟨[], rfl⟩ ⟨[], []⟩ (by simp) fuel
  simp [topo, List.foldlM, this]

theorem C08_topo_terminates_false_in_defective_order : ¬ C08_topo_terminates_stmt false := by
  intro h
  exact h (fun k => if k = 0 then some [0] else none) (fun _ => true) [0]
    (by intro a rs ha; by_cases h0 : a = 0
        · simp [h0]
        · simp [h0] at ha)
    [0] (by
      have := visit_diverges_self_loop (fun k => if k = 0 then some [0] else none) 0 ⟨[], by simp⟩ ⟨[], []⟩ (by simp) 2
      simp [topo, List.foldlM, this])

/-- **C08_topo_terminates_partial.** In the defective order the sort still returns on acyclic graphs
(a rank strictly decreases along reverse-dependency edges), with fuel above the largest rank. -/
theorem C08_topo_terminates_partial (g : Nat → Option (List Nat)) (isAsset : Nat → Bool) (rank : Nat → Nat)
    (hr : ∀ a rs b, g a = some rs → b ∈ rs → rank b < rank a) (fuel : Nat) (changed : List Nat)
    (hf : ∀ k ∈ changed, rank k < fuel) : topo g isAsset false fuel changed ≠ none := by
  have fold : ∀ (l : List Nat) (s0 : VSt), (∀ k ∈ l, rank k < fuel) →
      ∃ s, l.foldlM (fun s k => visit g false fuel s k) s0 = some s := by
    intro l
    induction l with
    | nil => intro s0 _; exact ⟨s0, by simp [List.foldlM]⟩
    | cons k l ih =>
      intro s0 hl
      have ⟨s1, h1⟩ := visit_terminates_acyclic g rank hr fuel s0 k (hl k (by simp))
      have ⟨s, hs⟩ := ih s1 (fun k' hk' => hl k' (by simp [hk']))
      exact ⟨s, by simp [List.foldlM_cons, h1, hs]⟩
  obtain ⟨s, hs⟩ := fold changed ⟨[], []⟩ hf
  simp [topo, hs]

/-- file 0 ← asset 1 ← asset 2 (a chain) -/
def chain : Nat → Option (List Nat) | 0 => some [1] | 1 => some [2] | 2 => some [] | _ => none
example : topo chain (· ≠ 0) false 3 [0] = some [1, 2] := by decide

/-- The update pass of the repaired visit never overflows (on any finite graph, whatever the loaders do). -/
theorem C08_update_never_overflows (g : Nat → Option (List Nat)) (isAsset : Nat → Bool) (nodes : List Nat)
    (hfin : ∀ a rs, g a = some rs → a ∈ nodes) (changed : List Nat) (panicking : Nat → Bool) :
    updatePass g isAsset true (nodes.length + 1) changed panicking ≠ .overflow := by
  have := C08_topo_terminates g isAsset nodes hfin changed
  unfold updatePass
  cases h : topo g isAsset true (nodes.length + 1) changed with
  | none => exact absurd h this
  | some order => simp only []; split <;> simp

/-- **C08_never_aborts.** If no update pass overflows the stack, no schedule of any number of
callers reaches the aborted state; and the thread never dies unless a loader panic goes uncaught. -/
theorem C08_never_aborts (e : Env) (h : ∀ t, e.upd t ≠ .overflow) (n : Nat) (σ : List Tid) :
    (run e (init n) σ).r ≠ .aborted := by
  intro hx
  rcases (alive_run e (init n) σ).1 hx with h1 | ⟨u, hu⟩
  · simp [init] at h1
  · exact h u hu

theorem C08_thread_survives (e : Env) (h : e.catchesPanic = true) (n : Nat) (σ : List Tid) :
    (run e (init n) σ).r ≠ .dead := by
  intro hx
  rcases (alive_run e (init n) σ).2 hx with h1 | ⟨u, _, hu⟩
  · simp [init] at h1
  · simp [h] at hu

/-- the defective visit aborts the process on the first request after a self look-up was recorded -/
example : (run ⟨true, true, fun _ => updatePass (fun _ => some [0]) (fun _ => true) false 8 [0] (fun _ => false)⟩
    (init 1) [.caller 0, .reloader, .reloader]).r = .aborted := by decide

/-! ## The theorems at today's source -/

/-- Environment of today's source running update passes over graph `g` (stack depth `#nodes + 1`). -/
def envToday (g : Nat → Option (List Nat)) (isAsset : Nat → Bool) (nodes : List Nat)
    (changed : Nat → List Nat) (panicking : Nat → Bool) : Env :=
  ⟨genCfg.waitNotifies, genCfg.catchesPanic,
   fun t => updatePass g isAsset genCfg.marksFirst (nodes.length + 1) (changed t) panicking⟩

/-- **C08 (full strength, today's source):** any number of concurrent `hot_reload` calls, any
schedule, any finite dependency graph (cyclic look-ups included), any set of changed entries per
request, loaders that panic or not: no deadlock, never aborted, thread alive. -/
theorem C08_no_deadlock_today (g : Nat → Option (List Nat)) (isAsset : Nat → Bool) (nodes : List Nat)
    (hfin : ∀ a rs, g a = some rs → a ∈ nodes) (changed : Nat → List Nat) (panicking : Nat → Bool) :
    C08_no_deadlock_stmt (envToday g isAsset nodes changed panicking) ∧
    ∀ n σ, (run (envToday g isAsset nodes changed panicking) (init n) σ).r ≠ .aborted ∧
           (run (envToday g isAsset nodes changed panicking) (init n) σ).r ≠ .dead := by
  have hov : ∀ t, (envToday g isAsset nodes changed panicking).upd t ≠ .overflow := by
    intro t; simp only [envToday, C08_cfg_marksFirst]
    exact C08_update_never_overflows g isAsset nodes hfin (changed t) panicking
  have hsafe : Safe (envToday g isAsset nodes changed panicking) := by
    intro t
    have := hov t
    cases hu : (envToday g isAsset nodes changed panicking).upd t with
    | ok => exact Or.inl rfl
    | panics => exact Or.inr ⟨rfl, by simp [envToday, C08_cfg_catchesPanic]⟩
    | overflow => exact absurd hu this
  refine ⟨C08_no_deadlock _ hsafe (by simp [envToday, C08_cfg_waitNotifies]), fun n σ => ⟨?_, ?_⟩⟩
  · exact C08_never_aborts _ hov n σ
  · exact C08_thread_survives _ (by simp [envToday, C08_cfg_catchesPanic]) n σ

/-- The crate's own `Condvar::wait_while` (wrapper over std / parking_lot in `utils/private.rs`) re-checks its
condition after every wake-up in both lock implementations: `Answers` shares one condition variable between all
`hot_reload` callers and the reloader and wakes with `notify_all`, so the model's "a waiter proceeds only when its
own condition holds" is this fact. -/
theorem C08_wait_while_rechecks : waitWhileRechecksStd = true ∧ waitWhileRechecksParkingLot = true := by decide

/-- Value-level facts of the `hot_reload` handshake that no effect skeleton shows: a caller waits for exactly its own token, the
reloader publishes only into an empty slot, tokens are distinct, `notify_all` wakes every sleeper; and a request takes in the events
that were sent before it (the loop is bounded by the length of the EVENT channel). -/
theorem C08_handshake_values : AmVerif.Gen.answersHandshakeExact = true ∧ AmVerif.Gen.requestTakesPendingEvents = true := by decide

end AmVerif.Props.C08
