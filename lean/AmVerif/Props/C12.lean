import AmVerif.Lemmas.Watch
/-!
# C12 — filesystem notifications name the right entries (inverse of `path_of`)

Everything is about `AmVerif.Model.Watch` — the definitions the driver `amdrv` executes — whose
decision tables `Gen.watchTable` / `Gen.compTable` are regenerated from
`src/hot_reloading/watcher.rs` on every run.

The full-strength statements (`C12_root_stmt`, `C12_table_stmt` for every kind,
`C12_expressible_stmt`, `C12_detour_events_stmt`) were false of the watcher before the repairs of
F-C12a–e (they were refuted by kernel-checked witnesses then); they are **proved** here, so they
break again — together with the oracle of the `watch` engine — if one of the defects returns.
-/
namespace AmVerif.Props.C12
open AmVerif.Gen AmVerif.Model.Watch

/-! ## Valid entries -/

/-- A valid id segment / file name stem: non-empty, no dot, no path separator. -/
def ValidSeg (s : List Char) : Prop := s ≠ [] ∧ '.' ∉ s ∧ '/' ∉ s

def ValidExt (x : List Char) : Prop := '.' ∉ x ∧ '/' ∉ x

/-- The entry with parent segments `init`, own name `l`, and extension `ext?` (`none`: a directory). -/
def mkEnt (init : List (List Char)) (l : List Char) : Option (List Char) → Ent
  | none => .dir (joinDot (init ++ [l]))
  | some x => .file (joinDot (init ++ [l])) x

def ValidNonRoot (init : List (List Char)) (l : List Char) (ext? : Option (List Char)) : Prop :=
  (∀ s ∈ init ++ [l], ValidSeg s) ∧ ∀ x, ext? = some x → ValidExt x

/-- Valid entries: the root directory, and every directory / file all of whose segments (and
extension) are valid. No bound on depth or lengths. -/
inductive ValidEnt : Ent → Prop
  | root : ValidEnt (.dir [])
  | nonroot (init l ext?) (h : ValidNonRoot init l ext?) : ValidEnt (mkEnt init l ext?)

/-- File name of the entry's last component. -/
def nameOf (l : List Char) : Option (List Char) → OsName
  | none => ofStr l
  | some x => ofStr l ++ (if x = [] then [] else .ch '.' :: ofStr x)

/-- The path of a non-root entry below `r`. -/
def entPath (r : Path) (init : List (List Char)) (l : List Char) (ext? : Option (List Char)) : Path :=
  r ++ init.map N ++ [.normal (nameOf l ext?)]

def extOf : Option (List Char) → List Char
  | none => []
  | some x => x

/-- What `id_of_path` says about the entry's path when the kind it is given (by the notification,
else by the file system) is `k`: the directory only if the name has no extension (a directory
`f.txt` is not expressible), else the file. -/
def seen (init : List (List Char)) (l : List Char) (ext? : Option (List Char)) (k : Bool) : Option Ent :=
  if k then (if extOf ext? = [] then some (.dir (joinDot (init ++ [l]))) else none)
  else some (.file (joinDot (init ++ [l])) (extOf ext?))

theorem slash_ne_dot : ('/' : Char) ≠ '.' := by decide

theorem no_slash_joinDot_of (segs : List (List Char)) (h : ∀ s ∈ segs, '/' ∉ s) : '/' ∉ joinDot segs := by
  intro m
  rcases mem_joinDot _ _ m with e | ⟨s, hs, hc⟩
  · exact slash_ne_dot e
  · exact h s hs hc

theorem no_slash_joinDot (segs : List (List Char)) (h : ∀ s ∈ segs, ValidSeg s) : '/' ∉ joinDot segs :=
  no_slash_joinDot_of segs (fun s hs => (h s hs).2.2)

theorem splitName_nameOf (l : List Char) (ext? : Option (List Char)) (hl : ValidSeg l)
    (hx : ∀ x, ext? = some x → ValidExt x) :
    (splitName (nameOf l ext?)).1 = ofStr l ∧ extOfName (nameOf l ext?) = some (extOf ext?) ∧
      toStr? (nameOf l ext?) = some (l ++ (if extOf ext? = [] then [] else '.' :: extOf ext?)) := by
  cases ext? with
  | none => simp [nameOf, extOf, extOfName, splitName_plain l hl.2.1, toStr?_ofStr]
  | some x =>
    by_cases hx0 : x = []
    · subst hx0; simp [nameOf, extOf, extOfName, splitName_plain l hl.2.1, toStr?_ofStr]
    · have hox : ofStr x ≠ [] := fun e => hx0 ((ofStr_eq_nil x).mp e)
      have hsp := splitName_ext l x hl.1 (hx x rfl).1
      have hwhole : ofStr l ++ OsCh.ch '.' :: ofStr x = ofStr (l ++ '.' :: x) := by simp [ofStr]
      refine ⟨?_, ?_, ?_⟩
      · simp [nameOf, hx0, hsp]
      · simp [nameOf, extOf, extOfName, hx0, hsp, hox, toStr?_ofStr]
      · simp only [nameOf, extOf, hx0, if_false]
        rw [hwhole, toStr?_ofStr]

/-- `path_of_entry` of a valid non-root entry, computed. -/
theorem pathOf_mk (r : Path) (init l ext?) (h : ValidNonRoot init l ext?) :
    pathOf r (mkEnt init l ext?) = some (entPath r init l ext?) := by
  have hdot : ∀ w ∈ init ++ [l], '.' ∉ w := fun w hw => (h.1 w hw).2.1
  have hne : ∀ w ∈ init ++ [l], w ≠ [] := fun w hw => (h.1 w hw).1
  have hsl := no_slash_joinDot _ h.1
  have hl : ValidSeg l := h.1 l (by simp)
  cases ext? with
  | none =>
    simp only [mkEnt, pathOf, hsl, if_false]
    rw [split_join _ (by simp) hdot, foldl_pushSeg _ _ hne]
    simp [entPath, nameOf, N]
  | some x =>
    have hx := (h.2 x rfl)
    simp only [mkEnt, pathOf, hsl, hx.2, or_self, if_false]
    rw [split_join _ (by simp) hdot, foldl_pushSeg _ _ hne]
    simp [entPath, nameOf, N, setExtension, splitName_plain l hl.2.1]

theorem push_segs (init : List (List Char)) (l : List Char) (h : ∀ s ∈ init ++ [l], s ≠ []) (hl : '.' ∉ l) :
    push (pushAll [] init) l = some (joinDot (init ++ [l])) := by
  rw [← pushAll_nil _ h, pushAll_concat]
  simp [push, hl]

/-- `id_of_path` on the path of a valid non-root entry, whatever kind it is told. -/
theorem idOfPath_entry (r : Path) (init l ext?) (h : ValidNonRoot init l ext?) (hint : Option Bool) (d : Bool) :
    idOfPath r (entPath r init l ext?) hint d = seen init l ext? (hint.getD d) := by
  have hl : ValidSeg l := h.1 l (by simp)
  have hinit : ∀ s ∈ init, '.' ∉ s := fun s hs => (h.1 s (by simp [hs])).2.1
  have hne : ∀ w ∈ init ++ [l], w ≠ [] := fun w hw => (h.1 w hw).1
  obtain ⟨hstem, hext, hwhole⟩ := splitName_nameOf l ext? hl h.2
  unfold entPath
  rw [idOfPath_under, runComps_segs _ _ hinit, hstem, toStr?_ofStr, hext, hwhole]
  have hpush := push_segs init l hne hl.2.1
  cases hk : hint.getD d with
  | false => simp [seen, hpush]
  | true =>
    by_cases hx : extOf ext? = []
    · simp [seen, hx, hpush]
    · simp [seen, hx, push]

theorem seen_kind (init l ext?) (hx : ∀ x, ext? = some x → x ≠ [] ∨ True) :
    seen init l ext? ext?.isNone = some (mkEnt init l ext?) := by
  cases ext? <;> simp [seen, mkEnt, extOf]

/-! ## Round trip and injectivity -/

theorem pathOf_root (r : Path) : pathOf r (.dir []) = some r := by
  simp [pathOf, splitDot, pushSeg]

/-- **C12_roundtrip.** Under every root, `id_of_path` inverts `path_of` on every valid entry —
the root directory itself, and every file / directory at any depth, with or without extension —
when the kind it is told (by the notification, else by the file system) is the entry's. -/
theorem C12_roundtrip (r : Path) (e : Ent) (h : ValidEnt e) (hint : Option Bool) (d : Bool)
    (hk : hint.getD d = e.isDir) :
    ∃ p, pathOf r e = some p ∧ idOfPath r p hint d = some e := by
  cases h with
  | root => exact ⟨r, pathOf_root r, idOfPath_root r hint d⟩
  | nonroot init l ext? hv =>
    refine ⟨_, pathOf_mk r init l ext? hv, ?_⟩
    rw [idOfPath_entry r init l ext? hv, hk]
    cases ext? <;> simp [mkEnt, seen, Ent.isDir, extOf]

example : ValidEnt (mkEnt [['d']] ['f'] (some ['t', 'x', 't'])) :=
  .nonroot _ _ _ ⟨by simp [ValidSeg], by simp [ValidExt]⟩

/-- **C12_injective.** Two valid files, or two valid directories, with the same path under one root
are the same entry. (A file without extension and a directory *can* share a path.) -/
theorem C12_injective (r p : Path) (e₁ e₂ : Ent) (h₁ : ValidEnt e₁) (h₂ : ValidEnt e₂)
    (hk : e₁.isDir = e₂.isDir) (hp₁ : pathOf r e₁ = some p) (hp₂ : pathOf r e₂ = some p) : e₁ = e₂ := by
  obtain ⟨p1, hq1, hi1⟩ := C12_roundtrip r e₁ h₁ none e₁.isDir rfl
  obtain ⟨p2, hq2, hi2⟩ := C12_roundtrip r e₂ h₂ none e₁.isDir (by simpa using hk)
  rw [hp₁] at hq1; rw [hp₂] at hq2
  cases hq1; cases hq2
  exact Option.some.inj (hi1.symm.trans hi2)

/-! ## The root directory (F-C12a) -/

/-- Full strength: the root directory is the directory with the empty id (whatever the
notification and the file system say about its kind). -/
def C12_root_stmt : Prop := ∀ (r : Path) (hint : Option Bool) (d : Bool), idOfPath r r hint d = some (.dir [])

/-- **C12_root** (F-C12a repaired). -/
theorem C12_root : C12_root_stmt := idOfPath_root

/-! ## Detours, foreign paths, inexpressible names -/

theorem idOfPath_nonnormal (r q : Path) (c : Comp) (hint : Option Bool) (d : Bool) (hc : ∀ n, c ≠ .normal n)
    (hne : q ++ [c] ≠ r) : idOfPath r (q ++ [c]) hint d = none := by
  rw [idOfPath_of_ne _ _ _ _ hne]
  have : fileName (q ++ [c]) = none := by
    cases c <;> simp_all [fileName]
  cases parentOf (q ++ [c]) with
  | none => rfl
  | some p =>
    cases h2 : stripPrefix r p with
    | none => simp [h2]
    | some rel => cases h3 : runComps [] rel <;> simp [h2, h3, this]

theorem idOfPath_congr_rel (r rel rel' : Path) (c : Comp) (hint : Option Bool) (d : Bool)
    (h : runComps [] rel = runComps [] rel') :
    idOfPath r (r ++ rel ++ [c]) hint d = idOfPath r (r ++ rel' ++ [c]) hint d := by
  by_cases hc : ∃ n, c = .normal n
  · obtain ⟨n, rfl⟩ := hc
    rw [idOfPath_under, idOfPath_under, h]
  · have hc' : ∀ n, c ≠ .normal n := fun n e => hc ⟨n, e⟩
    rw [idOfPath_nonnormal _ _ _ _ _ hc' (under_ne _ _ _), idOfPath_nonnormal _ _ _ _ _ hc' (under_ne _ _ _)]

/-- **C12_dot_components (`.`).** A `.` component anywhere below the root and before the last
component does not change the result. -/
theorem C12_dot_components_cur (r a b : Path) (c : Comp) (hint : Option Bool) (d : Bool) :
    idOfPath r (r ++ (a ++ [.curDir] ++ b) ++ [c]) hint d = idOfPath r (r ++ (a ++ b) ++ [c]) hint d := by
  apply idOfPath_congr_rel
  simp [runComps_append, runComps, compStep_cur]

/-- **C12_dot_components (`x/..`).** A detour through any directory name the builder accepts,
anywhere below the root and before the last component, does not change the result. -/
theorem C12_dot_components_updown (r a b : Path) (x : List Char) (c : Comp) (hint : Option Bool) (d : Bool)
    (hx : '.' ∉ x) (hne : x ≠ []) :
    idOfPath r (r ++ (a ++ [N x, .parentDir] ++ b) ++ [c]) hint d = idOfPath r (r ++ (a ++ b) ++ [c]) hint d := by
  apply idOfPath_congr_rel
  have key : ∀ b1 : Buf, runComps b1 [N x, .parentDir] = some b1 := by
    intro b1
    have hp : push b1 x = some (if b1 = [] then x else b1 ++ '.' :: x) := by simp [push, hx]
    simp [runComps, compStep_N, compStep_parent, hp, pop_push b1 x _ hx hne hp]
  rw [List.append_assoc a, runComps_append, runComps_append]
  cases runComps [] a with
  | none => rfl
  | some b1 =>
    simp only [Option.bind_some]
    rw [runComps_append, key]; rfl

example : idOfPath [.rootDir, N ['r']] ([.rootDir, N ['r']] ++ ([N ['a']] ++ [N ['z'], .parentDir] ++ [N ['b']]) ++ [N ['f']]) none false
    = idOfPath [.rootDir, N ['r']] ([.rootDir, N ['r']] ++ ([N ['a']] ++ [N ['b']]) ++ [N ['f']]) none false :=
  C12_dot_components_updown _ _ _ _ _ _ _ (by decide) (by decide)

/-- **C12_outside_none (foreign path).** A path that does not lie under the root yields nothing. -/
theorem C12_outside_none (r p : Path) (hint : Option Bool) (d : Bool) (h : ¬ r <+: p) : idOfPath r p hint d = none := by
  have hne : p ≠ r := fun e => h (e ▸ List.prefix_refl _)
  rw [idOfPath_of_ne _ _ _ _ hne]
  cases h1 : parentOf p with
  | none => rfl
  | some q =>
    cases h2 : stripPrefix r q with
    | none => simp [h2]
    | some x =>
      exfalso
      obtain ⟨c, hc⟩ := parentOf_eq_some h1
      apply h
      refine ⟨x ++ [c], ?_⟩
      rw [hc, stripPrefix_eq_some h2, List.append_assoc]

/-- A component the id builder cannot take: a prefix / root component below the root, a name that
is not UTF-8, or a name containing a dot. -/
def BadComp : Comp → Prop
  | .pfx | .rootDir => True
  | .normal n => ∀ s, toStr? n = some s → '.' ∈ s
  | _ => False

theorem compStep_bad (c : Comp) (h : BadComp c) (b : Buf) : compStep b c = none := by
  cases c with
  | pfx => simp [compStep, Comp.kind, compTable]
  | rootDir => simp [compStep, Comp.kind, compTable]
  | curDir => cases h
  | parentDir => cases h
  | normal n =>
    simp only [compStep, Comp.kind, compTable]
    cases hs : toStr? n with
    | none => rfl
    | some s => simp [push, h s hs]

/-- **C12_outside_none (inexpressible directory).** A non-UTF-8 or dotted component between the
root and the last component yields nothing, whatever follows it. -/
theorem C12_bad_component_none (r rel : Path) (c last : Comp) (hint : Option Bool) (d : Bool) (hc : c ∈ rel)
    (hbad : BadComp c) : idOfPath r (r ++ rel ++ [last]) hint d = none := by
  by_cases hl : ∃ n, last = .normal n
  · obtain ⟨n, rfl⟩ := hl
    rw [idOfPath_under, runComps_none_of_mem [] rel c hc (compStep_bad c hbad)]
    rfl
  · exact idOfPath_nonnormal _ _ _ _ _ (fun n e => hl ⟨n, e⟩) (under_ne _ _ _)

/-- **C12_outside_none (inexpressible directory name).** Told that the entry is a directory,
`id_of_path` yields nothing for a last component that is not UTF-8 or contains a dot (`a.b`,
`.hidden`, `a.`): the whole name of a directory is its last id segment (F-C12d repaired). -/
theorem C12_bad_last_dir_none (r q : Path) (n : OsName) (hint : Option Bool) (d : Bool)
    (hne : q ++ [.normal n] ≠ r) (hk : hint.getD d = true)
    (h : ∀ s, toStr? n = some s → '.' ∈ s) : idOfPath r (q ++ [.normal n]) hint d = none := by
  rw [idOfPath_of_ne _ _ _ _ hne, parentOf_concat_normal, fileName_concat_normal]
  simp only [Option.bind_some, hk, if_true]
  cases h2 : stripPrefix r q with
  | none => rfl
  | some rel =>
    simp only [Option.bind_some]
    cases h3 : runComps [] rel with
    | none => rfl
    | some buf =>
      simp only [Option.bind_some]
      cases hs : toStr? n with
      | none => rfl
      | some s => simp [push, h s hs]

/-- **C12_outside_none (inexpressible file name).** Told that the entry is not a directory,
`id_of_path` yields nothing for a last component whose stem is not UTF-8 or still contains a dot
(`a.b.c`, `.hidden`), or whose extension is empty (`a.`, F-C12d repaired). -/
theorem C12_bad_last_file_none (r q : Path) (n : OsName) (hint : Option Bool) (d : Bool)
    (hne : q ++ [.normal n] ≠ r) (hk : hint.getD d = false)
    (h : (∀ s, toStr? (splitName n).1 = some s → '.' ∈ s) ∨ (splitName n).2 = some []) :
    idOfPath r (q ++ [.normal n]) hint d = none := by
  rw [idOfPath_of_ne _ _ _ _ hne, parentOf_concat_normal, fileName_concat_normal]
  simp only [Option.bind_some, hk]
  cases h2 : stripPrefix r q with
  | none => rfl
  | some rel =>
    simp only [Option.bind_some]
    cases h3 : runComps [] rel with
    | none => rfl
    | some buf =>
      simp only [Option.bind_some]
      cases hs : toStr? (splitName n).1 with
      | none => rfl
      | some s =>
        simp only [Option.bind_some]
        rcases h with h | h
        · simp [push, h s hs]
        · cases hp : push buf s with
          | none => rfl
          | some id => simp [extOfName, h]

example : BadComp (.normal [.ch 'a', .bad 255]) := by simp [BadComp, toStr?]
example : BadComp (.normal (ofStr ['a', '.', 'b'])) := by
  intro s hs; rw [toStr?_ofStr] at hs; cases hs; decide

/-! ## The handler keeps its watcher -/

/-- **C12_handler_survives.** While the channel is connected, no event — whatever its kind and
however un-mappable its paths — changes the handler: it keeps its watcher and its roots. -/
theorem C12_handler_survives (h : Handler) (isDir : Path → Bool) (k : EvKind) (ps : List Path) :
    (handleEvent h true isDir k ps).1 = h := by
  induction ps with
  | nil => rfl
  | cons p ps ih =>
    simp only [handleEvent]
    cases watchTable k with
    | ret => rfl
    | act wp hint =>
      by_cases hr : h.roots = []
      · simp [hr, ih]
      · simp [hr, ih]

/-- The watcher is dropped only by a failed send (disconnected channel). -/
theorem C12_watcher_dropped_only_disconnected (h : Handler) (c : Bool) (isDir : Path → Bool) (k : EvKind)
    (ps : List Path) (hd : (handleEvent h c isDir k ps).1.hasWatcher = false) :
    h.hasWatcher = false ∨ c = false := by
  cases c with
  | false => right; rfl
  | true => left; rw [C12_handler_survives] at hd; exact hd

/-! ## Several roots -/

/-- **C12_multi_roots.** What a batch contains: exactly, under each root, the entry the notified
path translates to and — when the notification changes the parent's listing — the directory of
its parent id. -/
theorem C12_multi_roots (roots : List Path) (wp : Bool) (hint : Option Bool) (d : Bool) (p : Path) (e : Ent) :
    e ∈ batchOf roots wp hint d p ↔
      ∃ r ∈ roots, ∃ e₀, idOfPath r p hint d = some e₀ ∧ e ∈ withParentOf wp e₀ := by
  simp only [batchOf, List.mem_flatMap]
  constructor
  · rintro ⟨r, hr, he⟩
    cases h : idOfPath r p hint d with
    | none => simp [h] at he
    | some e₀ => exact ⟨r, hr, e₀, h, by simpa [h] using he⟩
  · rintro ⟨r, hr, e₀, h, he⟩
    exact ⟨r, hr, by simpa [h] using he⟩

/-- Adding roots never loses an event. -/
theorem C12_more_roots_more_events (r : Path) (roots : List Path) (hr : r ∈ roots) (wp : Bool) (hint : Option Bool)
    (d : Bool) (p : Path) (e : Ent) (h : e ∈ batchOf [r] wp hint d p) : e ∈ batchOf roots wp hint d p := by
  rw [C12_multi_roots] at h ⊢
  obtain ⟨r', hr', rest⟩ := h
  simp at hr'; subst hr'
  exact ⟨r', hr, rest⟩

/-- A root under which the path does not lie contributes nothing. -/
theorem C12_foreign_root_silent (r : Path) (wp : Bool) (hint : Option Bool) (d : Bool) (p : Path)
    (h : ¬ r <+: p) : batchOf [r] wp hint d p = [] := by
  apply List.eq_nil_iff_forall_not_mem.mpr
  intro e he
  rw [C12_multi_roots] at he
  obtain ⟨r', hr', e₀, hsome, _⟩ := he
  simp at hr'; subst hr'
  rw [C12_outside_none _ _ _ _ h] at hsome
  cases hsome

/-! ## The event-kind table -/

/-- Notification kinds of the statement. -/
inductive NKind | create | modify | rename | delete
  deriving DecidableEq, Repr

/-- The `notify` kind of a notification about an entry of the given kind: a deletion tells what
was deleted (`RemoveKind::Folder` / `RemoveKind::File`, as the inotify and FSEvents back ends
do) — the file system cannot be asked any more. -/
def NKind.ev : NKind → (entryIsDir : Bool) → EvKind
  | .create, _ => .create | .modify, _ => .modifyOther | .rename, _ => .modifyName
  | .delete, true => .removeFolder | .delete, false => .removeFile

/-- Creations, renames and deletions change the parent's listing. -/
def NKind.namesParent : NKind → Bool
  | .modify => false | _ => true

theorem parentId_segs (init : List (List Char)) (l : List Char) (h : ∀ s ∈ init ++ [l], ValidSeg s) :
    parentId (joinDot (init ++ [l])) = some (joinDot init) := by
  have hl := h l (by simp)
  cases init with
  | nil =>
    have : l ≠ [] := hl.1
    simp [parentId, joinDot, this, splitLast_none _ _ hl.2.1]
  | cons i is =>
    have hmerge : joinDot ((i :: is) ++ [l]) = joinDot (i :: is) ++ '.' :: l := by
      have h1 := pushAll_nil ((i :: is) ++ [l]) (fun s hs => (h s hs).1)
      have h2 := pushAll_nil (i :: is) (fun s hs => (h s (by simp at hs ⊢; rcases hs with hs | hs <;> simp [hs])).1)
      rw [← h1, pushAll_concat, h2]
      have : joinDot (i :: is) ≠ [] := by
        have hi := (h i (by simp)).1
        cases is with
        | nil => simpa [joinDot] using hi
        | cons j js => simp [joinDot]
      simp [this]
    rw [hmerge]
    simp [parentId, splitLast_append _ _ _ hl.2.1]

/-- The single message sent for one notified path (connected channel, at least one root). -/
theorem handleEvent_single (r : Path) (w : Bool) (isDir : Path → Bool) (k : EvKind) (p : Path) :
    (handleEvent ⟨[r], w⟩ true isDir k [p]).2 =
      match watchTable k with
      | .ret => []
      | .act wp hint => [batchOf [r] wp hint (isDir p) p] := by
  simp only [handleEvent]
  cases watchTable k with
  | ret => rfl
  | act wp hint => simp [handleEvent]

theorem batchOf_single (r : Path) (wp : Bool) (hint : Option Bool) (d : Bool) (p : Path) :
    batchOf [r] wp hint d p = match idOfPath r p hint d with
      | none => []
      | some e => withParentOf wp e := by
  simp only [batchOf, List.flatMap_cons, List.flatMap_nil, List.append_nil]
  cases idOfPath r p hint d <;> rfl

/-- The message for an entry that `id_of_path` names `e`: the entry and, if asked for, its parent. -/
def msgOf (wp : Bool) (init : List (List Char)) : Option Ent → List Ent
  | none => []
  | some e => e :: (if wp then [.dir (joinDot init)] else [])

/-- **Exact batch** for a notification of each `notify` kind about the path of a valid non-root
entry under a single root, as a function of what the file system says when the event is handled.
Access / Other: nothing. Any / Modify(_) other than a rename: the entry only, with the kind the
file system shows. Create / rename: the entry and its parent directory (`""` for a child of the
root). Remove(File) / Remove(Folder): the entry with the kind the notification gives, and its
parent. Any other Remove: the entry as the file system shows it (a file: it is gone), and its
parent. -/
theorem C12_batch_exact (r : Path) (init l ext?) (hv : ValidNonRoot init l ext?) (isDir : Path → Bool)
    (w : Bool) (k : EvKind) :
    (handleEvent ⟨[r], w⟩ true isDir k [entPath r init l ext?]).2 =
      match k with
      | .access | .other => []
      | .any | .modifyOther => [msgOf false init (seen init l ext? (isDir (entPath r init l ext?)))]
      | .create | .modifyName | .removeOther => [msgOf true init (seen init l ext? (isDir (entPath r init l ext?)))]
      | .removeFile => [msgOf true init (seen init l ext? false)]
      | .removeFolder => [msgOf true init (seen init l ext? true)] := by
  have hpar := parentId_segs init l hv.1
  have key : ∀ (wp : Bool) (hint : Option Bool),
      batchOf [r] wp hint (isDir (entPath r init l ext?)) (entPath r init l ext?) =
        msgOf wp init (seen init l ext? (hint.getD (isDir (entPath r init l ext?)))) := by
    intro wp hint
    rw [batchOf_single, idOfPath_entry r init l ext? hv]
    cases hs : seen init l ext? (hint.getD (isDir (entPath r init l ext?))) with
    | none => rfl
    | some e =>
      have hid : e.id = joinDot (init ++ [l]) := by
        unfold seen at hs
        split at hs
        · split at hs
          · cases hs; rfl
          · cases hs
        · cases hs; rfl
      cases wp <;> simp [msgOf, withParentOf, hid, hpar]
  rw [handleEvent_single]
  cases k <;> simp [watchTable, key]

/-- What the statement demands: one message, naming exactly the entry (with its kind) and, for
creations, renames and deletions, its parent directory (`dir ""` for children of the root). The
file system shows the entry with its kind — or gone, after a deletion, in which case the
notification tells what it was. -/
def C12_table_stmt (nk : NKind) : Prop :=
  ∀ (r : Path) (init : List (List Char)) (l : List Char) (ext? : Option (List Char))
    (isDir : Path → Bool) (w : Bool),
    ValidNonRoot init l ext? →
    isDir (entPath r init l ext?) = (if nk = .delete then false else ext?.isNone) →
    (handleEvent ⟨[r], w⟩ true isDir (nk.ev ext?.isNone) [entPath r init l ext?]).2 =
      [mkEnt init l ext? :: (if nk.namesParent then [Ent.dir (joinDot init)] else [])]

theorem seen_isNone (init l ext?) : seen init l ext? ext?.isNone = some (mkEnt init l ext?) := by
  cases ext? <;> simp [seen, mkEnt, extOf]

/-- **C12_table: full strength, every kind, every depth** (F-C12a: the parent of a child of the
root is the root; F-C12b: a deletion names the entry, with the kind the notification gives;
F-C12c: a rename names the parent). -/
theorem C12_table (nk : NKind) : C12_table_stmt nk := by
  intro r init l ext? isDir w hv hP
  rw [C12_batch_exact r init l ext? hv]
  cases nk with
  | create => simp at hP; simp [NKind.ev, NKind.namesParent, hP, seen_isNone, msgOf]
  | modify => simp at hP; simp [NKind.ev, NKind.namesParent, hP, seen_isNone, msgOf]
  | rename => simp at hP; simp [NKind.ev, NKind.namesParent, hP, seen_isNone, msgOf]
  | delete =>
    cases ext? with
    | none => simp [NKind.ev, NKind.namesParent, msgOf, seen, mkEnt, extOf]
    | some x => simp [NKind.ev, NKind.namesParent, msgOf, seen, mkEnt, extOf]

/-- The statement's corollary in the form "the entry and its parent are named". -/
theorem C12_table_names (nk : NKind) (r : Path) (init l ext?) (isDir : Path → Bool) (w : Bool)
    (hv : ValidNonRoot init l ext?)
    (hP : isDir (entPath r init l ext?) = (if nk = .delete then false else ext?.isNone)) :
    ∃ batch, (handleEvent ⟨[r], w⟩ true isDir (nk.ev ext?.isNone) [entPath r init l ext?]).2 = [batch] ∧
      mkEnt init l ext? ∈ batch ∧ (nk.namesParent = true → Ent.dir (joinDot init) ∈ batch) := by
  refine ⟨_, C12_table nk r init l ext? isDir w hv hP, by simp, ?_⟩
  intro h; simp [h]

example : C12_table_stmt .delete := C12_table .delete

/-- **The root directory itself**: a notification of any translated kind about the root path
names the directory `""` and nothing else (it has no parent). -/
theorem C12_root_events (r : Path) (isDir : Path → Bool) (w : Bool) (k : EvKind)
    (hk : k ≠ .access ∧ k ≠ .other) :
    (handleEvent ⟨[r], w⟩ true isDir k [r]).2 = [[Ent.dir []]] := by
  rw [handleEvent_single]
  cases k <;> simp_all [watchTable, batchOf_single, idOfPath_root, withParentOf, parentId, Ent.id]

/-! ## Inexpressible names (F-C12d) -/

/-- Full strength, path side of "exactly the entry whose `path_of` is that path": whatever
`id_of_path` names for a detour-free path below the root is an entry whose `path_of` is that path.
(`std::path` never yields an empty `Normal` component nor one containing the separator.) -/
def C12_expressible_stmt : Prop :=
  ∀ (r : Path) (segs : List (List Char)) (n : OsName) (hint : Option Bool) (d : Bool) (e : Ent),
    (∀ s ∈ segs, s ≠ [] ∧ '/' ∉ s) → n ≠ [] → OsCh.ch '/' ∉ n →
    idOfPath r (r ++ segs.map N ++ [.normal n]) hint d = some e →
    pathOf r e = some (r ++ segs.map N ++ [.normal n])

theorem mem_ofStr (c : Char) (s : List Char) : OsCh.ch c ∈ ofStr s ↔ c ∈ s := by simp [ofStr]

theorem pathOf_dir_segs (r : Path) (ws : List (List Char)) (hne : ws ≠ []) (h : ∀ w ∈ ws, w ≠ [] ∧ '.' ∉ w ∧ '/' ∉ w) :
    pathOf r (.dir (joinDot ws)) = some (r ++ ws.map N) := by
  have hsl := no_slash_joinDot_of ws (fun s hs => (h s hs).2.2)
  simp only [pathOf, hsl, if_false]
  rw [split_join _ hne (fun w hw => (h w hw).2.1), foldl_pushSeg _ _ (fun w hw => (h w hw).1)]

/-- **C12_expressible** (F-C12d repaired). -/
theorem C12_expressible : C12_expressible_stmt := by
  intro r segs n hint d e hsegs hn hslash hid
  rw [idOfPath_under] at hid
  cases hrun : runComps [] (segs.map N) with
  | none => simp [hrun] at hid
  | some buf =>
    have hdf := dotfree_of_runComps [] buf segs hrun
    rw [runComps_segs _ _ hdf] at hid
    simp only [Option.bind_some] at hid
    have hpushall : ∀ s : List Char, s ≠ [] → '.' ∉ s → push (pushAll [] segs) s = some (joinDot (segs ++ [s])) := by
      intro s hs hd
      apply push_segs segs s ?_ hd
      intro x hx
      rcases List.mem_append.mp hx with h | h
      · exact (hsegs x h).1
      · rw [List.mem_singleton.mp h]; exact hs
    have hws : ∀ s : List Char, s ≠ [] → '.' ∉ s → '/' ∉ s → ∀ w ∈ segs ++ [s], w ≠ [] ∧ '.' ∉ w ∧ '/' ∉ w := by
      intro s hs hd hsl w hw
      rcases List.mem_append.mp hw with h | h
      · exact ⟨(hsegs w h).1, hdf w h, (hsegs w h).2⟩
      · rw [List.mem_singleton.mp h]; exact ⟨hs, hd, hsl⟩
    cases hk : hint.getD d with
    | true =>
      -- a directory: the whole name is the last segment
      simp only [hk, if_true] at hid
      cases hs : toStr? n with
      | none => simp [hs] at hid
      | some s =>
        have hns := toStr?_eq_some n s hs
        have hsne : s ≠ [] := fun e0 => hn (by rw [hns, e0]; rfl)
        have hssl : '/' ∉ s := fun m => hslash (by rw [hns]; exact (mem_ofStr _ _).mpr m)
        simp only [hs, Option.bind_some] at hid
        cases hp : push (pushAll [] segs) s with
        | none => simp [hp] at hid
        | some id =>
          have hsd : '.' ∉ s := by
            intro m; simp [push, m] at hp
          rw [hpushall s hsne hsd] at hid
          simp at hid
          subst hid
          rw [pathOf_dir_segs r (segs ++ [s]) (by simp) (hws s hsne hsd hssl), hns]
          simp [N]
    | false =>
      simp only [hk] at hid
      cases hs : toStr? (splitName n).1 with
      | none => simp [hs] at hid
      | some s =>
        simp only [hs, Option.bind_some] at hid
        cases hp : push (pushAll [] segs) s with
        | none => simp [hp] at hid
        | some id =>
          have hsd : '.' ∉ s := by
            intro m; simp [push, m] at hp
          cases hx : extOfName n with
          | none => simp [hp, hx] at hid
          | some x =>
            have hid0 := hid
            clear hid0
            -- the name is `s` or `s.x`
            have hname : s ≠ [] ∧ '/' ∉ s ∧ '/' ∉ x ∧ n = ofStr s ++ (if x = [] then [] else .ch '.' :: ofStr x) := by
              unfold extOfName at hx
              unfold splitName at hs hx
              cases hsl : splitLast (OsCh.ch '.') n with
              | none =>
                simp only [hsl] at hs hx
                have hns := toStr?_eq_some n s hs
                cases hx
                refine ⟨fun e0 => hn (by rw [hns, e0]; rfl), fun m => hslash (by rw [hns]; exact (mem_ofStr _ _).mpr m), by simp, by simpa using hns⟩
              | some ba =>
                obtain ⟨b, a⟩ := ba
                obtain ⟨hcat, _⟩ := splitLast_eq_some _ _ _ _ hsl
                simp only [hsl] at hs hx
                by_cases hb : b = []
                · simp only [hb, if_true] at hs hx
                  have hns := toStr?_eq_some n s hs
                  cases hx
                  refine ⟨fun e0 => hn (by rw [hns, e0]; rfl), fun m => hslash (by rw [hns]; exact (mem_ofStr _ _).mpr m), by simp, by simpa using hns⟩
                · simp only [hb, if_false] at hs hx
                  have hbs := toStr?_eq_some b s hs
                  by_cases ha : a = []
                  · simp [ha] at hx
                  · simp only [ha, if_false] at hx
                    have hax := toStr?_eq_some a x hx
                    have hxne : x ≠ [] := fun e0 => ha (by rw [hax, e0]; rfl)
                    refine ⟨fun e0 => hb (by rw [hbs, e0]; rfl), ?_, ?_, ?_⟩
                    · intro m; apply hslash; rw [hcat, hbs]; exact List.mem_append_left _ ((mem_ofStr _ _).mpr m)
                    · intro m; apply hslash; rw [hcat, hax]
                      exact List.mem_append_right _ (List.mem_cons_of_mem _ ((mem_ofStr _ _).mpr m))
                    · rw [hcat, hbs, hax]; simp [hxne]
            obtain ⟨hsne, hssl, hxsl, hn_eq⟩ := hname
            rw [hpushall s hsne hsd, hx] at hid
            simp at hid
            subst hid
            have hw := hws s hsne hsd hssl
            have hsl := no_slash_joinDot_of (segs ++ [s]) (fun w hw' => (hw w hw').2.2)
            simp only [pathOf, hsl, hxsl, or_self, if_false]
            rw [split_join _ (by simp) (fun w hw' => (hw w hw').2.1), foldl_pushSeg _ _ (fun w hw' => (hw w hw').1)]
            rw [hn_eq]
            simp [N, setExtension, splitName_plain s hsd]

/-- On the old watcher a directory `a.b` was reported as the directory `a`; now it is not
reported at all (nor is a file `a.`). -/
example : idOfPath [.rootDir, N ['r']] ([.rootDir, N ['r']] ++ [.normal (ofStr ['a', '.', 'b'])]) none true = none ∧
    idOfPath [.rootDir, N ['r']] ([.rootDir, N ['r']] ++ [.normal (ofStr ['a', '.'])]) none false = none := by decide

/-! ## Detours at the event level (F-C12e) -/

/-- Full strength, event level of `C12_dot_components`: a detour `x/..` in the reported path —
also directly before its last component — does not change the events, provided the file system
resolves the detour. -/
def C12_detour_events_stmt : Prop :=
  ∀ (r a : Path) (x : List Char) (n : OsName) (isDir : Path → Bool) (w : Bool) (k : EvKind),
    '.' ∉ x → x ≠ [] →
    isDir (r ++ a ++ [N x, .parentDir] ++ [.normal n]) = isDir (r ++ a ++ [.normal n]) →
    (handleEvent ⟨[r], w⟩ true isDir k [r ++ a ++ [N x, .parentDir] ++ [.normal n]]).2 =
      (handleEvent ⟨[r], w⟩ true isDir k [r ++ a ++ [.normal n]]).2

/-- **C12_detour_events** (F-C12e repaired: the parent directory is the one of the entry's id,
not `Path::parent()` of the notified path). -/
theorem C12_detour_events : C12_detour_events_stmt := by
  intro r a x n isDir w k hx hne hd
  rw [handleEvent_single, handleEvent_single]
  cases watchTable k with
  | ret => rfl
  | act wp hint =>
    simp only [batchOf_single, hd]
    have := C12_dot_components_updown r a [] x (.normal n) hint (isDir (r ++ a ++ [.normal n])) hx hne
    simp only [List.append_nil] at this
    rw [show r ++ a ++ [N x, .parentDir] ++ [Comp.normal n] = r ++ (a ++ [N x, .parentDir]) ++ [Comp.normal n] by simp,
      this, show r ++ a ++ [Comp.normal n] = r ++ a ++ [Comp.normal n] from rfl]

example : (handleEvent ⟨[[.rootDir, N ['r']]], true⟩ true (fun _ => false) .create
      [[.rootDir, N ['r'], N ['d'], N ['z'], .parentDir, .normal (ofStr ['f'])]]).2 =
    [[.file ['d', '.', 'f'] [], .dir ['d']]] := by decide

/-! ## The tables the theorems rest on, as regenerated from the source -/

/-- The loop of `id_of_path` iterates over the *parent* of the path stripped of the root, its
component table is the one transcribed in `compStep`, and the statements around the loop have the
repaired shape. -/
theorem C12_loop_shape : idLoopOverStrippedParent = true ∧
    compTable .normal = .push ∧ compTable .parentDir = .pop ∧ compTable .curDir = .skip ∧
    compTable .rootDir = .fail ∧ compTable .pfx = .fail ∧
    idShape = ⟨true, true, .whole, .stem, true⟩ := by decide

/-- Access and Other notifications are ignored; every other kind is translated. -/
theorem C12_ignored_kinds (k : EvKind) : watchTable k = .ret ↔ (k = .access ∨ k = .other) := by
  cases k <;> simp [watchTable]

/-- The kind table: which notifications name the parent directory too, and which tell the kind of
the entry themselves. -/
theorem C12_kind_table : watchTable .create = .act true none ∧ watchTable .modifyName = .act true none ∧
    watchTable .modifyOther = .act false none ∧ watchTable .any = .act false none ∧
    watchTable .removeFile = .act true (some false) ∧ watchTable .removeFolder = .act true (some true) ∧
    watchTable .removeOther = .act true none := by decide

end AmVerif.Props.C12
