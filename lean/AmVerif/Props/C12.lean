import AmVerif.Lemmas.Watch
/-!
# C12 — filesystem notifications name the right entries (inverse of `path_of`)

Everything is about `AmVerif.Model.Watch` — the definitions the driver `amdrv` executes — whose
decision tables `Gen.watchTable` / `Gen.compTable` are regenerated from
`src/hot_reloading/watcher.rs` on every run.

Full-strength statements that the current code falsifies are kept as `def …_stmt : Prop`, refuted by
a kernel-checked witness (`F_C12…`), and accompanied by `_partial` / exact-batch theorems.
-/
namespace AmVerif.Props.C12
open AmVerif.Gen AmVerif.Model.Watch

/-! ## Valid entries -/

/-- A valid id segment / file name stem: non-empty, no dot, no path separator. -/
def ValidSeg (s : List Char) : Prop := s ≠ [] ∧ '.' ∉ s ∧ '/' ∉ s

def ValidExt (x : List Char) : Prop := '.' ∉ x ∧ '/' ∉ x

/-- The entry with parent segments `init`, own name `l`, and extension `ext?` (`none`: a directory). -/
def mkEnt (init : List (List Char)) (l : List Char) : Option (List Char) → Ent
  | none => .dir (joinDot (init ++ [l]))
  | some x => .file (joinDot (init ++ [l])) x

def ValidNonRoot (init : List (List Char)) (l : List Char) (ext? : Option (List Char)) : Prop :=
  (∀ s ∈ init ++ [l], ValidSeg s) ∧ ∀ x, ext? = some x → ValidExt x

/-- Valid entries: the root directory, and every directory / file all of whose segments (and
extension) are valid. No bound on depth or lengths. -/
inductive ValidEnt : Ent → Prop
  | root : ValidEnt (.dir [])
  | nonroot (init l ext?) (h : ValidNonRoot init l ext?) : ValidEnt (mkEnt init l ext?)

/-- File name of the entry's last component. -/
def nameOf (l : List Char) : Option (List Char) → OsName
  | none => ofStr l
  | some x => ofStr l ++ (if x = [] then [] else .ch '.' :: ofStr x)

/-- The path of a non-root entry below `r`. -/
def entPath (r : Path) (init : List (List Char)) (l : List Char) (ext? : Option (List Char)) : Path :=
  r ++ init.map N ++ [.normal (nameOf l ext?)]

def extOf : Option (List Char) → List Char
  | none => []
  | some x => x

/-- What `id_of_path` says about the entry's path when the file system answers `is_dir = d`. -/
def seen (init : List (List Char)) (l : List Char) (ext? : Option (List Char)) (d : Bool) : Ent :=
  if d then .dir (joinDot (init ++ [l])) else .file (joinDot (init ++ [l])) (extOf ext?)

theorem slash_ne_dot : ('/' : Char) ≠ '.' := by decide

theorem no_slash_joinDot (segs : List (List Char)) (h : ∀ s ∈ segs, ValidSeg s) : '/' ∉ joinDot segs := by
  intro m
  rcases mem_joinDot _ _ m with e | ⟨s, hs, hc⟩
  · exact slash_ne_dot e
  · exact (h s hs).2.2 hc

theorem splitName_nameOf (l : List Char) (ext? : Option (List Char)) (hl : ValidSeg l)
    (hx : ∀ x, ext? = some x → ValidExt x) :
    (splitName (nameOf l ext?)).1 = ofStr l ∧ extensionOf (nameOf l ext?) = some (extOf ext?) := by
  cases ext? with
  | none => simp [nameOf, extOf, extensionOf, splitName_plain l hl.2.1]
  | some x =>
    by_cases hx0 : x = []
    · subst hx0; simp [nameOf, extOf, extensionOf, splitName_plain l hl.2.1]
    · simp [nameOf, extOf, extensionOf, hx0, splitName_ext l x hl.1 (hx x rfl).1, toStr?_ofStr]

/-- `path_of_entry` of a valid non-root entry, computed. -/
theorem pathOf_mk (r : Path) (init l ext?) (h : ValidNonRoot init l ext?) :
    pathOf r (mkEnt init l ext?) = some (entPath r init l ext?) := by
  have hdot : ∀ w ∈ init ++ [l], '.' ∉ w := fun w hw => (h.1 w hw).2.1
  have hne : ∀ w ∈ init ++ [l], w ≠ [] := fun w hw => (h.1 w hw).1
  have hsl := no_slash_joinDot _ h.1
  have hl : ValidSeg l := h.1 l (by simp)
  cases ext? with
  | none =>
    simp only [mkEnt, pathOf, hsl, if_false]
    rw [split_join _ (by simp) hdot, foldl_pushSeg _ _ hne]
    simp [entPath, nameOf, N]
  | some x =>
    have hx := (h.2 x rfl)
    simp only [mkEnt, pathOf, hsl, hx.2, or_self, if_false]
    rw [split_join _ (by simp) hdot, foldl_pushSeg _ _ hne]
    simp [entPath, nameOf, N, setExtension, splitName_plain l hl.2.1]

/-- `id_of_path` on the path of a valid non-root entry, whatever the file system says it is. -/
theorem idOfPath_entry (r : Path) (init l ext?) (h : ValidNonRoot init l ext?) (d : Bool) :
    idOfPath r (entPath r init l ext?) d = some (seen init l ext? d) := by
  have hl : ValidSeg l := h.1 l (by simp)
  have hinit : ∀ s ∈ init, '.' ∉ s := fun s hs => (h.1 s (by simp [hs])).2.1
  have hne : ∀ w ∈ init ++ [l], w ≠ [] := fun w hw => (h.1 w hw).1
  obtain ⟨hstem, hext⟩ := splitName_nameOf l ext? hl h.2
  unfold entPath
  rw [idOfPath_under, runComps_segs _ _ hinit, hstem, toStr?_ofStr, hext]
  have hpush : push (pushAll [] init) l = some (joinDot (init ++ [l])) := by
    rw [← pushAll_nil _ hne, pushAll_concat]
    simp [push, hl.2.1]
  simp [hpush, seen]
  cases d <;> rfl

/-! ## Round trip and injectivity -/

/-- **C12_roundtrip.** Under every root, `id_of_path` inverts `path_of` on every valid entry other
than the root directory itself (any depth, with or without extension). -/
theorem C12_roundtrip (r : Path) (e : Ent) (h : ValidEnt e) (hne : e ≠ .dir []) :
    ∃ p, pathOf r e = some p ∧ idOfPath r p e.isDir = some e := by
  cases h with
  | root => exact absurd rfl hne
  | nonroot init l ext? hv =>
    refine ⟨_, pathOf_mk r init l ext? hv, ?_⟩
    rw [idOfPath_entry r init l ext? hv]
    cases ext? <;> simp [mkEnt, seen, Ent.isDir, extOf]

example : ValidEnt (mkEnt [['d']] ['f'] (some ['t', 'x', 't'])) :=
  .nonroot _ _ _ ⟨by simp [ValidSeg], by simp [ValidExt]⟩

theorem pathOf_root (r : Path) : pathOf r (.dir []) = some r := by
  simp [pathOf, splitDot, pushSeg]

/-- **C12_injective.** Two valid files, or two valid directories, with the same path under one root
are the same entry. (A file without extension and a directory *can* share a path.) -/
theorem C12_injective (r p : Path) (e₁ e₂ : Ent) (h₁ : ValidEnt e₁) (h₂ : ValidEnt e₂)
    (hk : e₁.isDir = e₂.isDir) (hp₁ : pathOf r e₁ = some p) (hp₂ : pathOf r e₂ = some p) : e₁ = e₂ := by
  have len_ne : ∀ init l ext?, ValidNonRoot init l ext? → pathOf r (mkEnt init l ext?) = some p →
      pathOf r (.dir []) = some p → False := by
    intro init l ext? hv ha hb
    rw [pathOf_mk r init l ext? hv] at ha
    rw [pathOf_root] at hb
    have := congrArg List.length (Option.some.inj (ha.trans hb.symm))
    simp [entPath] at this
  cases h₁ with
  | root =>
    cases h₂ with
    | root => rfl
    | nonroot init l ext? hv => exact absurd hp₁ (fun h => len_ne init l ext? hv hp₂ h)
  | nonroot init l ext? hv =>
    cases h₂ with
    | root => exact absurd hp₂ (fun h => len_ne init l ext? hv hp₁ h)
    | nonroot init' l' ext?' hv' =>
      rw [pathOf_mk r init l ext? hv] at hp₁
      rw [pathOf_mk r init' l' ext?' hv'] at hp₂
      have e1 := idOfPath_entry r init l ext? hv (mkEnt init l ext?).isDir
      have e2 := idOfPath_entry r init' l' ext?' hv' (mkEnt init l ext?).isDir
      rw [Option.some.inj hp₁] at e1
      rw [Option.some.inj hp₂] at e2
      have hs := Option.some.inj (e1.symm.trans e2)
      cases ext? <;> cases ext?' <;> simp_all [mkEnt, seen, Ent.isDir, extOf]

/-! ## The root directory (F-C12a) -/

/-- No path is reported for the root itself: `id_of_path(root, root)` is `None` for every root. -/
theorem C12_root_never (r : Path) (d : Bool) : idOfPath r r d = none := by
  unfold idOfPath
  cases h : parentOf r with
  | none => rfl
  | some q =>
    cases h2 : stripPrefix r q with
    | none => simp [h2]
    | some x =>
      exfalso
      obtain ⟨c, hc⟩ := parentOf_eq_some h
      have h3 := congrArg List.length (stripPrefix_eq_some h2)
      have h4 := congrArg List.length hc
      simp at h3 h4
      omega

/-- Full strength: the root directory is the directory with the empty id. -/
def C12_root_stmt : Prop := ∀ r : Path, idOfPath r r true = some (.dir [])

/-- F-C12a at model level: false for *every* root. -/
theorem F_C12a_root_witness : ¬ C12_root_stmt := by
  intro h
  have := h [.rootDir, N ['r']]
  rw [C12_root_never] at this
  cases this

/-! ## Detours, foreign paths, inexpressible names -/

theorem idOfPath_nonnormal (r q : Path) (c : Comp) (d : Bool) (hc : ∀ n, c ≠ .normal n) :
    idOfPath r (q ++ [c]) d = none := by
  unfold idOfPath
  have : fileName (q ++ [c]) = none := by
    cases c <;> simp_all [fileName]
  cases parentOf (q ++ [c]) with
  | none => rfl
  | some p =>
    cases h2 : stripPrefix r p with
    | none => simp [h2]
    | some rel => cases runComps [] rel <;> simp [this]

theorem idOfPath_congr_rel (r rel rel' : Path) (c : Comp) (d : Bool)
    (h : runComps [] rel = runComps [] rel') :
    idOfPath r (r ++ rel ++ [c]) d = idOfPath r (r ++ rel' ++ [c]) d := by
  by_cases hc : ∃ n, c = .normal n
  · obtain ⟨n, rfl⟩ := hc
    rw [idOfPath_under, idOfPath_under, h]
  · have hc' : ∀ n, c ≠ .normal n := fun n e => hc ⟨n, e⟩
    rw [idOfPath_nonnormal _ _ _ _ hc', idOfPath_nonnormal _ _ _ _ hc']

/-- **C12_dot_components (`.`).** A `.` component anywhere below the root and before the last
component does not change the result. -/
theorem C12_dot_components_cur (r a b : Path) (c : Comp) (d : Bool) :
    idOfPath r (r ++ (a ++ [.curDir] ++ b) ++ [c]) d = idOfPath r (r ++ (a ++ b) ++ [c]) d := by
  apply idOfPath_congr_rel
  simp [runComps_append, runComps, compStep_cur]

/-- **C12_dot_components (`x/..`).** A detour through any directory name the builder accepts,
anywhere below the root and before the last component, does not change the result. -/
theorem C12_dot_components_updown (r a b : Path) (x : List Char) (c : Comp) (d : Bool)
    (hx : '.' ∉ x) (hne : x ≠ []) :
    idOfPath r (r ++ (a ++ [N x, .parentDir] ++ b) ++ [c]) d = idOfPath r (r ++ (a ++ b) ++ [c]) d := by
  apply idOfPath_congr_rel
  have key : ∀ b1 : Buf, runComps b1 [N x, .parentDir] = some b1 := by
    intro b1
    have hp : push b1 x = some (if b1 = [] then x else b1 ++ '.' :: x) := by simp [push, hx]
    simp [runComps, compStep_N, compStep_parent, hp, pop_push b1 x _ hx hne hp]
  rw [List.append_assoc a, runComps_append, runComps_append]
  cases runComps [] a with
  | none => rfl
  | some b1 =>
    simp only [Option.bind_some]
    rw [runComps_append, key]; rfl

example : idOfPath [.rootDir, N ['r']] ([.rootDir, N ['r']] ++ ([N ['a']] ++ [N ['z'], .parentDir] ++ [N ['b']]) ++ [N ['f']]) false
    = idOfPath [.rootDir, N ['r']] ([.rootDir, N ['r']] ++ ([N ['a']] ++ [N ['b']]) ++ [N ['f']]) false :=
  C12_dot_components_updown _ _ _ _ _ _ (by decide) (by decide)

/-- **C12_outside_none (foreign path).** A path that does not lie under the root yields nothing. -/
theorem C12_outside_none (r p : Path) (d : Bool) (h : ¬ r <+: p) : idOfPath r p d = none := by
  unfold idOfPath
  cases h1 : parentOf p with
  | none => rfl
  | some q =>
    cases h2 : stripPrefix r q with
    | none => simp [h2]
    | some x =>
      exfalso
      obtain ⟨c, hc⟩ := parentOf_eq_some h1
      apply h
      refine ⟨x ++ [c], ?_⟩
      rw [hc, stripPrefix_eq_some h2, List.append_assoc]

/-- A component the id builder cannot take: a prefix / root component below the root, a name that
is not UTF-8, or a name containing a dot. -/
def BadComp : Comp → Prop
  | .pfx | .rootDir => True
  | .normal n => ∀ s, toStr? n = some s → '.' ∈ s
  | _ => False

theorem compStep_bad (c : Comp) (h : BadComp c) (b : Buf) : compStep b c = none := by
  cases c with
  | pfx => simp [compStep, Comp.kind, compTable]
  | rootDir => simp [compStep, Comp.kind, compTable]
  | curDir => cases h
  | parentDir => cases h
  | normal n =>
    simp only [compStep, Comp.kind, compTable]
    cases hs : toStr? n with
    | none => rfl
    | some s => simp [push, h s hs]

/-- **C12_outside_none (inexpressible directory).** A non-UTF-8 or dotted component between the
root and the last component yields nothing, whatever follows it. -/
theorem C12_bad_component_none (r rel : Path) (c last : Comp) (d : Bool) (hc : c ∈ rel) (hbad : BadComp c) :
    idOfPath r (r ++ rel ++ [last]) d = none := by
  by_cases hl : ∃ n, last = .normal n
  · obtain ⟨n, rfl⟩ := hl
    rw [idOfPath_under, runComps_none_of_mem [] rel c hc (compStep_bad c hbad)]
    rfl
  · exact idOfPath_nonnormal _ _ _ _ (fun n e => hl ⟨n, e⟩)

/-- **C12_outside_none (inexpressible name).** A last component whose stem is not UTF-8 or still
contains a dot (`a.b.c`, `.hidden`) yields nothing. -/
theorem C12_bad_last_none (r q : Path) (n : OsName) (d : Bool)
    (h : ∀ s, toStr? (splitName n).1 = some s → '.' ∈ s) : idOfPath r (q ++ [.normal n]) d = none := by
  unfold idOfPath
  rw [parentOf_concat_normal, fileName_concat_normal]
  simp only [Option.bind_some]
  cases h2 : stripPrefix r q with
  | none => rfl
  | some rel =>
    cases h3 : runComps [] rel with
    | none => simp [h3]
    | some buf =>
      cases hs : toStr? (splitName n).1 with
      | none => simp
      | some s => simp [push, h s hs]

example : BadComp (.normal [.ch 'a', .bad 255]) := by simp [BadComp, toStr?]
example : BadComp (.normal (ofStr ['a', '.', 'b'])) := by
  intro s hs; rw [toStr?_ofStr] at hs; cases hs; decide

/-! ## The handler keeps its watcher -/

/-- **C12_handler_survives.** While the channel is connected, no event — whatever its kind and
however un-mappable its paths — changes the handler: it keeps its watcher and its roots. -/
theorem C12_handler_survives (h : Handler) (isDir : Path → Bool) (k : EvKind) (ps : List Path) :
    (handleEvent h true isDir k ps).1 = h := by
  induction ps with
  | nil => rfl
  | cons p ps ih =>
    simp only [handleEvent]
    cases eventPaths k p with
    | none => rfl
    | some es => cases es <;> simp [ih]

/-- The watcher is dropped only by a failed send (disconnected channel). -/
theorem C12_watcher_dropped_only_disconnected (h : Handler) (c : Bool) (isDir : Path → Bool) (k : EvKind)
    (ps : List Path) (hd : (handleEvent h c isDir k ps).1.hasWatcher = false) :
    h.hasWatcher = false ∨ c = false := by
  cases c with
  | false => right; rfl
  | true => left; rw [C12_handler_survives] at hd; exact hd

/-! ## Several roots -/

/-- **C12_multi_roots.** What a batch contains: exactly the translations of the expanded paths
under each root. -/
theorem C12_multi_roots (roots : List Path) (isDir : Path → Bool) (ps : List Path) (e : Ent) :
    e ∈ batchOf roots isDir ps ↔ ∃ p ∈ ps, ∃ r ∈ roots, idOfPath r p (isDir p) = some e := by
  simp [batchOf, List.mem_flatMap, List.mem_filterMap]

/-- Adding roots never loses an event. -/
theorem C12_more_roots_more_events (r : Path) (roots : List Path) (hr : r ∈ roots) (isDir : Path → Bool)
    (ps : List Path) (e : Ent) (h : e ∈ batchOf [r] isDir ps) : e ∈ batchOf roots isDir ps := by
  rw [C12_multi_roots] at h ⊢
  obtain ⟨p, hp, r', hr', he⟩ := h
  simp at hr'; subst hr'
  exact ⟨p, hp, r', hr, he⟩

/-- A root under which the path does not lie contributes nothing. -/
theorem C12_foreign_root_silent (r : Path) (isDir : Path → Bool) (ps : List Path)
    (h : ∀ p ∈ ps, ¬ r <+: p) : batchOf [r] isDir ps = [] := by
  apply List.eq_nil_iff_forall_not_mem.mpr
  intro e he
  rw [C12_multi_roots] at he
  obtain ⟨p, hp, r', hr', hsome⟩ := he
  simp at hr'; subst hr'
  rw [C12_outside_none _ _ _ (h p hp)] at hsome
  cases hsome

/-! ## The event-kind table -/

/-- Notification kinds of the statement. -/
inductive NKind | create | modify | rename | delete
  deriving DecidableEq, Repr

def NKind.ev : NKind → EvKind
  | .create => .create | .modify => .modifyOther | .rename => .modifyName | .delete => .remove

/-- Creations, renames and deletions change the parent's listing. -/
def NKind.namesParent : NKind → Bool
  | .modify => false | _ => true

/-- The parent directory as the file system shows it when `is_dir = d`. -/
def parentSeen (init : List (List Char)) (d : Bool) : List Ent :=
  if init = [] then [] else [if d then .dir (joinDot init) else .file (joinDot init) []]

theorem idOfPath_parent (r : Path) (init : List (List Char)) (h : ∀ s ∈ init, ValidSeg s) (d : Bool) :
    (idOfPath r (r ++ init.map N) d).toList = parentSeen init d := by
  rcases List.eq_nil_or_concat init with rfl | ⟨i', l', hil⟩
  · simp [parentSeen, C12_root_never]
  · rw [List.concat_eq_append] at hil; subst hil
    have hv : ValidNonRoot i' l' none := ⟨h, by simp⟩
    have := idOfPath_entry r i' l' none hv d
    simp only [entPath, nameOf] at this
    have e : r ++ (i' ++ [l']).map N = r ++ i'.map N ++ [.normal (ofStr l')] := by simp [N]
    rw [e, this]
    simp [parentSeen, seen, extOf]

/-- The single message sent for one notified path (connected channel). -/
theorem handleEvent_single (h : Handler) (isDir : Path → Bool) (k : EvKind) (p : Path) :
    (handleEvent h true isDir k [p]).2 =
      match eventPaths k p with
      | none => []
      | some [] => []
      | some (e :: es) => [batchOf h.roots isDir (e :: es)] := by
  simp only [handleEvent]
  cases eventPaths k p with
  | none => rfl
  | some es => cases es <;> rfl

theorem batchOf_single (r : Path) (isDir : Path → Bool) (ps : List Path) :
    batchOf [r] isDir ps = ps.flatMap fun p => (idOfPath r p (isDir p)).toList := by
  unfold batchOf
  congr 1

/-- **Exact batch** for a notification of each `notify` kind about a valid non-root entry under a
single root, as a function of what the file system says when the event is handled. Access / Other:
nothing. Any / Modify(_) (renames included): the entry only. Create: the entry and — unless the
entry is a child of the root — its parent. Remove: the parent only, nothing at all for a child of
the root. -/
theorem C12_batch_exact (r : Path) (init l ext?) (hv : ValidNonRoot init l ext?) (isDir : Path → Bool)
    (w : Bool) (k : EvKind) :
    (handleEvent ⟨[r], w⟩ true isDir k [entPath r init l ext?]).2 =
      match k with
      | .access | .other => []
      | .any | .modifyName | .modifyOther => [[seen init l ext? (isDir (entPath r init l ext?))]]
      | .create => [seen init l ext? (isDir (entPath r init l ext?)) :: parentSeen init (isDir (r ++ init.map N))]
      | .remove => [parentSeen init (isDir (r ++ init.map N))] := by
  have hinit : ∀ s ∈ init, ValidSeg s := fun s hs => hv.1 s (by simp [hs])
  have hP := idOfPath_entry r init l ext? hv (isDir (entPath r init l ext?))
  have hQ := idOfPath_parent r init hinit (isDir (r ++ init.map N))
  have hpar : parentOf (entPath r init l ext?) = some (r ++ init.map N) := parentOf_concat_normal _ _
  rw [handleEvent_single]
  cases k <;>
    simp [eventPaths, watchTable, hpar, sel, batchOf_single, hP, hQ]

/-- What the statement demands: one message, naming the entry (with its kind) and, for creations,
renames and deletions, its parent directory (`dir ""` for children of the root). The file system
shows the parent as a directory and the entry with its kind — or gone, after a deletion. -/
def C12_table_stmt (nk : NKind) : Prop :=
  ∀ (r : Path) (init : List (List Char)) (l : List Char) (ext? : Option (List Char))
    (isDir : Path → Bool) (w : Bool),
    ValidNonRoot init l ext? →
    isDir (r ++ init.map N) = true →
    isDir (entPath r init l ext?) = (if nk = .delete then false else ext?.isNone) →
    ∃ batch, (handleEvent ⟨[r], w⟩ true isDir nk.ev [entPath r init l ext?]).2 = [batch] ∧
      mkEnt init l ext? ∈ batch ∧ (nk.namesParent = true → Ent.dir (joinDot init) ∈ batch)

theorem seen_kind (init l ext?) : seen init l ext? ext?.isNone = mkEnt init l ext? := by
  cases ext? <;> simp [seen, mkEnt, extOf]

/-- **C12_table, modifications: full strength, any depth.** -/
theorem C12_table_modify : C12_table_stmt .modify := by
  intro r init l ext? isDir w hv _ hP
  refine ⟨[mkEnt init l ext?], ?_, by simp, by simp [NKind.namesParent]⟩
  rw [NKind.ev, C12_batch_exact r init l ext? hv]
  simp at hP
  simp [hP, seen_kind]

/-- Executable side condition of the partial theorem: the depths / kinds at which the current
table meets the statement (`depth` = number of segments of the id; 1 = child of the root). -/
def tableH (nk : NKind) (depth : Nat) : Bool :=
  match nk with
  | .modify => true
  | .create => decide (depth ≥ 2)
  | .rename => false
  | .delete => false

/-- **C12_table_partial.** Modifications at any depth; creations from depth 2 on. -/
theorem C12_table_partial (nk : NKind) (r : Path) (init l ext?) (isDir : Path → Bool) (w : Bool)
    (hH : tableH nk (init.length + 1) = true)
    (hv : ValidNonRoot init l ext?) (hQ : isDir (r ++ init.map N) = true)
    (hP : isDir (entPath r init l ext?) = (if nk = .delete then false else ext?.isNone)) :
    ∃ batch, (handleEvent ⟨[r], w⟩ true isDir nk.ev [entPath r init l ext?]).2 = [batch] ∧
      mkEnt init l ext? ∈ batch ∧ (nk.namesParent = true → Ent.dir (joinDot init) ∈ batch) := by
  cases nk with
  | modify => exact C12_table_modify r init l ext? isDir w hv hQ hP
  | rename => simp [tableH] at hH
  | delete => simp [tableH] at hH
  | create =>
    have hne : init ≠ [] := by
      intro e; subst e; simp [tableH] at hH
    refine ⟨_, by rw [NKind.ev, C12_batch_exact r init l ext? hv], ?_, ?_⟩
    · simp at hP; simp [hP, seen_kind]
    · intro _; simp [parentSeen, hne, hQ]

example : tableH .create ([['d']].length + 1) = true := by decide

/-- **Deletions, partial.** From depth 2 on the parent directory (and nothing else) is named. -/
theorem C12_delete_parent_partial (r : Path) (init l ext?) (isDir : Path → Bool) (w : Bool)
    (hne : init ≠ []) (hv : ValidNonRoot init l ext?) (hQ : isDir (r ++ init.map N) = true) :
    (handleEvent ⟨[r], w⟩ true isDir .remove [entPath r init l ext?]).2 = [[Ent.dir (joinDot init)]] := by
  rw [C12_batch_exact r init l ext? hv]
  simp [parentSeen, hne, hQ]

/-- **Renames, partial.** The renamed entry itself (and nothing else) is named. -/
theorem C12_rename_entry_partial (r : Path) (init l ext?) (isDir : Path → Bool) (w : Bool)
    (hv : ValidNonRoot init l ext?) (hP : isDir (entPath r init l ext?) = ext?.isNone) :
    (handleEvent ⟨[r], w⟩ true isDir .modifyName [entPath r init l ext?]).2 = [[mkEnt init l ext?]] := by
  rw [C12_batch_exact r init l ext? hv]
  simp [hP, seen_kind]

/-! ### Refutations of the full-strength table on the current code -/

def wRoot : Path := [.rootDir, N ['r']]
def wTxt : Option (List Char) := some ['t', 'x', 't']

theorem wValidTop : ValidNonRoot [] ['f'] wTxt := ⟨by simp [ValidSeg], by simp [wTxt, ValidExt]⟩
theorem wValidNested : ValidNonRoot [['d']] ['f'] wTxt := ⟨by simp [ValidSeg], by simp [wTxt, ValidExt]⟩

/-- The file system of the witnesses: `/r` and `/r/d` are directories, nothing else is. -/
def wFs (p : Path) : Bool := p = wRoot ∨ p = wRoot ++ [N ['d']]

/-- **F-C12a** (root never notified): creating `/r/f.txt` names `f.txt` only — the root directory,
whose listing changed, is not named. -/
theorem F_C12a_create_witness : ¬ C12_table_stmt .create := by
  intro h
  obtain ⟨batch, hb, _, hpar⟩ := h wRoot [] ['f'] wTxt wFs true wValidTop (by simp [wFs]) (by
    simp [wFs, entPath, wRoot, wTxt, nameOf, N, ofStr])
  rw [NKind.ev, C12_batch_exact _ _ _ _ wValidTop] at hb
  simp [parentSeen] at hb
  subst hb
  have := hpar rfl
  simp [seen, joinDot] at this
  split at this <;> simp at this

/-- **F-C12b** (delete names the parent only): deleting `/r/d/f.txt` names `d` but not `d.f`. -/
theorem F_C12b_delete_witness : ¬ C12_table_stmt .delete := by
  intro h
  obtain ⟨batch, hb, hent, _⟩ := h wRoot [['d']] ['f'] wTxt wFs true wValidNested (by simp [wFs, N]) (by
    simp [wFs, entPath, wRoot, wTxt, nameOf, N, ofStr])
  rw [NKind.ev, C12_delete_parent_partial _ _ _ _ _ _ (by simp) wValidNested (by simp [wFs, N])] at hb
  simp at hb
  subst hb
  simp [mkEnt, wTxt] at hent

/-- **F-C12c** (rename = `Modify(Name)` does not name the parent): renaming something to
`/r/d/f.txt` names `d.f` but not `d`. -/
theorem F_C12c_rename_witness : ¬ C12_table_stmt .rename := by
  intro h
  obtain ⟨batch, hb, _, hpar⟩ := h wRoot [['d']] ['f'] wTxt wFs true wValidNested (by simp [wFs, N]) (by
    simp [wFs, entPath, wRoot, wTxt, nameOf, N, ofStr])
  rw [NKind.ev, C12_rename_entry_partial _ _ _ _ _ _ wValidNested (by
    simp [wFs, entPath, wRoot, wTxt, nameOf, N, ofStr])] at hb
  simp at hb
  subst hb
  have := hpar rfl
  simp [mkEnt, wTxt] at this

/-! ## Two further candidate findings met while building the check (not in DESIGN §9) -/

/-- Full strength, path side of "exactly the entry whose `path_of` is that path": whatever
`id_of_path` names for a detour-free path below the root is an entry whose `path_of` is that path. -/
def C12_expressible_stmt : Prop :=
  ∀ (r : Path) (segs : List (List Char)) (n : OsName) (d : Bool) (e : Ent),
    idOfPath r (r ++ segs.map N ++ [.normal n]) d = some e →
    pathOf r e = some (r ++ segs.map N ++ [.normal n])

/-- **F-C12d** (candidate): a *directory* called `a.b` is reported as the directory `a`
(`file_stem` is applied to directories too); likewise a file `a.` is reported as `a`. -/
theorem F_C12d_dotted_dir_witness : ¬ C12_expressible_stmt := by
  intro h
  have := h wRoot [] (ofStr ['a', '.', 'b']) true (.dir ['a']) (by decide)
  revert this; decide

/-- … it does hold for the paths of valid entries (executable side condition: `ValidNonRoot`). -/
theorem C12_expressible_partial (r : Path) (init l ext?) (e : Ent) (hv : ValidNonRoot init l ext?)
    (h : idOfPath r (entPath r init l ext?) ext?.isNone = some e) :
    e = mkEnt init l ext? ∧ pathOf r e = some (entPath r init l ext?) := by
  rw [idOfPath_entry r init l ext? hv, seen_kind] at h
  cases h
  exact ⟨rfl, pathOf_mk r init l ext? hv⟩

/-- Full strength, event level of `C12_dot_components`: a detour `x/..` in the reported path does
not change the events, provided the file system resolves the detour. -/
def C12_detour_events_stmt : Prop :=
  ∀ (r a : Path) (x : List Char) (n : OsName) (isDir : Path → Bool) (w : Bool) (k : EvKind),
    '.' ∉ x → x ≠ [] →
    isDir (r ++ a ++ [N x, .parentDir]) = isDir (r ++ a) →
    isDir (r ++ a ++ [N x, .parentDir] ++ [.normal n]) = isDir (r ++ a ++ [.normal n]) →
    (handleEvent ⟨[r], w⟩ true isDir k [r ++ a ++ [N x, .parentDir] ++ [.normal n]]).2 =
      (handleEvent ⟨[r], w⟩ true isDir k [r ++ a ++ [.normal n]]).2

/-- **F-C12e** (candidate): when the detour sits directly before the last component
(`/r/d/z/../f`), the *parent* handed to `id_of_path` ends in `..`, has no file stem, and is not
named: a creation there names `d.f` only, whereas `/r/d/f` names `d.f` and `d`. The single-path
level (`C12_dot_components_updown`) is unaffected. -/
theorem F_C12e_detour_parent_witness : ¬ C12_detour_events_stmt := by
  intro h
  have := h wRoot [N ['d']] ['z'] (ofStr ['f']) (fun _ => true) true .create (by decide) (by decide) rfl rfl
  revert this; decide

/-! ## The tables the theorems rest on, as regenerated from the source -/

/-- The loop of `id_of_path` iterates over the *parent* of the path stripped of the root, and its
component table is the one transcribed in `compStep`. -/
theorem C12_loop_shape : idLoopOverStrippedParent = true ∧
    compTable .normal = .push ∧ compTable .parentDir = .pop ∧ compTable .curDir = .skip ∧
    compTable .rootDir = .fail ∧ compTable .pfx = .fail := by decide

/-- Access and Other notifications are ignored; every other kind is translated. -/
theorem C12_ignored_kinds (k : EvKind) : watchTable k = .ret ↔ (k = .access ∨ k = .other) := by
  cases k <;> simp [watchTable]

end AmVerif.Props.C12
