import AmVerif.Gen.Skel
import AmVerif.Lemmas.Reload
import AmVerif.Lemmas.TopoGraph
import AmVerif.Props.C18
/-!
# C06 — reloads are precise and every one is reported exactly once

Bookkeeping half of the property, over the sequential model of the reloader (`Model/Reload.lean`):

* a `reload_untyped` either writes its own key's dynamic cell exactly once — new value, reload id
  `+1` (`AtomicReloadId::increment`, regenerated), global flag set — after a *successful* evaluation
  of the loader, or leaves every existing cell alone (`C06_write_increments`);
* through every pass a reload id never decreases, and a cell that differs in any way from what it
  was has a strictly larger id and its global flag set (`C06_rid_only_grows`): a rewrite is always
  reported, and nothing is reported without a rewrite;
* with a duplicate-free update list each id grows by at most one per pass (`C06_at_most_once`; the
  `Nodup` of `topo`'s result is the named hypothesis `hnd`, proved by the graph theorems of C05);
* only listed keys are touched (`C06_only_listed_written`), nothing at all happens without
  events (`C06_no_event_no_write`), events for unknown entries are dropped;
* static entries show `NEVER` forever (`C06_static_rid_never`);
* a `ReloadWatcher` / `reloaded_global` answers `true` exactly when the id grew / a write happened
  since it was last asked (`C06_watcher_exact`, `C06_global_exact`);
* `UntypedEntry::write` increments inside the write-lock scope, after the swap (`C06_write_skel`),
  which is what `C06_read_after_report` (interleaving theorem, C07) needs.

Which keys end up in the update list (reachability along `rdeps` from the notified entries) is the
graph half (`topo_sound_complete`, other module).
-/
namespace AmVerif.Props.C06
open AmVerif.Gen AmVerif.Model AmVerif.Props.C18

/-! ## Concrete instances used by the `example`s below -/

/-- a cache with reloader; every type is hot-reloaded and loads to `n` -/
def exEnv (n : Int) : Env :=
  { read := fun _ _ _ => .ok [], readDir := fun _ _ => .ok [],
    types := fun _ => { hot := true, prog := fun _ => .ret (.int n) }, hasReloader := true }

/-- the same cache over a source on which every loader fails -/
def exEnvFail : Env :=
  { read := fun _ _ _ => .ok [], readDir := fun _ _ => .ok [],
    types := fun _ => { hot := true, prog := fun _ => .fail (.custom "x") }, hasReloader := true }

def exKey : Key := ⟨0, "a"⟩
def exKey2 : Key := ⟨0, "b"⟩

/-- a cache holding two dynamic entries known to the reloader, and a static one -/
def exLoaded : St × RSt :=
  runH 5 [(exEnv 1, .api (.load exKey)), (exEnv 1, .api (.load exKey2)), (exEnv 1, .api (.getOrInsert ⟨1, "c"⟩ (.int 9))),
    (exEnv 1, .hotReload)] ({}, {})

example : exLoaded.1.lookup exKey = some ⟨.int 1, true, 0, false, 0⟩ ∧
    exLoaded.1.lookup exKey2 = some ⟨.int 1, true, 0, false, 1⟩ ∧
    exLoaded.1.lookup ⟨1, "c"⟩ = some ⟨.int 9, false, 0, false, 2⟩ ∧ exLoaded.2.toReload = [] ∧ exLoaded.1.out = [] := by
  decide

/-! ## The regenerated pieces -/

/-- `AtomicReloadId::increment` adds exactly one (one `fetch_add(1)`). -/
theorem increment_cfg : ∀ n, (AtomicReloadId_increment n).2 = n + 1 := fun _ => rfl

theorem never_cfg : ReloadId_NEVER = 0 := rfl

/-- a failed reload is reported to the graph as "not reloaded", a panic is caught -/
theorem failedReloadKeepsNewDeps_cfg : failedReloadKeepsNewDeps = true := by decide
theorem reloadCatchesPanic_cfg : reloadCatchesPanic = true := by decide
/-- `DepsGraph::insert` has the shape the graph model transcribes: a reverse edge is added for every dependency and removed for
EVERY dependency that is no longer read, unconditionally (the `rdeps`-exactness theorems of `Lemmas/TopoGraph` are about that model;
without this obligation an `insert` that cleans only sometimes would leave stale reverse edges, i.e. spurious reloads) -/
theorem C06_insert_cleans_exactly_cfg : depsInsertCleansExactly = true := by decide

example : ReloadId_NEVER = 0 ∧ failedReloadKeepsNewDeps = true := ⟨never_cfg, failedReloadKeepsNewDeps_cfg⟩

example : (AtomicReloadId_increment 41).2 = 42 := increment_cfg 41

/-! ## (a) one `reload_untyped` -/

/-- **A write is exactly one increment; everything else is left alone.** For every environment, fuel,
cache state and key:
1. no other key's existing cell is touched (nested loads may *add* cells);
2. an absent key: nothing happens;
3. if the call reports a reload (`wrote`), the cell was dynamic, the loader had evaluated to `ok v`,
   and the key's cell is the old one with `val := v`, `rid := old + 1`, `flag := true`;
4. if it does not (skipped static entry, loader error, loader panic, divergence), the key's cell is
   unchanged — in particular its reload id and flag. -/
theorem C06_write_increments (env : Env) (fuel : Nat) (s : St) (key : Key) :
    (∀ k c, k ≠ key → s.lookup k = some c → (reloadUntyped env fuel s key).1.lookup k = some c) ∧
    (s.lookup key = none → reloadUntyped env fuel s key = (s, .done none)) ∧
    (∀ c, s.lookup key = some c →
      ((reloadUntyped env fuel s key).2.wrote = true →
        c.dyn = true ∧ ∃ v, (reloadEval env fuel s key).2.1 = .ok v ∧
          (reloadUntyped env fuel s key).1.lookup key =
            some { c with val := v, rid := (AtomicReloadId_increment c.rid).2, flag := true }) ∧
      ((reloadUntyped env fuel s key).2.wrote = false →
        (reloadUntyped env fuel s key).1.lookup key = some c)) := by
  refine ⟨fun k c hk h => reloadUntyped_other env fuel s key k c hk h,
    reloadUntyped_absent env fuel s key, ?_⟩
  intro c hc
  obtain ⟨s1, hle, _, hcase⟩ := reloadUntyped_cases env fuel s key c hc
  rcases hcase with ⟨o, ho, e⟩ | ⟨v, deps, hd, hv, e⟩
  · rw [e]
    refine ⟨fun h => ?_, fun _ => hle key c hc⟩
    simp only [ho] at h; cases h
  · rw [e]
    refine ⟨fun _ => ⟨hd, v, hv, ?_⟩, fun h => ?_⟩
    · exact St.setCell_lookup_self _ _ _ c (hle key c hc)
    · simp [ReloadOutcome.wrote] at h

/-- a successful reload: value swapped, id `NEVER + 1`, flag set, the other entry untouched -/
example : (reloadUntyped (exEnv 2) 5 exLoaded.1 exKey).2.wrote = true ∧
    (reloadUntyped (exEnv 2) 5 exLoaded.1 exKey).1.lookup exKey = some ⟨.int 2, true, 1, true, 0⟩ ∧
    (reloadUntyped (exEnv 2) 5 exLoaded.1 exKey).1.lookup exKey2 = some ⟨.int 1, true, 0, false, 1⟩ := by decide

/-- a failed reload: reported as such, nothing changes -/
example : (reloadUntyped exEnvFail 5 exLoaded.1 exKey).2.wrote = false ∧
    (reloadUntyped exEnvFail 5 exLoaded.1 exKey).1.lookup exKey = some ⟨.int 1, true, 0, false, 0⟩ := by decide

/-- the write never happens on a failed evaluation: the reported outcome is a success only if the
loader returned a value (errors, panics and divergence never bump the id) -/
theorem C06_no_increment_on_failure (env : Env) (fuel : Nat) (s : St) (key : Key) (c : Cell)
    (hc : s.lookup key = some c) (hfail : ∀ v, (reloadEval env fuel s key).2.1 ≠ .ok v) :
    (reloadUntyped env fuel s key).1.lookup key = some c := by
  have h := (C06_write_increments env fuel s key).2.2 c hc
  cases hw : (reloadUntyped env fuel s key).2.wrote with
  | false => exact h.2 hw
  | true =>
    obtain ⟨_, v, hv, _⟩ := h.1 hw
    exact absurd hv (hfail v)

example : (reloadUntyped exEnvFail 5 exLoaded.1 exKey).1.lookup exKey = some ⟨.int 1, true, 0, false, 0⟩ :=
  C06_no_increment_on_failure exEnvFail 5 exLoaded.1 exKey _ (by decide) (by
    intro v h
    have e : (reloadEval exEnvFail 5 exLoaded.1 exKey).2.1 = .err (.custom "x") := by decide
    rw [e] at h; cases h)

/-! ## (b) reload ids only grow, and every change is reported -/

/-- `c'` relates to the earlier `c` as the statement demands: the id did not decrease; if the
cell differs in any way (value, id or flag) then the id is strictly larger and the global flag is
set; kind and address are the same. -/
def Reported (c c' : Cell) : Prop :=
  c.rid ≤ c'.rid ∧ (c' ≠ c → c.rid < c'.rid ∧ c'.flag = true ∧ c.dyn = true) ∧
  c'.dyn = c.dyn ∧ c'.addr = c.addr

theorem reported_of_ev {c c' : Cell} (h : c.Ev c') : Reported c c' := by
  refine ⟨h.rid_le, fun hne => ?_, h.1, h.2.1⟩
  rcases h.2.2 with e | ⟨hd, hr, hf⟩
  · exact absurd e hne
  · exact ⟨hr, hf, hd⟩

example : Reported ⟨.int 1, true, 0, false, 0⟩ ⟨.int 2, true, 1, true, 0⟩ :=
  reported_of_ev (Cell.ev_written ⟨.int 1, true, 0, false, 0⟩ (.int 2) rfl)

/-- a changed value has a strictly larger id: a rewrite is always reported -/
theorem Reported.val_changed {c c' : Cell} (h : Reported c c') (hv : c'.val ≠ c.val) : c.rid < c'.rid :=
  (h.2.1 (fun e => hv (by rw [e]))).1

example : (0 : Nat) < 1 :=
  (reported_of_ev (Cell.ev_written ⟨.int 1, true, 0, false, 0⟩ (.int 2) rfl)).val_changed (by decide)

/-- an unchanged id means an unchanged cell: nothing is rewritten without being reported -/
theorem Reported.same_rid {c c' : Cell} (h : Reported c c') (hr : c'.rid = c.rid) : c' = c := by
  apply Decidable.byContradiction
  intro hne
  have := (h.2.1 hne).1
  omega

example (c : Cell) : c = c := (reported_of_ev (Cell.Ev.refl c)).same_rid rfl

/-- **Through every pass** (`reloadAll` over any list, `runUpdate`, `handleEvents` for any events,
`hotReload`, `enhance`), for every environment, fuel and state: every stored cell is still stored and
`Reported`. -/
theorem C06_rid_only_grows (env : Env) (fuel : Nat) (s : St) (r : RSt) (k : Key) (c : Cell)
    (hc : s.lookup k = some c) :
    (∀ keys, ∃ c', (reloadAll env fuel keys (s, r)).1.lookup k = some c' ∧ Reported c c') ∧
    (∃ c', (runUpdate env fuel s r).1.lookup k = some c' ∧ Reported c c') ∧
    (∀ evs, ∃ c', (handleEvents env fuel s r evs).1.lookup k = some c' ∧ Reported c c') ∧
    (∃ c', (hotReload env fuel s r).1.lookup k = some c' ∧ Reported c c') ∧
    (∃ c', (enhance env fuel s r).1.lookup k = some c' ∧ Reported c c') := by
  have lift : ∀ t : St, s.Ev t → ∃ c', t.lookup k = some c' ∧ Reported c c' := by
    intro t h
    obtain ⟨c', h1, e⟩ := h k c hc
    exact ⟨c', h1, reported_of_ev e⟩
  exact ⟨fun keys => lift _ (reloadAll_ev env fuel keys s r), lift _ (runUpdate_ev env fuel s r),
    fun evs => lift _ (handleEvents_ev env fuel s r evs), lift _ (hotReload_ev env fuel s r),
    lift _ (enhance_ev env fuel s r)⟩

example : ∃ c', (hotReload (exEnv 2) 5 exLoaded.1 { exLoaded.2 with toReload := [.asset exKey] }).1.lookup exKey = some c' ∧
    Reported ⟨.int 1, true, 0, false, 0⟩ c' :=
  (C06_rid_only_grows (exEnv 2) 5 exLoaded.1 _ exKey _ (by decide)).2.2.2.1
/-- … and that pass did rewrite the entry -/
example : (hotReload (exEnv 2) 5 exLoaded.1 { exLoaded.2 with toReload := [.asset exKey] }).1.lookup exKey =
    some ⟨.int 2, true, 1, true, 0⟩ := by decide

/-- … and through every history that does not remove the key (API operations never touch the id). -/
theorem C06_rid_only_grows_history (fuel : Nat) (h : List (Env × HOp)) (x : St × RSt) (k : Key) (c : Cell)
    (hc : x.1.lookup k = some c) (hkeep : ∀ e ∈ h, e.2.removes k = false) :
    ∃ c', (runH fuel h x).1.lookup k = some c' ∧ Reported c c' := by
  obtain ⟨c', h1, e⟩ := runH_ev fuel h x k c hkeep hc
  exact ⟨c', h1, reported_of_ev e⟩

example : ∃ c', (runH 5 [(exEnv 2, .notify [.asset exKey]), (exEnv 2, .api (.remove exKey2)), (exEnv 2, .hotReload)]
    exLoaded).1.lookup exKey = some c' ∧ Reported ⟨.int 1, true, 0, false, 0⟩ c' :=
  C06_rid_only_grows_history 5 _ exLoaded exKey _ (by decide) (by decide)

/-! ## (c) at most one write per asset and pass -/

/-- With a duplicate-free update list (`hnd`: what `topo` returns — graph theorem), after the pass
every cell's reload id is at most one more than before; `ridOf` is `NEVER` for a key that was absent
(an entry created by a nested load during the pass and then reloaded in the same pass shows at most
`NEVER + 1`). -/
theorem C06_at_most_once (env : Env) (fuel : Nat) (keys : List Key) (s : St) (r : RSt) (hnd : keys.Nodup)
    (k : Key) (c' : Cell) (h : (reloadAll env fuel keys (s, r)).1.lookup k = some c') :
    c'.rid ≤ s.ridOf k + 1 :=
  reloadAll_rid_le_succ env fuel keys s r hnd k c' h

/-- duplicate keys in a list WOULD write twice: the `Nodup` hypothesis matters -/
example : ((reloadAll (exEnv 2) 5 [exKey, exKey] exLoaded).1.lookup exKey).map (·.rid) = some 2 := by decide
example : ((reloadAll (exEnv 2) 5 [exKey, exKey2] exLoaded).1.lookup exKey).map (·.rid) = some 1 := by decide
example : (1 : Nat) ≤ exLoaded.1.ridOf exKey + 1 :=
  C06_at_most_once (exEnv 2) 5 [exKey, exKey2] exLoaded.1 exLoaded.2 (by decide) exKey ⟨.int 2, true, 1, true, 0⟩ (by decide)

/-- the same, for a cell that was stored before: exactly `old` or `old + 1` -/
theorem C06_at_most_once_stored (env : Env) (fuel : Nat) (keys : List Key) (s : St) (r : RSt) (hnd : keys.Nodup)
    (k : Key) (c : Cell) (hc : s.lookup k = some c) :
    ∃ c', (reloadAll env fuel keys (s, r)).1.lookup k = some c' ∧ (c'.rid = c.rid ∨ c'.rid = c.rid + 1) := by
  obtain ⟨c', h1, e⟩ := reloadAll_ev env fuel keys s r k c hc
  have h2 := reloadAll_rid_le_succ env fuel keys s r hnd k c' h1
  have h3 := e.rid_le
  simp only [St.ridOf, hc] at h2
  exact ⟨c', h1, by omega⟩

example : ∃ c', (reloadAll (exEnv 2) 5 [exKey, exKey2] exLoaded).1.lookup exKey = some c' ∧ (c'.rid = 0 ∨ c'.rid = 0 + 1) :=
  C06_at_most_once_stored (exEnv 2) 5 [exKey, exKey2] exLoaded.1 exLoaded.2 (by decide) exKey
    ⟨.int 1, true, 0, false, 0⟩ (by decide)

/-- `run_update` (the pass `hot_reload` / `handle_events` run), with the graph theorem as the named
hypothesis `hnd`. -/
theorem C06_at_most_once_update (env : Env) (fuel : Nat) (s : St) (r : RSt)
    (hnd : ∀ keys, topo r.graph fuel r.toReload = some keys → keys.Nodup)
    (k : Key) (c' : Cell) (h : (runUpdate env fuel s r).1.lookup k = some c') :
    c'.rid ≤ s.ridOf k + 1 := by
  rcases runUpdate_form env fuel s r with ⟨_, e⟩ | ⟨keys, hk, e⟩
  · rw [e] at h; simp only [St.ridOf, h]; exact Nat.le_succ _
  · rw [e] at h; exact reloadAll_rid_le_succ env fuel keys s _ (hnd keys hk) k c' h

/-- the hypothesis `hnd` holds of a concrete sorted list -/
example : topo exLoaded.2.graph 5 [.asset exKey, .asset exKey2] = some [exKey2, exKey] ∧ [exKey2, exKey].Nodup := by decide

/-- the shape of `hot_reload`: nothing, or message processing around one `run_update` -/
theorem hotReload_map (env : Env) (fuel : Nat) (s : St) (r : RSt) :
    (hotReload env fuel s r).1.map = s.map ∨
    (hotReload env fuel s r).1.map = (runUpdate env fuel (processMsgs s r).1 (processMsgs s r).2).1.map := by
  unfold hotReload
  split
  · exact Or.inl rfl
  · simp only []
    split
    · exact Or.inl rfl
    · exact Or.inr rfl

example : (hotReload (exEnv 2) 5 exLoaded.1 { exLoaded.2 with static_ := true }).1.map = exLoaded.1.map := by decide

/-- `hot_reload()`: at most one write per asset (`hnd` on the reloader state after the pending
`AddAsset` / `Clear` messages were processed). -/
theorem C06_at_most_once_hot_reload (env : Env) (fuel : Nat) (s : St) (r : RSt)
    (hnd : ∀ keys, topo (processMsgs s r).2.graph fuel (processMsgs s r).2.toReload = some keys → keys.Nodup)
    (k : Key) (c' : Cell) (h : (hotReload env fuel s r).1.lookup k = some c') :
    c'.rid ≤ s.ridOf k + 1 := by
  rcases hotReload_map env fuel s r with e | e
  · rw [St.lookup_congr e k] at h; simp only [St.ridOf, h]; exact Nat.le_succ _
  · have h' : (runUpdate env fuel (processMsgs s r).1 (processMsgs s r).2).1.lookup k = some c' := by
      rw [← St.lookup_congr e k]; exact h
    have := C06_at_most_once_update env fuel _ _ hnd k c' h'
    simpa [St.ridOf, processMsgs_lookup] using this

example : ((hotReload (exEnv 2) 5 exLoaded.1 { exLoaded.2 with toReload := [.asset exKey, .asset exKey2, .asset exKey] }).1.lookup
    exKey).map (·.rid) = some 1 := by decide

/-! ## Precision: only listed keys, nothing without events -/

/-- A pass touches only cells of keys in its update list. -/
theorem C06_only_listed_written (env : Env) (fuel : Nat) (keys : List Key) (s : St) (r : RSt) (k : Key) (c : Cell)
    (hk : k ∉ keys) (hc : s.lookup k = some c) : (reloadAll env fuel keys (s, r)).1.lookup k = some c :=
  reloadAll_frame env fuel keys s r k c hk hc

example : (reloadAll (exEnv 2) 5 [exKey] exLoaded).1.lookup exKey2 = some ⟨.int 1, true, 0, false, 1⟩ :=
  C06_only_listed_written (exEnv 2) 5 [exKey] exLoaded.1 exLoaded.2 exKey2 _ (by decide) (by decide)

/-- `run_update` touches only what `topo` lists (to be combined with `topo_sound_complete`: the list
is the set of assets reachable along `rdeps` from the notified entries). -/
theorem C06_only_sorted_written (env : Env) (fuel : Nat) (s : St) (r : RSt) (k : Key) (c : Cell)
    (hk : ∀ keys, topo r.graph fuel r.toReload = some keys → k ∉ keys) (hc : s.lookup k = some c) :
    (runUpdate env fuel s r).1.lookup k = some c := by
  rcases runUpdate_form env fuel s r with ⟨_, e⟩ | ⟨keys, hks, e⟩
  · rw [e]; exact hc
  · rw [e]; exact reloadAll_frame env fuel keys s _ k c (hk keys hks) hc

example : (runUpdate (exEnv 2) 5 exLoaded.1 { exLoaded.2 with toReload := [.asset exKey] }).1.lookup exKey2 =
    some ⟨.int 1, true, 0, false, 1⟩ :=
  C06_only_sorted_written (exEnv 2) 5 exLoaded.1 _ exKey2 _ (by decide) (by decide)

theorem topo_nil (g : Graph) (fuel : Nat) : topo g fuel [] = some [] := rfl

example : topo exLoaded.2.graph 5 [] = some [] := topo_nil _ _

theorem processMsgs_toReload_nil (s : St) (r : RSt) (h : r.toReload = []) : (processMsgs s r).2.toReload = [] := by
  unfold processMsgs
  simp only []
  generalize s.out = msgs
  induction msgs generalizing r with
  | nil => exact h
  | cons m ms ih =>
    simp only [List.foldl]
    cases m with
    | addAsset key deps => exact ih _ h
    | clear => exact ih _ rfl

example : (processMsgs (step (exEnv 1) 5 {} (.load exKey)).1 {}).2.toReload = [] ∧
    ((processMsgs (step (exEnv 1) 5 {} (.load exKey)).1 {}).2.graph.get (.asset exKey)).isSome = true := by decide

theorem runUpdate_idle (env : Env) (fuel : Nat) (s : St) (r : RSt) (h : r.toReload = []) :
    runUpdate env fuel s r = (s, r) := by
  unfold runUpdate
  rw [h, topo_nil]
  simp only [reloadAll]
  cases r; simp_all

example : runUpdate (exEnv 2) 5 exLoaded.1 exLoaded.2 = exLoaded := runUpdate_idle _ _ _ _ (by decide)

/-- **No event, no write — and no read.** `hot_reload()` with an empty changed set: the cache is
exactly what it was except that the pending messages are consumed — same map (no cell rewritten, none
added), same number of source reads (`ios`: the reloader never re-reads on its own), same loader
invocation count. Holds in local and in static mode, for every environment (i.e. whatever was edited
without notification). -/
theorem C06_no_event_no_write (env : Env) (fuel : Nat) (s : St) (r : RSt) (h : r.toReload = []) :
    (hotReload env fuel s r).1.map = s.map ∧ (hotReload env fuel s r).1.ios = s.ios ∧
    (hotReload env fuel s r).1.loads = s.loads ∧ (hotReload env fuel s r).1.next = s.next := by
  unfold hotReload
  split
  · exact ⟨rfl, rfl, rfl, rfl⟩
  · simp only []
    split
    · exact ⟨rfl, rfl, rfl, rfl⟩
    · rw [runUpdate_idle env fuel _ _ (processMsgs_toReload_nil s r h)]
      exact ⟨rfl, rfl, rfl, rfl⟩

/-- an edit that is never notified (`exEnv 2` instead of `exEnv 1`) is never picked up -/
example : (hotReload (exEnv 2) 5 exLoaded.1 exLoaded.2).1.map = exLoaded.1.map :=
  (C06_no_event_no_write (exEnv 2) 5 exLoaded.1 exLoaded.2 (by decide)).1
/-- a notified one is, once: the second `hot_reload` finds nothing to do -/
example : ((runH 5 [(exEnv 2, .notify [.asset exKey]), (exEnv 2, .hotReload), (exEnv 2, .hotReload)] exLoaded).1.lookup
    exKey).map (fun c => (c.val, c.rid, c.flag)) = some (.int 2, 1, true) := by decide

/-- with no pending messages either, `hot_reload()` is the identity on cache and reloader -/
theorem C06_idle_identity (env : Env) (fuel : Nat) (s : St) (r : RSt) (h : r.toReload = []) (ho : s.out = []) :
    hotReload env fuel s r = (s, r) := by
  have hp : processMsgs s r = (s, r) := by
    unfold processMsgs; rw [ho]; cases s; simp_all
  unfold hotReload
  split
  · rfl
  · simp only [hp]
    split
    · rfl
    · rw [runUpdate_idle env fuel s r h]; exact hp

example : hotReload (exEnv 2) 5 exLoaded.1 exLoaded.2 = exLoaded :=
  C06_idle_identity (exEnv 2) 5 exLoaded.1 exLoaded.2 (by decide) (by decide)

theorem foldl_unknown (g : Graph) (evs : List Dep) (l : List Dep) (h : ∀ e ∈ evs, g.get e = none) :
    evs.foldl (fun l e => if (g.get e).isSome then addIfAbsent e l else l) l = l := by
  induction evs generalizing l with
  | nil => rfl
  | cons e es ih =>
    simp only [List.foldl, h e List.mem_cons_self, Option.isSome_none, Bool.false_eq_true, if_false]
    exact ih l (fun e' he' => h e' (List.mem_cons_of_mem _ he'))

example : [Dep.file "zz" "x"].foldl (fun l e => if (exLoaded.2.graph.get e).isSome then addIfAbsent e l else l) [] = [] :=
  foldl_unknown _ _ _ (by decide)

/-- **Events for unknown entries are dropped**: notifications none of which names an entry of the
dependency graph (as it is once the pending `AddAsset` messages are in) add nothing to the changed set:
`handle_events` behaves exactly as with no events at all. -/
theorem C06_unknown_events_ignored (env : Env) (fuel : Nat) (s : St) (r : RSt) (evs : List Dep)
    (h : ∀ e ∈ evs, (processMsgs s r).2.graph.get e = none) :
    handleEvents env fuel s r evs = handleEvents env fuel s r [] := by
  unfold handleEvents
  split
  · rfl
  · simp only [List.foldl_nil]
    rw [foldl_unknown _ evs _ h]

example : handleEvents (exEnv 2) 5 exLoaded.1 exLoaded.2 [.file "zz" "x", .dir "nowhere"] =
    handleEvents (exEnv 2) 5 exLoaded.1 exLoaded.2 [] :=
  C06_unknown_events_ignored _ _ _ _ _ (by decide)

/-- in particular, in local mode they leave the changed set as it was -/
theorem C06_unknown_events_toReload (env : Env) (fuel : Nat) (s : St) (r : RSt) (evs : List Dep)
    (hd : r.dead = false) (hs : (processMsgs s r).2.static_ = false)
    (h : ∀ e ∈ evs, (processMsgs s r).2.graph.get e = none) :
    handleEvents env fuel s r evs = processMsgs s r := by
  rw [C06_unknown_events_ignored env fuel s r evs h]
  unfold handleEvents
  simp only [hd, Bool.false_eq_true, if_false, List.foldl_nil]
  generalize processMsgs s r = p at hs
  obtain ⟨s1, r1⟩ := p
  simp only [] at hs ⊢
  simp only [hs, Bool.false_eq_true, if_false]
  cases r1; simp_all

example : handleEvents (exEnv 2) 5 exLoaded.1 exLoaded.2 [.file "zz" "x"] = processMsgs exLoaded.1 exLoaded.2 :=
  C06_unknown_events_toReload _ _ _ _ _ (by decide) (by decide) (by decide)
/-- whereas a known entry is kept -/
example : (handleEvents (exEnv 2) 5 exLoaded.1 exLoaded.2 [.asset exKey, .file "zz" "x", .asset exKey]).2.toReload = [.asset exKey] := by
  decide

/-! ## (e) static entries show `NEVER` forever -/

/-- what every stored static cell satisfies -/
def StaticNever : Key → Cell → Prop := fun _ c => c.dyn = false → c.rid = ReloadId_NEVER ∧ c.flag = false

/-- a static cell keeps its id (and everything else) through every pass (from C10) -/
theorem C06_static_rid_kept (env : Env) (fuel : Nat) (s : St) (r : RSt) (k : Key) (c : Cell)
    (hc : s.lookup k = some c) (hs : c.dyn = false) :
    (∀ keys, (reloadAll env fuel keys (s, r)).1.lookup k = some c) ∧
    (hotReload env fuel s r).1.lookup k = some c ∧
    (∀ evs, (handleEvents env fuel s r evs).1.lookup k = some c) := by
  have lift : ∀ t : St, s.Ev t → t.lookup k = some c := by
    intro t h
    obtain ⟨c', h1, e⟩ := h k c hc
    rw [h1, e.static hs]
  exact ⟨fun keys => lift _ (reloadAll_ev env fuel keys s r), lift _ (hotReload_ev env fuel s r),
    fun evs => lift _ (handleEvents_ev env fuel s r evs)⟩

example : (hotReload (exEnv 2) 5 exLoaded.1 { exLoaded.2 with toReload := [.asset ⟨1, "c"⟩, .asset exKey] }).1.lookup ⟨1, "c"⟩ =
    some ⟨.int 9, false, 0, false, 2⟩ :=
  (C06_static_rid_kept (exEnv 2) 5 exLoaded.1 _ ⟨1, "c"⟩ _ (by decide) rfl).2.1

/-- **Static entries keep `ReloadId::NEVER`** (and a clear global flag) at every point of every
history, from any state in which they do — e.g. the empty cache. -/
theorem C06_static_rid_never (fuel : Nat) (h : List (Env × HOp)) (x : St × RSt) (hs : x.1.All StaticNever) :
    (runH fuel h x).1.All StaticNever := by
  refine runH_all fuel StaticNever ?_ h x ?_ hs
  · intro k c v _ hd hst
    simp only [Cell.written] at hst; rw [hd] at hst; cases hst
  · intro e _
    exact ⟨fun _ _ _ _ => ⟨rfl, rfl⟩, fun _ _ _ _ => ⟨rfl, rfl⟩⟩

example : exLoaded.1.All StaticNever :=
  C06_static_rid_never 5 _ ({}, {}) (by intro k c h; simp [St.lookup] at h)

/-- every entry starts at `NEVER` with a clear flag: whatever an API operation adds -/
theorem C06_starts_never (env : Env) (fuel : Nat) (s : St) (op : Op) (k : Key) (c : Cell)
    (hnew : s.lookup k = none) (h : (step env fuel s op).1.lookup k = some c) :
    c.rid = ReloadId_NEVER ∧ c.flag = false := by
  rcases step_added env fuel s op (fun _ c => c.rid = ReloadId_NEVER ∧ c.flag = false)
      ⟨fun _ _ _ => ⟨rfl, rfl⟩, fun _ _ _ => ⟨rfl, rfl⟩⟩ k c h with h' | h'
  · rw [hnew] at h'; cases h'
  · exact h'

example : ReloadId_NEVER = 0 ∧ false = false :=
  C06_starts_never (exEnv 1) 5 {} (.load exKey) exKey ⟨.int 1, true, 0, false, 0⟩ rfl (by decide)

/-! ## (f) watchers -/

/-- `ReloadWatcher::reloaded`: `last_reload_id.update(reload_id.load())` -/
def poll (last cur : Nat) : Nat × Bool := ReloadId_update last cur

/-- a watcher polled at successive times, `obs` = the entry's reload id at those times -/
def pollAll : Nat → List Nat → List Bool
  | _, [] => []
  | last, cur :: rest => (poll last cur).2 :: pollAll (poll last cur).1 rest

/-- nondecreasing from `a` on (what `C06_rid_only_grows_history` gives for the ids of one entry) -/
def Mono : Nat → List Nat → Prop
  | _, [] => True
  | a, b :: rest => a ≤ b ∧ Mono b rest

/-- **A watcher answers `true` exactly when the id grew since the previous poll** (the first poll
compares with the id at creation, `last`), for every nondecreasing sequence of observed ids. -/
theorem C06_watcher_exact (last : Nat) (obs : List Nat) (h : Mono last obs) :
    pollAll last obs = List.zipWith (fun prev cur => decide (prev < cur)) (last :: obs) obs := by
  induction obs generalizing last with
  | nil => rfl
  | cons cur rest ih =>
    obtain ⟨h1, h2⟩ := h
    simp only [pollAll, poll, C18_update_max, List.zipWith_cons_cons, Nat.max_eq_right h1]
    rw [ih cur h2]

/-- watcher created at id 0, entry reloaded between some polls -/
example : pollAll 0 [0, 1, 1, 3, 3] = [false, true, false, true, false] := by decide
example : Mono 0 [0, 1, 1, 3, 3] := by simp [Mono]
example : pollAll 0 [0, 1, 1, 3, 3] = List.zipWith (fun prev cur => decide (prev < cur)) [0, 0, 1, 1, 3, 3] [0, 1, 1, 3, 3] :=
  C06_watcher_exact 0 _ (by simp [Mono])

/-- one poll against the model: a watcher that last saw cell `c` answers `true` at the evolved cell
`c'` iff the cell was rewritten in between (iff it is not the same cell). -/
theorem C06_watcher_model (c c' : Cell) (h : c.Ev c') :
    poll c.rid c'.rid = (c'.rid, decide (c' ≠ c)) := by
  simp only [poll, C18_update_max, Nat.max_eq_right h.rid_le]
  by_cases e : c' = c
  · subst e; simp
  · have := h.changed_rid_lt e
    simp [e, this]

example : poll 0 1 = (1, true) :=
  C06_watcher_model ⟨.int 1, true, 0, false, 0⟩ ⟨.int 2, true, 1, true, 0⟩ (Cell.ev_written _ (.int 2) rfl)

/-- `Handle::reloaded_global`: `reload_global.swap(false)` -/
def pollGlobal (c : Cell) : Cell × Bool := ({ c with flag := false }, c.flag)

/-- after `reloaded_global()` the flag is clear; from then on it is set iff the cell was rewritten -/
theorem C06_global_exact (c c' : Cell) (h : (pollGlobal c).1.Ev c') :
    (pollGlobal c').2 = decide (c' ≠ (pollGlobal c).1) := by
  simp only [pollGlobal] at h ⊢
  rcases h.2.2 with e | ⟨_, hr, hf⟩
  · rw [e]; simp
  · have hne : c' ≠ { c with flag := false } := by
      intro e; rw [e] at hr; exact Nat.lt_irrefl _ hr
    simp [hf, hne]

example : (pollGlobal ⟨.int 2, true, 1, true, 0⟩).2 = true ∧ (pollGlobal (pollGlobal ⟨.int 2, true, 1, true, 0⟩).1).2 = false := by
  decide

/-- the flag over time: `n` writes (each `store(true)`), then a poll (`swap(false)`) -/
def afterWrites (flag : Bool) : Nat → Bool
  | 0 => flag
  | n + 1 => afterWrites true n

def pollsGlobal : Bool → List Nat → List Bool
  | _, [] => []
  | flag, n :: rest => afterWrites flag n :: pollsGlobal false rest

theorem afterWrites_true (n : Nat) : afterWrites true n = true := by
  induction n with
  | zero => rfl
  | succ n ih => exact ih

example : afterWrites false 0 = false ∧ afterWrites false 3 = true := by decide

/-- **`reloaded_global` answers `true` exactly when at least one write happened since it was last
asked** (`ns` = number of writes between successive calls; the flag starts clear). -/
theorem C06_global_sequence (ns : List Nat) : pollsGlobal false ns = ns.map (fun n => decide (0 < n)) := by
  induction ns with
  | nil => rfl
  | cons n rest ih =>
    simp only [pollsGlobal, List.map_cons, ih]
    cases n with
    | zero => rfl
    | succ n => simp [afterWrites, afterWrites_true]

example : pollsGlobal false [0, 2, 0, 1] = [false, true, false, true] := by decide

/-! ## (g) the order inside `UntypedEntry::write` -/

/-- `UntypedEntry::write`, regenerated: on a dynamic entry, take the write lock, swap the value, THEN
`reload.increment()`, THEN `reload_global.store(true, Release)`, release the lock; on a static entry
`wrong_handle_type()` (panic).

Why this gives *read-after-report* (`C06_read_after_report`, interleaving theorem of C07): the id is
incremented while the write lock is held and after the value was swapped. A reader that saw
`watcher.reloaded() = true` for id `n` loaded an id `≥ n` (Acquire load of a Release `fetch_add`), so
the swap of write `n` happened before that load; its subsequent `read()` takes the read lock, which
cannot be granted between the swap and the release of write `n`'s write lock, and any later write
`m > n` has completed its swap before releasing — so the value read is that of a write `≥ n`.
Were the increment before the swap, or outside the lock scope, a reader could observe id `n` and
still read the value of write `n-1`. -/
theorem C06_write_skel : skel_entry_UntypedEntry_write =
    [.branch [[.acq .s_write 0, .call .s_get, .call .s_get_mut, .call .s_swap_any, .call .s_increment,
               .call .s_store_Release, .rel 0, .ret], []],
     .call .s_wrong_handle_type] := rfl

/-- the increment comes after the swap and before the release of guard 0 -/
example : (match skel_entry_UntypedEntry_write with
    | [.branch [[.acq .s_write g, _, _, .call .s_swap_any, .call .s_increment, _, .rel g', .ret], []], _] => g == g'
    | _ => false) = true := by decide

/-! ## Unconditional forms: the sorted list of a pass has no duplicates (`topo_nodup`, for every graph) -/

/-- **Each affected asset is rewritten at most once per pass**: whatever the graph (cyclic look-ups
included), the set of notified entries and the loaders, `hot_reload` raises no reload id by more than one. -/
theorem C06_at_most_once_per_pass (env : Env) (fuel : Nat) (s : St) (r : RSt)
    (k : Key) (c' : Cell) (h : (hotReload env fuel s r).1.lookup k = some c') :
    c'.rid ≤ s.ridOf k + 1 :=
  C06_at_most_once_hot_reload env fuel s r (fun _ hk => AmVerif.Lemmas.TopoGraph.topo_nodup hk) k c' h

/-- the same for one `run_update` (static mode: the pass run by `handle_events`) -/
theorem C06_at_most_once_per_update (env : Env) (fuel : Nat) (s : St) (r : RSt)
    (k : Key) (c' : Cell) (h : (runUpdate env fuel s r).1.lookup k = some c') :
    c'.rid ≤ s.ridOf k + 1 :=
  C06_at_most_once_update env fuel s r (fun _ hk => AmVerif.Lemmas.TopoGraph.topo_nodup hk) k c' h

/-- `reloaded_global` reads and clears the global flag in one atomic `swap` (typed and untyped handle): the model's
`reloadedGlobal` step is atomic, so among concurrent pollers exactly one sees `true` per rewrite. -/
theorem C06_reloaded_global_is_one_swap : reloadedGlobalIsAtomicSwap = true := by decide

/-- Every successful load registers its dependency set with the reloader, empty or not (`HotReloader::add_asset` sends
unconditionally): a key loaded again after a removal gets its OLD dependencies replaced. -/
theorem C06_add_asset_always_sends :
    AmVerif.Gen.skel_hot_reloading_mod_HotReloader_add_asset = [.call .s_AddAsset, .call .s_send] := rfl

/-- A watcher created on an entry whose reload id is `n` starts from `n` (`ReloadWatcherInner::new` loads the current id), so its
first poll, with no rewrite in between, answers `false` and leaves it at `n`: only reloads that happen after its creation are reported. -/
theorem C06_new_watcher_is_quiet (n : Nat) : watcherStartsFromCurrentId = true ∧ ReloadId_update n n = (n, false) := by
  refine ⟨by decide, ?_⟩
  simp [ReloadId_update]

end AmVerif.Props.C06
