import AmVerif.Gen.Skel
import AmVerif.Gen.TabLock
import AmVerif.Lemmas.IsoTok
/-!
# C07 — readers are isolated from reloads: guards pin values, no torn reads

Model: `Model/Iso.lean` (one dynamic entry of `k` words, any number of readers, the reloader
thread, any number of `hot_reload` callers, local mode). The writer's step program, the reader's
lock, the behaviour of `map`/`try_map`, the order `update ; notify` of the reloader's `Ptr` arm and
the caller's `send ; wait` are *compiled from the regenerated skeletons* (`codeCfg`); the theorems
below are proved for every well-formed configuration and instantiated with the one the current
source yields — `C07_code_wf` is the obligation that fails when the source stops being
well-formed (wrong lock kind, an effect outside the guard's extent, increment before the swap,
answer before the update, …).

Every theorem quantifies over the word count `k`, the number of readers `n`, and the schedule `σ`
(which also carries the readers' choices and the number of writes per reload pass).
-/
namespace AmVerif.Props.C07
open AmVerif.Gen AmVerif.Model AmVerif.Model.Iso AmVerif.Lemmas.IsoLock AmVerif.Lemmas.IsoTok

/-! ## What the source says today (regenerated skeletons) -/

/-- `UntypedEntry::write` = `lock.write()` ; `swap_any` ; `reload.increment()` ;
`reload_global.store(Release)` ; guard dropped ; `return`. -/
theorem C07_skel_write : compileWrite skel_entry_UntypedEntry_write =
    some [.acq .write, .copy, .inc, .setFlag, .rel] := by decide

/-- Facts the proofs need, derived from that program: the lock taken is `write`; `swap_any` and
`increment` lie inside the guard's extent and nothing is held at the end (`wfW`); the id is
incremented once, after the complete swap (`ordOk`). -/
theorem C07_skel_write_discipline : wfW none codeWProg = true ∧ ordOk false false codeWProg = true := by decide

/-- `EntryStorage::read` takes `lock.read()` and moves that guard into the returned `AssetReadGuard`. -/
theorem C07_skel_read : codeReadLocks = true := by decide

/-- `AssetReadGuard::{map,try_map}` move the guard on: no acquisition, no release. -/
theorem C07_skel_map : codeMapKeeps = true := by decide

/-- The reloader answers a `Ptr` message after `update_if_local`, and that is the last thing it does for it. -/
theorem C07_skel_answer_after_update : codeArm = [.update, .notify] := by decide

/-- `HotReloader::reload`: token, `send(Ptr)`, then wait for the answer. -/
theorem C07_skel_caller_waits : codeCallerWaits = true := by decide

/-- The update of a pass reaches `UntypedEntry::write` through `update_if_local` → `run_update` →
(loop) `DepsGraph::reload` → `reload_untyped` → `write`. -/
theorem C07_skel_update_chain :
    ((firstBranch skel_hot_reloading_paths_HotReloadingData_update_if_local).bind List.head?).any (hasCall .s_run_update) = true ∧
    (firstLoop skel_hot_reloading_paths_run_update).any (hasCall .s_reload) = true ∧
    (skel_anycache_AnyCache_reload_untyped.any fun | .branch (alt :: _) => hasCall .s_write alt | _ => false) = true := by
  decide

/-- **The obligation on the source**: the configuration extracted from the current tree is well-formed. -/
theorem C07_code_wf (k : Nat) : (codeCfg k).WF = true := by
  show (wfW none codeWProg && ordOk false false codeWProg && codeReadLocks && codeMapKeeps && armOk codeArm && codeCallerWaits) = true
  decide

/-! ## Generic forms (any well-formed configuration) -/

theorem lockInv_run {cfg : Cfg} (hc : cfg.WF = true) (n : Nat) (σ : List Act) : LockInv cfg (run cfg (init n) σ) :=
  AmVerif.Lemmas.IsoLock.run_inv hc _ (AmVerif.Lemmas.IsoLock.init_inv cfg n) σ

theorem tokInv_run {cfg : Cfg} (hc : cfg.WF = true) (n : Nat) (σ : List Act) : TokInv cfg (run cfg (init n) σ) :=
  AmVerif.Lemmas.IsoTok.run_inv hc _ (AmVerif.Lemmas.IsoTok.init_inv cfg n) σ

theorem caller_keeps (cfg : Cfg) (s : St) (c : Nat) (a : Act) :
    (stepCaller cfg s c a).words = s.words ∧ (stepCaller cfg s c a).rid = s.rid := by
  cases a <;> simp only [stepCaller] <;> (repeat' split) <;> first | exact ⟨rfl, rfl⟩ | trivial

/-- A step that changes a word or the reload id is a `copy` or `inc` step of a running `write` call. -/
theorem change_is_write (cfg : Cfg) (s : St) (a : Act)
    (hch : (step cfg s a).words ≠ s.words ∨ (step cfg s a).rid ≠ s.rid) :
    ∃ w rest, s.wrest = w :: rest ∧ (w = .copy ∨ w = .inc) ∧ (step cfg s a).log = .wr s.cur :: s.log := by
  have reader : ∀ r a', (stepReader cfg s r a').words = s.words ∧ (stepReader cfg s r a').rid = s.rid := by
    intro r a'; obtain ⟨f, e⟩ := reader_eq cfg s r a'; rw [e]; exact ⟨rfl, rfl⟩
  have nochange : ∀ s' : St, s'.words = s.words ∧ s'.rid = s.rid → (s'.words ≠ s.words ∨ s'.rid ≠ s.rid) → False :=
    fun s' x y => y.elim (fun z => z x.1) (fun z => z x.2)
  cases a with
  | acq r => exact (nochange _ (reader r (.acq r)) hch).elim
  | readW r i => exact (nochange _ (reader r (.readW r i)) hch).elim
  | readId r => exact (nochange _ (reader r (.readId r)) hch).elim
  | map r => exact (nochange _ (reader r (.map r)) hch).elim
  | rel r => exact (nochange _ (reader r (.rel r)) hch).elim
  | tok c => exact (nochange _ (caller_keeps cfg s c (.tok c)) hch).elim
  | send c => exact (nochange _ (caller_keeps cfg s c (.send c)) hch).elim
  | ret c => exact (nochange _ (caller_keeps cfg s c (.ret c)) hch).elim
  | rl m =>
    have hch' : (stepRl cfg s m).words ≠ s.words ∨ (stepRl cfg s m).rid ≠ s.rid := hch
    show ∃ w rest, s.wrest = w :: rest ∧ (w = .copy ∨ w = .inc) ∧ (stepRl cfg s m).log = .wr s.cur :: s.log
    cases e : s.wrest with
    | cons w rest =>
      have hs : stepRl cfg s m = stepW cfg s w rest := by simp only [stepRl, e]
      rw [hs] at hch' ⊢
      refine ⟨w, rest, rfl, ?_⟩
      cases w with
      | acq k => cases k <;> simp only [stepW] at hch' <;> split at hch' <;> exact (nochange _ ⟨rfl, rfl⟩ hch').elim
      | copy =>
        simp only [stepW] at hch' ⊢
        split
        · simp
        · rename_i hge; rw [if_neg hge] at hch'; exact (nochange _ ⟨rfl, rfl⟩ hch').elim
      | inc => exact ⟨Or.inr rfl, rfl⟩
      | setFlag => exact (nochange _ ⟨rfl, rfl⟩ hch').elim
      | rel => exact (nochange _ ⟨rfl, rfl⟩ hch').elim
    | nil =>
      exfalso
      simp only [stepRl, e] at hch'
      split at hch'
      · split at hch' <;> exact nochange _ ⟨rfl, rfl⟩ hch'
      · split at hch' <;> exact nochange _ ⟨rfl, rfl⟩ hch'
      · exact nochange _ ⟨rfl, rfl⟩ hch'

theorem guard_pins_gen {cfg : Cfg} {s : St} (h : LockInv cfg s) (r : Nat) (hr : (s.rd r).holding = true) (a : Act) :
    (step cfg s a).words = s.words ∧ (step cfg s a).rid = s.rid := by
  apply Classical.byContradiction
  intro hne
  have hch : (step cfg s a).words ≠ s.words ∨ (step cfg s a).rid ≠ s.rid := by
    by_cases x : (step cfg s a).words = s.words
    · exact Or.inr (fun y => hne ⟨x, y⟩)
    · exact Or.inl x
  obtain ⟨w, rest, e, hw, _⟩ := change_is_write cfg s a hch
  have hwf := h.wf
  rw [e] at hwf
  have hwrite : s.wheld = some .write := by
    rcases hw with x | x <;> subst x <;> simp only [wfW, Bool.and_eq_true, beq_iff_eq] at hwf <;> exact hwf.1
  rw [no_holder h hwrite r] at hr
  cases hr

theorem no_torn_gen {cfg : Cfg} {s : St} (h : LockInv cfg s) (r : Nat) (l : Bool) (ow : List (Nat × Nat)) (oid : List Nat)
    (hr : s.rd r = .hold l ow oid) : ∀ p ∈ ow, ∀ q ∈ ow, p.2 = q.2 := by
  have hnw := (h.rdr r l ow oid hr).2.2
  have hci : s.ci = 0 := by
    cases hci : s.ci with
    | zero => rfl
    | succ m =>
      obtain ⟨rest, e⟩ := h.ci_pos (by omega)
      have hwf := h.wf
      rw [e] at hwf
      simp only [wfW, Bool.and_eq_true, beq_iff_eq] at hwf
      exact absurd hwf.1 hnw
  obtain ⟨base, _, _, hwords, _⟩ := h.shape
  have hv := (h.view r l ow oid hr).1
  intro p hp q hq
  have a := hv p hp
  have b := hv q hq
  rw [← a.2, ← b.2, hwords _ a.1, hwords _ b.1, hci]
  simp

/-! ## The property theorems, for the configuration extracted from the current source -/

/-- **While an `AssetReadGuard` is alive nothing it protects changes.** In every reachable state, if
some reader holds a guard (directly or mapped), then no step of any thread changes a word of the
value or the handle's reload id — i.e. between a reader's acquire and its release no `copy` / `inc`
step occurs. -/
theorem C07_guard_pins (k n : Nat) (σ : List Act) (r : Nat)
    (hr : ((run (codeCfg k) (init n) σ).rd r).holding = true) (a : Act) :
    (step (codeCfg k) (run (codeCfg k) (init n) σ) a).words = (run (codeCfg k) (init n) σ).words ∧
    (step (codeCfg k) (run (codeCfg k) (init n) σ) a).rid = (run (codeCfg k) (init n) σ).rid :=
  guard_pins_gen (lockInv_run (C07_code_wf k) n σ) r hr a

/-- Consequence, as the reader sees it: every word and every reload id it has observed under its
current guard is still what the entry holds, however long the guard has lived and whatever the
other threads did meanwhile (so re-reading through the guard always yields the same). -/
theorem C07_guard_pins_view (k n : Nat) (σ : List Act) (r : Nat) (l : Bool) (ow : List (Nat × Nat)) (oid : List Nat)
    (hr : (run (codeCfg k) (init n) σ).rd r = .hold l ow oid) :
    (∀ p ∈ ow, (run (codeCfg k) (init n) σ).words p.1 = p.2) ∧ (∀ x ∈ oid, x = (run (codeCfg k) (init n) σ).rid) := by
  have v := (lockInv_run (C07_code_wf k) n σ).view r l ow oid hr
  exact ⟨fun p hp => (v.1 p hp).2, v.2⟩

/-- The writer and the readers exclude each other: while the reloader is inside the write lock
(in particular in the middle of the word-by-word swap) no reader holds a guard. -/
theorem C07_writer_excludes_readers (k n : Nat) (σ : List Act)
    (hw : (run (codeCfg k) (init n) σ).wheld = some .write) (r : Nat) : (run (codeCfg k) (init n) σ).rd r = .idle :=
  no_holder (lockInv_run (C07_code_wf k) n σ) hw r

/-- **No torn read.** All words observed under one guard carry the same version: a reader sees a
complete old value or a complete new value, never a mixture. -/
theorem C07_no_torn_read (k n : Nat) (σ : List Act) (r : Nat) (l : Bool) (ow : List (Nat × Nat)) (oid : List Nat)
    (hr : (run (codeCfg k) (init n) σ).rd r = .hold l ow oid) : ∀ p ∈ ow, ∀ q ∈ ow, p.2 = q.2 :=
  no_torn_gen (lockInv_run (C07_code_wf k) n σ) r l ow oid hr

/-- The reload id is never ahead of the value: at every moment (guard or not) every word carries a
version at least the id, i.e. once a reload id is visible the complete new value is in place. -/
theorem C07_rid_never_ahead (k n : Nat) (σ : List Act) (i : Nat) (hi : i < k) :
    (run (codeCfg k) (init n) σ).rid ≤ (run (codeCfg k) (init n) σ).words i := by
  obtain ⟨base, _, _, hwords, hrb, hbv, _⟩ := (lockInv_run (C07_code_wf k) n σ).shape
  rw [hwords i hi]
  split <;> omega

/-- **Values change only inside `hot_reload`** (local mode), state form: whenever a step changes a
word or the reload id, the step is logged as a write of the pass being served and some caller has
sent the `Ptr` of that pass and has not returned. -/
theorem C07_changes_only_inside_hot_reload (k n : Nat) (σ : List Act) (a : Act)
    (hch : (step (codeCfg k) (run (codeCfg k) (init n) σ) a).words ≠ (run (codeCfg k) (init n) σ).words ∨
           (step (codeCfg k) (run (codeCfg k) (init n) σ) a).rid ≠ (run (codeCfg k) (init n) σ).rid) :
    (step (codeCfg k) (run (codeCfg k) (init n) σ) a).log = .wr (run (codeCfg k) (init n) σ).cur :: (run (codeCfg k) (init n) σ).log ∧
    ∃ c, (run (codeCfg k) (init n) σ).cl c = .waiting (run (codeCfg k) (init n) σ).cur := by
  obtain ⟨w, rest, e, _, hl⟩ := change_is_write _ _ a hch
  have h := tokInv_run (C07_code_wf k) n σ
  obtain ⟨rr, er⟩ := h.inwrite (by rw [e]; exact List.cons_ne_nil _ _)
  have hn : RStep.notify ∈ (run (codeCfg k) (init n) σ).rrest := by
    rw [er]; exact List.mem_cons_of_mem _ (notify_mem_of_arm (by rw [← er]; exact h.arm))
  exact ⟨hl, (h.serving hn).1⟩

/-- Same, trace form (the log is newest first): every write of pass `t` is preceded by some caller's
`send Ptr(t)`, and that caller has not returned before the write. -/
theorem C07_changes_only_inside_hot_reload_trace (k n : Nat) (σ : List Act) (newer older : List Ev) (t : Nat)
    (hl : (run (codeCfg k) (init n) σ).log = newer ++ .wr t :: older) :
    ∃ c, .sent c t ∈ older ∧ .ret c t ∉ older := by
  have h := (tokInv_run (C07_code_wf k) n σ).log
  rw [hl] at h
  exact (okLog_suffix h).1.1

/-- **`hot_reload` returns after the writes of its pass**: once caller `c` has returned with token
`t`, no write of pass `t` happens any more — every write its `Ptr` triggered lies before the return. -/
theorem C07_returns_after_writes (k n : Nat) (σ : List Act) (newer older : List Ev) (c t : Nat)
    (hl : (run (codeCfg k) (init n) σ).log = newer ++ .ret c t :: older) : .wr t ∉ newer := by
  have h := (tokInv_run (C07_code_wf k) n σ).log
  rw [hl] at h
  intro hm
  obtain ⟨n1, n2, e⟩ := List.append_of_mem hm
  rw [e, List.append_assoc] at h
  have := (okLog_suffix h).1.2 c
  exact this (by simp)

/-- … and it returns only after the reloader posted the answer for its token, which it does after
the update of that pass is complete (no `write` call running, no `update` step left). -/
theorem C07_return_needs_finished_pass (k n : Nat) (σ : List Act) (c t : Nat)
    (_hw : (run (codeCfg k) (init n) σ).cl c = .waiting t) (ha : t ∈ (run (codeCfg k) (init n) σ).answered) :
    (run (codeCfg k) (init n) σ).cur = t → (run (codeCfg k) (init n) σ).wrest = [] ∧ .update ∉ (run (codeCfg k) (init n) σ).rrest := by
  intro hcur
  have h := tokInv_run (C07_code_wf k) n σ
  have nn : RStep.notify ∉ (run (codeCfg k) (init n) σ).rrest := by
    intro hn; exact (h.serving hn).2.1 (by rw [hcur]; exact ha)
  constructor
  · apply Decidable.byContradiction
    intro hne
    obtain ⟨rr, er⟩ := h.inwrite hne
    exact nn (by rw [er]; exact List.mem_cons_of_mem _ (notify_mem_of_arm (by rw [← er]; exact h.arm)))
  · intro hu
    have ha := h.arm
    generalize (run (codeCfg k) (init n) σ).rrest = l at hu nn ha
    induction l with
    | nil => cases hu
    | cons x xs ih =>
      cases x with
      | update => exact nn (List.mem_cons_of_mem _ (notify_mem_of_arm ha))
      | notify => exact nn List.mem_cons_self

/-! ## Non-vacuity: concrete schedules -/

/-- Two words, two readers. Reader 0 takes a guard and reads word 0; a caller starts a reload; the
reloader receives it, starts a `write`, and is *blocked* at `lock.write()` (stutters) while the guard
lives; reader 0 maps its guard, reads word 1 and the id; only after it releases does the writer
swap both words, bump the id and answer; reader 1 then sees the complete new value. -/
def demo : List Act :=
  [.acq 0, .readW 0 0, .tok 0, .send 0, .rl true, .rl true, .rl true, .rl true, .map 0, .readW 0 1, .readId 0]

example : (run (codeCfg 2) (init 2) demo).rd 0 = .hold true [(1, 0), (0, 0)] [0] := by decide
example : (run (codeCfg 2) (init 2) demo).wheld = none ∧ (run (codeCfg 2) (init 2) demo).wrest = codeWProg := by decide
example : (run (codeCfg 2) (init 2) demo).cl 0 = .waiting 0 := by decide

def demo2 : List Act :=
  demo ++ [.rel 0, .rl true, .rl true, .acq 1, .rl true, .rl true, .rl true, .rl true, .rl true, .rl false, .rl false, .ret 0, .acq 1, .readW 1 0, .readW 1 1, .readId 1]

example : (run (codeCfg 2) (init 2) demo2).rd 1 = .hold true [(1, 1), (0, 1)] [1] := by decide
example : (run (codeCfg 2) (init 2) demo2).log = [.ret 0 0, .wr 0, .wr 0, .wr 0, .sent 0 0] := by decide

/-! ## The hypotheses matter: ill-formed configurations have violating schedules -/

/-- `lock.write()` → `lock.read()` in `write`: a reader observes word 0 of the old and word 1 of the new value. -/
example : readerOk (run { codeCfg 2 with wprog := [.acq .read, .copy, .inc, .setFlag, .rel] } (init 1)
    [.tok 0, .send 0, .rl true, .rl true, .acq 0, .readW 0 1, .rl true, .rl true, .rl true, .readW 0 0]) 0 = false := by decide
example : ({ codeCfg 2 with wprog := [.acq .read, .copy, .inc, .setFlag, .rel] } : Cfg).WF = false := by decide

/-- increment / flag moved in front of the lock: the id changes under a live guard. -/
example : readerOk (run { codeCfg 2 with wprog := [.inc, .setFlag, .acq .write, .copy, .rel] } (init 1)
    [.tok 0, .send 0, .rl true, .acq 0, .readId 0, .rl true, .rl true]) 0 = false := by decide
example : ({ codeCfg 2 with wprog := [.inc, .setFlag, .acq .write, .copy, .rel] } : Cfg).WF = false := by decide

/-- answer before the update: the caller has returned and the value changes afterwards. -/
example : logOk (run { codeCfg 1 with arm := [.notify, .update] } (init 0)
    [.tok 0, .send 0, .rl true, .rl true, .ret 0, .rl true, .rl true, .rl true]).log = false := by decide
example : ({ codeCfg 1 with arm := [.notify, .update] } : Cfg).WF = false := by decide

/-- The crate's own `Condvar::wait_while` (wrapper over std / parking_lot in `utils/private.rs`) re-checks its
condition after every wake-up in both lock implementations: `Answers` shares one condition variable between all
`hot_reload` callers and the reloader and wakes with `notify_all`, so the model's "a waiter proceeds only when its
own condition holds" is this fact. -/
theorem C07_wait_while_rechecks : waitWhileRechecksStd = true ∧ waitWhileRechecksParkingLot = true := by decide

/-- Both maps (sharded `AssetCache`, single-threaded `LocalAssetCache`) insert with `entry(key).or_insert(entry)` inside one
lock / borrow scope: the first entry for a key survives, handles that were given out stay valid, a late entry is dropped. -/
theorem C07_insert_keeps_first :
    AmVerif.Gen.skel_cache_AssetMap_for_AssetMap_insert = [.call .s_get_shard, .acq .s_write 0, .call .s_entry, .call .s_or_insert, .rel 0] ∧
    AmVerif.Gen.skel_local_cache_AssetMap_for_AssetMap_insert = [.acq .s_borrow_mut 0, .call .s_entry, .call .s_or_insert, .rel 0] := ⟨rfl, rfl⟩

/-- Value-level facts of the `hot_reload` handshake that no effect skeleton shows: a caller waits for exactly its own token, the
reloader publishes only into an empty slot, tokens are distinct, `notify_all` wakes every sleeper; and a request takes in the events
that were sent before it (the loop is bounded by the length of the EVENT channel). -/
theorem C07_handshake_values : AmVerif.Gen.answersHandshakeExact = true ∧ AmVerif.Gen.requestTakesPendingEvents = true := by decide

end AmVerif.Props.C07
